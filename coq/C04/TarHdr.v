(* C04 — model of lib/tar/src/write_header.c (write_tar_header and helpers),
   padd_file.c, read_header.c (check_version, decode_header, read_header),
   record_to_memory.c, pax_header.c, read_sparse_map_old.c,
   read_sparse_map_new.c.  An input stream is the [list N] of the bytes not yet
   consumed; an output stream is the list of bytes appended.  C strings are
   [list N] without the terminating NUL.  Definitions only.

   The model follows the code as repaired: (F22) write_tar_header decides the
   record type before it emits any extension record.  The PAX reader PREPENDS
   every SCHILY / LIBARCHIVE xattr record (pax_xattr_schily: xattr->next =
   out->xattr; out->xattr = xattr), so the decoded list is the reverse of the
   record order; sqfs2tar compensates (fix F23, see TarStream.v). *)
From Coq Require Import List NArith ZArith Bool.
From SqfsV Require Import C04.TarNum.
Import ListNotations.
Local Open Scope N_scope.

(* ---------- strings ---------- *)
Definition zeros (n : nat) : list N := repeat 0 n.

(* memcpy / strncpy of at most n bytes into a zeroed n-byte field *)
Definition pad (n : nat) (s : list N) : list N :=
  firstn n s ++ zeros (n - length (firstn n s)).

(* the C string stored in a byte array: everything before the first NUL *)
Fixpoint cstr (l : list N) : list N :=
  match l with
  | [] => []
  | c :: r => if c =? 0 then [] else c :: cstr r
  end.

Fixpoint list_eqb (a b : list N) : bool :=
  match a, b with
  | [], [] => true
  | x :: a', y :: b' => (x =? y) && list_eqb a' b'
  | _, _ => false
  end.

Fixpoint is_prefix (p s : list N) : bool :=
  match p, s with
  | [], _ => true
  | x :: p', y :: s' => (x =? y) && is_prefix p' s'
  | _ :: _, [] => false
  end.

Fixpoint all_zero (l : list N) : bool :=
  match l with [] => true | c :: r => (c =? 0) && all_zero r end.

(* "%lu" / "%u" / "%zu": decimal digits, most significant first.  21 digits
   are enough for every 64-bit value *)
Fixpoint dec_digits (k : nat) (v : N) : list N :=
  match k with
  | O => []
  | S k' => (48 + (v / 10 ^ N.of_nat k') mod 10) :: dec_digits k' v
  end.
Fixpoint ndig_go (fuel : nat) (v : N) : nat :=
  match fuel with
  | O => 1%nat
  | S f => if v <? 10 then 1%nat else S (ndig_go f (v / 10))
  end.
Definition ndigits (v : N) : nat := ndig_go 20 v.
Definition dec (v : N) : list N := dec_digits (ndigits v) v.

(* ---------- mode bits, device numbers ---------- *)
Definition S_IFMT : N := 61440.
Definition S_IFSOCK : N := 49152.
Definition S_IFLNK : N := 40960.
Definition S_IFREG : N := 32768.
Definition S_IFBLK : N := 24576.
Definition S_IFDIR : N := 16384.
Definition S_IFCHR : N := 8192.
Definition S_IFIFO : N := 4096.

(* mode is a sqfs_u16 *)
Definition ftype (m : N) : N := (m / 4096) mod 16 * 4096.   (* m & S_IFMT *)
Definition perm (m : N) : N := m mod 4096.                 (* m & ~S_IFMT = m & 07777 *)

(* glibc gnu_dev_major / gnu_dev_minor / gnu_dev_makedev on a 64-bit dev_t *)
Definition dev_major (d : N) : N := (d / 2 ^ 44) mod 2 ^ 20 * 2 ^ 12 + (d / 2 ^ 8) mod 2 ^ 12.
Definition dev_minor (d : N) : N := (d / 2 ^ 20) mod 2 ^ 24 * 2 ^ 8 + d mod 2 ^ 8.
Definition two32 : N := 4294967296.
Definition makedev (maj min : N) : N :=
  let a := maj mod two32 in let b := min mod two32 in
  (a / 4096) * 2 ^ 44 + (a mod 4096) * 2 ^ 8 + (b / 256) * 2 ^ 20 + b mod 256.

(* "int maj = major(rdev)" passed on as sqfs_u64 *)
Definition int_to_u64 (x : N) : N := if x <? 2147483648 then x else x + (two64 - two32).

(* ---------- entries ---------- *)
Record entry := mkentry {
  e_name : list N;
  e_mode : N;          (* sqfs_u16 *)
  e_uid : N;
  e_gid : N;           (* sqfs_u64 *)
  e_size : N;
  e_mtime : Z;         (* sqfs_s64 *)
  e_rdev : N;
  e_hardlink : bool    (* flags & SQFS_DIR_ENTRY_FLAG_HARD_LINK *)
}.

Definition xattr := (list N * list N)%type.   (* key (C string), value (blob) *)

(* ---------- writer ---------- *)
Definition magic_old : list N := [117; 115; 116; 97; 114; 32].   (* "ustar " *)
Definition version_old : list N := [32; 0].                      (* " \0" *)
Definition magic_posix : list N := [117; 115; 116; 97; 114; 0].  (* "ustar\0" *)
Definition version_posix : list N := [48; 48].                   (* "00" *)

(* one 512-byte header block; every field is written into a zeroed struct *)
Definition hdr_bytes (name : list N) (mode uid gid size : N) (mtime : Z)
           (type : N) (link : list N) (maj min : N) : list N :=
  let pre := pad 100 name ++ write_number mode 8 ++ write_number uid 8 ++
             write_number gid 8 ++ write_number size 12 ++
             write_number_signed mtime 12 in
  let post := type :: pad 100 link ++ magic_old ++ version_old ++
              pad 32 (dec uid) ++ pad 32 (dec gid) ++
              write_number maj 8 ++ write_number min 8 ++ zeros 167 in
  pre ++ chksum_field (sum pre + 256 + sum post) ++ post.

(* static write_header(): name is copied with strncpy(.., 99); the link name
   with memcpy(.., ent->size) — callers pass targets shorter than 100 only *)
Definition write_header (e : entry) (name : list N) (slink : option (list N)) (type : N) : list N :=
  let isdev := (ftype (e_mode e) =? S_IFCHR) || (ftype (e_mode e) =? S_IFBLK) in
  let maj := if isdev then int_to_u64 (dev_major (e_rdev e)) else 0 in
  let min := if isdev then int_to_u64 (dev_minor (e_rdev e)) else 0 in
  let size := if ftype (e_mode e) =? S_IFREG then e_size e else 0 in
  hdr_bytes (firstn 99 name) (perm (e_mode e)) (e_uid e) (e_gid e) size (e_mtime e) type
            (match slink with Some t => t | None => [] end) maj min.

Definition padding (size : N) : list N :=
  let p := size mod 512 in
  if p =? 0 then [] else zeros (N.to_nat (512 - p)).

Definition with_reg_mode (e : entry) (len : N) : entry :=
  mkentry (e_name e) (S_IFREG + 420) (e_uid e) (e_gid e) len (e_mtime e) (e_rdev e) (e_hardlink e).

Definition write_ext_header (orig : entry) (payload : list N) (type : N) (name : list N) : list N :=
  let len := N.of_nat (length payload) in
  write_header (with_reg_mode orig len) name None type ++ payload ++ padding len.

Definition T_FILE : N := 48.
Definition T_LINK : N := 49.
Definition T_SLINK : N := 50.
Definition T_CHR : N := 51.
Definition T_BLK : N := 52.
Definition T_DIR : N := 53.
Definition T_FIFO : N := 54.
Definition T_GNU_SLINK : N := 75.  (* 'K' *)
Definition T_GNU_PATH : N := 76.   (* 'L' *)
Definition T_GNU_SPARSE : N := 83. (* 'S' *)
Definition T_PAX : N := 120.       (* 'x' *)
Definition T_PAX_GLOBAL : N := 103. (* 'g' *)

Definition str_gnu_target := [103;110;117;47;116;97;114;103;101;116].  (* "gnu/target" *)
Definition str_gnu_name := [103;110;117;47;110;97;109;101].            (* "gnu/name" *)
Definition str_gnu_data := [103;110;117;47;100;97;116;97].            (* "gnu/data" *)
Definition str_pax_xattr := [112;97;120;47;120;97;116;116;114].        (* "pax/xattr" *)
Definition str_hardlink_ := [104;97;114;100;108;105;110;107;95].      (* "hardlink_" *)
Definition str_schily := [83;67;72;73;76;89;46;120;97;116;116;114;46]. (* "SCHILY.xattr." *)

(* prefix_digit_len: smallest fixpoint of n -> num_digits(len + n) from 0 *)
Definition num_digits (n : N) : N := N.of_nat (length (dec n)).
Fixpoint pdl_go (fuel : nat) (len old : N) : N :=
  match fuel with
  | O => old
  | S f => let nd := num_digits (len + old) in
           if nd =? old then nd else pdl_go f len nd
  end.
Definition prefix_digit_len (len : N) : N := pdl_go 25 len 0.

Definition schily_record (x : xattr) : list N :=
  let '(key, value) := x in
  let len0 := 13 + N.of_nat (length key) + N.of_nat (length value) + 3 in
  let len := len0 + prefix_digit_len len0 in
  dec len ++ [32] ++ str_schily ++ key ++ [61] ++ value ++ [10].

Definition schily_payload (xs : list xattr) : list N := concat (map schily_record xs).

Inductive wres :=
| W_Ok (bytes : list N)
| W_Unsupported.           (* SQFS_ERROR_UNSUPPORTED, nothing appended (after fix F22) *)

Definition write_hard_link (e : entry) (target : list N) (counter : N) : list N :=
  let k := if Nat.leb 100 (length target)
           then write_ext_header e target T_GNU_SLINK (str_gnu_target ++ dec counter) else [] in
  let linkf := if Nat.leb 100 (length target) then str_hardlink_ ++ dec counter else target in
  let l := if Nat.leb 100 (length (e_name e))
           then write_ext_header e (e_name e) T_GNU_PATH (str_gnu_name ++ dec counter) else [] in
  let namef := if Nat.leb 100 (length (e_name e)) then str_gnu_data ++ dec counter else e_name e in
  k ++ l ++ hdr_bytes namef (perm (e_mode e)) (e_uid e) (e_gid e) 0 (e_mtime e) T_LINK linkf 0 0.

Definition type_of_mode (m : N) : option N :=
  let t := ftype m in
  if t =? S_IFCHR then Some T_CHR
  else if t =? S_IFBLK then Some T_BLK
  else if t =? S_IFLNK then Some T_SLINK
  else if t =? S_IFREG then Some T_FILE
  else if t =? S_IFDIR then Some T_DIR
  else if t =? S_IFIFO then Some T_FIFO
  else None.

(* write_tar_header.  [target] is the link target handed in by the caller
   (present for symlinks and hard links); for a symlink the caller's
   ent->size equals the length of the target. *)
Definition write_tar_header (e : entry) (target : option (list N)) (xs : list xattr)
           (counter : N) : wres :=
  if e_hardlink e then
    W_Ok (write_hard_link e (match target with Some t => t | None => [] end) counter)
  else
    match type_of_mode (e_mode e) with
    | None => W_Unsupported
    | Some type =>
      let islnk := ftype (e_mode e) =? S_IFLNK in
      let x := match xs with
               | [] => []
               | _ => write_ext_header e (schily_payload xs) T_PAX (str_pax_xattr ++ dec counter)
               end in
      let tgt := if islnk then target else None in
      let longl := match tgt with Some t => Nat.leb 100 (length t) | None => false end in
      let k := match tgt with
               | Some t => if longl then write_ext_header e t T_GNU_SLINK (str_gnu_target ++ dec counter) else []
               | None => []
               end in
      let tgt' := if longl then None else tgt in
      let longn := Nat.leb 100 (length (e_name e)) in
      let l := if longn then write_ext_header e (e_name e) T_GNU_PATH (str_gnu_name ++ dec counter) else [] in
      let name := if longn then str_gnu_data ++ dec counter else e_name e in
      W_Ok (x ++ k ++ l ++ write_header e name tgt' type)
    end.

(* ---------- reader ---------- *)
Definition take (n : nat) (l : list N) : list N * list N := (firstn n l, skipn n l).

Record raw := mkraw {
  h_name : list N; h_mode : list N; h_uid : list N; h_gid : list N;
  h_size : list N; h_mtime : list N; h_chksum : list N; h_type : N;
  h_link : list N; h_magic : list N; h_version : list N;
  h_uname : list N; h_gname : list N; h_devmajor : list N; h_devminor : list N;
  h_tail : list N
}.

Definition parse_raw (h : list N) : raw :=
  let '(name, r) := take 100 h in
  let '(mode, r) := take 8 r in
  let '(uid, r) := take 8 r in
  let '(gid, r) := take 8 r in
  let '(size, r) := take 12 r in
  let '(mtime, r) := take 12 r in
  let '(chksum, r) := take 8 r in
  let '(ty, r) := take 1 r in
  let '(link, r) := take 100 r in
  let '(magic, r) := take 6 r in
  let '(version, r) := take 2 r in
  let '(uname, r) := take 32 r in
  let '(gname, r) := take 32 r in
  let '(devmajor, r) := take 8 r in
  let '(devminor, r) := take 8 r in
  mkraw name mode uid gid size mtime chksum (hd 0 ty) link magic version uname gname
        devmajor devminor r.

Inductive tver := V_UNKNOWN | V_V7 | V_PRE_POSIX | V_POSIX.

Definition check_version (r : raw) : tver :=
  if all_zero (h_magic r) && all_zero (h_version r) then V_V7
  else if list_eqb (h_magic r) magic_posix && list_eqb (h_version r) version_posix then V_POSIX
  else if list_eqb (h_magic r) magic_old && list_eqb (h_version r) version_old then V_PRE_POSIX
  else V_UNKNOWN.

Definition checksum_valid (h : list N) (r : raw) : bool :=
  match read_number (h_chksum r) with
  | Some c => c =? checksum h
  | None => false
  end.

Inductive pflag := P_SIZE | P_UID | P_GID | P_DEV_MAJ | P_DEV_MIN | P_NAME | P_SLINK
                 | P_MTIME | P_SPARSE_SIZE | P_SPARSE_1X.
Definition pflag_eqb (a b : pflag) : bool :=
  match a, b with
  | P_SIZE, P_SIZE | P_UID, P_UID | P_GID, P_GID | P_DEV_MAJ, P_DEV_MAJ
  | P_DEV_MIN, P_DEV_MIN | P_NAME, P_NAME | P_SLINK, P_SLINK | P_MTIME, P_MTIME
  | P_SPARSE_SIZE, P_SPARSE_SIZE | P_SPARSE_1X, P_SPARSE_1X => true
  | _, _ => false
  end.
Definition has (f : pflag) (fl : list pflag) : bool := existsb (pflag_eqb f) fl.

(* tar_header_decoded_t; [d_sparse = []] is the NULL list, [None] a NULL string *)
Record dec_hdr := mkdec {
  d_name : option (list N);
  d_link : option (list N);
  d_sparse : list (N * N);
  d_actual : N;
  d_record : N;
  d_unknown : bool;
  d_hl : bool;
  d_xattr : list xattr;
  d_mode : N;
  d_uid : N;
  d_gid : N;
  d_dev : N;
  d_mtime : Z
}.

Definition dec0 : dec_hdr := mkdec None None [] 0 0 false false [] 0 0 0 0 0%Z.

Definition set_name d v := mkdec v (d_link d) (d_sparse d) (d_actual d) (d_record d) (d_unknown d) (d_hl d) (d_xattr d) (d_mode d) (d_uid d) (d_gid d) (d_dev d) (d_mtime d).
Definition set_link d v := mkdec (d_name d) v (d_sparse d) (d_actual d) (d_record d) (d_unknown d) (d_hl d) (d_xattr d) (d_mode d) (d_uid d) (d_gid d) (d_dev d) (d_mtime d).
Definition set_sparse d v := mkdec (d_name d) (d_link d) v (d_actual d) (d_record d) (d_unknown d) (d_hl d) (d_xattr d) (d_mode d) (d_uid d) (d_gid d) (d_dev d) (d_mtime d).
Definition set_actual d v := mkdec (d_name d) (d_link d) (d_sparse d) v (d_record d) (d_unknown d) (d_hl d) (d_xattr d) (d_mode d) (d_uid d) (d_gid d) (d_dev d) (d_mtime d).
Definition set_record d v := mkdec (d_name d) (d_link d) (d_sparse d) (d_actual d) v (d_unknown d) (d_hl d) (d_xattr d) (d_mode d) (d_uid d) (d_gid d) (d_dev d) (d_mtime d).
Definition set_unknown d v := mkdec (d_name d) (d_link d) (d_sparse d) (d_actual d) (d_record d) v (d_hl d) (d_xattr d) (d_mode d) (d_uid d) (d_gid d) (d_dev d) (d_mtime d).
Definition set_hl d v := mkdec (d_name d) (d_link d) (d_sparse d) (d_actual d) (d_record d) (d_unknown d) v (d_xattr d) (d_mode d) (d_uid d) (d_gid d) (d_dev d) (d_mtime d).
Definition set_xattr d v := mkdec (d_name d) (d_link d) (d_sparse d) (d_actual d) (d_record d) (d_unknown d) (d_hl d) v (d_mode d) (d_uid d) (d_gid d) (d_dev d) (d_mtime d).
Definition set_mode d v := mkdec (d_name d) (d_link d) (d_sparse d) (d_actual d) (d_record d) (d_unknown d) (d_hl d) (d_xattr d) v (d_uid d) (d_gid d) (d_dev d) (d_mtime d).
Definition set_uid d v := mkdec (d_name d) (d_link d) (d_sparse d) (d_actual d) (d_record d) (d_unknown d) (d_hl d) (d_xattr d) (d_mode d) v (d_gid d) (d_dev d) (d_mtime d).
Definition set_gid d v := mkdec (d_name d) (d_link d) (d_sparse d) (d_actual d) (d_record d) (d_unknown d) (d_hl d) (d_xattr d) (d_mode d) (d_uid d) v (d_dev d) (d_mtime d).
Definition set_dev d v := mkdec (d_name d) (d_link d) (d_sparse d) (d_actual d) (d_record d) (d_unknown d) (d_hl d) (d_xattr d) (d_mode d) (d_uid d) (d_gid d) v (d_mtime d).
Definition set_mtime d v := mkdec (d_name d) (d_link d) (d_sparse d) (d_actual d) (d_record d) (d_unknown d) (d_hl d) (d_xattr d) (d_mode d) (d_uid d) (d_gid d) (d_dev d) v.

(* small option-monad helpers *)
Definition obind {A B} (o : option A) (f : A -> option B) : option B :=
  match o with Some a => f a | None => None end.

(* decode_header(hdr, set_by_pax, out, version) *)
Definition decode_header (r : raw) (fl : list pflag) (out : dec_hdr) (ver : tver) : option dec_hdr :=
  let out :=
    if has P_NAME fl then out
    else
      let prefix := firstn 155 (h_tail r) in
      match ver, prefix with
      | V_POSIX, c :: _ =>
        if c =? 0 then set_name out (Some (cstr (h_name r)))
        else set_name out (Some (cstr prefix ++ [47] ++ cstr (h_name r)))
      | _, _ => set_name out (Some (cstr (h_name r)))
      end in
  obind (if has P_SIZE fl then Some out
         else obind (read_number (h_size r)) (fun v => Some (set_record out v))) (fun out =>
  obind (if has P_UID fl then Some out
         else obind (read_number (h_uid r)) (fun v => Some (set_uid out v))) (fun out =>
  obind (if has P_GID fl then Some out
         else obind (read_number (h_gid r)) (fun v => Some (set_gid out v))) (fun out =>
  obind (if has P_DEV_MAJ fl then Some out
         else obind (read_number (h_devmajor r))
                    (fun v => Some (set_dev out (makedev v (dev_minor (d_dev out)))))) (fun out =>
  obind (if has P_DEV_MIN fl then Some out
         else obind (read_number (h_devminor r))
                    (fun v => Some (set_dev out (makedev (dev_major (d_dev out)) v)))) (fun out =>
  obind (if has P_MTIME fl then Some out
         else obind (read_number (h_mtime r)) (fun v => Some (set_mtime out (s64_of_u64 v)))) (fun out =>
  obind (read_number (h_mode r)) (fun m =>
  let out := set_mode out (m mod 4096) in
  let ty := h_type r in
  let out :=
    if ((ty =? T_LINK) || (ty =? T_SLINK)) && negb (has P_SLINK fl)
    then set_link out (Some (cstr (h_link r))) else out in
  let out := set_unknown out false in
  Some (
    if (ty =? 0) || (ty =? T_FILE) || (ty =? T_GNU_SPARSE) then set_mode out (d_mode out + S_IFREG)
    else if ty =? T_LINK then set_hl out true
    else if ty =? T_SLINK then set_mode out (S_IFLNK + 511)
    else if ty =? T_CHR then set_mode out (d_mode out + S_IFCHR)
    else if ty =? T_BLK then set_mode out (d_mode out + S_IFBLK)
    else if ty =? T_DIR then set_mode out (d_mode out + S_IFDIR)
    else if ty =? T_FIFO then set_mode out (d_mode out + S_IFIFO)
    else set_unknown out true)))))))).

(* record_to_memory(fp, size): the bytes, and the stream after the padding
   (sqfs_istream_skip stops silently at end-of-file) *)
Definition round_pad (size : N) : nat :=
  let p := size mod 512 in if p =? 0 then O else N.to_nat (512 - p).

Definition record_to_memory (s : list N) (size : N) : option (list N * list N) :=
  if N.of_nat (length s) <? size then None
  else let n := N.to_nat size in
       Some (firstn n s, skipn (round_pad size) (skipn n s)).

(* sqfs_istream_skip(fp, n) for a 64-bit n *)
Definition skipN (n : N) (s : list N) : list N :=
  if N.of_nat (length s) <=? n then [] else skipn (N.to_nat n) s.

(* ---------- old GNU sparse maps ---------- *)
(* parse(): [ents] is the byte array holding [count] entries of 24 bytes *)
Inductive sp_res := SP_More (acc : list (N * N)) | SP_Stop (acc : list (N * N)) | SP_Err.

Fixpoint sp_parse (count : nat) (b : list N) (acc : list (N * N)) : sp_res :=
  match count with
  | O => SP_More acc
  | S c =>
    let off := firstn 12 b in
    let num := firstn 12 (skipn 12 b) in
    if negb (is_digit (hd 0 off)) || negb (is_digit (hd 0 num)) then SP_Stop acc
    else match read_number off, read_number num with
         | Some o, Some n => sp_parse c (skipn 24 b) (acc ++ [(o, n)])
         | _, _ => SP_Err
         end
  end.

Fixpoint sp_ext (fuel : nat) (s : list N) (acc : list (N * N)) : option (list (N * N) * list N) :=
  match fuel with
  | O => None
  | S f =>
    let rec := firstn 512 s in
    if Nat.ltb (length rec) 512 then None
    else match sp_parse 21 rec acc with
         | SP_Err => None
         | SP_Stop acc' => Some (acc', skipn 512 s)
         | SP_More acc' =>
           if hd 0 (skipn 504 rec) =? 0 then Some (acc', skipn 512 s)
           else sp_ext f (skipn 512 s) acc'
         end
  end.

(* read_gnu_old_sparse(fp, hdr); None = NULL result *)
Definition read_gnu_old_sparse (s : list N) (r : raw) : option (list (N * N) * list N) :=
  let t := h_tail r in
  match sp_parse 4 (skipn 41 t) [] with
  | SP_Err => None
  | SP_Stop acc => Some (acc, s)
  | SP_More acc =>
    if hd 0 (skipn 137 t) =? 0 then Some (acc, s)
    else sp_ext (S (length s)) s acc
  end.

(* ---------- GNU sparse 1.0 maps (in the data area) ---------- *)
Inductive dres := D_Need | D_Err | D_Ok (v : N) (used : nat).

(* decode(str, len): [l] is exactly the len bytes available *)
Fixpoint spd_go (l : list N) (acc : N) (count : nat) : option (N * nat * list N) :=
  match l with
  | c :: r =>
    if is_digit c then
      let a := acc * 10 in
      if two64 <=? a then None
      else let a' := a + (c - 48) in
           if two64 <=? a' then None else spd_go r a' (S count)
    else Some (acc, count, l)
  | [] => Some (acc, count, [])
  end.

Definition sp_decode (l : list N) : dres :=
  match spd_go l 0 O with
  | None => D_Err
  | Some (v, count, rest) =>
    match count, rest with
    | O, _ => D_Need
    | _, [] => D_Need
    | _, c :: _ => if c =? 10 then D_Ok v (S count) else D_Err
    end
  end.

(* the for loop of read_gnu_new_sparse; [buf] is the window (512 bytes, the
   bytes before [diff] already consumed), [i] counts numbers still to read *)
Fixpoint sp_new_loop (todo : nat) (s : list N) (buf : list N) (diff : nat) (rsize : N)
         (acc : list N) : option (list N * list N * N) :=
  match todo with
  | O => Some (acc, s, rsize)
  | S t =>
    match sp_decode (skipn diff buf) with
    | D_Err => None
    | D_Ok v used => sp_new_loop t s buf (diff + used) rsize (acc ++ [v])
    | D_Need =>
      if rsize <? 512 then None
      else
        let blk := firstn 512 s in
        if Nat.ltb (length blk) 512 then None
        else match sp_decode (skipn diff (buf ++ blk)) with
             | D_Ok v used =>
               sp_new_loop t (skipn 512 s) blk (diff + used - 512) (rsize - 512) (acc ++ [v])
             | _ => None
             end
    end
  end.

Fixpoint pair_up (l : list N) : list (N * N) :=
  match l with
  | a :: b :: r => (a, b) :: pair_up r
  | _ => []
  end.

(* read_gnu_new_sparse(fp, out): map, rest of stream, new record_size *)
Definition read_gnu_new_sparse (s : list N) (rsize : N) : option (list (N * N) * list N * N) :=
  if rsize <? 512 then None
  else
    let buf := firstn 512 s in
    if Nat.ltb (length buf) 512 then None
    else match sp_decode buf with
         | D_Ok count used =>
           if (count =? 0) || (65536 <? count) then None
           else match sp_new_loop (N.to_nat (count * 2)) (skipn 512 s) buf used (rsize - 512) [] with
                | Some (vals, s', rs) => Some (pair_up vals, s', rs)
                | None => None
                end
         | _ => None
         end.

(* ---------- PAX extended headers ---------- *)
(* parse() of lib/util/src/parse_int.c with base 10 and diff != NULL:
   value and number of characters used *)
Definition u64_max : N := two64 - 1.
Fixpoint pu_go (l : list N) (acc : N) (count : nat) : option (N * nat) :=
  match l with
  | c :: r =>
    if is_digit c then
      if u64_max / 10 <=? acc then None
      else let a := acc * 10 in
           let x := c - 48 in
           if u64_max - x <? a then None else pu_go r (a + x) (S count)
    else Some (acc, count)
  | [] => Some (acc, count)
  end.

Definition parse_uint (l : list N) : option (N * nat) :=
  match l with
  | c :: _ => if is_digit c then pu_go l 0 O else None
  | [] => None
  end.

Definition parse_int (l : list N) : option Z :=
  let '(neg, l') := match l with
                    | c :: r => if c =? 45 then (true, r) else (false, l)
                    | [] => (false, l)
                    end in
  match parse_uint l' with
  | None => None
  | Some (v, _) =>
    if two63 - 1 <=? v then None
    else Some (if neg then (- Z.of_N v)%Z else Z.of_N v)
  end.

(* strtol(line, &ptr, 10) on the NUL-terminated buffer: (value, index of ptr);
   index 0 = no conversion.  The value is not saturated at LONG_MAX: the only
   use compares it with a length below 2^17. *)
Fixpoint skip_spaces_n (l : list N) (n : nat) : list N * nat :=
  match l with
  | c :: r => if is_space c then skip_spaces_n r (S n) else (l, n)
  | [] => ([], n)
  end.

Fixpoint digits_go (l : list N) (acc : N) (count : nat) : N * nat :=
  match l with
  | c :: r => if is_digit c then digits_go r (acc * 10 + (c - 48)) (S count) else (acc, count)
  | [] => (acc, count)
  end.

Definition strtol (l : list N) : Z * nat :=
  let '(l1, n1) := skip_spaces_n l O in
  let '(neg, l2, n2) := match l1 with
                        | c :: r => if c =? 45 then (true, r, S n1)
                                    else if c =? 43 then (false, r, S n1) else (false, l1, n1)
                        | [] => (false, l1, n1)
                        end in
  let '(v, cnt) := digits_go l2 0 O in
  match cnt with
  | O => (0%Z, O)
  | _ => ((if neg then - Z.of_N v else Z.of_N v)%Z, (n2 + cnt)%nat)
  end.

Fixpoint take_key (l : list N) : list N * list N :=
  match l with
  | c :: r => if (c =? 0) || (c =? 61) then ([], l)
              else let '(k, rest) := take_key r in (c :: k, rest)
  | [] => ([], [])
  end.

Inductive pl_res := PL_Ok (key value : list N) (len : nat) | PL_Err.

(* one iteration of the framing part of read_pax_header's loop; [l] are the
   bytes from [line] to [end] *)
Definition pax_line (l : list N) : pl_res :=
  let '(lenz, p) := strtol l in
  match p with
  | O => PL_Err
  | _ =>
    if negb (is_space (nth p l 0)) || (lenz <=? 0)%Z then PL_Err
    else
      if (Z.of_nat (length l) <? lenz)%Z then PL_Err
      else
        let len := Z.to_nat lenz in
        let line := firstn (len - 1) l in   (* line[len-1] = '\0' *)
        if Nat.leb len p then PL_Err         (* ptr beyond the record *)
        else
          let '(_, p') := skip_spaces_n (skipn p line) p in
          let '(key, rest) := take_key (skipn p' line) in
          match key, rest with
          | _ :: _, 61 :: value => PL_Ok key value len
          | _, _ => PL_Err
          end
  end.

(* pax_sparse_map: "off,count[,off,count]*" *)
Fixpoint psm_go (fuel : nat) (l : list N) (acc : list (N * N)) : option (list (N * N)) :=
  match fuel with
  | O => None
  | S f =>
    match parse_uint l with
    | None => None
    | Some (off, d1) =>
      match skipn d1 l with
      | 44 :: l1 =>
        match parse_uint l1 with
        | None => None
        | Some (cnt, d2) =>
          let acc' := acc ++ [(off, cnt)] in
          match skipn d2 l1 with
          | 44 :: l2 => psm_go f l2 acc'
          | _ => Some acc'
          end
        end
      | _ => None
      end
    end
  end.

(* ---- LIBARCHIVE.xattr: urldecode of the key, base64 of the value ---- *)
Definition is_upper c := (65 <=? c) && (c <=? 90).
Definition is_lower c := (97 <=? c) && (c <=? 122).
Definition is_xdigit c := is_digit c || ((65 <=? c) && (c <=? 70)) || ((97 <=? c) && (c <=? 102)).
Definition xdigit_val c := if is_upper c then c - 65 + 10 else if is_lower c then c - 97 + 10 else c - 48.

Fixpoint urldecode (l : list N) : list N :=
  match l with
  | [] => []
  | c :: r =>
    if c =? 37 then
      match r with
      | a :: r1 =>
        match r1 with
        | b :: r2 =>
          if is_xdigit a && is_xdigit b then (xdigit_val a * 16 + xdigit_val b) :: urldecode r2
          else c :: urldecode r
        | [] => c :: urldecode r
        end
      | [] => c :: urldecode r
      end
    else c :: urldecode r
  end.

Definition b64_digit (c : N) : option N :=
  if is_upper c then Some (c - 65)
  else if is_lower c then Some (c - 97 + 26)
  else if is_digit c then Some (c - 48 + 52)
  else if c =? 43 then Some 62
  else if (c =? 47) || (c =? 45) then Some 63
  else None.

Definition is_b64_pad c := (c =? 61) || (c =? 95).

(* base64_decode(in, in_len, out, &out_len) with out_len = in_len on entry;
   the capacity test can never fire then (3 output bytes per 4 input bytes) *)
Fixpoint b64_go (fuel : nat) (l : list N) (acc : list N) : option (list N) :=
  match fuel with
  | O => None
  | S f =>
    match l with
    | c1 :: c2 :: c3 :: c4 :: r =>
      match b64_digit c1, b64_digit c2 with
      | Some i1, Some i2 =>
        let o1 := (i1 * 4 + i2 / 16) mod 256 in
        if is_b64_pad c3 then
          if negb (is_b64_pad c4) || negb (match r with [] => true | _ => false end) then None
          else Some (acc ++ [o1])
        else match b64_digit c3 with
             | None => None
             | Some i3 =>
               let o2 := ((i2 mod 16) * 16 + i3 / 4) mod 256 in
               if is_b64_pad c4 then
                 match r with [] => Some (acc ++ [o1; o2]) | _ => None end
               else match b64_digit c4 with
                    | None => None
                    | Some i4 => b64_go f r (acc ++ [o1; o2; ((i3 mod 4) * 64 + i4) mod 256])
                    end
             end
      | _, _ => None
      end
    | [] => Some acc
    | [_] => None
    | c1 :: c2 :: r =>            (* libarchive's truncated tail: 2 or 3 characters *)
      match b64_digit c1, b64_digit c2 with
      | Some i1, Some i2 =>
        let o1 := (i1 * 4 + i2 / 16) mod 256 in
        match r with
        | [] => Some (acc ++ [o1])
        | c3 :: _ =>
          if is_b64_pad c3 then Some (acc ++ [o1])
          else match b64_digit c3 with
               | None => None
               | Some i3 => Some (acc ++ [o1; ((i2 mod 16) * 16 + i3 / 4) mod 256])
               end
        end
      | _, _ => None
      end
    end
  end.

Definition base64_decode (l : list N) : option (list N) := b64_go (S (length l)) l [].

(* ---- handler table ---- *)
Definition s_uid := [117;105;100].
Definition s_gid := [103;105;100].
Definition s_path := [112;97;116;104].
Definition s_size := [115;105;122;101].
Definition s_linkpath := [108;105;110;107;112;97;116;104].
Definition s_mtime := [109;116;105;109;101].
Definition s_gnu_sparse_ := [71;78;85;46;115;112;97;114;115;101;46].   (* "GNU.sparse." *)
Definition s_name := [110;97;109;101].
Definition s_realsize := [114;101;97;108;115;105;122;101].
Definition s_major := [109;97;106;111;114].
Definition s_minor := [109;105;110;111;114].
Definition s_map := [109;97;112].
Definition s_offset := [111;102;102;115;101;116].
Definition s_numbytes := [110;117;109;98;121;116;101;115].
Definition s_schily_xattr := [83;67;72;73;76;89;46;120;97;116;116;114].             (* "SCHILY.xattr" *)
Definition s_libarchive_xattr := [76;73;66;65;82;67;72;73;86;69;46;120;97;116;116;114]. (* "LIBARCHIVE.xattr" *)

(* state of read_pax_header's loop: flags, header, and the local variables
   offset / sparse_last (as "sparse_last != NULL": a GNU.sparse.numbytes record
   was seen and no GNU.sparse.map record since) *)
Record pstate := mkps { ps_fl : list pflag; ps_out : dec_hdr; ps_off : N; ps_started : bool }.

Definition ps_set (st : pstate) (f : option pflag) (out : dec_hdr) : pstate :=
  mkps (match f with Some x => x :: ps_fl st | None => ps_fl st end) out (ps_off st) (ps_started st).

Definition prefixed (name key : list N) : option (list N) :=
  if is_prefix name key then
    match skipn (length name) key with
    | 46 :: r => Some r
    | _ => None
    end
  else None.

(* find_handler + apply_handler + the two inline GNU.sparse keys *)
Definition pax_apply (st : pstate) (key value : list N) : option pstate :=
  let out := ps_out st in
  let cval := cstr value in
  let uint (f : option pflag) (set : dec_hdr -> N -> dec_hdr) :=
      match parse_uint cval with
      | Some (v, _) => Some (ps_set st f (set out v))
      | None => None
      end in
  if list_eqb key s_uid then uint (Some P_UID) set_uid
  else if list_eqb key s_gid then uint (Some P_GID) set_gid
  else if list_eqb key s_path then Some (ps_set st (Some P_NAME) (set_name out (Some cval)))
  else if list_eqb key s_size then uint (Some P_SIZE) set_record
  else if list_eqb key s_linkpath then Some (ps_set st (Some P_SLINK) (set_link out (Some cval)))
  else if list_eqb key s_mtime then
    match parse_int cval with
    | Some v => Some (ps_set st (Some P_MTIME) (set_mtime out v))
    | None => None
    end
  else if list_eqb key (s_gnu_sparse_ ++ s_name) then
    Some (ps_set st (Some P_NAME) (set_name out (Some cval)))
  else if list_eqb key (s_gnu_sparse_ ++ s_size) then uint (Some P_SPARSE_SIZE) set_actual
  else if list_eqb key (s_gnu_sparse_ ++ s_realsize) then uint (Some P_SPARSE_SIZE) set_actual
  else if list_eqb key (s_gnu_sparse_ ++ s_major) then Some (ps_set st (Some P_SPARSE_1X) out)
  else if list_eqb key (s_gnu_sparse_ ++ s_minor) then Some (ps_set st (Some P_SPARSE_1X) out)
  else match prefixed s_schily_xattr key with
  | Some k => Some (ps_set st None (set_xattr out ((k, value) :: d_xattr out)))
  | None =>
  match prefixed s_libarchive_xattr key with
  | Some k =>
    match base64_decode value with
    | Some v => Some (ps_set st None (set_xattr out ((urldecode k, v) :: d_xattr out)))
    | None => None
    end
  | None =>
  if list_eqb key (s_gnu_sparse_ ++ s_map) then
    match psm_go (S (length cval)) cval [] with
    | Some m =>
      (* the map replaces (and frees) the list the offset/numbytes records
         were appending to: sparse_last = NULL *)
      Some (mkps (ps_fl st) (set_sparse out m) (ps_off st) false)
    | None => None
    end
  else if list_eqb key (s_gnu_sparse_ ++ s_offset) then
    match parse_uint cval with
    | Some (v, _) => Some (mkps (ps_fl st) out v (ps_started st))
    | None => None
    end
  else if list_eqb key (s_gnu_sparse_ ++ s_numbytes) then
    match parse_uint cval with
    | Some (v, _) =>
      let m := if ps_started st then d_sparse out ++ [(ps_off st, v)] else [(ps_off st, v)] in
      Some (mkps (ps_fl st) (set_sparse out m) (ps_off st) true)
    | None => None
    end
  else Some st
  end end.

Fixpoint pax_loop (fuel : nat) (l : list N) (st : pstate) : option pstate :=
  match fuel with
  | O => None
  | S f =>
    match l with
    | [] => Some st
    | _ =>
      match pax_line l with
      | PL_Err => None
      | PL_Ok key value len =>
        match pax_apply st key value with
        | None => None
        | Some st' => pax_loop f (skipn len l) st'
        end
      end
    end
  end.

(* read_pax_header(fp, entsize, &set_by_pax, out) *)
Definition read_pax_header (s : list N) (size : N) (out : dec_hdr)
  : option (list pflag * dec_hdr * list N) :=
  match record_to_memory s size with
  | None => None
  | Some (buf, s') =>
    match pax_loop (S (length buf)) buf (mkps [] out 0 false) with
    | Some st => Some (ps_fl st, ps_out st, s')
    | None => None
    end
  end.

(* ---------- read_header ---------- *)
Inductive rh_result :=
| RH_Ok (d : dec_hdr) (rest : list N)
| RH_Eof
| RH_Err
| RH_Fuel.

Definition MAX_LEN : N := 65536.   (* TAR_MAX_SYMLINK_LEN = _PATH_LEN = _PAX_LEN *)

Definition finish_header (h : list N) (r : raw) (ver : tver) (s : list N)
           (fl : list pflag) (out : dec_hdr) : rh_result :=
  match decode_header r fl out ver with
  | None => RH_Err
  | Some out =>
    let post (out : dec_hdr) (s : list N) :=
        RH_Ok (match d_sparse out with [] => set_actual out (d_record out) | _ => out end) s in
    if has P_SPARSE_1X fl then
      match read_gnu_new_sparse s (d_record out) with
      | Some ((_ :: _) as m, s', rs) => post (set_record (set_sparse out m) rs) s'
      | _ => RH_Err
      end
    else post out s
  end.

Fixpoint rh_loop (fuel : nat) (s : list N) (fl : list pflag) (out : dec_hdr)
         (prev_zero : bool) : rh_result :=
  match fuel with
  | O => RH_Fuel
  | S f =>
    let h := firstn 512 s in
    let s1 := skipn 512 s in
    if Nat.eqb (length h) 0 then RH_Eof               (* clean end of the stream *)
    else if Nat.ltb (length h) 512 then RH_Err         (* partial header record *)
    else if all_zero h then (if prev_zero then RH_Eof else rh_loop f s1 fl out true)
    else
      let r := parse_raw h in
      match check_version r with
      | V_UNKNOWN => RH_Err
      | ver =>
        if negb (checksum_valid h r) then RH_Err
        else
          let ty := h_type r in
          if ty =? T_GNU_SLINK then
            match read_number (h_size r) with
            | None => RH_Err
            | Some sz =>
              if (sz <? 1) || (MAX_LEN <? sz) then RH_Err
              else match record_to_memory s1 sz with
                   | None => RH_Err
                   | Some (buf, s2) => rh_loop f s2 (P_SLINK :: fl) (set_link out (Some (cstr buf))) false
                   end
            end
          else if ty =? T_GNU_PATH then
            match read_number (h_size r) with
            | None => RH_Err
            | Some sz =>
              if (sz <? 1) || (MAX_LEN <? sz) then RH_Err
              else match record_to_memory s1 sz with
                   | None => RH_Err
                   | Some (buf, s2) => rh_loop f s2 (P_NAME :: fl) (set_name out (Some (cstr buf))) false
                   end
            end
          else if ty =? T_PAX_GLOBAL then
            match read_number (h_size r) with
            | None => RH_Err
            | Some sz => rh_loop f (skipn (round_pad sz) (skipN sz s1)) fl out false
            end
          else if ty =? T_PAX then
            match read_number (h_size r) with
            | None => RH_Err
            | Some sz =>
              if (sz <? 1) || (MAX_LEN <? sz) then RH_Err
              else match read_pax_header s1 sz dec0 with
                   | None => RH_Err
                   | Some (fl', out', s2) => rh_loop f s2 fl' out' false
                   end
            end
          else if ty =? T_GNU_SPARSE then
            match read_gnu_old_sparse s1 r with
            | Some ((_ :: _) as m, s2) =>
              match read_number (firstn 12 (skipn 138 (h_tail r))) with
              | None => RH_Err
              | Some rs => finish_header h r ver s2 fl (set_actual (set_sparse out m) rs)
              end
            | _ => RH_Err
            end
          else finish_header h r ver s1 fl out
      end
  end.

(* every iteration consumes at least 512 bytes, so this fuel is never used up *)
Definition read_header (s : list N) : rh_result :=
  rh_loop (S (length s)) s [] dec0 false.
