(* Round-trip proofs for the tar number codecs. *)
From Coq Require Import List NArith ZArith Bool Lia.
From SqfsV Require Import C04.TarNum.
Import ListNotations.
Local Open Scope N_scope.

Lemma pow8_pos k : 0 < 8 ^ k. Proof. apply N.neq_0_lt_0, N.pow_nonzero; discriminate. Qed.
Lemma pow256_pos k : 0 < 256 ^ k. Proof. apply N.neq_0_lt_0, N.pow_nonzero; discriminate. Qed.

Lemma oct_digits_length k v : length (oct_digits k v) = k.
Proof. induction k; simpl; congruence. Qed.

Lemma be_length k v : length (be k v) = k.
Proof. induction k; simpl; congruence. Qed.

Lemma is_odigit_digit d : d < 8 -> is_odigit (48 + d) = true.
Proof. intro H. unfold is_odigit. apply andb_true_intro; split; apply N.leb_le; lia. Qed.

Lemma is_space_digit d : d < 8 -> is_space (48 + d) = false.
Proof.
  intro H. unfold is_space. apply orb_false_intro.
  - apply N.eqb_neq. lia.
  - apply andb_false_intro2. apply N.leb_gt. lia.
Qed.

(* splitting v mod b^(k+1) into its leading digit and the rest *)
Lemma mod_pow_succ b v k : 1 < b ->
  v mod b ^ N.succ k = ((v / b ^ k) mod b) * b ^ k + v mod b ^ k.
Proof.
  intro Hb. rewrite N.pow_succ_r'.
  assert (Hk : b ^ k <> 0) by (apply N.pow_nonzero; lia).
  rewrite (N.mul_comm b (b ^ k)).
  rewrite N.mod_mul_r by lia. lia.
Qed.

Lemma mul_lt_helper a c p x lim : 0 < p -> a * (c * p) + x < lim -> a * c < lim.
Proof.
  intros Hp H. assert (a * c <= a * (c * p)).
  { rewrite N.mul_assoc. rewrite <- (N.mul_1_r (a * c)) at 1. apply N.mul_le_mono_l. lia. }
  lia.
Qed.

(* ---- octal ---- *)
Lemma oct_go_digits k : forall acc v rest,
  acc * 8 ^ N.of_nat k + v mod 8 ^ N.of_nat k < two64 ->
  oct_go acc (oct_digits k v ++ rest) =
  oct_go (acc * 8 ^ N.of_nat k + v mod 8 ^ N.of_nat k) rest.
Proof.
  induction k as [|k IH]; intros acc v rest H.
  - simpl. rewrite N.mod_1_r. f_equal. lia.
  - cbn [oct_digits app oct_go].
    set (d := (v / 8 ^ N.of_nat k) mod 8) in *.
    assert (Hd : d < 8) by (apply N.mod_lt; discriminate).
    rewrite is_odigit_digit by exact Hd.
    rewrite Nat2N.inj_succ in H |- *.
    rewrite (mod_pow_succ 8 v (N.of_nat k)) in H |- * by lia. fold d in H |- *.
    rewrite N.pow_succ_r' in H |- *.
    pose proof (pow8_pos (N.of_nat k)) as Hp.
    assert (Hacc : acc <= oct_limit).
    { pose proof H as H'. apply mul_lt_helper in H'; [|exact Hp]. unfold oct_limit, two64 in *. lia. }
    apply N.ltb_ge in Hacc. rewrite Hacc.
    replace (acc * 8 + (48 + d - 48)) with (acc * 8 + d) by lia.
    rewrite IH.
    + f_equal. lia.
    + lia.
Qed.

Lemma drop_spaces_digits k v rest : (0 < k)%nat ->
  drop_spaces (oct_digits k v ++ rest) = oct_digits k v ++ rest.
Proof.
  destruct k; [lia|]. intros _. cbn [oct_digits app drop_spaces].
  rewrite is_space_digit; [reflexivity|]. apply N.mod_lt; discriminate.
Qed.

Lemma read_octal_digits_term k v t rest : (0 < k)%nat ->
  v < 8 ^ N.of_nat k -> 8 ^ N.of_nat k <= two64 -> is_odigit t = false ->
  read_octal (oct_digits k v ++ t :: rest) = Some v.
Proof.
  intros Hk Hv Hb Ht. unfold read_octal. rewrite drop_spaces_digits by exact Hk.
  rewrite oct_go_digits; rewrite N.mod_small by exact Hv.
  - simpl. rewrite Ht. reflexivity.
  - lia.
Qed.

Lemma read_octal_digits_full k v : (0 < k)%nat ->
  v < 8 ^ N.of_nat k -> 8 ^ N.of_nat k <= two64 ->
  read_octal (oct_digits k v) = Some v.
Proof.
  intros Hk Hv Hb. unfold read_octal.
  rewrite <- (app_nil_r (oct_digits k v)).
  rewrite drop_spaces_digits by exact Hk.
  rewrite oct_go_digits; rewrite N.mod_small by exact Hv.
  - reflexivity.
  - lia.
Qed.

Lemma oct_first_lt128 k v rest x r :
  oct_digits (S k) v ++ rest = x :: r -> x < 128.
Proof.
  intro H. apply (f_equal (hd 0)) in H. cbn [oct_digits app hd] in H. rewrite <- H.
  assert (Hm : (v / 8 ^ N.of_nat k) mod 8 < 8) by (apply N.mod_lt; discriminate).
  revert Hm. generalize ((v / 8 ^ N.of_nat k) mod 8). intros. lia.
Qed.

(* ---- binary ---- *)
Lemma bin_go_be k : forall acc v rest,
  acc * 256 ^ N.of_nat k + v mod 256 ^ N.of_nat k < two64 ->
  bin_go acc (be k v ++ rest) =
  bin_go (acc * 256 ^ N.of_nat k + v mod 256 ^ N.of_nat k) rest.
Proof.
  induction k as [|k IH]; intros acc v rest H.
  - simpl. rewrite N.mod_1_r. f_equal. lia.
  - cbn [be app bin_go].
    set (d := (v / 256 ^ N.of_nat k) mod 256) in *.
    assert (Hd : d < 256) by (apply N.mod_lt; discriminate).
    rewrite Nat2N.inj_succ in H |- *.
    rewrite (mod_pow_succ 256 v (N.of_nat k)) in H |- * by lia. fold d in H |- *.
    rewrite N.pow_succ_r' in H |- *.
    pose proof (pow256_pos (N.of_nat k)) as Hp.
    assert (Hacc : acc < two56).
    { pose proof H as H'. apply mul_lt_helper in H'; [|exact Hp]. unfold two56, two64 in *. lia. }
    rewrite (N.div_small acc two56) by exact Hacc.
    rewrite N.mod_0_l by discriminate. cbn [N.eqb orb].
    assert (Hs : acc * 256 + d < two64) by (unfold two56, two64 in *; lia).
    rewrite (N.mod_small _ _ Hs).
    rewrite IH.
    + f_equal. lia.
    + lia.
Qed.

Lemma bin_go_be_all k acc v :
  acc * 256 ^ N.of_nat k + v mod 256 ^ N.of_nat k < two64 ->
  bin_go acc (be k v) = Some (acc * 256 ^ N.of_nat k + v mod 256 ^ N.of_nat k).
Proof.
  intro H. rewrite <- (app_nil_r (be k v)). rewrite bin_go_be by exact H. reflexivity.
Qed.

(* ---- write_number / read_number at the two field widths of the format ---- *)

Lemma set_high_ge b : b < 256 -> 128 <= set_high b /\ set_high b < 256 /\ set_high b mod 128 = b mod 128.
Proof.
  intro H. unfold set_high. destruct (b <? 128) eqn:E.
  - apply N.ltb_lt in E. repeat split; try lia.
    replace (b + 128) with (b + 1 * 128) by lia. apply N.mod_add. discriminate.
  - apply N.ltb_ge in E. repeat split; lia.
Qed.

(* 8-byte fields (mode, uid, gid, devmajor, devminor): exact for every value
   below 127 * 2^56; above that the 0x80 marker collides with the value *)
Definition lim8 : N := 127 * two56.

Lemma read_write_number_8 v : v < lim8 -> read_number (write_number v 8) = Some v.
Proof.
  intro Hv. unfold write_number.
  change (8 ^ N.of_nat (8 - 1) - 1) with 2097151.
  change (8 ^ N.of_nat 8 - 1) with 16777215.
  destruct (v <=? 2097151) eqn:E1.
  - apply N.leb_le in E1. change (8 - 1)%nat with 7%nat.
    assert (Hr : read_octal (oct_digits 7 v ++ [32]) = Some v).
    { apply read_octal_digits_term; [lia | change (8 ^ N.of_nat 7) with 2097152; lia | vm_compute; discriminate | reflexivity]. }
    unfold read_number. destruct (oct_digits 7 v ++ [32]) as [|x r] eqn:Ex; [exact Hr|].
    apply oct_first_lt128 in Ex. apply N.leb_gt in Ex. rewrite Ex. exact Hr.
  - apply N.leb_gt in E1. destruct (v <=? 16777215) eqn:E2.
    + apply N.leb_le in E2.
      assert (Hr : read_octal (oct_digits 8 v) = Some v).
      { apply read_octal_digits_full; [lia | change (8 ^ N.of_nat 8) with 16777216; lia | vm_compute; discriminate]. }
      unfold read_number. destruct (oct_digits 8 v) as [|x r] eqn:Ex; [exact Hr|].
      rewrite <- (app_nil_r (oct_digits 8 v)) in Ex.
      apply oct_first_lt128 in Ex. apply N.leb_gt in Ex. rewrite Ex. exact Hr.
    + apply N.leb_gt in E2. unfold write_binary.
      change (be 8 v) with (((v / 256 ^ N.of_nat 7) mod 256) :: be 7 v).
      set (b := (v / 256 ^ N.of_nat 7) mod 256).
      assert (Hb : b < 256) by (apply N.mod_lt; discriminate).
      destruct (set_high_ge b Hb) as (H1 & H2 & H3).
      unfold read_number. apply N.leb_le in H1. rewrite H1. unfold read_binary.
      change (256 ^ N.of_nat 7) with two56 in *.
      assert (Hq : v / two56 < 127).
      { apply N.div_lt_upper_bound; [discriminate|]. unfold lim8 in Hv. lia. }
      assert (Eb : b = v / two56) by (unfold b; apply N.mod_small; lia).
      assert (Hne : set_high b <> 255).
      { intro E. rewrite E in H3. change (255 mod 128) with 127 in H3.
        rewrite N.mod_small in H3 by lia. lia. }
      apply N.eqb_neq in Hne. rewrite Hne. rewrite be_length. cbn [Nat.ltb Nat.leb andb].
      rewrite H3. rewrite (N.mod_small b 128) by lia.
      rewrite bin_go_be_all.
      * f_equal. change (256 ^ N.of_nat 7) with two56. rewrite Eb.
        pose proof (N.div_mod v two56). unfold two56 in *. lia.
      * change (256 ^ N.of_nat 7) with two56. rewrite Eb.
        pose proof (N.div_mod v two56). pose proof (N.mod_lt v two56).
        unfold lim8, two56, two64 in *. lia.
Qed.

Lemma lim8_witness : read_number (write_number lim8 8) <> Some lim8.
Proof. vm_compute. discriminate. Qed.

(* the leading four bytes of a 12-byte big-endian u64 are zero *)
Lemma be12_u64 v : v < two64 -> be 12 v = 0 :: 0 :: 0 :: 0 :: be 8 v.
Proof.
  intro H. cbn [be].
  rewrite !(N.div_small v) by
    (eapply N.lt_le_trans; [exact H|]; unfold two64; vm_compute; discriminate).
  reflexivity.
Qed.

Lemma read_write_binary_12 v : v < two64 -> read_number (write_binary v 12) = Some v.
Proof.
  intro H. unfold write_binary. rewrite be12_u64 by exact H.
  change (set_high 0) with 128.
  unfold read_number. change (128 <=? 128) with true. unfold read_binary.
  change (128 =? 255) with false. cbv iota. change (128 mod 128) with 0.
  change (0 =? 0) with true. rewrite andb_false_r.
  change (0 :: 0 :: 0 :: be 8 v) with (be 3 0 ++ be 8 v).
  rewrite bin_go_be by (vm_compute; reflexivity).
  change (0 * 256 ^ N.of_nat 3 + 0 mod 256 ^ N.of_nat 3) with 0.
  rewrite bin_go_be_all.
  - f_equal. change (256 ^ N.of_nat 8) with two64. rewrite N.mod_small by exact H. lia.
  - change (256 ^ N.of_nat 8) with two64. rewrite N.mod_small by exact H. lia.
Qed.

(* 12-byte fields (size, mtime): exact for every u64 *)
Lemma read_write_number_12 v : v < two64 -> read_number (write_number v 12) = Some v.
Proof.
  intro Hv. unfold write_number.
  change (8 ^ N.of_nat (12 - 1) - 1) with 8589934591.
  change (8 ^ N.of_nat 12 - 1) with 68719476735.
  destruct (v <=? 8589934591) eqn:E1.
  - apply N.leb_le in E1. change (12 - 1)%nat with 11%nat.
    assert (Hr : read_octal (oct_digits 11 v ++ [32]) = Some v).
    { apply read_octal_digits_term; [lia | change (8 ^ N.of_nat 11) with 8589934592; lia | vm_compute; discriminate | reflexivity]. }
    unfold read_number. destruct (oct_digits 11 v ++ [32]) as [|x r] eqn:Ex; [exact Hr|].
    apply oct_first_lt128 in Ex. apply N.leb_gt in Ex. rewrite Ex. exact Hr.
  - apply N.leb_gt in E1. destruct (v <=? 68719476735) eqn:E2.
    + apply N.leb_le in E2.
      assert (Hr : read_octal (oct_digits 12 v) = Some v).
      { apply read_octal_digits_full; [lia | change (8 ^ N.of_nat 12) with 68719476736; lia | vm_compute; discriminate]. }
      unfold read_number. destruct (oct_digits 12 v) as [|x r] eqn:Ex; [exact Hr|].
      rewrite <- (app_nil_r (oct_digits 12 v)) in Ex.
      apply oct_first_lt128 in Ex. apply N.leb_gt in Ex. rewrite Ex. exact Hr.
    + apply read_write_binary_12. exact Hv.
Qed.

(* signed 12-byte field (mtime): exact for every s64 except -2^63 *)
Lemma read_write_signed_12 (v : Z) :
  (- Z.of_N two63 < v < Z.of_N two63)%Z ->
  exists f, read_number (write_number_signed v 12) = Some f /\ s64_of_u64 f = v.
Proof.
  intro H. unfold write_number_signed. destruct (v <? 0)%Z eqn:E.
  - apply Z.ltb_lt in E.
    set (u := Z.to_N (Z.of_N two64 + v)).
    assert (Hu : Z.of_N u = (Z.of_N two64 + v)%Z).
    { unfold u. rewrite Z2N.id; [reflexivity|]. unfold two64, two63 in *. lia. }
    exists u. split.
    + apply read_write_binary_12. unfold two64, two63 in *. lia.
    + unfold s64_of_u64. assert (Hge : two63 <= u) by (unfold two64, two63 in *; lia).
      apply N.leb_le in Hge. rewrite Hge.
      rewrite N2Z.inj_sub by (unfold two64, two63 in *; lia). lia.
  - apply Z.ltb_ge in E. exists (Z.to_N v). split.
    + apply read_write_number_12. unfold two64, two63 in *. lia.
    + unfold s64_of_u64. assert (Hlt : Z.to_N v < two63) by (unfold two63 in *; lia).
      apply N.leb_gt in Hlt. rewrite Hlt. apply Z2N.id. exact E.
Qed.

(* ---- lengths and byte-ness of written fields ---- *)
Lemma write_binary_length v k : length (write_binary v k) = k.
Proof.
  unfold write_binary. destruct (be k v) eqn:E.
  - rewrite <- (be_length k v), E. reflexivity.
  - rewrite <- (be_length k v), E. reflexivity.
Qed.

Lemma write_number_length v k : (0 < k)%nat -> length (write_number v k) = k.
Proof.
  intro H. unfold write_number.
  destruct (v <=? _).
  - rewrite app_length, oct_digits_length. simpl. lia.
  - destruct (v <=? _).
    + apply oct_digits_length.
    + apply write_binary_length.
Qed.

Lemma write_number_signed_length v k : (0 < k)%nat -> length (write_number_signed v k) = k.
Proof.
  intro H. unfold write_number_signed. destruct (v <? 0)%Z.
  - apply write_binary_length.
  - apply write_number_length. exact H.
Qed.

Definition byte_ok (b : N) : Prop := b < 256.

Lemma oct_digits_bytes k v : Forall byte_ok (oct_digits k v).
Proof.
  induction k; cbn [oct_digits]; constructor; [|assumption].
  unfold byte_ok. assert (Hm : (v / 8 ^ N.of_nat k) mod 8 < 8) by (apply N.mod_lt; discriminate).
  revert Hm. generalize ((v / 8 ^ N.of_nat k) mod 8). intros n Hm. lia.
Qed.

Lemma be_bytes k v : Forall byte_ok (be k v).
Proof.
  induction k; cbn [be]; constructor; [|assumption].
  unfold byte_ok. apply N.mod_lt. discriminate.
Qed.

Lemma write_binary_bytes v k : Forall byte_ok (write_binary v k).
Proof.
  unfold write_binary. pose proof (be_bytes k v) as H. destruct (be k v); [constructor|].
  inversion H; subst. constructor; [|assumption].
  destruct (set_high_ge n H2) as (_ & ? & _). exact H0.
Qed.

Lemma write_number_bytes v k : Forall byte_ok (write_number v k).
Proof.
  unfold write_number. destruct (v <=? _).
  - apply Forall_app; split; [apply oct_digits_bytes|]. constructor; [unfold byte_ok; lia|constructor].
  - destruct (v <=? _); [apply oct_digits_bytes|apply write_binary_bytes].
Qed.

Lemma write_number_signed_bytes v k : Forall byte_ok (write_number_signed v k).
Proof.
  unfold write_number_signed. destruct (v <? 0)%Z; [apply write_binary_bytes|apply write_number_bytes].
Qed.

(* ---- checksum field ---- *)
Lemma chksum_field_length c : length (chksum_field c) = 8%nat.
Proof. unfold chksum_field. rewrite app_length, oct_digits_length. reflexivity. Qed.

Lemma read_chksum_field c : c < 262144 -> read_number (chksum_field c) = Some c.
Proof.
  intro H. unfold chksum_field.
  assert (Hr : read_octal (oct_digits 6 c ++ [0; 32]) = Some c).
  { apply read_octal_digits_term; [lia | change (8 ^ N.of_nat 6) with 262144; exact H | vm_compute; discriminate | reflexivity]. }
  unfold read_number. destruct (oct_digits 6 c ++ [0; 32]) as [|x r] eqn:Ex; [exact Hr|].
  apply oct_first_lt128 in Ex. apply N.leb_gt in Ex. rewrite Ex. exact Hr.
Qed.

Lemma sum_app a b : sum (a ++ b) = sum a + sum b.
Proof. induction a; simpl; lia. Qed.

Lemma sum_bound l : Forall byte_ok l -> sum l <= 255 * N.of_nat (length l).
Proof.
  induction 1; [simpl; lia|]. unfold byte_ok in H. cbn [sum length].
  rewrite Nat2N.inj_succ. lia.
Qed.
