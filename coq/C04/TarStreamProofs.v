(* The sparse-file stream of the tar iterator delivers the expansion of the
   map, for every schedule of the consumer and of the underlying stream. *)
From Coq Require Import List NArith ZArith Bool Lia ZifyBool ZifyNat ZifyN.
From SqfsV Require Import C04.TarNum C04.TarHdr C04.TarStream.
Import ListNotations.
Local Open Scope N_scope.

(* a position of the file is backed by record data iff some map entry contains
   it; without a map the whole file is data *)
Definition covers (pos : N) (e : N * N) : bool := (fst e <=? pos) && (pos - fst e <? snd e).
Definition covered (m : list (N * N)) (pos : N) : bool :=
  match m with [] => true | _ => existsb (covers pos) m end.

(* position-by-position specification: k bytes from pos on *)
Fixpoint fill (k : nat) (pos : N) (m : list (N * N)) (data : list N) : list N :=
  match k with
  | O => []
  | S k' =>
    if covered m pos then
      match data with
      | d :: r => d :: fill k' (pos + 1) m r
      | [] => []
      end
    else 0 :: fill k' (pos + 1) m data
  end.

Lemma fill_length k : forall pos m data, (length (fill k pos m data) <= k)%nat.
Proof.
  induction k as [|k IH]; intros pos m data; cbn [fill length]; [lia|].
  destruct (covered m pos).
  - destruct data; cbn [length]; [lia|]. specialize (IH (pos + 1) m data). lia.
  - cbn [length]. specialize (IH (pos + 1) m data). lia.
Qed.

Lemma fill_hole n : forall k pos m data,
  (forall i, (i < n)%nat -> covered m (pos + N.of_nat i) = false) ->
  fill (n + k) pos m data = repeat 0 n ++ fill k (pos + N.of_nat n) m data.
Proof.
  induction n as [|n IH]; intros k pos m data H.
  - cbn [Nat.add repeat app]. f_equal. lia.
  - cbn [Nat.add fill repeat app].
    assert (H0 : covered m pos = false).
    { specialize (H O ltac:(lia)). replace (pos + N.of_nat 0) with pos in H by lia. exact H. }
    rewrite H0. f_equal. rewrite IH.
    + f_equal. f_equal. lia.
    + intros i Hi. specialize (H (S i) ltac:(lia)).
      replace (pos + 1 + N.of_nat i) with (pos + N.of_nat (S i)) by lia. exact H.
Qed.

Lemma fill_data n : forall k pos m data,
  (forall i, (i < n)%nat -> covered m (pos + N.of_nat i) = true) ->
  (n <= length data)%nat ->
  fill (n + k) pos m data = firstn n data ++ fill k (pos + N.of_nat n) m (skipn n data).
Proof.
  induction n as [|n IH]; intros k pos m data H Hl.
  - cbn [Nat.add firstn skipn app]. f_equal. lia.
  - destruct data as [|d data]; [cbn in Hl; lia|].
    cbn [Nat.add fill firstn skipn app].
    assert (H0 : covered m pos = true).
    { specialize (H O ltac:(lia)). replace (pos + N.of_nat 0) with pos in H by lia. exact H. }
    rewrite H0. f_equal. rewrite IH.
    + f_equal. f_equal. lia.
    + intros i Hi. specialize (H (S i) ltac:(lia)).
      replace (pos + 1 + N.of_nat i) with (pos + N.of_nat (S i)) by lia. exact H.
    + cbn in Hl. lia.
Qed.

(* ---------- is_sparse_region against [covered] ---------- *)
Lemma find_data_some m pos c :
  find_data m pos = Some c ->
  1 <= c /\ forall i, i < c -> existsb (covers (pos + i)) m = true.
Proof.
  induction m as [|[o k] m IH]; cbn [find_data]; [discriminate|].
  destruct ((o <=? pos) && (pos - o <? k)) eqn:E.
  - intro H. injection H as <-. apply andb_prop in E. destruct E as [E1 E2].
    apply N.leb_le in E1. apply N.ltb_lt in E2. split; [lia|].
    intros i Hi. cbn [existsb]. unfold covers at 1. cbn [fst snd].
    assert (A1 : (o <=? pos + i) = true) by (apply N.leb_le; lia).
    assert (A2 : (pos + i - o <? k) = true) by (apply N.ltb_lt; lia).
    rewrite A1, A2. reflexivity.
  - intro H. destruct (IH H) as (H1 & H2). split; [exact H1|].
    intros i Hi. cbn [existsb]. rewrite (H2 i Hi). apply orb_true_r.
Qed.

Lemma find_data_none m pos : find_data m pos = None -> existsb (covers pos) m = false.
Proof.
  induction m as [|[o k] m IH]; cbn [find_data existsb]; [reflexivity|].
  unfold covers at 1. cbn [fst snd].
  destruct ((o <=? pos) && (pos - o <? k)); [discriminate|]. intro H. rewrite (IH H). reflexivity.
Qed.

Lemma next_start_le m : forall pos c, next_start m pos c <= c.
Proof.
  induction m as [|[o k] m IH]; intros pos c; cbn [next_start]; [lia|].
  destruct ((pos <? o) && (o - pos <? c)) eqn:E.
  - apply andb_prop in E. destruct E as [_ E2]. apply N.ltb_lt in E2.
    specialize (IH pos (o - pos)). lia.
  - apply IH.
Qed.

Lemma next_start_bound m : forall pos c o k,
  In (o, k) m -> pos < o -> next_start m pos c <= o - pos.
Proof.
  induction m as [|[o' k'] m IH]; intros pos c o k Hin Hlt; [contradiction|].
  cbn [next_start]. destruct Hin as [E|Hin].
  - injection E as -> ->.
    assert (A : (pos <? o) = true) by (apply N.ltb_lt; exact Hlt). rewrite A. cbn [andb].
    destruct (o - pos <? c) eqn:E2.
    + apply next_start_le.
    + apply N.ltb_ge in E2. pose proof (next_start_le m pos c). lia.
  - eapply IH; eassumption.
Qed.

Lemma next_start_pos m : forall pos c, 1 <= c -> 1 <= next_start m pos c.
Proof.
  induction m as [|[o k] m IH]; intros pos c H; cbn [next_start]; [exact H|].
  apply IH. destruct ((pos <? o) && (o - pos <? c)) eqn:E; [|exact H].
  apply andb_prop in E. destruct E as [E1 _]. apply N.ltb_lt in E1. lia.
Qed.

(* no entry covers a position of a hole region *)
Lemma hole_uncovered m pos c n i :
  existsb (covers pos) m = false -> n <= next_start m pos c -> i < n ->
  existsb (covers (pos + i)) m = false.
Proof.
  intros Hc Hn Hi.
  destruct (existsb (covers (pos + i)) m) eqn:E; [|reflexivity]. exfalso.
  apply existsb_exists in E. destruct E as ([o k] & Hin & Hcov).
  unfold covers in Hcov. cbn [fst snd] in Hcov. apply andb_prop in Hcov. destruct Hcov as [C1 C2].
  apply N.leb_le in C1. apply N.ltb_lt in C2.
  destruct (N.le_gt_cases o pos) as [Hle|Hgt].
  - (* the entry would cover pos as well *)
    assert (Hp : existsb (covers pos) m = true).
    { apply existsb_exists. exists (o, k). split; [exact Hin|]. unfold covers. cbn [fst snd].
      assert (A1 : (o <=? pos) = true) by (apply N.leb_le; exact Hle).
      assert (A2 : (pos - o <? k) = true) by (apply N.ltb_lt; lia).
      rewrite A1, A2. reflexivity. }
    congruence.
  - pose proof (next_start_bound m pos c o k Hin Hgt). lia.
Qed.

Lemma region_spec m fsize pos :
  pos < fsize ->
  let '(hole, diff) := region m fsize pos in
  1 <= diff /\ diff <= fsize - pos /\
  forall i, i < diff -> covered m (pos + i) = negb hole.
Proof.
  intro Hlt. unfold region, covered. destruct m as [|e m'] eqn:Em.
  - repeat split; try lia.
  - rewrite <- Em. destruct (find_data m pos) as [c|] eqn:E.
    + destruct (find_data_some m pos c E) as (H1 & H2). repeat split; try lia.
      intros i Hi. apply H2. lia.
    + pose proof (find_data_none m pos E) as Hn.
      pose proof (next_start_le m pos (fsize - pos)).
      pose proof (next_start_pos m pos (fsize - pos) ltac:(lia)).
      repeat split; try lia.
      intros i Hi. cbn [negb]. eapply hole_uncovered; [exact Hn|apply N.le_refl|exact Hi].
Qed.

(* ---------- the stream ---------- *)
Lemma repeat_app_nat {A} (x : A) a b : repeat x (a + b) = repeat x a ++ repeat x b.
Proof. induction a; cbn [Nat.add repeat app]; [reflexivity|]. rewrite IHa. reflexivity. Qed.

Theorem stream_go_done sched : forall m fsize pos data out out' data' pos',
  pos <= fsize ->
  stream_go sched m fsize pos data out = S_Done out' data' pos' ->
  out' = out ++ fill (N.to_nat (fsize - pos)) pos m data.
Proof.
  induction sched as [|[[w ch] tk] sched IH]; intros m fsize pos data out out' data' pos' Hle H.
  - cbn [stream_go] in H. destruct (fsize <=? pos) eqn:E.
    + apply N.leb_le in E. injection H as <- _ _.
      replace (fsize - pos) with 0 by lia. cbn [N.to_nat fill]. rewrite app_nil_r. reflexivity.
    + apply N.leb_gt in E. pose proof (region_spec m fsize pos E) as R.
      destruct (region m fsize pos) as [hole diff]. destruct R as (R1 & _).
      destruct (diff =? 0) eqn:E0; [apply N.eqb_eq in E0; lia|]. discriminate.
  - cbn [stream_go] in H. destruct (fsize <=? pos) eqn:E.
    + apply N.leb_le in E. injection H as <- _ _.
      replace (fsize - pos) with 0 by lia. cbn [N.to_nat fill]. rewrite app_nil_r. reflexivity.
    + apply N.leb_gt in E. pose proof (region_spec m fsize pos E) as R.
      destruct (region m fsize pos) as [hole diff]. destruct R as (R1 & R2 & R3).
      destruct (diff =? 0) eqn:E0; [apply N.eqb_eq in E0; lia|].
      destruct hole.
      * (* hole *)
        set (n := N.min (tk + 1) (N.min (N.min diff (w + 1)) BUFSZ)) in *.
        assert (Hn : 1 <= n /\ n <= diff) by (unfold n, BUFSZ; lia).
        apply IH in H; [|lia]. rewrite H. rewrite <- app_assoc. f_equal.
        replace (N.to_nat (fsize - pos)) with (N.to_nat n + N.to_nat (fsize - (pos + n)))%nat by lia.
        rewrite fill_hole.
        -- rewrite N2Nat.id. reflexivity.
        -- intros i Hi. apply (R3 (N.of_nat i)). lia.
      * (* data *)
        destruct data as [|d0 data0] eqn:Ed; [discriminate|]. rewrite <- Ed in *.
        set (n := N.to_nat (N.min (tk + 1) (N.min (N.min (ch + 1) (N.of_nat (length data))) (N.min diff (w + 1))))) in *.
        assert (Hl : (1 <= length data)%nat) by (rewrite Ed; cbn [length]; lia).
        assert (Hn : (1 <= n)%nat /\ N.of_nat n <= diff /\ (n <= length data)%nat) by (unfold n; lia).
        apply IH in H; [|lia]. rewrite H. rewrite <- app_assoc. f_equal.
        replace (N.to_nat (fsize - pos)) with (n + N.to_nat (fsize - (pos + N.of_nat n)))%nat by lia.
        rewrite fill_data.
        -- reflexivity.
        -- intros i Hi. apply (R3 (N.of_nat i)). lia.
        -- lia.
Qed.

(* the stream never hands out more than the file size (fix F24) *)
Corollary stream_go_bounded sched m fsize data out' data' pos' :
  stream_go sched m fsize 0 data [] = S_Done out' data' pos' ->
  N.of_nat (length out') <= fsize.
Proof.
  intro H. apply stream_go_done in H; [|lia]. subst out'. cbn [app].
  pose proof (fill_length (N.to_nat (fsize - 0)) 0 m data). lia.
Qed.

(* every consumer sees the same bytes *)
Corollary stream_schedule_independent s1 s2 m fsize data o1 d1 p1 o2 d2 p2 :
  stream_go s1 m fsize 0 data [] = S_Done o1 d1 p1 ->
  stream_go s2 m fsize 0 data [] = S_Done o2 d2 p2 -> o1 = o2.
Proof.
  intros H1 H2. apply stream_go_done in H1; [|lia]. apply stream_go_done in H2; [|lia]. congruence.
Qed.

(* progress: one byte at least per step, so |sched| >= fsize - pos steps are enough *)
Theorem stream_go_progress sched : forall m fsize pos data out,
  fsize - pos <= N.of_nat (length sched) ->
  match stream_go sched m fsize pos data out with S_More _ _ _ => False | _ => True end.
Proof.
  induction sched as [|[[w ch] tk] sched IH]; intros m fsize pos data out Hs.
  - cbn [stream_go]. cbn [length] in Hs.
    assert (E : (fsize <=? pos) = true) by (apply N.leb_le; lia). rewrite E. exact I.
  - cbn [stream_go]. destruct (fsize <=? pos) eqn:E; [exact I|].
    apply N.leb_gt in E. pose proof (region_spec m fsize pos E) as R.
    destruct (region m fsize pos) as [hole diff]. destruct R as (R1 & R2 & _).
    destruct (diff =? 0); [exact I|]. cbn [length] in Hs.
    destruct hole.
    + apply IH. unfold BUFSZ. lia.
    + destruct data as [|d0 data0] eqn:Ed; [exact I|]. rewrite <- Ed.
      assert (Hl : (1 <= length data)%nat) by (rewrite Ed; cbn [length]; lia).
      apply IH. lia.
Qed.

(* ---------- sorted maps: [fill] is the sequential expansion ---------- *)
Lemma fill_ext k : forall pos m m' data,
  (forall p, pos <= p -> covered m p = covered m' p) ->
  fill k pos m data = fill k pos m' data.
Proof.
  induction k as [|k IH]; intros pos m m' data H; cbn [fill]; [reflexivity|].
  rewrite <- (H pos (N.le_refl _)).
  assert (H' : forall p, pos + 1 <= p -> covered m p = covered m' p) by (intros; apply H; lia).
  destruct (covered m pos).
  - destruct data; [reflexivity|]. f_equal. apply IH. exact H'.
  - f_equal. apply IH. exact H'.
Qed.

Lemma wf_map_starts pos m fsize : wf_map pos m fsize ->
  Forall (fun e => pos <= fst e) m.
Proof.
  revert pos. induction m as [|[o c] m IH]; intros pos H; constructor.
  - cbn [fst]. destruct H. assumption.
  - destruct H as [H1 H2]. apply IH in H2. eapply Forall_impl; [|exact H2].
    intros e He. cbv beta in *. lia.
Qed.

Lemma wf_map_end pos m fsize : wf_map pos m fsize -> pos <= fsize.
Proof.
  revert pos. induction m as [|[o c] m IH]; intros pos H; [exact H|].
  destruct H as [H1 H2]. apply IH in H2. lia.
Qed.

Lemma existsb_covers_before p m : Forall (fun e => p < fst e) m -> existsb (covers p) m = false.
Proof.
  induction 1 as [|[o c] m H _ IH]; [reflexivity|]. cbn [existsb]. rewrite IH.
  unfold covers. cbn [fst snd] in *.
  assert (A : (o <=? p) = false) by (apply N.leb_gt; exact H). rewrite A. reflexivity.
Qed.

Lemma repeat_0_fill k : forall pos data, fill k pos [(pos + N.of_nat k, 0)] data = repeat 0 k.
Proof.
  induction k as [|k IH]; intros pos data; [reflexivity|]. cbn [fill repeat].
  unfold covered. cbn [existsb]. unfold covers. cbn [fst snd].
  assert (A : (pos + N.of_nat (S k) <=? pos) = false) by (apply N.leb_gt; lia).
  rewrite A. cbn [andb orb]. f_equal.
  replace (pos + N.of_nat (S k)) with (pos + 1 + N.of_nat k) by lia. apply IH.
Qed.

(* the expansion of a sorted, non-overlapping map inside the file *)
Theorem fill_expand m : forall pos data fsize,
  m <> [] -> wf_map pos m fsize -> map_bytes m <= N.of_nat (length data) ->
  fill (N.to_nat (fsize - pos)) pos m data = expand pos m data fsize.
Proof.
  induction m as [|[o c] m IH]; intros pos data fsize Hne Hwf Hd; [contradiction|].
  destruct Hwf as [Hpo Hwf]. cbn [map_bytes] in Hd. cbn [expand].
  pose proof (wf_map_end _ _ _ Hwf) as Hend.
  pose proof (wf_map_starts _ _ _ Hwf) as Hst.
  replace (N.to_nat (fsize - pos)) with
      (N.to_nat (o - pos) + (N.to_nat c + N.to_nat (fsize - (o + c))))%nat by lia.
  rewrite fill_hole.
  2:{ intros i Hi. unfold covered. cbn [existsb]. unfold covers at 1. cbn [fst snd].
      assert (A : (o <=? pos + N.of_nat i) = false) by (apply N.leb_gt; lia). rewrite A. cbn [andb orb].
      apply existsb_covers_before. eapply Forall_impl; [|exact Hst]. intros e He. cbv beta in *. lia. }
  f_equal. rewrite N2Nat.id. replace (pos + (o - pos)) with o by lia.
  rewrite fill_data.
  2:{ intros i Hi. unfold covered. cbn [existsb]. unfold covers at 1. cbn [fst snd].
      assert (A1 : (o <=? o + N.of_nat i) = true) by (apply N.leb_le; lia).
      assert (A2 : (o + N.of_nat i - o <? c) = true) by (apply N.ltb_lt; lia).
      rewrite A1, A2. reflexivity. }
  2:{ lia. }
  f_equal. rewrite N2Nat.id.
  destruct m as [|e m'] eqn:Em.
  - (* last entry: the rest of the file is a hole *)
    cbn [expand]. rewrite (fill_ext _ _ _ [(o + c + N.of_nat (N.to_nat (fsize - (o + c))), 0)]).
    + apply repeat_0_fill.
    + intros p Hp. unfold covered. cbn [existsb]. unfold covers. cbn [fst snd].
      assert (A2 : (p - o <? c) = false) by (apply N.ltb_ge; lia). rewrite A2.
      assert (A3 : (p - (o + c + N.of_nat (N.to_nat (fsize - (o + c)))) <? 0) = false) by (apply N.ltb_ge; lia).
      rewrite A3. rewrite !andb_false_r. reflexivity.
  - rewrite <- Em in *. rewrite <- IH.
    + apply fill_ext. intros p Hp. unfold covered. rewrite Em. rewrite <- Em. cbn [existsb].
      unfold covers at 1. cbn [fst snd].
      assert (A2 : (p - o <? c) = false) by (apply N.ltb_ge; lia). rewrite A2, andb_false_r. reflexivity.
    + rewrite Em. discriminate.
    + exact Hwf.
    + rewrite skipn_length. lia.
Qed.

(* archives without a map (everything sqfs2tar writes): the file is the record *)
Lemma fill_nomap k : forall pos data, (k <= length data)%nat -> fill k pos [] data = firstn k data.
Proof.
  induction k as [|k IH]; intros pos data H; [reflexivity|].
  destruct data as [|d data]; [cbn in H; lia|]. cbn [fill covered firstn]. f_equal. apply IH. cbn in H. lia.
Qed.

(* ---------- the statements of Properties_C04.v (position 0, empty output) ---------- *)
Lemma sparse_stream_spec_l sched m fsize data out' data' pos' :
  stream_go sched m fsize 0 data [] = S_Done out' data' pos' ->
  out' = fill (N.to_nat fsize) 0 m data.
Proof.
  intro H. apply stream_go_done in H; [|apply N.le_0_l]. rewrite N.sub_0_r in H. exact H.
Qed.

Lemma sparse_stream_terminates_l sched m fsize data :
  fsize <= N.of_nat (length sched) ->
  match stream_go sched m fsize 0 data [] with S_More _ _ _ => False | _ => True end.
Proof. intro H. apply stream_go_progress. rewrite N.sub_0_r. exact H. Qed.

Lemma sparse_expand_ok_l m data fsize :
  m <> [] -> wf_map 0 m fsize -> map_bytes m <= N.of_nat (length data) ->
  fill (N.to_nat fsize) 0 m data = expand 0 m data fsize.
Proof.
  intros H1 H2 H3. rewrite <- (fill_expand m 0 data fsize H1 H2 H3). rewrite N.sub_0_r. reflexivity.
Qed.
