(* lib/util/src/hash_table.c with allocation failure -- executable model, definitions only.

   State = the Util model's [htab] plus the allocation ids of the struct (malloc in
   hash_table_create / hash_table_clone) and of ht->table (calloc).  The allocation sites and
   what the C code does when they return NULL:

     hash_table_create   ht = malloc(...)      NULL -> return NULL
                         ht->table = calloc    NULL -> free(ht); return NULL
     hash_table_clone    the same two sites and paths
     hash_table_rehash   table = calloc(...)   NULL -> return   (nothing changed: the caller,
                                                       hash_table_insert, goes on with the old table
                                                       and returns NULL only if it finds no slot)
                         success: ... free(old_ht.table)
     hash_table_destroy  free(ht->table); free(ht)

   The probing loops and the re-insertion into the new table are the Util model's functions
   ([insert_loop], [ht_rehash_to], [ht_search]); only the allocation and the "new_size_index >=
   ARRAY_SIZE(hash_sizes): return" test that precedes it are added here.  hash_table_insert =
   [ht_grow_a] (the two rehash conditions) followed by [insert_tail] (the probing part of the
   Util model's ht_insert, see [ht_insert_split]). *)
From Coq Require Import NArith List Bool.
From SqfsV Require Import Util.GenUtil Util.FastRem Util.HashModel UtilAlloc.AllocBase.
Import ListNotations.
Local Open Scope N_scope.

Section HT.
Variables K V : Type.
Variable keq : K -> K -> bool.

Record ahtab : Type := mk_ahtab {
  ah_core : htab K V;
  ah_sid : N;             (* the struct hash_table *)
  ah_tid : N              (* ht->table *)
}.

Definition ah_owns (t : ahtab) : list N := [ah_sid t; ah_tid t].

(* hash_table_create *)
Definition ht_create_a (h : heap) : option ahtab * heap :=
  match alloc h with
  | (None, h1) => (None, h1)
  | (Some sid, h1) =>
    match alloc h1 with
    | (None, h2) => (None, free h2 sid)
    | (Some tid, h2) =>
      match ht_create K V with
      | Some c => (Some (mk_ahtab c sid tid), h2)
      | None => (None, free (free h2 tid) sid)         (* hash_sizes[] is not empty *)
      end
    end
  end.

(* hash_table_clone *)
Definition ht_clone_a (src : ahtab) (h : heap) : option ahtab * heap :=
  match alloc h with
  | (None, h1) => (None, h1)
  | (Some sid, h1) =>
    match alloc h1 with
    | (None, h2) => (None, free h2 sid)
    | (Some tid, h2) => (Some (mk_ahtab (ht_clone K V (ah_core src)) sid tid), h2)
    end
  end.

(* hash_table_destroy(ht, NULL) *)
Definition ht_destroy_a (t : ahtab) (h : heap) : heap := free (free h (ah_tid t)) (ah_sid t).

(* hash_table_rehash(ht, new_size_index) *)
Definition ht_rehash_a (t : ahtab) (idx : nat) (h : heap) : res (ahtab * heap) :=
  match nth_error util_hash_sizes idx with
  | None => Ok (t, h)
  | Some _ =>
    match alloc h with
    | (None, h1) => Ok (t, h1)
    | (Some tid, h1) =>
      match ht_rehash_to K V (ah_core t) idx with
      | Ok c => Ok (mk_ahtab c (ah_sid t) tid, free h1 (ah_tid t))
      | Crash => Crash
      | OutOfFuel => OutOfFuel
      end
    end
  end.

(* the head of hash_table_insert *)
Definition ht_grow_a (t : ahtab) (h : heap) : res (ahtab * heap) :=
  let c := ah_core t in
  if ht_max_entries K V c <=? ht_entries K V c then ht_rehash_a t (S (ht_size_index K V c)) h
  else if ht_max_entries K V c <=? (ht_deleted K V c + ht_entries K V c) mod two32
       then ht_rehash_a t (ht_size_index K V c) h
       else Ok (t, h).

(* the rest of hash_table_insert: the probing loop and the three exits *)
Definition insert_tail (t1 : htab K V) (hash : N) (key : K) (data : V) : res (htab K V * option N) :=
  let start := start_addr K V t1 hash in
  match insert_loop K V keq (ht_table K V t1) t1 hash key start (double_hash K V t1 hash) start None with
  | Crash => Crash
  | OutOfFuel => OutOfFuel
  | Ok (Some a, _) =>
    Ok (set_slot K V t1 a (SPresent hash key data) (ht_entries K V t1) (ht_deleted K V t1), Some a)
  | Ok (None, Some a) =>
    let del := match nthN (ht_table K V t1) a with
               | Some SDeleted => ht_deleted K V t1 - 1
               | _ => ht_deleted K V t1
               end in
    Ok (set_slot K V t1 a (SPresent hash key data) (ht_entries K V t1 + 1) del, Some a)
  | Ok (None, None) => Ok (t1, None)
  end.

(* the Util model's grow step (no allocation failure) *)
Definition grow_pure (t : htab K V) : res (htab K V) :=
  if ht_max_entries K V t <=? ht_entries K V t then ht_rehash_to K V t (S (ht_size_index K V t))
  else if ht_max_entries K V t <=? (ht_deleted K V t + ht_entries K V t) mod two32
       then ht_rehash_to K V t (ht_size_index K V t)
       else Ok t.

Lemma ht_insert_split : forall t hash key data,
  ht_insert K V keq t hash key data =
  match grow_pure t with
  | Ok t1 => insert_tail t1 hash key data
  | Crash => Crash
  | OutOfFuel => OutOfFuel
  end.
Proof. intros. reflexivity. Qed.

(* hash_table_insert_pre_hashed: (table, entry returned (None = NULL), heap) *)
Definition ht_insert_a (t : ahtab) (hash : N) (key : K) (data : V) (h : heap)
  : res (ahtab * option N * heap) :=
  match ht_grow_a t h with
  | Crash => Crash
  | OutOfFuel => OutOfFuel
  | Ok (t1, h1) =>
    match insert_tail (ah_core t1) hash key data with
    | Crash => Crash
    | OutOfFuel => OutOfFuel
    | Ok (c, r) => Ok (mk_ahtab c (ah_sid t1) (ah_tid t1), r, h1)
    end
  end.

Definition ht_search_a (t : ahtab) (hash : N) (key : K) : res (option N) :=
  ht_search K V keq (ah_core t) hash key.

(* upstream's hash_table_remove_entry, as in the Util model (no allocation) *)
Definition ht_remove_a (t : ahtab) (a : N) : ahtab :=
  mk_ahtab (ht_remove_entry K V (ah_core t) a) (ah_sid t) (ah_tid t).

End HT.

Arguments ah_core {K V} _.
Arguments ah_sid {K V} _.
Arguments ah_tid {K V} _.
