(* hash_table.c with allocation failure, proofs part 1: the invariant that survives failed
   allocations and the contracts of search / rehash / the probing part of insert under it.

   The Util invariant [wf] says entries + deleted <= max_entries (the load bound) and
   entries = number of present slots.  Neither survives allocation failure:
   * a rehash whose calloc fails leaves the table as it is and hash_table_insert goes on
     filling it beyond max_entries (up to completely full, then it returns NULL);
   * str_table_get_index un-does an insert by hand after a failing array_append and leaves
     ht->entries one too high (StrAlloc.v).
   [wfa] keeps what the probing loops need -- the row of hash_sizes[], the table length, the
   probe-chain invariant, deleted_entries = number of tombstones -- and weakens the entry
   counter to an upper bound.  [wfs] (strict) adds entries = number of present slots. *)
From Coq Require Import NArith ZArith Znumtheory List Bool Lia Permutation.
From SqfsV Require Import Util.GenUtil Util.FastRem Util.Primes Util.HashModel Util.HashBase Util.HashRows
     Util.HashInv Util.HashContracts UtilAlloc.AllocBase UtilAlloc.HashAlloc.
Import ListNotations.
Local Open Scope N_scope.

(* the table sizes grow strictly from row to row *)
Definition row_size_grows_at (i : nat) : bool :=
  match nth_error util_hash_sizes i, nth_error util_hash_sizes (S i) with
  | Some r, Some r' => row_size r <? row_size r'
  | _, _ => true
  end.

Lemma rows_size_grow : forallb row_size_grows_at (seq 0 (length util_hash_sizes)) = true.
Proof. vm_compute. reflexivity. Qed.

Lemma row_size_next : forall i r r',
  nth_error util_hash_sizes i = Some r -> nth_error util_hash_sizes (S i) = Some r' -> row_size r < row_size r'.
Proof.
  intros i r r' H H'. pose proof rows_size_grow as C. rewrite forallb_forall in C.
  assert (Hi : (i < length util_hash_sizes)%nat) by (apply nth_error_Some; congruence).
  specialize (C i ltac:(apply in_seq; lia)). unfold row_size_grows_at in C. rewrite H, H' in C.
  apply N.ltb_lt. exact C.
Qed.

Section HT.
Variables K V : Type.
Variable keq : K -> K -> bool.

Notation slot := (slot K V).
Notation htab := (htab K V).
Notation entry := (N * K * V)%type.
Notation row_wf := (row_wf K V).
Notation livel := (livel K V).
Notation count_del := (count_del K V).
Notation chain_ok := (chain_ok K V).
Notation nonfree := (nonfree K V).

Record wfa (t : htab) : Prop := mk_wfa {
  wa_row : row_wf t;
  wa_len : lenN (ht_table K V t) = ht_size K V t;
  wa_chain : chain_ok (ht_table K V t) (ht_size K V t) (ht_rehash K V t);
  wa_entries : lenN (livel (ht_table K V t)) <= ht_entries K V t;
  wa_deleted : ht_deleted K V t = count_del (ht_table K V t)
}.

Definition wfs (t : htab) : Prop := wfa t /\ ht_entries K V t = lenN (livel (ht_table K V t)).

Lemma wf_wfa : forall t, wf K V t -> wfs t.
Proof.
  intros t W. split; [|apply (wf_entries K V t W)].
  constructor; try apply W. rewrite (wf_entries K V t W). lia.
Qed.

Lemma wfa_live_le_size : forall t, wfa t -> lenN (livel (ht_table K V t)) + count_del (ht_table K V t) <= ht_size K V t.
Proof. intros t W. rewrite <- (wa_len t W). apply livel_le. Qed.

(* ---- search (Util's proof: it never used the counters) ---- *)
Theorem ht_search_wfa : forall t hash key,
  wfa t -> hash < two32 ->
  exists r, ht_search K V keq t hash key = Ok r /\
    match r with
    | Some a => exists k d, nthN (ht_table K V t) a = Some (SPresent hash k d) /\ keq key k = true
    | None => forall p k d, nthN (ht_table K V t) p = Some (SPresent hash k d) -> keq key k = false
    end.
Proof.
  intros t hash key W Hh.
  pose proof (wf_geom K V t (wa_row t W)) as G.
  pose proof (size_pos _ _ G) as Hpos.
  unfold ht_search. rewrite (wf_start K V t hash (wa_row t W) Hh), (wf_step K V t hash (wa_row t W) Hh).
  rewrite <- (ppath_0 _ _ G hash).
  destruct (search_loop_spec K V keq t (wa_len t W) G hash key (ht_table K V t) 0) as (r & E & Hr).
  - rewrite N.add_0_r. apply (wa_len t W).
  - exact Hpos.
  - intros j Hj. lia.
  - exists r. split; [exact E|]. destruct r as [a|].
    + destruct Hr as (m & s & _ & _ & Hs & Hm & _). apply (matches_true K V keq) in Hm.
      destruct Hm as (k & d & -> & Hk). eauto.
    + intros p k d Hp.
      destruct (wa_chain t W p hash k d Hp) as [_ (i0 & Hi0 & Ep & Hnf)].
      assert (Hnm : nomatch K V keq t hash key p).
      { destruct Hr as [(m & Hm & Hfree & Hc)|Hc].
        - assert (i0 < m).
          { destruct (N.lt_trichotomy i0 m) as [|[->|Hgt]]; [assumption|exfalso|exfalso].
            - rewrite Ep in Hfree. congruence.
            - apply (Hnf m Hgt). exact Hfree. }
          rewrite <- Ep. apply Hc. assumption.
        - rewrite <- Ep. apply Hc. assumption. }
      specialize (Hnm _ Hp). cbn in Hnm. rewrite N.eqb_refl in Hnm. exact Hnm.
Qed.

(* ---- hash_table_rehash into a row with room for the present entries ---- *)
Lemma ht_rehash_to_wfa : forall t idx r,
  wfa t -> nth_error util_hash_sizes idx = Some r -> row_good r ->
  lenN (livel (ht_table K V t)) <= row_size r ->
  exists t', ht_rehash_to K V t idx = Ok t' /\ wfa t' /\
    ht_size_index K V t' = idx /\ ht_size K V t' = row_size r /\ ht_max_entries K V t' = row_max r /\
    ht_entries K V t' = ht_entries K V t /\ ht_deleted K V t' = 0 /\
    count_del (ht_table K V t') = 0 /\
    Permutation (livel (ht_table K V t')) (livel (ht_table K V t)).
Proof.
  intros t idx r W Hn Hg Hroom. unfold ht_rehash_to. rewrite Hn.
  destruct (of_row_pre K V r idx Hn Hg) as (R0 & L0 & C0 & Lv0 & Cd0 & _).
  set (t0 := ht_of_row K V r idx 0 0) in *.
  destruct (rehash_all_spec K V (ht_table K V t) t0 R0 L0 C0 Cd0) as (t1 & E1 & G1 & En1 & De1 & L1 & C1 & D1 & P1).
  - eapply livel_hash_bound. apply (wa_chain t W).
  - rewrite Lv0. change (lenN (@nil entry)) with 0. unfold t0, ht_of_row. cbn [ht_size]. lia.
  - rewrite E1. eexists. split; [reflexivity|].
    rewrite Lv0, app_nil_r in P1.
    assert (R1 : row_wf t1) by (eapply same_geometry_row_wf; eauto).
    destruct G1 as (I1 & S1 & H1 & M1 & M2 & X1).
    unfold t0, ht_of_row in I1, S1, X1, De1. cbn in I1, S1, X1, De1.
    unfold set_entries. cbn.
    split; [|split; [exact I1|]; split; [exact S1|]; split; [exact X1|]; split; [reflexivity|];
             split; [exact De1|]; split; [exact D1|exact P1]].
    constructor; cbn.
    + destruct R1 as (r1 & A & B & (F1 & F2 & F3 & F4 & F5)). exists r1.
      split; [exact A|]. split; [exact B|]. repeat split; auto.
    + exact L1.
    + exact C1.
    + unfold lenN. rewrite (Permutation_length P1). apply (wa_entries t W).
    + rewrite D1. exact De1.
Qed.

(* ---- the probing part of hash_table_insert under [wfa] ---- *)
Definition table_full (t : htab) : Prop := lenN (livel (ht_table K V t)) = ht_size K V t.

Definition no_match (t : htab) (hash : N) (key : K) : Prop :=
  forall k0 d0, In (hash, k0, d0) (livel (ht_table K V t)) -> keq key k0 = false.

Theorem insert_tail_wfa : forall t1 hash key data,
  wfa t1 -> hash < two32 ->
  exists t' r, insert_tail K V keq t1 hash key data = Ok (t', r) /\
    match r with
    | None => t' = t1 /\ table_full t1 /\ no_match t1 hash key
    | Some a =>
      wfa t' /\ nthN (ht_table K V t') a = Some (SPresent hash key data) /\
      ((exists k0 d0 rest,
          keq key k0 = true /\
          nthN (ht_table K V t1) a = Some (SPresent hash k0 d0) /\
          Permutation (livel (ht_table K V t1)) ((hash, k0, d0) :: rest) /\
          Permutation (livel (ht_table K V t')) ((hash, key, data) :: rest) /\
          ht_entries K V t' = ht_entries K V t1 /\
          count_del (ht_table K V t') = count_del (ht_table K V t1))
       \/
       (exists s, nthN (ht_table K V t1) a = Some s /\ is_present K V s = false /\
          t' = set_slot K V t1 a (SPresent hash key data) (ht_entries K V t1 + 1)
                        (if is_deleted K V s then ht_deleted K V t1 - 1 else ht_deleted K V t1) /\
          no_match t1 hash key /\
          Permutation (livel (ht_table K V t')) ((hash, key, data) :: livel (ht_table K V t1)) /\
          count_del (ht_table K V t') + (if is_deleted K V s then 1 else 0) = count_del (ht_table K V t1)))
    end.
Proof.
  intros t1 hash key data W1 Hh.
  pose proof (wa_row t1 W1) as R1.
  pose proof (wf_geom K V t1 R1) as G. pose proof (size_pos _ _ G) as Hpos.
  unfold insert_tail.
  rewrite (wf_start K V t1 hash R1 Hh), (wf_step K V t1 hash R1 Hh).
  rewrite <- (ppath_0 _ _ G hash).
  destruct (insert_loop_spec K V keq t1 (wa_len t1 W1) G hash key (ht_table K V t1) 0 None)
    as (r & av & E & Hr).
  { rewrite N.add_0_r. apply (wa_len t1 W1). }
  { exact Hpos. }
  { intros j Hj. lia. }
  { cbn. intros j Hj. lia. }
  rewrite E. destruct r as [a|].
  - (* replacement *)
    destruct Hr as (m & s & Hm & Ea & Hs & Hmt & Hc).
    apply (matches_true K V keq) in Hmt. destruct Hmt as (k0 & d0 & -> & Hk).
    destruct (livel_upd_replace K V (ht_table K V t1) a hash k0 d0 key data Hs) as (rest & Q1 & Q2 & Q3 & Q4).
    assert (Hlt : a < lenN (ht_table K V t1)) by (eapply nthN_some_lt; eauto).
    eexists. exists (Some a). split; [reflexivity|]. split; [|split].
    + constructor; cbn.
      * destruct R1 as (r1 & A & B & (F1 & F2 & F3 & F4 & F5)). exists r1. split; [exact A|]. split; [exact B|]. repeat split; auto.
      * rewrite updN_length. apply (wa_len t1 W1).
      * subst a. apply chain_upd; auto.
        -- apply (wa_chain t1 W1).
        -- intros j Hj. apply Hc. exact Hj.
      * rewrite Q4. apply (wa_entries t1 W1).
      * rewrite Q3. apply (wa_deleted t1 W1).
    + cbn. apply nthN_upd_same. exact Hlt.
    + left. exists k0, d0, rest. cbn. repeat split; auto.
  - (* no matching entry *)
    assert (Hnone : no_match t1 hash key).
    { intros k0 d0 Hin. apply livel_In in Hin. destruct Hin as [p Hp].
      destruct (wa_chain t1 W1 p hash k0 d0 Hp) as [_ (i0 & Hi0 & Ep & Hnf)].
      assert (Hnm : nomatch K V keq t1 hash key p).
      { destruct Hr as [(m & Hm & Hfree & Hc & _)|[Hc _]].
        - assert (i0 < m).
          { destruct (N.lt_trichotomy i0 m) as [|[->|Hgt]]; [assumption|exfalso|exfalso].
            - rewrite Ep in Hfree. congruence.
            - apply (Hnf m Hgt). exact Hfree. }
          rewrite <- Ep. apply Hc. assumption.
        - rewrite <- Ep. apply Hc. assumption. }
      specialize (Hnm _ Hp). cbn in Hnm. rewrite N.eqb_refl in Hnm. exact Hnm. }
    assert (Hpn : forall j, present_at K V t1 (ppath (ht_size K V t1) (ht_rehash K V t1) hash j) ->
                            nonfree (ht_table K V t1) (ppath (ht_size K V t1) (ht_rehash K V t1) hash j)).
    { intros j (h' & k' & d' & Ej). unfold HashInv.nonfree. rewrite Ej. discriminate. }
    destruct av as [a|].
    + (* the first available slot *)
      assert (Hav : exists m, m < ht_size K V t1 /\
                     a = ppath (ht_size K V t1) (ht_rehash K V t1) hash m /\
                     ~ present_at K V t1 a /\
                     forall j, j < m -> nonfree (ht_table K V t1) (ppath (ht_size K V t1) (ht_rehash K V t1) hash j)).
      { assert (Hi : exists i, i <= ht_size K V t1 /\ avinv K V t1 hash (Some a) i).
        { destruct Hr as [(m & Hm & _ & _ & Ha)|[_ Ha]]; [exists (m + 1); split; [lia|exact Ha]|eexists; split; [|exact Ha]; lia]. }
        destruct Hi as (i & Hi & (m & Hm & Ea & Hnp & Hb)).
        exists m. split; [lia|]. split; [exact Ea|]. split; [rewrite Ea; exact Hnp|].
        intros j Hj. apply Hpn. apply Hb. exact Hj. }
      destruct Hav as (m & Hm & Ea & Hnp & Hnf).
      assert (Hlt : a < lenN (ht_table K V t1)).
      { rewrite Ea, (wa_len t1 W1). apply ppath_lt. exact G. }
      destruct (nthN_lt _ _ _ Hlt) as [s Hs].
      assert (Hps : is_present K V s = false).
      { destruct (is_present K V s) eqn:Ep; [|reflexivity]. exfalso. apply Hnp.
        apply is_present_iff in Ep. destruct Ep as (h' & k' & d' & ->). unfold present_at. eauto. }
      destruct (livel_upd_add K V (ht_table K V t1) a s hash key data Hs Hps) as [Q1 Q2].
      assert (Hdel : (match nthN (ht_table K V t1) a with
                      | Some SDeleted => ht_deleted K V t1 - 1
                      | _ => ht_deleted K V t1
                      end) = (if is_deleted K V s then ht_deleted K V t1 - 1 else ht_deleted K V t1)).
      { rewrite Hs. destruct s; reflexivity. }
      rewrite Hdel.
      eexists. exists (Some a). split; [reflexivity|]. split; [|split].
      * constructor; cbn.
        -- destruct R1 as (r1 & A & B & (F1 & F2 & F3 & F4 & F5)). exists r1. split; [exact A|]. split; [exact B|]. repeat split; auto.
        -- rewrite updN_length. apply (wa_len t1 W1).
        -- rewrite Ea. apply chain_upd; auto.
           ++ apply (wa_chain t1 W1).
           ++ rewrite <- Ea. exact Hlt.
        -- unfold lenN. rewrite (Permutation_length Q1). cbn [length].
           pose proof (wa_entries t1 W1) as He. unfold lenN in He. lia.
        -- pose proof (wa_deleted t1 W1) as Hd. destruct s; cbn in Hps, Q2 |- *; try discriminate; lia.
      * cbn. apply nthN_upd_same. exact Hlt.
      * right. exists s. repeat split; auto.
    + (* every slot of the probing sequence is present: the table is full, NULL *)
      exists t1, None. split; [reflexivity|]. split; [reflexivity|]. split; [|exact Hnone].
      destruct Hr as [(m & Hm & Hfree & _ & Ha)|[_ Ha]].
      * exfalso. cbn in Ha. destruct (Ha m ltac:(lia)) as (h' & k' & d' & Ej). congruence.
      * cbn in Ha. unfold table_full. rewrite <- (wa_len t1 W1).
        apply livel_all_present. intros p Hp. rewrite (wa_len t1 W1) in Hp.
        destruct (ppath_surj _ _ G hash p Hp) as (j & Hj & Ej). rewrite <- Ej. apply Ha. exact Hj.
Qed.

End HT.
