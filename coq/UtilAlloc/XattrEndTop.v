(* The xattr writer's end / session / flush theorems on concrete runs (non-vacuity): a writer created over an
   oracle whose 15th allocation call -- the tree node of the first end -- fails. *)
From Coq Require Import NArith ZArith List Bool Lia.
From SqfsV Require Import Base.Bytes Gen.Constants Util.GenUtil Util.HashModel Util.HashBase Util.HashRows Util.StrModel Util.StrProofs Util.RbModel
     UtilAlloc.AllocBase UtilAlloc.ArrayAlloc UtilAlloc.StrAlloc UtilAlloc.XattrAlloc UtilAlloc.XattrAllocProofs UtilAlloc.XattrAddExt
     UtilAlloc.XattrEndAlloc UtilAlloc.XattrEndBase UtilAlloc.XattrEndProofs UtilAlloc.XattrSession
     UtilAlloc.XattrFlushAlloc UtilAlloc.XattrFlushProofs UtilAlloc.XattrEndRefine.
From SqfsV Require C01.XattrModel.
Import ListNotations.
Local Open Scope N_scope.

Definition ex_k1 : list N := [117; 115; 101; 114; 46; 97].      (* "user.a" *)
Definition ex_k2 : list N := [117; 115; 101; 114; 46; 98].      (* "user.b" *)

(* a set of two pairs whose end fails and is repeated; the same set again, added in the other order; a third set *)
Definition ex_ops : list xop :=
  [OBegin; OAdd ex_k1 [1; 2]; OAdd ex_k2 [3]; OEnd; OEnd;
   OBegin; OAdd ex_k2 [3]; OAdd ex_k1 [1; 2]; OEnd;
   OBegin; OAdd ex_k1 [9]; OEnd].

Definition xs_start (o : list bool) : option xsess :=
  match xw_create2_a (heap0 o) with
  | (Some w, h) => Some (mk_xsess (mk_bheap 0 []) w false h)
  | _ => None
  end.

Lemma heap0_owned : forall o, owned_by (heap0 o) [] (fun _ => False).
Proof.
  intro o. split; [apply heap0_ok|]. split; [constructor|]. split; [intros id H; destruct H|]. intro id. cbn. tauto.
Qed.

(* every state create returns satisfies the hypotheses of the session theorem *)
Lemma xs_start_inv : forall o s, xs_start o = Some s ->
  sess_inv s (fun _ => False) /\ xs_open s = false /\ set_table (xs_w s) = [] /\ x2_num (xs_w s) = 0.
Proof.
  intros o s H. unfold xs_start in H. pose proof (xw_create2_alloc_failstop (heap0 o) _ (heap0_owned o)) as C.
  destruct (xw_create2_a (heap0 o)) as [[w|] h]; [|discriminate]. injection H as <-.
  destruct C as (_ & O & I & T & Nm). split; [|auto]. split; [|exact O].
  unfold sess_fence. cbn [xs_open xs_w xs_b].
  pose proof (I (mk_bheap 0 [])) as I0.
  apply (inv_data_change _ _ w w (x2_start w) (x2_used w) I0); try reflexivity.
  - apply I0.
  - apply (xi_fence _ _ _ I0).
Qed.

Definition ex_bytes1 : list N := flat_map le64 [0; 4294967297].
Definition ex_bytes2 : list N := flat_map le64 [2].

Lemma ex_session_run :
  match xs_start (fail_at 14) with
  | Some s =>
    sess_room s (N.of_nat (length ex_ops)) /\
    match xw_run_a true s ex_ops with
    | SessOk s' log =>
      log = [ABegin; AAdd 0; AAdd 0; AEnd c_SQFS_ERROR_ALLOC None; AEnd 0 (Some 0);
             ABegin; AAdd 0; AAdd 0; AEnd 0 (Some 0); ABegin; AAdd 0; AEnd 0 (Some 1)] /\
      xw_handed true s ex_ops = [(0, ex_bytes1); (0, ex_bytes1); (1, ex_bytes2)] /\
      set_table (xs_w s') = [(1, [2]); (0, [0; 4294967297])] /\
      x2_chain (xs_w s') = [14; 20] /\
      h_live (snd (xw_destroy2_a (xs_b s') (xs_w s') (xs_h s'))) = [] /\
      h_bad (snd (xw_destroy2_a (xs_b s') (xs_w s') (xs_h s'))) = false
    | _ => False
    end
  | None => False
  end.
Proof. vm_compute. repeat split; reflexivity. Qed.

(* the theorem applied to that run: its conclusions about the final state hold *)
Lemma ex_session_theorem :
  exists s s' log,
    xs_start (fail_at 14) = Some s /\ xw_run_a true s ex_ops = SessOk s' log /\
    sess_inv s' (fun _ => False) /\
    Forall (fun x => denotes (xs_w s') (fst x) (snd x)) [(0, ex_bytes1); (0, ex_bytes1); (1, ex_bytes2)].
Proof.
  pose proof ex_session_run as R.
  destruct (xs_start (fail_at 14)) as [s|] eqn:Es; [|contradiction]. destruct R as [Room R].
  destruct (xs_start_inv _ _ Es) as (Inv & _).
  pose proof (xw_session_failstop true ex_ops s _ Inv Room) as T.
  destruct (xw_run_a true s ex_ops) as [s' log| | |] eqn:Er; try contradiction.
  destruct R as (_ & Hh & _). destruct T as (Inv' & _ & _ & _ & _ & _ & Hd). rewrite Hh in Hd.
  exists s, s', log. split; [reflexivity|]. split; [exact Er|]. split; [exact Inv'|exact Hd].
Qed.

(* the flush of that writer: nine allocation sites (meta writer, out-of-line table, three values, the final block of
   the key-value area, location table, the block of the id table); each one failing gives SQFS_ERROR_ALLOC and
   leaves exactly the writer's own blocks live *)
Definition ex_final (o : list bool) : option xsess :=
  match xs_start o with
  | Some s => match xw_run_a true s ex_ops with SessOk s' _ => Some s' | _ => None end
  | None => None
  end.

Lemma ex_flush_faults :
  map (fun k =>
         match ex_final (repeat true 14 ++ [false] ++ repeat true (7 + k) ++ [false]) with
         | Some s' =>
           let r := xw_flush_a (xs_b s') (xs_w s') (xs_h s') in
           (fst r, N.of_nat (length (h_live (snd r))) =? N.of_nat (length (h_live (xs_h s'))), h_bad (snd r))
         | None => (None, false, true)
         end) (seq 0 9)
  = repeat (Some c_SQFS_ERROR_ALLOC, true, false) 8 ++ [(Some 0%Z, true, false)].
Proof. vm_compute. reflexivity. Qed.

(* the refinement theorem's hypotheses on the state before the successful end of the first set *)
Definition ex_ops4 : list xop := [OBegin; OAdd ex_k1 [1; 2]; OAdd ex_k2 [3]; OEnd].

Lemma ex_run4 :
  exists s0 s l,
    xs_start (fail_at 14) = Some s0 /\ xw_run_a true s0 ex_ops4 = SessOk s l /\
    sess_room s0 4 /\
    cur_of (xs_w s) = [(0%nat, 0%nat); (1%nat, 1%nat)] /\ blocks_of (xs_w s) = [] /\
    x2_chain (xs_w s) = [] /\ x2_num (xs_w s) = 0 /\ elems (xs_w s) = [] /\
    forallb (fun p => p <? 2 ^ 64) (x2_data (xs_w s)) = true /\
    h_orc (xs_h s) = [] /\ xs_open s = true /\
    (x2_used (xs_w s) <? 2 ^ 64) = true /\ (x2_num (xs_w s) <? 4294967295) = true.
Proof.
  eexists. eexists. eexists. split; [vm_compute; reflexivity|]. split; [vm_compute; reflexivity|].
  vm_compute. repeat split; reflexivity.
Qed.

Lemma ex_refine_theorem :
  exists s0 s l w' idx h',
    xs_start (fail_at 14) = Some s0 /\ xw_run_a true s0 ex_ops4 = SessOk s l /\
    xw_end_a (xs_w s) (xs_h s) = EOk w' 0%Z (Some idx) h' /\
    C01.XattrModel.xw_end (C01.XattrModel.mkX [] [] [] (cur_of (xs_w s)) (blocks_of (xs_w s)))
    = (C01.XattrModel.mkX [] [] [] [] (blocks_of w'), idx) /\
    idx = 0 /\ blocks_of w' = [[(0%nat, 0%nat); (1%nat, 1%nat)]].
Proof.
  destruct ex_run4 as (s0 & s & l & Es & Er & Room & Hc & Hb & Hch & Hn & He & Hu & Ho & Open & U1 & U2).
  destruct (xs_start_inv _ _ Es) as (Inv0 & _).
  pose proof (xw_session_failstop true ex_ops4 s0 _ Inv0 Room) as T. rewrite Er in T.
  destruct T as ([I O] & _).
  unfold sess_fence in I. rewrite Open in I.
  assert (R : x2_rinv (xs_w s)).
  { constructor.
    - rewrite He. constructor.
    - rewrite Hch, Hn. constructor.
    - apply Forall_forall. intros x Hx. rewrite forallb_forall in Hu. apply N.ltb_lt. apply Hu. exact Hx. }
  assert (Aok : all_ok (xs_h s)) by (intros x Hx; rewrite Ho in Hx; destruct Hx).
  apply N.ltb_lt in U1, U2.
  destruct (xw_end_a_refines_xw_end [] [] [] (xs_b s) (xs_w s) (xs_h s) _ I R U1 U2 O Aok)
    as (w' & idx & h' & E & _ & _ & Rf).
  exists s0, s, l, w', idx, h'. split; [exact Es|]. split; [exact Er|]. split; [exact E|]. split; [exact Rf|].
  rewrite Hc, Hb in Rf.
  assert (L : C01.XattrModel.xw_end (C01.XattrModel.mkX [] [] [] [(0%nat, 0%nat); (1%nat, 1%nat)] [])
              = (C01.XattrModel.mkX [] [] [] [] [[(0%nat, 0%nat); (1%nat, 1%nat)]], 0)) by (vm_compute; reflexivity).
  rewrite L in Rf. injection Rf as Eb Ei. split; [symmetry; exact Ei|symmetry; exact Eb].
Qed.
