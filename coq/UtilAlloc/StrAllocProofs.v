(* str_table.c with allocation failure, proofs part 2: str_table_init, str_table_get_index at
   its three allocation sites, str_table_cleanup; the statement about the code as it is
   ([fixed = false]: the abstraction is safe, the entry counter drifts) and about the repaired
   code ([fixed = true]: the exact counters survive). *)
From Coq Require Import NArith ZArith List Bool Lia Permutation.
From SqfsV Require Import Gen.Constants Util.GenUtil Util.FastRem Util.HashModel Util.HashBase Util.HashRows
     Util.HashInv Util.HashContracts Util.ArrayModel Util.ArrayProofs Util.StrModel Util.StrProofs Util.StrIndex
     Util.StrCopy
     UtilAlloc.AllocBase UtilAlloc.ArrayAlloc UtilAlloc.HashAlloc UtilAlloc.HashAllocInv UtilAlloc.HashAllocProofs
     UtilAlloc.StrAlloc UtilAlloc.StrAllocInv.
Import ListNotations.
Local Open Scope N_scope.

Definition astr_inv (b : bheap) (t : astr) : Prop :=
  stra_inv b (as_core t) /\ (as_aid t = None -> a_count (st_arr (as_core t)) = 0).

Lemma count_del_nth : forall (l : list (slot skey N)) a,
  nthN l a = Some SDeleted -> 0 < count_del skey N l.
Proof.
  induction l as [|s l IH]; intros a H; cbn [nthN] in H; [discriminate|].
  destruct (a =? 0).
  - inversion H; subst. cbn [count_del]. lia.
  - apply IH in H. destruct s; cbn [count_del]; lia.
Qed.

Lemma nodel_slot_free : forall (l : list (slot skey N)) a s,
  count_del skey N l = 0 -> nthN l a = Some s -> is_present skey N s = false -> s = SFree.
Proof.
  intros l a s Hc Hs Hp. destruct s as [| |hh k d]; [reflexivity| |cbn in Hp; discriminate].
  apply count_del_nth in Hs. lia.
Qed.

Lemma owned_drop_last : forall h X newid F,
  owned_by h (X ++ [newid]) F -> owned_by (free h newid) X F /\ h_bad (free h newid) = h_bad h.
Proof.
  intros h X newid F O.
  assert (O' : owned_by h (newid :: X) F).
  { eapply owned_by_perm; [exact O|]. symmetry. apply Permutation_cons_append. }
  destruct (owned_free h newid _ F O' ltac:(left; reflexivity)) as [O1 B1].
  assert (Hn : ~ In newid X). { destruct O' as (_ & Hn & _). inversion Hn; assumption. }
  rewrite drop_head in O1 by exact Hn. auto.
Qed.

(* ---- str_table_init ---- *)
Theorem str_table_init_a_spec : forall h F,
  owned_by h [] F ->
  let '(z, r, h') := str_table_init_a h in
  h_bad h' = h_bad h /\
  match r with
  | Some t => z = 0%Z /\ owned_by h' (as_owns t) F /\ st_next_index (as_core t) = 0 /\
              (forall b, astr_inv b t /\ stra_strict (as_core t) /\ str_abs b (as_core t) = [])
  | None => z = c_SQFS_ERROR_ALLOC /\ owned_by h' [] F /\ exists k, (k < 2)%nat /\ nth_error (h_orc h) k = Some false
  end.
Proof.
  intros h F O. unfold str_table_init_a.
  destruct (array_init_a N util_sizeof_ptr 0 h) as [[z0 a] h1] eqn:Ei.
  assert (Ei' : z0 = 0%Z /\ a = mk_aarr N (mk_arr N util_sizeof_ptr 0 0 []) None /\ h1 = h).
  { unfold array_init_a, array_init in Ei. cbn in Ei. inversion Ei. auto. }
  destruct Ei' as (-> & -> & ->).
  pose proof (ht_create_a_spec skey N h F O) as Hc.
  destruct (ht_create_a skey N h) as [[ht|] h2] eqn:Ec.
  - destruct Hc as (B & Oh & [Wa Ws] & Hl & Ecr & _). split; [exact B|]. split; [reflexivity|].
    split; [unfold as_owns, as_arr, as_ht; cbn; destruct ht; exact Oh|]. split; [reflexivity|].
    intro b. unfold ah_live in Hl.
    split; [|split; [exact Ws|unfold str_abs; reflexivity]].
    split; [|intros _; reflexivity]. constructor; cbn.
    + exact Wa.
    + destruct (ht_create_wf skey N) as (c & Ec' & Wc & Lc). rewrite Ec' in Ecr. inversion Ecr; subst c.
      rewrite <- (wf_deleted skey N _ Wc). pose proof (wf_load skey N _ Wc). pose proof (wf_entries skey N _ Wc) as He.
      unfold ht_create in Ec'. destruct (nth_error util_hash_sizes 0); [|discriminate]. inversion Ec'. reflexivity.
    + split; cbn; [reflexivity|lia].
    + reflexivity.
    + rewrite Hl. reflexivity.
    + intros i bid H. destruct i; discriminate.
    + intros hh o s bid H. rewrite Hl in H. contradiction.
    + constructor.
  - destruct Hc as (B & Oh & Hk). cbn. split; [exact B|]. split; [reflexivity|]. split; [exact Oh|exact Hk].
Qed.

(* ---- str_table_get_index: a string of the table (no allocation) ---- *)
Theorem get_index_a_found : forall fx b t s i h,
  stra_inv b (as_core t) -> nth_error (strings b (as_core t)) i = Some s ->
  str_table_get_index_a fx b t s h = SOk (b, t, 0%Z, N.of_nat i, h).
Proof.
  intros fx b t s i h I Hi. unfold str_table_get_index_a.
  destruct (ht_search_wfa skey N str_keq (st_ht (as_core t)) (strhash s) (None, s) (sa_wf _ _ I) (strhash_lt s))
    as (r & -> & Hr).
  destruct r as [a|].
  - destruct Hr as (k & d & Hs & Hk). unfold ht_entry. rewrite Hs.
    apply str_keq_true in Hk. destruct k as [o s']. cbn in Hk. subst s'.
    assert (Hin : In (strhash s, (o, s), d) (slivel (ht_table skey N (st_ht (as_core t))))) by (apply livel_In; eauto).
    destruct (sa_ent _ _ I _ _ _ _ Hin) as (bk & Hg & Hbs & _ & _ & Hn). rewrite Hg.
    f_equal. f_equal. f_equal.
    assert (Hj : nth_error (strings b (as_core t)) (N.to_nat (b_index bk)) = Some s).
    { unfold strings, str_abs. rewrite map_map. rewrite nthN_nth_error in Hn.
      erewrite map_nth_error; [|exact Hn]. unfold bucket_of. rewrite Hg. cbn. congruence. }
    assert (N.to_nat (b_index bk) = i).
    { eapply (proj1 (NoDup_nth_error (strings b (as_core t))) (sa_nodup _ _ I)); [|congruence].
      apply nth_error_Some. congruence. }
    lia.
  - exfalso.
    assert (Hin : In s (strings b (as_core t))) by (eapply nth_error_In; eauto).
    apply (In_strings_a _ _ s I) in Hin. destruct Hin as (o & bid & Hin).
    apply livel_In in Hin. destruct Hin as [p Hp].
    specialize (Hr p (o, s) bid Hp). rewrite str_keq_refl in Hr. discriminate.
Qed.

(* ---- str_table_get_index: a new string, any oracle ---- *)
Definition gi_ok (b : bheap) (t : astr) (s : list N) (b' : bheap) (t' : astr) (idx : N) : Prop :=
  idx = st_next_index (as_core t) /\
  str_abs b' (as_core t') = str_abs b (as_core t) ++ [(s, 0)] /\
  st_next_index (as_core t') = st_next_index (as_core t) + 1 /\
  ht_entries skey N (st_ht (as_core t')) = ht_entries skey N (st_ht (as_core t)) + 1 /\
  (stra_strict (as_core t) -> stra_strict (as_core t')).

(* a failed call: error code, the abstract value and the index array are what they were *)
Definition gi_failed (fx : bool) (b : bheap) (t : astr) (b' : bheap) (t' : astr) : Prop :=
  str_abs b' (as_core t') = str_abs b (as_core t) /\
  st_next_index (as_core t') = st_next_index (as_core t) /\
  st_arr (as_core t') = st_arr (as_core t) /\ as_aid t' = as_aid t /\
  ht_entries skey N (st_ht (as_core t')) <= ht_entries skey N (st_ht (as_core t)) + 1 /\
  (fx = true -> ht_entries skey N (st_ht (as_core t')) = ht_entries skey N (st_ht (as_core t))) /\
  (fx = true -> stra_strict (as_core t) -> stra_strict (as_core t')).

Theorem get_index_a_new : forall fx b t s h F,
  astr_inv b t -> ~ In s (strings b (as_core t)) ->
  ht_entries skey N (st_ht (as_core t)) < ht_safe_limit ->
  owned_by h (as_owns t) F ->
  exists b' t' z idx h',
    str_table_get_index_a fx b t s h = SOk (b', t', z, idx, h') /\
    astr_inv b' t' /\ owned_by h' (as_owns t') F /\ h_bad h' = h_bad h /\
    (forall id, id <> h_next h -> bh_get b' id = bh_get b id) /\
    ((z = 0%Z /\ gi_ok b t s b' t' idx) \/ (z = c_SQFS_ERROR_ALLOC /\ idx = 0 /\ gi_failed fx b t b' t')).
Proof.
  intros fx b t s h F [I Hnull] Hnew Hlim O. unfold str_table_get_index_a.
  pose proof (sa_wf _ _ I) as W.
  destruct (ht_search_wfa skey N str_keq (st_ht (as_core t)) (strhash s) (None, s) W (strhash_lt s)) as (r & -> & Hr).
  assert (Hno : forall o bid, ~ In (strhash s, (o, s), bid) (slivel (ht_table skey N (st_ht (as_core t))))).
  { intros o bid Hin. apply Hnew. apply (In_strings_a _ _ s I). eauto. }
  destruct r as [a|].
  { exfalso. destruct Hr as (k & d & Hs & Hk). apply str_keq_true in Hk. destruct k as [o s']. cbn in Hk. subst s'.
    apply (Hno o d). apply livel_In. eauto. }
  clear Hr.
  destruct (alloc h) as [[newid|] h1] eqn:Ea.
  2: { (* (1) alloc_flex returns NULL *)
    destruct (owned_alloc_fail _ _ _ _ O Ea) as (O1 & B1).
    exists b, t, c_SQFS_ERROR_ALLOC, 0, h1. split; [reflexivity|]. split; [split; assumption|].
    split; [exact O1|]. split; [exact B1|]. split; [reflexivity|]. right. split; [reflexivity|]. split; [reflexivity|].
    unfold gi_failed. repeat split; auto. lia. }
  destruct (owned_alloc_some _ _ _ _ _ O Ea) as (O1 & B1 & N1 & F1 & Eid).
  set (data := a_data (st_arr (as_core t))) in *.
  set (nb := mk_bucket (st_next_index (as_core t)) 0 s).
  set (b1 := bh_set b newid nb).
  assert (Hfresh : ~ In newid data).
  { intro Hc. apply N1. unfold as_owns. apply in_or_app. right. apply in_or_app. right. exact Hc. }
  assert (Hagree : forall id, In id data -> bh_get (bh_del b1 newid) id = bh_get b id).
  { intros id Hid. apply bh_get_set_del_other. intro; subst. contradiction. }
  assert (Hframe_del : forall id, id <> h_next h -> bh_get (bh_del b1 newid) id = bh_get b id).
  { intros id Hid. apply bh_get_set_del_other. congruence. }
  assert (Hframe_set : forall id, id <> h_next h -> bh_get b1 id = bh_get b id).
  { intros id Hid. unfold b1. rewrite bh_get_set. replace (newid =? id) with false; [reflexivity|].
    symmetry. apply N.eqb_neq. congruence. }
  assert (O1' : owned_by h1 (aa_owns N (as_arr t) ++ ah_owns skey N (as_ht t) ++ data ++ [newid]) F).
  { eapply owned_by_perm; [exact O1|]. unfold as_owns. apply perm_cons_snoc3. }
  pose proof (owned_focus _ _ _ _ _ O1') as Oh.
  destruct (ht_insert_a_spec skey N str_keq (as_ht t) (strhash s) (None, s) newid h1 _ W (strhash_lt s) Hlim Oh)
    as (ht1 & r & h2 & Ei & W1 & Oh1 & B2 & S1 & Hr).
  rewrite Ei.
  pose proof (owned_unfocus _ _ _ _ _ _ _ O1' Oh1) as O2.
  destruct r as [a|].
  2: { (* (2) hash_table_insert returns NULL: free(new) *)
    destruct Hr as (-> & _).
    rewrite !app_assoc in O2. destruct (owned_drop_last _ _ _ _ O2) as [O3 B3]. rewrite <- !app_assoc in O3.
    destruct (stra_inv_same_abs b (bh_del b1 newid) (as_core t) (st_ht (as_core t)) I W (sa_nodel _ _ I)
                (Permutation_refl _) Hagree) as [I' Habs].
    eexists. eexists. exists c_SQFS_ERROR_ALLOC, 0. eexists. split; [reflexivity|].
    cbn [as_ht ah_core ah_sid ah_tid as_core as_aid].
    split; [split; [exact I'|exact Hnull]|]. split; [exact O3|]. split; [congruence|]. split; [exact Hframe_del|].
    right. split; [reflexivity|]. split; [reflexivity|]. unfold gi_failed. cbn [as_core as_aid st_arr st_next_index st_ht].
    split; [exact Habs|]. split; [reflexivity|]. split; [reflexivity|]. split; [reflexivity|].
    split; [lia|]. split; [reflexivity|]. intros _ Hs. exact Hs. }
  destruct Hr as (Hslot & Hcase & Hcd).
  destruct Hcase as [(k0 & d0 & rest0 & Hk & P0 & _)|(Hnm & P & Hent & c1 & sl & Wc1 & Pc1 & Ec1 & Cd1 & Hsl & Hps & Ecore)].
  { exfalso. apply str_keq_true in Hk. destruct k0 as [o s']. cbn in Hk. subst s'.
    apply (Hno o d0). eapply Permutation_in; [symmetry; exact P0|left; reflexivity]. }
  specialize (Cd1 (sa_nodel _ _ I)).
  assert (Esl : sl = SFree) by (eapply nodel_slot_free; eauto). subst sl. cbn [is_deleted] in Ecore.
  destruct (wfa_repoint (ah_core ht1) a (strhash s) (None, s) newid (Some newid, s) newid W1 Hslot)
    as (W2 & Cd2 & rest & Q1 & Q2).
  set (ht2 := set_slot skey N (ah_core ht1) a (@SPresent skey N (strhash s) (Some newid, s) newid)
                       (ht_entries skey N (ah_core ht1)) (ht_deleted skey N (ah_core ht1))) in *.
  unfold ah_live in P. cbn [as_ht ah_core] in P, Pc1, Ec1, Hent.
  assert (Hrest : Permutation rest (slivel (ht_table skey N (st_ht (as_core t))))).
  { eapply Permutation_cons_inv. rewrite <- Q1. exact P. }
  assert (P2 : Permutation (slivel (ht_table skey N ht2))
                           ((strhash s, (Some newid, s), newid) :: slivel (ht_table skey N (st_ht (as_core t))))).
  { eapply Permutation_trans; [exact Q2|]. constructor. exact Hrest. }
  assert (Cd2' : count_del skey N (ht_table skey N ht2) = 0).
  { rewrite Cd2. apply Hcd. apply (sa_nodel _ _ I). }
  pose proof (owned_focus h2 [] (aa_owns N (as_arr t)) _ F O2) as Oa.
  destruct (array_append_a N (as_arr t) newid h2) as [[z arr1] h3] eqn:Eap.
  destruct (array_append_a_spec N (as_arr t) newid h2 _ z arr1 h3 (conj (sa_arr _ _ I) Hnull) Oa Eap)
    as (Oa1 & B3 & Hap).
  pose proof (owned_unfocus _ _ [] _ _ _ _ O2 Oa1) as O3. cbn [app] in O3.
  destruct Hap as [(-> & [Ai1 Hnull1] & Ad1 & Au1 & As1)|(-> & ->)].
  - (* success *)
    unfold aa_abs in Ad1. cbn [as_arr aa_core] in Ad1, Au1, As1.
    destruct (stra_inv_append b (as_core t) newid s ht2 (aa_core arr1) I Hnew Hfresh W2 Cd2' P2 Ai1 Ad1 Au1)
      as [I' Habs].
    eexists. eexists. exists 0%Z. eexists. eexists. split; [reflexivity|].
    cbn [as_core as_aid].
    split; [split; [exact I'|exact Hnull1]|]. split.
    { unfold as_owns, as_arr, as_ht. cbn [as_core as_aid as_sid as_tid st_arr st_ht]. rewrite Ad1.
      destruct arr1 as [c1' i1']. exact O3. }
    split; [congruence|]. split; [exact Hframe_set|]. left. split; [reflexivity|].
    unfold gi_ok. cbn [as_core st_next_index]. split; [reflexivity|]. split; [exact Habs|]. split; [reflexivity|].
    split; [cbn [st_ht]; change (ht_entries skey N ht2) with (ht_entries skey N (ah_core ht1)); exact Hent|].
    unfold stra_strict. cbn [st_ht]. intro Hs.
    change (ht_entries skey N ht2) with (ht_entries skey N (ah_core ht1)). rewrite Hent, Hs.
    unfold lenN. rewrite (Permutation_length P2). cbn [length]. lia.
  - (* (3) array_append fails: free(new); ent->key = NULL; ent->data = NULL *)
    unfold c_SQFS_ERROR_ALLOC at 1. cbn iota.
    set (e3 := if fx then ht_entries skey N ht2 - 1 else ht_entries skey N ht2).
    assert (Eht3 : set_slot skey N ht2 a SFree e3 (ht_deleted skey N ht2) = set_entries skey N c1 e3).
    { unfold ht2. rewrite Ecore. unfold set_slot, set_entries. cbn. rewrite !updN_updN.
      rewrite (updN_same _ _ _ _ Hsl). reflexivity. }
    rewrite Eht3.
    assert (He3 : lenN (slivel (ht_table skey N c1)) <= e3 /\ (fx = true -> e3 = ht_entries skey N c1) /\
                  e3 <= ht_entries skey N c1 + 1).
    { unfold e3, ht2. cbn [set_slot ht_entries]. rewrite Ecore. cbn [set_slot ht_entries].
      pose proof (wa_entries skey N c1 Wc1). destruct fx; split; try lia; split; try lia; intro; try discriminate; lia. }
    destruct He3 as (He3 & He3fx & He3le).
    pose proof (wfa_same_table c1 e3 Wc1 He3) as W3.
    destruct (stra_inv_same_abs b (bh_del b1 newid) (as_core t) (set_entries skey N c1 e3) I W3 Cd1 Pc1 Hagree)
      as [I' Habs].
    assert (O3' : owned_by h3 ((aa_owns N (as_arr t) ++ ah_owns skey N ht1 ++ data) ++ [newid]) F)
      by (rewrite <- !app_assoc; exact O3).
    destruct (owned_drop_last _ _ _ _ O3') as [O4 B4].
    eexists. eexists. exists c_SQFS_ERROR_ALLOC, 0. eexists. split; [reflexivity|].
    cbn [as_core as_aid].
    split; [split; [exact I'|exact Hnull]|]. split; [exact O4|]. split; [congruence|]. split; [exact Hframe_del|].
    right. split; [reflexivity|]. split; [reflexivity|]. unfold gi_failed. cbn [as_core as_aid st_arr st_next_index st_ht].
    split; [exact Habs|]. split; [reflexivity|]. split; [reflexivity|]. split; [reflexivity|].
    split; [cbn [set_entries ht_entries]; rewrite <- Ec1; exact He3le|].
    split; [intro Hfx; cbn [set_entries ht_entries]; rewrite (He3fx Hfx); exact Ec1|].
    intros Hfx Hs. unfold stra_strict in *. cbn [st_ht set_entries ht_entries ht_table].
    rewrite (He3fx Hfx), Ec1, Hs. unfold lenN. rewrite (Permutation_length Pc1). reflexivity.
Qed.

(* ---- str_table_cleanup ---- *)
Lemma entry_data_live : forall (ht : htab skey N),
  entry_data ht = map (fun e : N * skey * N => snd e) (slivel (ht_table skey N ht)).
Proof.
  intro ht. unfold entry_data. rewrite <- (live_livel skey N ht). unfold live. rewrite map_map. reflexivity.
Qed.

Lemma data_nodup : forall b t, stra_inv b t -> NoDup (a_data (st_arr t)).
Proof.
  intros b t I. apply (proj2 (NoDup_nth_error _)). intros i j Hi E.
  destruct (nth_error (a_data (st_arr t)) i) as [bid|] eqn:E1; [|apply nth_error_None in E1; lia].
  symmetry in E.
  assert (H1 : nthN (a_data (st_arr t)) (N.of_nat i) = Some bid) by (rewrite nthN_nth_error, Nat2N.id; exact E1).
  assert (H2 : nthN (a_data (st_arr t)) (N.of_nat j) = Some bid) by (rewrite nthN_nth_error, Nat2N.id; exact E).
  destruct (sa_idx b t I _ _ H1) as (bk1 & G1 & I1 & _). destruct (sa_idx b t I _ _ H2) as (bk2 & G2 & I2 & _).
  rewrite G1 in G2. inversion G2; subst. lia.
Qed.

(* the data pointers of the hash entries are exactly the buckets of the index array *)
Lemma entry_data_perm : forall b t, stra_inv b t -> Permutation (a_data (st_arr t)) (entry_data (st_ht t)).
Proof.
  intros b t I. rewrite entry_data_live.
  pose proof (data_nodup b t I) as Nd.
  assert (Hincl : incl (a_data (st_arr t)) (map (fun e : N * skey * N => snd e) (slivel (ht_table skey N (st_ht t))))).
  { intros bid H. apply In_nthN in H. destruct H as [i Hi]. destruct (sa_idx b t I _ _ Hi) as (bk & _ & _ & Hin).
    apply in_map_iff. eexists. split; [|exact Hin]. reflexivity. }
  assert (Hlen : (length (map (fun e : N * skey * N => snd e) (slivel (ht_table skey N (st_ht t))))
                  <= length (a_data (st_arr t)))%nat).
  { rewrite map_length. pose proof (sa_card b t I) as Hc. destruct (sa_arr b t I) as [Hl _].
    pose proof (sa_used b t I) as Hu. unfold lenN in *. lia. }
  apply NoDup_Permutation.
  - exact Nd.
  - eapply NoDup_incl_NoDup; eauto.
  - intro bid. split; [apply Hincl|]. apply (NoDup_length_incl Nd Hlen Hincl).
Qed.
