(* sqfs_xattr_writer_end with allocation failure (XattrEndAlloc.xw_end_a) against C01's functional model of the
   same function (C01.XattrModel.xw_end): with an oracle that never says NULL the two agree.

   Abstraction: the set under construction = the pairs behind kv_start, a pair p = (key index, value index) =
   (p / 2^32, p mod 2^32) ([cur_of]); the finished blocks in creation order = for k = 0 .. num_blocks - 1 the
   pairs of the tree node that stores index k ([blocks_of]); the string tables are not touched by end.
   [x2_rinv]: the blocks of the tree are pairwise different (the search order is strict), the list through
   the descriptors (kv_block_first .. last, the order the flush walks) enumerates the nodes in index order,
   the array holds sqfs_u64 values.

   [xw_end_a_refines_xw_end]: from such a state, with [all_ok h], xw_end_a succeeds with the index and the block
   list C01's xw_end computes, and the refinement invariant holds again. *)
From Coq Require Import NArith ZArith List Bool Lia Permutation Sorting.Sorted.
From SqfsV Require Import Base.Bytes Gen.Constants Util.GenUtil Util.HashModel Util.HashBase
     Util.ArrayModel Util.ArrayProofs Util.StrModel Util.RbModel Util.RbOrder Util.RbBalance Util.RbTheorems
     UtilAlloc.AllocBase UtilAlloc.ArrayAlloc UtilAlloc.StrAlloc
     UtilAlloc.RbAlloc UtilAlloc.XattrAlloc UtilAlloc.XattrAllocProofs
     UtilAlloc.XattrEndAlloc UtilAlloc.XattrEndBase UtilAlloc.XattrEndProofs.
From SqfsV Require Import C01.XattrModel.
Import ListNotations.
Local Open Scope N_scope.

Definition unpair (p : N) : nat * nat := (N.to_nat (p / two32w), N.to_nat (p mod two32w)).

Definition cur_of (w : axw2) : list (nat * nat) := map unpair (skipnN (x2_start w) (x2_data w)).

Definition block_at (w : axw2) (k : N) : list (nat * nat) :=
  match find (fun e => elem_idx e =? k) (elems w) with
  | Some e => map unpair (run_of (x2_data w) (key_start (ekey e)) (key_count (ekey e)))
  | None => []
  end.

Definition blocks_of (w : axw2) : list (list (nat * nat)) :=
  map (fun k => block_at w (N.of_nat k)) (seq 0 (N.to_nat (x2_num w))).

Record x2_rinv (w : axw2) : Prop := mk_x2_rinv {
  ri_strict : ssorted (block_cmp (x2_data w)) DESC_SIZE (elems w);
  ri_chain : Forall2 (fun id k => exists e, In e (elems w) /\ e_id e = id /\ elem_idx e = N.of_nat k)
                     (x2_chain w) (seq 0 (N.to_nat (x2_num w)));
  ri_u64 : Forall (fun p => p < 2 ^ 64) (x2_data w)
}.

(* ---- pairs ---- *)
Lemma unpair_inj : forall p q, unpair p = unpair q -> p = q.
Proof.
  intros p q H. unfold unpair in H. injection H as H1 H2.
  apply N2Nat.inj in H1, H2. unfold two32w in *.
  rewrite (N.div_mod p 4294967296), (N.div_mod q 4294967296) by discriminate. congruence.
Qed.

Lemma map_unpair_inj : forall l1 l2, map unpair l1 = map unpair l2 -> l1 = l2.
Proof.
  induction l1 as [|x l1 IH]; destruct l2 as [|y l2]; cbn [map]; intro H; try discriminate; [reflexivity|].
  injection H as Hx1 Hx2 Hl. f_equal; [apply unpair_inj; unfold unpair; congruence|apply IH; exact Hl].
Qed.

Lemma pair_leb_unpair : forall p q, pair_leb (unpair p) (unpair q) = (p <=? q).
Proof.
  intros p q. unfold pair_leb, unpair, two32w. cbn [fst snd].
  pose proof (N.div_mod p 4294967296 ltac:(discriminate)) as Hp.
  pose proof (N.div_mod q 4294967296 ltac:(discriminate)) as Hq.
  pose proof (N.mod_upper_bound p 4294967296 ltac:(discriminate)) as Bp.
  pose proof (N.mod_upper_bound q 4294967296 ltac:(discriminate)) as Bq.
  set (hp := p / 4294967296) in *. set (lp := p mod 4294967296) in *.
  set (hq := q / 4294967296) in *. set (lq := q mod 4294967296) in *.
  destruct (p <=? q) eqn:E.
  - apply N.leb_le in E. apply orb_true_iff.
    destruct (N.lt_ge_cases hp hq) as [H|H]; [left; apply Nat.ltb_lt; lia|].
    right. apply andb_true_iff. split; [apply Nat.eqb_eq|apply Nat.leb_le]; nia.
  - apply N.leb_gt in E. apply orb_false_iff. split; [apply Nat.ltb_ge; nia|].
    apply andb_false_iff. destruct (N.eq_dec hp hq) as [H|H].
    + right. apply Nat.leb_gt. nia.
    + left. apply Nat.eqb_neq. lia.
Qed.

Lemma ins_commute : forall p l, map unpair (ins_u64 p l) = insert_pair (unpair p) (map unpair l).
Proof.
  intros p l. induction l as [|x l IH]; cbn [ins_u64 map insert_pair]; [reflexivity|].
  rewrite pair_leb_unpair. destruct (p <=? x); cbn [map]; [reflexivity|]. rewrite IH. reflexivity.
Qed.

Lemma sort_commute : forall l, map unpair (sort_u64 l) = sort_pairs (map unpair l).
Proof. induction l as [|x l IH]; cbn [sort_u64 map sort_pairs]; [reflexivity|]. rewrite ins_commute, IH. reflexivity. Qed.

Lemma pairs_eqb_eq : forall a b, pairs_eqb a b = true <-> a = b.
Proof.
  induction a as [|[k v] a IH]; destruct b as [|[k' v'] b]; cbn [pairs_eqb]; try (split; discriminate); [tauto|].
  rewrite !andb_true_iff, !Nat.eqb_eq, IH. split; [intros [[-> ->] ->]; reflexivity|intro E; injection E; auto].
Qed.

Lemma find_block_seq : forall blk (g : nat -> list (nat * nat)) n s i,
  (forall j, (s <= j < s + n)%nat -> g j <> blk) -> find_block blk (map g (seq s n)) i = None.
Proof.
  intros blk g. induction n as [|n IH]; intros s i H; [reflexivity|]. cbn [seq map find_block].
  destruct (pairs_eqb (g s) blk) eqn:E.
  - apply pairs_eqb_eq in E. exfalso. apply (H s); [lia|exact E].
  - apply IH. intros j Hj. apply H. lia.
Qed.

Lemma find_block_seq_some : forall blk (g : nat -> list (nat * nat)) n s i k,
  (s <= k < s + n)%nat -> g k = blk -> (forall j, (s <= j < k)%nat -> g j <> blk) ->
  find_block blk (map g (seq s n)) i = Some (i + (k - s))%nat.
Proof.
  intros blk g. induction n as [|n IH]; intros s i k Hk Hg Hno; [lia|]. cbn [seq map find_block].
  destruct (Nat.eq_dec s k) as [->|Hne].
  - replace (pairs_eqb (g k) blk) with true by (symmetry; apply pairs_eqb_eq; exact Hg). f_equal. lia.
  - destruct (pairs_eqb (g s) blk) eqn:E.
    + apply pairs_eqb_eq in E. exfalso. apply (Hno s); [lia|exact E].
    + rewrite (IH (S s) (S i) k); [f_equal; lia|lia|exact Hg|]. intros j Hj. apply Hno. lia.
Qed.

(* ---- bytes of sqfs_u64 ---- *)
Lemma le64_inj : forall p q, p < 2 ^ 64 -> q < 2 ^ 64 -> le64 p = le64 q -> p = q.
Proof.
  intros p q Hp Hq E.
  rewrite <- (Bytes.rd_le 8 p [] Hp), <- (Bytes.rd_le 8 q [] Hq). unfold le64 in E. rewrite E. reflexivity.
Qed.

Lemma app_inj_len : forall (A : Type) (a b c d : list A), length a = length b -> a ++ c = b ++ d -> a = b /\ c = d.
Proof.
  intros A a. induction a as [|x a IH]; destruct b as [|y b]; cbn; intros c d L E; try discriminate; [auto|].
  injection E as -> E. destruct (IH b c d ltac:(lia) E) as [-> ->]. auto.
Qed.

Lemma flat_le64_inj : forall l1 l2,
  Forall (fun p => p < 2 ^ 64) l1 -> Forall (fun p => p < 2 ^ 64) l2 ->
  flat_map le64 l1 = flat_map le64 l2 -> l1 = l2.
Proof.
  induction l1 as [|x l1 IH]; destruct l2 as [|y l2]; cbn [flat_map]; intros F1 F2 E; try reflexivity.
  - exfalso. apply (f_equal (@length N)) in E. rewrite app_length in E. unfold le64 in E. rewrite le_length in E. cbn in E. lia.
  - exfalso. apply (f_equal (@length N)) in E. rewrite app_length in E. unfold le64 in E. rewrite le_length in E. cbn in E. lia.
  - inversion F1; subst. inversion F2; subst.
    assert (E1 : le64 x = le64 y /\ flat_map le64 l1 = flat_map le64 l2).
    { apply app_inj_len; [unfold le64; rewrite !le_length; reflexivity|exact E]. }
    destruct E1 as [Ex El]. f_equal; [apply le64_inj; assumption|apply IH; assumption].
Qed.

Lemma firstn_In' : forall (A : Type) n (l : list A) x, In x (firstn n l) -> In x l.
Proof.
  intros A n. induction n as [|n IH]; intros l x H; [destruct H|]. destruct l as [|y l]; [destruct H|].
  destruct H as [->|H]; [left; reflexivity|right; apply IH; exact H].
Qed.

Lemma Forall_run_of : forall (P : N -> Prop) data s c, Forall P data -> Forall P (run_of data s c).
Proof.
  intros P data s c H. unfold run_of, firstnN, skipnN. rewrite Forall_forall in *. intros x Hx. apply H.
  apply firstn_In' in Hx. eapply skipn_In. exact Hx.
Qed.

(* ---- the tree ---- *)
Lemma ssorted_distinct : forall cmp ks (l : list elem),
  (forall a b, (cmp a b < 0 <-> 0 < cmp b a)%Z) ->
  ssorted cmp ks l -> forall a b, In a l -> In b l -> a <> b -> cmp (key ks a) (key ks b) <> 0%Z.
Proof.
  intros cmp ks l Anti S. unfold ssorted in S. induction S as [|x l S IH F]; intros a b Ha Hb Hne; [destruct Ha|].
  rewrite Forall_forall in F. unfold lt in F.
  destruct Ha as [<-|Ha]; destruct Hb as [<-|Hb].
  - congruence.
  - specialize (F b Hb). lia.
  - specialize (F a Ha). apply Anti in F. lia.
  - apply IH; assumption.
Qed.

Lemma find_idx : forall (l : list elem) e,
  NoDup (map elem_idx l) -> In e l -> find (fun x => elem_idx x =? elem_idx e) l = Some e.
Proof.
  induction l as [|x l IH]; intros e Nd He; [destruct He|]. cbn [find map] in *.
  inversion Nd as [|? ? Hn Nd']; subst. destruct He as [->|He].
  - rewrite N.eqb_refl. reflexivity.
  - destruct (elem_idx x =? elem_idx e) eqn:E.
    + apply N.eqb_eq in E. exfalso. apply Hn. rewrite E. apply in_map. exact He.
    + apply IH; assumption.
Qed.

Lemma block_at_elem : forall b w f e,
  x2_inv b w f -> In e (elems w) ->
  block_at w (elem_idx e) = map unpair (run_of (x2_data w) (key_start (ekey e)) (key_count (ekey e))).
Proof. intros b w f e I He. unfold block_at. rewrite (find_idx _ e (xi_nodup _ _ _ I) He). reflexivity. Qed.

Lemma Forall2_nth_right : forall (A B : Type) (P : A -> B -> Prop) la lb k y,
  Forall2 P la lb -> nth_error lb k = Some y -> exists x, nth_error la k = Some x /\ P x y.
Proof.
  intros A B P la lb k y H. revert k. induction H as [|x0 y0 la lb Hp H IH]; intros k Hn; [destruct k; discriminate|].
  destruct k as [|k]; cbn [nth_error] in *.
  - injection Hn as ->. exists x0. auto.
  - apply IH. exact Hn.
Qed.

Lemma Forall2_weaken : forall (A B : Type) (P Q : A -> B -> Prop) la lb,
  (forall a b, P a b -> Q a b) -> Forall2 P la lb -> Forall2 Q la lb.
Proof. intros A B P Q la lb H F. induction F; constructor; auto. Qed.

Lemma chain_elem : forall w k, x2_rinv w -> (k < N.to_nat (x2_num w))%nat ->
  exists e, In e (elems w) /\ elem_idx e = N.of_nat k.
Proof.
  intros w k R Hk.
  assert (Hn : nth_error (seq 0 (N.to_nat (x2_num w))) k = Some k).
  { rewrite nth_error_nth' with (d := 0%nat) by (rewrite seq_length; exact Hk). rewrite seq_nth by exact Hk. reflexivity. }
  destruct (Forall2_nth_right _ _ _ _ _ _ _ (ri_chain _ R) Hn) as (id & _ & e & He & _ & Hi). exists e. auto.
Qed.

Lemma run_len_below : forall data f s c, s + c <= f -> f <= lenN data -> lenN (run_of data s c) = c.
Proof.
  intros data f s c H Hf. unfold run_of, firstnN, skipnN, lenN in *. rewrite firstn_length, skipn_length. lia.
Qed.

(* two elements in front of the fence with the same pairs compare equal *)
Lemma same_run_cmp_zero : forall data f a b,
  f <= lenN data -> key_start a + key_count a <= f -> key_start b + key_count b <= f ->
  run_of data (key_start a) (key_count a) = run_of data (key_start b) (key_count b) ->
  block_cmp data a b = 0%Z.
Proof.
  intros data f a b Hf Ha Hb E. apply block_cmp_zero_intro.
  - rewrite <- (run_len_below data f _ _ Ha Hf), <- (run_len_below data f _ _ Hb Hf), E. reflexivity.
  - unfold run_bytes. rewrite E. reflexivity.
Qed.

Lemma xw_end_nonempty : forall w, x_cur w <> [] ->
  xw_end w =
  match find_block (sort_pairs (x_cur w)) (x_blocks w) 0 with
  | Some i => (mkX (x_keys w) (x_vals w) (x_refs w) [] (x_blocks w), N.of_nat i)
  | None => (mkX (x_keys w) (x_vals w) (x_refs w) [] (x_blocks w ++ [sort_pairs (x_cur w)]), N.of_nat (length (x_blocks w)))
  end.
Proof. intros w H. unfold xw_end. destruct (x_cur w); [congruence|reflexivity]. Qed.

Section REFINE.
Variables (kk vv : list (list N)) (rr : list N).

Theorem xw_end_a_refines_xw_end : forall b w h F,
  x2_inv b w (x2_start w) -> x2_rinv w -> x2_used w < 2 ^ 64 -> x2_num w < 4294967295 ->
  owned_by h (x2_owns w) F -> all_ok h ->
  exists w' idx h',
    xw_end_a w h = EOk w' 0%Z (Some idx) h' /\
    x2_inv b w' (x2_used w') /\ x2_rinv w' /\
    xw_end (mkX kk vv rr (cur_of w) (blocks_of w)) = (mkX kk vv rr [] (blocks_of w'), idx).
Proof.
  intros b w h F I R U64 Hnum O Aok.
  destruct (xw_end_a_spec b w h F I U64 Hnum O) as (w' & z & out & h' & E & _ & _ & Rest & Hc).
  destruct Hc as [(-> & I' & _ & idx & -> & H0 & H1 & H2)|(_ & _ & (o & Ho) & _)].
  2: { exfalso. specialize (Aok false). rewrite Ho in Aok. discriminate Aok. left. reflexivity. }
  exists w', idx, h'. split; [exact E|]. split; [exact I'|].
  pose proof (xi_w _ _ _ I) as (_ & _ & [[Pl _] _] & Hstart). change (lenN (x2_data w) = x2_used w) in Pl.
  change (x2_start w <= x2_used w) in Hstart.
  destruct (N.eq_dec (x2_used w) (x2_start w)) as [Eq|Ne].
  { (* nothing since begin *)
    destruct (H0 Eq) as (-> & -> & ->). split; [exact R|].
    unfold xw_end, cur_of. cbn [x_cur x_keys x_vals x_refs x_blocks].
    replace (skipnN (x2_start w) (x2_data w)) with (@nil N); [reflexivity|].
    symmetry. unfold skipnN. apply skipn_all2. unfold lenN in Pl. lia. }
  assert (Hlt : x2_start w < x2_used w) by lia.
  set (data := x2_data w) in *. set (start := x2_start w) in *.
  set (cur := skipnN start data) in *.
  assert (Cne : cur <> []).
  { intro Z. apply (f_equal (@lenN N)) in Z. unfold cur in Z. rewrite lenN_skipnN in Z. cbn in Z. lia. }
  set (data' := sorted_data w) in *.
  assert (Lpre : lenN (firstnN start data) = start) by (apply lenN_firstnN_le; lia).
  assert (Epre : firstnN start data' = firstnN start data) by (apply firstnN_app_exact; exact Lpre).
  assert (Lcur : lenN (sort_u64 cur) = x2_used w - start).
  { rewrite sort_u64_length. unfold cur. rewrite lenN_skipnN. lia. }
  assert (Ldata' : lenN data' = x2_used w).
  { unfold data', sorted_data. fold start data cur. rewrite lenN_app, Lpre, Lcur. lia. }
  assert (U' : Forall (fun p => p < 2 ^ 64) data').
  { eapply Permutation_Forall; [|exact (ri_u64 _ R)]. fold data. unfold data', sorted_data. fold start data cur.
    rewrite <- (firstnN_skipnN _ start data) at 1. apply Permutation_app_head. apply sort_u64_perm. }
  set (dk := end_key w) in *.
  assert (Kst : key_start dk = start) by (apply key_start_desc; lia).
  assert (Kct : key_count dk = x2_used w - start) by (apply key_count_desc; lia).
  assert (Rkey : run_of data' (key_start dk) (key_count dk) = sort_u64 cur).
  { rewrite Kst, Kct. unfold run_of, data', sorted_data. fold start data cur.
    rewrite (skipnN_app_exact _ _ _ _ Lpre). apply firstnN_all_len. rewrite Lcur. lia. }
  set (blk := sort_pairs (cur_of w)).
  assert (Eblk : blk = map unpair (sort_u64 cur)) by (unfold blk, cur_of; fold start data cur; symmetry; apply sort_commute).
  pose proof (xi_below _ _ _ I) as Bel. fold start in Bel. rewrite Forall_forall in Bel.
  (* the block of an element of the old tree, read in the sorted array *)
  assert (Hrun : forall e, In e (elems w) ->
            run_of data (key_start (ekey e)) (key_count (ekey e)) = run_of data' (key_start (ekey e)) (key_count (ekey e))).
  { intros e He. apply (run_of_agree data data' start); [symmetry; exact Epre|apply (Bel e He)]. }
  (* an old element whose block is blk compares equal to the key *)
  assert (Hzero : forall e, In e (elems w) ->
            map unpair (run_of data (key_start (ekey e)) (key_count (ekey e))) = blk ->
            block_cmp data' dk (ekey e) = 0%Z).
  { intros e He Hb. rewrite Eblk in Hb. apply map_unpair_inj in Hb. rewrite (Hrun e He) in Hb.
    apply (same_run_cmp_zero data' (x2_used w)); [lia|rewrite Kst, Kct; lia|pose proof (Bel e He) as B0; unfold below in B0; lia|].
    rewrite Rkey. symmetry. exact Hb. }
  assert (Hg : forall k, (k < N.to_nat (x2_num w))%nat ->
            exists e, In e (elems w) /\ elem_idx e = N.of_nat k /\
                      block_at w (N.of_nat k) = map unpair (run_of data (key_start (ekey e)) (key_count (ekey e)))).
  { intros k Hk. destruct (chain_elem w k R Hk) as (e & He & Hi). exists e. split; [exact He|]. split; [exact Hi|].
    rewrite <- Hi. apply (block_at_elem b w _ e I He). }
  assert (Ecur : cur_of w <> []).
  { unfold cur_of. fold start data cur. destruct cur; [congruence|discriminate]. }
  rewrite xw_end_nonempty by exact Ecur. cbn [x_cur x_keys x_vals x_refs x_blocks]. fold blk.
  destruct (H2 Hlt) as [Fd|Nw].
  - (* found *)
    destruct Fd as (Et & Ech & En & Eu & Ed & e & He & Hi & Hz). fold start data dk data' in Hz, Ed.
    assert (Hik : elem_idx e < x2_num w).
    { pose proof (xi_lt _ _ _ I) as L. rewrite Forall_forall in L. apply L. exact He. }
    assert (Ebe : map unpair (run_of data (key_start (ekey e)) (key_count (ekey e))) = blk).
    { rewrite Eblk. f_equal. rewrite (Hrun e He).
      destruct (block_cmp_zero _ _ _ Hz) as [_ Hr]. unfold run_bytes in Hr. rewrite Rkey in Hr.
      symmetry. apply flat_le64_inj; [| |exact Hr].
      - eapply Permutation_Forall; [apply sort_u64_perm|]. unfold cur, skipnN.
        pose proof (ri_u64 _ R) as U0. fold data in U0. rewrite Forall_forall in U0. apply Forall_forall.
        intros x Hx. apply U0. eapply skipn_In. exact Hx.
      - apply Forall_run_of. exact U'. }
    assert (Efind : find_block blk (blocks_of w) 0 = Some (N.to_nat (elem_idx e))).
    { unfold blocks_of.
      rewrite (find_block_seq_some blk _ _ 0 0 (N.to_nat (elem_idx e))); [f_equal; lia|lia| |].
      - rewrite N2Nat.id. rewrite (block_at_elem b w _ e I He). exact Ebe.
      - intros j Hj Hb. destruct (Hg j ltac:(lia)) as (ej & Hej & Hij & Hbj). rewrite Hbj in Hb.
        pose proof (Hzero ej Hej Hb) as Z1.
        (* ej and e both compare equal to the key: they compare equal to each other, but are different nodes *)
        assert (Hne : ej <> e) by (intro; subst ej; lia).
        assert (S' : ssorted (block_cmp data') DESC_SIZE (elems w)).
        { apply (ssorted_cmp_ext (block_cmp data)); [|exact (ri_strict _ R)].
          intros x y Hx Hy. apply (block_cmp_agree data data' start); [symmetry; exact Epre|apply (Bel x Hx)|apply (Bel y Hy)]. }
        apply (ssorted_distinct _ _ _ (block_cmp_antisym data') S' ej e Hej He Hne).
        fold (ekey ej) (ekey e).
        assert (Z2 : block_cmp data' (ekey ej) dk = 0%Z).
        { pose proof (block_cmp_antisym data' dk (ekey ej)). pose proof (block_cmp_antisym data' (ekey ej) dk). lia. }
        pose proof (block_cmp_trans data' (ekey ej) dk (ekey e) ltac:(lia) ltac:(lia)) as T1.
        assert (Z3 : block_cmp data' (ekey e) dk = 0%Z).
        { pose proof (block_cmp_antisym data' dk (ekey e)). pose proof (block_cmp_antisym data' (ekey e) dk). lia. }
        pose proof (block_cmp_trans data' (ekey e) dk (ekey ej) ltac:(lia) ltac:(lia)) as T2.
        pose proof (block_cmp_antisym data' (ekey ej) (ekey e)). pose proof (block_cmp_antisym data' (ekey e) (ekey ej)). lia. }
    rewrite Efind.
    assert (Eb' : blocks_of w' = blocks_of w).
    { unfold blocks_of. rewrite En. apply map_ext_in. intros k Hk. apply in_seq in Hk.
      unfold block_at, elems. rewrite Et. fold (elems w).
      destruct (find (fun e0 => elem_idx e0 =? N.of_nat k) (elems w)) as [e0|] eqn:Ef; [|reflexivity].
      apply find_some in Ef. destruct Ef as [He0 _]. f_equal. rewrite Ed. fold data.
      symmetry. apply (run_of_agree data (firstnN start data) start); [symmetry; apply firstnN_firstnN_same|apply (Bel e0 He0)]. }
    split.
    + constructor.
      * unfold elems. rewrite Et. fold (elems w). rewrite Ed. fold data.
        apply (ssorted_cmp_ext (block_cmp data)); [|exact (ri_strict _ R)].
        intros x y Hx Hy. apply (block_cmp_agree data _ start); [symmetry; apply firstnN_firstnN_same|apply (Bel x Hx)|apply (Bel y Hy)].
      * rewrite Ech, En. unfold elems. rewrite Et. exact (ri_chain _ R).
      * rewrite Ed. fold data. unfold firstnN. rewrite Forall_forall. intros x Hx. apply firstn_In' in Hx.
        pose proof (ri_u64 _ R) as U. rewrite Forall_forall in U. apply U. exact Hx.
    + rewrite Eb', <- Hi, N2Nat.id. reflexivity.
  - (* new *)
    destruct Nw as (-> & En & Ech & Eu & Ed & Hnone & ne & Eel & Ekn & Ein & Eid). fold start data dk data' in Hnone, Ed, Eel, Ekn.
    assert (Efind : find_block blk (blocks_of w) 0 = None).
    { unfold blocks_of. apply find_block_seq. intros j Hj Hb. destruct (Hg j ltac:(lia)) as (ej & Hej & _ & Hbj).
      rewrite Hbj in Hb. apply (Hnone ej Hej). apply Hzero; assumption. }
    rewrite Efind.
    assert (Pel : Permutation (ne :: elems w) (elems w')) by (rewrite Eel; apply ins_sorted_perm).
    assert (Hin' : forall e, In e (elems w) -> In e (elems w')).
    { intros e He. eapply Permutation_in; [exact Pel|]. right. exact He. }
    assert (Hne' : In ne (elems w')) by (eapply Permutation_in; [exact Pel|left; reflexivity]).
    assert (Eb' : blocks_of w' = blocks_of w ++ [blk]).
    { unfold blocks_of. rewrite En. replace (N.to_nat (x2_num w + 1)) with (N.to_nat (x2_num w) + 1)%nat by lia.
      rewrite seq_app, map_app. cbn [seq map plus]. f_equal.
      - apply map_ext_in. intros k Hk. apply in_seq in Hk. destruct (Hg k ltac:(lia)) as (e & He & Hi & Hb).
        rewrite Hb, <- Hi. rewrite (block_at_elem b w' _ e I' (Hin' e He)). rewrite Ed. f_equal. symmetry. apply Hrun. exact He.
      - f_equal. rewrite N2Nat.id, <- Ein. rewrite (block_at_elem b w' _ ne I' Hne'). rewrite Ed, Ekn, Rkey. symmetry. exact Eblk. }
    split.
    + constructor.
      * rewrite Ed, Eel. apply (ins_sorted_ssorted _ _ (block_cmp_antisym data') (block_cmp_trans data')).
        -- apply (ssorted_cmp_ext (block_cmp data)); [|exact (ri_strict _ R)].
           intros x y Hx Hy. apply (block_cmp_agree data data' start); [symmetry; exact Epre|apply (Bel x Hx)|apply (Bel y Hy)].
        -- intros y Hy. fold (ekey ne) (ekey y). rewrite Ekn. apply Hnone. exact Hy.
      * rewrite Ech, En. replace (N.to_nat (x2_num w + 1)) with (N.to_nat (x2_num w) + 1)%nat by lia.
        rewrite seq_app. cbn [seq plus]. apply Forall2_app.
        -- eapply Forall2_weaken; [|exact (ri_chain _ R)]. intros id k (e & He & Hi1 & Hi2). exists e. auto.
        -- constructor; [|constructor]. exists ne. split; [exact Hne'|]. split; [exact Eid|]. rewrite Ein. lia.
      * rewrite Ed. exact U'.
    + rewrite Eb'. f_equal. unfold blocks_of. rewrite map_length, seq_length. apply N2Nat.id.
Qed.

End REFINE.
