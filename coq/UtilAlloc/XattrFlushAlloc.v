(* The allocation sites of sqfs_xattr_writer_flush (lib/sqfs/src/xattr/xattr_writer_flush.c) and of the
   meta writer it drives (lib/sqfs/src/meta_writer.c), in the order the code reaches them -- executable
   model, definitions only.  The BYTES the flush writes are ImgXattr.FlushModel's (C01 / C03); here only
   what decides which allocation call comes when, what a NULL makes the function return, and what is
   live afterwards:

     used == 0 || num_blocks == 0                    return 0, no allocation
     mw = sqfs_meta_writer_create                    calloc                 NULL -> SQFS_ERROR_ALLOC
     write_kv_pairs
       ool_locations = alloc_array(8, #values)       calloc (no call at all if 8 * #values overflows)
                                                                            NULL -> SQFS_ERROR_ALLOC
       per block (list order), per pair:
         ool_locations[val_idx] == ~0:  write_key 4 + len; write_value: from_base32 malloc(len / 2)
                                                                            NULL -> free(ool); SQFS_ERROR_ALLOC
                                        append 4, append size; free(value)   (an append that fails: free(value) first)
                                        should_store_ool -> ool_locations[val_idx] = ref
         else                           write_key 4 + len; write_value_ool 4 + 8
       free(ool_locations); sqfs_meta_writer_flush(mw)
     sqfs_meta_writer_reset
     alloc_location_table                            num_blocks * 16 overflows -> SQFS_ERROR_OVERFLOW;
                                                     alloc_array(8, ceil(size / 8192))  NULL -> SQFS_ERROR_ALLOC
     write_id_table                                  16 bytes per block, flush
     out: free(locations); sqfs_drop(mw)             meta_writer_destroy: list empty (flags 0), free(m)

   sqfs_meta_writer_append(m, data, size): the buffer holds [off] < 8192 bytes; every time it reaches 8192
   sqfs_meta_writer_flush runs: outblk = calloc (NULL -> SQFS_ERROR_ALLOC), compress, write_block,
   free(outblk).  So an append of n bytes makes (off + n) / 8192 such transient allocations and leaves
   (off + n) mod 8192 bytes.  NOT modelled: the compressor's own allocations and errors, I/O errors of
   write_at (C13's system-call leg), append sizes beyond size_t.

   A key string that is not in the table / has no known prefix, a value index beyond the table: the C code
   would dereference NULL / index out of bounds: FlCrash. *)
From Coq Require Import NArith ZArith List Bool.
From SqfsV Require Import Gen.Constants Util.GenUtil Util.HashModel Util.ArrayModel Util.StrModel Util.RbModel
     UtilAlloc.AllocBase UtilAlloc.ArrayAlloc UtilAlloc.StrAlloc UtilAlloc.XattrAlloc UtilAlloc.XattrEndAlloc.
From SqfsV Require C01.XattrModel.
Import ListNotations.
Local Open Scope N_scope.

Inductive flres : Type :=
| FlOk (off : N)          (* fill level of the meta writer's buffer *)
| FlErr (z : Z)
| FlCrash.

Definition fl := heap -> flres * heap.

Definition fl_ret (r : flres) : fl := fun h => (r, h).
Definition fl_bind (f : fl) (k : N -> fl) : fl :=
  fun h => match f h with
           | (FlOk off, h1) => k off h1
           | (r, h1) => (r, h1)
           end.

(* p = malloc / calloc; NULL -> SQFS_ERROR_ALLOC; ... body ...; free(p) on every way out *)
Definition fl_block (body : fl) : fl :=
  fun h => match alloc h with
           | (None, h1) => (FlErr c_SQFS_ERROR_ALLOC, h1)
           | (Some id, h1) => let '(r, h2) := body h1 in (r, free h2 id)
           end.

Definition META_SZ : N := c_SQFS_META_BLOCK_SIZE.

(* n flushes of a full buffer *)
Fixpoint mw_flushes (n : nat) : fl :=
  match n with
  | O => fl_ret (FlOk 0)
  | S n' => fl_bind (fl_block (fl_ret (FlOk 0))) (fun _ => mw_flushes n')
  end.

(* sqfs_meta_writer_append of n bytes *)
Definition mw_append_a (off n : N) : fl :=
  fl_bind (mw_flushes (N.to_nat ((off + n) / META_SZ))) (fun _ => fl_ret (FlOk ((off + n) mod META_SZ))).

(* sqfs_meta_writer_flush *)
Definition mw_flush_a (off : N) : fl :=
  if off =? 0 then fl_ret (FlOk 0) else fl_block (fl_ret (FlOk 0)).

(* strlen(strchr(key, '.') + 1) of a key sqfs_get_xattr_prefix_id accepts *)
Definition suffix_len (key : list N) : option N :=
  match C01.XattrModel.prefix_of key with
  | Some (_, sfx) => Some (lenN sfx)
  | None => None
  end.

Definition opt_str (r : sres (option (list N))) : option (list N) :=
  match r with SOk (Some s) => Some s | _ => None end.

Section FLUSH.
Variable b : bheap.
Variable keys values : str_table.

(* one iteration of write_block_pairs; ool = "ool_locations[i] != ~0" *)
Definition fl_pair (st : N * list bool) (ent : N) : heap -> (option (N * list bool) * flres) * heap :=
  fun h =>
  let '(off, ool) := st in
  let ki := get_key ent in
  let vi := get_value ent in
  match opt_str (str_table_get_string b keys ki), opt_str (str_table_get_string b values vi),
        nth_error ool (N.to_nat vi) with
  | Some ks, Some vs, Some is_ool =>
    match suffix_len ks with
    | None => ((None, FlCrash), h)
    | Some klen =>
      if is_ool then
        match fl_bind (mw_append_a off 4) (fun o1 => fl_bind (mw_append_a o1 klen) (fun o2 =>
              fl_bind (mw_append_a o2 4) (fun o3 => mw_append_a o3 8))) h with
        | (FlOk o, h1) => ((Some (o, ool), FlOk o), h1)
        | (r, h1) => ((None, r), h1)
        end
      else
        let size := lenN vs / 2 in
        match fl_bind (mw_append_a off 4) (fun o1 => fl_bind (mw_append_a o1 klen) (fun o2 =>
              fl_block (fl_bind (mw_append_a o2 4) (fun o3 => mw_append_a o3 size)))) h with
        | (FlOk o, h1) =>
          let rc := match str_table_get_ref_count b values vi with SOk n => n | _ => 0 end in
          let ool' := if (2 <=? rc) && (8 <? size) then updN ool vi true else ool in
          ((Some (o, ool'), FlOk o), h1)
        | (r, h1) => ((None, r), h1)
        end
    end
  | _, _, _ => ((None, FlCrash), h)
  end.

Fixpoint fl_pairs (st : N * list bool) (l : list N) : heap -> (option (N * list bool) * flres) * heap :=
  fun h =>
  match l with
  | [] => ((Some st, FlOk (fst st)), h)
  | ent :: r =>
    match fl_pair st ent h with
    | ((Some st1, _), h1) => fl_pairs st1 r h1
    | e => e
    end
  end.

(* the loop over the blocks of write_kv_pairs; a block = its pairs *)
Fixpoint fl_blocks (st : N * list bool) (bl : list (list N)) : heap -> (option (N * list bool) * flres) * heap :=
  fun h =>
  match bl with
  | [] => ((Some st, FlOk (fst st)), h)
  | blk :: r =>
    match fl_pairs st blk h with
    | ((Some st1, _), h1) => fl_blocks st1 r h1
    | e => e
    end
  end.

Definition fl_of_loop (f : heap -> (option (N * list bool) * flres) * heap) : fl :=
  fun h => let '((_, r), h1) := f h in (r, h1).

(* write_kv_pairs *)
Definition fl_write_kv_pairs (bl : list (list N)) : fl :=
  let count := st_next_index values in
  if sz_ov (8 * count) then fl_ret (FlErr c_SQFS_ERROR_ALLOC)       (* alloc_array: NULL without a call *)
  else
    fl_bind (fl_block (fl_of_loop (fl_blocks (0, repeat false (N.to_nat count)) bl)))
            (fun off => mw_flush_a off).

(* write_id_table: one sqfs_xattr_id_t per block *)
Fixpoint fl_id_entries (n : nat) (off : N) : fl :=
  match n with
  | O => fl_ret (FlOk off)
  | S n' => fl_bind (mw_append_a off 16) (fun o => fl_id_entries n' o)
  end.

End FLUSH.

(* the blocks in list order: the pairs of the node behind every id of the chain; an id that is not a
   node's would be a dangling kv_block_desc_t pointer *)
Fixpoint tree_find (t : tree) (id : N) : option (list N) :=
  match t with
  | Leaf => None
  | Node i l _ _ d r =>
    if i =? id then Some d
    else match tree_find l id with Some x => Some x | None => tree_find r id end
  end.

Definition chain_blocks (w : axw2) : option (list (list N)) :=
  fold_right (fun id acc =>
                match tree_find (rb_root (x2_tree w)) id, acc with
                | Some d, Some l => Some (run_of (x2_data w) (key_start d) (key_count d) :: l)
                | _, _ => None
                end) (Some []) (x2_chain w).

(* sqfs_xattr_writer_flush: (return value, heap); None = Crash *)
Definition xw_flush_a (b : bheap) (w : axw2) (h : heap) : option Z * heap :=
  if (x2_used w =? 0) || (x2_num w =? 0) then (Some 0%Z, h) else
  match chain_blocks w with
  | None => (None, h)
  | Some bl =>
    let keys := as_core (xw_keys (x2_w w)) in
    let values := as_core (xw_values (x2_w w)) in
    let body : fl :=
      fl_block (                                                          (* mw *)
        fl_bind (fl_write_kv_pairs b keys values bl) (fun _ =>
          if sz_ov (x2_num w * 16) then fl_ret (FlErr c_SQFS_ERROR_OVERFLOW)
          else
            fl_block (                                                    (* locations *)
              fl_bind (fl_id_entries (length (x2_chain w)) 0) (fun off => mw_flush_a off)))) in
    match body h with
    | (FlOk _, h1) => (Some 0%Z, h1)
    | (FlErr z, h1) => (Some z, h1)
    | (FlCrash, h1) => (None, h1)
    end
  end.
