(* One level up: the xattr writer's recording path over the containers, with allocation failure --
   executable model, definitions only.

   lib/sqfs/src/xattr/xattr_writer.c        sqfs_xattr_writer_create / xattr_writer_destroy
   lib/sqfs/src/xattr/xattr_writer_record.c sqfs_xattr_writer_begin / sqfs_xattr_writer_add_kv / to_base32

   sqfs_xattr_writer_t = { keys, values : str_table_t; kv_pairs : array_t of u64 (key index << 32 |
   value index); kv_start; kv_block_tree (an rbtree: rbtree_init allocates nothing in the calloc
   variant and add_kv never touches it) ... }.  Allocation sites of add_kv, in order:
     str_table_get_index(keys)     up to three (StrAlloc.v)        error -> return it
     to_base32: malloc(2*size+1)                                   NULL  -> SQFS_ERROR_ALLOC
     str_table_get_index(values)   up to three; free(value_str)    error -> return it
     str_table_add_ref(values)     (no allocation)
     array_append(kv_pairs)        realloc                         error -> return it
   add_kv does not undo what the earlier steps did: a key (value) string that was new stays in its
   table, the reference taken on the value stays -- what never happens is a pair being recorded
   without its strings, or a pair recorded twice (XattrAllocProofs.v).
   The prefix / length checks of add_kv and sqfs_xattr_writer_end are not modelled here (C01's
   XattrModel is the functional model of the writer). *)
From Coq Require Import NArith ZArith List Bool.
From SqfsV Require Import Gen.Constants Util.GenUtil Util.HashModel Util.ArrayModel Util.StrModel
     UtilAlloc.AllocBase UtilAlloc.ArrayAlloc UtilAlloc.HashAlloc UtilAlloc.StrAlloc.
Import ListNotations.
Local Open Scope N_scope.

Record axw : Type := mk_axw {
  xw_id : N;                 (* the struct sqfs_xattr_writer_t *)
  xw_keys : astr;
  xw_values : astr;
  xw_pairs : aarr N;
  xw_start : N               (* kv_start *)
}.

Definition xw_owns (w : axw) : list N :=
  [xw_id w] ++ as_owns (xw_keys w) ++ as_owns (xw_values w) ++ aa_owns N (xw_pairs w).

Definition XATTR_INITIAL_PAIR_CAP : N := 128.
Definition sizeof_u64 : N := 8.

(* sqfs_xattr_writer_create: (writer or NULL, heap) *)
Definition xw_create_a (h : heap) : option axw * heap :=
  match alloc h with
  | (None, h1) => (None, h1)
  | (Some xid, h1) =>
    match str_table_init_a h1 with
    | (_, None, h2) => (None, free h2 xid)                                   (* fail_keys *)
    | (_, Some keys, h2) =>
      match str_table_init_a h2 with
      | (_, None, h3) =>                                                     (* fail_values *)
        (None, free (snd (str_table_cleanup_a (mk_bheap 0 []) keys h3)) xid)
      | (_, Some values, h3) =>
        match array_init_a N sizeof_u64 XATTR_INITIAL_PAIR_CAP h3 with
        | (0%Z, pairs, h4) => (Some (mk_axw xid keys values pairs 0), h4)
        | (_, _, h4) =>                                                      (* fail_pairs *)
          let h5 := snd (str_table_cleanup_a (mk_bheap 0 []) values h4) in
          (None, free (snd (str_table_cleanup_a (mk_bheap 0 []) keys h5)) xid)
        end
      end
    end
  end.

(* xattr_writer_destroy (the tree holds no node on the paths modelled here) *)
Definition xw_destroy_a (b : bheap) (w : axw) (h : heap) : bheap * heap :=
  let h1 := snd (array_cleanup_a N (xw_pairs w) h) in
  let '(b2, h2) := str_table_cleanup_a b (xw_values w) h1 in
  let '(b3, h3) := str_table_cleanup_a b2 (xw_keys w) h2 in
  (b3, free h3 (xw_id w)).

Definition xw_begin_a (w : axw) : axw :=
  mk_axw (xw_id w) (xw_keys w) (xw_values w) (xw_pairs w) (a_used (aa_core (xw_pairs w))).

(* to_base32: low nibble first *)
Definition hexmap : list N := [48; 49; 50; 51; 52; 53; 54; 55; 56; 57; 65; 66; 67; 68; 69; 70].
Definition hexdigit (n : N) : N := nth (N.to_nat n) hexmap 48.
Definition to_base32 (l : list N) : list N := flat_map (fun x => [hexdigit (x mod 16); hexdigit (x / 16 mod 16)]) l.

Definition two32w : N := 4294967296.
Definition mk_pair (k v : N) : N := k * two32w + v.
Definition get_key (p : N) : N := (p / two32w) mod two32w.
Definition get_value (p : N) : N := p mod two32w.

Inductive scan_res : Type := ScSame | ScReplace (pos old : N) | ScNone.

(* for (i = kv_start; i < used; ++i) ... *)
Fixpoint scan_pairs (l : list N) (i : N) (pair ki : N) : scan_res :=
  match l with
  | [] => ScNone
  | ent :: r =>
    if ent =? pair then ScSame
    else if get_key ent =? ki then ScReplace i (get_value ent)
    else scan_pairs r (i + 1) pair ki
  end.

Definition with_keys (w : axw) (k : astr) : axw := mk_axw (xw_id w) k (xw_values w) (xw_pairs w) (xw_start w).
Definition with_values (w : axw) (v : astr) : axw := mk_axw (xw_id w) (xw_keys w) v (xw_pairs w) (xw_start w).
Definition with_pairs (w : axw) (p : aarr N) : axw := mk_axw (xw_id w) (xw_keys w) (xw_values w) p (xw_start w).

Section FIX.
Variable fixed : bool.

(* sqfs_xattr_writer_add_kv: (store, writer, return value, heap) *)
Definition xw_add_kv_a (b : bheap) (w : axw) (key value : list N) (h : heap) : sres (bheap * axw * Z * heap) :=
  match str_table_get_index_a fixed b (xw_keys w) key h with
  | SCrash => SCrash
  | SOutOfFuel => SOutOfFuel
  | SOk (b1, k1, z1, ki, h1) =>
    let w1 := with_keys w k1 in
    match z1 with
    | 0%Z =>
      match alloc h1 with
      | (None, h2) => SOk (b1, w1, c_SQFS_ERROR_ALLOC, h2)
      | (Some tmp, h2) =>
        match str_table_get_index_a fixed b1 (xw_values w1) (to_base32 value) h2 with
        | SCrash => SCrash
        | SOutOfFuel => SOutOfFuel
        | SOk (b2, v1, z2, vi, h3) =>
          let h4 := free h3 tmp in
          let w2 := with_values w1 v1 in
          match z2 with
          | 0%Z =>
            match str_table_add_ref b2 (as_core v1) vi with
            | SCrash => SCrash
            | SOutOfFuel => SOutOfFuel
            | SOk b3 =>
              let pair := mk_pair ki vi in
              let pairs := xw_pairs w2 in
              let cur := skipn (N.to_nat (xw_start w2)) (a_data (aa_core pairs)) in
              match scan_pairs cur (xw_start w2) pair ki with
              | ScSame => SOk (b3, w2, 0%Z, h4)
              | ScReplace pos old =>
                match str_table_del_ref b3 (as_core v1) old with
                | SCrash => SCrash
                | SOutOfFuel => SOutOfFuel
                | SOk b4 =>
                  let '(_, pairs') := array_set_a N pairs pos pair in
                  SOk (b4, with_pairs w2 pairs', 0%Z, h4)
                end
              | ScNone =>
                let '(z3, pairs', h5) := array_append_a N pairs pair h4 in
                SOk (b3, with_pairs w2 pairs', z3, h5)
              end
            end
          | _ => SOk (b2, w2, z2, h4)
          end
        end
      end
    | _ => SOk (b1, w1, z1, h1)
    end
  end.

End FIX.
