(* The allocation sites of sqfs_xattr_writer_flush (XattrFlushAlloc.v), proofs: for every oracle and every
   writer state, whatever the flush allocates -- the meta writer, the out-of-line table, one buffer per in-line
   value, one block per metadata block flushed, the location table -- has been freed again when it returns
   (success, SQFS_ERROR_ALLOC at any site, SQFS_ERROR_OVERFLOW), nothing else was freed, nothing twice; the only
   error codes it produces are those two; the writer itself is an argument the function does not return: it is
   unchanged by construction (the C function takes it const; start_ref / size_bytes of the descriptors are
   outside the model, see XattrEndAlloc.v). *)
From Coq Require Import NArith ZArith List Bool Lia.
From SqfsV Require Import Gen.Constants Util.GenUtil Util.HashModel Util.ArrayModel Util.StrModel Util.RbModel
     UtilAlloc.AllocBase UtilAlloc.ArrayAlloc UtilAlloc.StrAlloc UtilAlloc.XattrAlloc UtilAlloc.XattrEndAlloc
     UtilAlloc.XattrFlushAlloc.
Import ListNotations.
Local Open Scope N_scope.

Definition fl_res_ok (r : flres) : Prop :=
  match r with
  | FlErr z => z = c_SQFS_ERROR_ALLOC \/ z = c_SQFS_ERROR_OVERFLOW
  | _ => True
  end.

(* leaves the heap's ownership as it found it, for every frame *)
Definition fl_frame (f : fl) : Prop :=
  forall h own F, owned_by h own F ->
    owned_by (snd (f h)) own F /\ h_bad (snd (f h)) = h_bad h /\ fl_res_ok (fst (f h)).

Lemma fl_ret_frame : forall r, fl_res_ok r -> fl_frame (fl_ret r).
Proof. intros r H h own F O. cbn. auto. Qed.

Lemma fl_bind_frame : forall f k, fl_frame f -> (forall o, fl_frame (k o)) -> fl_frame (fl_bind f k).
Proof.
  intros f k Hf Hk h own F O. unfold fl_bind. destruct (Hf h own F O) as (O1 & B1 & R1).
  destruct (f h) as [[off|z|] h1]; cbn [fst snd] in *.
  - destruct (Hk off h1 own F O1) as (O2 & B2 & R2). split; [exact O2|]. split; [congruence|exact R2].
  - auto.
  - auto.
Qed.

Lemma fl_block_frame : forall body, fl_frame body -> fl_frame (fl_block body).
Proof.
  intros body Hb h own F O. unfold fl_block. destruct (alloc h) as [[id|] h1] eqn:Ea.
  - destruct (owned_alloc_some _ _ _ _ _ O Ea) as (O1 & B1 & Nid & _).
    destruct (Hb h1 (id :: own) F O1) as (O2 & B2 & R2). destruct (body h1) as [r h2]. cbn [fst snd] in *.
    destruct (owned_free h2 id _ F O2 ltac:(left; reflexivity)) as [O3 B3].
    rewrite drop_head in O3 by exact Nid. split; [exact O3|]. split; [congruence|exact R2].
  - destruct (owned_alloc_fail _ _ _ _ O Ea) as (O1 & B1). cbn [fst snd]. split; [exact O1|]. split; [exact B1|].
    left. reflexivity.
Qed.

Lemma mw_flushes_frame : forall n, fl_frame (mw_flushes n).
Proof.
  induction n as [|n IH]; cbn [mw_flushes]; [apply fl_ret_frame; exact I|].
  apply fl_bind_frame; [apply fl_block_frame; apply fl_ret_frame; exact I|intros _; exact IH].
Qed.

Lemma mw_append_a_frame : forall off n, fl_frame (mw_append_a off n).
Proof.
  intros off n. unfold mw_append_a. apply fl_bind_frame; [apply mw_flushes_frame|intros _; apply fl_ret_frame; exact I].
Qed.

Lemma mw_flush_a_frame : forall off, fl_frame (mw_flush_a off).
Proof.
  intro off. unfold mw_flush_a. destruct (off =? 0); [apply fl_ret_frame; exact I|].
  apply fl_block_frame. apply fl_ret_frame. exact I.
Qed.

Definition loop_frame (f : heap -> (option (N * list bool) * flres) * heap) : Prop :=
  forall h own F, owned_by h own F ->
    owned_by (snd (f h)) own F /\ h_bad (snd (f h)) = h_bad h /\ fl_res_ok (snd (fst (f h))).

Section FLUSH.
Variable b : bheap.
Variable keys values : str_table.

Lemma fl_pair_frame : forall st ent, loop_frame (fl_pair b keys values st ent).
Proof.
  intros [off ool] ent h own F O. unfold fl_pair.
  destruct (opt_str (str_table_get_string b keys (get_key ent))) as [ks|]; [|cbn; auto].
  destruct (opt_str (str_table_get_string b values (get_value ent))) as [vs|]; [|cbn; auto].
  destruct (nth_error ool (N.to_nat (get_value ent))) as [is_ool|]; [|cbn; auto].
  destruct (suffix_len ks) as [klen|]; [|cbn; auto].
  destruct is_ool.
  - match goal with |- context [fl_bind ?a ?k h] => pose proof (fl_bind_frame a k) as Hf; set (f := fl_bind a k) in * end.
    assert (Ff : fl_frame f).
    { apply Hf; [apply mw_append_a_frame|]. intro o1. apply fl_bind_frame; [apply mw_append_a_frame|].
      intro o2. apply fl_bind_frame; [apply mw_append_a_frame|]. intro o3. apply mw_append_a_frame. }
    destruct (Ff h own F O) as (O1 & B1 & R1). destruct (f h) as [[o|z|] h1]; cbn [fst snd] in *; auto.
  - match goal with |- context [fl_bind ?a ?k h] => pose proof (fl_bind_frame a k) as Hf; set (f := fl_bind a k) in * end.
    assert (Ff : fl_frame f).
    { apply Hf; [apply mw_append_a_frame|]. intro o1. apply fl_bind_frame; [apply mw_append_a_frame|].
      intro o2. apply fl_block_frame. apply fl_bind_frame; [apply mw_append_a_frame|]. intro o3. apply mw_append_a_frame. }
    destruct (Ff h own F O) as (O1 & B1 & R1). destruct (f h) as [[o|z|] h1]; cbn [fst snd] in *; auto.
Qed.

Lemma fl_pairs_frame : forall l st, loop_frame (fl_pairs b keys values st l).
Proof.
  induction l as [|ent l IH]; intros st h own F O; cbn [fl_pairs]; [cbn; auto|].
  destruct (fl_pair_frame st ent h own F O) as (O1 & B1 & R1).
  destruct (fl_pair b keys values st ent h) as [[[st1|] r] h1]; cbn [fst snd] in *.
  - destruct (IH st1 h1 own F O1) as (O2 & B2 & R2). split; [exact O2|]. split; [congruence|exact R2].
  - auto.
Qed.

Lemma fl_blocks_frame : forall bl st, loop_frame (fl_blocks b keys values st bl).
Proof.
  induction bl as [|blk bl IH]; intros st h own F O; cbn [fl_blocks]; [cbn; auto|].
  destruct (fl_pairs_frame blk st h own F O) as (O1 & B1 & R1).
  destruct (fl_pairs b keys values st blk h) as [[[st1|] r] h1]; cbn [fst snd] in *.
  - destruct (IH st1 h1 own F O1) as (O2 & B2 & R2). split; [exact O2|]. split; [congruence|exact R2].
  - auto.
Qed.

Lemma fl_of_loop_frame : forall f, loop_frame f -> fl_frame (fl_of_loop f).
Proof.
  intros f Hf h own F O. unfold fl_of_loop. destruct (Hf h own F O) as (O1 & B1 & R1).
  destruct (f h) as [[o r] h1]. cbn [fst snd] in *. auto.
Qed.

Lemma fl_write_kv_pairs_frame : forall bl, fl_frame (fl_write_kv_pairs b keys values bl).
Proof.
  intro bl. unfold fl_write_kv_pairs. destruct (sz_ov (8 * st_next_index values)).
  - apply fl_ret_frame. left. reflexivity.
  - apply fl_bind_frame; [|intro; apply mw_flush_a_frame].
    apply fl_block_frame. apply fl_of_loop_frame. apply fl_blocks_frame.
Qed.

End FLUSH.

Lemma fl_id_entries_frame : forall n off, fl_frame (fl_id_entries n off).
Proof.
  induction n as [|n IH]; intro off; cbn [fl_id_entries]; [apply fl_ret_frame; exact I|].
  apply fl_bind_frame; [apply mw_append_a_frame|intro o; apply IH].
Qed.

Theorem xw_flush_a_spec : forall b w h own F,
  owned_by h own F ->
  owned_by (snd (xw_flush_a b w h)) own F /\ h_bad (snd (xw_flush_a b w h)) = h_bad h /\
  (forall z, fst (xw_flush_a b w h) = Some z -> z = 0%Z \/ z = c_SQFS_ERROR_ALLOC \/ z = c_SQFS_ERROR_OVERFLOW).
Proof.
  intros b w h own F O. unfold xw_flush_a.
  destruct ((x2_used w =? 0) || (x2_num w =? 0)).
  { cbn [fst snd]. split; [exact O|]. split; [reflexivity|]. intros z Hz. injection Hz as <-. auto. }
  destruct (chain_blocks w) as [bl|].
  2: { cbn [fst snd]. split; [exact O|]. split; [reflexivity|]. intros z Hz. discriminate. }
  match goal with |- context [match ?body h with _ => _ end] => set (f := body) end.
  assert (Ff : fl_frame f).
  { apply fl_block_frame. apply fl_bind_frame; [apply fl_write_kv_pairs_frame|]. intros _.
    destruct (sz_ov (x2_num w * 16)); [apply fl_ret_frame; right; reflexivity|].
    apply fl_block_frame. apply fl_bind_frame; [apply fl_id_entries_frame|intro; apply mw_flush_a_frame]. }
  destruct (Ff h own F O) as (O1 & B1 & R1). destruct (f h) as [[off|z|] h1]; cbn [fst snd] in *.
  - split; [exact O1|]. split; [exact B1|]. intros z Hz. injection Hz as <-. auto.
  - split; [exact O1|]. split; [exact B1|]. intros z' Hz. injection Hz as <-. tauto.
  - split; [exact O1|]. split; [exact B1|]. intros z' Hz. discriminate.
Qed.
