(* lib/util/src/array.c with allocation failure: array_init (malloc), array_init_copy,
   array_append / array_set_capacity (realloc), array_cleanup (free).

   State = the Util model's [arr] plus the allocation id of array->data (None = NULL).  Every
   function first makes the size computations of the C code (they are the Util model's: the
   Util function is CALLED, so the numbers cannot drift apart), then consults the oracle exactly
   where the C code calls malloc / realloc, and on NULL takes the C code's path:
     array_init        memset(array, 0) already done, data = NULL      -> SQFS_ERROR_ALLOC
     array_append      nothing assigned yet                            -> SQFS_ERROR_ALLOC
     array_set_capacity nothing assigned yet                           -> SQFS_ERROR_ALLOC
   NOT modelled: malloc(0) / realloc(p, 0) (element size 0). *)
From Coq Require Import NArith ZArith List Bool Lia.
From SqfsV Require Import Gen.Constants Util.GenUtil Util.HashModel Util.HashBase Util.ArrayModel Util.ArrayProofs
     UtilAlloc.AllocBase.
Import ListNotations.
Local Open Scope N_scope.

Section ARR.
Variable E : Type.

Record aarr : Type := mk_aarr {
  aa_core : arr E;
  aa_id : option N          (* array->data *)
}.

Definition aa_owns (a : aarr) : list N := match aa_id a with Some i => [i] | None => [] end.
Definition aa_zero : aarr := mk_aarr (arr_zero E) None.

Definition array_init_a (size capacity : N) (h : heap) : Z * aarr * heap :=
  match array_init E size capacity with
  | (0%Z, c) =>
    if 0 <? capacity then
      match alloc h with
      | (None, h') => (c_SQFS_ERROR_ALLOC, aa_zero, h')
      | (Some id, h') => (0%Z, mk_aarr c (Some id), h')
      end
    else (0%Z, mk_aarr c None, h)
  | (e, c) => (e, mk_aarr c None, h)
  end.

Definition array_init_copy_a (src : aarr) (h : heap) : Z * aarr * heap :=
  match array_init_a (a_size (aa_core src)) (a_used (aa_core src)) h with
  | (0%Z, a, h') =>
    (0%Z, mk_aarr (mk_arr E (a_size (aa_core a)) (a_count (aa_core a)) (a_used (aa_core src))
                          (firstn (N.to_nat (a_used (aa_core src))) (a_data (aa_core src)))) (aa_id a), h')
  | r => r
  end.

Definition array_cleanup_a (a : aarr) (h : heap) : aarr * heap := (aa_zero, free_opt h (aa_id a)).

Definition array_append_a (a : aarr) (x : E) (h : heap) : Z * aarr * heap :=
  if a_used (aa_core a) =? a_count (aa_core a) then
    match array_append E (aa_core a) x with
    | (0%Z, c') =>
      match realloc h (aa_id a) with
      | (None, h') => (c_SQFS_ERROR_ALLOC, a, h')
      | (Some id, h') => (0%Z, mk_aarr c' (Some id), h')
      end
    | (e, _) => (e, a, h)
    end
  else
    let '(z, c') := array_append E (aa_core a) x in (z, mk_aarr c' (aa_id a), h).

Definition array_set_capacity_a (a : aarr) (capacity : N) (h : heap) : res (Z * aarr * heap) :=
  if capacity <=? a_count (aa_core a) then Ok (0%Z, a, h)
  else
    match array_set_capacity E (aa_core a) capacity with
    | Ok (0%Z, c') =>
      match realloc h (aa_id a) with
      | (None, h') => Ok (c_SQFS_ERROR_ALLOC, a, h')
      | (Some id, h') => Ok (0%Z, mk_aarr c' (Some id), h')
      end
    | Ok (e, _) => Ok (e, a, h)
    | Crash => Crash
    | OutOfFuel => OutOfFuel
    end.

Definition array_get_a (a : aarr) (i : N) : option E := array_get E (aa_core a) i.

Definition array_set_a (a : aarr) (i : N) (x : E) : Z * aarr :=
  let '(z, c) := array_set E (aa_core a) i x in (z, mk_aarr c (aa_id a)).

(* ------------------------------------------------------------------ invariant *)
(* the Util invariant plus: data != NULL as soon as there is capacity *)
Definition aarr_inv (a : aarr) : Prop :=
  arr_inv E (aa_core a) /\ (aa_id a = None -> a_count (aa_core a) = 0).

(* the abstract value: the list of the used elements (and the element size) *)
Definition aa_abs (a : aarr) : list E := a_data (aa_core a).

Lemma aa_owns_nodup : forall a, NoDup (aa_owns a).
Proof. intro a. unfold aa_owns. destruct (aa_id a); repeat constructor. cbn. tauto. Qed.

Lemma owned_nil : forall h (F : N -> Prop), heap_ok h -> (forall id, In id (h_live h) <-> F id) -> owned_by h [] F.
Proof.
  intros h F Hk Hl. split; [exact Hk|]. split; [constructor|]. split; [intros id []|].
  intro id. rewrite Hl. cbn. tauto.
Qed.

Ltac fin := unfold aarr_inv, aa_abs, arr_inv in *; cbn [aa_core aa_id a_size a_count a_used a_data] in *;
            intuition (auto; try discriminate; try lia).

(* ---- array_init ---- *)
Theorem array_init_a_spec : forall size cap h F z a h',
  owned_by h [] F -> array_init_a size cap h = (z, a, h') ->
  owned_by h' (aa_owns a) F /\ h_bad h' = h_bad h /\
  ((z = 0%Z /\ aarr_inv a /\ aa_abs a = [] /\ a_size (aa_core a) = size /\ a_count (aa_core a) = cap /\
    a_used (aa_core a) = 0) \/
   (z <> 0%Z /\ a = aa_zero /\ (z = c_SQFS_ERROR_OVERFLOW \/ z = c_SQFS_ERROR_ALLOC))).
Proof.
  intros size cap h F z a h' O H. unfold array_init_a in H.
  pose proof (array_init_spec E size cap) as S.
  destruct (array_init E size cap) as [z0 c] eqn:Ei. destruct z0 as [|p|p].
  - destruct S as (Ai & Ad & As & Ac & Au).
    destruct (0 <? cap) eqn:Ec.
    + destruct (alloc h) as [[id|] h1] eqn:Ea; inversion H; subst; clear H.
      * destruct (owned_alloc_some _ _ _ _ _ O Ea) as (O1 & B1 & _).
        split; [exact O1|]. split; [exact B1|]. left. fin.
      * destruct (owned_alloc_fail _ _ _ _ O Ea) as (O1 & B1).
        split; [exact O1|]. split; [exact B1|]. right. split; [discriminate|]. split; [reflexivity|right; reflexivity].
    + inversion H; subst; clear H. split; [exact O|]. split; [reflexivity|]. left.
      apply N.ltb_ge in Ec. fin.
  - destruct S as [S _]. unfold c_SQFS_ERROR_OVERFLOW in S. discriminate.
  - destruct S as [S _]. inversion H; subst; clear H.
    split; [exact O|]. split; [reflexivity|]. right. split; [discriminate|].
    unfold array_init in Ei. destruct ((0 <? cap) && sz_ov (size * cap)); inversion Ei; subst.
    split; [reflexivity|left; reflexivity].
Qed.

(* ---- array_append ---- *)
Theorem array_append_a_spec : forall a x h F z a' h',
  aarr_inv a -> owned_by h (aa_owns a) F -> array_append_a a x h = (z, a', h') ->
  owned_by h' (aa_owns a') F /\ h_bad h' = h_bad h /\
  ((z = 0%Z /\ aarr_inv a' /\ aa_abs a' = aa_abs a ++ [x] /\
    a_used (aa_core a') = a_used (aa_core a) + 1 /\ a_size (aa_core a') = a_size (aa_core a)) \/
   (z = c_SQFS_ERROR_ALLOC /\ a' = a)).
Proof.
  intros a x h F z a' h' [I Hnull] O H. unfold array_append_a in H.
  pose proof (array_append_spec E (aa_core a) x I) as S.
  destruct (a_used (aa_core a) =? a_count (aa_core a)) eqn:Ef.
  - destruct (array_append E (aa_core a) x) as [z0 c'] eqn:Ea. destruct z0 as [|p|p].
    + destruct S as (I' & D' & U' & S' & C').
      destruct (realloc h (aa_id a)) as [[id|] h1] eqn:Er; inversion H; subst; clear H.
      * destruct (owned_realloc_some _ _ _ _ _ _ O (fun o Ho => ltac:(unfold aa_owns; rewrite Ho; left; reflexivity)) Er)
          as (O1 & B1 & _).
        split.
        { eapply owned_by_equiv; [exact O1|apply aa_owns_nodup|]. intro i. unfold aa_owns. cbn.
          destruct (aa_id a) as [o|]; cbn; [rewrite N.eqb_refl; cbn|]; tauto. }
        split; [exact B1|]. left. fin.
      * destruct (owned_realloc_fail _ _ _ _ _ O Er) as (O1 & B1).
        split; [exact O1|]. split; [exact B1|]. right. split; reflexivity.
    + destruct S as [S _]. unfold c_SQFS_ERROR_ALLOC in S. discriminate.
    + destruct S as [S1 S2]. inversion H; subst; clear H.
      split; [exact O|]. split; [reflexivity|]. right. split; [exact S1|reflexivity].
  - destruct (array_append E (aa_core a) x) as [z0 c'] eqn:Ea.
    apply N.eqb_neq in Ef. destruct z0 as [|p|p]; inversion H; subst; clear H;
      (split; [exact O|]; split; [reflexivity|]).
    + destruct S as (I' & D' & U' & S' & C'). left. fin.
    + destruct S as [S _]. unfold c_SQFS_ERROR_ALLOC in S. discriminate.
    + destruct S as [_ S]. right. subst c'. exfalso. unfold array_append in Ea.
      replace (a_used (aa_core a) =? a_count (aa_core a)) with false in Ea by (symmetry; apply N.eqb_neq; exact Ef).
      inversion Ea.
Qed.

(* when the array is full and the oracle says NULL the call fails, and it fails only then or by overflow *)
Theorem array_append_a_alloc_fails : forall a x h o,
  a_used (aa_core a) = a_count (aa_core a) -> h_orc h = false :: o ->
  fst (fst (array_append_a a x h)) = c_SQFS_ERROR_ALLOC /\ snd (fst (array_append_a a x h)) = a.
Proof.
  intros a x h o Hfull Ho. unfold array_append_a. rewrite Hfull, N.eqb_refl.
  destruct (array_append E (aa_core a) x) as [z0 c'] eqn:Ea.
  assert (Hz : z0 = 0%Z \/ (z0 = c_SQFS_ERROR_ALLOC /\ c' = aa_core a)).
  { unfold array_append in Ea. rewrite Hfull, N.eqb_refl in Ea.
    destruct (sz_ov _) in Ea; [inversion Ea; auto|]. destruct (sz_ov _) in Ea; inversion Ea; auto. }
  destruct Hz as [->|[-> ->]].
  - unfold realloc. rewrite Ho. cbn. split; reflexivity.
  - cbn. split; reflexivity.
Qed.

(* ---- array_set_capacity ---- *)
Theorem array_set_capacity_a_spec : forall a cap h F,
  aarr_inv a -> cap <= util_size_max -> owned_by h (aa_owns a) F ->
  exists z a' h', array_set_capacity_a a cap h = Ok (z, a', h') /\
    owned_by h' (aa_owns a') F /\ h_bad h' = h_bad h /\
    ((z = 0%Z /\ aarr_inv a' /\ aa_abs a' = aa_abs a /\ a_used (aa_core a') = a_used (aa_core a) /\
      a_size (aa_core a') = a_size (aa_core a) /\ cap <= a_count (aa_core a')) \/
     (z = c_SQFS_ERROR_ALLOC /\ a' = a)).
Proof.
  intros a cap h F [I Hnull] Hcap O. unfold array_set_capacity_a.
  destruct (cap <=? a_count (aa_core a)) eqn:E0.
  - apply N.leb_le in E0. exists 0%Z, a, h. split; [reflexivity|]. split; [exact O|]. split; [reflexivity|].
    left. fin.
  - apply N.leb_gt in E0.
    destruct (array_set_capacity_spec E (aa_core a) cap I Hcap) as (z0 & c' & Es & D' & U' & S' & I' & Hz0 & Hnz).
    rewrite Es. destruct z0 as [|p|p].
    + destruct (Hz0 eq_refl) as [Hc1 Hc2].
      destruct (realloc h (aa_id a)) as [[id|] h1] eqn:Er.
      * destruct (owned_realloc_some _ _ _ _ _ _ O (fun o Ho => ltac:(unfold aa_owns; rewrite Ho; left; reflexivity)) Er)
          as (O1 & B1 & _).
        exists 0%Z. eexists. exists h1. split; [reflexivity|]. split.
        { eapply owned_by_equiv; [exact O1|apply aa_owns_nodup|]. intro i. unfold aa_owns. cbn.
          destruct (aa_id a) as [o|]; cbn; [rewrite N.eqb_refl; cbn|]; tauto. }
        split; [exact B1|]. left. fin.
      * destruct (owned_realloc_fail _ _ _ _ _ O Er) as (O1 & B1).
        exists c_SQFS_ERROR_ALLOC, a, h1. split; [reflexivity|]. split; [exact O1|]. split; [exact B1|].
        right. split; reflexivity.
    + destruct (Hnz ltac:(discriminate)) as [Hc _]. discriminate.
    + destruct (Hnz ltac:(discriminate)) as [Hc1 Hc2]. exists (Z.neg p), a, h. split; [reflexivity|].
      split; [exact O|]. split; [reflexivity|]. right. split; [exact Hc1|reflexivity].
Qed.

(* ---- array_init_copy ---- *)
Theorem array_init_copy_a_spec : forall src h F z a h',
  aarr_inv src -> owned_by h [] F -> array_init_copy_a src h = (z, a, h') ->
  owned_by h' (aa_owns a) F /\ h_bad h' = h_bad h /\
  ((z = 0%Z /\ aarr_inv a /\ aa_abs a = aa_abs src /\ a_used (aa_core a) = a_used (aa_core src) /\
    a_size (aa_core a) = a_size (aa_core src)) \/
   (z <> 0%Z /\ a = aa_zero /\ (z = c_SQFS_ERROR_OVERFLOW \/ z = c_SQFS_ERROR_ALLOC))).
Proof.
  intros src h F z a h' [[Il Iu] Hnull] O H. unfold array_init_copy_a in H.
  destruct (array_init_a (a_size (aa_core src)) (a_used (aa_core src)) h) as [[z0 a0] h0] eqn:Ei.
  destruct (array_init_a_spec _ _ _ _ _ _ _ O Ei) as (O1 & B1 & Hc).
  destruct Hc as [(-> & (I0 & N0) & D0 & S0 & C0 & U0)|(Hz & -> & Hk)].
  - inversion H; subst; clear H. split; [exact O1|]. split; [exact B1|]. left.
    unfold aarr_inv, aa_abs, arr_inv. cbn.
    assert (Hd : firstn (N.to_nat (a_used (aa_core src))) (a_data (aa_core src)) = a_data (aa_core src)).
    { rewrite <- Il. apply firstn_lenN. }
    rewrite Hd. fin.
  - destruct z0 as [|p|p]; [congruence| |]; inversion H; subst; clear H;
      (split; [exact O1|]; split; [exact B1|]; right; auto).
Qed.

(* ---- array_cleanup ---- *)
Theorem array_cleanup_a_spec : forall a h F,
  owned_by h (aa_owns a) F ->
  owned_by (snd (array_cleanup_a a h)) [] F /\ h_bad (snd (array_cleanup_a a h)) = h_bad h /\
  fst (array_cleanup_a a h) = aa_zero.
Proof.
  intros a h F O. unfold array_cleanup_a, aa_owns in *. cbn. destruct (aa_id a) as [id|]; cbn.
  - destruct (owned_free h id [id] F O ltac:(left; reflexivity)) as [O1 B1].
    rewrite drop_head in O1 by (cbn; tauto). auto.
  - auto.
Qed.

(* ---- conservativity: with an oracle that never fails, the Util model ---- *)
Theorem array_append_a_conservative : forall a x h,
  all_ok h ->
  let '(z, a', _) := array_append_a a x h in array_append E (aa_core a) x = (z, aa_core a').
Proof.
  intros a x h A. unfold array_append_a.
  destruct (a_used (aa_core a) =? a_count (aa_core a)) eqn:Ef.
  - destruct (array_append E (aa_core a) x) as [z0 c'] eqn:Ea.
    assert (Hz : z0 = 0%Z \/ (z0 = c_SQFS_ERROR_ALLOC /\ c' = aa_core a)).
    { unfold array_append in Ea. rewrite Ef in Ea.
      destruct (sz_ov _) in Ea; [inversion Ea; auto|]. destruct (sz_ov _) in Ea; inversion Ea; auto. }
    destruct Hz as [->|[-> ->]]; [|reflexivity].
    destruct (alloc_all_ok (free_opt h (aa_id a))) as (h1 & E1 & _).
    { intros b Hb. apply A. destruct (aa_id a); cbn in Hb; [rewrite free_orc in Hb|]; exact Hb. }
    unfold realloc. destruct (h_orc h) as [|[|] o] eqn:Eo; try (rewrite E1; reflexivity).
    exfalso. specialize (A false). rewrite Eo in A. discriminate A. left. reflexivity.
  - destruct (array_append E (aa_core a) x) as [z0 c']. reflexivity.
Qed.

End ARR.

Arguments aa_core {E} a.
Arguments aa_id {E} a.
