(* hash_table.c with allocation failure, proofs part 2: create / clone / destroy / rehash /
   insert against [wfa], the ownership of the two allocations, and the fail-stop statement. *)
From Coq Require Import NArith ZArith Znumtheory List Bool Lia Permutation.
From SqfsV Require Import Util.GenUtil Util.FastRem Util.Primes Util.HashModel Util.HashBase Util.HashRows
     Util.HashInv Util.HashContracts UtilAlloc.AllocBase UtilAlloc.HashAlloc UtilAlloc.HashAllocInv.
Import ListNotations.
Local Open Scope N_scope.

(* the table allocation is replaced: calloc of the new one, free of the old one *)
Lemma owned_swap_table : forall h sid tid tid' h1 F,
  owned_by h [sid; tid] F -> alloc h = (Some tid', h1) ->
  owned_by (free h1 tid) [sid; tid'] F /\ h_bad (free h1 tid) = h_bad h /\ tid' <> sid /\ tid' <> tid.
Proof.
  intros h sid tid tid' h1 F O Ea.
  destruct (owned_alloc_some _ _ _ _ _ O Ea) as (O1 & B1 & N1 & F1 & _).
  destruct (owned_free h1 tid _ F O1 ltac:(right; right; left; reflexivity)) as [O2 B2].
  assert (Hne1 : tid' <> sid) by (intro; subst; apply N1; left; reflexivity).
  assert (Hne2 : tid' <> tid) by (intro; subst; apply N1; right; left; reflexivity).
  assert (Hne3 : sid <> tid).
  { destruct O as (_ & Hn & _). inversion Hn as [|? ? Hx _]; subst. intro; subst. apply Hx. left. reflexivity. }
  split; [|split; [congruence|split; assumption]].
  eapply owned_by_equiv; [exact O2| |].
  - constructor; [cbn; intuition congruence|]. constructor; [cbn; tauto|constructor].
  - intro id. rewrite drop_In. cbn. split; [intuition congruence|]. intros [[H|[H|[H|[]]]] Hne]; subst; tauto.
Qed.

Section HT.
Variables K V : Type.
Variable keq : K -> K -> bool.

Notation slot := (slot K V).
Notation htab := (htab K V).
Notation ahtab := (ahtab K V).
Notation entry := (N * K * V)%type.
Notation livel := (livel K V).
Notation count_del := (count_del K V).
Notation wfa := (wfa K V).

Definition ah_live (t : ahtab) : list entry := livel (ht_table K V (ah_core t)).

(* ---- hash_table_create ---- *)
Theorem ht_create_a_spec : forall h F,
  owned_by h [] F ->
  let '(r, h') := ht_create_a K V h in
  h_bad h' = h_bad h /\
  match r with
  | Some t => owned_by h' (ah_owns K V t) F /\ wfs K V (ah_core t) /\ ah_live t = [] /\
              ht_create K V = Some (ah_core t) /\ h_calls h' = h_calls h + 2
  | None => owned_by h' [] F /\ exists k, (k < 2)%nat /\ nth_error (h_orc h) k = Some false
  end.
Proof.
  intros h F O. unfold ht_create_a.
  destruct (alloc h) as [[sid|] h1] eqn:E1.
  - destruct (owned_alloc_some _ _ _ _ _ O E1) as (O1 & B1 & _).
    destruct (alloc h1) as [[tid|] h2] eqn:E2.
    + destruct (owned_alloc_some _ _ _ _ _ O1 E2) as (O2 & B2 & N2 & _).
      destruct (ht_create_wf K V) as (c & Ec & Wc & Lc). rewrite Ec.
      split; [congruence|]. split.
      { eapply owned_by_equiv; [exact O2| |].
        - constructor; [cbn; intros [H|[]]; subst; apply N2; left; reflexivity|]. constructor; [cbn; tauto|constructor].
        - intro id. unfold ah_owns. cbn. tauto. }
      split; [apply wf_wfa; exact Wc|]. split; [exact Lc|]. split; [reflexivity|].
      apply alloc_some in E1. apply alloc_some in E2. cbn. lia.
    + destruct (owned_alloc_fail _ _ _ _ O1 E2) as (O2 & B2).
      destruct (owned_free h2 sid [sid] F O2 ltac:(left; reflexivity)) as [O3 B3].
      rewrite drop_head in O3 by (cbn; tauto).
      split; [congruence|]. split; [exact O3|]. exists 1%nat. split; [lia|].
      apply alloc_some in E1. apply alloc_fail in E2. destruct E1 as (_ & _ & _ & _ & Eo & _). destruct E2 as (_ & _ & _ & Eo2 & _).
      rewrite Eo in Eo2. destruct (h_orc h) as [|b o]; cbn in Eo2; [discriminate|]. cbn. rewrite Eo2. reflexivity.
  - destruct (owned_alloc_fail _ _ _ _ O E1) as (O1 & B1).
    split; [exact B1|]. split; [exact O1|]. exists 0%nat. split; [lia|].
    apply alloc_fail in E1. destruct E1 as (_ & _ & _ & Eo & _). rewrite Eo. reflexivity.
Qed.

(* ---- hash_table_clone ---- *)
Theorem ht_clone_a_spec : forall src h F,
  owned_by h [] F ->
  let '(r, h') := ht_clone_a K V src h in
  h_bad h' = h_bad h /\
  match r with
  | Some t => owned_by h' (ah_owns K V t) F /\ ah_core t = ah_core src
  | None => owned_by h' [] F /\ exists k, (k < 2)%nat /\ nth_error (h_orc h) k = Some false
  end.
Proof.
  intros src h F O. unfold ht_clone_a.
  destruct (alloc h) as [[sid|] h1] eqn:E1.
  - destruct (owned_alloc_some _ _ _ _ _ O E1) as (O1 & B1 & _).
    destruct (alloc h1) as [[tid|] h2] eqn:E2.
    + destruct (owned_alloc_some _ _ _ _ _ O1 E2) as (O2 & B2 & N2 & _).
      split; [congruence|]. split; [|reflexivity].
      eapply owned_by_equiv; [exact O2| |].
      * constructor; [cbn; intros [H|[]]; subst; apply N2; left; reflexivity|]. constructor; [cbn; tauto|constructor].
      * intro id. unfold ah_owns. cbn. tauto.
    + destruct (owned_alloc_fail _ _ _ _ O1 E2) as (O2 & B2).
      destruct (owned_free h2 sid [sid] F O2 ltac:(left; reflexivity)) as [O3 B3].
      rewrite drop_head in O3 by (cbn; tauto).
      split; [congruence|]. split; [exact O3|]. exists 1%nat. split; [lia|].
      apply alloc_some in E1. apply alloc_fail in E2. destruct E1 as (_ & _ & _ & _ & Eo & _). destruct E2 as (_ & _ & _ & Eo2 & _).
      rewrite Eo in Eo2. destruct (h_orc h) as [|b o]; cbn in Eo2; [discriminate|]. cbn. rewrite Eo2. reflexivity.
  - destruct (owned_alloc_fail _ _ _ _ O E1) as (O1 & B1).
    split; [exact B1|]. split; [exact O1|]. exists 0%nat. split; [lia|].
    apply alloc_fail in E1. destruct E1 as (_ & _ & _ & Eo & _). rewrite Eo. reflexivity.
Qed.

(* ---- hash_table_destroy ---- *)
Theorem ht_destroy_a_spec : forall t h F,
  owned_by h (ah_owns K V t) F ->
  owned_by (ht_destroy_a K V t h) [] F /\ h_bad (ht_destroy_a K V t h) = h_bad h.
Proof.
  intros t h F O. unfold ht_destroy_a, ah_owns in *.
  assert (Hne : ah_sid t <> ah_tid t).
  { destruct O as (_ & Hn & _). inversion Hn as [|? ? Hx _]; subst. intro Hc. apply Hx. left. symmetry. exact Hc. }
  destruct (owned_free h (ah_tid t) _ F O ltac:(right; left; reflexivity)) as [O1 B1].
  assert (E : drop (ah_tid t) [ah_sid t; ah_tid t] = [ah_sid t]).
  { unfold drop. cbn. rewrite N.eqb_refl. replace (ah_sid t =? ah_tid t) with false by (symmetry; apply N.eqb_neq; exact Hne). reflexivity. }
  rewrite E in O1.
  destruct (owned_free _ (ah_sid t) _ F O1 ltac:(left; reflexivity)) as [O2 B2].
  rewrite drop_head in O2 by (cbn; tauto). split; [exact O2|congruence].
Qed.

(* ---- the head of hash_table_insert: grow / rehash in place / nothing ---- *)
Lemma ht_grow_a_spec : forall t h F,
  wfa (ah_core t) -> ht_entries K V (ah_core t) < ht_safe_limit -> owned_by h (ah_owns K V t) F ->
  exists t1 h1, ht_grow_a K V t h = Ok (t1, h1) /\ wfa (ah_core t1) /\
    owned_by h1 (ah_owns K V t1) F /\ h_bad h1 = h_bad h /\ ah_sid t1 = ah_sid t /\
    ht_entries K V (ah_core t1) = ht_entries K V (ah_core t) /\
    Permutation (ah_live t1) (ah_live t) /\
    ((t1 = t /\ h1 = h /\ lenN (ah_live t) < ht_size K V (ah_core t) /\ grow_pure K V (ah_core t) = Ok (ah_core t)) \/
     (t1 = t /\ alloc h = (None, h1)) \/
     (h_calls h1 = h_calls h + 1 /\ (forall o, h_orc h <> false :: o) /\ h_orc h1 = tl (h_orc h) /\
      grow_pure K V (ah_core t) = Ok (ah_core t1) /\
      count_del (ht_table K V (ah_core t1)) = 0 /\
      lenN (ah_live t1) < ht_size K V (ah_core t1))).
Proof.
  intros t h F W Hlim O. unfold ht_grow_a.
  destruct (wa_row K V _ W) as (r & Hn & Hg & (F1 & F2 & F3 & F4 & F5)).
  pose proof (wfa_live_le_size K V _ W) as Hle.
  pose proof (wa_entries K V _ W) as Hent. pose proof (wa_deleted K V _ W) as Hdel.
  pose proof ht_safe_limit_val as [Hsl _].
  assert (Hrehash : forall idx r',
            nth_error util_hash_sizes idx = Some r' -> row_good r' ->
            lenN (ah_live t) <= row_size r' ->
            (lenN (ah_live t) < row_size r') ->
            exists t1 h1, ht_rehash_a K V t idx h = Ok (t1, h1) /\ wfa (ah_core t1) /\
              owned_by h1 (ah_owns K V t1) F /\ h_bad h1 = h_bad h /\ ah_sid t1 = ah_sid t /\
              ht_entries K V (ah_core t1) = ht_entries K V (ah_core t) /\
              Permutation (ah_live t1) (ah_live t) /\
              ((t1 = t /\ alloc h = (None, h1)) \/
               (h_calls h1 = h_calls h + 1 /\ (forall o, h_orc h <> false :: o) /\ h_orc h1 = tl (h_orc h) /\
                ht_rehash_to K V (ah_core t) idx = Ok (ah_core t1) /\ ht_size_index K V (ah_core t1) = idx /\
                count_del (ht_table K V (ah_core t1)) = 0 /\
                lenN (ah_live t1) < ht_size K V (ah_core t1)))).
  { intros idx r' Hn' Hg' Hroom Hstrict. unfold ht_rehash_a. rewrite Hn'.
    destruct (alloc h) as [[tid|] h1] eqn:Ea.
    - destruct (ht_rehash_to_wfa K V (ah_core t) idx r' W Hn' Hg' Hroom)
        as (c & Ec & Wc & Ic & Sc & Mc & Enc & Dc & Cdc & Pc).
      rewrite Ec. destruct (owned_swap_table _ _ _ _ _ _ O Ea) as (O1 & B1 & _).
      eexists. eexists. split; [reflexivity|]. cbn [ah_core ah_sid ah_tid].
      split; [exact Wc|]. split; [exact O1|]. split; [exact B1|]. split; [reflexivity|]. split; [exact Enc|].
      split; [exact Pc|]. right.
      pose proof Ea as Ea'. apply alloc_some in Ea'. destruct Ea' as (_ & _ & _ & _ & Eo & Ecalls).
      split; [rewrite free_calls; exact Ecalls|]. split.
      { intros o Ho. destruct (alloc_cases h) as [(o' & _ & A)|[Hx _]]; [rewrite A in Ea; discriminate|].
        apply (Hx o Ho). }
      split; [rewrite free_orc; exact Eo|]. split; [reflexivity|]. split; [exact Ic|]. split; [exact Cdc|].
      unfold ah_live. cbn [ah_core]. unfold lenN in *. rewrite (Permutation_length Pc), Sc. exact Hstrict.
    - destruct (owned_alloc_fail _ _ _ _ O Ea) as (O1 & B1).
      exists t, h1. split; [reflexivity|]. split; [exact W|]. split; [exact O1|]. split; [exact B1|].
      split; [reflexivity|]. split; [reflexivity|]. split; [apply Permutation_refl|]. left. split; reflexivity. }
  destruct (ht_max_entries K V (ah_core t) <=? ht_entries K V (ah_core t)) eqn:E1.
  - apply N.leb_le in E1.
    destruct (row_next _ r Hn) as (r' & Hn' & Hg' & Hmax); [lia|].
    pose proof (row_size_next _ _ _ Hn Hn') as Hgrow.
    destruct (Hrehash _ r' Hn' Hg') as (t1 & h1 & E & W1 & O1 & B1 & S1 & En1 & P1 & Hk).
    { unfold ah_live. lia. }
    { unfold ah_live. lia. }
    exists t1, h1. split; [exact E|]. split; [exact W1|]. split; [exact O1|]. split; [exact B1|].
    split; [exact S1|]. split; [exact En1|]. split; [exact P1|]. right.
    destruct Hk as [Hk|(A & B & C & D & I & Cd & Rm)]; [left; exact Hk|right].
    repeat split; auto. unfold grow_pure. replace (ht_max_entries K V (ah_core t) <=? ht_entries K V (ah_core t)) with true
      by (symmetry; apply N.leb_le; exact E1). exact D.
  - apply N.leb_gt in E1.
    assert (Hsmall : (ht_deleted K V (ah_core t) + ht_entries K V (ah_core t)) mod two32
                     = ht_deleted K V (ah_core t) + ht_entries K V (ah_core t)).
    { apply N.mod_small. destruct Hg. rewrite two32_val in *. lia. }
    rewrite Hsmall.
    destruct (ht_max_entries K V (ah_core t) <=? ht_deleted K V (ah_core t) + ht_entries K V (ah_core t)) eqn:E2.
    + apply N.leb_le in E2.
      destruct (Hrehash _ r Hn Hg) as (t1 & h1 & E & W1 & O1 & B1 & S1 & En1 & P1 & Hk).
      { unfold ah_live. lia. }
      { unfold ah_live. lia. }
      exists t1, h1. split; [exact E|]. split; [exact W1|]. split; [exact O1|]. split; [exact B1|].
      split; [exact S1|]. split; [exact En1|]. split; [exact P1|]. right.
      destruct Hk as [Hk|(A & B & C & D & I & Cd & Rm)]; [left; exact Hk|right].
      repeat split; auto. unfold grow_pure.
      replace (ht_max_entries K V (ah_core t) <=? ht_entries K V (ah_core t)) with false
        by (symmetry; apply N.leb_gt; exact E1).
      rewrite Hsmall.
      replace (ht_max_entries K V (ah_core t) <=? ht_deleted K V (ah_core t) + ht_entries K V (ah_core t)) with true
        by (symmetry; apply N.leb_le; exact E2). exact D.
    + apply N.leb_gt in E2. exists t, h. split; [reflexivity|]. split; [exact W|]. split; [exact O|].
      split; [reflexivity|]. split; [reflexivity|]. split; [reflexivity|]. split; [apply Permutation_refl|].
      left. split; [reflexivity|]. split; [reflexivity|]. split; [unfold ah_live; destruct Hg; lia|].
      unfold grow_pure.
      replace (ht_max_entries K V (ah_core t) <=? ht_entries K V (ah_core t)) with false
        by (symmetry; apply N.leb_gt; exact E1).
      rewrite Hsmall.
      replace (ht_max_entries K V (ah_core t) <=? ht_deleted K V (ah_core t) + ht_entries K V (ah_core t)) with false
        by (symmetry; apply N.leb_gt; exact E2). reflexivity.
Qed.

(* ---- hash_table_insert: the contract under allocation failure ---- *)
(* [c1] is the table after the grow step (the old one, or the re-hashed one), [s] the slot taken *)
Definition ins_added (t t' : ahtab) (a hash : N) (key : K) (data : V) : Prop :=
  no_match K V keq (ah_core t) hash key /\
  Permutation (ah_live t') ((hash, key, data) :: ah_live t) /\
  ht_entries K V (ah_core t') = ht_entries K V (ah_core t) + 1 /\
  exists c1 s,
    wfa c1 /\ Permutation (livel (ht_table K V c1)) (ah_live t) /\
    ht_entries K V c1 = ht_entries K V (ah_core t) /\
    (count_del (ht_table K V (ah_core t)) = 0 -> count_del (ht_table K V c1) = 0) /\
    nthN (ht_table K V c1) a = Some s /\ is_present K V s = false /\
    ah_core t' = set_slot K V c1 a (SPresent hash key data) (ht_entries K V c1 + 1)
                          (if is_deleted K V s then ht_deleted K V c1 - 1 else ht_deleted K V c1).

Definition ins_replaced (t t' : ahtab) (hash : N) (key : K) (data : V) : Prop :=
  exists k0 d0 rest,
    keq key k0 = true /\
    Permutation (ah_live t) ((hash, k0, d0) :: rest) /\
    Permutation (ah_live t') ((hash, key, data) :: rest) /\
    ht_entries K V (ah_core t') = ht_entries K V (ah_core t).

Lemma no_match_perm : forall (a b : htab) hash key,
  Permutation (livel (ht_table K V a)) (livel (ht_table K V b)) ->
  no_match K V keq a hash key -> no_match K V keq b hash key.
Proof.
  intros a b hash key P H k0 d0 Hin. apply (H k0 d0). eapply Permutation_in; [symmetry; exact P|exact Hin].
Qed.

Theorem ht_insert_a_spec : forall t hash key data h F,
  wfa (ah_core t) -> hash < two32 -> ht_entries K V (ah_core t) < ht_safe_limit ->
  owned_by h (ah_owns K V t) F ->
  exists t' r h', ht_insert_a K V keq t hash key data h = Ok (t', r, h') /\
    wfa (ah_core t') /\ owned_by h' (ah_owns K V t') F /\ h_bad h' = h_bad h /\ ah_sid t' = ah_sid t /\
    match r with
    | None =>
      (* NULL: only after a failed calloc of this very call, with a completely full table;
         nothing was inserted, nothing was lost, the counters are unchanged *)
      t' = t /\ alloc h = (None, h') /\ table_full K V (ah_core t) /\ no_match K V keq (ah_core t) hash key
    | Some a =>
      nthN (ht_table K V (ah_core t')) a = Some (SPresent hash key data) /\
      (ins_replaced t t' hash key data \/ ins_added t t' a hash key data) /\
      (count_del (ht_table K V (ah_core t)) = 0 -> count_del (ht_table K V (ah_core t')) = 0)
    end.
Proof.
  intros t hash key data h F W Hh Hlim O.
  destruct (ht_grow_a_spec t h F W Hlim O) as (t1 & h1 & Eg & W1 & O1 & B1 & S1 & En1 & P1 & Hk).
  unfold ht_insert_a. rewrite Eg.
  destruct (insert_tail_wfa K V keq (ah_core t1) hash key data W1 Hh) as (c & r & Et & Hr).
  rewrite Et. eexists. exists r, h1. split; [reflexivity|]. cbn [ah_core ah_sid ah_tid].
  assert (Hcd1 : count_del (ht_table K V (ah_core t)) = 0 -> count_del (ht_table K V (ah_core t1)) = 0).
  { intro Hz. destruct Hk as [(-> & _)|[(-> & _)|(_ & _ & _ & _ & Cd & _)]]; auto. }
  destruct r as [a|].
  - destruct Hr as (Wc & Hs & Hcase).
    split; [exact Wc|]. split; [exact O1|]. split; [exact B1|]. split; [exact S1|]. split; [exact Hs|].
    destruct Hcase as [(k0 & d0 & rest & Hkq & _ & Q1 & Q2 & Qe & Qd)|(s & Hs1 & Hp & -> & Hnm & Q & Qd)].
    + split.
      * left. exists k0, d0, rest. unfold ah_live. cbn [ah_core]. repeat split; auto.
        -- rewrite <- P1. exact Q1.
        -- congruence.
      * intro Hz. rewrite Qd. auto.
    + split.
      * right. unfold ins_added, ah_live. cbn [ah_core]. split; [eapply no_match_perm; [exact P1|exact Hnm]|].
        split; [rewrite Q; constructor; exact P1|]. split; [cbn; lia|].
        exists (ah_core t1), s. split; [exact W1|]. split; [exact P1|]. split; [exact En1|]. split; [exact Hcd1|].
        split; [exact Hs1|]. split; [exact Hp|reflexivity].
      * intro Hz. specialize (Hcd1 Hz). lia.
  - destruct Hr as (-> & Hfull & Hnm).
    split; [exact W1|]. split; [destruct t1; exact O1|]. split; [exact B1|]. split; [exact S1|].
    unfold table_full in Hfull.
    destruct Hk as [(-> & -> & Hroom & _)|[(-> & Ea)|(_ & _ & _ & _ & _ & Hroom)]].
    + exfalso. unfold ah_live in Hroom. lia.
    + split; [destruct t; reflexivity|]. split; [exact Ea|]. split; [exact Hfull|exact Hnm].
    + exfalso. unfold ah_live in Hroom. lia.
Qed.

(* hash_table_alloc_failstop: an insert that returns NULL is a no-op on the table (the very
   same state), happened because the calloc of this call returned NULL, owns what it owned and
   freed nothing twice; any other outcome satisfies the insert contract of the Util model --
   in particular an insert whose rehash could not allocate still inserts. *)
Theorem hash_table_alloc_failstop_thm : forall t hash key data h F,
  wfa (ah_core t) -> hash < two32 -> ht_entries K V (ah_core t) < ht_safe_limit ->
  owned_by h (ah_owns K V t) F ->
  exists t' r h', ht_insert_a K V keq t hash key data h = Ok (t', r, h') /\
    wfa (ah_core t') /\ owned_by h' (ah_owns K V t') F /\ h_bad h' = h_bad h /\
    (wfs K V (ah_core t) -> wfs K V (ah_core t')) /\
    (r = None -> t' = t /\ exists o, h_orc h = false :: o) /\
    (all_ok h -> r <> None).
Proof.
  intros t hash key data h F W Hh Hlim O.
  destruct (ht_insert_a_spec t hash key data h F W Hh Hlim O) as (t' & r & h' & E & W' & O' & B' & S' & Hr).
  exists t', r, h'. split; [exact E|]. split; [exact W'|]. split; [exact O'|]. split; [exact B'|].
  split; [|split].
  - intros [_ Hs]. split; [exact W'|]. destruct r as [a|].
    + destruct Hr as (_ & [(k0 & d0 & rest & _ & Q1 & Q2 & Qe)|(_ & Q & Qe)] & _).
      * rewrite Qe, Hs. unfold lenN, ah_live in *. rewrite (Permutation_length Q1), (Permutation_length Q2). reflexivity.
      * destruct Qe as [Qe _]. rewrite Qe, Hs. unfold lenN, ah_live in *. rewrite (Permutation_length Q). cbn [length]. lia.
    + destruct Hr as (-> & _). exact Hs.
  - intros ->. destruct Hr as (-> & Ea & _). split; [reflexivity|].
    apply alloc_fail in Ea. destruct Ea as (_ & _ & _ & Eo & _). eauto.
  - intros A ->. destruct Hr as (_ & Ea & _). apply alloc_fail in Ea. destruct Ea as (_ & _ & _ & Eo & _).
    specialize (A false). rewrite Eo in A. discriminate A. left. reflexivity.
Qed.

(* ---- conservativity: an oracle that never fails gives the Util model's insert ---- *)
Theorem ht_insert_a_conservative : forall t hash key data h F,
  wfa (ah_core t) -> hash < two32 -> ht_entries K V (ah_core t) < ht_safe_limit ->
  owned_by h (ah_owns K V t) F -> all_ok h ->
  exists t' r h', ht_insert_a K V keq t hash key data h = Ok (t', r, h') /\
    ht_insert K V keq (ah_core t) hash key data = Ok (ah_core t', r) /\ all_ok h'.
Proof.
  intros t hash key data h F W Hh Hlim O A.
  destruct (ht_grow_a_spec t h F W Hlim O) as (t1 & h1 & Eg & W1 & O1 & B1 & S1 & En1 & P1 & Hk).
  destruct (insert_tail_wfa K V keq (ah_core t1) hash key data W1 Hh) as (c & r & Et & Hr).
  unfold ht_insert_a. rewrite Eg, Et. eexists. exists r, h1. split; [reflexivity|]. cbn [ah_core].
  rewrite ht_insert_split.
  assert (Hg : grow_pure K V (ah_core t) = Ok (ah_core t1) /\ all_ok h1).
  { destruct Hk as [(-> & -> & _ & Hp)|[(-> & Ea)|(_ & _ & Eo & Hp & _)]].
    - split; [exact Hp|exact A].
    - exfalso. apply alloc_fail in Ea. destruct Ea as (_ & _ & _ & Eo & _).
      specialize (A false). rewrite Eo in A. discriminate A. left. reflexivity.
    - split; [exact Hp|].
      intros b Hb. rewrite Eo in Hb. apply A. destruct (h_orc h); cbn in Hb; [contradiction|right; exact Hb]. }
  destruct Hg as [Hg Ha]. rewrite Hg. split; [exact Et|exact Ha].
Qed.

End HT.
