(* Containers under allocation failure: the operation-sequence statement for the string table
   (the container that uses the other two), and the computed witnesses:
   - what the code AS IT IS does wrong on a failure path (refutations, [fixed = false]),
   - non-trivial instances of the hypotheses of the theorems. *)
From Coq Require Import NArith ZArith List Bool Lia Permutation.
From SqfsV Require Import Gen.Constants Util.GenUtil Util.FastRem Util.HashModel Util.HashBase Util.HashRows
     Util.HashInv Util.HashContracts Util.ArrayModel Util.ArrayProofs Util.RbModel Util.StrModel Util.StrProofs
     Util.StrIndex Util.StrCopy
     UtilAlloc.AllocBase UtilAlloc.ArrayAlloc UtilAlloc.HashAlloc UtilAlloc.HashAllocInv UtilAlloc.HashAllocProofs
     UtilAlloc.RbAlloc UtilAlloc.StrAlloc UtilAlloc.StrAllocInv UtilAlloc.StrAllocProofs UtilAlloc.StrAllocCopy.
Import ListNotations.
Local Open Scope N_scope.

(* ------------------------------------------------------------------ operation sequences *)
Inductive st_op : Type :=
| OGet (s : list N)            (* str_table_get_index *)
| OStr (i : N).                (* str_table_get_string *)

Inductive st_ans : Type :=
| AGet (z : Z) (idx : N)
| AStr (r : option (list N)).

Definition st_state : Type := (bheap * astr * heap)%type.

Definition st_step (fx : bool) (st : st_state) (op : st_op) : sres (st_state * st_ans) :=
  let '(b, t, h) := st in
  match op with
  | OGet s =>
    match str_table_get_index_a fx b t s h with
    | SOk (b', t', z, idx, h') => SOk ((b', t', h'), AGet z idx)
    | SCrash => SCrash
    | SOutOfFuel => SOutOfFuel
    end
  | OStr i =>
    match str_table_get_string_a b t i with
    | SOk r => SOk (st, AStr r)
    | SCrash => SCrash
    | SOutOfFuel => SOutOfFuel
    end
  end.

Fixpoint st_run (fx : bool) (st : st_state) (ops : list st_op) : sres (st_state * list st_ans) :=
  match ops with
  | [] => SOk (st, [])
  | op :: rest =>
    match st_step fx st op with
    | SOk (st1, a) =>
      match st_run fx st1 rest with
      | SOk (st2, l) => SOk (st2, a :: l)
      | e => e
      end
    | SCrash => SCrash
    | SOutOfFuel => SOutOfFuel
    end
  end.

(* the abstract machine: a list of (string, reference count) by index.  A failed get_index is
   a no-op; a successful one answers the index of the string, appending it if it is new *)
Notation absval := (list (list N * N)).

Inductive abs_ok : absval -> st_op -> st_ans -> absval -> Prop :=
| ok_found : forall l s i, nth_error (map fst l) i = Some s -> abs_ok l (OGet s) (AGet 0%Z (N.of_nat i)) l
| ok_new : forall l s, ~ In s (map fst l) -> abs_ok l (OGet s) (AGet 0%Z (lenN l)) (l ++ [(s, 0)])
| ok_fail : forall l s, ~ In s (map fst l) -> abs_ok l (OGet s) (AGet c_SQFS_ERROR_ALLOC 0) l
| ok_str : forall l i, abs_ok l (OStr i) (AStr (option_map fst (nth_error l (N.to_nat i)))) l.

Inductive abs_run : absval -> list st_op -> list st_ans -> absval -> Prop :=
| run_nil : forall l, abs_run l [] [] l
| run_cons : forall l op a l1 ops ans l2,
    abs_ok l op a l1 -> abs_run l1 ops ans l2 -> abs_run l (op :: ops) (a :: ans) l2.

Lemma str_abs_len : forall b t, stra_inv b t -> lenN (str_abs b t) = st_next_index t.
Proof.
  intros b t I. unfold str_abs, lenN. rewrite map_length. destruct (sa_arr b t I) as [Hl _].
  rewrite <- (sa_used b t I). exact Hl.
Qed.

Theorem str_table_run_failstop : forall fx ops b t h F,
  astr_inv b t -> owned_by h (as_owns t) F ->
  ht_entries skey N (st_ht (as_core t)) + N.of_nat (length ops) < ht_safe_limit ->
  exists b' t' h' ans,
    st_run fx (b, t, h) ops = SOk ((b', t', h'), ans) /\
    astr_inv b' t' /\ owned_by h' (as_owns t') F /\ h_bad h' = h_bad h /\
    abs_run (str_abs b (as_core t)) ops ans (str_abs b' (as_core t')) /\
    (fx = true -> stra_strict (as_core t) -> stra_strict (as_core t')).
Proof.
  intros fx ops. induction ops as [|op ops IH]; intros b t h F Inv O Hlim.
  - exists b, t, h, []. split; [reflexivity|]. split; [exact Inv|]. split; [exact O|]. split; [reflexivity|].
    split; [constructor|auto].
  - cbn [length] in Hlim. cbn [st_run]. destruct op as [s|i].
    + cbn [st_step].
      destruct (in_dec (list_eq_dec N.eq_dec) s (strings b (as_core t))) as [Hin|Hnew].
      * apply In_nth_error in Hin. destruct Hin as [i Hi].
        rewrite (get_index_a_found fx b t s i h (proj1 Inv) Hi).
        destruct (IH b t h F Inv O ltac:(lia)) as (b' & t' & h' & ans & E & I' & O' & B' & R' & S').
        rewrite E. eexists. eexists. eexists. eexists. split; [reflexivity|].
        split; [exact I'|]. split; [exact O'|]. split; [exact B'|]. split; [|exact S'].
        econstructor; [|exact R']. apply ok_found. exact Hi.
      * destruct (get_index_a_new fx b t s h F Inv Hnew ltac:(lia) O)
          as (b1 & t1 & z & idx & h1 & E1 & I1 & O1 & B1 & _ & Hc).
        rewrite E1.
        assert (Hent : ht_entries skey N (st_ht (as_core t1)) <= ht_entries skey N (st_ht (as_core t)) + 1).
        { destruct Hc as [(_ & _ & _ & _ & He & _)|(_ & _ & _ & _ & _ & _ & He & _)]; lia. }
        destruct (IH b1 t1 h1 F I1 O1 ltac:(lia)) as (b' & t' & h' & ans & E & I' & O' & B' & R' & S').
        rewrite E. eexists. eexists. eexists. eexists. split; [reflexivity|].
        split; [exact I'|]. split; [exact O'|]. split; [congruence|]. split.
        -- destruct Hc as [(-> & -> & Habs & _)|(-> & -> & Habs & _)].
           ++ apply run_cons with (l1 := str_abs b1 (as_core t1)); [|exact R'].
              rewrite Habs, <- (str_abs_len b (as_core t) (proj1 Inv)). apply ok_new. exact Hnew.
           ++ apply run_cons with (l1 := str_abs b1 (as_core t1)); [|exact R'].
              rewrite Habs. apply ok_fail. exact Hnew.
        -- intros Hfx Hs. apply (S' Hfx).
           destruct Hc as [(_ & _ & _ & _ & _ & Hk)|(_ & _ & _ & _ & _ & _ & _ & _ & Hk)]; auto.
    + cbn [st_step]. rewrite (str_table_get_string_a_spec b t i (proj1 Inv)).
      destruct (IH b t h F Inv O ltac:(lia)) as (b' & t' & h' & ans & E & I' & O' & B' & R' & S').
      rewrite E. eexists. eexists. eexists. eexists. split; [reflexivity|].
      split; [exact I'|]. split; [exact O'|]. split; [exact B'|]. split; [|exact S'].
      econstructor; [|exact R']. apply ok_str.
Qed.

(* ------------------------------------------------------------------ witnesses *)
Definition b0 : bheap := mk_bheap 0 [].

Definition st_start (o : list bool) : option st_state :=
  match str_table_init_a (heap0 o) with
  | (_, Some t, h) => Some (b0, t, h)
  | _ => None
  end.

Definition run_from (fx : bool) (o : list bool) (ops : list st_op) : option (st_state * list st_ans) :=
  match st_start o with
  | Some st => match st_run fx st ops with SOk r => Some r | _ => None end
  | None => None
  end.

Definition entries_of (st : st_state) : N := ht_entries skey N (st_ht (as_core (snd (fst st)))).
Definition present_of (st : st_state) : N := lenN (slivel (ht_table skey N (st_ht (as_core (snd (fst st)))))).
Definition row_of (st : st_state) : nat := ht_size_index skey N (st_ht (as_core (snd (fst st)))).

(* the code as it is: the 4th allocation (the realloc of array_append) fails in the first
   get_index; the call reports SQFS_ERROR_ALLOC, the table is empty, but ht->entries = 1 *)
Theorem str_table_entries_drift_refuted :
  exists st ans, run_from false (fail_at 3) [OGet [97]] = Some (st, ans) /\
    ans = [AGet c_SQFS_ERROR_ALLOC 0] /\ present_of st = 0 /\ entries_of st = 1 /\
    ~ stra_strict (as_core (snd (fst st))).
Proof.
  eexists. eexists. split; [vm_compute; reflexivity|]. split; [reflexivity|]. split; [reflexivity|].
  split; [reflexivity|]. unfold stra_strict. vm_compute. discriminate.
Qed.

(* ... and what follows from it: after two such failures a table that holds ONE string has been
   re-hashed into the next row of hash_sizes[] (one more calloc); the repaired code stays in row 0 *)
Theorem str_table_drift_grows_refuted :
  let o := [true; true; true; false; true; false] in
  let ops := [OGet [97]; OGet [98]; OGet [99]] in
  (exists st ans, run_from false o ops = Some (st, ans) /\ present_of st = 1 /\ entries_of st = 3 /\
                  row_of st = 1%nat /\ h_calls (snd st) = 9) /\
  (exists st ans, run_from true o ops = Some (st, ans) /\ present_of st = 1 /\ entries_of st = 1 /\
                  row_of st = 0%nat /\ h_calls (snd st) = 8).
Proof.
  cbn zeta. split; eexists; eexists; (split; [vm_compute; reflexivity|]); repeat split.
Qed.

(* str_table_copy as it is: three strings, the copy's second alloc_flex (12th allocation) fails;
   the copy reports SQFS_ERROR_ALLOC -- and two buckets of the SOURCE are no longer live:
   get_string on the source reads freed memory, releasing the source frees them a second time *)
Definition three : list st_op := [OGet [97; 97]; OGet [98; 98]; OGet [99; 99]].

Definition copy_after (fx : bool) (k : nat) : option (bheap * option astr * Z * heap * astr) :=
  match run_from fx (fail_at k) three with
  | Some ((b, t, h), _) =>
    match str_table_copy_a fx b t t h with
    | SOk (b', r, z, h') => Some (b', r, z, h', t)
    | _ => None
    end
  | None => None
  end.

Theorem str_table_copy_frees_source_refuted :
  exists b' h' src,
    copy_after false 11 = Some (b', None, c_SQFS_ERROR_ALLOC, h', src) /\
    h_bad h' = false /\
    (exists bid, In bid (a_data (st_arr (as_core src))) /\ ~ In bid (h_live h')) /\
    str_table_get_string_a b' src 0 = SCrash /\
    h_bad (snd (str_table_cleanup_a b' src h')) = true.
Proof.
  eexists. eexists. eexists. split; [vm_compute; reflexivity|]. split; [reflexivity|]. split.
  - exists 2. split; [vm_compute; tauto|]. vm_compute. intuition discriminate.
  - split; vm_compute; reflexivity.
Qed.

(* the repaired copy at the same position: the source is intact *)
Example str_table_copy_fixed_example :
  exists b' h' src,
    copy_after true 11 = Some (b', None, c_SQFS_ERROR_ALLOC, h', src) /\
    h_bad h' = false /\
    str_table_get_string_a b' src 0 = SOk (Some [97; 97]) /\
    h_bad (snd (str_table_cleanup_a b' src h')) = false /\ h_live (snd (str_table_cleanup_a b' src h')) = [].
Proof.
  eexists. eexists. eexists. split; [vm_compute; reflexivity|]. repeat split.
Qed.

(* the hypotheses of str_table_run_failstop hold at the start of every run *)
Example str_table_run_example :
  forall o, match st_start o with
            | Some (b, t, h) => astr_inv b t /\ owned_by h (as_owns t) (fun _ => False) /\
                                stra_strict (as_core t) /\ str_abs b (as_core t) = []
            | None => True
            end.
Proof.
  intro o. unfold st_start.
  assert (O : owned_by (heap0 o) [] (fun _ => False)).
  { split; [apply heap0_ok|]. split; [constructor|]. split; [intros id []|]. intro id. cbn. tauto. }
  pose proof (str_table_init_a_spec (heap0 o) _ O) as H.
  destruct (str_table_init_a (heap0 o)) as [[z [t|]] h]; [|exact I].
  destruct H as (_ & _ & Ho & _ & Hall). destruct (Hall b0) as (Hi & Hs & Ha). auto.
Qed.

(* hash table: row 0 has 5 slots for at most 2 entries; every rehash fails: the table fills up
   completely and the 6th insert returns NULL, leaving everything as it was *)
Definition hkeq (a b : N * N) : bool := snd a =? snd b.

Definition ht_fill (o : list bool) (n : nat) : option (ahtab (N * N) N * list (option N) * heap) :=
  match ht_create_a (N * N) N (heap0 o) with
  | (Some t, h) =>
    (fix go (k : nat) (i : N) (t : ahtab (N * N) N) (h : heap) (acc : list (option N)) :=
       match k with
       | O => Some (t, rev acc, h)
       | S k' =>
         match ht_insert_a (N * N) N hkeq t i (i, i) i h with
         | Ok (t', r, h') => go k' (i + 1) t' h' (r :: acc)
         | _ => None
         end
       end) n 1 t h []
  | _ => None
  end.

Example hash_table_full_null_example :
  exists t ans h,
    ht_fill [true; true; false; false; false; false] 6 = Some (t, ans, h) /\
    ans = [Some 1; Some 2; Some 3; Some 4; Some 0; None] /\
    ht_entries _ _ (ah_core t) = 5 /\ ht_size_index _ _ (ah_core t) = 0%nat /\ h_live h = [1; 0] /\ h_bad h = false.
Proof. eexists. eexists. eexists. split; [vm_compute; reflexivity|]. repeat split. Qed.

(* rbtree: the copy of a 3-node tree whose third calloc fails frees the two nodes it got *)
Definition rb3 : option (rbtree * heap) :=
  let t0 := snd (rbtree_init 4 4) in
  match rbtree_insert_a cmp_bytes t0 [1;0;0;0] [9;9;9;9] (heap0 [true; true; true; true; true; false]) with
  | Some (_, t1, h1) =>
    match rbtree_insert_a cmp_bytes t1 [2;0;0;0] [9;9;9;9] h1 with
    | Some (_, t2, h2) =>
      match rbtree_insert_a cmp_bytes t2 [3;0;0;0] [9;9;9;9] h2 with
      | Some (_, t3, h3) => Some (t3, h3)
      | None => None
      end
    | None => None
    end
  | None => None
  end.

Example rbtree_copy_unwind_example :
  exists t h z t' h',
    rb3 = Some (t, h) /\ rbtree_copy_a t h = Some (z, t', h') /\
    z = c_SQFS_ERROR_ALLOC /\ t' = rb_zero /\ h_live h' = h_live h /\ h_bad h' = false /\ h_calls h' = 6 /\
    h_next h' = 5.
Proof. eexists. eexists. eexists. eexists. eexists. split; [vm_compute; reflexivity|]. split; [vm_compute; reflexivity|]. repeat split. Qed.
