(* One level up, proofs: sqfs_xattr_writer_add_kv over two string tables and the pair array, for
   every oracle: no crash, the invariants of the three containers and the ownership of every
   block are kept (the temporary value string is freed on every path), nothing is freed twice;
   when the call fails NO PAIR has been recorded or altered -- what a failed call may leave
   behind is spelled out: strings appended to the key / value table (old strings keep their
   indices) and reference counts.  The writer can therefore always be destroyed or used on. *)
From Coq Require Import NArith ZArith List Bool Lia Permutation.
From SqfsV Require Import Gen.Constants Util.GenUtil Util.FastRem Util.HashModel Util.HashBase Util.HashRows
     Util.HashInv Util.HashContracts Util.ArrayModel Util.ArrayProofs Util.StrModel Util.StrProofs Util.StrIndex
     Util.StrCopy
     UtilAlloc.AllocBase UtilAlloc.ArrayAlloc UtilAlloc.HashAlloc UtilAlloc.HashAllocInv UtilAlloc.HashAllocProofs
     UtilAlloc.StrAlloc UtilAlloc.StrAllocInv UtilAlloc.StrAllocProofs UtilAlloc.StrAllocCopy UtilAlloc.XattrAlloc.
Import ListNotations.
Local Open Scope N_scope.

Definition prefix {A : Type} (l l' : list A) : Prop := exists r, l' = l ++ r.

Lemma prefix_refl : forall (A : Type) (l : list A), prefix l l.
Proof. intros. exists []. rewrite app_nil_r. reflexivity. Qed.

Lemma prefix_trans : forall (A : Type) (a b c : list A), prefix a b -> prefix b c -> prefix a c.
Proof. intros A a b c [r1 ->] [r2 ->]. exists (r1 ++ r2). rewrite app_assoc. reflexivity. Qed.

(* ---- a store that agrees on the buckets of a table leaves the table alone ---- *)
Lemma stra_inv_frame : forall b b' t,
  stra_inv b t -> (forall id, In id (a_data (st_arr t)) -> bh_get b' id = bh_get b id) ->
  stra_inv b' t /\ str_abs b' t = str_abs b t.
Proof.
  intros b b' t I H.
  destruct (stra_inv_same_abs b b' t (st_ht t) I (sa_wf _ _ I) (sa_nodel _ _ I) (Permutation_refl _) H) as [I' A'].
  assert (E : mk_str_table (st_arr t) (st_ht t) (st_next_index t) = t) by (destruct t; reflexivity).
  rewrite E in I', A'. auto.
Qed.

Lemma astr_inv_frame : forall b b' t,
  astr_inv b t -> (forall id, In id (a_data (st_arr (as_core t))) -> bh_get b' id = bh_get b id) ->
  astr_inv b' t /\ str_abs b' (as_core t) = str_abs b (as_core t).
Proof.
  intros b b' t [I Hn] H. destruct (stra_inv_frame b b' _ I H) as [I' A']. split; [split; assumption|exact A'].
Qed.

(* ---- reference counting under the weak invariant (Util/StrProofs.v's ref_update_inv) ---- *)
Lemma stra_ref_update : forall b t i bid bk rc',
  stra_inv b t -> nthN (a_data (st_arr t)) i = Some bid -> bh_get b bid = Some bk ->
  let b' := bh_set b bid (mk_bucket (b_index bk) rc' (b_string bk)) in
  stra_inv b' t /\ strings b' t = strings b t /\
  (forall id, id <> bid -> bh_get b' id = bh_get b id).
Proof.
  intros b t i bid bk rc' I Hn Hg b'.
  assert (Hget : forall id, bh_get b' id = if bid =? id then Some (mk_bucket (b_index bk) rc' (b_string bk)) else bh_get b id).
  { intro id. apply bh_get_set. }
  assert (Hstr : strings b' t = strings b t).
  { unfold strings, str_abs. rewrite !map_map. apply map_ext. intro id. unfold bucket_of. rewrite Hget.
    destruct (bid =? id) eqn:E; [|reflexivity]. apply N.eqb_eq in E. subst id. rewrite Hg. reflexivity. }
  split; [|split; [exact Hstr|]].
  - constructor; try apply I.
    + intros j bid' Hj. destruct (sa_idx b t I j bid' Hj) as (b1 & G1 & X1 & In1).
      rewrite Hget. destruct (bid =? bid') eqn:E.
      * apply N.eqb_eq in E. subst bid'. rewrite Hg in G1. inversion G1; subst b1.
        eexists. split; [reflexivity|]. cbn. auto.
      * exists b1. auto.
    + intros hh o s bid' Hin. destruct (sa_ent b t I hh o s bid' Hin) as (b1 & G1 & S1 & O1 & H1 & N1).
      rewrite Hget. destruct (bid =? bid') eqn:E.
      * apply N.eqb_eq in E. subst bid'. rewrite Hg in G1. inversion G1; subst b1.
        eexists. split; [reflexivity|]. cbn. auto.
      * exists b1. auto.
    + rewrite Hstr. apply (sa_nodup b t I).
  - intros id Hne. rewrite Hget. destruct (bid =? id) eqn:E; [|reflexivity].
    apply N.eqb_eq in E. congruence.
Qed.

Lemma stra_ref_op : forall b t i,
  stra_inv b t ->
  (exists b', str_table_add_ref b t i = SOk b' /\ stra_inv b' t /\ strings b' t = strings b t /\
              forall id, ~ In id (a_data (st_arr t)) -> bh_get b' id = bh_get b id) /\
  (exists b', str_table_del_ref b t i = SOk b' /\ stra_inv b' t /\ strings b' t = strings b t /\
              forall id, ~ In id (a_data (st_arr t)) -> bh_get b' id = bh_get b id).
Proof.
  intros b t i I. unfold str_table_add_ref, str_table_del_ref.
  destruct (bucket_by_index_a b t i I) as [H1 H2].
  destruct (N.le_gt_cases (st_next_index t) i) as [Hge|Hlt].
  - rewrite (H1 Hge). split; exists b; auto.
  - destruct (H2 Hlt) as (bid & bk & -> & Hn & Hg & Hi).
    assert (Hin : In bid (a_data (st_arr t))) by (eapply nthN_In; eauto).
    split.
    + destruct (b_refcount bk <? util_size_max).
      * destruct (stra_ref_update b t i bid bk (b_refcount bk + 1) I Hn Hg) as (I' & S' & Fr).
        eexists. split; [reflexivity|]. split; [exact I'|]. split; [exact S'|].
        intros id Hid. apply Fr. intro; subst. contradiction.
      * exists b. auto.
    + destruct (0 <? b_refcount bk).
      * destruct (stra_ref_update b t i bid bk (b_refcount bk - 1) I Hn Hg) as (I' & S' & Fr).
        eexists. split; [reflexivity|]. split; [exact I'|]. split; [exact S'|].
        intros id Hid. apply Fr. intro; subst. contradiction.
      * exists b. auto.
Qed.

Lemma str_abs_len_a : forall b t, stra_inv b t -> lenN (str_abs b t) = st_next_index t.
Proof.
  intros b t I. unfold str_abs, lenN. rewrite map_length. destruct (sa_arr b t I) as [Hl _].
  rewrite <- (sa_used b t I). exact Hl.
Qed.

(* ---- str_table_get_index, whichever string ---- *)
Lemma strings_abs : forall b t, strings b t = map fst (str_abs b t).
Proof. reflexivity. Qed.

Theorem get_index_a_total : forall fx b t s h F,
  astr_inv b t -> ht_entries skey N (st_ht (as_core t)) < ht_safe_limit -> owned_by h (as_owns t) F ->
  exists b' t' z idx h',
    str_table_get_index_a fx b t s h = SOk (b', t', z, idx, h') /\
    astr_inv b' t' /\ owned_by h' (as_owns t') F /\ h_bad h' = h_bad h /\
    (forall id, id <> h_next h -> bh_get b' id = bh_get b id) /\
    prefix (strings b (as_core t)) (strings b' (as_core t')) /\
    (z = 0%Z \/ z = c_SQFS_ERROR_ALLOC) /\
    (z = 0%Z -> nth_error (strings b' (as_core t')) (N.to_nat idx) = Some s).
Proof.
  intros fx b t s h F Inv Hlim O.
  destruct (in_dec (list_eq_dec N.eq_dec) s (strings b (as_core t))) as [Hin|Hnew].
  - apply In_nth_error in Hin. destruct Hin as [i Hi].
    exists b, t, 0%Z, (N.of_nat i), h. split; [apply get_index_a_found; [apply Inv|exact Hi]|].
    split; [exact Inv|]. split; [exact O|]. split; [reflexivity|]. split; [reflexivity|].
    split; [apply prefix_refl|]. split; [left; reflexivity|]. intros _. rewrite Nat2N.id. exact Hi.
  - destruct (get_index_a_new fx b t s h F Inv Hnew Hlim O) as (b' & t' & z & idx & h' & E & I' & O' & B' & Fr & Hc).
    exists b', t', z, idx, h'. split; [exact E|]. split; [exact I'|]. split; [exact O'|]. split; [exact B'|].
    split; [exact Fr|].
    destruct Hc as [(-> & -> & Habs & _)|(-> & _ & Habs & _)].
    + split; [rewrite !strings_abs, Habs, map_app; eexists; reflexivity|]. split; [left; reflexivity|].
      intros _. rewrite strings_abs, Habs, map_app.
      rewrite <- (str_abs_len_a b (as_core t) (proj1 Inv)).
      unfold lenN. rewrite Nat2N.id. rewrite nth_error_app2 by (rewrite map_length; lia).
      rewrite map_length, Nat.sub_diag. reflexivity.
    + split; [rewrite !strings_abs, Habs; apply prefix_refl|]. split; [right; reflexivity|].
      intro Hc. unfold c_SQFS_ERROR_ALLOC in Hc. discriminate.
Qed.

(* ---- sqfs_xattr_writer_add_kv ---- *)
Definition axw_inv (b : bheap) (w : axw) : Prop :=
  astr_inv b (xw_keys w) /\ astr_inv b (xw_values w) /\ aarr_inv N (xw_pairs w) /\
  xw_start w <= a_used (aa_core (xw_pairs w)).

Lemma owned_lt : forall h own F id, owned_by h own F -> In id own -> id < h_next h.
Proof. intros h own F id ((_ & K2) & _ & _ & Hl) H. apply K2. apply Hl. left. exact H. Qed.

Lemma data_in_owns : forall (t : astr) id, In id (a_data (st_arr (as_core t))) -> In id (as_owns t).
Proof. intros t id H. unfold as_owns. apply in_or_app. right. apply in_or_app. right. exact H. Qed.

Lemma scan_pairs_spec : forall l i pair ki,
  match scan_pairs l i pair ki with
  | ScSame => In pair l
  | ScReplace pos old => i <= pos /\ pos < i + lenN l
  | ScNone => True
  end.
Proof.
  induction l as [|ent l IH]; intros i pair ki; cbn [scan_pairs]; [exact I|].
  destruct (ent =? pair) eqn:E1.
  - apply N.eqb_eq in E1. left. exact E1.
  - destruct (get_key ent =? ki).
    + rewrite lenN_cons. lia.
    + specialize (IH (i + 1) pair ki). destruct (scan_pairs l (i + 1) pair ki).
      * right. exact IH.
      * rewrite lenN_cons. lia.
      * exact I.
Qed.

Lemma skipn_In : forall (A : Type) n (l : list A) x, In x (skipn n l) -> In x l.
Proof.
  intros A n. induction n as [|n IH]; intros l x H; [exact H|]. destruct l as [|y l]; [exact H|].
  right. apply IH. exact H.
Qed.

Lemma lenN_skipn : forall (A : Type) (l : list A) n, n <= lenN l -> n + lenN (skipn (N.to_nat n) l) = lenN l.
Proof. intros A l n H. unfold lenN in *. rewrite skipn_length. lia. Qed.

(* what the caller gets back, whatever the oracle *)
Definition xw_residue (b : bheap) (w : axw) (b' : bheap) (w' : axw) : Prop :=
  xw_id w' = xw_id w /\ xw_start w' = xw_start w /\
  prefix (strings b (as_core (xw_keys w))) (strings b' (as_core (xw_keys w'))) /\
  prefix (strings b (as_core (xw_values w))) (strings b' (as_core (xw_values w'))).

Lemma mk_axw_inv : forall b x k v p st,
  astr_inv b k -> astr_inv b v -> aarr_inv N p -> st <= a_used (aa_core p) -> axw_inv b (mk_axw x k v p st).
Proof. intros. unfold axw_inv. cbn. tauto. Qed.

Lemma mk_residue : forall b b' x k v p st k' v' p',
  prefix (strings b (as_core k)) (strings b' (as_core k')) ->
  prefix (strings b (as_core v)) (strings b' (as_core v')) ->
  xw_residue b (mk_axw x k v p st) b' (mk_axw x k' v' p' st).
Proof. intros. unfold xw_residue. cbn. tauto. Qed.

Theorem xattr_add_kv_alloc_failstop : forall fx b w key value h F,
  axw_inv b w -> owned_by h (xw_owns w) F ->
  ht_entries skey N (st_ht (as_core (xw_keys w))) < ht_safe_limit ->
  ht_entries skey N (st_ht (as_core (xw_values w))) < ht_safe_limit ->
  exists b' w' z h',
    xw_add_kv_a fx b w key value h = SOk (b', w', z, h') /\
    axw_inv b' w' /\ owned_by h' (xw_owns w') F /\ h_bad h' = h_bad h /\
    xw_residue b w b' w' /\
    (z <> 0%Z -> z = c_SQFS_ERROR_ALLOC /\ xw_pairs w' = xw_pairs w) /\
    (z = 0%Z -> exists ki vi,
        nth_error (strings b' (as_core (xw_keys w'))) (N.to_nat ki) = Some key /\
        nth_error (strings b' (as_core (xw_values w'))) (N.to_nat vi) = Some (to_base32 value) /\
        In (mk_pair ki vi) (aa_abs N (xw_pairs w'))).
Proof.
  intros fx b w key value h F (InvK & InvV & InvP & Hstart) O HlimK HlimV.
  destruct w as [xid keys values pairs start]. cbn [xw_keys xw_values xw_pairs xw_start xw_id] in *.
  unfold xw_owns in O. cbn [xw_keys xw_values xw_pairs xw_id] in O.
  unfold xw_add_kv_a. cbn [xw_keys xw_values xw_pairs xw_start xw_id with_keys with_values with_pairs].
  (* (1) the key *)
  pose proof (owned_focus _ _ _ _ _ O) as Ok.
  destruct (get_index_a_total fx b keys key h _ InvK HlimK Ok)
    as (b1 & k1 & z1 & ki & h1 & E1 & InvK1 & Ok1 & B1 & Fr1 & Pre1 & Hz1 & Hidx1).
  rewrite E1. cbn [xw_keys xw_values xw_pairs xw_start xw_id with_keys with_values with_pairs].
  pose proof (owned_unfocus _ _ _ _ _ _ _ O Ok1) as O1.
  assert (HVlive : forall id, In id (a_data (st_arr (as_core values))) -> id <> h_next h).
  { intros id Hid Hc. assert (id < h_next h); [|lia]. eapply owned_lt; [exact O|].
    apply in_or_app. right. apply in_or_app. right. apply in_or_app. left. apply data_in_owns. exact Hid. }
  destruct (astr_inv_frame b b1 values InvV (fun id Hid => Fr1 id (HVlive id Hid))) as [InvV1 AbsV1].
  assert (PreV1 : prefix (strings b (as_core values)) (strings b1 (as_core values))).
  { rewrite !strings_abs, AbsV1. apply prefix_refl. }
  destruct Hz1 as [-> | ->].
  2: { (* the key could not be recorded *)
    unfold c_SQFS_ERROR_ALLOC at 1. cbn iota.
    exists b1. eexists. exists c_SQFS_ERROR_ALLOC, h1. split; [reflexivity|].
    split; [apply mk_axw_inv; assumption|]. split; [exact O1|]. split; [exact B1|].
    split; [apply mk_residue; assumption|]. split; [intros _; split; reflexivity|].
    intro Hc. unfold c_SQFS_ERROR_ALLOC in Hc. discriminate. }
  specialize (Hidx1 eq_refl). cbn iota. cbn [xw_keys xw_values xw_pairs xw_start xw_id with_keys with_values with_pairs].
  (* (2) to_base32 *)
  destruct (alloc h1) as [[tmp|] h2] eqn:Ea.
  2: { destruct (owned_alloc_fail _ _ _ _ O1 Ea) as (O2 & B2).
    exists b1. eexists. exists c_SQFS_ERROR_ALLOC, h2. split; [reflexivity|].
    split; [apply mk_axw_inv; assumption|]. split; [exact O2|]. split; [congruence|].
    split; [apply mk_residue; assumption|]. split; [intros _; split; reflexivity|].
    intro Hc. unfold c_SQFS_ERROR_ALLOC in Hc. discriminate. }
  destruct (owned_alloc_some _ _ _ _ _ O1 Ea) as (O2 & B2 & Ntmp & _ & _).
  set (K1 := as_owns k1) in *. set (V := as_owns values) in *. set (P := aa_owns N pairs) in *.
  assert (O2' : owned_by h2 ((tmp :: [xid] ++ K1) ++ V ++ P) F).
  { replace ((tmp :: [xid] ++ K1) ++ V ++ P) with (tmp :: [xid] ++ K1 ++ V ++ P); [exact O2|].
    cbn [app]. reflexivity. }
  (* (3) the value *)
  pose proof (owned_focus _ _ _ _ _ O2') as Ov.
  destruct (get_index_a_total fx b1 values (to_base32 value) h2 _ InvV1 HlimV Ov)
    as (b2 & v1 & z2 & vi & h3 & E2 & InvV2 & Ov1 & B3 & Fr2 & Pre2 & Hz2 & Hidx2).
  rewrite E2. cbn [xw_keys xw_values xw_pairs xw_start xw_id with_keys with_values with_pairs].
  pose proof (owned_unfocus _ _ _ _ _ _ _ O2' Ov1) as O3.
  set (V1 := as_owns v1) in *.
  assert (HKlive : forall id, In id (a_data (st_arr (as_core k1))) -> id <> h_next h2).
  { intros id Hid Hc. assert (id < h_next h2); [|lia]. eapply owned_lt; [exact O2'|].
    apply in_or_app. left. right. apply in_or_app. right. apply data_in_owns. exact Hid. }
  destruct (astr_inv_frame b1 b2 k1 InvK1 (fun id Hid => Fr2 id (HKlive id Hid))) as [InvK2 AbsK2].
  assert (PreK2 : prefix (strings b (as_core keys)) (strings b2 (as_core k1))).
  { rewrite (strings_abs b2), AbsK2, <- strings_abs. exact Pre1. }
  assert (Hidx1' : nth_error (strings b2 (as_core k1)) (N.to_nat ki) = Some key).
  { rewrite (strings_abs b2), AbsK2, <- strings_abs. exact Hidx1. }
  assert (PreV2 : prefix (strings b (as_core values)) (strings b2 (as_core v1))) by (eapply prefix_trans; eauto).
  (* free(value_str) *)
  assert (O3' : owned_by h3 (tmp :: ([xid] ++ K1) ++ V1 ++ P) F) by exact O3.
  destruct (owned_free h3 tmp _ F O3' ltac:(left; reflexivity)) as [O4 B4].
  assert (Hnt : ~ In tmp (([xid] ++ K1) ++ V1 ++ P)). { destruct O3' as (_ & Hn & _). inversion Hn; assumption. }
  rewrite drop_head in O4 by exact Hnt.
  assert (O4' : owned_by (free h3 tmp) ([xid] ++ K1 ++ V1 ++ P) F) by (rewrite <- app_assoc in O4; exact O4).
  destruct Hz2 as [-> | ->].
  2: { unfold c_SQFS_ERROR_ALLOC at 1. cbn iota.
    exists b2. eexists. exists c_SQFS_ERROR_ALLOC. eexists. split; [reflexivity|].
    split; [apply mk_axw_inv; assumption|]. split; [exact O4'|]. split; [congruence|].
    split; [apply mk_residue; assumption|]. split; [intros _; split; reflexivity|].
    intro Hc. unfold c_SQFS_ERROR_ALLOC in Hc. discriminate. }
  specialize (Hidx2 eq_refl). cbn iota. cbn [xw_keys xw_values xw_pairs xw_start xw_id with_keys with_values with_pairs].
  (* str_table_add_ref(values) *)
  assert (Hdisj : forall id, In id (a_data (st_arr (as_core k1))) -> ~ In id (a_data (st_arr (as_core v1)))).
  { intros id H1 H2. destruct O4 as (_ & Hn & _). destruct (NoDup_app_parts _ _ Hn) as (_ & _ & Hd).
    apply (Hd id).
    - apply in_or_app. right. apply data_in_owns. exact H1.
    - apply in_or_app. left. apply data_in_owns. exact H2. }
  destruct (stra_ref_op b2 (as_core v1) vi (proj1 InvV2)) as [(b3 & Ear & IV3 & SV3 & FrV3) _].
  rewrite Ear. cbn [xw_keys xw_values xw_pairs xw_start xw_id with_keys with_values with_pairs].
  destruct (astr_inv_frame b2 b3 k1 InvK2 (fun id Hid => FrV3 id (Hdisj id Hid))) as [InvK3 AbsK3].
  assert (InvV3 : astr_inv b3 v1) by (split; [exact IV3|apply InvV2]).
  assert (PreK3 : prefix (strings b (as_core keys)) (strings b3 (as_core k1))).
  { rewrite (strings_abs b3), AbsK3, <- strings_abs. exact PreK2. }
  assert (Hidx1'' : nth_error (strings b3 (as_core k1)) (N.to_nat ki) = Some key).
  { rewrite (strings_abs b3), AbsK3, <- strings_abs. exact Hidx1'. }
  assert (PreV3 : prefix (strings b (as_core values)) (strings b3 (as_core v1))) by (rewrite SV3; exact PreV2).
  assert (Hidx2' : nth_error (strings b3 (as_core v1)) (N.to_nat vi) = Some (to_base32 value)) by (rewrite SV3; exact Hidx2).
  set (pair := mk_pair ki vi).
  set (cur := skipn (N.to_nat start) (a_data (aa_core pairs))).
  pose proof (scan_pairs_spec cur start pair ki) as Hscan.
  destruct (scan_pairs cur start pair ki) as [|pos old|].
  - (* the very pair is already in the current set *)
    exists b3. eexists. exists 0%Z. eexists. split; [reflexivity|].
    cbn [with_keys with_values with_pairs xw_keys xw_values xw_pairs xw_start xw_id].
    split; [apply mk_axw_inv; assumption|]. split; [exact O4'|]. split; [congruence|].
    split; [apply mk_residue; assumption|]. split; [intro Hc; congruence|].
    intros _. exists ki, vi. split; [exact Hidx1''|]. split; [exact Hidx2'|].
    unfold aa_abs. eapply skipn_In. exact Hscan.
  - (* the key has another value in the current set: replace it *)
    destruct (stra_ref_op b3 (as_core v1) old IV3) as [_ (b4 & Edr & IV4 & SV4 & FrV4)].
    rewrite Edr.
    destruct (astr_inv_frame b3 b4 k1 InvK3 (fun id Hid => FrV4 id (Hdisj id Hid))) as [InvK4 AbsK4].
    destruct InvP as [[Pl Pu] Pn].
    assert (Hpos : pos < a_used (aa_core pairs)).
    { destruct Hscan as [_ H2]. unfold cur in H2. rewrite <- Pl.
      pose proof (lenN_skipn _ (a_data (aa_core pairs)) start ltac:(rewrite Pl; exact Hstart)). lia. }
    unfold array_set_a, array_set.
    replace (a_used (aa_core pairs) <=? pos) with false by (symmetry; apply N.leb_gt; exact Hpos).
    exists b4.
    exists (mk_axw xid k1 v1
              (mk_aarr N (mk_arr N (a_size (aa_core pairs)) (a_count (aa_core pairs)) (a_used (aa_core pairs))
                                 (updN (a_data (aa_core pairs)) pos pair)) (aa_id pairs)) start).
    exists 0%Z. eexists. split; [reflexivity|].
    cbn [xw_keys xw_values xw_pairs xw_start xw_id].
    split.
    { apply mk_axw_inv; [exact InvK4|split; [exact IV4|apply InvV2]| |exact Hstart].
      split; [split; [cbn; rewrite updN_length; exact Pl|exact Pu]|exact Pn]. }
    split; [exact O4'|]. split; [congruence|].
    split.
    { apply mk_residue.
      - rewrite (strings_abs b4), AbsK4, <- strings_abs. exact PreK3.
      - rewrite SV4. exact PreV3. }
    split; [intro Hc; congruence|].
    intros _. exists ki, vi. split; [rewrite (strings_abs b4), AbsK4, <- strings_abs; exact Hidx1''|].
    split; [rewrite SV4; exact Hidx2'|].
    unfold aa_abs. cbn [aa_core a_data]. eapply nthN_In. apply nthN_upd_same. rewrite Pl. exact Hpos.
  - (* a new pair: array_append *)
    assert (O5 : owned_by (free h3 tmp) ((([xid] ++ K1) ++ V1) ++ P ++ []) F).
    { rewrite app_nil_r, <- !app_assoc. exact O4'. }
    pose proof (owned_focus _ _ _ _ _ O5) as Op.
    destruct (array_append_a N pairs pair (free h3 tmp)) as [[z3 pairs'] h5] eqn:Eap.
    destruct (array_append_a_spec N pairs pair _ _ z3 pairs' h5 InvP Op Eap) as (Op1 & B5 & Hap).
    pose proof (owned_unfocus _ _ _ _ _ _ _ O5 Op1) as O6. rewrite app_nil_r, <- !app_assoc in O6.
    exists b3. eexists. exists z3, h5. split; [reflexivity|].
    cbn [with_keys with_values with_pairs xw_keys xw_values xw_pairs xw_start xw_id].
    destruct Hap as [(-> & InvP' & Abs' & Au' & As')|(-> & ->)].
    + split; [apply mk_axw_inv; [exact InvK3|exact InvV3|exact InvP'|cbn [xw_start with_values with_keys with_pairs]; lia]|].
      split; [exact O6|]. split; [congruence|]. split; [apply mk_residue; assumption|]. split; [intro Hc; congruence|].
      intros _. exists ki, vi. split; [exact Hidx1''|]. split; [exact Hidx2'|].
      rewrite Abs'. apply in_or_app. right. left. reflexivity.
    + split; [apply mk_axw_inv; assumption|]. split; [exact O6|]. split; [congruence|].
      split; [apply mk_residue; assumption|]. split; [intros _; split; reflexivity|].
      intro Hc. unfold c_SQFS_ERROR_ALLOC in Hc. discriminate.
Qed.

(* ---- xattr_writer_destroy: safe in every state add_kv can leave behind ---- *)
Theorem xattr_destroy_frees_all : forall b w h F,
  axw_inv b w -> owned_by h (xw_owns w) F ->
  owned_by (snd (xw_destroy_a b w h)) [] F /\ h_bad (snd (xw_destroy_a b w h)) = h_bad h.
Proof.
  intros b w h F (InvK & InvV & InvP & _) O.
  destruct w as [xid keys values pairs start]. cbn [xw_keys xw_values xw_pairs xw_start xw_id] in *.
  unfold xw_owns in O. cbn [xw_keys xw_values xw_pairs xw_id] in O.
  unfold xw_destroy_a. cbn [xw_keys xw_values xw_pairs xw_id].
  set (K := as_owns keys) in *. set (V := as_owns values) in *. set (P := aa_owns N pairs) in *.
  (* array_cleanup(&xwr->kv_pairs) *)
  assert (O0 : owned_by h (([xid] ++ K ++ V) ++ P ++ []) F) by (rewrite app_nil_r, <- !app_assoc; exact O).
  pose proof (owned_focus _ _ _ _ _ O0) as Op.
  destruct (array_cleanup_a_spec N pairs h _ Op) as (Op1 & B1 & _).
  pose proof (owned_unfocus _ _ _ _ _ _ _ O0 Op1) as O1. cbn [app] in O1. rewrite !app_nil_r in O1.
  set (h1 := snd (array_cleanup_a N pairs h)) in *.
  (* str_table_cleanup(&xwr->values) *)
  assert (O1' : owned_by h1 (([xid] ++ K) ++ V ++ []) F) by (rewrite app_nil_r, <- !app_assoc; cbn [app]; exact O1).
  pose proof (owned_focus _ _ _ _ _ O1') as Ov.
  pose proof (str_table_cleanup_a_spec b values h1 _ InvV Ov) as Hv.
  destruct (str_table_cleanup_a b values h1) as [b2 h2] eqn:Ev. destruct Hv as (Ov1 & B2 & Fr2).
  pose proof (owned_unfocus _ _ _ _ _ _ _ O1' Ov1) as O2. cbn [app] in O2. rewrite !app_nil_r in O2.
  (* str_table_cleanup(&xwr->keys) *)
  assert (Hdisj : forall id, In id (a_data (st_arr (as_core keys))) -> ~ In id (a_data (st_arr (as_core values)))).
  { intros id H1 H2. destruct O as (_ & Hn & _). destruct (NoDup_app_parts _ _ Hn) as (_ & Hn2 & _).
    destruct (NoDup_app_parts _ _ Hn2) as (_ & _ & Hd). apply (Hd id).
    - apply data_in_owns. exact H1.
    - apply in_or_app. left. apply data_in_owns. exact H2. }
  destruct (astr_inv_frame b b2 keys InvK (fun id Hid => Fr2 id (Hdisj id Hid))) as [InvK2 _].
  assert (O2' : owned_by h2 ([xid] ++ K ++ []) F) by (rewrite app_nil_r; exact O2).
  pose proof (owned_focus _ _ _ _ _ O2') as Ok.
  pose proof (str_table_cleanup_a_spec b2 keys h2 _ InvK2 Ok) as Hk.
  destruct (str_table_cleanup_a b2 keys h2) as [b3 h3] eqn:Ek. destruct Hk as (Ok1 & B3 & _).
  pose proof (owned_unfocus _ _ _ _ _ _ _ O2' Ok1) as O3. cbn [app] in O3.
  (* free(xwr) *)
  destruct (owned_free h3 xid [xid] F O3 ltac:(left; reflexivity)) as [O4 B4].
  rewrite drop_head in O4 by (cbn; tauto). cbn [snd]. split; [exact O4|congruence].
Qed.

(* ---- sqfs_xattr_writer_create: all or nothing ---- *)
Theorem xattr_create_alloc_failstop : forall h F,
  owned_by h [] F ->
  let '(r, h') := xw_create_a h in
  h_bad h' = h_bad h /\
  match r with
  | Some w => owned_by h' (xw_owns w) F /\ (forall b, axw_inv b w)
  | None => owned_by h' [] F
  end.
Proof.
  intros h F O. unfold xw_create_a.
  destruct (alloc h) as [[xid|] h1] eqn:Ea.
  2: { destruct (owned_alloc_fail _ _ _ _ O Ea) as (O1 & B1). split; [exact B1|exact O1]. }
  destruct (owned_alloc_some _ _ _ _ _ O Ea) as (O1 & B1 & _).
  (* keys *)
  assert (O1' : owned_by h1 ([xid] ++ [] ++ []) F) by exact O1.
  pose proof (owned_focus _ _ _ _ _ O1') as Ok.
  pose proof (str_table_init_a_spec h1 _ Ok) as Hk.
  destruct (str_table_init_a h1) as [[zk [keys|]] h2] eqn:Ek.
  2: { destruct Hk as (B2 & _ & Ok1 & _). pose proof (owned_unfocus _ _ _ _ _ _ _ O1' Ok1) as O2. cbn [app] in O2.
       destruct (owned_free h2 xid [xid] F O2 ltac:(left; reflexivity)) as [O3 B3].
       rewrite drop_head in O3 by (cbn; tauto). split; [congruence|exact O3]. }
  destruct Hk as (B2 & _ & Ok1 & _ & HallK).
  pose proof (owned_unfocus _ _ _ _ _ _ _ O1' Ok1) as O2. rewrite app_nil_r in O2.
  set (K := as_owns keys) in *.
  (* values *)
  assert (O2' : owned_by h2 (([xid] ++ K) ++ [] ++ []) F) by (rewrite !app_nil_r; exact O2).
  pose proof (owned_focus _ _ _ _ _ O2') as Ov.
  pose proof (str_table_init_a_spec h2 _ Ov) as Hv.
  destruct (str_table_init_a h2) as [[zv [values|]] h3] eqn:Ev.
  2: { destruct Hv as (B3 & _ & Ov1 & _).
       pose proof (owned_unfocus _ _ _ _ _ _ _ O2' Ov1) as O3. rewrite !app_nil_r in O3.
       assert (O3' : owned_by h3 ([xid] ++ K ++ []) F) by (rewrite app_nil_r; exact O3).
       pose proof (owned_focus _ _ _ _ _ O3') as Okc.
       pose proof (str_table_cleanup_a_spec (mk_bheap 0 []) keys h3 _ (proj1 (HallK _)) Okc) as Hc.
       destruct (str_table_cleanup_a (mk_bheap 0 []) keys h3) as [bx h4]. destruct Hc as (Oc & B4 & _).
       pose proof (owned_unfocus _ _ _ _ _ _ _ O3' Oc) as O4. cbn [app] in O4. cbn [snd].
       destruct (owned_free h4 xid [xid] F O4 ltac:(left; reflexivity)) as [O5 B5].
       rewrite drop_head in O5 by (cbn; tauto). split; [congruence|exact O5]. }
  destruct Hv as (B3 & _ & Ov1 & _ & HallV).
  pose proof (owned_unfocus _ _ _ _ _ _ _ O2' Ov1) as O3. rewrite app_nil_r in O3.
  set (V := as_owns values) in *.
  (* kv_pairs *)
  assert (O3' : owned_by h3 ((([xid] ++ K) ++ V) ++ [] ++ []) F) by (rewrite !app_nil_r; exact O3).
  pose proof (owned_focus _ _ _ _ _ O3') as Op.
  destruct (array_init_a N sizeof_u64 XATTR_INITIAL_PAIR_CAP h3) as [[zp pairs] h4] eqn:Ep.
  destruct (array_init_a_spec N _ _ _ _ _ _ _ Op Ep) as (Op1 & B4 & Hp).
  pose proof (owned_unfocus _ _ _ _ _ _ _ O3' Op1) as O4. rewrite app_nil_r, <- !app_assoc in O4.
  destruct Hp as [(-> & InvP & _ & _ & _ & Hu)|(Hz & -> & _)].
  - split; [congruence|]. split; [exact O4|]. intro b. apply mk_axw_inv; [apply HallK|apply HallV|exact InvP|lia].
  - (* fail_pairs: both tables are released again *)
    assert (Ez : forall (X : option axw * heap), (match zp with 0%Z => (Some (mk_axw xid keys values (aa_zero N) 0), h4) | _ => X end) = X)
      by (intro X; destruct zp; [congruence|reflexivity|reflexivity]).
    rewrite Ez. cbn [aa_owns aa_zero aa_id] in O4. rewrite app_nil_r in O4.
    assert (O4' : owned_by h4 (([xid] ++ K) ++ V ++ []) F) by (rewrite app_nil_r, <- app_assoc; exact O4).
    pose proof (owned_focus _ _ _ _ _ O4') as Ovc.
    pose proof (str_table_cleanup_a_spec (mk_bheap 0 []) values h4 _ (proj1 (HallV _)) Ovc) as Hc.
    destruct (str_table_cleanup_a (mk_bheap 0 []) values h4) as [bx h5]. destruct Hc as (Oc & B5 & _).
    pose proof (owned_unfocus _ _ _ _ _ _ _ O4' Oc) as O5. rewrite !app_nil_r in O5. cbn [snd].
    assert (O5' : owned_by h5 ([xid] ++ K ++ []) F) by (rewrite app_nil_r; exact O5).
    pose proof (owned_focus _ _ _ _ _ O5') as Okc.
    pose proof (str_table_cleanup_a_spec (mk_bheap 0 []) keys h5 _ (proj1 (HallK _)) Okc) as Hc2.
    destruct (str_table_cleanup_a (mk_bheap 0 []) keys h5) as [by' h6]. destruct Hc2 as (Oc2 & B6 & _).
    pose proof (owned_unfocus _ _ _ _ _ _ _ O5' Oc2) as O6. cbn [app] in O6. cbn [snd].
    destruct (owned_free h6 xid [xid] F O6 ltac:(left; reflexivity)) as [O7 B7].
    rewrite drop_head in O7 by (cbn; tauto). split; [congruence|exact O7].
Qed.
