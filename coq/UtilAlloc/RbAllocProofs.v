(* rbtree.c with allocation failure: proofs.

   * [rbtree_insert_a]: NULL from mknode -> SQFS_ERROR_ALLOC and the very same tree; otherwise the
     Util model's insert with the new node's id = the allocation id.
   * [copy_node_a] / [rbtree_copy_a]: success = the Util model's copy_node started at the heap's
     next id (so every theorem of Util/RbTheorems.v about the copy applies), the copy owns exactly
     its nodes; failure = every node allocated on the way has been freed exactly once, nothing
     else was touched, *out is zeroed.
   * [rbtree_cleanup_a] frees exactly the nodes. *)
From Coq Require Import NArith ZArith List Bool Lia Permutation Sorting.Sorted.
From SqfsV Require Import Gen.Constants Util.GenUtil Util.RbModel Util.RbOrder Util.RbBalance Util.RbTheorems
     UtilAlloc.AllocBase UtilAlloc.RbAlloc.
Import ListNotations.
Local Open Scope N_scope.

Lemma tids_ids : forall t, Permutation (tids t) (ids t).
Proof.
  induction t as [|i l IHl c v d r IHr]; cbn; [constructor|].
  unfold ids in *. cbn [elements]. rewrite map_app. cbn [map e_id fst].
  rewrite <- IHl, <- IHr. apply Permutation_middle.
Qed.

Lemma tids_length : forall t, N.of_nat (length (tids t)) = tsize t.
Proof.
  induction t as [|i l IHl c v d r IHr]; cbn [tids tsize length]; [reflexivity|].
  rewrite app_length. lia.
Qed.

Lemma perm_copy : forall (r l own : list N) id,
  Permutation (r ++ l ++ id :: own) (id :: (l ++ r) ++ own).
Proof.
  intros r l own id. apply Permutation_trans with (id :: r ++ l ++ own).
  - rewrite !app_assoc. symmetry. apply (Permutation_middle (r ++ l) own id).
  - constructor. rewrite <- app_assoc. apply Permutation_app_swap_app.
Qed.

(* ---- copy_node ---- *)
Lemma copy_node_a_spec : forall ksp vs t h own F,
  Forall (node_layout ksp vs) (elements t) -> owned_by h own F ->
  let len := util_sizeof_rbnode + ksp + vs in
  exists r h', copy_node_a len len t h = Some (r, h') /\ h_bad h' = h_bad h /\
    (all_ok h -> r <> None /\ all_ok h') /\
    match r with
    | Some t' => copy_node len len t (h_next h) = Some (t', h_next h') /\ owned_by h' (tids t' ++ own) F
    | None => owned_by h' own F
    end.
Proof.
  intros ksp vs. cbn zeta. induction t as [|i l IHl c v d r IHr]; intros h own F Hlay O.
  - exists (Some Leaf), h. cbn. split; [reflexivity|]. split; [reflexivity|].
    split; [intro A; split; [discriminate|exact A]|]. split; [reflexivity|exact O].
  - cbn [elements] in Hlay. rewrite Forall_app in Hlay. destruct Hlay as [Hl Hr].
    inversion Hr as [|? ? Hn Hr']; subst. destruct Hn as [_ Hlen]. cbn [e_data snd] in Hlen.
    cbn [copy_node_a copy_node]. rewrite (copy_data_full _ _ _ Hlen).
    destruct (alloc h) as [[id|] h1] eqn:Ea.
    + destruct (owned_alloc_some _ _ _ _ _ O Ea) as (O1 & B1 & N1 & F1 & Eid).
      pose proof Ea as Ea'. apply alloc_some in Ea'. destruct Ea' as (_ & En1 & _).
      destruct (IHl h1 (id :: own) F Hl O1) as (rl & h2 & El & B2 & A2 & Hrl). rewrite El.
      destruct rl as [l'|].
      * destruct Hrl as [Cl O2].
        destruct (IHr h2 (tids l' ++ id :: own) F Hr' O2) as (rr & h3 & Er & B3 & A3 & Hrr). rewrite Er.
        destruct rr as [r'|].
        -- destruct Hrr as [Cr O3].
           eexists. exists h3. split; [reflexivity|]. split; [congruence|]. split.
           { intro A. destruct (alloc_all_ok_keep _ _ _ A Ea) as [_ A1]. destruct (A2 A1) as [_ A2'].
             destruct (A3 A2') as [_ A3']. split; [discriminate|exact A3']. }
           split.
           ++ rewrite <- En1, Cl, Cr, Eid. reflexivity.
           ++ eapply owned_by_perm; [exact O3|]. cbn [tids app]. apply perm_copy.
        -- exists None. eexists. split; [reflexivity|].
           assert (O3' : owned_by h3 ((id :: tids l') ++ own) F).
           { eapply owned_by_perm; [exact Hrr|]. cbn [app]. symmetry. apply Permutation_middle. }
           destruct (owned_free_all (id :: tids l') h3 own F O3') as [O4 B4]. cbn [free_all] in O4, B4.
           split; [congruence|]. split; [|exact O4].
           intro A. destruct (alloc_all_ok_keep _ _ _ A Ea) as [_ A1]. destruct (A2 A1) as [_ A2'].
           destruct (A3 A2') as [Hc _]. congruence.
      * exists None. eexists. split; [reflexivity|].
        destruct (owned_free h2 id _ F Hrl ltac:(left; reflexivity)) as [O3 B3].
        rewrite drop_head in O3 by exact N1.
        split; [congruence|]. split; [|exact O3].
        intro A. destruct (alloc_all_ok_keep _ _ _ A Ea) as [_ A1]. destruct (A2 A1) as [Hc _]. congruence.
    + destruct (owned_alloc_fail _ _ _ _ O Ea) as (O1 & B1).
      exists None, h1. split; [reflexivity|]. split; [exact B1|]. split; [|exact O1].
      intro A. destruct (alloc_all_ok_keep _ _ _ A Ea) as [Hc _]. congruence.
Qed.

(* ---- rbtree_copy ---- *)
Theorem rbtree_copy_a_spec : forall t h own F,
  layout_ok t -> owned_by h own F ->
  exists z t' h', rbtree_copy_a t h = Some (z, t', h') /\ h_bad h' = h_bad h /\
    (all_ok h -> z = 0%Z /\ all_ok h') /\
    ((z = 0%Z /\ rbtree_copy t (h_next h) = Some (t', h_next h') /\
      owned_by h' (tids (rb_root t') ++ own) F) \/
     (z = c_SQFS_ERROR_ALLOC /\ t' = rb_zero /\ owned_by h' own F)).
Proof.
  intros t h own F [Hle Hlay] O. unfold rbtree_copy_a, rbtree_copy.
  destruct (copy_node_a_spec _ _ (rb_root t) h own F Hlay O) as (r & h' & E & B & A & Hr).
  cbn zeta in E. rewrite E. destruct r as [r'|].
  - destruct Hr as [C O']. eexists. eexists. exists h'. split; [reflexivity|]. split; [exact B|].
    split; [intro Ha; destruct (A Ha); auto|]. left. split; [reflexivity|]. rewrite C. split; [reflexivity|exact O'].
  - eexists. eexists. exists h'. split; [reflexivity|]. split; [exact B|].
    split; [intro Ha; destruct (A Ha) as [Hc _]; congruence|]. right. auto.
Qed.

(* ---- rbtree_cleanup ---- *)
Theorem rbtree_cleanup_a_spec : forall t h own F,
  owned_by h (tids (rb_root t) ++ own) F ->
  owned_by (snd (rbtree_cleanup_a t h)) own F /\ h_bad (snd (rbtree_cleanup_a t h)) = h_bad h /\
  fst (rbtree_cleanup_a t h) = rb_zero.
Proof.
  intros t h own F O. unfold rbtree_cleanup_a. cbn [fst snd].
  destruct (owned_free_all _ h own F O) as [O1 B1]. auto.
Qed.

(* ---- rbtree_insert ---- *)
Section TOP.
Variable cmp : list N -> list N -> Z.
Hypothesis cmp_antisym : forall a b, (cmp a b < 0 <-> 0 < cmp b a)%Z.
Hypothesis cmp_trans : forall a b c, (cmp a b <= 0 -> cmp b c <= 0 -> cmp a c <= 0)%Z.

Lemma ins_sorted_split : forall ks x l, exists a b, l = a ++ b /\ ins_sorted cmp ks x l = a ++ x :: b.
Proof.
  intros ks x. induction l as [|y l IH]; cbn [ins_sorted].
  - exists [], []. split; reflexivity.
  - destruct (cmp (key ks x) (key ks y) <? 0)%Z.
    + exists [], (y :: l). split; reflexivity.
    + destruct IH as (a & b & -> & ->). exists (y :: a), b. split; reflexivity.
Qed.

Theorem rbtree_insert_a_spec : forall t key value h own F,
  rbtree_inv cmp t -> lenN key = rb_key_size t -> lenN value = rb_value_size t ->
  owned_by h (tids (rb_root t) ++ own) F ->
  exists z t' h', rbtree_insert_a cmp t key value h = Some (z, t', h') /\ h_bad h' = h_bad h /\
    owned_by h' (tids (rb_root t') ++ own) F /\ rbtree_inv cmp t' /\
    (all_ok h -> z = 0%Z /\ all_ok h') /\
    ((z = 0%Z /\ rbtree_insert cmp t (h_next h) key value = Some (t', h_next h') /\
      elements (rb_root t') =
        ins_sorted cmp (rb_key_size t) (new_elem t (h_next h) key value) (elements (rb_root t))) \/
     (z = c_SQFS_ERROR_ALLOC /\ t' = t /\ exists o, h_orc h = false :: o)).
Proof.
  intros t key value h own F I Hk Hv O. unfold rbtree_insert_a.
  destruct (alloc h) as [[id|] h1] eqn:Ea.
  - destruct (owned_alloc_some _ _ _ _ _ O Ea) as (O1 & B1 & N1 & F1 & Eid). subst id.
    pose proof Ea as Ea'. apply alloc_some in Ea'. destruct Ea' as (_ & En1 & _).
    destruct (rbtree_insert_inv cmp cmp_antisym cmp_trans t (h_next h) key value I Hk Hv)
      as (t' & E & I' & _ & _ & _ & Hel).
    rewrite E. exists 0%Z, t', h1. split; [reflexivity|]. split; [exact B1|]. split.
    { eapply owned_by_perm; [exact O1|].
      destruct (ins_sorted_split (rb_key_size t) (new_elem t (h_next h) key value) (elements (rb_root t)))
        as (a & b & Eab & Eins).
      rewrite app_comm_cons. apply Permutation_app_tail.
      rewrite (tids_ids (rb_root t')), (tids_ids (rb_root t)). unfold ids. rewrite Hel, Eins, Eab.
      rewrite !map_app. cbn [map]. apply Permutation_middle. }
    split; [exact I'|]. split.
    { intro A. destruct (alloc_all_ok_keep _ _ _ A Ea) as [_ A1]. auto. }
    left. split; [reflexivity|]. rewrite En1. split; [reflexivity|exact Hel].
  - destruct (owned_alloc_fail _ _ _ _ O Ea) as (O1 & B1).
    exists c_SQFS_ERROR_ALLOC, t, h1. split; [reflexivity|]. split; [exact B1|]. split; [exact O1|].
    split; [exact I|]. split.
    { intro A. destruct (alloc_all_ok_keep _ _ _ A Ea) as [Hc _]. congruence. }
    right. split; [reflexivity|]. split; [reflexivity|].
    apply alloc_fail in Ea. destruct Ea as (_ & _ & _ & Eo & _). eauto.
Qed.

(* a copy of a tree that satisfies the invariant satisfies it, out of nodes the source does not own *)
Theorem rbtree_copy_a_inv : forall t h own F z t' h',
  rbtree_inv cmp t -> owned_by h own F -> rbtree_copy_a t h = Some (z, t', h') -> z = 0%Z ->
  rbtree_inv cmp t' /\ erase (rb_root t') = erase (rb_root t) /\
  forall id, In id (tids (rb_root t')) -> ~ In id own.
Proof.
  intros t h own F z t' h' I O E Hz. destruct I as (Hs & Hrb & Hlay).
  destruct (rbtree_copy_a_spec t h own F Hlay O) as (z1 & t1 & h1 & E1 & _ & _ & Hc).
  rewrite E in E1. inversion E1; subst z1 t1 h1. clear E1.
  destruct Hc as [(_ & C & O')|(Hc & _)]; [|subst; discriminate].
  split; [apply (rbtree_copy_inv cmp t (h_next h) t' (h_next h')); [split; [exact Hs|split; [exact Hrb|exact Hlay]]|exact C]|].
  destruct (rbtree_copy_equiv t (h_next h) Hlay) as (t1 & E1 & Er & _).
  rewrite C in E1. inversion E1; subst t1. split; [exact Er|].
  intros id Hid Hown. destruct O' as (_ & Hn & _).
  destruct (NoDup_app_parts _ _ Hn) as (_ & _ & Hdis). apply (Hdis id Hid Hown).
Qed.

End TOP.
