(* sqfs_xattr_writer_end under allocation failure, proofs.

   [x2_inv b w f]: the recording state of XattrAllocProofs ([axw_inv]) plus the block tree: a red-black search
   tree under block_compare OF THE ARRAY AS IT IS, every block it names lies in front of the fence [f] <= used
   (f = kv_start while a set is under construction, f = used after a successful end), the indices stored in
   the nodes are pairwise different and below num_blocks.

   [xw_end_a_spec]: for every oracle, no crash; a failing end returns SQFS_ERROR_ALLOC, assigns no index,
   leaves tree / list / num_blocks / tables as they were and the pairs since begin sorted in place (same
   multiset) -- the invariant holds again with the same fence, so end can be repeated, add_kv / begin called,
   or the writer destroyed; a successful end hands out an index that is in the abstract table
   ([set_table]: index -> the pairs of the block) with a block holding byte for byte the sorted pairs. *)
From Coq Require Import NArith ZArith List Bool Lia Permutation Sorting.Sorted.
From SqfsV Require Import Base.Bytes Gen.Constants Util.GenUtil Util.HashModel Util.HashBase Util.HashRows
     Util.ArrayModel Util.ArrayProofs Util.StrModel Util.RbModel Util.RbOrder Util.RbBalance Util.RbTheorems
     UtilAlloc.AllocBase UtilAlloc.ArrayAlloc UtilAlloc.HashAlloc UtilAlloc.StrAlloc UtilAlloc.StrAllocInv UtilAlloc.StrAllocProofs
     UtilAlloc.RbAlloc UtilAlloc.RbAllocProofs UtilAlloc.XattrAlloc UtilAlloc.XattrAllocProofs UtilAlloc.XattrAddExt
     UtilAlloc.XattrEndAlloc UtilAlloc.XattrEndBase.
Import ListNotations.
Local Open Scope N_scope.

Definition elems (w : axw2) : list elem := elements (rb_root (x2_tree w)).
Definition ekey (e : elem) : list N := key DESC_SIZE e.
Definition below (f : N) (e : elem) : Prop := key_start (ekey e) + key_count (ekey e) <= f.
Definition entry_of (data : list N) (e : elem) : N * list N :=
  (elem_idx e, run_of data (key_start (ekey e)) (key_count (ekey e))).

(* the abstract value of the block tree: index -> pairs of the block (in key order) *)
Definition set_table (w : axw2) : list (N * list N) := map (entry_of (x2_data w)) (elems w).

Record x2_inv (b : bheap) (w : axw2) (f : N) : Prop := mk_x2_inv {
  xi_w : axw_inv b (x2_w w);
  xi_ks : rb_key_size (x2_tree w) = DESC_SIZE;
  xi_vs : rb_value_size (x2_tree w) = IDX_SIZE;
  xi_tree : rbtree_inv (block_cmp (x2_data w)) (x2_tree w);
  xi_below : Forall (below f) (elems w);
  xi_fence : f <= x2_used w;
  xi_nodup : NoDup (map elem_idx (elems w));
  xi_lt : Forall (fun e => elem_idx e < x2_num w) (elems w)
}.

Lemma below_mono : forall f f' e, f <= f' -> below f e -> below f' e.
Proof. unfold below. intros. lia. Qed.

Lemma cmp_agree_below : forall data data' f (l : list elem) a b,
  firstnN f data = firstnN f data' -> Forall (below f) l -> In a l -> In b l ->
  block_cmp data (ekey a) (ekey b) = block_cmp data' (ekey a) (ekey b).
Proof.
  intros data data' f l a b E F Ha Hb. rewrite Forall_forall in F.
  apply (block_cmp_agree data data' f); [exact E|apply (F a Ha)|apply (F b Hb)].
Qed.

Lemma entry_agree_below : forall data data' f e,
  firstnN f data = firstnN f data' -> below f e -> entry_of data e = entry_of data' e.
Proof. intros data data' f e E B. unfold entry_of. f_equal. apply (run_of_agree data data' f); assumption. Qed.

Lemma set_table_agree : forall w w' f,
  x2_tree w' = x2_tree w -> firstnN f (x2_data w) = firstnN f (x2_data w') -> Forall (below f) (elems w) ->
  set_table w' = set_table w.
Proof.
  intros w w' f Et E F. unfold set_table, elems in *. rewrite Et. apply map_ext_in.
  intros e He. symmetry. apply (entry_agree_below _ _ f); [exact E|]. rewrite Forall_forall in F. apply F. exact He.
Qed.

(* the array changed behind the fence only (or the fence moved up): the invariant carries over *)
Lemma inv_data_change : forall b b' w w' f f',
  x2_inv b w f -> x2_tree w' = x2_tree w -> x2_num w' = x2_num w -> axw_inv b' (x2_w w') ->
  firstnN f (x2_data w) = firstnN f (x2_data w') -> f <= f' -> f' <= x2_used w' ->
  x2_inv b' w' f'.
Proof.
  intros b b' w w' f f' I Et En Iw E Hf Hu. destruct I as [_ Ks Vs T B _ Nd Lt].
  unfold elems in *. constructor; unfold elems; try rewrite Et; try rewrite En; try assumption.
  - apply (rbtree_inv_cmp_ext (block_cmp (x2_data w))); [|exact T].
    intros x y Hx Hy. rewrite Ks. apply (cmp_agree_below _ _ f (elements (rb_root (x2_tree w)))); assumption.
  - eapply Forall_impl; [|exact B]. intros e. apply below_mono. exact Hf.
Qed.

(* ---- begin ---- *)
Lemma xw_begin_inv : forall b w, axw_inv b w -> axw_inv b (xw_begin_a w).
Proof.
  intros b w (K & V & P & S). unfold axw_inv, xw_begin_a. cbn [xw_keys xw_values xw_pairs xw_start].
  split; [exact K|]. split; [exact V|]. split; [exact P|]. lia.
Qed.

Lemma xw_begin2_spec : forall b w f,
  x2_inv b w f ->
  x2_inv b (xw_begin2_a w) (x2_used w) /\ x2_start (xw_begin2_a w) = x2_used w /\
  x2_used (xw_begin2_a w) = x2_used w /\ x2_data (xw_begin2_a w) = x2_data w /\
  x2_owns (xw_begin2_a w) = x2_owns w /\ set_table (xw_begin2_a w) = set_table w.
Proof.
  intros b w f I. split; [|repeat split].
  apply (inv_data_change b b w (xw_begin2_a w) f (x2_used w) I);
    [reflexivity|reflexivity|apply xw_begin_inv; apply I|reflexivity|apply I|unfold x2_used, xw_begin2_a; cbn; lia].
Qed.

(* ---- helpers for end ---- *)
Lemma own_swap : forall h (a b : list N) F, owned_by h (a ++ b) F -> owned_by h (b ++ a) F.
Proof. intros h a b F O. eapply owned_by_perm; [exact O|apply Permutation_app_comm]. Qed.

Lemma ins_sorted_perm : forall cmp ks x l, Permutation (x :: l) (ins_sorted cmp ks x l).
Proof.
  intros cmp ks x l. induction l as [|y l IH]; cbn [ins_sorted]; [reflexivity|].
  destruct (cmp (key ks x) (key ks y) <? 0)%Z; [reflexivity|]. rewrite perm_swap. constructor. exact IH.
Qed.

Lemma rd32_le32 : forall x, x < 4294967296 -> rd32 (le32 x) = x.
Proof.
  intros x H. unfold rd32, le32. rewrite <- (app_nil_r (Bytes.le 4 x)). apply Bytes.rd_le. exact H.
Qed.

Lemma lenN_le32 : forall x, lenN (le32 x) = 4.
Proof. intro x. unfold lenN, le32. rewrite le_length. reflexivity. Qed.

Lemma ekey_new : forall t next k v,
  rb_key_size t = DESC_SIZE -> lenN k = DESC_SIZE -> ekey (new_elem t next k v) = k.
Proof.
  intros t next k v Ks Hk. unfold ekey, key, new_elem, e_data. cbn [snd]. rewrite <- Ks. apply mkdata_key. congruence.
Qed.

Lemma elem_idx_new : forall t next k idx,
  rb_key_size t <= rb_key_size_padded t -> lenN k = rb_key_size t -> rb_value_size t = IDX_SIZE ->
  idx < 4294967296 -> elem_idx (new_elem t next k (le32 idx)) = idx.
Proof.
  intros t next k idx Hle Hk Vs Hi. unfold elem_idx, new_elem. cbn [fst snd]. rewrite <- Vs.
  rewrite mkdata_value; [apply rd32_le32; exact Hi|exact Hle|exact Hk|rewrite Vs; apply lenN_le32].
Qed.

Lemma firstnN_firstnN_same : forall (A : Type) n (l : list A), firstnN n (firstnN n l) = firstnN n l.
Proof. intros. unfold firstnN. rewrite firstn_firstn, Nat.min_id. reflexivity. Qed.

Lemma lenN_skipnN : forall (A : Type) n (l : list A), lenN (skipnN n l) = lenN l - n.
Proof. intros. unfold lenN, skipnN. rewrite skipn_length. lia. Qed.

Lemma set_data_owns : forall p u d, aa_owns N (set_data p u d) = aa_owns N p.
Proof. reflexivity. Qed.

Lemma firstnN_all_len : forall (A : Type) n (l : list A), lenN l <= n -> firstnN n l = l.
Proof. intros A n l H. unfold firstnN, lenN in *. apply firstn_all2. lia. Qed.

Lemma axw_inv_set_data : forall b xid keys values pairs start u d,
  astr_inv b keys -> astr_inv b values -> aarr_inv N pairs -> lenN d = u -> u <= a_count (aa_core pairs) -> start <= u ->
  axw_inv b (mk_axw xid keys values (set_data pairs u d) start).
Proof.
  intros b xid keys values pairs start u d K V [[_ _] Pn] Hd Hu Hs.
  apply mk_axw_inv; [exact K|exact V| |exact Hs].
  split; [split; [exact Hd|exact Hu]|exact Pn].
Qed.

Definition end_failed (w w' : axw2) : Prop :=
  x2_tree w' = x2_tree w /\ x2_chain w' = x2_chain w /\ x2_num w' = x2_num w /\ x2_used w' = x2_used w /\
  x2_data w' = firstnN (x2_start w) (x2_data w) ++ sort_u64 (skipnN (x2_start w) (x2_data w)).

Definition end_same_rest (w w' : axw2) : Prop :=
  xw_keys (x2_w w') = xw_keys (x2_w w) /\ xw_values (x2_w w') = xw_values (x2_w w) /\
  xw_id (x2_w w') = xw_id (x2_w w) /\ x2_start w' = x2_start w /\
  firstnN (x2_start w) (x2_data w') = firstnN (x2_start w) (x2_data w) /\
  x2_used w' <= x2_used w /\ x2_num w <= x2_num w' <= x2_num w + 1.

Definition sorted_data (w : axw2) : list N :=
  firstnN (x2_start w) (x2_data w) ++ sort_u64 (skipnN (x2_start w) (x2_data w)).
Definition end_key (w : axw2) : list N := desc_key (x2_start w) (x2_used w - x2_start w).

(* how a successful end of a non-empty set came about *)
Definition end_found (w w' : axw2) (idx : N) : Prop :=
  x2_tree w' = x2_tree w /\ x2_chain w' = x2_chain w /\ x2_num w' = x2_num w /\ x2_used w' = x2_start w /\
  x2_data w' = firstnN (x2_start w) (x2_data w) /\
  exists e, In e (elems w) /\ elem_idx e = idx /\ block_cmp (sorted_data w) (end_key w) (ekey e) = 0%Z.

Definition end_new (w w' : axw2) (h : heap) (idx : N) : Prop :=
  idx = x2_num w /\ x2_num w' = x2_num w + 1 /\ x2_chain w' = x2_chain w ++ [h_next h] /\
  x2_used w' = x2_used w /\ x2_data w' = sorted_data w /\
  (forall e, In e (elems w) -> block_cmp (sorted_data w) (end_key w) (ekey e) <> 0%Z) /\
  exists ne, elems w' = ins_sorted (block_cmp (sorted_data w)) DESC_SIZE ne (elems w) /\
    ekey ne = end_key w /\ elem_idx ne = x2_num w /\ e_id ne = h_next h.

Ltac proj := cbn [x2_w x2_tree x2_chain x2_num xw_keys xw_values xw_pairs xw_start xw_id with_w with_pairs set_data
                      aa_core aa_id a_data a_used a_size a_count fst snd] in *.

Theorem xw_end_a_spec : forall b w h F,
  x2_inv b w (x2_start w) -> x2_used w < 2 ^ 64 -> x2_num w < 4294967295 ->
  owned_by h (x2_owns w) F ->
  exists w' z out h',
    xw_end_a w h = EOk w' z out h' /\
    owned_by h' (x2_owns w') F /\ h_bad h' = h_bad h /\ end_same_rest w w' /\
    ((z = 0%Z /\ x2_inv b w' (x2_used w') /\ incl (set_table w) (set_table w') /\
      exists idx, out = Some idx /\
        (x2_used w = x2_start w -> idx = NO_INDEX /\ w' = w /\ h' = h) /\
        (x2_start w < x2_used w -> exists S, In (idx, S) (set_table w') /\
             flat_map le64 S = flat_map le64 (sort_u64 (skipnN (x2_start w) (x2_data w)))) /\
        (x2_start w < x2_used w -> end_found w w' idx \/ end_new w w' h idx))
     \/
     (z = c_SQFS_ERROR_ALLOC /\ out = None /\ (exists o, h_orc h = false :: o) /\ end_failed w w' /\
      x2_inv b w' (x2_start w') /\ set_table w' = set_table w)).
Proof.
  intros b w h F I U64 Hnum O.
  destruct w as [w0 tree chain num]. destruct w0 as [xid keys values pairs start].
  pose proof (xi_w _ _ _ I) as (InvK & InvV & InvP & Hstart).
  pose proof (xi_ks _ _ _ I) as Ks. pose proof (xi_vs _ _ _ I) as Vs.
  unfold x2_start, x2_used, x2_data, x2_owns in *.
  cbn [x2_w x2_tree x2_chain x2_num xw_keys xw_values xw_pairs xw_start xw_id] in *.
  set (data := a_data (aa_core pairs)) in *. set (used := a_used (aa_core pairs)) in *.
  destruct InvP as [[Pl Pu] Pn]. fold data used in Pl, Pu.
  change (lenN data = used) in Pl.
  unfold xw_end_a. cbn [x2_w x2_tree x2_chain x2_num xw_keys xw_values xw_pairs xw_start xw_id].
  fold data used.
  destruct (used - start =? 0) eqn:Ec.
  { (* nothing since begin *)
    apply N.eqb_eq in Ec. assert (Eu : used = start) by lia.
    eexists. exists 0%Z. eexists. exists h. split; [reflexivity|]. split; [exact O|]. split; [reflexivity|].
    split; [unfold end_same_rest, x2_start, x2_used, x2_data; proj; repeat split; try reflexivity; lia|].
    left. split; [reflexivity|]. split.
    { unfold x2_used. cbn [x2_w xw_pairs]. fold used. rewrite Eu. exact I. }
    split; [apply incl_refl|]. exists NO_INDEX. split; [reflexivity|]. split; [auto|]. split; intro Hc; lia. }
  apply N.eqb_neq in Ec. assert (Hlt : start < used) by lia.
  set (cur := skipnN start data) in *.
  set (data' := firstnN start data ++ sort_u64 cur) in *.
  assert (Lpre : lenN (firstnN start data) = start) by (apply lenN_firstnN_le; lia).
  assert (Lcur : lenN (sort_u64 cur) = used - start).
  { rewrite sort_u64_length. unfold cur. rewrite lenN_skipnN. lia. }
  assert (Ldata' : lenN data' = used) by (unfold data'; rewrite lenN_app, Lpre, Lcur; lia).
  assert (Epre : firstnN start data' = firstnN start data) by (apply firstnN_app_exact; exact Lpre).
  set (w1 := mk_axw2 (mk_axw xid keys values (set_data pairs used data') start) tree chain num).
  assert (I1 : x2_inv b w1 start).
  { apply (inv_data_change b b _ w1 start start I); try reflexivity.
    - apply axw_inv_set_data; [exact InvK|exact InvV|exact (conj (conj Pl Pu) Pn)|exact Ldata'|exact Pu|lia].
    - unfold x2_data, w1. proj. fold data. symmetry. exact Epre.
    - unfold x2_used, w1. proj. lia. }
  set (cmp := block_cmp data').
  pose proof (xi_tree _ _ _ I1) as T1. unfold x2_data, w1 in T1. proj. fold cmp in T1.
  set (count := used - start) in *.
  set (dk := desc_key start count).
  assert (Hk : lenN dk = rb_key_size tree) by (rewrite Ks; apply desc_key_len).
  assert (Kst : key_start dk = start) by (apply key_start_desc; lia).
  assert (Kct : key_count dk = count) by (apply key_count_desc; unfold count; lia).
  assert (Rkey : run_of data' start count = sort_u64 cur).
  { unfold run_of, data'. rewrite (skipnN_app_exact _ _ _ _ Lpre). apply firstnN_all_len. rewrite Lcur. unfold count. lia. }
  pose proof (rbtree_lookup_spec cmp (block_cmp_antisym data') (block_cmp_trans data') tree dk T1) as Hlk.
  destruct (rbtree_lookup cmp tree dk) as [|fi fl fc fv fd fr] eqn:EL.
  2: { (* the tree has this block already *)
    destruct Hlk as [Hin Hz]. rewrite Ks in Hz.
    set (e := (fi, fv, fd) : elem) in *.
    assert (Ee : ekey e = firstnN DESC_SIZE fd) by reflexivity. rewrite <- Ee in Hz.
    set (w2 := with_w (mk_axw2 (mk_axw xid keys values pairs start) tree chain num)
                      (with_pairs (mk_axw xid keys values pairs start) (set_data pairs start (firstnN start data')))).
    assert (Bel : Forall (below start) (elements (rb_root tree))) by exact (xi_below _ _ _ I).
    assert (Ed2 : firstnN start data = firstnN start (firstnN start data')).
    { rewrite firstnN_firstnN_same. symmetry. exact Epre. }
    assert (I2 : x2_inv b w2 start).
    { apply (inv_data_change b b _ w2 start start I); try reflexivity.
      - apply axw_inv_set_data; [exact InvK|exact InvV|exact (conj (conj Pl Pu) Pn)|rewrite Epre; exact Lpre|lia|cbn; lia].
      - unfold x2_data, w2. proj. fold data. exact Ed2. }
    exists w2, 0%Z. eexists. exists h. split; [reflexivity|].
    split; [exact O|]. split; [reflexivity|].
    split.
    { unfold end_same_rest, x2_start, x2_used, x2_data, w2. proj. fold data used.
      repeat split; try reflexivity; try lia. symmetry. exact Ed2. }
    left. split; [reflexivity|]. split; [exact I2|].
    assert (Est : set_table w2 = set_table (mk_axw2 (mk_axw xid keys values pairs start) tree chain num)).
    { apply (set_table_agree _ w2 start); [reflexivity| |exact Bel]. unfold x2_data, w2. proj. fold data. exact Ed2. }
    split; [rewrite Est; apply incl_refl|].
    eexists. split; [reflexivity|]. split; [intro Hc; unfold x2_used, x2_start in Hc; proj; fold used in Hc; lia|].
    split.
    2: { intros _. left. unfold end_found, elems, x2_used, x2_start, x2_data, sorted_data, end_key, w2. proj. fold data used cur data' count dk.
         repeat split; try reflexivity; [exact Epre|]. exists e. split; [exact Hin|]. split; [|exact Hz].
         unfold elem_idx, node_value, e. proj. rewrite Vs. reflexivity. }
    intros _. destruct (block_cmp_zero _ _ _ Hz) as [Hc Hr].
    assert (Be : below start e) by (rewrite Forall_forall in Bel; apply Bel; exact Hin).
    exists (run_of (firstnN start data') (key_start (ekey e)) (key_count (ekey e))). split.
    - unfold set_table, elems, x2_data, w2. proj.
      replace (rd32 (node_value (rb_value_size tree) (Node fi fl fc fv fd fr))) with (elem_idx e)
        by (unfold elem_idx, node_value, e; cbn [fst snd]; rewrite Vs; reflexivity).
      apply (in_map (entry_of (firstnN start data')) _ e). exact Hin.
    - rewrite <- Rkey. unfold x2_data, x2_start. proj. fold data cur.
      rewrite (run_of_agree (firstnN start data') data' start _ _ (firstnN_firstnN_same _ _ _) Be).
      change (flat_map le64 (run_of data' (key_start (ekey e)) (key_count (ekey e)))) with (run_bytes data' (ekey e)).
      rewrite <- Hr. unfold run_bytes. rewrite Kst, Kct. reflexivity. }
  (* a new block: rbtree_insert *)
  assert (Hidx : num mod 4294967296 = num) by (apply N.mod_small; lia).
  rewrite Hidx.
  assert (Hv : lenN (le32 num) = rb_value_size tree) by (rewrite Vs; apply lenN_le32).
  assert (O' : owned_by h (tids (rb_root tree) ++ xw_owns (mk_axw xid keys values pairs start)) F) by (apply own_swap; exact O).
  destruct (rbtree_insert_a_spec cmp (block_cmp_antisym data') (block_cmp_trans data') tree dk (le32 num) h _ F T1 Hk Hv O')
    as (z & t' & h' & E & B & O1 & I' & _ & Hc).
  rewrite E.
  destruct Hc as [(-> & Eins & Hel)|(-> & -> & Horc)].
  2: { (* rbtree_insert failed *)
    unfold c_SQFS_ERROR_ALLOC at 1. cbn iota.
    exists w1, c_SQFS_ERROR_ALLOC, None, h'. split; [reflexivity|].
    split; [apply own_swap; exact O1|]. split; [exact B|].
    split.
    { unfold end_same_rest, x2_start, x2_used, x2_data, w1. proj. fold data used. repeat split; try reflexivity; try lia. exact Epre. }
    right. split; [reflexivity|]. split; [reflexivity|]. split; [exact Horc|].
    split; [unfold end_failed, x2_used, x2_data, x2_start, w1; proj; repeat split|].
    split; [exact I1|].
    apply (set_table_agree _ w1 start); [reflexivity| |exact (xi_below _ _ _ I)].
    unfold x2_data, w1. proj. fold data. symmetry. exact Epre. }
  cbn iota.
  destruct (rbtree_insert_inv cmp (block_cmp_antisym data') (block_cmp_trans data') tree (h_next h) dk (le32 num) T1 Hk Hv)
    as (t'' & Eins2 & _ & Ks' & Ksp' & Vs' & _).
  rewrite Eins in Eins2. injection Eins2 as Et'' _. subst t''.
  set (ne := new_elem tree (h_next h) dk (le32 num)) in *.
  assert (Hle : rb_key_size tree <= rb_key_size_padded tree) by (destruct T1 as (_ & _ & [Hle _]); exact Hle).
  assert (Ene : ekey ne = dk) by (apply ekey_new; [exact Ks|apply desc_key_len]).
  assert (Ine : elem_idx ne = num) by (apply elem_idx_new; [exact Hle|exact Hk|exact Vs|lia]).
  pose proof (rbtree_lookup_spec cmp (block_cmp_antisym data') (block_cmp_trans data') t' dk I') as Hlk2.
  rewrite Ks', Ks in Hlk2.
  destruct (rbtree_lookup cmp t' dk) as [|gi gl gc gv gd gr] eqn:EL2.
  { exfalso. apply (Hlk2 ne).
    - rewrite Hel, Ks. apply ins_sorted_In. left. reflexivity.
    - change (key DESC_SIZE ne) with (ekey ne). rewrite Ene.
      apply (cmp_refl cmp (block_cmp_antisym data')). }
  destruct Hlk2 as [Hin2 Hz2].
  assert (Egi : gi = h_next h).
  { rewrite Hel, Ks in Hin2. apply ins_sorted_In in Hin2. destruct Hin2 as [Hn|Ho].
    - unfold ne, new_elem in Hn. congruence.
    - exfalso. apply (Hlk (gi, gv, gd) Ho). rewrite Ks. exact Hz2. }
  subst gi.
  set (w3 := mk_axw2 (mk_axw xid keys values (set_data pairs used data') start) t' (chain ++ [h_next h]) (num + 1)).
  exists w3, 0%Z, (Some num), h'. split; [reflexivity|].
  split; [apply own_swap; exact O1|]. split; [exact B|].
  split.
  { unfold end_same_rest, x2_start, x2_used, x2_data, w3. proj. fold data used. repeat split; try reflexivity; try lia. exact Epre. }
  left. split; [reflexivity|].
  assert (Bel : Forall (below start) (elements (rb_root tree))) by exact (xi_below _ _ _ I).
  assert (Bne : below used ne).
  { unfold below. rewrite Ene, Kst, Kct. unfold count. lia. }
  assert (Pel : Permutation (ne :: elements (rb_root tree)) (elements (rb_root t'))).
  { rewrite Hel. apply ins_sorted_perm. }
  assert (Lt0 : Forall (fun e => elem_idx e < num) (elements (rb_root tree))) by exact (xi_lt _ _ _ I).
  split.
  { constructor; unfold elems, x2_used, x2_data, w3; cbn [x2_w x2_tree x2_num xw_pairs set_data aa_core a_used a_data].
    - exact (xi_w _ _ _ I1).
    - congruence.
    - congruence.
    - exact I'.
    - eapply Permutation_Forall; [exact Pel|]. constructor; [exact Bne|].
      eapply Forall_impl; [|exact Bel]. intro e. apply below_mono. lia.
    - lia.
    - eapply Permutation_NoDup; [apply Permutation_map; exact Pel|]. cbn [map]. constructor; [|exact (xi_nodup _ _ _ I)].
      rewrite Ine. intro Hc. apply in_map_iff in Hc. destruct Hc as (e & He1 & He2).
      rewrite Forall_forall in Lt0. specialize (Lt0 e He2). lia.
    - eapply Permutation_Forall; [exact Pel|]. constructor; [lia|].
      eapply Forall_impl; [|exact Lt0]. proj. intros. lia. }
  split.
  { intros x Hx. unfold set_table, elems, x2_data in *. proj. fold data in Hx.
    apply in_map_iff in Hx. destruct Hx as (e & <- & He).
    rewrite (entry_agree_below data data' start e); [|symmetry; exact Epre|rewrite Forall_forall in Bel; apply Bel; exact He].
    apply in_map. eapply Permutation_in; [exact Pel|]. right. exact He. }
  exists num. split; [reflexivity|]. split.
  { intro Hc. unfold x2_used, x2_start in Hc. proj. fold used in Hc. lia. }
  split.
  2: { intros _. right. unfold end_new, elems, x2_used, x2_start, x2_data, sorted_data, end_key, w3. proj. fold data used cur data' count dk.
       repeat split; try reflexivity.
       - intros e He. specialize (Hlk e He). rewrite Ks in Hlk. exact Hlk.
       - exists ne. split; [rewrite Hel, Ks; reflexivity|]. split; [exact Ene|]. split; [exact Ine|reflexivity]. }
  intros _. exists (sort_u64 cur). split; [|reflexivity].
  unfold set_table, elems, x2_data, w3. proj.
  replace (num, sort_u64 cur) with (entry_of data' ne).
  - apply in_map. eapply Permutation_in; [exact Pel|]. left. reflexivity.
  - unfold entry_of. rewrite Ine, Ene, Kst, Kct, Rkey. reflexivity.
Qed.
