(* sqfs_xattr_writer_add_kv once more (XattrAllocProofs.xattr_add_kv_alloc_failstop), with what a RUN of calls
   needs on top of it: each table's entry counter grows by at most one per call (so a bound on the number of calls
   bounds the counters the hash table theorems ask about), the pairs in front of kv_start are never touched, and
   [used] grows by at most one.  Same proof, one more conjunct ([xw_more]). *)
From Coq Require Import NArith ZArith List Bool Lia Permutation.
From SqfsV Require Import Gen.Constants Util.GenUtil Util.FastRem Util.HashModel Util.HashBase Util.HashRows
     Util.HashInv Util.HashContracts Util.ArrayModel Util.ArrayProofs Util.StrModel Util.StrProofs Util.StrIndex
     Util.StrCopy
     UtilAlloc.AllocBase UtilAlloc.ArrayAlloc UtilAlloc.HashAlloc UtilAlloc.HashAllocInv UtilAlloc.HashAllocProofs
     UtilAlloc.StrAlloc UtilAlloc.StrAllocInv UtilAlloc.StrAllocProofs UtilAlloc.StrAllocCopy UtilAlloc.XattrAlloc
     UtilAlloc.XattrAllocProofs.
Import ListNotations.
Local Open Scope N_scope.

Definition entries_of (t : astr) : N := ht_entries skey N (st_ht (as_core t)).

Definition xw_more (w w' : axw) : Prop :=
  entries_of (xw_keys w') <= entries_of (xw_keys w) + 1 /\
  entries_of (xw_values w') <= entries_of (xw_values w) + 1 /\
  firstn (N.to_nat (xw_start w)) (aa_abs N (xw_pairs w')) = firstn (N.to_nat (xw_start w)) (aa_abs N (xw_pairs w)) /\
  a_used (aa_core (xw_pairs w)) <= a_used (aa_core (xw_pairs w')) <= a_used (aa_core (xw_pairs w)) + 1.

Lemma mk_more : forall x k v p st k' v' p',
  entries_of k' <= entries_of k + 1 -> entries_of v' <= entries_of v + 1 ->
  firstn (N.to_nat st) (aa_abs N p') = firstn (N.to_nat st) (aa_abs N p) ->
  a_used (aa_core p) <= a_used (aa_core p') <= a_used (aa_core p) + 1 ->
  xw_more (mk_axw x k v p st) (mk_axw x k' v' p' st).
Proof. intros. unfold xw_more. cbn. tauto. Qed.

Theorem get_index_a_total_ext : forall fx b t s h F,
  astr_inv b t -> ht_entries skey N (st_ht (as_core t)) < ht_safe_limit -> owned_by h (as_owns t) F ->
  exists b' t' z idx h',
    str_table_get_index_a fx b t s h = SOk (b', t', z, idx, h') /\
    astr_inv b' t' /\ owned_by h' (as_owns t') F /\ h_bad h' = h_bad h /\
    (forall id, id <> h_next h -> bh_get b' id = bh_get b id) /\
    prefix (strings b (as_core t)) (strings b' (as_core t')) /\
    (z = 0%Z \/ z = c_SQFS_ERROR_ALLOC) /\
    (z = 0%Z -> nth_error (strings b' (as_core t')) (N.to_nat idx) = Some s) /\
    entries_of t' <= entries_of t + 1.
Proof.
  intros fx b t s h F Inv Hlim O.
  destruct (in_dec (list_eq_dec N.eq_dec) s (strings b (as_core t))) as [Hin|Hnew].
  - apply In_nth_error in Hin. destruct Hin as [i Hi].
    exists b, t, 0%Z, (N.of_nat i), h. split; [apply get_index_a_found; [apply Inv|exact Hi]|].
    split; [exact Inv|]. split; [exact O|]. split; [reflexivity|]. split; [reflexivity|].
    split; [apply prefix_refl|]. split; [left; reflexivity|]. split; [intros _; rewrite Nat2N.id; exact Hi|lia].
  - destruct (get_index_a_new fx b t s h F Inv Hnew Hlim O) as (b' & t' & z & idx & h' & E & I' & O' & B' & Fr & Hc).
    exists b', t', z, idx, h'. split; [exact E|]. split; [exact I'|]. split; [exact O'|]. split; [exact B'|].
    split; [exact Fr|].
    destruct Hc as [(-> & -> & Habs & _ & He & _)|(-> & _ & Habs & _ & _ & _ & He & _)].
    + split; [rewrite !strings_abs, Habs, map_app; eexists; reflexivity|]. split; [left; reflexivity|].
      split; [|unfold entries_of; lia].
      intros _. rewrite strings_abs, Habs, map_app.
      rewrite <- (str_abs_len_a b (as_core t) (proj1 Inv)).
      unfold lenN. rewrite Nat2N.id. rewrite nth_error_app2 by (rewrite map_length; lia).
      rewrite map_length, Nat.sub_diag. reflexivity.
    + split; [rewrite !strings_abs, Habs; apply prefix_refl|]. split; [right; reflexivity|].
      split; [|unfold entries_of; lia].
      intro Hc. unfold c_SQFS_ERROR_ALLOC in Hc. discriminate.
Qed.

Lemma firstn_updN_below : forall (A : Type) (l : list A) n pos (x : A),
  (N.of_nat n <= pos) -> firstn n (updN l pos x) = firstn n l.
Proof.
  intros A l. induction l as [|y l IH]; intros n pos x H; [reflexivity|].
  destruct n as [|n]; [reflexivity|]. cbn [updN]. destruct (pos =? 0) eqn:E.
  - apply N.eqb_eq in E. lia.
  - cbn [firstn]. f_equal. apply IH. lia.
Qed.

Theorem xattr_add_kv_alloc_failstop_ext : forall fx b w key value h F,
  axw_inv b w -> owned_by h (xw_owns w) F ->
  ht_entries skey N (st_ht (as_core (xw_keys w))) < ht_safe_limit ->
  ht_entries skey N (st_ht (as_core (xw_values w))) < ht_safe_limit ->
  exists b' w' z h',
    xw_add_kv_a fx b w key value h = SOk (b', w', z, h') /\
    axw_inv b' w' /\ owned_by h' (xw_owns w') F /\ h_bad h' = h_bad h /\
    xw_residue b w b' w' /\ xw_more w w' /\
    (z <> 0%Z -> z = c_SQFS_ERROR_ALLOC /\ xw_pairs w' = xw_pairs w) /\
    (z = 0%Z -> exists ki vi,
        nth_error (strings b' (as_core (xw_keys w'))) (N.to_nat ki) = Some key /\
        nth_error (strings b' (as_core (xw_values w'))) (N.to_nat vi) = Some (to_base32 value) /\
        In (mk_pair ki vi) (aa_abs N (xw_pairs w'))).
Proof.
  intros fx b w key value h F (InvK & InvV & InvP & Hstart) O HlimK HlimV.
  destruct w as [xid keys values pairs start]. cbn [xw_keys xw_values xw_pairs xw_start xw_id] in *.
  unfold xw_owns in O. cbn [xw_keys xw_values xw_pairs xw_id] in O.
  unfold xw_add_kv_a. cbn [xw_keys xw_values xw_pairs xw_start xw_id with_keys with_values with_pairs].
  (* (1) the key *)
  pose proof (owned_focus _ _ _ _ _ O) as Ok.
  destruct (get_index_a_total_ext fx b keys key h _ InvK HlimK Ok)
    as (b1 & k1 & z1 & ki & h1 & E1 & InvK1 & Ok1 & B1 & Fr1 & Pre1 & Hz1 & Hidx1 & HeK).
  rewrite E1. cbn [xw_keys xw_values xw_pairs xw_start xw_id with_keys with_values with_pairs].
  pose proof (owned_unfocus _ _ _ _ _ _ _ O Ok1) as O1.
  assert (HVlive : forall id, In id (a_data (st_arr (as_core values))) -> id <> h_next h).
  { intros id Hid Hc. assert (id < h_next h); [|lia]. eapply owned_lt; [exact O|].
    apply in_or_app. right. apply in_or_app. right. apply in_or_app. left. apply data_in_owns. exact Hid. }
  destruct (astr_inv_frame b b1 values InvV (fun id Hid => Fr1 id (HVlive id Hid))) as [InvV1 AbsV1].
  assert (PreV1 : prefix (strings b (as_core values)) (strings b1 (as_core values))).
  { rewrite !strings_abs, AbsV1. apply prefix_refl. }
  destruct Hz1 as [-> | ->].
  2: { (* the key could not be recorded *)
    unfold c_SQFS_ERROR_ALLOC at 1. cbn iota.
    exists b1. eexists. exists c_SQFS_ERROR_ALLOC, h1. split; [reflexivity|].
    split; [apply mk_axw_inv; assumption|]. split; [exact O1|]. split; [exact B1|].
    split; [apply mk_residue; assumption|]. split; [apply mk_more; cbn [xw_keys xw_values xw_pairs xw_start xw_id with_keys with_values with_pairs]; [assumption || lia|assumption || lia|reflexivity|lia]|]. split; [intros _; split; reflexivity|].
    intro Hc. unfold c_SQFS_ERROR_ALLOC in Hc. discriminate. }
  specialize (Hidx1 eq_refl). cbn iota. cbn [xw_keys xw_values xw_pairs xw_start xw_id with_keys with_values with_pairs].
  (* (2) to_base32 *)
  destruct (alloc h1) as [[tmp|] h2] eqn:Ea.
  2: { destruct (owned_alloc_fail _ _ _ _ O1 Ea) as (O2 & B2).
    exists b1. eexists. exists c_SQFS_ERROR_ALLOC, h2. split; [reflexivity|].
    split; [apply mk_axw_inv; assumption|]. split; [exact O2|]. split; [congruence|].
    split; [apply mk_residue; assumption|]. split; [apply mk_more; cbn [xw_keys xw_values xw_pairs xw_start xw_id with_keys with_values with_pairs]; [assumption || lia|assumption || lia|reflexivity|lia]|]. split; [intros _; split; reflexivity|].
    intro Hc. unfold c_SQFS_ERROR_ALLOC in Hc. discriminate. }
  destruct (owned_alloc_some _ _ _ _ _ O1 Ea) as (O2 & B2 & Ntmp & _ & _).
  set (K1 := as_owns k1) in *. set (V := as_owns values) in *. set (P := aa_owns N pairs) in *.
  assert (O2' : owned_by h2 ((tmp :: [xid] ++ K1) ++ V ++ P) F).
  { replace ((tmp :: [xid] ++ K1) ++ V ++ P) with (tmp :: [xid] ++ K1 ++ V ++ P); [exact O2|].
    cbn [app]. reflexivity. }
  (* (3) the value *)
  pose proof (owned_focus _ _ _ _ _ O2') as Ov.
  destruct (get_index_a_total_ext fx b1 values (to_base32 value) h2 _ InvV1 HlimV Ov)
    as (b2 & v1 & z2 & vi & h3 & E2 & InvV2 & Ov1 & B3 & Fr2 & Pre2 & Hz2 & Hidx2 & HeV).
  rewrite E2. cbn [xw_keys xw_values xw_pairs xw_start xw_id with_keys with_values with_pairs].
  pose proof (owned_unfocus _ _ _ _ _ _ _ O2' Ov1) as O3.
  set (V1 := as_owns v1) in *.
  assert (HKlive : forall id, In id (a_data (st_arr (as_core k1))) -> id <> h_next h2).
  { intros id Hid Hc. assert (id < h_next h2); [|lia]. eapply owned_lt; [exact O2'|].
    apply in_or_app. left. right. apply in_or_app. right. apply data_in_owns. exact Hid. }
  destruct (astr_inv_frame b1 b2 k1 InvK1 (fun id Hid => Fr2 id (HKlive id Hid))) as [InvK2 AbsK2].
  assert (PreK2 : prefix (strings b (as_core keys)) (strings b2 (as_core k1))).
  { rewrite (strings_abs b2), AbsK2, <- strings_abs. exact Pre1. }
  assert (Hidx1' : nth_error (strings b2 (as_core k1)) (N.to_nat ki) = Some key).
  { rewrite (strings_abs b2), AbsK2, <- strings_abs. exact Hidx1. }
  assert (PreV2 : prefix (strings b (as_core values)) (strings b2 (as_core v1))) by (eapply prefix_trans; eauto).
  (* free(value_str) *)
  assert (O3' : owned_by h3 (tmp :: ([xid] ++ K1) ++ V1 ++ P) F) by exact O3.
  destruct (owned_free h3 tmp _ F O3' ltac:(left; reflexivity)) as [O4 B4].
  assert (Hnt : ~ In tmp (([xid] ++ K1) ++ V1 ++ P)). { destruct O3' as (_ & Hn & _). inversion Hn; assumption. }
  rewrite drop_head in O4 by exact Hnt.
  assert (O4' : owned_by (free h3 tmp) ([xid] ++ K1 ++ V1 ++ P) F) by (rewrite <- app_assoc in O4; exact O4).
  destruct Hz2 as [-> | ->].
  2: { unfold c_SQFS_ERROR_ALLOC at 1. cbn iota.
    exists b2. eexists. exists c_SQFS_ERROR_ALLOC. eexists. split; [reflexivity|].
    split; [apply mk_axw_inv; assumption|]. split; [exact O4'|]. split; [congruence|].
    split; [apply mk_residue; assumption|]. split; [apply mk_more; cbn [xw_keys xw_values xw_pairs xw_start xw_id with_keys with_values with_pairs]; [assumption || lia|assumption || lia|reflexivity|lia]|]. split; [intros _; split; reflexivity|].
    intro Hc. unfold c_SQFS_ERROR_ALLOC in Hc. discriminate. }
  specialize (Hidx2 eq_refl). cbn iota. cbn [xw_keys xw_values xw_pairs xw_start xw_id with_keys with_values with_pairs].
  (* str_table_add_ref(values) *)
  assert (Hdisj : forall id, In id (a_data (st_arr (as_core k1))) -> ~ In id (a_data (st_arr (as_core v1)))).
  { intros id H1 H2. destruct O4 as (_ & Hn & _). destruct (NoDup_app_parts _ _ Hn) as (_ & _ & Hd).
    apply (Hd id).
    - apply in_or_app. right. apply data_in_owns. exact H1.
    - apply in_or_app. left. apply data_in_owns. exact H2. }
  destruct (stra_ref_op b2 (as_core v1) vi (proj1 InvV2)) as [(b3 & Ear & IV3 & SV3 & FrV3) _].
  rewrite Ear. cbn [xw_keys xw_values xw_pairs xw_start xw_id with_keys with_values with_pairs].
  destruct (astr_inv_frame b2 b3 k1 InvK2 (fun id Hid => FrV3 id (Hdisj id Hid))) as [InvK3 AbsK3].
  assert (InvV3 : astr_inv b3 v1) by (split; [exact IV3|apply InvV2]).
  assert (PreK3 : prefix (strings b (as_core keys)) (strings b3 (as_core k1))).
  { rewrite (strings_abs b3), AbsK3, <- strings_abs. exact PreK2. }
  assert (Hidx1'' : nth_error (strings b3 (as_core k1)) (N.to_nat ki) = Some key).
  { rewrite (strings_abs b3), AbsK3, <- strings_abs. exact Hidx1'. }
  assert (PreV3 : prefix (strings b (as_core values)) (strings b3 (as_core v1))) by (rewrite SV3; exact PreV2).
  assert (Hidx2' : nth_error (strings b3 (as_core v1)) (N.to_nat vi) = Some (to_base32 value)) by (rewrite SV3; exact Hidx2).
  set (pair := mk_pair ki vi).
  set (cur := skipn (N.to_nat start) (a_data (aa_core pairs))).
  pose proof (scan_pairs_spec cur start pair ki) as Hscan.
  destruct (scan_pairs cur start pair ki) as [|pos old|].
  - (* the very pair is already in the current set *)
    exists b3. eexists. exists 0%Z. eexists. split; [reflexivity|].
    cbn [with_keys with_values with_pairs xw_keys xw_values xw_pairs xw_start xw_id].
    split; [apply mk_axw_inv; assumption|]. split; [exact O4'|]. split; [congruence|].
    split; [apply mk_residue; assumption|]. split; [apply mk_more; cbn [xw_keys xw_values xw_pairs xw_start xw_id with_keys with_values with_pairs]; [assumption || lia|assumption || lia|reflexivity|lia]|]. split; [intro Hc; congruence|].
    intros _. exists ki, vi. split; [exact Hidx1''|]. split; [exact Hidx2'|].
    unfold aa_abs. eapply skipn_In. exact Hscan.
  - (* the key has another value in the current set: replace it *)
    destruct (stra_ref_op b3 (as_core v1) old IV3) as [_ (b4 & Edr & IV4 & SV4 & FrV4)].
    rewrite Edr.
    destruct (astr_inv_frame b3 b4 k1 InvK3 (fun id Hid => FrV4 id (Hdisj id Hid))) as [InvK4 AbsK4].
    destruct InvP as [[Pl Pu] Pn].
    assert (Hpos : pos < a_used (aa_core pairs)).
    { destruct Hscan as [_ H2]. unfold cur in H2. rewrite <- Pl.
      pose proof (lenN_skipn _ (a_data (aa_core pairs)) start ltac:(rewrite Pl; exact Hstart)). lia. }
    unfold array_set_a, array_set.
    replace (a_used (aa_core pairs) <=? pos) with false by (symmetry; apply N.leb_gt; exact Hpos).
    exists b4.
    exists (mk_axw xid k1 v1
              (mk_aarr N (mk_arr N (a_size (aa_core pairs)) (a_count (aa_core pairs)) (a_used (aa_core pairs))
                                 (updN (a_data (aa_core pairs)) pos pair)) (aa_id pairs)) start).
    exists 0%Z. eexists. split; [reflexivity|].
    cbn [xw_keys xw_values xw_pairs xw_start xw_id].
    split.
    { apply mk_axw_inv; [exact InvK4|split; [exact IV4|apply InvV2]| |exact Hstart].
      split; [split; [cbn; rewrite updN_length; exact Pl|exact Pu]|exact Pn]. }
    split; [exact O4'|]. split; [congruence|].
    split.
    { apply mk_residue.
      - rewrite (strings_abs b4), AbsK4, <- strings_abs. exact PreK3.
      - rewrite SV4. exact PreV3. }
    split.
    { apply mk_more; cbn [xw_keys xw_values xw_pairs xw_start xw_id with_keys with_values with_pairs]; [exact HeK|exact HeV| |cbn [aa_core a_used]; lia].
      unfold aa_abs. cbn [aa_core a_data]. apply firstn_updN_below. rewrite N2Nat.id. destruct Hscan as [Hs1 _]. exact Hs1. }
    split; [intro Hc; congruence|].
    intros _. exists ki, vi. split; [rewrite (strings_abs b4), AbsK4, <- strings_abs; exact Hidx1''|].
    split; [rewrite SV4; exact Hidx2'|].
    unfold aa_abs. cbn [aa_core a_data]. eapply nthN_In. apply nthN_upd_same. rewrite Pl. exact Hpos.
  - (* a new pair: array_append *)
    assert (O5 : owned_by (free h3 tmp) ((([xid] ++ K1) ++ V1) ++ P ++ []) F).
    { rewrite app_nil_r, <- !app_assoc. exact O4'. }
    pose proof (owned_focus _ _ _ _ _ O5) as Op.
    destruct (array_append_a N pairs pair (free h3 tmp)) as [[z3 pairs'] h5] eqn:Eap.
    destruct (array_append_a_spec N pairs pair _ _ z3 pairs' h5 InvP Op Eap) as (Op1 & B5 & Hap).
    pose proof (owned_unfocus _ _ _ _ _ _ _ O5 Op1) as O6. rewrite app_nil_r, <- !app_assoc in O6.
    exists b3. eexists. exists z3, h5. split; [reflexivity|].
    cbn [with_keys with_values with_pairs xw_keys xw_values xw_pairs xw_start xw_id].
    destruct Hap as [(-> & InvP' & Abs' & Au' & As')|(-> & ->)].
    + split; [apply mk_axw_inv; [exact InvK3|exact InvV3|exact InvP'|cbn [xw_start with_values with_keys with_pairs]; lia]|].
      split; [exact O6|]. split; [congruence|]. split; [apply mk_residue; assumption|].
      split.
      { apply mk_more; cbn [xw_keys xw_values xw_pairs xw_start xw_id with_keys with_values with_pairs]; [exact HeK|exact HeV| |lia].
        rewrite Abs', firstn_app. destruct InvP as [[Pl0 _] _]. unfold aa_abs, lenN in *.
        replace (N.to_nat start - length (a_data (aa_core pairs)))%nat with 0%nat by lia.
        cbn [firstn]. apply app_nil_r. }
      split; [intro Hc; congruence|].
      intros _. exists ki, vi. split; [exact Hidx1''|]. split; [exact Hidx2'|].
      rewrite Abs'. apply in_or_app. right. left. reflexivity.
    + split; [apply mk_axw_inv; assumption|]. split; [exact O6|]. split; [congruence|].
      split; [apply mk_residue; assumption|]. split; [apply mk_more; cbn [xw_keys xw_values xw_pairs xw_start xw_id with_keys with_values with_pairs]; [assumption || lia|assumption || lia|reflexivity|lia]|]. split; [intros _; split; reflexivity|].
      intro Hc. unfold c_SQFS_ERROR_ALLOC in Hc. discriminate.
Qed.

