(* str_table.c with allocation failure, proofs part 1: the invariant that survives failed
   allocations, and the two ways a get_index can leave the table: one string appended, or the
   same abstract value with a (possibly re-hashed) hash table.

   [stra_inv] is Util/StrProofs.v's [str_inv] with the hash-table part weakened to [wfa] (no load
   bound, entry counter only an upper bound) plus "no tombstones"; the index <-> bucket <-> hash
   entry links and the distinctness of the strings are the same.  The abstract value is the Util
   model's [str_abs]: (string, reference count) by index. *)
From Coq Require Import NArith ZArith List Bool Lia Permutation.
From SqfsV Require Import Gen.Constants Util.GenUtil Util.FastRem Util.HashModel Util.HashBase Util.HashRows
     Util.HashInv Util.HashContracts Util.ArrayModel Util.ArrayProofs Util.StrModel Util.StrProofs Util.StrIndex
     Util.StrCopy
     UtilAlloc.AllocBase UtilAlloc.ArrayAlloc UtilAlloc.HashAlloc UtilAlloc.HashAllocInv UtilAlloc.StrAlloc.
Import ListNotations.
Local Open Scope N_scope.

(* ---- the bucket store ---- *)
Lemma cells_get_filter : forall l id x,
  cells_get (filter (fun c : N * bucket => negb (fst c =? id)) l) x = if x =? id then None else cells_get l x.
Proof.
  induction l as [|[i bk] l IH]; intros id x; cbn [filter cells_get fst].
  - destruct (x =? id); reflexivity.
  - destruct (i =? id) eqn:Ei; cbn [negb].
    + rewrite IH. apply N.eqb_eq in Ei. subst i. destruct (x =? id) eqn:Ex; [reflexivity|].
      replace (id =? x) with false; [reflexivity|]. symmetry. apply N.eqb_neq. apply N.eqb_neq in Ex. congruence.
    + cbn [cells_get]. rewrite IH. destruct (i =? x) eqn:Eix; [|reflexivity].
      apply N.eqb_eq in Eix. subst x. rewrite Ei. reflexivity.
Qed.

Lemma bh_get_del : forall b id x, bh_get (bh_del b id) x = if x =? id then None else bh_get b x.
Proof. intros. unfold bh_get, bh_del. cbn. apply cells_get_filter. Qed.

Lemma bh_get_set_del_other : forall b id bk x, x <> id -> bh_get (bh_del (bh_set b id bk) id) x = bh_get b x.
Proof.
  intros b id bk x H. rewrite bh_get_del. replace (x =? id) with false by (symmetry; apply N.eqb_neq; exact H).
  rewrite bh_get_set. replace (id =? x) with false; [reflexivity|]. symmetry. apply N.eqb_neq. congruence.
Qed.

Lemma nthN_In : forall (A : Type) (l : list A) i x, nthN l i = Some x -> In x l.
Proof. intros A l i x H. rewrite nthN_nth_error in H. eapply nth_error_In; eauto. Qed.

Lemma In_nthN : forall (A : Type) (l : list A) x, In x l -> exists i, nthN l i = Some x.
Proof.
  intros A l x H. apply In_nth_error in H. destruct H as [n Hn]. exists (N.of_nat n).
  rewrite nthN_nth_error, Nat2N.id. exact Hn.
Qed.

(* ---- the invariant ---- *)
Record stra_inv (b : bheap) (t : str_table) : Prop := mk_stra_inv {
  sa_wf : wfa skey N (st_ht t);
  sa_nodel : count_del skey N (ht_table skey N (st_ht t)) = 0;
  sa_arr : arr_inv N (st_arr t);
  sa_used : a_used (st_arr t) = st_next_index t;
  sa_card : lenN (slivel (ht_table skey N (st_ht t))) = st_next_index t;
  sa_idx : forall i bid, nthN (a_data (st_arr t)) i = Some bid ->
             exists bk, bh_get b bid = Some bk /\ b_index bk = i /\
                        In (strhash (b_string bk), (Some bid, b_string bk), bid) (slivel (ht_table skey N (st_ht t)));
  sa_ent : forall hh o s bid, In (hh, (o, s), bid) (slivel (ht_table skey N (st_ht t))) ->
             exists bk, bh_get b bid = Some bk /\ b_string bk = s /\ o = Some bid /\ hh = strhash s /\
                        nthN (a_data (st_arr t)) (b_index bk) = Some bid;
  sa_nodup : NoDup (strings b t)
}.

(* the counters are exact (what the Util invariant says; broken by the unrepaired get_index) *)
Definition stra_strict (t : str_table) : Prop :=
  ht_entries skey N (st_ht t) = lenN (slivel (ht_table skey N (st_ht t))).

Lemma In_strings_a : forall b t s,
  stra_inv b t ->
  (In s (strings b t) <-> exists o bid, In (strhash s, (o, s), bid) (slivel (ht_table skey N (st_ht t)))).
Proof.
  intros b t s I. split.
  - intro H. apply In_nth_error in H. destruct H as [i Hi].
    destruct (nth_error_strings _ _ _ _ Hi) as (bid & Hb & Hs).
    assert (Hb' : nthN (a_data (st_arr t)) (N.of_nat i) = Some bid)
      by (rewrite nthN_nth_error, Nat2N.id; exact Hb).
    destruct (sa_idx b t I _ _ Hb') as (bk & Hg & _ & Hin).
    unfold bucket_of in Hs. rewrite Hg in Hs. cbn in Hs. subst s. eauto.
  - intros (o & bid & Hin). destruct (sa_ent b t I _ _ _ _ Hin) as (bk & Hg & Hs & _ & _ & Hn).
    unfold strings, str_abs. rewrite map_map. apply in_map_iff. exists bid. split.
    + unfold bucket_of. rewrite Hg. exact Hs.
    + eapply nthN_In; eauto.
Qed.

(* ---- re-pointing / clearing a slot ---- *)
Lemma wfa_repoint : forall (t : htab skey N) a h k0 d0 k d,
  wfa skey N t -> nthN (ht_table skey N t) a = Some (SPresent h k0 d0) ->
  wfa skey N (set_slot skey N t a (SPresent h k d) (ht_entries skey N t) (ht_deleted skey N t)) /\
  count_del skey N (ht_table skey N (set_slot skey N t a (SPresent h k d) (ht_entries skey N t) (ht_deleted skey N t)))
    = count_del skey N (ht_table skey N t) /\
  exists rest,
    Permutation (slivel (ht_table skey N t)) ((h, k0, d0) :: rest) /\
    Permutation (slivel (ht_table skey N (set_slot skey N t a (SPresent h k d) (ht_entries skey N t) (ht_deleted skey N t))))
                ((h, k, d) :: rest).
Proof.
  intros t a h k0 d0 k d W Hs.
  destruct (livel_upd_replace skey N (ht_table skey N t) a h k0 d0 k d Hs) as (rest & Q1 & Q2 & Q3 & Q4).
  destruct (wa_chain skey N t W a h k0 d0 Hs) as [Hh (i & Hi & Ei & Hn)].
  assert (Hlt : a < lenN (ht_table skey N t)) by (eapply nthN_some_lt; eauto).
  split; [|split; [exact Q3|exists rest; split; [exact Q1|exact Q2]]].
  constructor; cbn.
  - destruct (wa_row skey N t W) as (r1 & A & B & (F1 & F2 & F3 & F4 & F5)). exists r1.
    split; [exact A|]. split; [exact B|]. repeat split; auto.
  - rewrite updN_length. apply (wa_len skey N t W).
  - rewrite <- Ei. apply chain_upd; auto.
    + apply (wa_chain skey N t W).
    + rewrite Ei. exact Hlt.
  - rewrite Q4. apply (wa_entries skey N t W).
  - rewrite Q3. apply (wa_deleted skey N t W).
Qed.

Lemma updN_updN : forall (A : Type) (l : list A) i x y, updN (updN l i x) i y = updN l i y.
Proof.
  induction l as [|z l IH]; intros i x y; cbn [updN]; [reflexivity|].
  destruct (i =? 0) eqn:E; cbn [updN]; rewrite E; [reflexivity|]. rewrite IH. reflexivity.
Qed.

(* the same slots under another entry counter that still bounds the present entries *)
Lemma wfa_same_table : forall (t : htab skey N) entries,
  wfa skey N t -> lenN (slivel (ht_table skey N t)) <= entries ->
  wfa skey N (set_entries skey N t entries).
Proof.
  intros t e W He. constructor; cbn; try apply W. exact He.
Qed.

(* ---- the two ways out of str_table_get_index ---- *)
Lemma bucket_of_agree : forall b b' (l : list N),
  (forall id, In id l -> bh_get b' id = bh_get b id) -> map (bucket_of b') l = map (bucket_of b) l.
Proof.
  intros b b' l H. apply map_ext_in. intros id Hid. unfold bucket_of. rewrite (H id Hid). reflexivity.
Qed.

(* failure: another hash table with the same entries, a store that agrees on the buckets *)
Lemma stra_inv_same_abs : forall b b' t ht',
  stra_inv b t -> wfa skey N ht' -> count_del skey N (ht_table skey N ht') = 0 ->
  Permutation (slivel (ht_table skey N ht')) (slivel (ht_table skey N (st_ht t))) ->
  (forall id, In id (a_data (st_arr t)) -> bh_get b' id = bh_get b id) ->
  stra_inv b' (mk_str_table (st_arr t) ht' (st_next_index t)) /\
  str_abs b' (mk_str_table (st_arr t) ht' (st_next_index t)) = str_abs b t.
Proof.
  intros b b' t ht' I W' D' P Hb.
  assert (Habs : str_abs b' (mk_str_table (st_arr t) ht' (st_next_index t)) = str_abs b t).
  { unfold str_abs. cbn [st_arr]. apply bucket_of_agree. exact Hb. }
  split; [|exact Habs]. constructor; cbn [st_ht st_arr st_next_index].
  - exact W'.
  - exact D'.
  - apply (sa_arr b t I).
  - apply (sa_used b t I).
  - unfold lenN. rewrite (Permutation_length P). apply (sa_card b t I).
  - intros i bid Hn. destruct (sa_idx b t I i bid Hn) as (bk & Hg & Hi & Hin).
    exists bk. rewrite (Hb bid (nthN_In _ _ _ _ Hn)). split; [exact Hg|]. split; [exact Hi|].
    eapply Permutation_in; [symmetry; exact P|exact Hin].
  - intros hh o s bid Hin. apply (Permutation_in _ P) in Hin.
    destruct (sa_ent b t I hh o s bid Hin) as (bk & Hg & Hs & Ho & Hh & Hn).
    exists bk. rewrite (Hb bid (nthN_In _ _ _ _ Hn)). auto.
  - unfold strings. rewrite Habs. apply (sa_nodup b t I).
Qed.

(* success: one bucket, one entry whose key points into it, one index *)
Lemma stra_inv_append : forall b t newid s ht2 arr1,
  stra_inv b t -> ~ In s (strings b t) -> ~ In newid (a_data (st_arr t)) ->
  wfa skey N ht2 -> count_del skey N (ht_table skey N ht2) = 0 ->
  Permutation (slivel (ht_table skey N ht2))
              ((strhash s, (Some newid, s), newid) :: slivel (ht_table skey N (st_ht t))) ->
  arr_inv N arr1 -> a_data arr1 = a_data (st_arr t) ++ [newid] -> a_used arr1 = a_used (st_arr t) + 1 ->
  let b' := bh_set b newid (mk_bucket (st_next_index t) 0 s) in
  let t' := mk_str_table arr1 ht2 (st_next_index t + 1) in
  stra_inv b' t' /\ str_abs b' t' = str_abs b t ++ [(s, 0)].
Proof.
  intros b t newid s ht2 arr1 I Hnew Hfresh W2 D2 P2 Ai1 Ad1 Au1 b' t'.
  set (nb := mk_bucket (st_next_index t) 0 s).
  assert (Hget1 : forall id, bh_get b' id = if newid =? id then Some nb else bh_get b id).
  { intro id. unfold b'. apply bh_get_set. }
  assert (Hold : forall id, In id (a_data (st_arr t)) -> bh_get b' id = bh_get b id).
  { intros id Hid. rewrite Hget1. replace (newid =? id) with false; [reflexivity|].
    symmetry. apply N.eqb_neq. intro; subst. contradiction. }
  destruct (sa_arr b t I) as [Hl Hu]. pose proof (sa_used b t I) as Hused.
  assert (Hlen : lenN (a_data (st_arr t)) = st_next_index t) by congruence.
  assert (Habs1 : str_abs b' t' = str_abs b t ++ [(s, 0)]).
  { unfold str_abs, t'. cbn [st_arr]. rewrite Ad1, map_app, (bucket_of_agree b b' _ Hold). cbn [map]. f_equal.
    unfold bucket_of. rewrite Hget1, N.eqb_refl. reflexivity. }
  split; [|exact Habs1]. constructor; unfold t'; cbn [st_ht st_arr st_next_index].
  - exact W2.
  - exact D2.
  - exact Ai1.
  - rewrite Au1, Hused. reflexivity.
  - unfold lenN. rewrite (Permutation_length P2). cbn [length]. pose proof (sa_card b t I) as Hc. unfold lenN in Hc. lia.
  - intros i bid Hn. rewrite Ad1 in Hn. apply nthN_app_inv in Hn. destruct Hn as [Hn|[Hi Hb]].
    + destruct (sa_idx b t I i bid Hn) as (bk & Hg & Hbi & Hin).
      exists bk. rewrite (Hold bid (nthN_In _ _ _ _ Hn)). split; [exact Hg|]. split; [exact Hbi|].
      eapply Permutation_in; [symmetry; exact P2|right; exact Hin].
    + subst bid. exists nb. rewrite Hget1, N.eqb_refl.
      split; [reflexivity|]. split; [cbn; congruence|].
      eapply Permutation_in; [symmetry; exact P2|left; reflexivity].
  - intros hh o s' bid Hin. apply (Permutation_in _ P2) in Hin. destruct Hin as [Heq|Hin].
    + inversion Heq; subst. exists nb. rewrite Hget1, N.eqb_refl.
      split; [reflexivity|]. split; [reflexivity|]. split; [reflexivity|]. split; [reflexivity|].
      rewrite Ad1. cbn [b_index nb]. rewrite <- Hlen. apply nthN_app_last.
    + destruct (sa_ent b t I hh o s' bid Hin) as (bk & Hg & Hs' & Ho & Hh & Hn).
      exists bk. rewrite (Hold bid (nthN_In _ _ _ _ Hn)). split; [exact Hg|]. split; [exact Hs'|]. split; [exact Ho|].
      split; [exact Hh|]. rewrite Ad1. apply nthN_app_l. exact Hn.
  - unfold strings. fold t'. rewrite Habs1, map_app. cbn [map fst].
    apply NoDup_snoc; [apply (sa_nodup b t I)|exact Hnew].
Qed.
