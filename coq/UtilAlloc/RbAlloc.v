(* lib/util/src/rbtree.c (NO_CUSTOM_ALLOC variant: nodes come from calloc) with allocation
   failure -- executable model, definitions only.

   The tree is the Util model's [rbtree]; a node's id IS its allocation id.  Allocation sites:
     mknode      node = calloc(...)   NULL -> rbtree_insert returns SQFS_ERROR_ALLOC, tree untouched
     copy_node   out = calloc(...)    NULL -> return NULL; the caller frames unwind:
                   left copy failed   destroy_nodes_dfs(out)  (out->left = out->right = NULL: frees out)
                   right copy failed  destroy_nodes_dfs(out)  (frees out and the whole left copy)
                 rbtree_copy: memset(out, 0, sizeof *out); return SQFS_ERROR_ALLOC
     rbtree_cleanup  destroy_nodes_dfs(root): free(n), then the left, then the right subtree
   The insertion itself (descent, rotations, colour flips) and the node bytes are the Util
   model's functions.  NOT modelled: the pool allocator variant (default configuration; there
   rbtree_copy's failure path leaks out->pool -- reproduced on the C code, see props/C13/NOTES.md). *)
From Coq Require Import NArith ZArith List Bool.
From SqfsV Require Import Gen.Constants Util.GenUtil Util.RbModel UtilAlloc.AllocBase.
Import ListNotations.
Local Open Scope N_scope.

(* the nodes of a tree in the order destroy_nodes_dfs frees them *)
Fixpoint tids (t : tree) : list N :=
  match t with
  | Leaf => []
  | Node i l _ _ _ r => i :: tids l ++ tids r
  end.

(* rbtree_insert: (return value, tree, heap); None = NULL dereference in the rotations *)
Definition rbtree_insert_a (cmp : list N -> list N -> Z) (t : rbtree) (key value : list N) (h : heap)
  : option (Z * rbtree * heap) :=
  match alloc h with
  | (None, h1) => Some (c_SQFS_ERROR_ALLOC, t, h1)
  | (Some id, h1) =>
    match rbtree_insert cmp t id key value with
    | Some (t', _) => Some (0%Z, t', h1)
    | None => None
    end
  end.

(* copy_node: outer None = the memcpy leaves the node (see RbModel.copy_data),
   inner None = NULL (an allocation failed; everything this call allocated is freed again) *)
Fixpoint copy_node_a (alloc_len copy_len : N) (n : tree) (h : heap) : option (option tree * heap) :=
  match n with
  | Leaf => Some (Some Leaf, h)
  | Node _ l c v d r =>
    match alloc h with
    | (None, h1) => Some (None, h1)
    | (Some id, h1) =>
      match copy_data alloc_len copy_len d with
      | None => None
      | Some d' =>
        match copy_node_a alloc_len copy_len l h1 with
        | None => None
        | Some (None, h2) => Some (None, free h2 id)
        | Some (Some l', h2) =>
          match copy_node_a alloc_len copy_len r h2 with
          | None => None
          | Some (None, h3) => Some (None, free_all (free h3 id) (tids l'))
          | Some (Some r', h3) => Some (Some (Node id l' c v d' r'), h3)
          end
        end
      end
    end
  end.

Definition rb_zero : rbtree := mk_rbtree Leaf 0 0 0.

(* rbtree_copy(tree, out): (return value, *out, heap) *)
Definition rbtree_copy_a (t : rbtree) (h : heap) : option (Z * rbtree * heap) :=
  let len := util_sizeof_rbnode + rb_key_size_padded t + rb_value_size t in
  match copy_node_a len len (rb_root t) h with
  | None => None
  | Some (None, h') => Some (c_SQFS_ERROR_ALLOC, rb_zero, h')
  | Some (Some r, h') => Some (0%Z, set_root t r, h')
  end.

(* rbtree_cleanup *)
Definition rbtree_cleanup_a (t : rbtree) (h : heap) : rbtree * heap :=
  (rb_zero, free_all h (tids (rb_root t))).
