(* lib/util/src/str_table.c with allocation failure -- executable model, definitions only.

   State = the Util model's [str_table] (index array, hash table, next_index) plus the allocation
   ids of bucket_ptrs.data, of the struct hash_table and of its slot array.  A bucket's address is
   its allocation id; the bucket CONTENTS live in the Util model's [bheap] used as a store keyed
   by allocation id ([bh_set] when alloc_flex succeeded, [bh_del] at free: a freed bucket is gone,
   so that reading through a dangling pointer is [SCrash]).

   Allocation sites and failure paths, as in the C code:
     str_table_init       array_init(.., 0): no allocation;  hash_table_create: NULL ->
                          array_cleanup, memset(table, 0), SQFS_ERROR_ALLOC
     str_table_get_index  (1) new = alloc_flex(...)           NULL -> SQFS_ERROR_ALLOC
                          (2) hash_table_insert_pre_hashed    NULL -> free(new), SQFS_ERROR_ALLOC
                              (its rehash calloc may fail WITHOUT making the insert fail)
                          (3) array_append (realloc)          != 0 -> free(new); ent->key = NULL;
                              ent->data = NULL; SQFS_ERROR_ALLOC        -- ht->entries stays incremented
     str_table_copy       array_init_copy (malloc), hash_table_clone (malloc, calloc), then one
                          alloc_flex per entry of the CLONED table, whose entries still point at
                          the buckets of src until they are re-pointed one by one;
                          NULL in the loop -> str_table_cleanup(dst)   -- frees every entry's data,
                          i.e. also the buckets of src that have not been copied yet
     str_table_cleanup    free(ent->data) for every entry, hash_table_destroy, array_cleanup

   [fixed] selects the repaired code of props/C13/fixes (C13N13: the failed get_index takes its
   count back; C13N14: a failed copy frees only the buckets it allocated); [false] is the code as
   it is.  The theorems of StrAllocProofs.v are about [fixed = true] where the two differ, the
   refutations about [fixed = false]. *)
From Coq Require Import NArith ZArith List Bool.
From SqfsV Require Import Gen.Constants Util.GenUtil Util.FastRem Util.HashModel Util.ArrayModel Util.StrModel
     UtilAlloc.AllocBase UtilAlloc.ArrayAlloc UtilAlloc.HashAlloc.
Import ListNotations.
Local Open Scope N_scope.

Record astr : Type := mk_astr {
  as_core : str_table;
  as_aid : option N;        (* bucket_ptrs.data *)
  as_sid : N;               (* ht *)
  as_tid : N                (* ht->table *)
}.

Definition as_arr (t : astr) : aarr N := mk_aarr N (st_arr (as_core t)) (as_aid t).
Definition as_ht (t : astr) : ahtab skey N := mk_ahtab skey N (st_ht (as_core t)) (as_sid t) (as_tid t).

(* everything the table owns: the index array, the hash table, the buckets *)
Definition as_owns (t : astr) : list N :=
  aa_owns N (as_arr t) ++ ah_owns skey N (as_ht t) ++ a_data (st_arr (as_core t)).

Definition bh_del (b : bheap) (id : N) : bheap :=
  mk_bheap (bh_next b) (filter (fun c => negb (fst c =? id)) (bh_cells b)).

Fixpoint bh_del_all (b : bheap) (l : list N) : bheap :=
  match l with [] => b | id :: r => bh_del_all (bh_del b id) r end.

(* str_table_init: (return value, table (None: zeroed), heap) *)
Definition str_table_init_a (h : heap) : Z * option astr * heap :=
  match array_init_a N util_sizeof_ptr 0 h with
  | (0%Z, a, h1) =>
    match ht_create_a skey N h1 with
    | (Some ht, h2) =>
      (0%Z, Some (mk_astr (mk_str_table (aa_core a) (ah_core ht) 0) (aa_id a) (ah_sid ht) (ah_tid ht)), h2)
    | (None, h2) => (c_SQFS_ERROR_ALLOC, None, snd (array_cleanup_a N a h2))
    end
  | (_, _, h1) => (c_SQFS_ERROR_ALLOC, None, h1)
  end.

Section FIX.
Variable fixed : bool.

(* str_table_get_index: (store, table, return value, *idx, heap) *)
Definition str_table_get_index_a (b : bheap) (t : astr) (str : list N) (h : heap)
  : sres (bheap * astr * Z * N * heap) :=
  let c := as_core t in
  let hash := strhash str in
  match ht_search skey N str_keq (st_ht c) hash (None, str) with
  | Crash => SCrash
  | OutOfFuel => SOutOfFuel
  | Ok (Some a) =>
    match ht_entry skey N (st_ht c) a with
    | Some (_, _, bid) =>
      match bh_get b bid with
      | Some bk => SOk (b, t, 0%Z, b_index bk, h)
      | None => SCrash
      end
    | None => SCrash
    end
  | Ok None =>
    match alloc h with
    | (None, h1) => SOk (b, t, c_SQFS_ERROR_ALLOC, 0, h1)
    | (Some newid, h1) =>
      let b1 := bh_set b newid (mk_bucket (st_next_index c) 0 str) in
      match ht_insert_a skey N str_keq (as_ht t) hash (None, str) newid h1 with
      | Crash => SCrash
      | OutOfFuel => SOutOfFuel
      | Ok (ht1, None, h2) =>
        (* free(new); return SQFS_ERROR_ALLOC; *)
        SOk (bh_del b1 newid,
             mk_astr (mk_str_table (st_arr c) (ah_core ht1) (st_next_index c)) (as_aid t) (ah_sid ht1) (ah_tid ht1),
             c_SQFS_ERROR_ALLOC, 0, free h2 newid)
      | Ok (ht1, Some a, h2) =>
        (* ent->key = new->string; *)
        let ht2 := set_slot skey N (ah_core ht1) a (@SPresent skey N hash (Some newid, str) newid)
                            (ht_entries skey N (ah_core ht1)) (ht_deleted skey N (ah_core ht1)) in
        match array_append_a N (as_arr t) newid h2 with
        | (0%Z, arr1, h3) =>
          SOk (b1, mk_astr (mk_str_table (aa_core arr1) ht2 (st_next_index c + 1)) (aa_id arr1) (ah_sid ht1) (ah_tid ht1),
               0%Z, st_next_index c, h3)
        | (_, _, h3) =>
          (* free(new); ent->key = NULL; ent->data = NULL;  [fixed: table->ht->entries -= 1;] *)
          let ht3 := set_slot skey N ht2 a SFree
                              (if fixed then ht_entries skey N ht2 - 1 else ht_entries skey N ht2)
                              (ht_deleted skey N ht2) in
          SOk (bh_del b1 newid,
               mk_astr (mk_str_table (st_arr c) ht3 (st_next_index c)) (as_aid t) (ah_sid ht1) (ah_tid ht1),
               c_SQFS_ERROR_ALLOC, 0, free h3 newid)
        end
      end
    end
  end.

(* the data pointers of the present entries, in table order (hash_table_foreach) *)
Definition entry_data (ht : htab skey N) : list N := map (fun e => snd (snd e)) (ht_foreach skey N ht).

(* str_table_cleanup: (store, heap) *)
Definition str_table_cleanup_a (b : bheap) (t : astr) (h : heap) : bheap * heap :=
  let bids := entry_data (st_ht (as_core t)) in
  (bh_del_all b bids, free_opt (ht_destroy_a skey N (as_ht t) (free_all h bids)) (as_aid t)).

(* the loop of str_table_copy *)
Inductive cres : Type :=
| CDone (b : bheap) (ht : htab skey N) (arrd : list N) (h : heap)
| CFail (b : bheap) (ht : htab skey N) (done : list N) (h : heap)   (* alloc_flex returned NULL *)
| CCrash.

Fixpoint copy_entries_a (todo : list (N * (N * skey * N))) (b : bheap) (ht : htab skey N)
         (arrd : list N) (done : list N) (h : heap) : cres :=
  match todo with
  | [] => CDone b ht arrd h
  | (a, (hash, key, bid)) :: rest =>
    match bh_get b bid with            (* strlen(ent->key): ent->key points into the bucket ent->data *)
    | None => CCrash
    | Some old =>
      match alloc h with
      | (None, h1) => CFail b ht done h1
      | (Some newid, h1) =>
        let nb := mk_bucket (b_index old) (b_refcount old) (firstn (length (snd key)) (b_string old)) in
        let b1 := bh_set b newid nb in
        let ht1 := set_slot skey N ht a (@SPresent skey N hash (Some newid, b_string nb) newid)
                            (ht_entries skey N ht) (ht_deleted skey N ht) in
        if lenN_le arrd (b_index nb) then CCrash
        else copy_entries_a rest b1 ht1 (updN arrd (b_index nb) newid) (newid :: done) h1
      end
    end
  end.

(* str_table_copy(dst, src): (store, dst afterwards (None: zeroed / unusable), return value, heap) *)
Definition str_table_copy_a (b : bheap) (dst src : astr) (h : heap) : sres (bheap * option astr * Z * heap) :=
  match array_init_copy_a N (as_arr src) h with
  | (0%Z, arr1, h1) =>
    match ht_clone_a skey N (as_ht src) h1 with
    | (None, h2) => SOk (b, None, c_SQFS_ERROR_ALLOC, snd (array_cleanup_a N arr1 h2))
    | (Some ht1, h2) =>
      match copy_entries_a (ht_foreach skey N (ah_core ht1)) b (ah_core ht1) (a_data (aa_core arr1)) [] h2 with
      | CCrash => SCrash
      | CDone b' ht2 d h3 =>
        SOk (b', Some (mk_astr (mk_str_table (mk_arr N (a_size (aa_core arr1)) (a_count (aa_core arr1))
                                                      (a_used (aa_core arr1)) d)
                                             ht2 (st_next_index (as_core dst)))
                               (aa_id arr1) (ah_sid ht1) (ah_tid ht1)), 0%Z, h3)
      | CFail b' ht2 done h3 =>
        (* [fixed]: free the buckets allocated so far; the code as it is: str_table_cleanup(dst) *)
        let bids := if fixed then done else entry_data ht2 in
        SOk (bh_del_all b' bids, None, c_SQFS_ERROR_ALLOC,
             free_opt (ht_destroy_a skey N ht1 (free_all h3 bids)) (aa_id arr1))
      end
    end
  | (e, _, h1) => SOk (b, None, e, h1)
  end.

End FIX.

(* the lookups by index and the reference counts do not allocate: the Util model's functions on
   the core (Util/StrModel.v: str_table_get_string, add_ref, del_ref, get_ref_count) *)
Definition str_table_get_string_a (b : bheap) (t : astr) (i : N) : sres (option (list N)) :=
  str_table_get_string b (as_core t) i.
