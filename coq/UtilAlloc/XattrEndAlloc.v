(* The rest of the xattr writer's recording path, with allocation failure -- executable model,
   definitions only.

   lib/sqfs/src/xattr/xattr_writer.c         sqfs_xattr_writer_create (rbtree_init, fail_tree),
                                             xattr_writer_destroy (rbtree_cleanup first), block_compare
   lib/sqfs/src/xattr/xattr_writer_record.c  sqfs_xattr_writer_end, compare_u64, the two checks
                                             sqfs_xattr_writer_add_kv makes before it allocates anything

   State = XattrAlloc's [axw] (struct, key table, value table, kv_pairs, kv_start) plus
     x2_tree   kv_block_tree: the Util model's rbtree whose nodes are allocation ids (RbAlloc.v; the
               NO_CUSTOM_ALLOC variant: one calloc per node).  A key is the 40 bytes of a
               kv_block_desc_t { next; start; count; start_ref; size_bytes }, a value the sqfs_u32 index.
     x2_chain  kv_block_first .. kv_block_last: the list threaded through the [next] fields of the
               keys INSIDE the tree nodes, as the list of the node ids in creation order.  (The bytes of
               [next] -- a pointer --, and of start_ref / size_bytes, which sqfs_xattr_writer_flush
               assigns later, stay zero in the model's node bytes: block_compare reads start and count only.)
     x2_num    num_blocks

   sqfs_xattr_writer_end, statement by statement:
     blk.start = kv_start; blk.count = used - kv_start        count = 0 -> *out = 0xFFFFFFFF, return 0
     array_sort_range(&kv_pairs, start, count, compare_u64)   qsort of sqfs_u64 in place: the sorted
                                                              permutation is unique, [sort_u64]
     n = rbtree_lookup(&kv_block_tree, &blk)                  Util model's lookup under [block_cmp] of the
                                                              array AS IT IS NOW (key_context = xwr)
     n != NULL: index = *value; kv_pairs.used = kv_start      the pairs of the duplicate are dropped
     n == NULL: index = num_blocks (sqfs_u32 = size_t: mod 2^32)
                ret = rbtree_insert(...)                      RbAlloc.rbtree_insert_a: THE allocation of end;
                if (ret != 0) return ret                      nothing assigned yet besides the sort
                num_blocks += 1; n = rbtree_lookup(...)       n == NULL here would be rbtree_node_key(NULL): Crash
                append rbtree_node_key(n) to the list
     *out = index
   sqfs_xattr_writer_end has no SQFS_ERROR_OVERFLOW return (the two of the recording path are in add_kv:
   the key length check, modelled here in [xw_add_kv_chk_a] together with the prefix check, and
   key_index / value_index > 0xFFFFFFFF, unreachable below 2^32 strings and not modelled).

   block_compare: memcmp over the sqfs_u64 pairs in memory = over their little-endian bytes (the models of
   this development describe a little-endian host; the tie compares the tree SHAPE, which is a function of
   every comparison made).

   The flush's allocation sites are in XattrFlushAlloc.v. *)
From Coq Require Import NArith ZArith List Bool.
From SqfsV Require Import Base.Bytes Gen.Constants Util.GenUtil Util.HashModel Util.ArrayModel Util.StrModel Util.RbModel
     UtilAlloc.AllocBase UtilAlloc.ArrayAlloc UtilAlloc.HashAlloc UtilAlloc.StrAlloc UtilAlloc.RbAlloc UtilAlloc.XattrAlloc.
From SqfsV Require C01.XattrModel.
Import ListNotations.
Local Open Scope N_scope.

Record axw2 : Type := mk_axw2 {
  x2_w : axw;
  x2_tree : rbtree;
  x2_chain : list N;
  x2_num : N
}.

Definition x2_owns (w : axw2) : list N := xw_owns (x2_w w) ++ tids (rb_root (x2_tree w)).

(* sizeof(kv_block_desc_t), sizeof(sqfs_u32): the harness prints the tree's key_size / key_size_padded /
   value_size next to the model's *)
Definition DESC_SIZE : N := 40.
Definition IDX_SIZE : N := 4.
Definition NO_INDEX : N := 4294967295.

(* the bytes of a kv_block_desc_t after memset(&blk, 0, sizeof(blk)); blk.start = ..; blk.count = .. *)
Definition desc_key (start count : N) : list N := le64 0 ++ le64 start ++ le64 count ++ le64 0 ++ le64 0.
Definition key_start (k : list N) : N := rd64 (skipn 8 k).
Definition key_count (k : list N) : N := rd64 (skipn 16 k).

(* the count pairs at kv_pairs.data + start *)
Definition run_of (data : list N) (start count : N) : list N := firstnN count (skipnN start data).
Definition run_bytes (data : list N) (k : list N) : list N := flat_map le64 (run_of data (key_start k) (key_count k)).

(* xattr_writer.c block_compare with context = the writer whose pair array holds [data] *)
Definition block_cmp (data : list N) (l r : list N) : Z :=
  if negb (key_count l =? key_count r) then (if key_count l <? key_count r then (-1)%Z else 1%Z)
  else if key_start l =? key_start r then 0%Z
  else cmp_bytes (run_bytes data l) (run_bytes data r).

(* qsort(.., compare_u64) *)
Fixpoint ins_u64 (p : N) (l : list N) : list N :=
  match l with
  | [] => [p]
  | x :: r => if p <=? x then p :: l else x :: ins_u64 p r
  end.
Fixpoint sort_u64 (l : list N) : list N :=
  match l with [] => [] | x :: r => ins_u64 x (sort_u64 r) end.

Definition set_data (p : aarr N) (used : N) (data : list N) : aarr N :=
  mk_aarr N (mk_arr N (a_size (aa_core p)) (a_count (aa_core p)) used data) (aa_id p).

Definition with_w (w : axw2) (w0 : axw) : axw2 := mk_axw2 w0 (x2_tree w) (x2_chain w) (x2_num w).

(* ---- sqfs_xattr_writer_create / xattr_writer_destroy with the tree ---- *)
Definition xw_create2_a (h : heap) : option axw2 * heap :=
  match xw_create_a h with
  | (None, h1) => (None, h1)
  | (Some w, h1) =>
    match rbtree_init DESC_SIZE IDX_SIZE with
    | (0%Z, t) => (Some (mk_axw2 w t [] 0), h1)
    | (_, _) => (None, snd (xw_destroy_a (mk_bheap 0 []) w h1))             (* fail_tree *)
    end
  end.

Definition xw_destroy2_a (b : bheap) (w : axw2) (h : heap) : bheap * heap :=
  let '(_, h1) := rbtree_cleanup_a (x2_tree w) h in
  xw_destroy_a b (x2_w w) h1.

Definition xw_begin2_a (w : axw2) : axw2 := with_w w (xw_begin_a (x2_w w)).

(* ---- sqfs_xattr_writer_end ---- *)
Inductive eres : Type :=
| EOk (w : axw2) (ret : Z) (out : option N) (h : heap)      (* out = None: *out not assigned *)
| ECrash.

Definition xw_end_a (w : axw2) (h : heap) : eres :=
  let w0 := x2_w w in
  let pairs := xw_pairs w0 in
  let used := a_used (aa_core pairs) in
  let start := xw_start w0 in
  let count := used - start in
  if count =? 0 then EOk w 0%Z (Some NO_INDEX) h else
  let data' := firstnN start (a_data (aa_core pairs)) ++ sort_u64 (skipnN start (a_data (aa_core pairs))) in
  let w1 := with_pairs w0 (set_data pairs used data') in
  let key := desc_key start count in
  let cmp := block_cmp data' in
  match rbtree_lookup cmp (x2_tree w) key with
  | Node _ _ _ _ _ _ as n =>
    let index := rd32 (node_value (rb_value_size (x2_tree w)) n) in
    EOk (with_w w (with_pairs w0 (set_data pairs start (firstnN start data')))) 0%Z (Some index) h
  | Leaf =>
    let index := x2_num w mod 4294967296 in
    match rbtree_insert_a cmp (x2_tree w) key (le32 index) h with
    | None => ECrash
    | Some (z, t', h') =>
      match z with
      | 0%Z =>
        match rbtree_lookup cmp t' key with
        | Leaf => ECrash
        | Node id _ _ _ _ _ => EOk (mk_axw2 w1 t' (x2_chain w ++ [id]) (x2_num w + 1)) 0%Z (Some index) h'
        end
      | _ => EOk (mk_axw2 w1 (x2_tree w) (x2_chain w) (x2_num w)) z None h'
      end
    end
  end.

(* ---- sqfs_xattr_writer_add_kv with the two checks it makes before the first allocation ---- *)
Section FIX.
Variable fixed : bool.

Definition xw_add_kv_chk_a (b : bheap) (w : axw) (key value : list N) (h : heap) : sres (bheap * axw * Z * heap) :=
  match C01.XattrModel.prefix_of key with
  | None => SOk (b, w, c_SQFS_ERROR_UNSUPPORTED, h)
  | Some (_, suffix) =>
    if C01.XattrModel.KEY_MAX <? lenN suffix then SOk (b, w, c_SQFS_ERROR_OVERFLOW, h)
    else xw_add_kv_a fixed b w key value h
  end.

(* ---- a session: any sequence of calls on one writer ---- *)
Inductive xop : Type := OBegin | OAdd (key value : list N) | OEnd.

(* what a call answered: begin -> 0; add -> its return value; end -> return value and *out *)
Inductive xans : Type := ABegin | AAdd (ret : Z) | AEnd (ret : Z) (out : option N).

Record xsess : Type := mk_xsess {
  xs_b : bheap;
  xs_w : axw2;
  xs_open : bool;          (* begin was called and no end has succeeded since *)
  xs_h : heap
}.

Inductive sess_res : Type :=
| SessOk (s : xsess) (log : list xans)
| SessMisuse       (* add_kv / end without a begin since the last successful end: not a use the API defines *)
| SessCrash
| SessFuel.

Definition xw_step_a (s : xsess) (op : xop) : sess_res :=
  match op with
  | OBegin => SessOk (mk_xsess (xs_b s) (xw_begin2_a (xs_w s)) true (xs_h s)) [ABegin]
  | OAdd k v =>
    if xs_open s then
      match xw_add_kv_chk_a (xs_b s) (x2_w (xs_w s)) k v (xs_h s) with
      | SOk (b', w', z, h') => SessOk (mk_xsess b' (with_w (xs_w s) w') true h') [AAdd z]
      | SCrash => SessCrash
      | SOutOfFuel => SessFuel
      end
    else SessMisuse
  | OEnd =>
    if xs_open s then
      match xw_end_a (xs_w s) (xs_h s) with
      | EOk w' z out h' =>
        SessOk (mk_xsess (xs_b s) w' (match z with 0%Z => false | _ => true end) h') [AEnd z out]
      | ECrash => SessCrash
      end
    else SessMisuse
  end.

Fixpoint xw_run_a (s : xsess) (ops : list xop) : sess_res :=
  match ops with
  | [] => SessOk s []
  | op :: r =>
    match xw_step_a s op with
    | SessOk s1 l1 =>
      match xw_run_a s1 r with
      | SessOk s2 l2 => SessOk s2 (l1 ++ l2)
      | e => e
      end
    | e => e
    end
  end.

End FIX.

(* ---- the abstract value of the block tree: per node, in order, (index, the pairs of the block) ---- *)
Definition elem_idx (e : N * N * list N) : N := rd32 (firstnN IDX_SIZE (skipnN (snd (fst e)) (snd e))).
Definition elem_run (data : list N) (e : N * N * list N) : list N :=
  run_of data (key_start (snd e)) (key_count (snd e)).

(* the pair array of a writer *)
Definition x2_data (w : axw2) : list N := a_data (aa_core (xw_pairs (x2_w w))).
Definition x2_used (w : axw2) : N := a_used (aa_core (xw_pairs (x2_w w))).
Definition x2_start (w : axw2) : N := xw_start (x2_w w).
