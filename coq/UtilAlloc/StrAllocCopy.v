(* str_table.c with allocation failure, proofs part 3: lookups by index under the weak invariant,
   str_table_cleanup, and str_table_copy's failure paths.

   str_table_copy AS IT IS ([fixed = false]) releases the buckets of the SOURCE when an
   alloc_flex of its bucket loop fails ([str_table_copy_frees_source_refuted], computed);
   the repaired loop ([fixed = true], props/C13/fixes/C13N14) is fail-stop: SQFS_ERROR_ALLOC,
   every block the call allocated is freed exactly once, the source owns what it owned and
   every bucket it can reach has its old contents ([str_table_copy_a_failstop]).  The success
   path is characterised only as far as the allocations go (the copy's functional correctness
   without allocation failure is C19's str_table_copy_equiv_thm). *)
From Coq Require Import NArith ZArith List Bool Lia Permutation.
From SqfsV Require Import Gen.Constants Util.GenUtil Util.FastRem Util.HashModel Util.HashBase Util.HashRows
     Util.HashInv Util.HashContracts Util.ArrayModel Util.ArrayProofs Util.StrModel Util.StrProofs Util.StrIndex
     Util.StrCopy
     UtilAlloc.AllocBase UtilAlloc.ArrayAlloc UtilAlloc.HashAlloc UtilAlloc.HashAllocInv UtilAlloc.HashAllocProofs
     UtilAlloc.StrAlloc UtilAlloc.StrAllocInv UtilAlloc.StrAllocProofs.
Import ListNotations.
Local Open Scope N_scope.

(* ---- lookups by index (no allocation): Util's statements under the weak invariant ---- *)
Lemma bucket_by_index_a : forall b t i,
  stra_inv b t ->
  (st_next_index t <= i -> bucket_by_index b t i = SOk None) /\
  (i < st_next_index t ->
   exists bid bk, bucket_by_index b t i = SOk (Some (bid, bk)) /\
                  nthN (a_data (st_arr t)) i = Some bid /\ bh_get b bid = Some bk /\ b_index bk = i).
Proof.
  intros b t i I. unfold bucket_by_index, array_get. rewrite (sa_used b t I).
  destruct (sa_arr b t I) as [Hl Hu]. rewrite (sa_used b t I) in Hl.
  split; intro H.
  - replace (st_next_index t <=? i) with true by (symmetry; apply N.leb_le; exact H). reflexivity.
  - replace (st_next_index t <=? i) with false by (symmetry; apply N.leb_gt; exact H).
    destruct (nthN_lt _ (a_data (st_arr t)) i) as [bid Hb]; [rewrite Hl; exact H|].
    rewrite Hb. destruct (sa_idx b t I i bid Hb) as (bk & Hg & Hi & _). rewrite Hg. exists bid, bk. auto.
Qed.

Theorem str_table_get_string_a_spec : forall b t i,
  stra_inv b (as_core t) ->
  str_table_get_string_a b t i = SOk (option_map fst (nth_error (str_abs b (as_core t)) (N.to_nat i))).
Proof.
  intros b t i I. unfold str_table_get_string_a, str_table_get_string.
  destruct (bucket_by_index_a b (as_core t) i I) as [H1 H2].
  destruct (N.le_gt_cases (st_next_index (as_core t)) i) as [Hge|Hlt].
  - rewrite (H1 Hge). f_equal.
    assert (Hn : nth_error (str_abs b (as_core t)) (N.to_nat i) = None).
    { apply nth_error_None. unfold str_abs. rewrite map_length.
      destruct (sa_arr b _ I) as [Hl _]. rewrite (sa_used b _ I) in Hl. unfold lenN in Hl. lia. }
    rewrite Hn. reflexivity.
  - destruct (H2 Hlt) as (bid & bk & -> & Hn & Hg & _). f_equal.
    rewrite <- nthN_nth_error. unfold str_abs. rewrite nthN_map, Hn. cbn. unfold bucket_of. rewrite Hg. reflexivity.
Qed.

(* ---- str_table_cleanup ---- *)
Lemma bh_get_del_all : forall l b id, ~ In id l -> bh_get (bh_del_all b l) id = bh_get b id.
Proof.
  induction l as [|x l IH]; intros b id H; cbn [bh_del_all]; [reflexivity|].
  rewrite IH by (intro Hc; apply H; right; exact Hc).
  rewrite bh_get_del. replace (id =? x) with false; [reflexivity|].
  symmetry. apply N.eqb_neq. intro; subst. apply H. left. reflexivity.
Qed.

Lemma owned_release_table : forall (ar : aarr N) (ht : ahtab skey N) h F,
  owned_by h (aa_owns N ar ++ ah_owns skey N ht) F ->
  owned_by (free_opt (ht_destroy_a skey N ht h) (aa_id ar)) [] F /\
  h_bad (free_opt (ht_destroy_a skey N ht h) (aa_id ar)) = h_bad h.
Proof.
  intros ar ht h F O.
  assert (O' : owned_by h (aa_owns N ar ++ ah_owns skey N ht ++ []) F) by (rewrite app_nil_r; exact O).
  pose proof (owned_focus _ _ _ _ _ O') as Oh.
  destruct (ht_destroy_a_spec skey N ht h _ Oh) as [Oh1 B1].
  pose proof (owned_unfocus _ _ _ _ _ _ _ O' Oh1) as O2. cbn [app] in O2. rewrite app_nil_r in O2.
  destruct (array_cleanup_a_spec N ar _ F O2) as (O3 & B3 & _). unfold array_cleanup_a in O3, B3. cbn [snd] in O3, B3.
  split; [exact O3|congruence].
Qed.

Theorem str_table_cleanup_a_spec : forall b t h F,
  astr_inv b t -> owned_by h (as_owns t) F ->
  let '(b', h') := str_table_cleanup_a b t h in
  owned_by h' [] F /\ h_bad h' = h_bad h /\
  (forall id, ~ In id (a_data (st_arr (as_core t))) -> bh_get b' id = bh_get b id).
Proof.
  intros b t h F [I Hnull] O. unfold str_table_cleanup_a.
  pose proof (entry_data_perm b (as_core t) I) as P.
  set (bids := entry_data (st_ht (as_core t))) in *.
  assert (O1 : owned_by h (bids ++ aa_owns N (as_arr t) ++ ah_owns skey N (as_ht t)) F).
  { eapply owned_by_perm; [exact O|]. unfold as_owns. rewrite app_assoc.
    eapply Permutation_trans; [apply Permutation_app_comm|]. apply Permutation_app_tail. exact P. }
  destruct (owned_free_all _ _ _ _ O1) as [O2 B2].
  destruct (owned_release_table (as_arr t) (as_ht t) _ F O2) as [O3 B3].
  split; [exact O3|]. split; [cbn [as_arr aa_id] in B3; congruence|].
  intros id Hid. apply bh_get_del_all. intro Hc. apply Hid. eapply Permutation_in; [symmetry; exact P|exact Hc].
Qed.

(* ---- the bucket loop of str_table_copy: allocation bookkeeping ---- *)
Lemma lenN_le_false : forall (l : list N) i, i < lenN l -> lenN_le l i = false.
Proof.
  induction l as [|x l IH]; intros i H; [unfold lenN in H; cbn in H; lia|].
  cbn [lenN_le]. destruct (i =? 0) eqn:E; [reflexivity|]. apply N.eqb_neq in E. apply IH.
  rewrite lenN_cons in H. lia.
Qed.

(* [P]: ids outside the loop's reach (the source's blocks among them); the entries still to do
   point at buckets in [P] whose index is inside the new index array *)
Definition todo_ok (P : N -> Prop) (b : bheap) (arrd : list N) (todo : list (N * (N * skey * N))) : Prop :=
  forall e, In e todo -> exists old, bh_get b (snd (snd e)) = Some old /\ b_index old < lenN arrd /\ P (snd (snd e)).

Lemma copy_entries_a_alloc : forall todo b ht arrd done h own F (P : N -> Prop),
  owned_by h (done ++ own) F -> (forall id, P id -> F id) -> todo_ok P b arrd todo ->
  match copy_entries_a todo b ht arrd done h with
  | CDone b' ht' d' h' =>
    exists done', owned_by h' (done' ++ own) F /\ h_bad h' = h_bad h /\
                  (forall id, P id -> bh_get b' id = bh_get b id)
  | CFail b' ht' done' h' =>
    owned_by h' (done' ++ own) F /\ h_bad h' = h_bad h /\
    (forall id, P id -> bh_get b' id = bh_get b id)
  | CCrash => False
  end.
Proof.
  induction todo as [|[a [[hash key] bid]] rest IH]; intros b ht arrd done h own F P O HP T; cbn [copy_entries_a].
  - exists done. split; [exact O|]. split; reflexivity.
  - destruct (T _ (or_introl eq_refl)) as (old & Hg & Hi & Hp). cbn [snd] in Hg, Hi, Hp. rewrite Hg.
    destruct (alloc h) as [[newid|] h1] eqn:Ea.
    + destruct (owned_alloc_some _ _ _ _ _ O Ea) as (O1 & B1 & _ & Fn & _).
      cbn [b_index]. rewrite (lenN_le_false arrd (b_index old) Hi).
      set (nb := mk_bucket (b_index old) (b_refcount old) (firstn (length (snd key)) (b_string old))).
      assert (Hset : forall id, P id -> bh_get (bh_set b newid nb) id = bh_get b id).
      { intros id Hid. rewrite bh_get_set. replace (newid =? id) with false; [reflexivity|].
        symmetry. apply N.eqb_neq. intro; subst. apply Fn. apply HP. exact Hid. }
      specialize (IH (bh_set b newid nb)
                     (set_slot skey N ht a (@SPresent skey N hash (Some newid, b_string nb) newid)
                               (ht_entries skey N ht) (ht_deleted skey N ht))
                     (updN arrd (b_index old) newid) (newid :: done) h1 own F P O1 HP).
      assert (T' : todo_ok P (bh_set b newid nb) (updN arrd (b_index old) newid) rest).
      { intros e He. destruct (T e (or_intror He)) as (o' & G' & I' & L'). exists o'.
        rewrite Hset by exact L'. rewrite updN_length. auto. }
      specialize (IH T').
      destruct (copy_entries_a rest _ _ _ _ h1) as [b' ht' d' h'|b' ht' done' h'|].
      * destruct IH as (done' & O' & B' & Hag). exists done'. split; [exact O'|]. split; [congruence|].
        intros id Hid. rewrite Hag by exact Hid. apply Hset. exact Hid.
      * destruct IH as (O' & B' & Hag). split; [exact O'|]. split; [congruence|].
        intros id Hid. rewrite Hag by exact Hid. apply Hset. exact Hid.
      * exact IH.
    + destruct (owned_alloc_fail _ _ _ _ O Ea) as (O1 & B1).
      split; [exact O1|]. split; [exact B1|]. reflexivity.
Qed.

(* ---- str_table_copy, repaired: fail-stop ---- *)
Theorem str_table_copy_a_failstop : forall b dst src h F,
  astr_inv b src -> owned_by h (as_owns src) F ->
  exists b' r z h',
    str_table_copy_a true b dst src h = SOk (b', r, z, h') /\ h_bad h' = h_bad h /\
    (forall id, In id (h_live h) -> bh_get b' id = bh_get b id) /\
    ((z = 0%Z /\ exists t' new, r = Some t' /\ owned_by h' (new ++ as_owns src) F) \/
     (z <> 0%Z /\ r = None /\ owned_by h' (as_owns src) F)).
Proof.
  intros b dst src h F [I Hnull] O. unfold str_table_copy_a.
  assert (O0 : owned_by h (as_owns src ++ [] ++ []) F) by (rewrite !app_nil_r; exact O).
  pose proof (owned_focus _ _ _ _ _ O0) as Of. set (F0 := fun id => F id \/ In id (as_owns src) \/ In id []) in *.
  assert (Hback : forall h' own, owned_by h' own F0 -> owned_by h' (own ++ as_owns src) F).
  { intros h' own Ho. pose proof (owned_unfocus _ _ _ _ _ _ _ O0 Ho) as Hu. rewrite app_nil_r in Hu.
    eapply owned_by_perm; [exact Hu|]. apply Permutation_app_comm. }
  assert (Hlive0 : forall id, In id (h_live h) -> F0 id).
  { intros id Hid. destruct O as (_ & _ & _ & Hl). apply Hl in Hid. unfold F0. tauto. }
  destruct (array_init_copy_a N (as_arr src) h) as [[z0 arr1] h1] eqn:Ei.
  destruct (array_init_copy_a_spec N (as_arr src) h F0 z0 arr1 h1 (conj (sa_arr _ _ I) Hnull) Of Ei)
    as (O1 & B1 & Hc1).
  destruct Hc1 as [(-> & [Ia1 Hnull1] & Abs1 & Au1 & As1)|(Hz & -> & Hk)].
  2: { (* array_init_copy failed *)
    exists b, None, z0, h1. split; [destruct z0; [congruence|reflexivity|reflexivity]|].
    split; [exact B1|]. split; [reflexivity|]. right. split; [exact Hz|]. split; [reflexivity|].
    apply (Hback _ _ O1). }
  assert (O1' : owned_by h1 (aa_owns N arr1 ++ [] ++ []) F0) by (rewrite !app_nil_r; exact O1).
  pose proof (owned_focus _ _ _ _ _ O1') as Ofc.
  pose proof (ht_clone_a_spec skey N (as_ht src) h1 _ Ofc) as Hcl.
  destruct (ht_clone_a skey N (as_ht src) h1) as [[ht1|] h2] eqn:Ecl.
  2: { (* hash_table_clone failed: array_cleanup(&dst->bucket_ptrs) *)
    destruct Hcl as (B2 & Ocl & _).
    pose proof (owned_unfocus _ _ _ _ _ _ _ O1' Ocl) as O2. rewrite !app_nil_r in O2.
    destruct (array_cleanup_a_spec N arr1 h2 F0 O2) as (O3 & B3 & _).
    eexists. exists None. eexists. eexists. split; [reflexivity|]. split; [congruence|]. split; [reflexivity|].
    right. split; [unfold c_SQFS_ERROR_ALLOC; discriminate|]. split; [reflexivity|]. apply (Hback _ _ O3). }
  destruct Hcl as (B2 & Ocl & Ecore).
  pose proof (owned_unfocus _ _ _ _ _ _ _ O1' Ocl) as O2. rewrite app_nil_r in O2.
  assert (T : todo_ok F0 b (a_data (aa_core arr1)) (ht_foreach skey N (ah_core ht1))).
  { intros e He. rewrite Ecore in He. cbn [as_ht ah_core] in He.
    assert (Hin : In (snd e) (slivel (ht_table skey N (st_ht (as_core src))))).
    { rewrite <- (live_livel skey N (st_ht (as_core src))). unfold live. apply in_map. exact He. }
    destruct e as [a [[hh [o s]] bid]]. cbn [snd] in *.
    destruct (sa_ent b _ I hh o s bid Hin) as (bk & Hg & _ & _ & _ & Hn).
    exists bk. split; [exact Hg|]. unfold aa_abs in Abs1. cbn [as_arr aa_core] in Abs1. rewrite Abs1.
    split; [eapply nthN_some_lt; eauto|]. unfold F0. right. left. unfold as_owns.
    apply in_or_app. right. apply in_or_app. right. eapply nthN_In; eauto. }
  pose proof (copy_entries_a_alloc (ht_foreach skey N (ah_core ht1)) b (ah_core ht1) (a_data (aa_core arr1)) []
                h2 (aa_owns N arr1 ++ ah_owns skey N ht1) F0 F0 O2 (fun id H => H) T) as Hloop.
  destruct (copy_entries_a _ b (ah_core ht1) _ [] h2) as [b' ht2 d' h3|b' ht2 done' h3|].
  - destruct Hloop as (done' & O3 & B3 & Hag).
    eexists. eexists. exists 0%Z. eexists. split; [reflexivity|]. split; [congruence|].
    split; [intros id Hid; apply Hag; apply Hlive0; exact Hid|].
    left. split; [reflexivity|]. eexists. exists (done' ++ aa_owns N arr1 ++ ah_owns skey N ht1).
    split; [reflexivity|]. apply (Hback _ _ O3).
  - destruct Hloop as (O3 & B3 & Hag).
    destruct (owned_free_all _ _ _ _ O3) as [O4 B4].
    destruct (owned_release_table arr1 ht1 _ F0 O4) as [O5 B5].
    eexists. exists None. eexists. eexists. split; [reflexivity|]. split; [congruence|]. split.
    { intros id Hid. rewrite bh_get_del_all; [apply Hag; apply Hlive0; exact Hid|].
      intro Hc. destruct O3 as (_ & _ & Hd & _). apply (Hd id); [apply in_or_app; left; exact Hc|apply Hlive0; exact Hid]. }
    right. split; [unfold c_SQFS_ERROR_ALLOC; discriminate|]. split; [reflexivity|]. apply (Hback _ _ O5).
  - contradiction.
Qed.

(* the source after a failed copy: same invariant, same abstract value, same ownership *)
Corollary str_table_copy_a_source_intact : forall b dst src h F b' r z h',
  astr_inv b src -> owned_by h (as_owns src) F ->
  str_table_copy_a true b dst src h = SOk (b', r, z, h') -> z <> 0%Z ->
  astr_inv b' src /\ str_abs b' (as_core src) = str_abs b (as_core src) /\ owned_by h' (as_owns src) F /\
  h_bad h' = h_bad h.
Proof.
  intros b dst src h F b' r z h' [I Hnull] O E Hz.
  destruct (str_table_copy_a_failstop b dst src h F (conj I Hnull) O) as (b1 & r1 & z1 & h1 & E1 & B1 & Hag & Hc).
  rewrite E in E1. inversion E1; subst b1 r1 z1 h1. clear E1.
  destruct Hc as [(-> & _)|(_ & _ & O')]; [congruence|].
  assert (Hdata : forall id, In id (a_data (st_arr (as_core src))) -> bh_get b' id = bh_get b id).
  { intros id Hid. apply Hag. destruct O as (_ & _ & _ & Hl). apply Hl. left. unfold as_owns.
    apply in_or_app. right. apply in_or_app. right. exact Hid. }
  destruct (stra_inv_same_abs b b' (as_core src) (st_ht (as_core src)) I (sa_wf _ _ I) (sa_nodel _ _ I)
              (Permutation_refl _) Hdata) as [I' Habs].
  assert (Ecore : mk_str_table (st_arr (as_core src)) (st_ht (as_core src)) (st_next_index (as_core src)) = as_core src)
    by (destruct (as_core src); reflexivity).
  rewrite Ecore in I', Habs. split; [split; [exact I'|exact Hnull]|]. split; [exact Habs|]. split; [exact O'|exact B1].
Qed.
