(* C13 / allocation failure, bottom-up: the allocator the allocation-aware container models of
   coq/UtilAlloc consult.

   A heap is (next allocation id, the ids that are live, the oracle, a flag).  The ORACLE is a
   list of booleans consumed one per allocation CALL (malloc / calloc / realloc / alloc_flex /
   alloc_array): [false] = that call returns NULL; an exhausted list answers "success", so
   "the k-th allocation fails" is [repeat true k ++ [false]] and every finite pattern of
   failures is some list.  A successful call takes the id [h_next] (ids are never reused: an id
   stands for the address AND the moment of the allocation, so a dangling pointer can never be
   confused with a later allocation at the same address).  [free] of an id that is not live
   (double free, free of a pointer malloc never returned) raises the sticky flag [h_bad];
   free(NULL) is [free_opt None].  realloc is "all or nothing" as in C: on failure the old block
   stays live, on success the old id dies and a new one is born (the harness numbers a
   successfully realloc'd block anew, whether or not its address changed).

   [owned_by h own F]: the live ids are exactly the ids [own] of the object under consideration
   plus a frame [F] (everything else in the program).  A container operation is leak free and
   free of double frees iff it maps [owned_by h (owns c) F] to [owned_by h' (owns c') F] and
   leaves [h_bad] alone -- for EVERY frame, which makes the statements compose. *)
From Coq Require Import NArith List Bool Lia Permutation.
Import ListNotations.
Local Open Scope N_scope.

Record heap : Type := mk_heap {
  h_next : N;               (* the id the next successful allocation gets *)
  h_live : list N;          (* live allocations *)
  h_orc : list bool;        (* remaining oracle: head = outcome of the next allocation call *)
  h_bad : bool;             (* a free of a non-live id happened *)
  h_calls : N               (* allocation calls made so far (successful or not) *)
}.

Definition heap0 (o : list bool) : heap := mk_heap 0 [] o false 0.

Definition mem (id : N) (l : list N) : bool := existsb (N.eqb id) l.
Definition drop (id : N) (l : list N) : list N := filter (fun x => negb (x =? id)) l.

(* malloc / calloc / alloc_flex / alloc_array *)
Definition alloc (h : heap) : option N * heap :=
  match h_orc h with
  | false :: o => (None, mk_heap (h_next h) (h_live h) o (h_bad h) (h_calls h + 1))
  | o => (Some (h_next h),
          mk_heap (h_next h + 1) (h_next h :: h_live h) (tl o) (h_bad h) (h_calls h + 1))
  end.

Definition free (h : heap) (id : N) : heap :=
  if mem id (h_live h)
  then mk_heap (h_next h) (drop id (h_live h)) (h_orc h) (h_bad h) (h_calls h)
  else mk_heap (h_next h) (h_live h) (h_orc h) true (h_calls h).

Definition free_opt (h : heap) (p : option N) : heap :=
  match p with Some id => free h id | None => h end.

Fixpoint free_all (h : heap) (l : list N) : heap :=
  match l with
  | [] => h
  | id :: r => free_all (free h id) r
  end.

(* realloc(old, n) *)
Definition realloc (h : heap) (old : option N) : option N * heap :=
  match h_orc h with
  | false :: o => (None, mk_heap (h_next h) (h_live h) o (h_bad h) (h_calls h + 1))
  | _ => alloc (free_opt h old)
  end.

(* the oracle never says NULL *)
Definition all_ok (h : heap) : Prop := forall b, In b (h_orc h) -> b = true.

(* "the k-th allocation call from now on fails" (k = 0: the next one) *)
Definition fail_at (k : nat) : list bool := repeat true k ++ [false].

(* ---------------------------------------------------------------- invariants *)
Definition heap_ok (h : heap) : Prop :=
  NoDup (h_live h) /\ forall id, In id (h_live h) -> id < h_next h.

Definition owned_by (h : heap) (own : list N) (F : N -> Prop) : Prop :=
  heap_ok h /\ NoDup own /\ (forall id, In id own -> ~ F id) /\
  (forall id, In id (h_live h) <-> In id own \/ F id).

Lemma mem_In : forall id l, mem id l = true <-> In id l.
Proof.
  intros id l. unfold mem. rewrite existsb_exists. split.
  - intros (x & Hx & E). apply N.eqb_eq in E. subst. exact Hx.
  - intro H. exists id. split; [exact H|apply N.eqb_refl].
Qed.

Lemma drop_In : forall id l x, In x (drop id l) <-> In x l /\ x <> id.
Proof.
  intros id l x. unfold drop. rewrite filter_In. split.
  - intros [H1 H2]. split; [exact H1|]. apply negb_true_iff, N.eqb_neq in H2. exact H2.
  - intros [H1 H2]. split; [exact H1|]. apply negb_true_iff, N.eqb_neq. exact H2.
Qed.

Lemma drop_NoDup : forall id l, NoDup l -> NoDup (drop id l).
Proof. intros. unfold drop. apply NoDup_filter. assumption. Qed.

Lemma heap0_ok : forall o, heap_ok (heap0 o).
Proof. intro o. split; [constructor|]. cbn. contradiction. Qed.

(* ---------------------------------------------------------------- alloc *)
Lemma alloc_cases : forall h,
  (exists o, h_orc h = false :: o /\
             alloc h = (None, mk_heap (h_next h) (h_live h) o (h_bad h) (h_calls h + 1))) \/
  ((forall o, h_orc h <> false :: o) /\
   alloc h = (Some (h_next h),
              mk_heap (h_next h + 1) (h_next h :: h_live h) (tl (h_orc h)) (h_bad h) (h_calls h + 1))).
Proof.
  intro h. unfold alloc. destruct (h_orc h) as [|[|] o] eqn:E.
  - right. split; [intros o H; discriminate|reflexivity].
  - right. split; [intros o' H; discriminate|reflexivity].
  - left. exists o. split; reflexivity.
Qed.

Lemma alloc_fail : forall h h', alloc h = (None, h') ->
  h_next h' = h_next h /\ h_live h' = h_live h /\ h_bad h' = h_bad h /\
  h_orc h = false :: h_orc h' /\ h_calls h' = h_calls h + 1.
Proof.
  intros h h' H. destruct (alloc_cases h) as [(o & E & A)|[_ A]]; rewrite A in H; inversion H; subst; cbn.
  repeat split; auto.
Qed.

Lemma alloc_some : forall h id h', alloc h = (Some id, h') ->
  id = h_next h /\ h_next h' = h_next h + 1 /\ h_live h' = id :: h_live h /\ h_bad h' = h_bad h /\
  h_orc h' = tl (h_orc h) /\ h_calls h' = h_calls h + 1.
Proof.
  intros h id h' H. destruct (alloc_cases h) as [(o & E & A)|[_ A]]; rewrite A in H; inversion H; subst; cbn.
  repeat split; auto.
Qed.

Lemma alloc_all_ok : forall h, all_ok h -> exists h', alloc h = (Some (h_next h), h') /\ all_ok h'.
Proof.
  intros h A. destruct (alloc_cases h) as [(o & E & _)|[_ E]].
  - exfalso. specialize (A false). rewrite E in A. discriminate A. left. reflexivity.
  - eexists. split; [exact E|]. intros b Hb. cbn in Hb. apply A.
    destruct (h_orc h); cbn in Hb; [contradiction|right; exact Hb].
Qed.

Lemma alloc_some_ok : forall h id h', heap_ok h -> alloc h = (Some id, h') ->
  heap_ok h' /\ ~ In id (h_live h).
Proof.
  intros h id h' [Hn Hl] H. apply alloc_some in H. destruct H as (-> & E1 & E2 & _).
  assert (Hfresh : ~ In (h_next h) (h_live h)) by (intro Hc; apply Hl in Hc; lia).
  split; [|exact Hfresh]. split.
  - rewrite E2. constructor; assumption.
  - intros x Hx. rewrite E2 in Hx. rewrite E1. destruct Hx as [<-|Hx]; [lia|]. apply Hl in Hx. lia.
Qed.

Lemma alloc_fail_ok : forall h h', heap_ok h -> alloc h = (None, h') -> heap_ok h'.
Proof.
  intros h h' [Hn Hl] H. apply alloc_fail in H. destruct H as (E1 & E2 & _).
  split; [rewrite E2; exact Hn|]. intros x Hx. rewrite E2 in Hx. rewrite E1. auto.
Qed.

(* ---------------------------------------------------------------- free *)
Lemma free_live : forall h id, In id (h_live h) ->
  h_live (free h id) = drop id (h_live h) /\ h_bad (free h id) = h_bad h /\
  h_next (free h id) = h_next h /\ h_orc (free h id) = h_orc h /\ h_calls (free h id) = h_calls h.
Proof.
  intros h id H. unfold free. apply mem_In in H. rewrite H. cbn. repeat split.
Qed.

Lemma free_dead : forall h id, ~ In id (h_live h) -> h_bad (free h id) = true /\ h_live (free h id) = h_live h.
Proof.
  intros h id H. unfold free. destruct (mem id (h_live h)) eqn:E.
  - apply mem_In in E. contradiction.
  - cbn. split; reflexivity.
Qed.

Lemma free_next : forall h id, h_next (free h id) = h_next h.
Proof. intros. unfold free. destruct (mem id (h_live h)); reflexivity. Qed.

Lemma free_orc : forall h id, h_orc (free h id) = h_orc h.
Proof. intros. unfold free. destruct (mem id (h_live h)); reflexivity. Qed.

Lemma free_calls : forall h id, h_calls (free h id) = h_calls h.
Proof. intros. unfold free. destruct (mem id (h_live h)); reflexivity. Qed.

Lemma free_ok : forall h id, heap_ok h -> heap_ok (free h id).
Proof.
  intros h id [Hn Hl]. unfold free. destruct (mem id (h_live h)); split; cbn; auto.
  - apply drop_NoDup. exact Hn.
  - intros x Hx. apply drop_In in Hx. apply Hl. tauto.
Qed.

Lemma free_all_next : forall l h, h_next (free_all h l) = h_next h.
Proof. induction l as [|x l IH]; intro h; cbn; [reflexivity|]. rewrite IH. apply free_next. Qed.

Lemma free_all_orc : forall l h, h_orc (free_all h l) = h_orc h.
Proof. induction l as [|x l IH]; intro h; cbn; [reflexivity|]. rewrite IH. apply free_orc. Qed.

Lemma free_all_calls : forall l h, h_calls (free_all h l) = h_calls h.
Proof. induction l as [|x l IH]; intro h; cbn; [reflexivity|]. rewrite IH. apply free_calls. Qed.

Lemma free_all_ok : forall l h, heap_ok h -> heap_ok (free_all h l).
Proof. induction l as [|x l IH]; intros h H; cbn; [exact H|]. apply IH. apply free_ok. exact H. Qed.

(* freeing a duplicate-free list of live ids: exactly these ids die, no bad free *)
Lemma free_all_live : forall l h,
  NoDup l -> (forall id, In id l -> In id (h_live h)) ->
  h_bad (free_all h l) = h_bad h /\
  forall id, In id (h_live (free_all h l)) <-> In id (h_live h) /\ ~ In id l.
Proof.
  induction l as [|x l IH]; intros h Hn Hl; cbn [free_all].
  - split; [reflexivity|]. intro id. cbn. tauto.
  - inversion Hn as [|? ? Hx Hn']; subst.
    destruct (free_live h x (Hl x (or_introl eq_refl))) as (E1 & E2 & _).
    destruct (IH (free h x) Hn') as [B L].
    { intros id Hid. rewrite E1. apply drop_In. split; [apply Hl; right; exact Hid|]. intro; subst. contradiction. }
    split; [rewrite B; exact E2|].
    intro id. rewrite L, E1, drop_In. cbn. split.
    + intros [[H1 H2] H3]. split; [exact H1|]. intros [H|H]; [subst; congruence|contradiction].
    + intros [H1 H2]. split; [split; [exact H1|intro; subst; apply H2; left; reflexivity]|].
      intro H. apply H2. right. exact H.
Qed.

(* ---------------------------------------------------------------- ownership steps *)
Lemma owned_heap_ok : forall h own F, owned_by h own F -> heap_ok h.
Proof. intros h own F H. apply H. Qed.

(* a failed allocation changes nothing that matters *)
Lemma owned_alloc_fail : forall h h' own F,
  owned_by h own F -> alloc h = (None, h') -> owned_by h' own F /\ h_bad h' = h_bad h.
Proof.
  intros h h' own F (Hk & Hn & Hd & Hl) H. pose proof (alloc_fail_ok _ _ Hk H) as Hk'.
  apply alloc_fail in H. destruct H as (E1 & E2 & E3 & _).
  split; [|exact E3]. split; [exact Hk'|]. split; [exact Hn|]. split; [exact Hd|].
  intro id. rewrite E2. apply Hl.
Qed.

(* a successful allocation: the object owns one more id *)
Lemma owned_alloc_some : forall h id h' own F,
  owned_by h own F -> alloc h = (Some id, h') ->
  owned_by h' (id :: own) F /\ h_bad h' = h_bad h /\ ~ In id own /\ ~ F id /\ id = h_next h.
Proof.
  intros h id h' own F (Hk & Hn & Hd & Hl) H.
  destruct (alloc_some_ok _ _ _ Hk H) as [Hk' Hfresh].
  apply alloc_some in H. destruct H as (Eid & E1 & E2 & E3 & _).
  assert (Hno : ~ In id own) by (intro Hc; apply Hfresh; apply Hl; left; exact Hc).
  assert (HnF : ~ F id) by (intro Hc; apply Hfresh; apply Hl; right; exact Hc).
  split; [|auto]. split; [exact Hk'|]. split; [constructor; assumption|]. split.
  - intros x [<-|Hx]; [exact HnF|apply Hd; exact Hx].
  - intro x. rewrite E2. cbn. rewrite Hl. tauto.
Qed.

(* freeing an owned id *)
Lemma owned_free : forall h id own F,
  owned_by h own F -> In id own ->
  owned_by (free h id) (drop id own) F /\ h_bad (free h id) = h_bad h.
Proof.
  intros h id own F (Hk & Hn & Hd & Hl) Hin.
  assert (Hlive : In id (h_live h)) by (apply Hl; left; exact Hin).
  destruct (free_live h id Hlive) as (E1 & E2 & _).
  split; [|exact E2]. split; [apply free_ok; exact Hk|]. split; [apply drop_NoDup; exact Hn|]. split.
  - intros x Hx. apply drop_In in Hx. apply Hd. tauto.
  - intro x. rewrite E1, !drop_In, Hl. split.
    + intros [[H|H] Hne]; [left; tauto|right; exact H].
    + intros [[H Hne]|H]; [tauto|]. split; [right; exact H|]. intro; subst. apply (Hd id Hin H).
Qed.

(* the same set of owned ids, listed differently *)
Lemma owned_by_equiv : forall h own own' F,
  owned_by h own F -> NoDup own' -> (forall id, In id own' <-> In id own) -> owned_by h own' F.
Proof.
  intros h own own' F (Hk & Hn & Hd & Hl) Hn' E.
  split; [exact Hk|]. split; [exact Hn'|]. split.
  - intros id Hid. apply Hd. apply E. exact Hid.
  - intro id. rewrite Hl, E. tauto.
Qed.

Lemma drop_head : forall id l, ~ In id l -> drop id (id :: l) = l.
Proof.
  intros id l H. unfold drop. cbn. rewrite N.eqb_refl. cbn.
  induction l as [|x l IH]; cbn; [reflexivity|].
  destruct (x =? id) eqn:E.
  - apply N.eqb_eq in E. subst. exfalso. apply H. left. reflexivity.
  - cbn. f_equal. apply IH. intro Hc. apply H. right. exact Hc.
Qed.

Lemma drop_notin : forall id l, ~ In id l -> drop id l = l.
Proof.
  intros id l H. unfold drop. induction l as [|x l IH]; cbn; [reflexivity|].
  destruct (x =? id) eqn:E.
  - apply N.eqb_eq in E. subst. exfalso. apply H. left. reflexivity.
  - cbn. f_equal. apply IH. intro Hc. apply H. right. exact Hc.
Qed.

(* realloc of an owned block (or of NULL) *)
Lemma realloc_fail : forall h old h', realloc h old = (None, h') ->
  h_next h' = h_next h /\ h_live h' = h_live h /\ h_bad h' = h_bad h /\ h_orc h = false :: h_orc h'.
Proof.
  intros h old h' H. unfold realloc in H. destruct (h_orc h) as [|[|] o] eqn:E.
  - destruct (alloc_cases (free_opt h old)) as [(o' & E' & A)|[_ A]]; rewrite A in H; [|discriminate].
    exfalso. destruct old as [id|]; cbn in E'; [rewrite free_orc in E'|]; congruence.
  - destruct (alloc_cases (free_opt h old)) as [(o' & E' & A)|[_ A]]; rewrite A in H; [|discriminate].
    exfalso. destruct old as [id|]; cbn in E'; [rewrite free_orc in E'|]; congruence.
  - inversion H; subst. cbn. repeat split.
Qed.

Lemma owned_realloc_fail : forall h old h' own F,
  owned_by h own F -> realloc h old = (None, h') -> owned_by h' own F /\ h_bad h' = h_bad h.
Proof.
  intros h old h' own F (Hk & Hn & Hd & Hl) H. apply realloc_fail in H. destruct H as (E1 & E2 & E3 & _).
  destruct Hk as [K1 K2].
  split; [|exact E3]. split; [split; [rewrite E2; exact K1|intros x Hx; rewrite E2 in Hx; rewrite E1; auto]|].
  split; [exact Hn|]. split; [exact Hd|]. intro id. rewrite E2. apply Hl.
Qed.

Lemma realloc_some : forall h old id h', realloc h old = (Some id, h') ->
  alloc (free_opt h old) = (Some id, h').
Proof.
  intros h old id h' H. unfold realloc in H. destruct (h_orc h) as [|[|] o]; try exact H. discriminate.
Qed.

Lemma owned_realloc_some : forall h old id h' own F,
  owned_by h own F -> (forall o, old = Some o -> In o own) -> realloc h old = (Some id, h') ->
  owned_by h' (id :: match old with Some o => drop o own | None => own end) F /\
  h_bad h' = h_bad h /\ ~ In id own /\ ~ F id.
Proof.
  intros h old id h' own F O Hold H. apply realloc_some in H. destruct old as [o|]; cbn [free_opt] in H.
  - destruct (owned_free h o own F O (Hold o eq_refl)) as [O1 B1].
    destruct (owned_alloc_some _ _ _ _ _ O1 H) as (O2 & B2 & N2 & F2 & Eid).
    split; [exact O2|]. split; [congruence|]. split; [|exact F2].
    intro Hc. destruct O as ((K1 & K2) & _ & _ & Hl).
    assert (In id (h_live h)) by (apply Hl; left; exact Hc). apply K2 in H0.
    rewrite free_next in Eid. lia.
  - destruct (owned_alloc_some _ _ _ _ _ O H) as (O2 & B2 & N2 & F2 & _). auto.
Qed.

(* ---------------------------------------------------------------- more ownership steps *)
Lemma owned_by_perm : forall h own own' F,
  owned_by h own F -> Permutation own own' -> owned_by h own' F.
Proof.
  intros h own own' F O P. eapply owned_by_equiv; [exact O| |].
  - destruct O as (_ & Hn & _). eapply Permutation_NoDup; eauto.
  - intro id. split; intro H; [eapply Permutation_in; [symmetry; exact P|exact H]|eapply Permutation_in; eauto].
Qed.

Lemma NoDup_app_parts : forall (l own : list N), NoDup (l ++ own) ->
  NoDup l /\ NoDup own /\ forall id, In id l -> ~ In id own.
Proof.
  induction l as [|x l IH]; intros own H; cbn in *.
  - split; [constructor|]. split; [exact H|]. intros id [].
  - inversion H as [|? ? Hx Hn]; subst. destruct (IH own Hn) as (A & B & C).
    split; [constructor; [intro Hc; apply Hx; apply in_or_app; left; exact Hc|exact A]|].
    split; [exact B|]. intros id [<-|Hid]; [intro Hc; apply Hx; apply in_or_app; right; exact Hc|apply C; exact Hid].
Qed.

(* freeing a whole owned sub-list *)
Lemma owned_free_all : forall l h own F,
  owned_by h (l ++ own) F ->
  owned_by (free_all h l) own F /\ h_bad (free_all h l) = h_bad h.
Proof.
  intros l h own F (Hk & Hn & Hd & Hl).
  destruct (NoDup_app_parts l own Hn) as (Nl & No & Hdis).
  destruct (free_all_live l h Nl) as [B L].
  { intros id Hid. apply Hl. left. apply in_or_app. left. exact Hid. }
  split; [|exact B]. split; [apply free_all_ok; exact Hk|]. split; [exact No|]. split.
  - intros id Hid. apply Hd. apply in_or_app. right. exact Hid.
  - intro id. rewrite L, Hl. split.
    + intros [[H|H] Hn']; [apply in_app_or in H; destruct H; [contradiction|left; assumption]|right; exact H].
    + intros [H|H].
      * split; [left; apply in_or_app; right; exact H|]. intro Hc. apply (Hdis id Hc H).
      * split; [right; exact H|]. intro Hc. apply (Hd id); [apply in_or_app; left; exact Hc|exact H].
Qed.

(* whatever the oracle still holds, it holds a suffix afterwards *)
Lemma alloc_all_ok_keep : forall h r h', all_ok h -> alloc h = (r, h') -> r <> None /\ all_ok h'.
Proof.
  intros h r h' A H. destruct (alloc_all_ok h A) as (hx & E & Ax). rewrite E in H. inversion H; subst.
  split; [discriminate|exact Ax].
Qed.

Lemma free_all_ok_orc : forall h id, all_ok h -> all_ok (free h id).
Proof. intros h id A b Hb. rewrite free_orc in Hb. apply A. exact Hb. Qed.

(* ---------------------------------------------------------------- focusing on a part of what is owned *)
Lemma NoDup_app_intro : forall (a b : list N),
  NoDup a -> NoDup b -> (forall id, In id a -> ~ In id b) -> NoDup (a ++ b).
Proof.
  induction a as [|x a IH]; intros b Ha Hb Hd; cbn; [exact Hb|].
  inversion Ha as [|? ? Hx Ha']; subst. constructor.
  - intro Hc. apply in_app_or in Hc. destruct Hc as [Hc|Hc]; [contradiction|]. apply (Hd x); [left; reflexivity|exact Hc].
  - apply IH; auto. intros id Hid. apply Hd. right. exact Hid.
Qed.

(* an operation on a sub-object sees the rest of the enclosing object as part of its frame *)
Lemma owned_focus : forall h pre part post F,
  owned_by h (pre ++ part ++ post) F ->
  owned_by h part (fun id => F id \/ In id pre \/ In id post).
Proof.
  intros h pre part post F (Hk & Hn & Hd & Hl).
  destruct (NoDup_app_parts _ _ Hn) as (Npre & Nrest & D1).
  destruct (NoDup_app_parts _ _ Nrest) as (Npart & Npost & D2).
  split; [exact Hk|]. split; [exact Npart|]. split.
  - intros id Hid [Hf|[Hp|Hp]].
    + apply (Hd id); [apply in_or_app; right; apply in_or_app; left; exact Hid|exact Hf].
    + apply (D1 id Hp). apply in_or_app. left. exact Hid.
    + apply (D2 id Hid Hp).
  - intro id. rewrite Hl, !in_app_iff. tauto.
Qed.

Lemma owned_unfocus : forall h h' pre part part' post F,
  owned_by h (pre ++ part ++ post) F ->
  owned_by h' part' (fun id => F id \/ In id pre \/ In id post) ->
  owned_by h' (pre ++ part' ++ post) F.
Proof.
  intros h h' pre part part' post F (_ & Hn & Hd & _) (Hk' & Hn' & Hd' & Hl').
  destruct (NoDup_app_parts _ _ Hn) as (Npre & Nrest & D1).
  destruct (NoDup_app_parts _ _ Nrest) as (Npart & Npost & D2).
  split; [exact Hk'|]. split.
  - apply NoDup_app_intro; [exact Npre|apply NoDup_app_intro; [exact Hn'|exact Npost|]|].
    + intros id Hid Hp. apply (Hd' id Hid). right. right. exact Hp.
    + intros id Hid Hc. apply in_app_or in Hc. destruct Hc as [Hc|Hc].
      * apply (Hd' id Hc). right. left. exact Hid.
      * apply (D1 id Hid). apply in_or_app. right. exact Hc.
  - split.
    + intros id Hid Hf. apply in_app_or in Hid. destruct Hid as [Hid|Hid].
      * apply (Hd id); [apply in_or_app; left; exact Hid|exact Hf].
      * apply in_app_or in Hid. destruct Hid as [Hid|Hid].
        -- apply (Hd' id Hid). left. exact Hf.
        -- apply (Hd id); [apply in_or_app; right; apply in_or_app; right; exact Hid|exact Hf].
    + intro id. rewrite Hl', !in_app_iff. tauto.
Qed.

Lemma perm_cons_snoc3 : forall (n : N) (a b c : list N),
  Permutation (n :: a ++ b ++ c) (a ++ b ++ c ++ [n]).
Proof.
  intros n a b c. rewrite !app_assoc. rewrite <- !app_assoc.
  replace (a ++ b ++ c ++ [n]) with ((a ++ b ++ c) ++ [n]) by (rewrite <- !app_assoc; reflexivity).
  apply Permutation_cons_append.
Qed.
