(* The xattr writer's recording API as a whole, under allocation failure: create / begin / add_kv / end /
   destroy over the tree-carrying state of XattrEndAlloc.v, for every oracle and every sequence of calls.

   [xw_step_spec]   one call keeps the invariant and the ownership, frees nothing twice, and only ADDS to the
                    abstract table index -> block ([set_table]); a failing call leaves the table as it was.
   [xw_session_failstop]  any sequence begin / add_kv / end (add_kv and end only while a set is open: the run
                    function answers SessMisuse otherwise, which is outside what the API defines) over any
                    oracle: never a crash; every index a successful end handed out ([xw_handed]: the index and
                    the bytes of the sorted pairs of the set at that moment) denotes, in the final state and
                    whatever failed in between, a block holding exactly those bytes; the indices of the table
                    are pairwise different; both string tables only grew at their ends; and destroy frees
                    everything exactly once ([xw_destroy2_frees_all]). *)
From Coq Require Import NArith ZArith List Bool Lia Permutation Sorting.Sorted.
From SqfsV Require Import Base.Bytes Gen.Constants Util.GenUtil Util.HashModel Util.HashBase Util.HashRows
     Util.ArrayModel Util.ArrayProofs Util.StrModel Util.StrProofs Util.RbModel Util.RbOrder Util.RbBalance Util.RbTheorems
     UtilAlloc.AllocBase UtilAlloc.ArrayAlloc UtilAlloc.HashAlloc UtilAlloc.StrAlloc UtilAlloc.StrAllocInv UtilAlloc.StrAllocProofs
     UtilAlloc.RbAlloc UtilAlloc.RbAllocProofs UtilAlloc.XattrAlloc UtilAlloc.XattrAllocProofs UtilAlloc.XattrAddExt
     UtilAlloc.XattrEndAlloc UtilAlloc.XattrEndBase UtilAlloc.XattrEndProofs.
From SqfsV Require C01.XattrModel.
Import ListNotations.
Local Open Scope N_scope.

(* ---- destroy ---- *)
Theorem xw_destroy2_frees_all : forall b w f h F,
  x2_inv b w f -> owned_by h (x2_owns w) F ->
  owned_by (snd (xw_destroy2_a b w h)) [] F /\ h_bad (snd (xw_destroy2_a b w h)) = h_bad h.
Proof.
  intros b w f h F I O. unfold xw_destroy2_a.
  destruct (rbtree_cleanup_a_spec (x2_tree w) h (xw_owns (x2_w w)) F (own_swap _ _ _ _ O)) as (O1 & B1 & _).
  destruct (rbtree_cleanup_a (x2_tree w) h) as [t1 h1]. cbn [snd] in O1, B1.
  destruct (xattr_destroy_frees_all b (x2_w w) h1 F (xi_w _ _ _ I) O1) as [O2 B2].
  split; [exact O2|congruence].
Qed.

(* ---- create ---- *)
Lemma rb_init_desc : rbtree_init DESC_SIZE IDX_SIZE = (0%Z, mk_rbtree Leaf 40 40 4).
Proof. reflexivity. Qed.

Theorem xw_create2_alloc_failstop : forall h F,
  owned_by h [] F ->
  let '(r, h') := xw_create2_a h in
  h_bad h' = h_bad h /\
  match r with
  | Some w => owned_by h' (x2_owns w) F /\ (forall b, x2_inv b w (x2_start w)) /\ set_table w = [] /\ x2_num w = 0
  | None => owned_by h' [] F
  end.
Proof.
  intros h F O. unfold xw_create2_a. pose proof (xattr_create_alloc_failstop h F O) as C.
  destruct (xw_create_a h) as [[w|] h1]; [|exact C]. destruct C as (B & O1 & Iw).
  rewrite rb_init_desc. split; [exact B|]. split.
  { unfold x2_owns. cbn [x2_w x2_tree rb_root tids]. rewrite app_nil_r. exact O1. }
  split; [|split; reflexivity].
  intro b. constructor; unfold elems; cbn [x2_w x2_tree x2_num rb_root elements rb_key_size rb_value_size map].
  - apply Iw.
  - reflexivity.
  - reflexivity.
  - split; [constructor|]. split; [exists 0%nat; constructor|]. split; [cbn; lia|constructor].
  - constructor.
  - destruct (Iw b) as (_ & _ & _ & S). exact S.
  - constructor.
  - constructor.
Qed.

(* ---- add_kv ---- *)
Definition room_add (w : axw) : Prop :=
  entries_of (xw_keys w) < ht_safe_limit /\ entries_of (xw_values w) < ht_safe_limit.

Lemma xw_add_chk_spec : forall fx b w key value h F,
  x2_inv b w (x2_start w) -> owned_by h (x2_owns w) F -> room_add (x2_w w) ->
  exists b' w0 z h',
    xw_add_kv_chk_a fx b (x2_w w) key value h = SOk (b', w0, z, h') /\
    x2_inv b' (with_w w w0) (x2_start w) /\ x2_start (with_w w w0) = x2_start w /\
    owned_by h' (x2_owns (with_w w w0)) F /\ h_bad h' = h_bad h /\
    xw_residue b (x2_w w) b' w0 /\ xw_more (x2_w w) w0 /\
    set_table (with_w w w0) = set_table w /\
    (z <> 0%Z -> xw_pairs w0 = xw_pairs (x2_w w)) /\
    (z = 0%Z \/ z = c_SQFS_ERROR_ALLOC \/ z = c_SQFS_ERROR_UNSUPPORTED \/ z = c_SQFS_ERROR_OVERFLOW).
Proof.
  intros fx b w key value h F I O [Rk Rv].
  assert (Same : forall z, (z = 0%Z \/ z = c_SQFS_ERROR_ALLOC \/ z = c_SQFS_ERROR_UNSUPPORTED \/ z = c_SQFS_ERROR_OVERFLOW) ->
    exists b' w0 z' h',
      SOk (b, x2_w w, z, h) = SOk (b', w0, z', h') /\
      x2_inv b' (with_w w w0) (x2_start w) /\ x2_start (with_w w w0) = x2_start w /\
      owned_by h' (x2_owns (with_w w w0)) F /\ h_bad h' = h_bad h /\
      xw_residue b (x2_w w) b' w0 /\ xw_more (x2_w w) w0 /\
      set_table (with_w w w0) = set_table w /\
      (z' <> 0%Z -> xw_pairs w0 = xw_pairs (x2_w w)) /\
      (z' = 0%Z \/ z' = c_SQFS_ERROR_ALLOC \/ z' = c_SQFS_ERROR_UNSUPPORTED \/ z' = c_SQFS_ERROR_OVERFLOW)).
  { intros z Hz. exists b, (x2_w w), z, h. split; [reflexivity|].
    assert (Ew : with_w w (x2_w w) = w) by (destruct w; reflexivity). rewrite Ew.
    split; [exact I|]. split; [reflexivity|]. split; [exact O|]. split; [reflexivity|].
    split; [unfold xw_residue; repeat split; apply prefix_refl|].
    split; [unfold xw_more; repeat split; lia|]. split; [reflexivity|]. split; [reflexivity|exact Hz]. }
  unfold xw_add_kv_chk_a.
  destruct (C01.XattrModel.prefix_of key) as [[ty sfx]|]; [|apply Same; auto].
  destruct (C01.XattrModel.KEY_MAX <? lenN sfx); [apply Same; auto|].
  (* the call proper: the block tree is part of the frame *)
  assert (O0 : owned_by h ([] ++ xw_owns (x2_w w) ++ tids (rb_root (x2_tree w))) F) by exact O.
  pose proof (owned_focus _ _ _ _ _ O0) as Of.
  destruct (xattr_add_kv_alloc_failstop_ext fx b (x2_w w) key value h _ (xi_w _ _ _ I) Of Rk Rv)
    as (b' & w0 & z & h' & E & Iw & Ow & B & Res & More & Hnz & Hz).
  exists b', w0, z, h'. split; [exact E|].
  pose proof (owned_unfocus _ _ _ _ _ _ _ O0 Ow) as O1. cbn [app] in O1.
  destruct Res as (Rid & Rst & Rpk & Rpv). destruct More as (Mk & Mv & Mpre & Mu).
  assert (Est : x2_start (with_w w w0) = x2_start w) by exact Rst.
  assert (Epre : firstnN (x2_start w) (x2_data w) = firstnN (x2_start w) (x2_data (with_w w w0))).
  { unfold x2_data, x2_start, firstnN. cbn [with_w x2_w]. symmetry. exact Mpre. }
  split.
  { apply (inv_data_change b b' w (with_w w w0) (x2_start w) (x2_start w) I); try reflexivity; [exact Iw|exact Epre|].
    destruct Iw as (_ & _ & _ & S). unfold x2_used, x2_start in *. cbn [with_w x2_w]. rewrite <- Rst. exact S. }
  split; [exact Est|]. split; [exact O1|]. split; [exact B|].
  split; [unfold xw_residue; auto|]. split; [unfold xw_more; auto|].
  split; [apply (set_table_agree w _ (x2_start w)); [reflexivity|exact Epre|exact (xi_below _ _ _ I)]|].
  split.
  - intro Hn. apply Hnz. exact Hn.
  - destruct z as [|p|p]; [left; reflexivity| |]; right; left; apply Hnz; discriminate.
Qed.

(* ---- sessions ---- *)
Definition sess_fence (s : xsess) : N := if xs_open s then x2_start (xs_w s) else x2_used (xs_w s).

Definition sess_inv (s : xsess) (F : N -> Prop) : Prop :=
  x2_inv (xs_b s) (xs_w s) (sess_fence s) /\ owned_by (xs_h s) (x2_owns (xs_w s)) F.

(* room for n more calls: hash table counters, size_t, sqfs_u32 indices *)
Definition sess_room (s : xsess) (n : N) : Prop :=
  entries_of (xw_keys (x2_w (xs_w s))) + n < ht_safe_limit /\
  entries_of (xw_values (x2_w (xs_w s))) + n < ht_safe_limit /\
  x2_used (xs_w s) + n < 2 ^ 64 /\ x2_num (xs_w s) + n < 4294967295.

Definition keys_of (s : xsess) : list (list N) := strings (xs_b s) (as_core (xw_keys (x2_w (xs_w s)))).
Definition values_of (s : xsess) : list (list N) := strings (xs_b s) (as_core (xw_values (x2_w (xs_w s)))).

(* what one call promises about its answer *)
Definition ans_ok (s s' : xsess) (a : xans) : Prop :=
  match a with
  | ABegin => True
  | AAdd z =>
    (z = 0%Z \/ z = c_SQFS_ERROR_ALLOC \/ z = c_SQFS_ERROR_UNSUPPORTED \/ z = c_SQFS_ERROR_OVERFLOW) /\
    (z <> 0%Z -> xw_pairs (x2_w (xs_w s')) = xw_pairs (x2_w (xs_w s)))
  | AEnd z out =>
    (z = 0%Z /\ exists idx, out = Some idx /\
       (x2_used (xs_w s) = x2_start (xs_w s) -> idx = NO_INDEX) /\
       (x2_start (xs_w s) < x2_used (xs_w s) ->
          exists S, In (idx, S) (set_table (xs_w s')) /\
                    flat_map le64 S = flat_map le64 (sort_u64 (skipnN (x2_start (xs_w s)) (x2_data (xs_w s)))))) \/
    (z = c_SQFS_ERROR_ALLOC /\ out = None /\ end_failed (xs_w s) (xs_w s') /\
     set_table (xs_w s') = set_table (xs_w s) /\ xs_open s' = true)
  end.

Definition step_ok (s s' : xsess) (F : N -> Prop) (n : N) : Prop :=
  sess_inv s' F /\ sess_room s' n /\ h_bad (xs_h s') = h_bad (xs_h s) /\
  incl (set_table (xs_w s)) (set_table (xs_w s')) /\
  prefix (keys_of s) (keys_of s') /\ prefix (values_of s) (values_of s').

Theorem xw_step_spec : forall fx s op F n,
  sess_inv s F -> sess_room s (n + 1) ->
  match xw_step_a fx s op with
  | SessOk s' log => step_ok s s' F n /\ exists a, log = [a] /\ ans_ok s s' a
  | SessMisuse => xs_open s = false /\ op <> OBegin
  | SessCrash | SessFuel => False
  end.
Proof.
  intros fx s op F n [I O] (R1 & R2 & R3 & R4). destruct s as [b w open h]. unfold sess_fence in I.
  cbn [xs_b xs_w xs_open xs_h] in *. destruct op as [|k v|]; cbn [xw_step_a xs_b xs_w xs_open xs_h].
  - (* begin *)
    destruct (xw_begin2_spec b w _ I) as (I' & Es & Eu & Ed & Eo & Et).
    split; [|exists ABegin; split; [reflexivity|exact Logic.I]].
    split; [split; [unfold sess_fence; cbn [xs_open xs_w]; rewrite Es; exact I'|cbn [xs_h xs_w]; rewrite Eo; exact O]|].
    split.
    { unfold sess_room. cbn [xs_w]. rewrite Eu. unfold xw_begin2_a. cbn [with_w x2_w x2_num xw_begin_a xw_keys xw_values].
      repeat split; lia. }
    split; [reflexivity|]. split; [cbn [xs_w]; rewrite Et; apply incl_refl|].
    split; apply prefix_refl.
  - (* add_kv *)
    destruct open; [|split; [reflexivity|discriminate]].
    destruct (xw_add_chk_spec fx b w k v h F I O ltac:(split; lia))
      as (b' & w0 & z & h' & E & I' & Es & O' & B & Res & More & Et & Hnz & Hz).
    rewrite E. split.
    + split; [split; [unfold sess_fence; cbn [xs_open xs_w xs_b]; rewrite Es; exact I'|exact O']|].
      destruct More as (Mk & Mv & _ & Mu). destruct Res as (_ & _ & Pk & Pv).
      split; [unfold sess_room, x2_used in *; cbn [xs_w with_w x2_w x2_num]; repeat split; lia|].
      split; [exact B|]. split; [cbn [xs_w]; rewrite Et; apply incl_refl|]. split; assumption.
    + exists (AAdd z). split; [reflexivity|]. split; [exact Hz|exact Hnz].
  - (* end *)
    destruct open; [|split; [reflexivity|discriminate]].
    destruct (xw_end_a_spec b w h F I ltac:(lia) ltac:(lia) O) as (w' & z & out & h' & E & O' & B & Rest & Hc).
    rewrite E. destruct Rest as (Ek & Ev & Ei & Es & Epre & Eu & En).
    assert (Pk : prefix (keys_of (mk_xsess b w true h)) (keys_of (mk_xsess b w' true h'))).
    { unfold keys_of. cbn [xs_b xs_w]. rewrite Ek. apply prefix_refl. }
    assert (Pv : prefix (values_of (mk_xsess b w true h)) (values_of (mk_xsess b w' true h'))).
    { unfold values_of. cbn [xs_b xs_w]. rewrite Ev. apply prefix_refl. }
    assert (Room : forall o, sess_room (mk_xsess b w' o h') n).
    { intro o. unfold sess_room. cbn [xs_w]. rewrite Ek, Ev. repeat split; lia. }
    destruct Hc as [(-> & I' & Inc & idx & -> & H0 & H1 & _)|(-> & -> & _ & Fl & I' & Et)].
    + split.
      * split; [split; [unfold sess_fence; cbn [xs_open xs_w xs_b]; exact I'|exact O']|].
        split; [apply Room|]. split; [exact B|]. split; [exact Inc|]. split; assumption.
      * exists (AEnd 0%Z (Some idx)). split; [reflexivity|]. left. split; [reflexivity|].
        exists idx. split; [reflexivity|]. split; [intro Hq; apply (H0 Hq)|exact H1].
    + unfold c_SQFS_ERROR_ALLOC at 1 2. cbn iota. split.
      * split; [split; [unfold sess_fence; cbn [xs_open xs_w xs_b]; exact I'|exact O']|].
        split; [apply Room|]. split; [exact B|]. split; [cbn [xs_w]; rewrite Et; apply incl_refl|]. split; assumption.
      * exists (AEnd c_SQFS_ERROR_ALLOC None). split; [reflexivity|]. right.
        split; [reflexivity|]. split; [reflexivity|]. split; [exact Fl|]. split; [exact Et|reflexivity].
Qed.

(* the indices handed out by the successful ends of a run, each with the bytes of the sorted pairs of the set
   at that moment *)
Fixpoint xw_handed (fx : bool) (s : xsess) (ops : list xop) : list (N * list N) :=
  match ops with
  | [] => []
  | op :: r =>
    match xw_step_a fx s op with
    | SessOk s1 l1 =>
      match op, l1 with
      | OEnd, [AEnd 0%Z (Some idx)] =>
        if x2_start (xs_w s) <? x2_used (xs_w s)
        then [(idx, flat_map le64 (sort_u64 (skipnN (x2_start (xs_w s)) (x2_data (xs_w s)))))] else []
      | _, _ => []
      end ++ xw_handed fx s1 r
    | _ => []
    end
  end.

Definition denotes (w : axw2) (idx : N) (bytes : list N) : Prop :=
  exists S, In (idx, S) (set_table w) /\ flat_map le64 S = bytes.

(* an index denotes at most one block *)
Lemma denotes_functional : forall b w f idx S1 S2,
  x2_inv b w f -> In (idx, S1) (set_table w) -> In (idx, S2) (set_table w) -> S1 = S2.
Proof.
  intros b w f idx S1 S2 I H1 H2. pose proof (xi_nodup _ _ _ I) as Nd. unfold set_table in *.
  revert Nd H1 H2. generalize (elems w). induction l as [|e l IH]; cbn [map]; intros Nd H1 H2; [destruct H1|].
  inversion Nd as [|? ? Hn Nd']; subst.
  assert (Hno : forall S, In (elem_idx e, S) (map (entry_of (x2_data w)) l) -> False).
  { intros S HS. apply Hn. apply in_map_iff in HS. destruct HS as (e' & Ee & He'). apply in_map_iff. exists e'.
    split; [|exact He']. unfold entry_of in Ee. congruence. }
  destruct H1 as [H1|H1]; destruct H2 as [H2|H2].
  - unfold entry_of in *. congruence.
  - exfalso. unfold entry_of in H1. injection H1 as E1 _. rewrite <- E1 in H2. exact (Hno _ H2).
  - exfalso. unfold entry_of in H2. injection H2 as E2 _. rewrite <- E2 in H1. exact (Hno _ H1).
  - exact (IH Nd' H1 H2).
Qed.

Theorem xw_session_failstop : forall fx ops s F,
  sess_inv s F -> sess_room s (N.of_nat (length ops)) ->
  match xw_run_a fx s ops with
  | SessOk s' log =>
    sess_inv s' F /\ h_bad (xs_h s') = h_bad (xs_h s) /\
    incl (set_table (xs_w s)) (set_table (xs_w s')) /\
    prefix (keys_of s) (keys_of s') /\ prefix (values_of s) (values_of s') /\
    length log = length ops /\
    Forall (fun x => denotes (xs_w s') (fst x) (snd x)) (xw_handed fx s ops)
  | SessMisuse => True
  | SessCrash | SessFuel => False
  end.
Proof.
  intros fx ops. induction ops as [|op ops IH]; intros s F Inv Room.
  - cbn [xw_run_a xw_handed]. split; [exact Inv|]. split; [reflexivity|]. split; [apply incl_refl|].
    split; [apply prefix_refl|]. split; [apply prefix_refl|]. split; [reflexivity|constructor].
  - cbn [xw_run_a xw_handed length] in *.
    assert (Room1 : sess_room s (N.of_nat (length ops) + 1)).
    { replace (N.of_nat (length ops) + 1) with (N.of_nat (S (length ops))) by lia. exact Room. }
    pose proof (xw_step_spec fx s op F _ Inv Room1) as St.
    destruct (xw_step_a fx s op) as [s1 l1| | |]; try contradiction; [|exact Logic.I].
    destruct St as [(Inv1 & Rm1 & B1 & Inc1 & Pk1 & Pv1) (a & -> & Ha)].
    specialize (IH s1 F Inv1 Rm1).
    destruct (xw_run_a fx s1 ops) as [s2 l2| | |]; try contradiction; [|exact Logic.I].
    destruct IH as (Inv2 & B2 & Inc2 & Pk2 & Pv2 & Ll & Hd).
    split; [exact Inv2|]. split; [congruence|].
    split; [eapply incl_tran; eassumption|].
    split; [eapply prefix_trans; eassumption|]. split; [eapply prefix_trans; eassumption|].
    split; [cbn [app length]; congruence|].
    apply Forall_app. split; [|exact Hd].
    destruct op as [|k v|]; try constructor.
    destruct a as [|z0|z out]; try constructor.
    destruct z as [|p|p]; try constructor. destruct out as [idx|]; try constructor.
    destruct (x2_start (xs_w s) <? x2_used (xs_w s)) eqn:El; constructor; [|constructor].
    apply N.ltb_lt in El. cbn [fst snd]. cbn [ans_ok] in Ha.
    destruct Ha as [(_ & idx' & Eo & _ & H1)|(Hc & _)]; [|unfold c_SQFS_ERROR_ALLOC in Hc; discriminate].
    injection Eo as <-. destruct (H1 El) as (S & HS & Hb). exists S. split; [apply Inc2; exact HS|exact Hb].
Qed.
