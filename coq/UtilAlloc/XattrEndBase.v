(* sqfs_xattr_writer_end, groundwork: block_compare is a strict weak order whatever the pair array holds,
   it looks at the array only inside the two runs it compares, the sort of compare_u64, the rbtree invariant
   under a comparator that changed outside the keys of the tree. *)
From Coq Require Import NArith ZArith List Bool Lia Permutation Sorting.Sorted.
From SqfsV Require Import Base.Bytes Gen.Constants Util.GenUtil Util.RbModel Util.RbOrder Util.RbBalance Util.RbTheorems
     Util.RbExamples UtilAlloc.AllocBase UtilAlloc.RbAlloc UtilAlloc.XattrAlloc UtilAlloc.XattrEndAlloc.
Import ListNotations.
Local Open Scope N_scope.

(* ---- lists ---- *)
Lemma firstn_agree_le : forall (A : Type) n m (l l' : list A),
  (n <= m)%nat -> firstn m l = firstn m l' -> firstn n l = firstn n l'.
Proof.
  intros A n m l l' H E.
  rewrite <- (Nat.min_l n m H), <- !firstn_firstn, E. reflexivity.
Qed.

Lemma run_of_agree : forall data data' f s c,
  firstnN f data = firstnN f data' -> s + c <= f -> run_of data s c = run_of data' s c.
Proof.
  intros data data' f s c E H. unfold run_of, firstnN, skipnN in *.
  assert (E2 : firstn (N.to_nat s + N.to_nat c) data = firstn (N.to_nat s + N.to_nat c) data').
  { apply (firstn_agree_le _ _ (N.to_nat f)); [lia|exact E]. }
  assert (K : forall d : list N, firstn (N.to_nat c) (skipn (N.to_nat s) d) =
                                 skipn (N.to_nat s) (firstn (N.to_nat s + N.to_nat c) d)).
  { intro d. rewrite skipn_firstn_comm. f_equal. lia. }
  rewrite !K, E2. reflexivity.
Qed.

Lemma lenN_firstnN_le : forall (A : Type) n (l : list A), n <= lenN l -> lenN (firstnN n l) = n.
Proof. intros A n l H. unfold lenN, firstnN in *. rewrite firstn_length. lia. Qed.

Lemma firstnN_app_exact : forall (A : Type) n (a b : list A), lenN a = n -> firstnN n (a ++ b) = a.
Proof.
  intros A n a b H. unfold firstnN, lenN in *. rewrite firstn_app.
  replace (N.to_nat n - length a)%nat with 0%nat by lia. cbn [firstn]. rewrite app_nil_r.
  apply firstn_all2. lia.
Qed.

Lemma skipnN_app_exact : forall (A : Type) n (a b : list A), lenN a = n -> skipnN n (a ++ b) = b.
Proof.
  intros A n a b H. unfold skipnN, lenN in *. rewrite skipn_app.
  replace (N.to_nat n - length a)%nat with 0%nat by lia. cbn [skipn].
  rewrite skipn_all2 by lia. reflexivity.
Qed.

Lemma firstnN_skipnN : forall (A : Type) n (l : list A), firstnN n l ++ skipnN n l = l.
Proof. intros. apply firstn_skipn. Qed.

(* ---- compare_u64 / qsort ---- *)
Lemma ins_u64_perm : forall p l, Permutation (p :: l) (ins_u64 p l).
Proof.
  intros p l. induction l as [|x l IH]; cbn [ins_u64]; [reflexivity|].
  destruct (p <=? x); [reflexivity|]. rewrite perm_swap. constructor. exact IH.
Qed.

Lemma sort_u64_perm : forall l, Permutation l (sort_u64 l).
Proof.
  induction l as [|x l IH]; cbn [sort_u64]; [reflexivity|].
  rewrite <- ins_u64_perm. constructor. exact IH.
Qed.

Lemma sort_u64_length : forall l, lenN (sort_u64 l) = lenN l.
Proof. intro l. unfold lenN. rewrite <- (Permutation_length (sort_u64_perm l)). reflexivity. Qed.

Lemma ins_u64_sorted : forall p l, Sorted N.le l -> Sorted N.le (ins_u64 p l).
Proof.
  intros p l H. induction H as [|x l Hs IH Hh]; cbn [ins_u64]; [repeat constructor|].
  destruct (p <=? x) eqn:E.
  - apply N.leb_le in E. constructor; [constructor; assumption|constructor; exact E].
  - apply N.leb_gt in E. constructor; [exact IH|].
    destruct l as [|y l]; cbn [ins_u64]; [constructor; lia|].
    destruct (p <=? y); constructor; [lia|]. inversion Hh; assumption.
Qed.

Lemma sort_u64_sorted : forall l, Sorted N.le (sort_u64 l).
Proof. induction l as [|x l IH]; cbn [sort_u64]; [constructor|]. apply ins_u64_sorted. exact IH. Qed.

(* a sorted list is a fixed point (a second end finds the pairs as the first one left them) *)
Lemma ins_u64_head : forall p l, Sorted N.le (p :: l) -> ins_u64 p l = p :: l.
Proof.
  intros p l H. destruct l as [|x l]; [reflexivity|]. cbn [ins_u64].
  inversion H as [|? ? _ Hh]; subst. inversion Hh; subst.
  replace (p <=? x) with true by (symmetry; apply N.leb_le; assumption). reflexivity.
Qed.

Lemma sort_u64_idem : forall l, Sorted N.le l -> sort_u64 l = l.
Proof.
  induction l as [|x l IH]; intro H; [reflexivity|]. cbn [sort_u64].
  inversion H as [|? ? Hs _]; subst. rewrite (IH Hs). apply ins_u64_head. exact H.
Qed.

(* ---- the descriptor bytes ---- *)
Lemma lenN_le64 : forall x, lenN (le64 x) = 8.
Proof. intro x. unfold lenN, le64. rewrite le_length. reflexivity. Qed.

Lemma desc_key_len : forall s c, lenN (desc_key s c) = DESC_SIZE.
Proof. intros. unfold desc_key, lenN. rewrite !app_length. unfold le64. rewrite !le_length. reflexivity. Qed.

Lemma skipn_le64_app : forall x r, skipn 8 (le64 x ++ r) = r.
Proof.
  intros x r. replace 8%nat with (length (le64 x)) by (unfold le64; apply le_length).
  rewrite skipn_app, Nat.sub_diag, skipn_all. reflexivity.
Qed.

Lemma key_start_desc : forall s c, s < 2 ^ 64 -> key_start (desc_key s c) = s.
Proof.
  intros s c H. unfold key_start, desc_key. rewrite skipn_le64_app. unfold rd64, le64. apply Bytes.rd_le. exact H.
Qed.

Lemma skipn_plus : forall (A : Type) a b (l : list A), skipn (a + b) l = skipn b (skipn a l).
Proof.
  intros A a. induction a as [|a IH]; intros b l; [reflexivity|]. destruct l as [|x l]; cbn [plus skipn].
  - destruct b; reflexivity.
  - apply IH.
Qed.

Lemma key_count_desc : forall s c, c < 2 ^ 64 -> key_count (desc_key s c) = c.
Proof.
  intros s c H. unfold key_count, desc_key.
  change 16%nat with (8 + 8)%nat. rewrite skipn_plus, !skipn_le64_app. unfold rd64, le64. apply Bytes.rd_le. exact H.
Qed.

(* ---- block_compare ---- *)
Lemma cmp_bytes_refl : forall a, cmp_bytes a a = 0%Z.
Proof. induction a as [|x a IH]; cbn; [reflexivity|]. rewrite N.ltb_irrefl. exact IH. Qed.

Lemma block_cmp_eq : forall data l r,
  block_cmp data l r =
  if negb (key_count l =? key_count r) then (if key_count l <? key_count r then (-1)%Z else 1%Z)
  else cmp_bytes (run_bytes data l) (run_bytes data r).
Proof.
  intros data l r. unfold block_cmp.
  destruct (key_count l =? key_count r) eqn:EC; cbn [negb]; [|reflexivity].
  destruct (key_start l =? key_start r) eqn:ES; [|reflexivity].
  apply N.eqb_eq in EC, ES. unfold run_bytes. rewrite EC, ES. symmetry. apply cmp_bytes_refl.
Qed.

Lemma block_cmp_antisym : forall data a b, (block_cmp data a b < 0 <-> 0 < block_cmp data b a)%Z.
Proof.
  intros data a b. rewrite !block_cmp_eq.
  destruct (key_count a =? key_count b) eqn:E.
  - apply N.eqb_eq in E. rewrite <- E, N.eqb_refl. cbn [negb]. apply cmp_bytes_antisym.
  - apply N.eqb_neq in E. destruct (key_count b =? key_count a) eqn:E'; [apply N.eqb_eq in E'; congruence|]. cbn [negb].
    destruct (key_count a <? key_count b) eqn:L; destruct (key_count b <? key_count a) eqn:L';
      try apply N.ltb_lt in L; try apply N.ltb_lt in L'; try apply N.ltb_ge in L; try apply N.ltb_ge in L';
      split; intro; lia.
Qed.

Lemma block_cmp_le : forall data a b,
  (block_cmp data a b <= 0)%Z <->
  key_count a < key_count b \/ (key_count a = key_count b /\ (cmp_bytes (run_bytes data a) (run_bytes data b) <= 0)%Z).
Proof.
  intros data a b. rewrite block_cmp_eq.
  destruct (key_count a =? key_count b) eqn:E; cbn [negb].
  - apply N.eqb_eq in E. split; [intro; right; tauto|intros [H|[_ H]]; [lia|exact H]].
  - apply N.eqb_neq in E. destruct (key_count a <? key_count b) eqn:L.
    + apply N.ltb_lt in L. split; [intro; left; exact L|intro; lia].
    + apply N.ltb_ge in L. split; [intro; lia|intros [H|[H _]]; [lia|congruence]].
Qed.

Lemma block_cmp_trans : forall data a b c,
  (block_cmp data a b <= 0 -> block_cmp data b c <= 0 -> block_cmp data a c <= 0)%Z.
Proof.
  intros data a b c. rewrite !block_cmp_le. intros [H1|[H1 H1']] [H2|[H2 H2']].
  - left; lia.
  - left; lia.
  - left; lia.
  - right. split; [lia|]. eapply cmp_bytes_trans; eassumption.
Qed.

(* what "compares equal" means: as many pairs, the same bytes *)
Lemma cmp_bytes_zero : forall a b, cmp_bytes a b = 0%Z -> a = b.
Proof.
  induction a as [|x a IH]; destruct b as [|y b]; cbn; intro H; try discriminate; [reflexivity|].
  destruct (x <? y) eqn:E1; [discriminate|]. destruct (y <? x) eqn:E2; [discriminate|].
  apply N.ltb_ge in E1, E2. f_equal; [lia|apply IH; exact H].
Qed.

Lemma block_cmp_zero : forall data l r, block_cmp data l r = 0%Z ->
  key_count l = key_count r /\ run_bytes data l = run_bytes data r.
Proof.
  intros data l r H. rewrite block_cmp_eq in H.
  destruct (key_count l =? key_count r) eqn:E; cbn [negb] in H.
  - apply N.eqb_eq in E. split; [exact E|apply cmp_bytes_zero; exact H].
  - destruct (key_count l <? key_count r); discriminate.
Qed.

Lemma block_cmp_zero_intro : forall data l r,
  key_count l = key_count r -> run_bytes data l = run_bytes data r -> block_cmp data l r = 0%Z.
Proof.
  intros data l r E R. rewrite block_cmp_eq, E, N.eqb_refl. cbn [negb]. rewrite R. apply cmp_bytes_refl.
Qed.

(* the comparator reads the array only inside the two runs *)
Lemma block_cmp_agree : forall data data' f l r,
  firstnN f data = firstnN f data' ->
  key_start l + key_count l <= f -> key_start r + key_count r <= f ->
  block_cmp data l r = block_cmp data' l r.
Proof.
  intros data data' f l r E Hl Hr. unfold block_cmp, run_bytes.
  rewrite (run_of_agree data data' f _ _ E Hl), (run_of_agree data data' f _ _ E Hr). reflexivity.
Qed.

(* ---- the tree under a comparator that agrees on its keys ---- *)
Lemma sorted_cmp_ext : forall cmp1 cmp2 ks (l : list elem),
  (forall a b, In a l -> In b l -> cmp1 (key ks a) (key ks b) = cmp2 (key ks a) (key ks b)) ->
  sorted cmp1 ks l -> sorted cmp2 ks l.
Proof.
  intros cmp1 cmp2 ks l. unfold sorted. induction l as [|x l IH]; intros H S; [constructor|].
  inversion S as [|? ? S' F]; subst. constructor.
  - apply IH; [|exact S']. intros a b Ha Hb. apply H; right; assumption.
  - rewrite Forall_forall in *. intros y Hy. specialize (F y Hy). unfold le in *.
    rewrite <- (H x y (or_introl eq_refl) (or_intror Hy)). exact F.
Qed.

Lemma ssorted_cmp_ext : forall cmp1 cmp2 ks (l : list elem),
  (forall a b, In a l -> In b l -> cmp1 (key ks a) (key ks b) = cmp2 (key ks a) (key ks b)) ->
  ssorted cmp1 ks l -> ssorted cmp2 ks l.
Proof.
  intros cmp1 cmp2 ks l. unfold ssorted. induction l as [|x l IH]; intros H S; [constructor|].
  inversion S as [|? ? S' F]; subst. constructor.
  - apply IH; [|exact S']. intros a b Ha Hb. apply H; right; assumption.
  - rewrite Forall_forall in *. intros y Hy. specialize (F y Hy). unfold lt in *.
    rewrite <- (H x y (or_introl eq_refl) (or_intror Hy)). exact F.
Qed.

Lemma rbtree_inv_cmp_ext : forall cmp1 cmp2 t,
  (forall a b, In a (elements (rb_root t)) -> In b (elements (rb_root t)) ->
     cmp1 (key (rb_key_size t) a) (key (rb_key_size t) b) = cmp2 (key (rb_key_size t) a) (key (rb_key_size t) b)) ->
  rbtree_inv cmp1 t -> rbtree_inv cmp2 t.
Proof.
  intros cmp1 cmp2 t H (S & R & L). split; [|split; assumption]. eapply sorted_cmp_ext; eassumption.
Qed.
