(* ImgData — non-vacuity of the fragment table loader theorems on the image of ImgData/Example.v: the object model of
   sqfs_frag_table_read, given an object that still holds a stale entry, (1) loads the table pack left from the image
   bytes, (2) is empty after a second call that takes the NO_FRAGMENTS exit and (3) after one that fails, while the
   code as seed C10-9 left it (ft_read_late) keeps answering from the previous table. *)
From Coq Require Import List NArith ZArith Bool.
From SqfsV Require Import Base.Bytes Gen.Constants C03.Common.
From SqfsV Require C14.SuperModel.
From SqfsV Require Import C01.GenC01 C01.Res C01.InodeModel Img.TreeModel.
From SqfsV Require Import Image.FinishModel Image.ReaderModel Image.ImageProofs.
From SqfsV Require Import C08.DedupModel C08.DedupTheorems.
From SqfsV Require Import ImgData.GlueModel ImgData.Example.
From SqfsV Require Import ImgReader.ReadImage.
From SqfsV Require ImgE2E.Hyps.
From SqfsV Require C05.RBase C05.Super.
From SqfsV Require Import C08.FragTableModel C08.FragTableProofs ImgData.FragLoader.
Import ListNotations.
Local Open Scope N_scope.

Definition ex_uc := uc_of (img_uncompress 3).
Definition ex_stale : ftobj := mk_ft FSZ 128 2 [ft_entry 12345 99; ft_entry 777 16777300].

(* the super block with one field changed *)
Definition with_flags (s : Super.sup) (fl : N) : Super.sup :=
  Super.MkSup (Super.s_inode_count s) (Super.s_mtime s) (Super.s_block_size s) (Super.s_frag_count s) (Super.s_comp s)
    (Super.s_block_log s) fl (Super.s_id_count s) (Super.s_root s) (Super.s_bytes_used s) (Super.s_id_start s)
    (Super.s_xattr_start s) (Super.s_inode_start s) (Super.s_dir_start s) (Super.s_frag_start s) (Super.s_export_start s).
Definition with_used (s : Super.sup) (u : N) : Super.sup :=
  Super.MkSup (Super.s_inode_count s) (Super.s_mtime s) (Super.s_block_size s) (Super.s_frag_count s) (Super.s_comp s)
    (Super.s_block_log s) (Super.s_flags s) (Super.s_id_count s) (Super.s_root s) u (Super.s_id_start s)
    (Super.s_xattr_start s) (Super.s_inode_start s) (Super.s_dir_start s) (Super.s_frag_start s) (Super.s_export_start s).

Example ex_frag_loader :
  match ex_image with
  | Some (st, w) =>
    let img := image_bytes w in
    let s := sup_of (w_super w) in
    (* hypotheses of ft_read_written / readback_with_real_frag_loader that are not those of ex_hyps *)
    frag_table_of st <> [] /\
    (16 * nlen (frag_table_of st) <=? RBase.alloc_limit) = true /\
    Nat.leb (Hyps.frag_fuel (nlen (frag_table_of st))) 64 = true /\
    (lenN img <? RBase.two63) = true /\
    (* (1) good load over a stale object *)
    let r1 := ft_read ex_uc img 64 s ex_stale in
    r1 = (ft_holding (frag_table_of st), RBase.Ok tt) /\
    ft_lookup (fst r1) 0 = RBase.Ok (fst (nth 0 (frag_table_of st) (0, 0)), snd (nth 0 (frag_table_of st) (0, 0)), 0) /\
    (* (2) good -> flagged empty *)
    let r2 := ft_read ex_uc img 64 (with_flags s (N.lor (Super.s_flags s) c_SQFS_FLAG_NO_FRAGMENTS)) (fst r1) in
    r2 = (ft_empty, RBase.Ok tt) /\ ft_lookup (fst r2) 0 = RBase.Err RBase.E_OOB /\
    (* (3) good -> corrupt *)
    let r3 := ft_read ex_uc img 64 (with_used s 96) (fst r1) in
    r3 = (ft_empty, RBase.Err RBase.E_OOB) /\ ft_get_size (fst r3) = 0 /\
    (* (4) corrupt -> good *)
    ft_read ex_uc img 64 s (fst r3) = r1
  | None => False
  end.
Proof. vm_compute. repeat split; try reflexivity. discriminate. Qed.

(* the code as seed C10-9 left it violates the statement: after the flagged (return 0) and after the failing call the
   object still answers lookups from the table of the call before *)
Example ex_frag_loader_late_refuted :
  match ex_image with
  | Some (st, w) =>
    let img := image_bytes w in
    let s := sup_of (w_super w) in
    let t1 := fst (ft_read_late ex_uc img 64 s ex_stale) in
    let r2 := ft_read_late ex_uc img 64 (with_flags s (N.lor (Super.s_flags s) c_SQFS_FLAG_NO_FRAGMENTS)) t1 in
    let r3 := ft_read_late ex_uc img 64 (with_used s 96) t1 in
    snd r2 = RBase.Ok tt /\ ft_get_size (fst r2) = nlen (frag_table_of st) /\ ft_get_size (fst r2) <> 0 /\
    snd r3 = RBase.Err RBase.E_OOB /\ ft_lookup (fst r3) 0 = ft_lookup t1 0 /\ ft_lookup (fst r3) 0 <> RBase.Err RBase.E_OOB
  | None => False
  end.
Proof. vm_compute. repeat split; try reflexivity; discriminate. Qed.
