(* ImgData — on an image that holds the data area [pack] produced, every file is "laid out the way the library
   writes files" in the sense of the model of the REAL data reader (coq/C10: AgreeProofs.wf_file).  C10 proves,
   for every wf_file, that sqfs_data_reader_read, _get_block, _get_fragment and the stream reader return the file's
   blocks / tail end; wf_file was a HYPOTHESIS there.  Here it is derived from C08's invariant of the block
   processor (PInv at the end of [pack]) and the shift into the image. *)
From Coq Require Import List NArith ZArith Arith Bool Lia.
From SqfsV Require Import Gen.Constants.
From SqfsV Require Import C08.DedupModel C08.DedupLemmas C08.DedupWriterProofs C08.DedupReaderProofs
  C08.DedupPipeProofs C08.DedupTheorems.
From SqfsV Require C10.GenC10 C10.MetaModel C10.DataModel C10.DataProofs C10.AgreeProofs.
From SqfsV Require Import C01.InodeModel Img.TreeModel.
From SqfsV Require Import ImgData.GlueModel ImgData.BoundInv ImgData.ShiftProofs ImgData.RealBlocks.
Import ListNotations.

(* the fields data_reader.c reads of a file inode *)
Definition finode_of_lkind (k : lkind) : option DataModel.finode :=
  match k with
  | LFile start size _ fi fo words => Some (DataModel.mkFinode size start fi fo words)
  | _ => None
  end.

Lemma map_seq_nth {A B} (g : nat -> B) (h : A -> B) (l : list A) :
  (forall j x, nth_error l j = Some x -> g j = h x) -> map g (seq 0 (length l)) = map h l.
Proof.
  intro H.
  assert (G : forall k, (forall j x, nth_error l j = Some x -> g (k + j) = h x) ->
                        map g (seq k (length l)) = map h l).
  { clear H. induction l as [|a l IH]; intros k H; [reflexivity|].
    cbn [length seq map]. f_equal.
    - specialize (H 0 a eq_refl). rewrite Nat.add_0_r in H. exact H.
    - apply IH. intros j x Hj. replace (S k + j) with (k + S j) by lia. apply H. exact Hj. }
  apply (G 0). exact H.
Qed.

Section Real.
Variable hashf : list N -> N.
Variable dcompress : list N -> option (list N).
Variable duncompress : list N -> nat -> option (list N).
Variable bs half : nat.
Hypothesis Hdcomp : forall b c, dcompress b = Some c ->
  length c < length b /\ forall n, length b <= n -> duncompress c n = Some b.
Hypothesis Hbs : 0 < bs.
Hypothesis Hsmall : small bs.
Hypothesis Hhalf : 0 < half.

Variable files : list (uflags * list N).
Variable base : nat.
Variable st : proc.
Variable claims : list (nat * list N).
Variable fbd : nat -> list N.
Hypothesis HP : PInv hashf dcompress duncompress bs base files st [] claims fbd (length files) (length files).
Hypothesis Hfb : p_fragblk st = None.
Hypothesis Hrefs : refs_behind base st (length files).
Hypothesis Hnob : no_block_start hashf dcompress bs files st.

Variable img : list N.
Hypothesis Hagree : agree base (w_file (p_wr st)) img.
Hypothesis Hlen : length (w_file (p_wr st)) <= length img.
Hypothesis Himg : (N.of_nat (length img) < MetaModel.off_t_limit)%N.

Notation dec_ok := (dec_ok duncompress).
Notation jobF := (job bs files).
Notation jworkF := (jwork hashf dcompress bs files).
Notation mkpdsF := (mkpds hashf dcompress bs files).
Notation U := (U_of duncompress).
Notation file := (MetaModel.read_at img).

Lemma holds_img c : holds (w_file (p_wr st)) c -> base <= fst c \/ snd c = [] -> holds img c.
Proof.
  destruct c as [loc bytes]. unfold holds. cbn [fst snd].
  intros [H1 H2] [Hb|Hn].
  - assert (R : read_at (w_file (p_wr st)) loc (length bytes) = Some bytes).
    { rewrite read_at_ok by assumption. rewrite H2. reflexivity. }
    apply (Hagree _ _ _ Hb) in R. apply read_at_some in R. destruct R as [R1 R2].
    split; [assumption|symmetry; assumption].
  - subst bytes. cbn [length] in *. split; [lia|]. apply slice_zero.
Qed.

(* what the final state says about one file: its data blocks with what the worker made of them, and its tail end *)
Lemma file_struct fid fl d :
  nth_error files fid = Some (fl, d) ->
  exists (pds : list (pblock * list N)) (tail : list N),
    concat (map snd pds) ++ tail = d /\
    Forall (fun pd => dec_ok (fst pd) (snd pd)) pds /\
    sized bs (length tail) (map snd pds) /\
    (forall j pd, nth_error pds j = Some pd -> p_size st fid j = Some (word (fst pd))) /\
    ((filter stored (map fst pds) = [] /\ p_start st fid = 0) \/
     In (p_start st fid, cat (filter stored (map fst pds))) claims) /\
    length pds = DedupModel.block_count bs (length d) (has_frag (p_frag st fid)) /\
    ((tail = [] /\ p_frag st fid = None) \/
     (Forall (fun c => length c = bs) (map snd pds) /\ 0 < length tail < bs /\
      exists i o, p_frag st fid = Some (i, o) /\ i < p_nfrag st /\
                  o + length tail <= length (fbd i) /\ slice (fbd i) o (length tail) = tail)).
Proof.
  intro Hn.
  assert (Hfid : fid < length files) by (apply nth_error_Some; congruence).
  destruct (job_has_shape bs half Hbs Hhalf files fid Hfid) as (fl' & d' & E & J & S).
  rewrite Hn in E. inversion E; subst fl' d'. clear E.
  pose proof HP as [P1 P2 P3 P4 P5 P6 P7 P8 P9 P10 P11 P12 P13].
  pose proof (final_no_frag hashf dcompress duncompress bs base files st claims fbd HP fid) as NoFrag.
  pose proof (final_written hashf dcompress duncompress bs base files st claims fbd HP fid Hfid) as Wr.
  assert (Hz : j_blocks (jobF fid) = [] -> p_start st fid = 0).
  { intro Hb. apply Hnob. unfold pbs_of. rewrite Hn. cbn [fst snd]. rewrite <- J. unfold job_pbs. rewrite Hb. reflexivity. }
  remember (jobF fid) as jb eqn:Ejb.
  destruct S as [E0|full F1 F2 F3|full r F1 F2 F3 F4|r F1 F2 F3|full r F0 F1 F2 F3 F4].
  - (* empty file *)
    subst d. exists [], []. rewrite NoFrag by reflexivity.
    split; [reflexivity|]. split; [constructor|]. split; [exact I|].
    split; [intros j pd C; destruct j; discriminate|]. split; [left; split; [reflexivity|apply Hz; reflexivity]|].
    split.
    + unfold DedupModel.block_count. simpl length. rewrite Nat.mod_0_l, Nat.div_0_l by lia. reflexivity.
    + left. split; reflexivity.
  - (* full blocks only *)
    rewrite NoFrag by reflexivity.
    assert (HW : Written hashf dcompress bs files st claims fid).
    { apply Wr. simpl. destruct full; discriminate. }
    destruct (data_pds hashf dcompress duncompress bs Hdcomp Hbs files st claims fid full [[]]) as [Hsz Hcl];
      [rewrite <- Ejb; reflexivity|apply (bs_blocks_nonempty bs half Hbs Hhalf); assumption|reflexivity|assumption|].
    pose proof (concat_bs_length bs half Hbs Hsmall Hhalf full F2) as Hl.
    exists (mkpdsF fid full), []. rewrite mkpds_snd, app_nil_r.
    split; [exact F3|].
    split; [apply (mkpds_dec hashf dcompress duncompress bs Hdcomp Hbs), (bs_blocks_nonempty bs half Hbs Hhalf); assumption|].
    split; [apply (sized_full bs half Hbs Hsmall Hhalf); assumption|].
    split; [exact Hsz|]. split; [right; exact Hcl|].
    split.
    + rewrite mkpds_length, <- F3, Hl.
      destruct (div_mod_nb bs half Hbs Hhalf (length full) 0 Hbs) as [Hd Hm]. rewrite Nat.add_0_r in Hd, Hm.
      unfold DedupModel.block_count. rewrite Hm, Hd. reflexivity.
    + left. split; reflexivity.
  - (* DONT_FRAGMENT: the short tail is a block *)
    rewrite NoFrag by reflexivity.
    assert (HW : Written hashf dcompress bs files st claims fid).
    { apply Wr. simpl. destruct full; discriminate. }
    assert (Hrne : r <> []) by (intro; subst; simpl in F2; lia).
    assert (Hne : Forall (fun b : list N => b <> []) (full ++ [r])).
    { apply Forall_app. split; [apply (bs_blocks_nonempty bs half Hbs Hhalf); assumption|constructor; [assumption|constructor]]. }
    destruct (data_pds hashf dcompress duncompress bs Hdcomp Hbs files st claims fid (full ++ [r]) []) as [Hsz Hcl];
      [rewrite <- Ejb; simpl; rewrite app_nil_r; reflexivity|exact Hne|reflexivity|assumption|].
    pose proof (concat_bs_length bs half Hbs Hsmall Hhalf full F1) as Hl.
    exists (mkpdsF fid (full ++ [r])), []. rewrite mkpds_snd, app_nil_r.
    split; [rewrite concat_app; simpl; rewrite app_nil_r; exact F3|].
    split; [apply (mkpds_dec hashf dcompress duncompress bs Hdcomp Hbs); exact Hne|].
    split; [apply (sized_snoc bs half Hbs Hsmall Hhalf); [assumption|lia]|].
    split; [exact Hsz|]. split; [right; exact Hcl|].
    split.
    + rewrite mkpds_length, app_length. simpl length.
      assert (Hdl : length d = length full * bs + length r) by (rewrite <- F3, app_length, Hl; reflexivity).
      destruct (div_mod_nb bs half Hbs Hhalf (length full) (length r) ltac:(lia)) as [Hd Hm].
      unfold DedupModel.block_count. rewrite Hdl, Hm, Hd.
      destruct (length r =? 0) eqn:Er0; [apply Nat.eqb_eq in Er0; lia|]. simpl. lia.
    + left. split; reflexivity.
  - (* a file smaller than a block *)
    subst r. assert (Ht : j_tail (jobF fid) = Some d) by (rewrite <- Ejb; reflexivity).
    assert (Hjb : j_blocks (jobF fid) = []) by (rewrite <- Ejb; reflexivity).
    assert (Hm : length d mod bs = length d) by (apply Nat.mod_small; lia).
    assert (Hd : length d / bs = 0) by (apply Nat.div_small; lia).
    destruct (length d =? 0) eqn:Ed0; [apply Nat.eqb_eq in Ed0; lia|].
    specialize (P12 fid d Hfid Ht). destruct (tail_sparse bs files fid d) eqn:Hts.
    + destruct P12 as [Q1 Q2]. rewrite Hjb in Q2. simpl in Q2. rewrite Q1.
      unfold tail_sparse in Hts. apply andb_true_iff in Hts. destruct Hts as [_ Hzr].
      set (pt := {| pb_sparse := true; pb_compressed := false; pb_chk := 0%N; pb_data := d |}). pose proof Hzr as Hzero.
      assert (Hdne : d <> []) by (intro; subst; simpl in F1; lia).
      exists [(pt, d)], []. cbn [map snd fst concat]. rewrite !app_nil_r.
      split; [reflexivity|].
      split; [constructor; [|constructor]; split; [assumption|]; simpl; split; [lia|]; split; [auto|discriminate]|].
      split; [cbn [sized]; split; [simpl; lia|exact I]|].
      split.
      { intros j pd Hj. destruct j as [|j]; [|destruct j; discriminate]. inversion Hj; subst pd. exact Q2. }
      assert (Hst : stored pt = false) by (unfold stored, pt; simpl; apply andb_false_r).
      split; [left; split; [cbn [filter]; rewrite Hst; reflexivity|apply Hz; reflexivity]|].
      split; [|left; split; reflexivity].
      unfold DedupModel.block_count. cbn [has_frag]. rewrite Hm, Hd, Ed0. reflexivity.
    + destruct (p_frag st fid) as [[i o]|] eqn:Ef; [|contradiction].
      destruct (P11 fid i o Ef) as (_ & t' & Ht' & Hi & Hb & Hs).
      rewrite Ht in Ht'. inversion Ht'; subst t'.
      exists [], d. split; [reflexivity|]. split; [constructor|]. split; [exact I|].
      split; [intros j pd C; destruct j; discriminate|]. split; [left; split; [reflexivity|apply Hz; reflexivity]|].
      split.
      * unfold DedupModel.block_count. cbn [has_frag]. rewrite Hm, Hd, Ed0. reflexivity.
      * right. split; [constructor|]. split; [lia|]. exists i, o. repeat split; assumption.
  - (* full blocks and a tail end *)
    assert (Ht : j_tail (jobF fid) = Some r) by (rewrite <- Ejb; reflexivity).
    assert (Hjb : j_blocks (jobF fid) = full ++ [[]]) by (rewrite <- Ejb; reflexivity).
    assert (HW : Written hashf dcompress bs files st claims fid).
    { apply Wr. simpl. destruct full; discriminate. }
    destruct (data_pds hashf dcompress duncompress bs Hdcomp Hbs files st claims fid full [[]]) as [Hsz Hcl];
      [assumption|apply (bs_blocks_nonempty bs half Hbs Hhalf); assumption|reflexivity|assumption|].
    pose proof (concat_bs_length bs half Hbs Hsmall Hhalf full F1) as Hl.
    assert (Hdl : length d = length full * bs + length r) by (rewrite <- F3, app_length, Hl; reflexivity).
    destruct (div_mod_nb bs half Hbs Hhalf (length full) (length r) ltac:(lia)) as [Hd Hm].
    destruct (length r =? 0) eqn:Er0; [apply Nat.eqb_eq in Er0; lia|].
    assert (Hfdec : Forall (fun pd => dec_ok (fst pd) (snd pd)) (mkpdsF fid full)).
    { apply (mkpds_dec hashf dcompress duncompress bs Hdcomp Hbs), (bs_blocks_nonempty bs half Hbs Hhalf); assumption. }
    specialize (P12 fid r Hfid Ht). destruct (tail_sparse bs files fid r) eqn:Hts.
    + (* the tail end is all zero: it became a sparse block *)
      destruct P12 as [Q1 Q2]. rewrite Hjb, app_length in Q2. simpl in Q2.
      replace (length full + 1 - 1) with (length full) in Q2 by lia. rewrite Q1.
      unfold tail_sparse in Hts. apply andb_true_iff in Hts. destruct Hts as [_ Hzr].
      set (pt := {| pb_sparse := true; pb_compressed := false; pb_chk := 0%N; pb_data := r |}). pose proof Hzr as Hzero.
      assert (Hrne : r <> []) by (intro; subst; simpl in F2; lia).
      assert (Hst : stored pt = false) by (unfold stored, pt; simpl; apply andb_false_r).
      exists (mkpdsF fid full ++ [(pt, r)]), [].
      rewrite map_app, mkpds_snd. cbn [map snd]. rewrite app_nil_r.
      split; [rewrite concat_app; simpl; rewrite app_nil_r; exact F3|].
      split.
      { apply Forall_app. split; [exact Hfdec|]. constructor; [|constructor].
        split; [assumption|]. simpl. split; [lia|]. split; [auto|discriminate]. }
      split; [apply (sized_snoc bs half Hbs Hsmall Hhalf); [assumption|lia]|].
      split.
      { intros j pd Hj.
        destruct (Nat.lt_ge_cases j (length (mkpdsF fid full))) as [Hlt|Hge].
        - rewrite nth_error_app1 in Hj by assumption. apply Hsz. assumption.
        - rewrite nth_error_app2 in Hj by assumption.
          destruct (j - length (mkpdsF fid full)) as [|k] eqn:Ek; [|destruct k; discriminate].
          simpl in Hj. inversion Hj; subst pd. simpl.
          rewrite mkpds_length in Hge, Ek. assert (j = length full) by lia. subst j. exact Q2. }
      split.
      { right. rewrite map_app, filter_app. cbn [map fst filter]. rewrite Hst, app_nil_r. exact Hcl. }
      split; [|left; split; reflexivity].
      rewrite app_length, mkpds_length. simpl length.
      unfold DedupModel.block_count. cbn [has_frag]. rewrite Hdl, Hm, Hd, Er0. lia.
    + destruct (p_frag st fid) as [[i o]|] eqn:Ef; [|contradiction].
      destruct (P11 fid i o Ef) as (_ & t' & Ht' & Hi & Hb & Hs).
      rewrite Ht in Ht'. inversion Ht'; subst t'.
      exists (mkpdsF fid full), r. rewrite mkpds_snd.
      split; [exact F3|]. split; [exact Hfdec|].
      split; [apply (sized_full bs half Hbs Hsmall Hhalf); assumption|].
      split; [exact Hsz|]. split; [right; exact Hcl|].
      split.
      * rewrite mkpds_length. unfold DedupModel.block_count. cbn [has_frag]. rewrite Hdl, Hm, Hd, Er0. reflexivity.
      * right. split; [exact F1|]. split; [lia|]. exists i, o. repeat split; assumption.
Qed.

(* the fragment block behind a fragment reference, as sqfs_data_reader's lookup + get_block delivers it *)
Lemma frag_on_image i :
  i < p_nfrag st ->
  exists z, DataProofs.frag_lookup U file (N.of_nat bs) (frag_table_of st) (N.of_nat i)
            = MetaModel.Ok (fbd i ++ z, len (fbd i)) /\ 0 < length (fbd i) <= bs.
Proof.
  intro Hi. pose proof HP as [P1 P2 P3 P4 P5 P6 P7 P8 P9 P10 P11 P12 P13].
  destruct (P6 i Hi) as [(fb & C & _)|[[]|(loc & p & H1 & H2 & H3 & H4 & H5)]]; [congruence|].
  pose proof (claim_holds _ _ _ _ _ _ _ _ _ _ _ _ _ HP H2) as Hc.
  destruct H5 as [Hl1 Hl2].
  destruct H4 as (Hdn & Lp & S1 & S2). destruct (S2 H3) as (NE & R1 & R2).
  assert (Hpos : 0 < length (pb_data p)) by (destruct (pb_data p); [contradiction|simpl; lia]).
  assert (Sm : small (length (pb_data p))) by (eapply small_le; [|exact Hsmall]; lia).
  assert (Hloc : base <= loc).
  { destruct Hrefs as [Rf _]. destruct (Rf i) as [Z|Z]; rewrite H1 in Z; [|exact Z].
    inversion Z as [[Z1 Z2]]. unfold word in Z2. rewrite H3 in Z2.
    pose proof (sw_size_of (length (pb_data p)) (pb_compressed p) Sm) as E. rewrite Z2 in E.
    unfold sw_size in E. simpl in E. lia. }
  pose proof (holds_img _ Hc (or_introl Hloc)) as [Hi1 Hi2]. cbn [fst snd] in Hi1, Hi2.
  assert (Un : AgreeProofs.unpacks U file (N.of_nat loc) (word p) (fbd i)).
  { apply (unpacks_pd duncompress bs img Hsmall Himg); [split; [assumption|split; [assumption|split; assumption]]|assumption|].
    intros _. split; assumption. }
  destruct (AgreeProofs.getb_unpacks U file (N.of_nat bs) ltac:(lia) _ _ _ (N.of_nat bs) Un) as [z G];
    [unfold MetaModel.len; lia|unfold MetaModel.len; lia|].
  exists z. split; [|lia].
  unfold DataProofs.frag_lookup, DataModel.len_tbl, frag_table_of. rewrite map_length, seq_length.
  destruct (N.leb_spec (N.of_nat (p_nfrag st)) (N.of_nat i)) as [Bad|_]; [lia|].
  rewrite Nat2N.id.
  assert (E : nth_error (map (fun i0 => (N.of_nat (fst (p_ftab st i0)), snd (p_ftab st i0))) (seq 0 (p_nfrag st))) i
              = Some (N.of_nat loc, word p)).
  { rewrite nth_error_map.
    assert (E0 : nth_error (seq 0 (p_nfrag st)) i = Some i).
    { rewrite (nth_error_nth' _ 0) by (rewrite seq_length; assumption). rewrite seq_nth by assumption. reflexivity. }
    rewrite E0. simpl. rewrite H1. reflexivity. }
  rewrite E. rewrite G. f_equal. f_equal. unfold AgreeProofs.usz.
  assert (Hns : DataModel.is_sparse (word p) = false).
  { unfold word. rewrite H3. apply is_sparse_sw; assumption. }
  rewrite Hns. reflexivity.
Qed.

Lemma slice_prefix (a z : list N) o n :
  o + n <= length a -> MetaModel.slice (a ++ z) (N.of_nat o) (N.of_nat n) = slice a o n.
Proof.
  intro H. unfold MetaModel.slice, slice. rewrite !Nat2N.id.
  rewrite skipn_app. rewrite firstn_app. rewrite skipn_length.
  replace (n - (length a - o)) with 0 by lia. simpl. apply app_nil_r.
Qed.

(* the file inode the reader finds (file_lkind) describes a well-formed file in the sense of C10 *)
Theorem real_reader_wf fid fl d sp f :
  nth_error files fid = Some (fl, d) ->
  (N.of_nat (length d) < 2147483647)%N ->
  finode_of_lkind (file_lkind bs st fid (length d) sp) = Some f ->
  exists cs tail,
    concat cs ++ tail = d /\
    AgreeProofs.wf_file U file (N.of_nat bs) (frag_table_of st) f cs tail.
Proof.
  intros Hn Hsm Hf.
  assert (Hfid : fid < length files) by (apply nth_error_Some; congruence).
  destruct (file_struct fid fl d Hn) as (pds & tail & Hcat & Hdec & Hsz & Hw & Hcl & Hcnt & Htl).
  unfold file_lkind, finode_of_lkind in Hf. inversion Hf; subst f. clear Hf.
  exists (map snd pds), tail. split; [exact Hcat|].
  assert (Hwords : file_words st fid (DedupModel.block_count bs (length d) (has_frag (p_frag st fid)))
                   = map (fun pd => word (fst pd)) pds).
  { unfold file_words. rewrite <- Hcnt. apply map_seq_nth. intros j pd Hj. rewrite (Hw j pd Hj). reflexivity. }
  constructor; cbn [DataModel.f_start DataModel.f_blocks DataModel.f_size DataModel.f_frag_idx DataModel.f_frag_off].
  - (* layout *)
    rewrite Hwords.
    assert (Hh : holds img (p_start st fid, cat (filter stored (map fst pds)))).
    { destruct Hcl as [[Hnil Hz]|Hin].
      - rewrite Hnil, Hz. apply holds_nil. lia.
      - apply holds_img; [eapply claim_holds; eassumption|].
        destruct Hrefs as [_ Rs]. destruct (Rs fid Hfid) as [Hb|Hb]; [left; exact Hb|right].
        cbn [snd].
        destruct (filter stored (map fst pds)) as [|p0 ps0] eqn:Efl; [reflexivity|].
        exfalso.
        assert (Hin0 : In p0 (filter stored (map fst pds))) by (rewrite Efl; left; reflexivity).
        apply filter_In in Hin0. destruct Hin0 as [Hin0 Hst0].
        apply in_map_iff in Hin0. destruct Hin0 as (pd & Epd & Hpd).
        apply In_nth_error in Hpd. destruct Hpd as [j Hj].
        pose proof (Hw j pd Hj) as Hwj. rewrite Epd in Hwj.
        pose proof (Hb j _ Hwj) as Hsp.
        rewrite Forall_forall in Hdec. pose proof (Hdec pd (nth_error_In _ _ Hj)) as Hd0. rewrite Epd in Hd0.
        destruct Hd0 as (_ & Lp & _ & S2).
        unfold stored in Hst0. apply andb_true_iff in Hst0. destruct Hst0 as [Hst1 Hst2].
        apply negb_true_iff in Hst2. apply negb_true_iff in Hst1. apply Nat.eqb_neq in Hst1.
        unfold word in Hsp. rewrite Hst2 in Hsp.
        assert (Hsized : length (snd pd) <= bs).
        { clear - Hsz Hj. revert j Hj Hsz. generalize (length tail). induction pds as [|q qs IH]; intros ex j Hj Hs.
          - destruct j; discriminate.
          - destruct j as [|j]; simpl in Hj.
            + inversion Hj; subst. simpl in Hs. destruct Hs as [Hs _]. lia.
            + simpl in Hs. destruct Hs as [_ Hs]. eapply IH; eassumption. }
        rewrite sw_sparse_of in Hsp by (eapply small_le; [|exact Hsmall]; lia).
        apply Nat.eqb_eq in Hsp. contradiction. }
    destruct Hh as [Hh1 Hh2]. cbn [fst snd] in Hh1, Hh2.
    apply (layout_pds duncompress bs img Hsmall Himg pds (p_start st fid) (length tail)); assumption.
  - (* size *)
    unfold AgreeProofs.total, MetaModel.len. rewrite <- Hcat, app_length. lia.
  - exact Hsm.
  - (* tail *)
    destruct Htl as [[Ht _]|(Hfull & Htlen & i & o & Hfr & Hi & Ho & Hsl)]; [left; exact Ht|right].
    split.
    { rewrite Forall_forall in *. intros c Hc. unfold MetaModel.len. rewrite (Hfull c Hc). reflexivity. }
    split; [unfold MetaModel.len; lia|]. split; [unfold MetaModel.len; lia|].
    rewrite Hfr.
    destruct (frag_on_image i Hi) as (z & FL & Hfl).
    exists (fbd i ++ z), (len (fbd i)). split; [exact FL|].
    split; [unfold MetaModel.len; lia|]. split; [unfold MetaModel.len; lia|].
    unfold MetaModel.len. rewrite slice_prefix by assumption. exact Hsl.
Qed.

End Real.
