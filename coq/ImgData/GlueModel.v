(* ImgData — the glue between C08 (block processor + block writer: [pack]) and Image (sqfs_writer_init /
   sqfs_writer_finish: [write_image]), and a data-reader SPECIFICATION over the bytes of a whole image.
   Definitions only.

   C                                                    model
   sqfs_writer_init: sqfs_super_write, write_options,   [file0]: the bytes of the output file when the block writer is
     then sqfs_block_writer_create(outfile)               created (96 + |options| bytes; only its length matters:
                                                          BoundInv.pack_refs_behind)
   block_writer.c write_data_block: offset =            C08's writer appends at [length (w_file w)]: locations are
     file->get_size(file)                                  absolute file offsets
   the data area                                        data_of: what the writer's file holds behind [file0]
   sqfs_frag_table_t (append (0,0) / set)               frag_table_of: (start offset, size word) for index < p_nfrag
   the file inode the block processor leaves            file_lkind: blocks_start (sqfs_inode_set_file_block_start),
     (backend.c set_block_size, ..set_file_block_start,    file size, the size words 0 .. block count (size | 1 << 24
     ..set_frag_location)                                  for an uncompressed block, 0 for a sparse one), fragment
                                                          index / offset or 0xFFFFFFFF / 0xFFFFFFFF

   Reader side (doc/format.adoc "Data and Fragment Blocks", "File Inodes"): a file is its blocks, stored back to
   back from blocks_start, each [size word mod 2^24] bytes long, compressed iff bit 24 is clear, all zero iff the size
   is 0; followed, if the fragment index is not 0xFFFFFFFF and the size is not a multiple of the block size, by
   [size mod block size] bytes at the fragment offset of the (uncompressed) fragment block the fragment table entry
   points at.  That is C08's [read_file]; here it is run on THE IMAGE: offsets are absolute, the block size comes
   from the super block read from the image, the fragment table is read from the image through its location list
   (Image.ReaderModel.read_frags), the inode is the [LFile] view the tree reader (read_image_tree) returns. *)
From Coq Require Import List NArith Arith Bool.
From SqfsV Require Import C08.DedupModel.
From SqfsV Require C14.SuperModel.
From SqfsV Require Import C01.InodeModel Img.TreeModel Image.FinishModel Image.ReaderModel.
Import ListNotations.

(* ---- writer side: what [pack] leaves for write_image ---- *)

Definition data_of (base : nat) (st : proc) : list N := skipn base (w_file (p_wr st)).

Definition frag_table_of (st : proc) : list (N * N) :=
  map (fun i => (N.of_nat (fst (p_ftab st i)), snd (p_ftab st i))) (seq 0 (p_nfrag st)).

Definition has_frag (fr : option (nat * nat)) : bool := match fr with Some _ => true | None => false end.

(* inode->extra[0 .. block count) *)
Definition file_words (st : proc) (fid count : nat) : list N :=
  map (fun k => match p_size st fid k with Some w => w | None => 0%N end) (seq 0 count).

(* what a reader sees of the file inode (basic or extended; [sparse] is the byte count of the extended inode) *)
Definition file_lkind (bs : nat) (st : proc) (fid size : nat) (sparse : N) : lkind :=
  let fr := p_frag st fid in
  LFile (N.of_nat (p_start st fid)) (N.of_nat size) sparse
        (match fr with Some (i, _) => N.of_nat i | None => NOX end)
        (match fr with Some (_, o) => N.of_nat o | None => NOX end)
        (file_words st fid (DedupModel.block_count bs size (has_frag fr))).

(* ---- reader side ---- *)

(* "no fragment": get_block_count() of read_inode.c tests both fields *)
Definition frag_ref (fi fo : N) : option (nat * nat) :=
  if (fi =? NOX)%N || (fo =? NOX)%N then None else Some (N.to_nat fi, N.to_nat fo).

Definition ftab_of (frags : list (N * N * N)) (i : nat) : nat * N :=
  match nth_error frags i with
  | Some (start, size, _) => (N.to_nat start, size)
  | None => (0, 0%N)
  end.

Section ImageRead.
  Variable muncompress : list N -> option (list N).          (* metadata blocks *)
  Variable duncompress : list N -> nat -> option (list N).   (* data blocks: input, capacity *)

  Definition image_read_kind (img : list N) (bsize : N) (frags : list (N * N * N)) (k : lkind)
    : option (list N) :=
    match k with
    | LFile start size _ fi fo words =>
      DedupModel.read_file duncompress (N.to_nat bsize) img (length frags) (ftab_of frags)
                (N.to_nat start) (nth_error words) (frag_ref fi fo) (N.to_nat size)
    | _ => None
    end.

  (* the contents of the file behind an inode view, from the image bytes alone *)
  Definition image_read_file (img : list N) (k : lkind) : option (list N) :=
    match read_super img with
    | None => None
    | Some s =>
      match read_frags muncompress img s with
      | None => None
      | Some frags => image_read_kind img (SuperModel.s_block_size s) frags k
      end
    end.
End ImageRead.

(* every view that occurs in a tree *)
Fixpoint views (t : ltree) : list lview :=
  match t with
  | LT v ents => v :: flat_map (fun e => views (snd e)) ents
  end.

(* the basic file inode body with exactly these fields (what the block processor leaves for a file without sparse
   blocks; sqfs_inode_make_extended only adds the sparse byte count, the link count and the xattr index) *)
Definition file_body (bs : nat) (st : proc) (fid size : nat) : ibody :=
  let fr := p_frag st fid in
  BFile (N.of_nat (p_start st fid))
        (match fr with Some (i, _) => N.of_nat i | None => NOX end)
        (match fr with Some (_, o) => N.of_nat o | None => NOX end)
        (N.of_nat size)
        (file_words st fid (DedupModel.block_count bs size (has_frag fr))).
