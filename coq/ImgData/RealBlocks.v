(* ImgData — block level of the connection to the model of the REAL data reader (coq/C10/DataModel.v:
   lib/sqfs/src/data_reader.c): what the block processor's worker made of a block ([dec_ok], C08) and the bytes it
   left in the image are exactly what C10 calls "the block stored at [off] with size word [w] unpacks to [c]"
   ([unpacks]), and a run of such blocks is a [layout]. *)
From Coq Require Import List NArith ZArith Arith Bool Lia.
From SqfsV Require Import Gen.Constants.
From SqfsV Require Import C08.DedupModel C08.DedupLemmas C08.DedupWriterProofs C08.DedupReaderProofs.
From SqfsV Require C10.GenC10 C10.MetaModel C10.DataModel C10.DataProofs C10.AgreeProofs.
Import ListNotations.

Notation len := MetaModel.len.

(* the decompressor oracle of C10 (do_block: input, output capacity) made from the one of C08 *)
Definition U_of (duncompress : list N -> nat -> option (list N)) (raw : list N) (k : N) : MetaModel.uresult :=
  match duncompress raw (N.to_nat k) with
  | Some b => MetaModel.UOk b []
  | None => MetaModel.UErr c_SQFS_ERROR_COMPRESSOR
  end.

(* sqfs_file_t.read_at on the image agrees with the list view of C08 *)
Lemma read_at_img (img : list N) off n :
  (N.of_nat (length img) < MetaModel.off_t_limit)%N -> n <> 0 -> off + n <= length img ->
  MetaModel.read_at img (N.of_nat off) (N.of_nat n) = MetaModel.RdOk (slice img off n).
Proof.
  intros Hl Hn Hr. unfold MetaModel.read_at.
  destruct (N.eqb_spec (N.of_nat n) 0) as [E|_]; [lia|].
  destruct (N.leb_spec MetaModel.off_t_limit (N.of_nat off)) as [E|_]; [lia|].
  destruct (N.leb_spec (N.of_nat off + N.of_nat n) (len img)) as [_|E]; [|unfold MetaModel.len in E; lia].
  unfold MetaModel.slice, slice. rewrite !Nat2N.id. reflexivity.
Qed.

(* ---- size words ---- *)
Lemma two24_eq : two24 = GenC10.c10_blk_size_modulus /\ two24 = GenC10.c10_blk_uncompressed_flag.
Proof. split; reflexivity. Qed.

Lemma on_disk_sw n c : small n -> DataModel.on_disk (sw_of n c) = N.of_nat n.
Proof.
  intro H. pose proof (sw_size_of n c H) as E. unfold sw_size in E. unfold DataModel.on_disk.
  change GenC10.c10_blk_size_modulus with two24.
  assert (B : (sw_of n c mod two24 < two24)%N) by (apply N.mod_lt; exact two24_nz). lia.
Qed.

Lemma is_sparse_sw n c : small n -> 0 < n -> DataModel.is_sparse (sw_of n c) = false.
Proof. intros H Hn. unfold DataModel.is_sparse. rewrite on_disk_sw by assumption. apply N.eqb_neq. lia. Qed.

Lemma even_mod2 y : (y mod 2 =? 0)%N = N.even y.
Proof.
  destruct (N.even y) eqn:E.
  - apply N.even_spec in E. destruct E as [k ->]. rewrite N.mul_comm, N.mod_mul by discriminate. reflexivity.
  - assert (O : N.odd y = true) by (rewrite <- N.negb_even, E; reflexivity).
    apply N.odd_spec in O. destruct O as [k ->].
    rewrite N.add_comm, N.mul_comm, N.mod_add by discriminate. reflexivity.
Qed.

Lemma is_compressed_sw n c : small n -> DataModel.is_compressed (sw_of n c) = c.
Proof.
  intro H. pose proof (sw_compressed_of n c H) as E. unfold sw_compressed in E. unfold DataModel.is_compressed.
  change GenC10.c10_blk_uncompressed_flag with two24. rewrite even_mod2. exact E.
Qed.

Lemma is_sparse_zero : DataModel.is_sparse 0 = true.
Proof. reflexivity. Qed.

Lemma on_disk_zero : DataModel.on_disk 0 = 0%N.
Proof. reflexivity. Qed.

Lemma zeros_repeat (d : list N) : d = repeat 0%N (length d) -> d = DataModel.zeros (len d).
Proof. intro H. unfold DataModel.zeros, MetaModel.len. rewrite Nat2N.id. exact H. Qed.

Section Blocks.
Variable duncompress : list N -> nat -> option (list N).
Variable bs : nat.
Variable img : list N.
Hypothesis Hsmall : small bs.
Hypothesis Himg : (N.of_nat (length img) < MetaModel.off_t_limit)%N.

Notation U := (U_of duncompress).
Notation file := (MetaModel.read_at img).
Notation dec_ok := (dec_ok duncompress).

(* on-disk size of what the worker left *)
Definition dsize (p : pblock) : nat := if stored p then length (pb_data p) else 0.

Lemma on_disk_word p d : dec_ok p d -> length d <= bs -> DataModel.on_disk (word p) = N.of_nat (dsize p).
Proof.
  intros (Hd & L & S1 & S2) Hl. unfold word, dsize, stored.
  destruct (pb_sparse p) eqn:Es.
  - rewrite andb_false_r. reflexivity.
  - destruct (S2 eq_refl) as (NE & _).
    destruct (length (pb_data p) =? 0) eqn:E0; [apply length_zero_iff in E0; contradiction|].
    cbn [negb andb]. apply on_disk_sw. eapply small_le; [|exact Hsmall]. lia.
Qed.

Lemma unpacks_pd p d off :
  dec_ok p d -> length d <= bs ->
  (stored p = true -> off + length (pb_data p) <= length img /\ slice img off (length (pb_data p)) = pb_data p) ->
  AgreeProofs.unpacks U file (N.of_nat off) (word p) d.
Proof.
  intros (Hd & L & S1 & S2) Hl Hst. unfold word.
  destruct (pb_sparse p) eqn:Es.
  - destruct (S1 eq_refl) as [Hz _]. apply AgreeProofs.up_sparse; [reflexivity|].
    apply zeros_repeat. apply all_zero_repeat. exact Hz.
  - destruct (S2 eq_refl) as (NE & R1 & R2).
    assert (Hpos : 0 < length (pb_data p)) by (destruct (pb_data p); [contradiction|simpl; lia]).
    assert (Sm : small (length (pb_data p))) by (eapply small_le; [|exact Hsmall]; lia).
    assert (St : stored p = true).
    { unfold stored. rewrite Es. destruct (length (pb_data p) =? 0) eqn:E0; [apply Nat.eqb_eq in E0; lia|reflexivity]. }
    destruct (Hst St) as [Hr Hs].
    assert (Hrd : file (N.of_nat off) (DataModel.on_disk (sw_of (length (pb_data p)) (pb_compressed p)))
                  = MetaModel.RdOk (pb_data p)).
    { rewrite on_disk_sw by assumption. rewrite read_at_img; [rewrite Hs; reflexivity|assumption|lia|assumption]. }
    destruct (pb_compressed p) eqn:Ec.
    + apply (AgreeProofs.up_packed U file _ _ d (pb_data p)).
      * apply is_sparse_sw; assumption.
      * apply is_compressed_sw; assumption.
      * rewrite on_disk_sw by assumption. unfold MetaModel.len. lia.
      * exact Hrd.
      * intros k Hk. exists []. unfold U_of. rewrite (R2 eq_refl (N.to_nat k)); [reflexivity|].
        unfold MetaModel.len in Hk. lia.
    + rewrite (R1 eq_refl) in *. apply AgreeProofs.up_stored.
      * apply is_sparse_sw; assumption.
      * apply is_compressed_sw; assumption.
      * rewrite on_disk_sw by assumption. reflexivity.
      * exact Hrd.
Qed.

(* a run of blocks as the block writer lays it out: [off] is where the stored ones begin *)
Lemma layout_pds : forall (pds : list (pblock * list N)) off extra,
  Forall (fun pd => dec_ok (fst pd) (snd pd)) pds ->
  sized bs extra (map snd pds) ->
  off + length (cat (filter stored (map fst pds))) <= length img ->
  slice img off (length (cat (filter stored (map fst pds)))) = cat (filter stored (map fst pds)) ->
  AgreeProofs.layout U file (N.of_nat bs) (N.of_nat off) (map (fun pd => word (fst pd)) pds) (map snd pds).
Proof.
  induction pds as [|[p d] pds IH]; intros off extra Hdec Hsz Hr Hs; [exact I|].
  inversion Hdec as [|? ? Hd Hdec']; subst. cbn [fst snd] in Hd.
  cbn [map fst snd sized] in Hsz. destruct Hsz as [Hlen Hsz].
  cbn [map fst snd AgreeProofs.layout].
  pose proof Hd as (Hdn & Lp & _).
  assert (Hdl : length d <= bs) by lia.
  assert (Hdp : 0 < length d) by (destruct d; [contradiction|simpl; lia]).
  cbn [map fst filter] in Hr, Hs.
  assert (Hsplit : off + dsize p + length (cat (filter stored (map fst pds))) <= length img /\
                   (stored p = true -> off + length (pb_data p) <= length img /\
                                       slice img off (length (pb_data p)) = pb_data p) /\
                   slice img (off + dsize p) (length (cat (filter stored (map fst pds))))
                   = cat (filter stored (map fst pds))).
  { unfold dsize. destruct (stored p) eqn:Est.
    - rewrite cat_cons, app_length in Hr, Hs. rewrite slice_split in Hs.
      apply app_inj_len in Hs; [|rewrite slice_length by lia; reflexivity].
      destruct Hs as [Hs1 Hs2]. split; [lia|]. split; [intros _; split; [lia|exact Hs1]|exact Hs2].
    - rewrite Nat.add_0_r. split; [lia|]. split; [discriminate|exact Hs]. }
  destruct Hsplit as (Hr' & Hst & Hs').
  split; [apply unpacks_pd; assumption|].
  split; [unfold MetaModel.len; lia|]. split; [unfold MetaModel.len; lia|].
  split.
  { intro Hne. unfold MetaModel.len. f_equal.
    destruct pds as [|[p2 d2] pds2]; [contradiction Hne; reflexivity|].
    inversion Hdec' as [|? ? Hd2 _]; subst. destruct Hd2 as (Hd2n & _). cbn [snd] in Hd2n.
    cbn [map snd concat] in Hlen. rewrite app_length in Hlen.
    assert (0 < length d2) by (destruct d2; [contradiction|simpl; lia]). lia. }
  rewrite (on_disk_word p d Hd Hdl).
  split; [unfold DataModel.u64m; unfold MetaModel.off_t_limit in Himg; lia|].
  replace (N.of_nat off + N.of_nat (dsize p))%N with (N.of_nat (off + dsize p)) by lia.
  apply (IH (off + dsize p) extra Hdec' Hsz); [lia|exact Hs'].
Qed.

End Blocks.
