(* ImgData — the REAL fragment table loader composed: the object model of sqfs_frag_table_read (coq/C08/FragTableModel.v,
   over C05's sqfs_read_table) run on the image bytes that [pack] + [write_image] produce leaves an object that holds
   exactly the table sqfs_frag_table_write was given - whatever the object held before -, so the data reader's table
   (so far ASSUMED to hold the entries of the reader specification read_frags) is what the loader loaded.
   Uses ImgE2E.FragRefine.frag_table_read_written (the stateless C05 loader on a written image). *)
From Coq Require Import List NArith ZArith Arith Bool Lia ZifyBool ZifyNat ZifyN.
From SqfsV Require Import Base.Bytes Gen.Constants C03.Common.
From SqfsV Require C14.SuperModel.
From SqfsV Require Import C01.Res C01.InodeModel Img.TreeModel.
From SqfsV Require Import Image.FinishModel Image.ReaderModel Image.FinishProofs Image.ImageProofs.
From SqfsV Require Import ImgReader.MetaRefine ImgReader.Embed ImgReader.ReadImage.
From SqfsV Require ImgE2E.Hyps ImgE2E.FragRefine.
From SqfsV Require Util.ArrayModel.
From SqfsV Require C05.RBase C05.Super.
From SqfsV Require Import C08.FragTableModel C08.FragTableProofs.
Import ListNotations.
Local Open Scope N_scope.

Lemma frag_entry_length f : length (frag_entry f) = 16%nat.
Proof. unfold frag_entry. rewrite !app_length. unfold le64, le32. rewrite !le_length. reflexivity. Qed.

Lemma chunks_frag_bytes : forall l rest,
  chunks 16 (length l) (frag_table_bytes l ++ rest) = map frag_entry l.
Proof.
  induction l as [|f l IH]; intro rest; [reflexivity|].
  unfold frag_table_bytes in *. cbn [flat_map length chunks map]. rewrite <- app_assoc. f_equal.
  rewrite (FragRefine.skipn_exact (frag_entry f)) by apply frag_entry_length. apply IH.
Qed.

(* the fields sqfs_frag_table_lookup converts back *)
Lemma frag_entry_fields a b : a < 18446744073709551616 -> b < 4294967296 ->
  RBase.fld 8 GenC05.o_sqfs_fragment_t_start_offset (frag_entry (a, b)) = a /\
  RBase.fld 4 GenC05.o_sqfs_fragment_t_size (frag_entry (a, b)) = b /\
  RBase.fld 4 o_pad0 (frag_entry (a, b)) = 0.
Proof.
  intros Ha Hb. unfold frag_entry. cbn [fst snd]. split; [|split].
  - unfold RBase.fld, RBase.rdk. change (RBase.nN GenC05.o_sqfs_fragment_t_start_offset) with 0%nat. cbn [skipn].
    unfold le64. rewrite rd_le by exact Ha. apply N.mod_small. exact Ha.
  - unfold RBase.fld, RBase.rdk. change (RBase.nN GenC05.o_sqfs_fragment_t_size) with 8%nat.
    rewrite (FragRefine.skipn_exact (le64 a)) by apply le_length.
    unfold le32. rewrite rd_le by exact Hb. apply N.mod_small. exact Hb.
  - unfold RBase.fld, RBase.rdk, o_pad0.
    change (RBase.nN (GenC05.o_sqfs_fragment_t_size + 4)) with 12%nat.
    rewrite app_assoc, (FragRefine.skipn_exact (le64 a ++ le32 b))
      by (rewrite app_length; unfold le64, le32; rewrite !le_length; reflexivity).
    reflexivity.
Qed.

Lemma frag_okb_bounds f : frag_okb f = true -> fst f < 18446744073709551616 /\ snd f < 4294967296.
Proof. unfold frag_okb. intro H. apply andb_true_iff in H. destruct H as [A B]. apply N.ltb_lt in A, B. split; assumption. Qed.

(* the (start, size word) view of appended entries *)
Lemma ft_pairs_entries : forall l, forallb frag_okb l = true ->
  map (fun e => (RBase.fld 8 GenC05.o_sqfs_fragment_t_start_offset e, RBase.fld 4 GenC05.o_sqfs_fragment_t_size e))
      (map frag_entry l) = l.
Proof.
  induction l as [|[a b] l IH]; intro F; [reflexivity|].
  cbn [forallb] in F. apply andb_true_iff in F. destruct F as [Fa F].
  destruct (frag_okb_bounds _ Fa) as [Ha Hb]. cbn [fst snd] in Ha, Hb.
  destruct (frag_entry_fields a b Ha Hb) as (E1 & E2 & _).
  cbn [map]. rewrite (IH F), E1, E2. reflexivity.
Qed.

Lemma frag_bytes_nil l : frag_table_bytes l = [] -> l = [].
Proof.
  intro E. destruct l as [|f l]; [reflexivity|]. exfalso.
  assert (L : length (frag_table_bytes (f :: l)) = 0%nat) by (rewrite E; reflexivity).
  unfold frag_table_bytes in L. cbn [flat_map] in L. rewrite app_length, frag_entry_length in L. lia.
Qed.

Section FL.
  Variable compress : list N -> cres.
  Variable uncompress : list N -> option (list N).
  Hypothesis compress_ok :
    forall b c, compress b = CData c -> lenN c <= lenN b /\ uncompress c = Some b.
  Variable limit : N.
  Hypothesis limit_ok : limit <= 65535.
  Variable cfg : wcfg.
  Variable inp : winput.
  Variable w : wimage.
  Hypothesis Hw : write_image compress limit cfg inp = Res.Ok w.
  Hypothesis Hdom : image_domain cfg inp = true.
  Hypothesis Hfit : image_fits w = true.
  Hypothesis Hsmall : lenN (image_bytes w) < RBase.two63.
  Variable uc : list N -> N -> RBase.res (list N).
  Hypothesis uc_ok : uc_meets uncompress uc.

  Notation sf := (w_super w).

  (* the table object after sqfs_frag_table_write's table was appended entry by entry *)
  Definition ft_holding (l : list (N * N)) : ftobj := mk_ft FSZ (nlen l) (nlen l) (map frag_entry l).

  (* sqfs_frag_table_read on the written image: success, and the object holds exactly the written table -
     for EVERY previous content [t] of the object *)
  Theorem ft_read_written fuel t :
    16 * nlen (in_frags inp) <= RBase.alloc_limit -> (Hyps.frag_fuel (nlen (in_frags inp)) <= fuel)%nat ->
    ft_read uc (image_bytes w) fuel (sup_of sf) t = (ft_holding (in_frags inp), RBase.Ok tt).
  Proof.
    intros Hal Hfu.
    pose proof (FragRefine.frag_table_read_written compress uncompress compress_ok limit limit_ok cfg inp w Hw Hdom Hfit
                  Hsmall uc uc_ok fuel Hal Hfu) as RW.
    pose proof (ft_read_c05 uc (image_bytes w) fuel (sup_of sf) t) as C. rewrite RW in C. rewrite C. f_equal.
    pose proof (ImageProofs.layout compress limit cfg inp w Hw Hdom) as [_ _ L3 _ _ _ _ _].
    destruct (ft_early (sup_of sf)) eqn:E.
    - (* an early exit was taken: the C05 loader returned the empty table, so nothing was written *)
      assert (Z : in_frags inp = []).
      { apply frag_bytes_nil.
        assert (Q : Super.frag_table_read uc (image_bytes w) fuel (sup_of sf) = RBase.Ok []).
        { unfold ft_early in E. unfold Super.frag_table_read.
          destruct (negb (N.land (Super.s_flags (sup_of sf)) c_SQFS_FLAG_NO_FRAGMENTS =? 0)); [reflexivity|].
          destruct (Super.s_frag_start (sup_of sf) =? RBase.max64); [reflexivity|].
          destruct (Super.s_frag_count (sup_of sf) =? 0); [reflexivity|discriminate]. }
        rewrite RW in Q. inversion Q. reflexivity. }
      rewrite Z. reflexivity.
    - destruct L3 as [(Z & _ & S & _)|(Z & _ & Cn)].
      + exfalso. unfold ft_early in E. cbn [sup_of Super.s_flags Super.s_frag_start Super.s_frag_count] in E.
        rewrite S in E. change (SuperModel.NO_TABLE =? RBase.max64) with true in E.
        rewrite orb_true_r in E. discriminate.
      + unfold ft_loaded, ft_holding. cbn [sup_of Super.s_frag_count]. rewrite Cn. f_equal.
        change (RBase.nN FSZ) with 16%nat. unfold RBase.nN, nlen. rewrite Nat2N.id.
        rewrite <- (app_nil_r (frag_table_bytes (in_frags inp))). apply chunks_frag_bytes.
  Qed.

  (* what the clients of the object see afterwards *)
  Corollary ft_read_written_view fuel t :
    16 * nlen (in_frags inp) <= RBase.alloc_limit -> (Hyps.frag_fuel (nlen (in_frags inp)) <= fuel)%nat ->
    let t' := fst (ft_read uc (image_bytes w) fuel (sup_of sf) t) in
    snd (ft_read uc (image_bytes w) fuel (sup_of sf) t) = RBase.Ok tt /\
    ft_get_size t' = nlen (in_frags inp) /\
    ft_pairs t' = in_frags inp /\
    (forall i f, nth_error (in_frags inp) i = Some f ->
       ft_lookup t' (N.of_nat i) = RBase.Ok (fst f, snd f, 0)) /\
    (forall idx, nlen (in_frags inp) <= idx -> ft_lookup t' idx = RBase.Err RBase.E_OOB).
  Proof.
    intros Hal Hfu. cbv zeta. rewrite (ft_read_written fuel t Hal Hfu). cbn [fst snd].
    assert (Fk : forallb frag_okb (in_frags inp) = true).
    { pose proof Hdom as D. unfold image_domain in D.
      apply andb_true_iff in D. destruct D as [D _]. apply andb_true_iff in D. destruct D as [D _].
      apply andb_true_iff in D. destruct D as [D _]. apply andb_true_iff in D. destruct D as [_ D]. exact D. }
    split; [reflexivity|]. split; [reflexivity|]. split; [apply (ft_pairs_entries _ Fk)|]. split.
    - intros i f Hn. unfold ft_lookup, ArrayModel.array_get, ft_holding, mk_ft. cbn [ArrayModel.a_used ArrayModel.a_data].
      assert (Hi : (i < length (in_frags inp))%nat) by (apply nth_error_Some; congruence).
      destruct (N.leb_spec (nlen (in_frags inp)) (N.of_nat i)) as [Hle|_]; [unfold nlen in Hle; lia|].
      rewrite nthN_nth_error, Nat2N.id, nth_error_map, Hn. cbn [option_map].
      assert (Ff : frag_okb f = true).
      { rewrite forallb_forall in Fk. apply Fk. eapply nth_error_In. exact Hn. }
      destruct f as [a b]. destruct (frag_okb_bounds _ Ff) as [Ha Hb]. cbn [fst snd] in Ha, Hb |- *.
      destruct (frag_entry_fields a b Ha Hb) as (E1 & E2 & E3). rewrite E1, E2, E3. reflexivity.
    - intros idx Hle. unfold ft_lookup, ArrayModel.array_get, ft_holding, mk_ft. cbn [ArrayModel.a_used].
      destruct (N.leb_spec (nlen (in_frags inp)) idx) as [_|Hlt]; [reflexivity|lia].
  Qed.
End FL.
