(* ImgData — non-vacuity of the real-reader theorem on the image of ImgData/Example.v *)
From Coq Require Import List NArith ZArith Bool.
From SqfsV Require Import Base.Bytes Gen.Constants C03.Common.
From SqfsV Require C14.SuperModel.
From SqfsV Require Import C01.GenC01 C01.Res C01.InodeModel Img.TreeModel.
From SqfsV Require Import Image.FinishModel Image.ReaderModel Image.ImageProofs.
From SqfsV Require Import C08.DedupModel C08.DedupTheorems.
From SqfsV Require Import ImgData.GlueModel ImgData.Example.
Import ListNotations.

(* the model of the REAL data reader (coq/C10/DataModel.v, empty caches, the fragment table read from the image) on
   the same image: sqfs_data_reader_read, the stream reader, _get_fragment and _get_block return the same bytes *)
From SqfsV Require C10.MetaModel C10.DataModel.
From SqfsV Require Import ImgData.RealBlocks ImgData.RealReader ImgData.RealCompose.

Definition ex_out {A} (r : MetaModel.out A) : option A := match r with MetaModel.Ok a => Some a | _ => None end.

Example ex_real_reader :
  match ex_image with
  | Some (st, w) =>
    let img := image_bytes w in
    let U := U_of DedupModel.toy_uncompress in
    let file := MetaModel.read_at img in
    match read_image_tree (img_uncompress 3) img, read_frags (img_uncompress 3) img (w_super w) with
    | Some lt, Some frags =>
      let dr := DataModel.mkDr (reader_table frags) None None in
      reader_table frags = frag_table_of st /\
      (lenN img <? MetaModel.off_t_limit)%N = true /\
      map (fun v => match finode_of_lkind (lv_kind v) with
                    | Some f => ex_out (fst (DataModel.api_read U file 4096 true dr f 0 (DataModel.f_size f)))
                    | None => None end) (views lt)
      = [None; Some ex_A; Some ex_B; Some ex_A; Some ex_D] /\
      map (fun v => match finode_of_lkind (lv_kind v) with
                    | Some f => ex_out (fst (fst (DataModel.stream_read U file 4096 dr (DataModel.stream_create f) 5000)))
                    | None => None end) (views lt)
      = [None; Some ex_A; Some ex_B; Some ex_A; Some ex_D] /\
      map (fun v => match finode_of_lkind (lv_kind v) with
                    | Some f => ex_out (fst (DataModel.api_get_fragment U file 4096 dr f))
                    | None => None end) (views lt)
      = [None; Some [1; 2; 3; 4; 5]%N; Some ex_B; Some [1; 2; 3; 4; 5]%N; Some []] /\
      map (fun v => match finode_of_lkind (lv_kind v) with
                    | Some f => ex_out (DataModel.api_get_block U file 4096 f 0)
                    | None => None end) (views lt)
      = [None; Some (repeat 65%N 4096); None; Some (repeat 65%N 4096); Some ex_D]
    | _, _ => False
    end
  | None => False
  end.
Proof. vm_compute. repeat split; reflexivity. Qed.
