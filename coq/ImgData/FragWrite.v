(* ImgData — sqfs_frag_table_write of the object model (C08.FragTableModel.ft_write, over C03 write_table) is the frag_write step
   of Image.FinishModel.write_image: the bytes, table start, entry count and flag word the image theorems are about are the
   ones the object model produces for an object holding the appended entries. *)
From Coq Require Import List NArith ZArith Bool Lia.
From SqfsV Require Import Base.Bytes Gen.Constants C03.Common.
From SqfsV Require C03.TableModel.
From SqfsV Require Import C01.Res Img.TreeModel Image.FinishModel Image.ImageProofs.
From SqfsV Require Util.ArrayModel.
From SqfsV Require C05.RBase.
From SqfsV Require Import C08.FragTableModel C08.FragTableProofs ImgData.FragLoader.
Import ListNotations.
Local Open Scope N_scope.

Lemma existsb_compressed l : forallb frag_okb l = true ->
  existsb fent_compressed (map frag_entry l) = existsb frag_compressed l.
Proof.
  induction l as [|[a b] l IH]; intro F; [reflexivity|].
  cbn [forallb] in F. apply andb_true_iff in F. destruct F as [Fa F].
  destruct (frag_okb_bounds _ Fa) as [Ha Hb]. cbn [fst snd] in Ha, Hb.
  destruct (frag_entry_fields a b Ha Hb) as (_ & E2 & _).
  cbn [map existsb]. rewrite (IH F). f_equal.
  unfold fent_compressed, frag_compressed. rewrite E2. cbn [snd]. rewrite N.mod_small by exact Hb. reflexivity.
Qed.

(* sqfs_frag_table_write of the object model = the frag_write step of Image.FinishModel.write_image, for an object that
   holds the entries appended for [l] *)
Theorem ft_write_is_frag_write compress size0 l count0 flags cap :
  forallb frag_okb l = true ->
  lift (ft_write compress size0 (mk_ft FSZ cap (nlen l) (map frag_entry l)) count0 flags)
  = frag_write compress size0 l count0 flags.
Proof.
  intro F. unfold ft_write, frag_write, mk_ft. cbn [ArrayModel.a_used ArrayModel.a_data].
  destruct l as [|f l]; [reflexivity|].
  destruct (N.eqb_spec (nlen (f :: l)) 0) as [E|_]; [unfold nlen in E; cbn [length] in E; lia|].
  rewrite <- flat_map_concat_map. fold (frag_table_bytes (f :: l)).
  destruct (TableModel.write_table compress size0 (frag_table_bytes (f :: l))) as [[bytes start]|e|]; cbn [lift Res.bind]; try reflexivity.
  rewrite (existsb_compressed _ F). reflexivity.
Qed.

Example ex_ft_write :
  forallb frag_okb [(96, 300); (4096, 16777516)]%N = true /\
  exists b s, ft_write (fun _ => CStore) 500 (mk_ft FSZ 128 2 (map frag_entry [(96, 300); (4096, 16777516)]%N)) 0 0
              = Common.Ok (b, s, 2, c_SQFS_FLAG_ALWAYS_FRAGMENTS)%N /\ length b = 42%nat.
Proof. vm_compute. split; [reflexivity|]. eexists. eexists. split; reflexivity. Qed.
