(* ImgData — the read-back theorem of the real data reader (RealCompose.image_real_reader_l) with the REAL fragment table
   loader composed: the hypothesis "the reader's table object holds the entries" (d_tbl dr = frag_table_of st) is
   replaced by "the reader's table is what sqfs_frag_table_read left in the object" - after a call on the image bytes,
   on an object with ANY previous content. *)
From Coq Require Import List NArith ZArith Arith Bool Lia.
From SqfsV Require Import Base.Bytes Gen.Constants C03.Common.
From SqfsV Require C14.SuperModel.
From SqfsV Require Import C01.Res C01.InodeModel Img.TreeModel.
From SqfsV Require Import Image.FinishModel Image.ReaderModel Image.FinishProofs Image.ImageProofs.
From SqfsV Require Import C08.DedupModel C08.DedupLemmas C08.DedupPipeProofs C08.DedupTheorems.
From SqfsV Require C10.MetaModel C10.DataModel C10.DataProofs C10.AgreeProofs.
From SqfsV Require Import ImgData.GlueModel ImgData.RealBlocks ImgData.RealReader ImgData.RealCompose.
From SqfsV Require Import ImgReader.Embed ImgReader.ReadImage.
From SqfsV Require ImgE2E.Hyps.
From SqfsV Require C05.RBase.
From SqfsV Require Import C08.FragTableModel C08.FragTableProofs ImgData.FragLoader.
Import ListNotations.

Section Readback.
Variable hashf : list N -> N.
Variable dcompress : list N -> option (list N).
Variable duncompress : list N -> nat -> option (list N).
Variable bs half : nat.
Hypothesis Hdcomp : forall b c, dcompress b = Some c ->
  length c < length b /\ forall n, length b <= n -> duncompress c n = Some b.
Hypothesis Hbs : 0 < bs.
Hypothesis Hmax : (N.of_nat bs <= c_SQFS_MAX_BLOCK_SIZE)%N.
Hypothesis Hhalf : 0 < half.

Variable mcompress : list N -> cres.
Variable muncompress : list N -> option (list N).
Hypothesis Hmcomp : forall b c, mcompress b = CData c -> (lenN c <= lenN b)%N /\ muncompress c = Some b.
Variable limit : N.
Hypothesis Hlimit : (limit <= 65535)%N.

Variable cfg : wcfg.
Variable inp : winput.
Variable w : wimage.
Variable file0 : list N.
Variable files : list (uflags * list N).
Variable sched : list nat.
Variable st : proc.

Hypothesis Hfile0 : length file0 = 96 + length (in_opts inp).
Hypothesis Hcbs : c_block_size cfg = N.of_nat bs.
Hypothesis Hpack : pack hashf dcompress duncompress bs false true half file0 files sched = Ok st.
Hypothesis Hdata : in_data inp = data_of (length file0) st.
Hypothesis Hfrags : in_frags inp = frag_table_of st.
Hypothesis Hw : write_image mcompress limit cfg inp = Res.Ok w.
Hypothesis Hdom : image_domain cfg inp = true.
Hypothesis Hfit : image_fits w = true.
Hypothesis Hoff : (N.of_nat (length (image_bytes w)) < MetaModel.off_t_limit)%N.

(* the metadata decompressor as the C05 meta reader calls it *)
Variable uc : list N -> N -> RBase.res (list N).
Hypothesis uc_ok : uc_meets muncompress uc.
(* the table fits the reader's allocation model (2 GiB) and the loop bound covers its metadata blocks *)
Variable fuel : nat.
Hypothesis Hal : (16 * Res.nlen (frag_table_of st) <= RBase.alloc_limit)%N.
Hypothesis Hfuel : Hyps.frag_fuel (Res.nlen (frag_table_of st)) <= fuel.

Let img := image_bytes w.
Notation U := (U_of duncompress).
Notation file := (MetaModel.read_at img).

Theorem readback_with_real_frag_loader_l (t0 : ftobj) :
  let r := ft_read uc img fuel (sup_of (w_super w)) t0 in
  snd r = RBase.Ok tt /\
  ft_get_size (fst r) = Res.nlen (frag_table_of st) /\
  ft_pairs (fst r) = frag_table_of st /\
  forall fid fl d sp f,
    nth_error files fid = Some (fl, d) ->
    (N.of_nat (length d) < 2147483647)%N ->
    finode_of_lkind (file_lkind bs st fid (length d) sp) = Some f ->
    forall dr, DataProofs.dcoherent U file (N.of_nat bs) dr -> DataModel.d_tbl dr = ft_pairs (fst r) ->
      fst (DataModel.api_read U file (N.of_nat bs) true dr f 0 (DataModel.f_size f)) = MetaModel.Ok d /\
      (forall n, (DataModel.f_size f <= n)%N ->
         fst (fst (DataModel.stream_read U file (N.of_nat bs) dr (DataModel.stream_create f) n)) = MetaModel.Ok d) /\
      exists tail, fst (DataModel.api_get_fragment U file (N.of_nat bs) dr f) = MetaModel.Ok tail.
Proof.
  cbv zeta.
  assert (Hsm : (lenN (image_bytes w) < RBase.two63)%N) by exact Hoff.
  rewrite <- Hfrags in Hal, Hfuel.
  destruct (ft_read_written_view mcompress muncompress Hmcomp limit Hlimit cfg inp w Hw Hdom Hfit Hsm uc uc_ok fuel t0
              Hal Hfuel) as (R1 & R2 & R3 & _).
  fold img in R1, R2, R3. rewrite Hfrags in R2, R3.
  split; [exact R1|]. split; [exact R2|]. split; [exact R3|].
  intros fid fl d sp f Hn Hsz Hf dr Hc Ht. rewrite R3 in Ht.
  destruct (image_real_reader_l hashf dcompress duncompress bs half Hdcomp Hbs Hmax Hhalf mcompress muncompress Hmcomp
              limit Hlimit cfg inp w file0 files sched st Hfile0 Hcbs Hpack Hdata Hw Hdom Hfit Hoff
              fid fl d sp f Hn Hsz Hf) as (cs & tail & _ & _ & A & _).
  destruct (A dr Hc Ht) as (A1 & A2 & A3).
  split; [exact A1|]. split; [exact A3|]. exists tail. exact A2.
Qed.
End Readback.
