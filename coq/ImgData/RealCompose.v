(* ImgData — the model of the REAL data reader (coq/C10/DataModel.v: sqfs_data_reader_read, _get_block,
   _get_fragment, the stream reader) on the image that [pack] + [write_image] produce: every file inode view that
   carries what pack recorded describes a well-formed file (AgreeProofs.wf_file, so far a hypothesis of C10's
   agreement theorems), hence all four APIs return the input bytes. *)
From Coq Require Import List NArith ZArith Arith Bool Lia ZifyBool ZifyNat ZifyN.
From SqfsV Require Import Base.Bytes Gen.Constants C03.Common.
From SqfsV Require C14.SuperModel.
From SqfsV Require Import C01.Res C01.InodeModel Img.TreeModel.
From SqfsV Require Import Image.FinishModel Image.ReaderModel Image.FinishProofs Image.ImageProofs.
From SqfsV Require Import C08.DedupModel C08.DedupLemmas C08.DedupPipeProofs C08.DedupTheorems.
From SqfsV Require C10.MetaModel C10.DataModel C10.DataProofs C10.AgreeProofs.
From SqfsV Require Import ImgData.GlueModel ImgData.BoundInv ImgData.ShiftProofs ImgData.Compose
  ImgData.RealBlocks ImgData.RealReader.
Import ListNotations.

(* the fragment table object of the data reader: (start, size word) of every entry read from the image *)
Definition reader_table (frags : list (N * N * N)) : list (N * N) :=
  map (fun e => (fst (fst e), snd (fst e))) frags.

Lemma reader_table_roundtrip (l : list (N * N)) :
  reader_table (map (fun f : N * N => (fst f, snd f, 0%N)) l) = l.
Proof.
  unfold reader_table. rewrite map_map. cbn [fst snd].
  induction l as [|[a b] l IH]; [reflexivity|]. cbn [map fst snd]. rewrite IH. reflexivity.
Qed.

Section RealCompose.
Variable hashf : list N -> N.
Variable dcompress : list N -> option (list N).
Variable duncompress : list N -> nat -> option (list N).
Variable bs half : nat.
Hypothesis Hdcomp : forall b c, dcompress b = Some c ->
  length c < length b /\ forall n, length b <= n -> duncompress c n = Some b.
Hypothesis Hbs : 0 < bs.
Hypothesis Hmax : (N.of_nat bs <= c_SQFS_MAX_BLOCK_SIZE)%N.
Hypothesis Hhalf : 0 < half.

Variable mcompress : list N -> cres.
Variable muncompress : list N -> option (list N).
Hypothesis Hmcomp : forall b c, mcompress b = CData c -> (lenN c <= lenN b)%N /\ muncompress c = Some b.
Variable limit : N.
Hypothesis Hlimit : (limit <= 65535)%N.

Variable cfg : wcfg.
Variable inp : winput.
Variable w : wimage.
Variable file0 : list N.
Variable files : list (uflags * list N).
Variable sched : list nat.
Variable st : proc.

Hypothesis Hfile0 : length file0 = 96 + length (in_opts inp).
Hypothesis Hcbs : c_block_size cfg = N.of_nat bs.
Hypothesis Hpack : pack hashf dcompress duncompress bs false true half file0 files sched = Ok st.
Hypothesis Hdata : in_data inp = data_of (length file0) st.
Hypothesis Hfrags : in_frags inp = frag_table_of st.
Hypothesis Hw : write_image mcompress limit cfg inp = Res.Ok w.
Hypothesis Hdom : image_domain cfg inp = true.
Hypothesis Hfit : image_fits w = true.
(* pread(2) refuses offsets from 2^63 on *)
Hypothesis Hoff : (N.of_nat (length (image_bytes w)) < MetaModel.off_t_limit)%N.

Let img := image_bytes w.
Notation U := (U_of duncompress).
Notation file := (MetaModel.read_at img).

Lemma image_len_ge : length (w_file (p_wr st)) <= length img.
Proof.
  destruct (dedup_sound_l hashf dcompress duncompress bs half Hdcomp Hbs Hmax Hhalf file0 files sched)
    as (st' & E & _ & Hpre).
  rewrite Hpack in E. inversion E; subst st'. clear E.
  pose proof (image_layout_l mcompress muncompress Hmcomp limit Hlimit cfg inp w Hw Hdom Hfit (c_devblk cfg) eq_refl)
    as [Hb Hs _ _ _ _ _ _ _ _ _ _].
  assert (Hwf : w_file (p_wr st) = file0 ++ in_data inp).
  { rewrite Hdata. unfold data_of. rewrite <- Hpre at 1. symmetry. apply firstn_skipn. }
  unfold img. rewrite Hb, Hwf, !app_length. unfold lenN in Hs. lia.
Qed.

(* the table the reader holds after loading it from the image is the one pack left *)
Lemma image_reader_table :
  exists frags, read_frags muncompress img (w_super w) = Some frags /\ reader_table frags = frag_table_of st.
Proof.
  eexists. split.
  - unfold img. apply (frags_roundtrip_l mcompress muncompress Hmcomp limit Hlimit cfg inp w Hw Hdom Hfit).
  - rewrite Hfrags. apply reader_table_roundtrip.
Qed.

Theorem image_real_reader_l fid fl d sp f :
  nth_error files fid = Some (fl, d) ->
  (N.of_nat (length d) < 2147483647)%N ->
  finode_of_lkind (file_lkind bs st fid (length d) sp) = Some f ->
  exists cs tail,
    concat cs ++ tail = d /\
    AgreeProofs.wf_file U file (N.of_nat bs) (frag_table_of st) f cs tail /\
    (forall dr, DataProofs.dcoherent U file (N.of_nat bs) dr -> DataModel.d_tbl dr = frag_table_of st ->
       fst (DataModel.api_read U file (N.of_nat bs) true dr f 0 (DataModel.f_size f)) = MetaModel.Ok d /\
       fst (DataModel.api_get_fragment U file (N.of_nat bs) dr f) = MetaModel.Ok tail /\
       forall n, (DataModel.f_size f <= n)%N ->
         fst (fst (DataModel.stream_read U file (N.of_nat bs) dr (DataModel.stream_create f) n)) = MetaModel.Ok d) /\
    (forall i, i < length cs ->
       DataModel.api_get_block U file (N.of_nat bs) f (N.of_nat i) = MetaModel.Ok (nth i cs [])).
Proof.
  intros Hn Hsm Hf.
  destruct (pack_inv hashf dcompress duncompress bs half (length file0) Hdcomp Hbs
              (max_block_size_small bs Hmax) Hhalf files file0 sched eq_refl)
    as (st' & claims & fbd & E & PI & Hfb & _).
  rewrite Hpack in E. inversion E; subst st'. clear E.
  pose proof (pack_refs_behind hashf dcompress duncompress bs false true half file0 files sched st Hpack) as Hrefs.
  pose proof (pack_no_block_start hashf dcompress duncompress bs false true half file0 files sched st Hpack) as Hnob.
  pose proof (image_agrees hashf dcompress duncompress bs half Hdcomp Hbs Hmax Hhalf mcompress muncompress Hmcomp
                limit Hlimit cfg inp w file0 files sched st Hfile0 Hcbs Hpack Hdata Hw Hdom Hfit) as Hag.
  destruct (real_reader_wf hashf dcompress duncompress bs half Hdcomp Hbs (max_block_size_small bs Hmax) Hhalf
              files (length file0) st claims fbd PI Hfb Hrefs Hnob img Hag image_len_ge Hoff fid fl d sp f Hn Hsm Hf)
    as (cs & tail & Hcat & WF).
  assert (Hbp : (0 < N.of_nat bs)%N) by lia.
  exists cs, tail. split; [exact Hcat|]. split; [exact WF|]. split.
  - intros dr Hc Ht. split; [|split].
    + rewrite (AgreeProofs.agree_read U file (N.of_nat bs) Hbp _ f cs tail dr WF Hc Ht). rewrite Hcat. reflexivity.
    + apply (AgreeProofs.agree_get_fragment U file (N.of_nat bs) Hbp _ f cs tail dr WF Hc Ht).
    + intros n Hle.
      rewrite (AgreeProofs.agree_stream U file (N.of_nat bs) Hbp _ f cs tail dr n WF Hc Ht Hle). rewrite Hcat. reflexivity.
  - intros i Hi. apply (AgreeProofs.agree_get_block U file (N.of_nat bs) Hbp _ f cs tail i WF Hi).
Qed.

End RealCompose.
