(* ImgData — the shift lemma: C08's data reader gives the same answer on any file that agrees with the
   writer's file from [base] on (the image: same data area, rewritten super block in front, tables and padding
   behind), provided nothing is read in front of [base] (BoundInv), and it looks at the size words, the fragment
   table and the file only where the format says so. *)
From Coq Require Import List NArith Arith Bool Lia.
From SqfsV Require Import C08.DedupModel C08.DedupLemmas.
From SqfsV Require Import ImgData.GlueModel.
Import ListNotations.

Section Shift.
Variable uncompress : list N -> nat -> option (list N).
Variable bs base : nat.

(* every read at or behind [base] that succeeds on [f] gives the same bytes on [f'] *)
Definition agree (f f' : list N) : Prop :=
  forall off n x, base <= off -> read_at f off n = Some x -> read_at f' off n = Some x.

Lemma agree_app pre pre' mid rest :
  length pre = base -> length pre' = base -> agree (pre ++ mid) (pre' ++ mid ++ rest).
Proof.
  intros L L' off n x Hb H. apply read_at_some in H. destruct H as [Hlen ->].
  rewrite app_length in Hlen.
  apply read_at_some. split.
  - rewrite !app_length. lia.
  - assert (E1 : slice (pre ++ mid) off n = slice mid (off - base) n).
    { replace off with (length pre + (off - base)) at 1 by lia. apply slice_app_r. }
    assert (E2 : slice (pre' ++ mid ++ rest) off n = slice (mid ++ rest) (off - base) n).
    { replace off with (length pre' + (off - base)) at 1 by lia. apply slice_app_r. }
    rewrite E1, E2. symmetry. apply slice_app_l. lia.
Qed.

Lemma decode_agree f f' off w maxsz b :
  agree f f' -> (sw_sparse w = true \/ base <= off) ->
  decode_block uncompress f off w maxsz = Some b -> decode_block uncompress f' off w maxsz = Some b.
Proof.
  intros HA Hb H. unfold decode_block in *.
  destruct (sw_sparse w) eqn:Es; [assumption|].
  destruct Hb as [Hb|Hb]; [discriminate|].
  destruct (maxsz <? sw_size w); [discriminate|].
  destruct (read_at f off (sw_size w)) as [raw|] eqn:Er; [|discriminate].
  rewrite (HA _ _ _ Hb Er). assumption.
Qed.

Lemma read_blocks_agree f f' sizes sizes' : agree f f' -> forall count k off rem d,
  read_blocks uncompress bs f sizes count k off rem = Some d ->
  (base <= off \/ forall j w, sizes j = Some w -> sw_sparse w = true) ->
  (forall j w, k <= j < k + count -> sizes j = Some w -> sizes' j = Some w) ->
  read_blocks uncompress bs f' sizes' count k off rem = Some d.
Proof.
  intro HA. induction count as [|count IH]; intros k off rem d H Hb Hs; [exact H|].
  cbn [read_blocks] in *.
  destruct (sizes k) as [w|] eqn:Ew; [|discriminate].
  rewrite (Hs k w ltac:(lia) Ew).
  assert (Hs' : forall j w0, S k <= j < S k + count -> sizes j = Some w0 -> sizes' j = Some w0).
  { intros j w0 Hj. apply Hs. lia. }
  destruct (sw_sparse w) eqn:Es.
  - destruct (read_blocks uncompress bs f sizes count (S k) off (rem - Nat.min bs rem)) as [r|] eqn:Er;
      [|discriminate].
    rewrite (IH _ _ _ _ Er Hb Hs'). assumption.
  - assert (Hoff : base <= off).
    { destruct Hb as [Hb|Hb]; [assumption|]. rewrite (Hb k w Ew) in Es. discriminate. }
    destruct (decode_block uncompress f off w bs) as [b|] eqn:Ed; [|discriminate].
    rewrite (decode_agree f f' off w bs b HA (or_intror Hoff) Ed).
    destruct (length b =? Nat.min bs rem); [|discriminate].
    destruct (read_blocks uncompress bs f sizes count (S k) (off + sw_size w) (rem - Nat.min bs rem)) as [r|] eqn:Er;
      [|discriminate].
    assert (Hoff' : base <= off + sw_size w) by lia.
    rewrite (IH _ _ _ _ Er (or_introl Hoff') Hs'). assumption.
Qed.

Lemma read_file_agree f f' nfrag ftab ftab' start sizes sizes' frag size d :
  agree f f' ->
  read_file uncompress bs f nfrag ftab start sizes frag size = Some d ->
  (base <= start \/ forall j w, sizes j = Some w -> sw_sparse w = true) ->
  (forall j w, j < block_count bs size (has_frag frag) -> sizes j = Some w -> sizes' j = Some w) ->
  (forall i, i < nfrag -> ftab' i = ftab i) ->
  (forall i, ftab i = (0, 0%N) \/ base <= fst (ftab i)) ->
  read_file uncompress bs f' nfrag ftab' start sizes' frag size = Some d.
Proof.
  intros HA H Hb Hs Hf Hfb. unfold read_file in *.
  fold (has_frag frag) in *.
  destruct (read_blocks uncompress bs f sizes (block_count bs size (has_frag frag)) 0 start size) as [blocks|] eqn:Er;
    [|discriminate].
  rewrite (read_blocks_agree f f' sizes sizes' HA _ _ _ _ _ Er Hb).
  2:{ intros j w Hj. apply Hs. lia. }
  destruct frag as [[i o]|]; [|assumption].
  destruct (size mod bs =? 0); [assumption|].
  destruct (i <? nfrag) eqn:Ei; [|discriminate].
  apply Nat.ltb_lt in Ei. rewrite (Hf i Ei).
  destruct (ftab i) as [loc w] eqn:Et.
  destruct (decode_block uncompress f loc w bs) as [fb|] eqn:Ed; [|discriminate].
  rewrite (decode_agree f f' loc w bs fb HA); [assumption| |exact Ed].
  destruct (Hfb i) as [Hz|Hz]; rewrite Et in Hz.
  - inversion Hz. left. apply sw_sparse_zero.
  - right. exact Hz.
Qed.

End Shift.
