(* ImgData — non-vacuity: a concrete run of the whole chain.  Four files, block size 4096, constant checksum (every
   block and every tail collides), C08's toy run-length data compressor, the zero-run-length metadata compressor:
     a  4096 x 'A' ++ 5 bytes     one compressed data block + a tail end in the fragment block
     b  3 bytes                   tail end only (same fragment block)
     c  = a                       shares block start and fragment reference with a
     d  4096 non-repeating bytes  one uncompressed data block, no tail
   packed by [pack] behind a 96 byte provisional super block, written by [write_image], read back from the image
   bytes by the reader specification. *)
From Coq Require Import List NArith ZArith Bool.
From SqfsV Require Import Base.Bytes Gen.Constants C03.Common.
From SqfsV Require C14.SuperModel.
From SqfsV Require Import C01.GenC01 C01.Res C01.InodeModel Img.TreeModel.
From SqfsV Require Import Image.FinishModel Image.ReaderModel Image.ImageProofs.
From SqfsV Require Import C08.DedupModel C08.DedupTheorems.
From SqfsV Require Import ImgData.GlueModel.
Import ListNotations.

Definition ex_A : list N := repeat 65%N 4096 ++ [1; 2; 3; 4; 5]%N.
Definition ex_B : list N := [9; 8; 7]%N.
Definition ex_D : list N := map (fun i => N.of_nat (i mod 251)) (seq 0 4096).
Definition ex_files : list (uflags * list N) := [(fl0, ex_A); (fl0, ex_B); (fl0, ex_A); (fl0, ex_D)].
Definition ex_file0 : list N := repeat 170%N 96.        (* the provisional super block: only its length matters *)

Definition ex_pack : DedupModel.res proc :=
  pack const_hash DedupModel.toy_compress DedupModel.toy_uncompress 4096 false true 4096 ex_file0 ex_files [0; 1].

Definition ex_file_node (st : proc) (fid : nat) (d : list N) : fnode :=
  mkFnode 33188 1000 100 1600000000 1 NOX (PFile (file_body 4096 st fid (length d))).

(* /a /b /c /d; inode numbers 1 .. 4, root 5 *)
Definition ex_tree (st : proc) : fstree :=
  [ ex_file_node st 0 ex_A; ex_file_node st 1 ex_B; ex_file_node st 2 ex_A; ex_file_node st 3 ex_D;
    mkFnode 16877 0 0 0 2 NOX (PDir 0 [([97], 1); ([98], 2); ([99], 3); ([100], 4)]%N) ].

Definition ex_cfg : wcfg := mkCfg 4096 77 1 4096 true true.
Definition ex_inp (st : proc) : winput := mkIn [] (data_of 96 st) (frag_table_of st) (ex_tree st) None.

Definition ex_image : option (proc * wimage) :=
  match ex_pack with
  | DedupModel.Ok st =>
    match write_image (img_compress 3) c_id_table_limit ex_cfg (ex_inp st) with
    | Res.Ok w => Some (st, w)
    | _ => None
    end
  | _ => None
  end.

(* the hypotheses of image_file_contents_roundtrip hold *)
Example ex_hyps :
  match ex_image with
  | Some (st, w) =>
    ex_pack = DedupModel.Ok st /\
    write_image (img_compress 3) c_id_table_limit ex_cfg (ex_inp st) = Res.Ok w /\
    length ex_file0 = 96 + length (in_opts (ex_inp st)) /\
    c_block_size ex_cfg = N.of_nat 4096 /\
    in_data (ex_inp st) = data_of (length ex_file0) st /\ in_frags (ex_inp st) = frag_table_of st /\
    image_domain ex_cfg (ex_inp st) = true /\ image_fits w = true /\
    (* every file inode of the tree carries what pack recorded *)
    map (fun n => lkind_of_payload (fn_payload n)) (firstn 4 (ex_tree st)) =
      [file_lkind 4096 st 0 (length ex_A) 0; file_lkind 4096 st 1 (length ex_B) 0;
       file_lkind 4096 st 2 (length ex_A) 0; file_lkind 4096 st 3 (length ex_D) 0]
  | None => False
  end.
Proof. vm_compute. repeat split; reflexivity. Qed.

(* and its conclusion computes: the tree read from the image, the contents behind every inode view of it (the root
   directory has none), and what the image looks like: one compressed 4 byte block at 96, one uncompressed
   8 byte fragment block, one uncompressed 4096 byte block; a and c share everything *)
Example ex_reads_back :
  match ex_image with
  | Some (st, w) =>
    let img := image_bytes w in
    match read_image_tree (img_uncompress 3) img with
    | Some lt =>
      Some lt = spec_tree (ex_tree st) 5 5 /\
      map (fun v => image_read_file (img_uncompress 3) DedupModel.toy_uncompress img (lv_kind v)) (views lt)
      = [None; Some ex_A; Some ex_B; Some ex_A; Some ex_D] /\
      map lv_kind (views lt)
      = [LDir 0;
         LFile 96 4101 0 0 0 [4]; LFile 0 3 0 0 5 []; LFile 96 4101 0 0 0 [4]; LFile 100 4096 0 NOX NOX [16781312]]%N /\
      read_frags (img_uncompress 3) img (w_super w) = Some [(4196, 16777224, 0)]%N /\
      lenN img = 8192%N
    | None => False
    end
  | None => False
  end.
Proof. vm_compute. repeat split; reflexivity. Qed.
