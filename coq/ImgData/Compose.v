(* ImgData — composition C08 x Image: the contents of every file, read FROM THE IMAGE BYTES, are the input bytes.

   pack (C08: block processor + block writer, any checksum function)         dedup_sound_l, pack_inv
     -> every recorded location lies in the data area                          BoundInv.pack_refs_behind
   write_image (Image: init.c + finish.c) places the data area verbatim        image_layout_l (il_bytes)
     behind super block + options and never touches it again
     -> the data reader gives the same answer on the image                     ShiftProofs.read_file_agree
   the reader specification finds block size / fragment table / inode          super_roundtrip_l, frags_roundtrip_l,
     in the image                                                              tree_roundtrip_image_l *)
From Coq Require Import List NArith ZArith Arith Bool Lia ZifyBool ZifyNat ZifyN.
From SqfsV Require Import Base.Bytes Gen.Constants C03.Common.
From SqfsV Require C14.SuperModel.
From SqfsV Require Import C01.Res C01.InodeModel Img.TreeModel.
From SqfsV Require Import Image.FinishModel Image.ReaderModel Image.FinishProofs Image.ImageProofs.
From SqfsV Require Import C08.DedupModel C08.DedupLemmas C08.DedupPipeProofs C08.DedupTheorems.
From SqfsV Require Import ImgData.GlueModel ImgData.BoundInv ImgData.ShiftProofs.
Import ListNotations.

(* ---------------------------------------------------------------------- *)
(* the views of spec_tree are the views of the nodes of the tree *)

Lemma spec_ents_in st : forall ch ents, spec_ents st ch = Some ents ->
  forall e, In e ents -> exists c, st c = Some (snd e).
Proof.
  induction ch as [|[nm c] r IH]; intros ents H e He; cbn [spec_ents] in H.
  - inversion H; subst. destruct He.
  - destruct (st c) as [s|] eqn:Es; [|discriminate].
    destruct (spec_ents st r) as [rest|] eqn:Er; [|discriminate].
    inversion H; subst. destruct He as [<-|He].
    + exists c. exact Es.
    + eapply IH; [reflexivity|exact He].
Qed.

Lemma spec_tree_views t : forall fuel ino lt, spec_tree t fuel ino = Some lt ->
  forall v, In v (views lt) ->
  exists n, get t (lv_ino v) = Some n /\ v = lview_of_fnode (lv_ino v) n.
Proof.
  induction fuel as [|f IH]; intros ino lt H v Hv; cbn [spec_tree] in H; [discriminate|].
  destruct (get t ino) as [n|] eqn:En; [|discriminate].
  assert (Hleaf : lt = LT (lview_of_fnode ino n) [] ->
                  exists n0, get t (lv_ino v) = Some n0 /\ v = lview_of_fnode (lv_ino v) n0).
  { intros ->. cbn [views flat_map] in Hv. destruct Hv as [<-|[]]. exists n. split; [exact En|reflexivity]. }
  destruct (fn_payload n) as [par ch| | | |] eqn:Ep; try (apply Hleaf; inversion H; reflexivity).
  destruct (spec_ents (spec_tree t f) ch) as [ents|] eqn:Ee; [|discriminate].
  inversion H; subst lt. cbn [views] in Hv. destruct Hv as [<-|Hv].
  - exists n. split; [exact En|reflexivity].
  - apply in_flat_map in Hv. destruct Hv as (e & He & Hv).
    destruct (spec_ents_in _ _ _ Ee e He) as (c & Hc).
    eapply IH; eassumption.
Qed.

(* ---------------------------------------------------------------------- *)
(* small facts *)

Lemma nth_error_map_seq {A} (g : nat -> A) n j : j < n -> nth_error (map g (seq 0 n)) j = Some (g j).
Proof.
  intro H. rewrite nth_error_map.
  assert (E : nth_error (seq 0 n) j = Some j).
  { rewrite (nth_error_nth' _ 0) by (rewrite seq_length; assumption). rewrite seq_nth by assumption. reflexivity. }
  rewrite E. reflexivity.
Qed.

Lemma ftab_of_frags st i : i < p_nfrag st ->
  ftab_of (map (fun f : N * N => (fst f, snd f, 0%N)) (frag_table_of st)) i = p_ftab st i.
Proof.
  intro H. unfold ftab_of, frag_table_of. rewrite map_map.
  rewrite (nth_error_map_seq _ _ _ H). cbn [fst snd]. rewrite Nat2N.id. destruct (p_ftab st i); reflexivity.
Qed.

Lemma frags_length st : length (map (fun f : N * N => (fst f, snd f, 0%N)) (frag_table_of st)) = p_nfrag st.
Proof. unfold frag_table_of. rewrite !map_length, seq_length. reflexivity. Qed.

(* a fragment reference is irrelevant for a file whose size is a multiple of the block size *)
Lemma read_file_no_tail uncompress bs f nfrag ftab start sizes frag size :
  size mod bs = 0 ->
  read_file uncompress bs f nfrag ftab start sizes frag size
  = read_file uncompress bs f nfrag ftab start sizes None size.
Proof.
  intro Hm. unfold read_file, DedupModel.block_count. rewrite Hm. cbn [Nat.eqb].
  destruct (read_blocks uncompress bs f sizes (size / bs) 0 start size); [|destruct frag as [[? ?]|]; reflexivity].
  destruct frag as [[i o]|]; reflexivity.
Qed.

(* ---------------------------------------------------------------------- *)
(* the fragment references of a finished run fit the 32 bit fields and are not "no fragment" *)

Section FragBounds.
Variable hashf : list N -> N.
Variable compress : list N -> option (list N).
Variable uncompress : list N -> nat -> option (list N).
Variable bs half : nat.
Hypothesis Hcomp : forall b c, compress b = Some c ->
  length c < length b /\ forall n, length b <= n -> uncompress c n = Some b.
Hypothesis Hbs : 0 < bs.
Hypothesis Hmax : (N.of_nat bs <= c_SQFS_MAX_BLOCK_SIZE)%N.
Hypothesis Hhalf : 0 < half.

Lemma pack_frag_bounds file0 files sched st :
  pack hashf compress uncompress bs false true half file0 files sched = Ok st ->
  forall fid i o, p_frag st fid = Some (i, o) -> i < p_nfrag st /\ o <= bs.
Proof.
  intros HP fid i o Hf.
  destruct (pack_inv hashf compress uncompress bs half (length file0) Hcomp Hbs
              (max_block_size_small bs Hmax) Hhalf files file0 sched eq_refl)
    as (st' & claims & fbd & E & PI & Hfb & _).
  rewrite HP in E. inversion E; subst st'. clear E.
  destruct PI as [_ _ _ _ _ P6 _ _ _ _ P11 _ _].
  destruct (P11 fid i o Hf) as (_ & t & _ & Hi & Ho & _).
  split; [exact Hi|].
  destruct (P6 i Hi) as [(fb & C & _)|[[]|(loc & p & _ & _ & _ & _ & [_ Hl])]]; [congruence|]. lia.
Qed.

End FragBounds.

(* ---------------------------------------------------------------------- *)
(* the composition *)

Section Compose.
Variable hashf : list N -> N.
Variable dcompress : list N -> option (list N).
Variable duncompress : list N -> nat -> option (list N).
Variable bs half : nat.
Hypothesis Hdcomp : forall b c, dcompress b = Some c ->
  length c < length b /\ forall n, length b <= n -> duncompress c n = Some b.
Hypothesis Hbs : 0 < bs.
Hypothesis Hmax : (N.of_nat bs <= c_SQFS_MAX_BLOCK_SIZE)%N.
Hypothesis Hhalf : 0 < half.

Variable mcompress : list N -> cres.
Variable muncompress : list N -> option (list N).
Hypothesis Hmcomp : forall b c, mcompress b = CData c -> (lenN c <= lenN b)%N /\ muncompress c = Some b.
Variable limit : N.
Hypothesis Hlimit : (limit <= 65535)%N.

Variable cfg : wcfg.
Variable inp : winput.
Variable w : wimage.
Variable file0 : list N.
Variable files : list (uflags * list N).
Variable sched : list nat.
Variable st : proc.

Hypothesis Hfile0 : length file0 = 96 + length (in_opts inp).
Hypothesis Hcbs : c_block_size cfg = N.of_nat bs.
Hypothesis Hpack : pack hashf dcompress duncompress bs false true half file0 files sched = Ok st.
Hypothesis Hdata : in_data inp = data_of (length file0) st.
Hypothesis Hfrags : in_frags inp = frag_table_of st.
Hypothesis Hw : write_image mcompress limit cfg inp = Res.Ok w.
Hypothesis Hdom : image_domain cfg inp = true.
Hypothesis Hfit : image_fits w = true.

Let img := image_bytes w.
Let base := length file0.

Lemma image_agrees : agree base (w_file (p_wr st)) img.
Proof.
  destruct (dedup_sound_l hashf dcompress duncompress bs half Hdcomp Hbs Hmax Hhalf file0 files sched)
    as (st' & E & _ & Hpre).
  rewrite Hpack in E. inversion E; subst st'. clear E.
  pose proof (image_layout_l mcompress muncompress Hmcomp limit Hlimit cfg inp w Hw Hdom Hfit (c_devblk cfg) eq_refl)
    as [Hb Hs _ _ _ _ _ _ _ _ _ _].
  assert (Hwf : w_file (p_wr st) = file0 ++ in_data inp).
  { rewrite Hdata. unfold data_of. rewrite <- Hpre at 1. symmetry. apply firstn_skipn. }
  unfold img. rewrite Hb, Hwf.
  replace (SuperModel.encode (w_super w) ++ in_opts inp ++ in_data inp ++ si_itbl (w_img w) ++ si_dtbl (w_img w) ++
           w_fragb w ++ w_exportb w ++ w_idb w ++ w_xattrb w ++ zeros (w_pad w))
    with ((SuperModel.encode (w_super w) ++ in_opts inp) ++ in_data inp ++
          (si_itbl (w_img w) ++ si_dtbl (w_img w) ++ w_fragb w ++ w_exportb w ++ w_idb w ++ w_xattrb w ++
           zeros (w_pad w)))
    by (rewrite <- !app_assoc; reflexivity).
  apply agree_app; [reflexivity|].
  rewrite app_length. unfold base. rewrite Hfile0. unfold lenN in Hs. lia.
Qed.

Lemma nfrag_fits : (N.of_nat (p_nfrag st) < 4294967296)%N.
Proof.
  pose proof Hdom as D. unfold image_domain in D.
  apply andb_true_iff in D. destruct D as [D _]. apply andb_true_iff in D. destruct D as [D _].
  apply andb_true_iff in D. destruct D as [_ Hn].
  rewrite Hfrags in Hn. unfold nlen, frag_table_of in Hn. rewrite map_length, seq_length in Hn. lia.
Qed.

(* the reader specification, run on the image with the inode view [file_lkind] *)
Theorem image_read_recorded fid fl d sp :
  nth_error files fid = Some (fl, d) ->
  image_read_file muncompress duncompress img (file_lkind bs st fid (length d) sp) = Some d.
Proof.
  intro Hn.
  destruct (dedup_sound_l hashf dcompress duncompress bs half Hdcomp Hbs Hmax Hhalf file0 files sched)
    as (st' & E & RB & _).
  rewrite Hpack in E. inversion E; subst st'. clear E.
  specialize (RB fid fl d Hn). unfold read_back in RB.
  destruct (pack_refs_behind hashf dcompress duncompress bs false true half file0 files sched st Hpack)
    as [Rf Rs].
  assert (Hfid : fid < length files) by (apply nth_error_Some; congruence).
  specialize (Rs fid Hfid).
  pose proof (pack_frag_bounds hashf dcompress duncompress bs half Hdcomp Hbs Hmax Hhalf
                file0 files sched st Hpack fid) as FB.
  unfold image_read_file. fold img.
  unfold img at 1.
  rewrite (super_roundtrip_l mcompress muncompress Hmcomp limit Hlimit cfg inp w Hw Hdom Hfit).
  fold img.
  unfold img at 1.
  rewrite (frags_roundtrip_l mcompress muncompress Hmcomp limit Hlimit cfg inp w Hw Hdom Hfit).
  fold img.
  pose proof (image_layout_l mcompress muncompress Hmcomp limit Hlimit cfg inp w Hw Hdom Hfit (c_devblk cfg) eq_refl)
    as [_ _ _ _ _ _ _ _ _ _ Hc _].
  destruct Hc as (_ & _ & _ & _ & Hbsz & _).
  rewrite Hbsz, Hcbs, Hfrags.
  unfold file_lkind, image_read_kind.
  rewrite frags_length, !Nat2N.id.
  set (cnt := DedupModel.block_count bs (length d) (has_frag (p_frag st fid))).
  (* the fragment reference as the reader decodes it *)
  assert (Hfr : length d mod bs = 0 \/
                frag_ref (match p_frag st fid with Some (i, _) => N.of_nat i | None => NOX end)
                         (match p_frag st fid with Some (_, o) => N.of_nat o | None => NOX end)
                = p_frag st fid).
  { destruct (p_frag st fid) as [[i o]|] eqn:Ef; [|right; reflexivity].
    right. destruct (FB i o eq_refl) as [Hi Ho].
    pose proof nfrag_fits as Hnf.
    assert (Hmx : (c_SQFS_MAX_BLOCK_SIZE = 1048576)%N) by reflexivity.
    unfold frag_ref, NOX.
    destruct (N.of_nat i =? 4294967295)%N eqn:E1; [apply N.eqb_eq in E1; lia|].
    destruct (N.of_nat o =? 4294967295)%N eqn:E2; [apply N.eqb_eq in E2; lia|].
    cbn [orb]. rewrite !Nat2N.id. reflexivity. }
  assert (Main : forall fr, (length d mod bs = 0 \/ fr = p_frag st fid) ->
    read_file duncompress bs img (p_nfrag st)
      (ftab_of (map (fun f : N * N => (fst f, snd f, 0%N)) (frag_table_of st)))
      (p_start st fid) (nth_error (file_words st fid cnt)) fr (length d) = Some d).
  { intros fr Hfr'.
    assert (Hgo : forall fr', DedupModel.block_count bs (length d) (has_frag fr') = cnt ->
              read_file duncompress bs (w_file (p_wr st)) (p_nfrag st) (p_ftab st)
                        (p_start st fid) (p_size st fid) fr' (length d) = Some d ->
              read_file duncompress bs img (p_nfrag st)
                (ftab_of (map (fun f : N * N => (fst f, snd f, 0%N)) (frag_table_of st)))
                (p_start st fid) (nth_error (file_words st fid cnt)) fr' (length d) = Some d).
    { intros fr' Hcnt Hrd.
      eapply (read_file_agree duncompress bs base); [exact image_agrees|exact Hrd| | | |].
      - destruct Rs as [Rs|Rs]; [left; exact Rs|right; exact Rs].
      - intros j wd Hj Hw'. rewrite Hcnt in Hj. unfold file_words.
        rewrite (nth_error_map_seq _ _ _ Hj). rewrite Hw'. reflexivity.
      - intros i Hi. apply ftab_of_frags. exact Hi.
      - exact Rf. }
    destruct Hfr' as [Hm | ->].
    - rewrite (read_file_no_tail duncompress bs img _ _ _ _ fr (length d) Hm). apply Hgo.
      + unfold cnt, DedupModel.block_count. rewrite Hm. reflexivity.
      + rewrite <- (read_file_no_tail duncompress bs (w_file (p_wr st)) _ _ _ _ (p_frag st fid) (length d) Hm).
        exact RB.
    - apply Hgo; [reflexivity|exact RB]. }
  apply Main. destruct Hfr as [Hm|Hfr]; [left; exact Hm|right; exact Hfr].
Qed.

(* end to end: the tree read from the image, and the contents behind every file inode view of it *)
Theorem image_file_contents_l :
  let t := in_tree inp in
  exists lt,
    spec_tree t (length t) (Res.nlen t) = Some lt /\
    read_image_tree muncompress img = Some lt /\
    (forall v, In v (views lt) ->
       exists n, get t (lv_ino v) = Some n /\ v = lview_of_fnode (lv_ino v) n) /\
    (forall v fid fl d sp,
       In v (views lt) -> nth_error files fid = Some (fl, d) ->
       lv_kind v = file_lkind bs st fid (length d) sp ->
       image_read_file muncompress duncompress img (lv_kind v) = Some d).
Proof.
  intro t.
  destruct (tree_roundtrip_image_l mcompress muncompress Hmcomp limit Hlimit cfg inp w Hw Hdom Hfit)
    as (lt & Hs & Hr).
  exists lt. split; [exact Hs|]. split; [exact Hr|]. split.
  - intros v Hv. eapply spec_tree_views; eassumption.
  - intros v fid fl d sp _ Hn Hk. rewrite Hk. eapply image_read_recorded. exact Hn.
Qed.

(* the same with the hypothesis on the INPUT tree: a file node whose inode body carries what pack recorded for
   file [fid] reads back as that file's bytes wherever it occurs in the tree read from the image (hard links) *)
Theorem image_file_contents_by_inode_l :
  let t := in_tree inp in
  exists lt,
    read_image_tree muncompress img = Some lt /\
    forall ino n b fid fl d sp,
      get t ino = Some n -> fn_payload n = PFile b ->
      lkind_of_body b = file_lkind bs st fid (length d) sp ->
      nth_error files fid = Some (fl, d) ->
      forall v, In v (views lt) -> lv_ino v = ino ->
        image_read_file muncompress duncompress img (lv_kind v) = Some d.
Proof.
  intro t. destruct image_file_contents_l as (lt & _ & Hr & Hv & Hc). exists lt. split; [exact Hr|].
  intros ino n b fid fl d sp Hg Hp Hk Hn v Hin Hi.
  destruct (Hv v Hin) as (n' & Hg' & Ev). rewrite Hi in Hg'. fold t in Hg'. rewrite Hg in Hg'. inversion Hg'; subst n'.
  apply (Hc v fid fl d sp Hin Hn). rewrite Ev. cbn [lv_kind lview_of_fnode]. rewrite Hp. exact Hk.
Qed.

End Compose.
