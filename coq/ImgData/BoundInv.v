(* ImgData — every location the block writer hands out lies behind the bytes the output file
   held when the writer was created (super block + compressor options).

   C08's dedup_sound reads every file back from the writer's OWN file.  In the finished image the
   first 96 bytes are rewritten (sqfs_super_write in sqfs_writer_finish), so "reading the image"
   is the same as "reading the writer's file" only if no block start, no block offset and no
   fragment block location points in front of the data area.  That is what is proved here, for
   every run of C08's [pack] (every hash function, compressor, schedule; no contract needed):

     - the fragment table entries are (0, 0) (never filled: sparse size word, nothing is read)
       or lie at or behind [base];
     - a file's block start lies at or behind [base], or every size word of the file is sparse
       (blocks_start stays 0 for a file without a stored block; the reader reads nothing then).

   The state machine invariant is independent of C08's PInv (no freshness / NoDup reasoning is
   needed): [PB fid] are the worked blocks of file [fid]; a file is "pending" while its QFile item
   is queued or its number has not been reached. *)
From Coq Require Import List NArith Arith Bool Lia.
From SqfsV Require Import C08.DedupModel C08.DedupLemmas C08.DedupWriterProofs C08.DedupPipeProofs.
Import ListNotations.

Lemma truncate_length f n : length (truncate f n) = n.
Proof. unfold truncate. rewrite app_length, firstn_length, repeat_length. lia. Qed.

Lemma Forall_nth_bound (P : blk_info -> Prop) l i :
  Forall P l -> i < length l -> P (nth i l dflt_bi).
Proof.
  intros H Hi. rewrite Forall_forall in H. apply H. apply nth_In. assumption.
Qed.

Lemma In_firstn {A} (x : A) n l : In x (firstn n l) -> In x l.
Proof.
  intro H. rewrite <- (firstn_skipn n l). apply in_or_app. left. assumption.
Qed.

Section Bound.
Variable hashf : list N -> N.
Variable compress : list N -> option (list N).
Variable uncompress : list N -> nat -> option (list N).
Variable bs : nat.
Variable hash_only bytecmp : bool.
Variable half base : nat.

(* ---------------------------------------------------------------------- *)
(* block writer *)

Definition WB (w : writer) : Prop :=
  base <= length (w_file w) /\ Forall (fun b => base <= bi_off b) (w_blocks w).

Lemma find_match_range f blocks cur count loc_a sz : forall n i j,
  find_match hash_only half f blocks cur count loc_a sz n i = FAt j -> i <= j < i + n.
Proof.
  induction n as [|n IH]; intros i j H; cbn [find_match] in H; [discriminate|].
  destruct (hashes_match (firstn count (skipn i blocks)) cur).
  - destruct hash_only.
    + inversion H. lia.
    + destruct (range_equal (S sz) half f loc_a (bi_off (nth i blocks dflt_bi)) sz); try discriminate.
      * inversion H. lia.
      * apply IH in H. lia.
  - apply IH in H. lia.
Qed.

(* deduplicate_blocks: the location is behind [base], or no block was stored since file_start *)
Lemma dedup_bound w dd evs w' loc e :
  WB w -> deduplicate_blocks hash_only half w dd evs = WOk w' loc e ->
  WB w' /\ (base <= loc \/ (loc = 0 /\ length (w_blocks w) <= w_fstart w)).
Proof.
  intros [HL HB] H. unfold deduplicate_blocks in H.
  destruct (length (w_blocks w) - w_fstart w =? 0) eqn:E0.
  - apply Nat.eqb_eq in E0. inversion H; subst. split; [split; assumption|]. right. split; [reflexivity|lia].
  - apply Nat.eqb_neq in E0.
    assert (Hfs : w_fstart w < length (w_blocks w)) by lia.
    pose proof (Forall_nth_bound _ _ _ HB Hfs) as Hloc_a. cbv beta in Hloc_a.
    destruct dd.
    + inversion H; subst. split; [split; assumption|]. left. assumption.
    + match type of H with context [find_match ?a1 ?a2 ?a3 ?a4 ?a5 ?a6 ?a7 ?a8 ?a9 ?a10] =>
        destruct (find_match a1 a2 a3 a4 a5 a6 a7 a8 a9 a10) as [i| | |] eqn:FM end; try discriminate.
      * apply find_match_range in FM.
        inversion H; subst. clear H.
        set (count := length (w_blocks w) - w_fstart w) in *.
        set (used := if w_fstart w - i <=? count then i + count else w_fstart w).
        assert (Hu : 0 < used /\ used - 1 < length (w_blocks w)).
        { unfold used. destruct (w_fstart w - i <=? count) eqn:El.
          - apply Nat.leb_le in El. lia.
          - apply Nat.leb_gt in El. lia. }
        destruct Hu as [Hu1 Hu2].
        pose proof (Forall_nth_bound _ _ _ HB Hu2) as Hlast. cbv beta in Hlast.
        assert (Hi : i < length (w_blocks w)) by lia.
        pose proof (Forall_nth_bound _ _ _ HB Hi) as Hloc. cbv beta in Hloc.
        split; [|left; assumption].
        split; cbn [w_file w_blocks].
        -- rewrite truncate_length. fold used. lia.
        -- apply Forall_forall. intros b Hb. rewrite Forall_forall in HB. apply HB.
           eapply In_firstn. exact Hb.
      * inversion H; subst. split; [split; assumption|]. left. assumption.
Qed.

Definition store_of (fl : wflags) (data : list N) : bool :=
  negb (length data =? 0) && negb (wf_sparse fl).
Definition fstart_of (w : writer) (fl : wflags) : nat :=
  if wf_first fl then length (w_blocks w) else w_fstart w.

Lemma wdb_bound w fl chk data w' loc e :
  WB w -> write_data_block hash_only half w fl chk data = WOk w' loc e ->
  WB w' /\
  (wf_last fl = false ->
     loc = length (w_file w) /\ w_fstart w' = fstart_of w fl /\
     length (w_blocks w') = length (w_blocks w) + (if store_of fl data then 1 else 0)) /\
  (wf_last fl = true ->
     base <= loc \/
     (loc = 0 /\ length (w_blocks w) + (if store_of fl data then 1 else 0) <= fstart_of w fl)).
Proof.
  intros [HL HB] H. unfold write_data_block in H.
  fold (store_of fl data) in H. fold (fstart_of w fl) in H.
  set (w1 := if store_of fl data
             then {| w_file := w_file w ++ data;
                     w_blocks := w_blocks w ++
                       [{| bi_off := length (w_file w);
                           bi_sw := sw_of (length data) (wf_compressed fl); bi_chk := chk |}];
                     w_fstart := fstart_of w fl |}
             else {| w_file := w_file w; w_blocks := w_blocks w; w_fstart := fstart_of w fl |}) in *.
  assert (H1 : WB w1 /\ w_fstart w1 = fstart_of w fl /\
               length (w_blocks w1) = length (w_blocks w) + (if store_of fl data then 1 else 0)).
  { unfold w1, WB. destruct (store_of fl data); cbn [w_file w_blocks w_fstart].
    - split; [split|].
      + rewrite app_length. lia.
      + apply Forall_app. split; [assumption|]. constructor; [simpl; lia|constructor].
      + split; [reflexivity|]. rewrite app_length. simpl. lia.
    - split; [split; assumption|]. split; [reflexivity|lia]. }
  destruct H1 as (W1 & F1 & L1).
  destruct (wf_last fl).
  - destruct (dedup_bound _ _ _ _ _ _ W1 H) as [W' D].
    split; [assumption|]. split; [discriminate|]. intros _.
    destruct D as [D|[D1 D2]]; [left; assumption|right]. split; [assumption|]. rewrite <- L1, <- F1. assumption.
  - inversion H; subst. split; [assumption|]. split; [|discriminate]. intros _.
    split; [reflexivity|]. split; assumption.
Qed.

(* ---------------------------------------------------------------------- *)
(* block processor *)

Variable PB : nat -> list pblock.      (* the worked data blocks of file [fid] *)

Definition unst (fid : nat) : Prop := forall b, In b (PB fid) -> stored b = false.

Record Core (st : proc) : Prop := {
  co_w : WB (p_wr st);
  co_ftab : forall i, p_ftab st i = (0, 0%N) \/ base <= fst (p_ftab st i);
  co_size : forall fid k w, p_size st fid k = Some w -> sw_sparse w = false ->
            exists b, In b (PB fid) /\ stored b = true
}.

Lemma Core_ext st st' :
  p_wr st' = p_wr st -> p_ftab st' = p_ftab st -> p_size st' = p_size st -> Core st -> Core st'.
Proof.
  intros E1 E2 E3 [A B C]. constructor.
  - rewrite E1. assumption.
  - rewrite E2. assumption.
  - rewrite E3. assumption.
Qed.

Lemma Core_set_wr st w e : Core st -> WB w -> Core (set_wr st w e).
Proof. intros [A B C] HW. constructor; assumption. Qed.

Lemma Core_set_size_sparse st fid k : Core st -> Core (set_size st fid k 0%N).
Proof.
  intros [A B C]. constructor; [assumption|assumption|].
  intros f k' w H Hs. cbn [p_size set_size] in H.
  destruct ((f =? fid) && (k' =? k)).
  - inversion H; subst. rewrite sw_sparse_zero in Hs. discriminate.
  - eapply C; eassumption.
Qed.

Lemma Core_set_size_stored st fid k w b :
  Core st -> In b (PB fid) -> stored b = true -> Core (set_size st fid k w).
Proof.
  intros [A B C] Hin Hst. constructor; [assumption|assumption|].
  intros f k' w' H Hs. cbn [p_size set_size] in H.
  destruct ((f =? fid) && (k' =? k)) eqn:E.
  - apply andb_true_iff in E. destruct E as [E _]. apply Nat.eqb_eq in E. subst f.
    exists b. split; assumption.
  - eapply C; eassumption.
Qed.

(* process_completed_block for the data blocks of one file: [seen] = a block of this file with
   a smaller index was stored *)
Lemma cb_bound fid dd : forall blocks st k seen st',
  complete_blocks hash_only half st fid dd k blocks = Ok st' ->
  Core st -> (forall b, In b blocks -> In b (PB fid)) ->
  ((k = 0 /\ seen = false) \/
   (0 < k /\ w_fstart (p_wr st) <= length (w_blocks (p_wr st)) /\
    (seen = true -> w_fstart (p_wr st) < length (w_blocks (p_wr st))))) ->
  Core st' /\ p_ftab st' = p_ftab st /\
  (forall f, f <> fid -> p_start st' f = p_start st f) /\
  (blocks = [] -> p_start st' fid = p_start st fid) /\
  (blocks <> [] -> base <= p_start st' fid \/
                   (seen = false /\ forall b, In b blocks -> stored b = false)).
Proof.
  induction blocks as [|b rest IH]; intros st k seen st' H HC Hin Hk.
  - cbn [complete_blocks] in H. inversion H; subst.
    split; [assumption|]. split; [reflexivity|]. split; [reflexivity|]. split; [reflexivity|].
    intro C. contradiction.
  - cbn [complete_blocks] in H.
    set (last := match rest with [] => true | _ => false end) in *.
    set (fl := {| wf_first := k =? 0; wf_last := last; wf_sparse := pb_sparse b;
                  wf_compressed := pb_compressed b; wf_dont_dedup := dd |}) in *.
    destruct (write_data_block hash_only half (p_wr st) fl (pb_chk b) (pb_data b)) as [w loc e| |] eqn:EW;
      try discriminate.
    destruct (wdb_bound _ _ _ _ _ _ _ (co_w _ HC) EW) as (W' & Hnl & Hl).
    assert (Hstore : store_of fl (pb_data b) = stored b) by reflexivity.
    rewrite Hstore in Hnl, Hl.
    set (st1 := set_wr st w e) in *.
    set (st2 := if pb_sparse b then set_size st1 fid k 0%N
                else if length (pb_data b) =? 0 then st1
                else set_size st1 fid k (sw_of (length (pb_data b)) (pb_compressed b))) in *.
    assert (C1 : Core st1) by (apply Core_set_wr; assumption).
    assert (C2 : Core st2).
    { unfold st2. destruct (pb_sparse b) eqn:Es; [apply Core_set_size_sparse; assumption|].
      destruct (length (pb_data b) =? 0) eqn:E0; [assumption|].
      apply (Core_set_size_stored _ _ _ _ b); [assumption|apply Hin; left; reflexivity|].
      unfold stored. rewrite Es, E0. reflexivity. }
    assert (W2 : p_wr st2 = w).
    { unfold st2. destruct (pb_sparse b); [reflexivity|]. destruct (length (pb_data b) =? 0); reflexivity. }
    assert (F2 : p_ftab st2 = p_ftab st).
    { unfold st2. destruct (pb_sparse b); [reflexivity|]. destruct (length (pb_data b) =? 0); reflexivity. }
    assert (S2 : p_start st2 = p_start st).
    { unfold st2. destruct (pb_sparse b); [reflexivity|]. destruct (length (pb_data b) =? 0); reflexivity. }
    destruct rest as [|b2 rest'].
    + (* the last block *)
      cbn [complete_blocks] in H. inversion H; subst st'. clear H.
      split.
      { eapply Core_ext; [| | |exact C2]; reflexivity. }
      split; [exact F2|].
      split.
      { intros f Hf. cbn [p_start set_start]. apply Nat.eqb_neq in Hf. rewrite Hf. rewrite S2. reflexivity. }
      split; [discriminate|]. intros _.
      cbn [p_start set_start]. rewrite Nat.eqb_refl.
      destruct (Hl eq_refl) as [Hb|[Hz Hc]]; [left; assumption|right].
      unfold fstart_of in Hc. cbn [wf_first fl] in Hc.
      destruct Hk as [[Hk0 Hs]|(Hk0 & Hfs & Hs)].
      * subst k. cbn [Nat.eqb] in Hc. split; [assumption|].
        intros b' [<-|[]]. destruct (stored b); [lia|reflexivity].
      * destruct (k =? 0) eqn:Ek; [apply Nat.eqb_eq in Ek; lia|].
        assert (seen = false).
        { destruct seen; [|reflexivity]. specialize (Hs eq_refl). lia. }
        split; [assumption|].
        intros b' [<-|[]]. destruct (stored b); [lia|reflexivity].
    + (* not the last block *)
      destruct (Hnl eq_refl) as (Hloc & Hfs' & Hlen').
      change (complete_blocks hash_only half st2 fid dd (S k) (b2 :: rest') = Ok st') in H.
      specialize (IH st2 (S k) (seen || stored b) st' H C2).
      destruct IH as (C' & F' & O' & _ & L').
      { intros b' Hb'. apply Hin. right. assumption. }
      { right. split; [lia|]. rewrite W2, Hfs', Hlen'. unfold fstart_of. cbn [wf_first fl].
        destruct Hk as [[Hk0 Hs]|(Hk0 & Hfs & Hs)].
        - subst k seen. cbn [Nat.eqb orb]. split; [lia|]. intro Hb. rewrite Hb. lia.
        - destruct (k =? 0) eqn:Ek; [apply Nat.eqb_eq in Ek; lia|].
          split; [destruct (stored b); lia|].
          intro Hb. apply orb_true_iff in Hb. destruct Hb as [Hb|Hb].
          + specialize (Hs Hb). destruct (stored b); lia.
          + rewrite Hb. lia. }
      split; [assumption|]. split; [rewrite F', F2; reflexivity|].
      split; [intros f Hf; rewrite (O' f Hf), S2; reflexivity|].
      split; [discriminate|]. intros _.
      destruct (L' ltac:(discriminate)) as [Hb|[Hs Hu]]; [left; assumption|right].
      apply orb_false_iff in Hs. destruct Hs as [Hs1 Hs2].
      split; [assumption|].
      intros b' [<-|Hb']; [assumption|apply Hu; assumption].
Qed.

(* process_completed_block for a fragment block *)
Lemma cf_bound st idx pb st' :
  complete_fragblk hash_only half st idx pb = Ok st' -> Core st ->
  Core st' /\ p_start st' = p_start st /\ p_ioq st' = p_ioq st.
Proof.
  unfold complete_fragblk. intros H HC.
  set (st0 := set_inflight st (remove_inflight idx (p_inflight st))) in *.
  set (fl := {| wf_first := false; wf_last := false; wf_sparse := pb_sparse pb;
                wf_compressed := pb_compressed pb; wf_dont_dedup := false |}) in *.
  destruct (write_data_block hash_only half (p_wr st0) fl (pb_chk pb) (pb_data pb)) as [w loc e| |] eqn:EW;
    try discriminate.
  assert (C0 : Core st0) by (eapply Core_ext; [| | |exact HC]; reflexivity).
  destruct (wdb_bound _ _ _ _ _ _ _ (co_w _ C0) EW) as (W' & Hnl & _).
  destruct (Hnl eq_refl) as (Hloc & _).
  assert (C1 : Core (set_wr st0 w e)) by (apply Core_set_wr; assumption).
  destruct (pb_sparse pb); [inversion H; subst; split; [assumption|split; reflexivity]|].
  destruct (length (pb_data pb) =? 0); [inversion H; subst; split; [assumption|split; reflexivity]|].
  inversion H; subst st'. clear H.
  split; [|split; reflexivity].
  destruct C1 as [A B C]. constructor; [assumption| |assumption].
  intro i. cbn [p_ftab set_ftab]. destruct (i =? idx); [|apply B].
  right. cbn [fst]. rewrite Hloc. destruct (co_w _ C0) as [HL _]. exact HL.
Qed.

Definition qfile_ok (it : qitem) : Prop :=
  match it with QFile fid _ pbs => pbs = PB fid | QFrag _ _ _ => True end.

(* [n]: the files numbered below [n] have been submitted *)
Record RInv (st : proc) (q : list qitem) (n : nat) : Prop := {
  ri_core : Core st;
  ri_q : Forall qfile_ok q;
  ri_start : forall fid, unst fid \/ base <= p_start st fid \/ In fid (qfids q) \/ n <= fid;
  ri_nob : forall fid, PB fid = [] -> p_start st fid = 0      (* no block: blocks_start is never set *)
}.

Lemma drain_q_bound n : forall q st st',
  drain_q hash_only half q st = Ok st' -> RInv st q n -> RInv st' (p_ioq st') n.
Proof.
  induction q as [|[fid dd pbs|r idx pb] q IH]; intros st st' H [HC HQ HS HN]; cbn [drain_q] in H.
  - inversion H; subst. constructor.
    + eapply Core_ext; [| | |exact HC]; reflexivity.
    + constructor.
    + exact HS.
    + exact HN.
  - destruct (complete_blocks hash_only half st fid dd 0 pbs) as [st1| |] eqn:E; try discriminate.
    inversion HQ as [|? ? Hq HQ']; subst. cbn [qfile_ok] in Hq.
    destruct (cb_bound fid dd pbs st 0 false st1 E HC) as (C1 & _ & O1 & N1 & L1).
    { intros b Hb. rewrite <- Hq. assumption. }
    { left. split; reflexivity. }
    apply (IH st1 st' H). constructor; [assumption|assumption| |].
    { intro f. destruct (Nat.eq_dec f fid) as [->|Hne].
      + destruct pbs as [|b0 pbs'].
        * left. intros b Hb. rewrite <- Hq in Hb. destruct Hb.
        * destruct (L1 ltac:(discriminate)) as [Hb|[_ Hu]]; [right; left; assumption|left].
          intros b Hb. apply Hu. rewrite Hq. assumption.
      + rewrite (O1 f Hne). destruct (HS f) as [A|[A|[A|A]]]; auto.
        cbn [qfids] in A. destruct A as [A|A]; [congruence|auto]. }
    { intros f Hf. destruct (Nat.eq_dec f fid) as [->|Hne].
      + rewrite N1 by (rewrite Hq; exact Hf). apply HN. exact Hf.
      + rewrite (O1 f Hne). apply HN. exact Hf. }
  - destruct r.
    + destruct (complete_fragblk hash_only half st idx pb) as [st1| |] eqn:E; try discriminate.
      destruct (cf_bound _ _ _ _ E HC) as (C1 & S1 & _).
      inversion HQ as [|? ? _ HQ']; subst.
      apply (IH st1 st' H). constructor; [assumption|assumption| |].
      * intro f. rewrite S1. exact (HS f).
      * intros f Hf. rewrite S1. exact (HN f Hf).
    + inversion H; subst. constructor.
      * eapply Core_ext; [| | |exact HC]; reflexivity.
      * exact HQ.
      * exact HS.
      * exact HN.
Qed.

Definition RI (st : proc) (n : nat) : Prop := RInv st (p_ioq st) n.

Lemma drain_bound st st' n : drain hash_only half st = Ok st' -> RI st n -> RI st' n.
Proof. unfold drain, RI. apply drain_q_bound. Qed.

(* states that differ only in fields the invariant does not look at *)
Lemma RInv_ext st st' q n :
  p_wr st' = p_wr st -> p_ftab st' = p_ftab st -> p_size st' = p_size st -> p_start st' = p_start st ->
  RInv st q n -> RInv st' q n.
Proof.
  intros E1 E2 E3 E4 [A B C D]. constructor.
  - eapply Core_ext; eassumption.
  - assumption.
  - rewrite E4. assumption.
  - rewrite E4. assumption.
Qed.

Lemma qfile_ok_snoc_frag q r i pb : Forall qfile_ok q -> Forall qfile_ok (q ++ [QFrag r i pb]).
Proof. intro H. apply Forall_app. split; [assumption|]. constructor; [exact I|constructor]. Qed.

Lemma qfids_snoc_frag q r i pb : qfids (q ++ [QFrag r i pb]) = qfids q.
Proof. rewrite qfids_app. simpl. apply app_nil_r. Qed.

Lemma enqueue_bound st fb n : RI st n -> RI (enqueue_fragblk hashf compress bytecmp st fb) n.
Proof.
  unfold RI, enqueue_fragblk. intros [A B C D].
  set (pb := work_block hashf compress true false (fb_dont_compress fb) false (fb_data fb)).
  destruct bytecmp; cbn [p_ioq set_fragblk set_ioq set_inflight].
  - constructor.
    + eapply Core_ext; [| | |exact A]; reflexivity.
    + apply qfile_ok_snoc_frag. assumption.
    + intro f. rewrite qfids_snoc_frag. exact (C f).
    + exact D.
  - constructor.
    + eapply Core_ext; [| | |exact A]; reflexivity.
    + apply qfile_ok_snoc_frag. assumption.
    + intro f. rewrite qfids_snoc_frag. exact (C f).
    + exact D.
Qed.

Lemma store_bound st fid fl d chk st' n :
  store_fragment hashf compress uncompress bs bytecmp st fid fl d chk = Ok st' -> RI st n -> RI st' n.
Proof.
  unfold store_fragment. intros H HR.
  set (st1 := match p_fragblk st with
              | Some fb => if bs <? length (fb_data fb) + length d
                           then enqueue_fragblk hashf compress bytecmp st fb else st
              | None => st
              end) in *.
  assert (R1 : RI st1 n).
  { unfold st1. destruct (p_fragblk st) as [fb|]; [|assumption].
    destruct (bs <? length (fb_data fb) + length d); [apply enqueue_bound|]; assumption. }
  clearbody st1.
  destruct (p_fragblk st1) as [fb|].
  - match type of H with context [ht_insert ?a1 ?a2 ?a3 ?a4 ?a5 ?a6 ?a7 ?a8] =>
      destruct (ht_insert a1 a2 a3 a4 a5 a6 a7 a8) as [[hh ca]|] end; try discriminate.
    inversion H; subst st'. unfold RI in *. eapply RInv_ext; [| | | |exact R1]; reflexivity.
  - match type of H with context [ht_insert ?a1 ?a2 ?a3 ?a4 ?a5 ?a6 ?a7 ?a8] =>
      destruct (ht_insert a1 a2 a3 a4 a5 a6 a7 a8) as [[hh ca]|] end; try discriminate.
    inversion H; subst st'. unfold RI in *. destruct R1 as [[A B C] Q S D].
    constructor; [|exact Q|exact S|exact D].
    constructor; [exact A| |exact C].
    intro i. cbn [p_ftab set_frag set_cached set_ht set_fragblk append_ftab].
    destruct (i =? p_nfrag st1); [left; reflexivity|apply B].
Qed.

Lemma pf_bound st fid idx fl t st' n :
  process_fragment hashf compress uncompress bs bytecmp st fid idx fl t = Ok st' -> RI st n -> RI st' n.
Proof.
  unfold process_fragment. intros H HR.
  destruct (pb_sparse _).
  - inversion H; subst st'. unfold RI in *. destruct HR as [A Q S D].
    constructor; [apply Core_set_size_sparse; assumption|exact Q|exact S|exact D].
  - destruct (uf_dont_dedup fl); [eapply store_bound; eassumption|].
    match type of H with context [ht_search ?a1 ?a2 ?a3 ?a4 ?a5 ?a6 ?a7 ?a8 ?a9] =>
      destruct (ht_search a1 a2 a3 a4 a5 a6 a7 a8 a9) as [c0 ca|ca|] end; try discriminate.
    + inversion H; subst st'. unfold RI in *. eapply RInv_ext; [| | | |exact HR]; reflexivity.
    + eapply store_bound; [exact H|]. unfold RI in *. eapply RInv_ext; [| | | |exact HR]; reflexivity.
Qed.

Definition job_pbs (j : fjob) : list pblock :=
  map (work_block hashf compress (uf_ignore_sparse (j_fl j)) false (uf_dont_compress (j_fl j))
                  (uf_dont_hash (j_fl j))) (j_blocks j).

Lemma step_file_bound st n j st' :
  step_file hashf compress uncompress bs hash_only bytecmp half st n j = Ok st' ->
  PB n = job_pbs j -> RI st n -> RI st' (S n).
Proof.
  unfold step_file. intros H HPB HR.
  destruct (drain hash_only half st) as [st1| |] eqn:E1; try discriminate.
  pose proof (drain_bound _ _ _ E1 HR) as R1.
  set (st2 := match j_blocks j with
              | [] => st1
              | _ :: _ => set_ioq st1 (p_ioq st1 ++ [QFile n (uf_dont_dedup (j_fl j)) (job_pbs j)])
              end).
  assert (R2 : RI st2 (S n)).
  { unfold st2, RI in *. destruct R1 as [A Q S D]. destruct (j_blocks j) as [|b0 bl] eqn:Ej.
    - constructor; [assumption|assumption| |exact D].
      intro f. destruct (Nat.eq_dec f n) as [->|Hne].
      + left. intros b Hb. rewrite HPB in Hb. unfold job_pbs in Hb. rewrite Ej in Hb. destruct Hb.
      + destruct (S f) as [X|[X|[X|X]]]; auto. right. right. right. lia.
    - cbn [p_ioq set_ioq]. constructor.
      + eapply Core_ext; [| | |exact A]; reflexivity.
      + apply Forall_app. split; [assumption|]. constructor; [|constructor]. simpl. symmetry. exact HPB.
      + intro f. rewrite qfids_app. cbn [qfids]. destruct (Nat.eq_dec f n) as [->|Hne].
        * right. right. left. apply in_or_app. right. left. reflexivity.
        * destruct (S f) as [X|[X|[X|X]]]; auto.
          -- right. right. left. apply in_or_app. left. assumption.
          -- right. right. right. lia.
      + exact D. }
  fold (job_pbs j) in H. fold st2 in H.
  destruct (drain hash_only half st2) as [st3| |] eqn:E3; try discriminate.
  pose proof (drain_bound _ _ _ E3 R2) as R3.
  destruct (j_tail j) as [t|]; [|inversion H; subst; assumption].
  eapply pf_bound; eassumption.
Qed.

Lemma qfile_ok_mark_first q : Forall qfile_ok q -> Forall qfile_ok (mark_first_ready q).
Proof.
  induction q as [|[f dd pbs|r i pb] q IH]; intro H; cbn [mark_first_ready]; [constructor| |].
  - inversion H; subst. constructor; [assumption|apply IH; assumption].
  - inversion H; subst. destruct r.
    + constructor; [exact I|apply IH; assumption].
    + constructor; [exact I|assumption].
Qed.

Lemma qfile_ok_mark_all q : Forall qfile_ok q -> Forall qfile_ok (mark_all_ready q).
Proof.
  induction q as [|[f dd pbs|r i pb] q IH]; intro H; cbn [mark_all_ready map]; [constructor| |];
    inversion H; subst; constructor; try assumption; try exact I; apply IH; assumption.
Qed.

Lemma step_fragdone_bound st st' n :
  step_fragdone hash_only half st = Ok st' -> RI st n -> RI st' n.
Proof.
  unfold step_fragdone. intros H HR.
  destruct (drain hash_only half st) as [st1| |] eqn:E1; try discriminate.
  pose proof (drain_bound _ _ _ E1 HR) as R1. inversion H; subst st'.
  unfold RI in *. cbn [p_ioq set_ioq]. destruct R1 as [A Q S D]. constructor.
  - eapply Core_ext; [| | |exact A]; reflexivity.
  - apply qfile_ok_mark_first. assumption.
  - intro f. rewrite qfids_mark_first. exact (S f).
  - exact D.
Qed.

Lemma fragdone_n_bound n : forall k st st',
  fragdone_n hash_only half k st = Ok st' -> RI st n -> RI st' n.
Proof.
  induction k as [|k IH]; intros st st' H HR; cbn [fragdone_n] in H.
  - inversion H; subst. assumption.
  - destruct (step_fragdone hash_only half st) as [st1| |] eqn:E; try discriminate.
    eapply IH; [exact H|]. eapply step_fragdone_bound; eassumption.
Qed.

Lemma drain_q_ready_empty : forall q st st',
  Forall is_ready q -> drain_q hash_only half q st = Ok st' -> p_ioq st' = [].
Proof.
  induction q as [|[f dd pbs|r i pb] q IH]; intros st st' HF E; cbn [drain_q] in E.
  - inversion E. reflexivity.
  - inversion HF; subst.
    destruct (complete_blocks hash_only half st f dd 0 pbs) as [st1| |]; try discriminate.
    eapply IH; eassumption.
  - inversion HF as [|? ? Hr HF']; subst. destruct r; [|contradiction].
    destruct (complete_fragblk hash_only half st i pb) as [st1| |]; try discriminate.
    eapply IH; eassumption.
Qed.

Lemma sync_bound st st' n :
  sync hash_only half st = Ok st' -> RI st n -> RI st' n /\ p_ioq st' = [].
Proof.
  unfold sync, drain. cbn [p_ioq set_ioq]. intros H HR. split.
  - eapply (drain_q_bound n); [exact H|]. unfold RI in HR. destruct HR as [A Q S D]. constructor.
    + eapply Core_ext; [| | |exact A]; reflexivity.
    + apply qfile_ok_mark_all. assumption.
    + intro f. rewrite qfids_mark_all. exact (S f).
    + exact D.
  - eapply drain_q_ready_empty; [|exact H]. apply mark_all_is_ready.
Qed.

Lemma finish_bound st st' n :
  finish hashf compress hash_only bytecmp half st = Ok st' -> RI st n -> RI st' n /\ p_ioq st' = [].
Proof.
  unfold finish. intros H HR.
  destruct (sync hash_only half st) as [st1| |] eqn:E1; try discriminate.
  destruct (sync_bound _ _ _ E1 HR) as [R1 Q1].
  destruct (p_fragblk st1) as [fb|].
  - eapply sync_bound; [exact H|]. apply enqueue_bound. assumption.
  - inversion H; subst. split; assumption.
Qed.

Lemma run_files_bound : forall jobs sched n st st',
  run_files hashf compress uncompress bs hash_only bytecmp half jobs sched n st = Ok st' ->
  (forall i j, nth_error jobs i = Some j -> PB (n + i) = job_pbs j) ->
  RI st n -> RI st' (n + length jobs).
Proof.
  induction jobs as [|j rest IH]; intros sched n st st' H HPB HR; cbn [run_files] in H.
  - inversion H; subst. rewrite Nat.add_0_r. assumption.
  - destruct (fragdone_n hash_only half (hd 0 sched) st) as [st1| |] eqn:E1; try discriminate.
    pose proof (fragdone_n_bound n _ _ _ E1 HR) as R1.
    destruct (step_file hashf compress uncompress bs hash_only bytecmp half st1 n j) as [st2| |] eqn:E2;
      try discriminate.
    assert (R2 : RI st2 (S n)).
    { eapply step_file_bound; [exact E2| |exact R1]. specialize (HPB 0 j eq_refl).
      rewrite Nat.add_0_r in HPB. exact HPB. }
    replace (n + length (j :: rest)) with (S n + length rest) by (simpl; lia).
    eapply IH; [exact H| |exact R2].
    intros i j' Hj'. replace (S n + i) with (n + S i) by lia. apply HPB. exact Hj'.
Qed.

End Bound.

(* ---------------------------------------------------------------------- *)
(* the whole run *)

Section Pack.
Variable hashf : list N -> N.
Variable compress : list N -> option (list N).
Variable uncompress : list N -> nat -> option (list N).
Variable bs : nat.
Variable hash_only bytecmp : bool.
Variable half : nat.

Definition pbs_of (files : list (uflags * list N)) (fid : nat) : list pblock :=
  match nth_error files fid with
  | Some f => job_pbs hashf compress (file_job bs (fst f) (snd f))
  | None => []
  end.

(* what the final state of [pack] guarantees about the locations it recorded *)
Definition refs_behind (base : nat) (st : proc) (nfiles : nat) : Prop :=
  (forall i, p_ftab st i = (0, 0%N) \/ base <= fst (p_ftab st i)) /\
  (forall fid, fid < nfiles ->
     base <= p_start st fid \/ forall k w, p_size st fid k = Some w -> sw_sparse w = true).

(* a file for which no data block is submitted keeps blocks_start = 0 *)
Definition no_block_start (files : list (uflags * list N)) (st : proc) : Prop :=
  forall fid, pbs_of files fid = [] -> p_start st fid = 0.

Theorem pack_refs_behind file0 files sched st :
  pack hashf compress uncompress bs hash_only bytecmp half file0 files sched = Ok st ->
  refs_behind (length file0) st (length files).
Proof.
  unfold pack. intro H.
  set (jobs := map (fun f => file_job bs (fst f) (snd f)) files) in *.
  destruct (run_files hashf compress uncompress bs hash_only bytecmp half jobs sched 0 (init_proc file0))
    as [st1| |] eqn:E1; try discriminate.
  set (base := length file0).
  set (PB := pbs_of files).
  assert (R0 : RI base PB (init_proc file0) 0).
  { unfold RI. cbn [p_ioq init_proc]. constructor.
    - constructor; cbn [p_wr p_ftab p_size init_proc].
      + split; cbn [w_file w_blocks]; [unfold base; lia|constructor].
      + intro i. left. reflexivity.
      + intros fid k w C. discriminate.
    - constructor.
    - intro fid. right. right. right. lia.
    - intros fid _. reflexivity. }
  pose proof (run_files_bound hashf compress uncompress bs hash_only bytecmp half base PB
                jobs sched 0 _ _ E1) as R1.
  assert (R1' : RI base PB st1 (0 + length jobs)).
  { apply R1; [|exact R0]. intros i j Hj. unfold PB, pbs_of. simpl.
    unfold jobs in Hj. rewrite nth_error_map in Hj.
    destruct (nth_error files i) as [f|]; [|discriminate]. simpl in Hj. inversion Hj. reflexivity. }
  destruct (finish_bound hashf compress hash_only bytecmp half base PB _ _ _ H R1') as [[[A B C] Q S _] Q0].
  assert (Hl : 0 + length jobs = length files) by (unfold jobs; rewrite map_length; reflexivity).
  split; [exact B|].
  intros fid Hfid. destruct (S fid) as [X|[X|[X|X]]].
  - right. intros k w Hw. destruct (sw_sparse w) eqn:Es; [reflexivity|].
    destruct (C fid k w Hw Es) as (b & Hb & Hst). rewrite (X b Hb) in Hst. discriminate.
  - left. assumption.
  - rewrite Q0 in X. destruct X.
  - lia.
Qed.

Theorem pack_no_block_start file0 files sched st :
  pack hashf compress uncompress bs hash_only bytecmp half file0 files sched = Ok st ->
  no_block_start files st.
Proof.
  unfold pack. intro H.
  set (jobs := map (fun f => file_job bs (fst f) (snd f)) files) in *.
  destruct (run_files hashf compress uncompress bs hash_only bytecmp half jobs sched 0 (init_proc file0))
    as [st1| |] eqn:E1; try discriminate.
  set (base := length file0).
  set (PB := pbs_of files).
  assert (R0 : RI base PB (init_proc file0) 0).
  { unfold RI. cbn [p_ioq init_proc]. constructor.
    - constructor; cbn [p_wr p_ftab p_size init_proc].
      + split; cbn [w_file w_blocks]; [unfold base; lia|constructor].
      + intro i. left. reflexivity.
      + intros fid k w C. discriminate.
    - constructor.
    - intro fid. right. right. right. lia.
    - intros fid _. reflexivity. }
  pose proof (run_files_bound hashf compress uncompress bs hash_only bytecmp half base PB
                jobs sched 0 _ _ E1) as R1.
  assert (R1' : RI base PB st1 (0 + length jobs)).
  { apply R1; [|exact R0]. intros i j Hj. unfold PB, pbs_of. simpl.
    unfold jobs in Hj. rewrite nth_error_map in Hj.
    destruct (nth_error files i) as [f|]; [|discriminate]. simpl in Hj. inversion Hj. reflexivity. }
  destruct (finish_bound hashf compress hash_only bytecmp half base PB _ _ _ H R1') as [[_ _ _ D] _].
  exact D.
Qed.

End Pack.
