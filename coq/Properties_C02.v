(* C02 — determinism of the data path: the sequence of blocks handed to the block writer (and with it
   everything the writer does) is a function of the input alone; it does not depend on max_backlog,
   on the worker pool, on the number of workers or on the schedule.  Statements only; proofs are
   [exact]s of lemmas in C02/BpProofs.v. *)
From Coq Require Import List NArith ZArith Bool.
From SqfsV Require Import C02.GenBlk C02.BpModel C02.BpSpec C02.BpLemmas C02.BpQueue C02.BpProofs
                          C02.BpConcrete C02.EnvModel.
Import ListNotations.
Local Open Scope N_scope.

Section Statements.
(* every oracle is universally quantified and carries no hypothesis: the worker's hash and compressor,
   the fragment hash table (C08's domain), the block writer (C08's domain) *)
Variable hash : list N -> N.
Variable compress : list N -> option (list N).
Variable HT : Type.
Variable ht_search : HT -> blk -> option (N * N).
Variable ht_insert : HT -> blk -> N * N -> HT.
Variable BW : Type.
Variable bw_write : BW -> blk -> BW * N.

Notation pblock := (process_block hash compress).

(* A worker pool, used only through what C09 proves about lib/util/src/threadpool.c (pool_fifo):
   there is an abstraction [fp_alpha] of the pool state to the list of submitted-and-not-yet-dequeued
   items such that submit appends, and dequeue returns the worker's result for the oldest item
   (what dequeue does on an empty pool is never used: the processor provably never asks).
   The pool state may contain anything else: worker count, worker states, the schedule to come. *)
Record fifo_pool : Type := {
  fp_state : Type;
  fp_submit : fp_state -> blk -> fp_state;
  fp_dequeue : fp_state -> option (blk * fp_state);
  fp_alpha : fp_state -> list blk;
  fp_submit_ok : forall p b, fp_alpha (fp_submit p b) = fp_alpha p ++ [b];
  fp_deq_cons : forall p b r, fp_alpha p = b :: r ->
                exists p', fp_dequeue p = Some (pblock b, p') /\ fp_alpha p' = r
}.

(* the serial reference pool of threadpool_serial.c *)
Definition serial_pool : fifo_pool :=
  Build_fifo_pool (list blk) sp_submit (sp_dequeue pblock) (fun x => x)
                  (serial_submit) (serial_deq_cons pblock).

Definition run_on (pool : fifo_pool) (p0 : fp_state pool) (bs backlog : N) (ht0 : HT) (bw0 : BW) (files : list file) :=
  run HT ht_search ht_insert BW bw_write (fp_state pool) (fp_submit pool) (fp_dequeue pool)
      bs (clamp_backlog backlog) p0 ht0 bw0 files.

Definition spec_of (bs : N) (ht0 : HT) (bw0 : BW) (files : list file) : BW * list (blk * N) :=
  bw_run BW bw_write bw0 [] (spec_blocks hash compress HT ht_search ht_insert bs ht0 files).

(* Main theorem.  For every FIFO pool in every initial state with an empty queue, every requested
   backlog, every block size > 0 and every list of files (valid user flags, no empty append): the run
   succeeds (no error, no NULL dereference, no loop runs out of fuel), leaves nothing in flight, and
   the block writer saw exactly the blocks of the in-order specification. *)
Theorem bp_refines_spec :
  forall (pool : fifo_pool) (p0 : fp_state pool) bs backlog ht0 bw0 files,
  fp_alpha pool p0 = [] -> 0 < bs -> Forall file_ok files ->
  exists s, run_on pool p0 bs backlog ht0 bw0 files = Ok s /\
            (s_bw _ _ _ s, s_writes _ _ _ s) = spec_of bs ht0 bw0 files /\
            s_backlog _ _ _ s = 0.
Proof.
  intros pool p0 bs backlog ht0 bw0 files H1 H2 H3.
  exact (run_refines_spec hash compress HT ht_search ht_insert BW bw_write (fp_state pool)
           (fp_submit pool) (fp_dequeue pool) bs (clamp_backlog backlog) bw0 (fp_alpha pool)
           (fp_submit_ok pool) (fp_deq_cons pool) (clamp_ge3 backlog) p0 ht0 files H1 H2 H3).
Qed.

(* max_backlog is irrelevant: any two requested backlogs (the code clamps to >= 3), serial pool; in
   particular every run equals the eager reference run (backlog 0 -> 3) *)
Theorem bp_backlog_irrelevant :
  forall bs q1 q2 ht0 bw0 files, 0 < bs -> Forall file_ok files ->
  exists s1 s2,
    run_on serial_pool [] bs q1 ht0 bw0 files = Ok s1 /\
    run_on serial_pool [] bs q2 ht0 bw0 files = Ok s2 /\
    s_writes _ _ _ s1 = s_writes _ _ _ s2 /\ s_bw _ _ _ s1 = s_bw _ _ _ s2.
Proof.
  intros bs q1 q2 ht0 bw0 files Hbs Hf.
  destruct (bp_refines_spec serial_pool [] bs q1 ht0 bw0 files eq_refl Hbs Hf) as (s1 & A1 & A2 & _).
  destruct (bp_refines_spec serial_pool [] bs q2 ht0 bw0 files eq_refl Hbs Hf) as (s2 & B1 & B2 & _).
  exists s1, s2. split; [exact A1|]. split; [exact B1|].
  rewrite <- B2 in A2. inversion A2. split; assumption.
Qed.

(* the pool, its worker count and its schedule are irrelevant: any FIFO pool in any initial state with
   an empty queue, with any backlog, against the serial pool with the minimal backlog *)
Theorem bp_schedule_irrelevant :
  forall (pool : fifo_pool) (p0 : fp_state pool) bs q ht0 bw0 files,
  fp_alpha pool p0 = [] -> 0 < bs -> Forall file_ok files ->
  exists s sref,
    run_on pool p0 bs q ht0 bw0 files = Ok s /\
    run_on serial_pool [] bs 0 ht0 bw0 files = Ok sref /\
    s_writes _ _ _ s = s_writes _ _ _ sref /\ s_bw _ _ _ s = s_bw _ _ _ sref.
Proof.
  intros pool p0 bs q ht0 bw0 files Hp Hbs Hf.
  destruct (bp_refines_spec pool p0 bs q ht0 bw0 files Hp Hbs Hf) as (s1 & A1 & A2 & _).
  destruct (bp_refines_spec serial_pool [] bs 0 ht0 bw0 files eq_refl Hbs Hf) as (s2 & B1 & B2 & _).
  exists s1, s2. split; [exact A1|]. split; [exact B1|].
  rewrite <- B2 in A2. inversion A2. split; assumption.
Qed.

(* I/O order: (1) the blocks written are those of the specification, so the position of every fragment
   block in the output is fixed by the input; (2) all data blocks (hence the blocks of one file) are
   written in the order in which the front end submitted them *)
Theorem io_order :
  forall (pool : fifo_pool) (p0 : fp_state pool) bs q ht0 bw0 files s f evs,
  fp_alpha pool p0 = [] -> 0 < bs -> Forall file_ok files ->
  run_on pool p0 bs q ht0 bw0 files = Ok s ->
  fe_files bs fe_init 0 files = Ok (f, evs) ->
  map fst (s_writes _ _ _ s) = spec_blocks hash compress HT ht_search ht_insert bs ht0 files /\
  map unseq (filter notFB (map fst (s_writes _ _ _ s))) =
    map (fun d => unseq (pblock d)) (filter (fun d => negb (bhas ISFRAG d)) (dblocks evs)).
Proof.
  intros pool p0 bs q ht0 bw0 files s f evs Hp Hbs Hf Hrun Hfe.
  destruct (bp_refines_spec pool p0 bs q ht0 bw0 files Hp Hbs Hf) as (s1 & A1 & A2 & _).
  rewrite Hrun in A1. inversion A1; subst s1.
  assert (E : map fst (s_writes _ _ _ s) = spec_blocks hash compress HT ht_search ht_insert bs ht0 files).
  { change (s_writes _ _ _ s) with (snd (s_bw _ _ _ s, s_writes _ _ _ s)). rewrite A2. unfold spec_of.
    rewrite bw_run_blocks. reflexivity. }
  split; [exact E|]. rewrite E.
  exact (spec_blocks_data_order hash compress HT ht_search ht_insert bs ht0 files f evs Hbs Hf Hfe).
Qed.

(* structural: there is ONE function of the file list (built from the oracles, the block size and the
   initial table/writer states only) that every run computes, whatever pool, pool state, worker count,
   schedule and backlog.  The model has no clock, locale, umask or directory input. *)
Theorem image_is_function_of_input :
  forall bs ht0 bw0, 0 < bs ->
  exists F : list file -> BW * list (blk * N),
  forall (pool : fifo_pool) (p0 : fp_state pool) q files,
    fp_alpha pool p0 = [] -> Forall file_ok files ->
    exists s, run_on pool p0 bs q ht0 bw0 files = Ok s /\ (s_bw _ _ _ s, s_writes _ _ _ s) = F files.
Proof.
  intros bs ht0 bw0 Hbs. exists (spec_of bs ht0 bw0). intros pool p0 q files Hp Hf.
  destruct (bp_refines_spec pool p0 bs q ht0 bw0 files Hp Hbs Hf) as (s & A1 & A2 & _).
  exists s. split; assumption.
Qed.

(* ---- the inodes and the fragment table ----
   The three places that update an inode (append on the front end, process_completed_fragment when a
   tail end leaves the pool, process_completed_block when a block is written) interleave differently for
   different backlogs and schedules.  Nevertheless every field of every inode after the run -- type
   (basic/extended), file size, sparse byte count, block start, fragment index and offset, block size
   list -- and the whole fragment table are the functions [spec_inodes] / [spec_ftbl] of the file list
   defined in C02/BpSpec.v from the in-order specification (no pool, no backlog). *)
Definition inodes_of (bs : N) (ht0 : HT) (bw0 : BW) (files : list file) : N -> inode :=
  spec_inodes hash compress HT ht_search ht_insert BW bw_write bs ht0 bw0 files.

Definition ftbl_of (bs : N) (ht0 : HT) (bw0 : BW) (files : list file) : list (N * N) :=
  spec_ftbl hash compress HT ht_search ht_insert BW bw_write bs ht0 bw0 files.

Theorem bp_inodes_refine_spec :
  forall (pool : fifo_pool) (p0 : fp_state pool) bs backlog ht0 bw0 files,
  fp_alpha pool p0 = [] -> 0 < bs -> Forall file_ok files ->
  exists s, run_on pool p0 bs backlog ht0 bw0 files = Ok s /\
            (forall k, s_ino _ _ _ s k = inodes_of bs ht0 bw0 files k) /\
            s_ftbl _ _ _ s = ftbl_of bs ht0 bw0 files.
Proof.
  intros pool p0 bs backlog ht0 bw0 files H1 H2 H3.
  destruct (run_refines_spec_full hash compress HT ht_search ht_insert BW bw_write (fp_state pool)
           (fp_submit pool) (fp_dequeue pool) bs (clamp_backlog backlog) bw0 (fp_alpha pool)
           (fp_submit_ok pool) (fp_deq_cons pool) (clamp_ge3 backlog) p0 ht0 files H1 H2 H3)
    as (s & A & _ & _ & B & C).
  exists s. split; [exact A|]. split; [exact B|exact C].
Qed.

(* pool, worker count, schedule and backlog are irrelevant for every inode and for the fragment table *)
Theorem bp_inodes_schedule_backlog_irrelevant :
  forall (pool : fifo_pool) (p0 : fp_state pool) bs q ht0 bw0 files,
  fp_alpha pool p0 = [] -> 0 < bs -> Forall file_ok files ->
  exists s sref,
    run_on pool p0 bs q ht0 bw0 files = Ok s /\
    run_on serial_pool [] bs 0 ht0 bw0 files = Ok sref /\
    (forall k, s_ino _ _ _ s k = s_ino _ _ _ sref k) /\ s_ftbl _ _ _ s = s_ftbl _ _ _ sref.
Proof.
  intros pool p0 bs q ht0 bw0 files Hp Hbs Hf.
  destruct (bp_inodes_refine_spec pool p0 bs q ht0 bw0 files Hp Hbs Hf) as (s1 & A1 & A2 & A3).
  destruct (bp_inodes_refine_spec serial_pool [] bs 0 ht0 bw0 files eq_refl Hbs Hf) as (s2 & B1 & B2 & B3).
  exists s1, s2. split; [exact A1|]. split; [exact B1|].
  split; [intro k; rewrite A2, B2; reflexivity|rewrite A3, B3; reflexivity].
Qed.

(* ... i.e. there are two functions of the file list that every run computes *)
Theorem inodes_are_function_of_input :
  forall bs ht0 bw0, 0 < bs ->
  exists (F : list file -> N -> inode) (G : list file -> list (N * N)),
  forall (pool : fifo_pool) (p0 : fp_state pool) q files,
    fp_alpha pool p0 = [] -> Forall file_ok files ->
    exists s, run_on pool p0 bs q ht0 bw0 files = Ok s /\
              (forall k, s_ino _ _ _ s k = F files k) /\ s_ftbl _ _ _ s = G files.
Proof.
  intros bs ht0 bw0 Hbs. exists (inodes_of bs ht0 bw0), (ftbl_of bs ht0 bw0). intros pool p0 q files Hp Hf.
  exact (bp_inodes_refine_spec pool p0 bs q ht0 bw0 files Hp Hbs Hf).
Qed.

(* the inode type after the run is the smallest that can hold the inode: extended exactly if the file
   has sparse bytes or its size or block start need more than 32 bits -- whatever the order in which
   the three fields received their values *)
Theorem inode_type_is_minimal :
  forall (pool : fifo_pool) (p0 : fp_state pool) bs q ht0 bw0 files s k,
  fp_alpha pool p0 = [] -> 0 < bs -> Forall file_ok files ->
  run_on pool p0 bs q ht0 bw0 files = Ok s ->
  i_ext (s_ino _ _ _ s k) =
    (0 <? i_sparse (s_ino _ _ _ s k)) || (U32MAX <? i_size (s_ino _ _ _ s k)) || (U32MAX <? i_start (s_ino _ _ _ s k)).
Proof.
  intros pool p0 bs q ht0 bw0 files s k Hp Hbs Hf Hrun.
  destruct (bp_inodes_refine_spec pool p0 bs q ht0 bw0 files Hp Hbs Hf) as (s1 & A1 & A2 & _).
  rewrite Hrun in A1. inversion A1; subst s1. rewrite A2.
  exact (spec_inodes_type hash compress HT ht_search ht_insert BW bw_write bs bw0 ht0 files k).
Qed.

(* ... and the file size is the number of bytes the caller handed to append for that file (0 for a file
   number that does not exist), whatever the chunking *)
Theorem inode_file_size_is_input_length :
  forall (pool : fifo_pool) (p0 : fp_state pool) bs q ht0 bw0 files s k,
  fp_alpha pool p0 = [] -> 0 < bs -> Forall file_ok files ->
  run_on pool p0 bs q ht0 bw0 files = Ok s ->
  i_size (s_ino _ _ _ s k) = file_bytes files k.
Proof.
  intros pool p0 bs q ht0 bw0 files s k Hp Hbs Hf Hrun.
  destruct (bp_inodes_refine_spec pool p0 bs q ht0 bw0 files Hp Hbs Hf) as (s1 & A1 & A2 & _).
  rewrite Hrun in A1. inversion A1; subst s1. rewrite A2.
  exact (spec_inodes_size hash compress HT ht_search ht_insert BW bw_write bs bw0 ht0 files k Hbs Hf).
Qed.

End Statements.
Print Assumptions bp_refines_spec.
Print Assumptions bp_inodes_refine_spec.
Print Assumptions bp_inodes_schedule_backlog_irrelevant.
Print Assumptions inodes_are_function_of_input.
Print Assumptions inode_type_is_minimal.
Print Assumptions inode_file_size_is_input_length.
Print Assumptions bp_backlog_irrelevant.
Print Assumptions bp_schedule_irrelevant.
Print Assumptions io_order.
Print Assumptions image_is_function_of_input.

(* the one place where the packers read the process environment for image content: the default
   time stamp (lib/util/src/source_date_epoch.c via lib/common/src/fstree_cli.c).  It is an explicit
   input of the model: a function of the SOURCE_DATE_EPOCH string and the --defaults option, 32 bit. *)
Theorem default_mtime_is_u32 : forall env opt, opt_ok opt -> default_mtime env opt < 4294967296.
Proof. exact default_mtime_bound. Qed.
Print Assumptions default_mtime_is_u32.

Theorem sde_unset_is_zero : get_source_date_epoch None = 0 /\ get_source_date_epoch (Some []) = 0.
Proof. split; reflexivity. Qed.

(* ---- constants the proofs rest on (re-checked against the headers on every run) ---- *)
Example blk_flags_are_disjoint_bits : forallb (fun k => forallb (fun k' => match k, k' with
     | DC, DC | DH, DH | DF, DF | DD, DD | IGS, IGS | SPARSE, SPARSE | FIRST, FIRST | LAST, LAST
     | ISFRAG, ISFRAG | FRAGBLK, FRAGBLK | COMP, COMP | INTERNAL, INTERNAL => negb (flag_const k =? 0)
     | _, _ => N.land (flag_const k) (flag_const k') =? 0 end) all_flags) all_flags = true.
Proof. exact flag_consts_disjoint. Qed.

Example min_backlog_at_least_3 : forall q, 3 <= clamp_backlog q.
Proof. exact clamp_ge3. Qed.

(* ---- non-vacuity ---- *)
(* a toy hash for closed computations *)
Definition sum_hash (l : list N) : N := fold_right N.add 0 l mod 4294967296.

(* block size 4: tails "ab","cd","e" overflow the fragment block while two multi-block files are in flight *)
Definition ex_files : list file :=
  [ (0, [[97;98]]); (0, [[1;2;3;4;5;6;7;8;99;100]]); (0, [[101]]);
    (0, [[65;65;65;65;65;65;65;65;65;65;65;65]]); (0, [[102;103;104]]); (0, [[0;0;0;0;0;0]]) ].

Example ex_files_ok : Forall file_ok ex_files.
Proof. repeat constructor; discriminate. Qed.

Definition ex_blocks (q : N) : option (list (N * N * list N * N)) :=
  match run_concrete sum_hash 4 q ex_files with
  | Ok s => Some (map (fun w => (len (b_data (fst w)), enc_flags (setf INTERNAL false (b_fl (fst w))), b_data (fst w), snd w))
                      (obs_writes s))
  | _ => None
  end.

(* the same 11 write calls with backlog 3 and backlog 40; two of them are fragment blocks (0x4000) and
   the first fragment block is written between the blocks of the second and the fourth file *)
Example ex_backlog_3_40 : ex_blocks 3 = ex_blocks 40 /\
  option_map (map (fun x => snd (fst (fst x)))) (ex_blocks 3) =
  Some [2048; 0; 4096; 16384; 2048; 0; 0; 4096; 1024 + 2048; 4096; 16384] /\
  option_map (@length _) (ex_blocks 1) = Some 11%nat.
Proof. vm_compute. repeat split; reflexivity. Qed.

(* the inodes of the same six files (and of a seventh that does not exist): identical for backlog 1, 3
   and 40, equal to what [spec_inodes] / [spec_ftbl] compute without any pool; file 1 has two data blocks
   and its tail in fragment block 0 at offset 2, file 3 has a block start, file 5 is sparse and therefore
   the only extended inode *)
Definition ex_inodes (q : N) : option (list inode * list (N * N)) :=
  match run_concrete sum_hash 4 q ex_files with
  | Ok s => Some (map (obs_inodes s) [0; 1; 2; 3; 4; 5; 6], obs_ftbl s)
  | _ => None
  end.

Example ex_inodes_1_3_40 :
  ex_inodes 1 = ex_inodes 3 /\ ex_inodes 3 = ex_inodes 40 /\
  ex_inodes 40 =
    Some (map (spec_inodes sum_hash toy_compress cht cht_search cht_insert cbw cbw_write 4 [] (mkBw [] [] O) ex_files)
              [0; 1; 2; 3; 4; 5; 6],
          spec_ftbl sum_hash toy_compress cht cht_search cht_insert cbw cbw_write 4 [] (mkBw [] [] O) ex_files) /\
  ex_inodes 3 =
    Some ([ mkI false 2 0 0 0 0 [];
            mkI false 10 0 0 0 2 [16777220; 16777220];
            mkI false 1 0 0 1 0 [];
            mkI false 12 0 12 U32MAX U32MAX [16777220; 16777220; 16777220];
            mkI false 3 0 0 1 1 [];
            mkI true 6 6 0 U32MAX U32MAX [0; 0];
            new_inode ],
          [(8, 16777220); (24, 16777220)]).
Proof. vm_compute. repeat split; reflexivity. Qed.

(* the FIFO hypothesis is not decoration: a pool that hands back the newest item first makes the same
   processor produce a different write sequence *)
Definition lifo_dequeue (q : list blk) : option (blk * list blk) :=
  match rev q with [] => None | b :: r => Some (process_block sum_hash toy_compress b, rev r) end.

Definition ex_lifo : res cst :=
  run cht cht_search cht_insert cbw cbw_write (list blk) sp_submit lifo_dequeue 4 (clamp_backlog 40)
      [] [] (mkBw [] [] O) ex_files.

Example ex_lifo_differs :
  match ex_lifo, run_concrete sum_hash 4 40 ex_files with
  | Ok s1, Ok s2 => negb (list_eqb (map (fun w => snd w) (obs_writes s1)) (map (fun w => snd w) (obs_writes s2)))
                    || negb (Nat.eqb (length (obs_writes s1)) (length (obs_writes s2)))
  | Ok _, _ => false
  | _, _ => true
  end = true.
Proof. vm_compute. reflexivity. Qed.

(* ================================================================================================ *)
(* Composition with C09: the block processor ON the labelled transition system of threadpool.c       *)
(* ================================================================================================ *)
(* Closes the gap "threadpool.c is a [fifo_pool]" (props/C02/NOTES.md, weak spot A1).  coq/BpPool/:
     TpExec.v    submit/dequeue that RUN C09's LTS [PoolModel.step] (repaired code, any number of workers)
                 along a scheduler oracle until the main thread's call returns; pool state = LTS state
                 + table of the submitted blocks + the remaining schedule;
     TpReturn.v  every call returns, with the effect of the FIFO specification (C09's [sim_step] and
                 invariants [Inv], [Sync], [FInv] applied step by step);
     TpLaws.v    the two laws of a FIFO pool;   TpTrace.v  these executions are runs of the LTS, every
                 state is [reachable];   PoolMap.v / Compose.v  transfer to C02's theorems.
   Schedules: an arbitrary finite prefix of scheduler choices (which thread performs its next critical
   section; spurious wake-ups of any waiter; choices of blocked threads are skipped), then rounds
   [sched k] = finite lists of choices; [admissible n sched] (bounded weak fairness): every round gives
   each of the n+1 threads at least one turn.  Order, repetitions, round lengths and the spurious
   wake-ups are unrestricted.  Calls are total functions; no "the call returned" hypothesis is left:
   C09's invariants (the case analysis of pool_no_stuck) yield in every state of a blocked call a thread
   whose next step returns the call or decreases a variant [nu] of C09's measure [mu] that spurious
   wake-ups do not increase (TpReturn.v: hot_exists, hot_fires, step_frame, exec_round_nu).
   Items: C09's items are [nat]; submission i is item 2i, the callback is [S], item 2i+1 decodes to
   [process_block (block i)].  That this encoding is harmless is part of the laws below: they speak
   about blocks. *)
From Coq Require Import Lia.
From SqfsV Require C09.PoolModel C09.PoolSafety C09.PoolRefine.
From SqfsV Require Import BpPool.PoolMap BpPool.TpExec BpPool.TpReturn BpPool.TpLaws BpPool.TpTrace BpPool.Compose.

Section Composition.
Variable hash : list N -> N.
Variable compress : list N -> option (list N).
Variable HT : Type.
Variable ht_search : HT -> blk -> option (N * N).
Variable ht_insert : HT -> blk -> N * N -> HT.
Variable BW : Type.
Variable bw_write : BW -> blk -> BW * N.

Notation pblock := (process_block hash compress).

(* a FIFO pool whose laws hold under an invariant of its state (the record [fifo_pool] above demands
   them for every value of the state type) *)
Record fifo_pool_inv : Type := {
  fpi_state : Type;
  fpi_submit : fpi_state -> blk -> fpi_state;
  fpi_dequeue : fpi_state -> option (blk * fpi_state);
  fpi_alpha : fpi_state -> list blk;
  fpi_inv : fpi_state -> Prop;
  fpi_submit_ok : forall p b, fpi_inv p ->
                  fpi_inv (fpi_submit p b) /\ fpi_alpha (fpi_submit p b) = fpi_alpha p ++ [b];
  fpi_deq_inv : forall p b p', fpi_inv p -> fpi_dequeue p = Some (b, p') -> fpi_inv p';
  fpi_deq_cons : forall p b r, fpi_inv p -> fpi_alpha p = b :: r ->
                 exists p', fpi_dequeue p = Some (pblock b, p') /\ fpi_alpha p' = r
}.

Definition run_on_inv (pool : fifo_pool_inv) (p0 : fpi_state pool) (bs backlog : N) (ht0 : HT) (bw0 : BW)
                      (files : list file) :=
  BpModel.run HT ht_search ht_insert BW bw_write (fpi_state pool) (fpi_submit pool) (fpi_dequeue pool)
              bs (clamp_backlog backlog) p0 ht0 bw0 files.

(* C02's main theorems (writes, inodes, fragment table) for pools with an invariant *)
Theorem bp_refines_spec_inv :
  forall (pool : fifo_pool_inv) (p0 : fpi_state pool) bs backlog ht0 bw0 files,
  fpi_inv pool p0 -> fpi_alpha pool p0 = [] -> 0 < bs -> Forall file_ok files ->
  exists s, run_on_inv pool p0 bs backlog ht0 bw0 files = Ok s /\
            (s_bw _ _ _ s, s_writes _ _ _ s) = spec_of hash compress HT ht_search ht_insert BW bw_write bs ht0 bw0 files /\
            s_backlog _ _ _ s = 0 /\
            (forall k, s_ino _ _ _ s k = inodes_of hash compress HT ht_search ht_insert BW bw_write bs ht0 bw0 files k) /\
            s_ftbl _ _ _ s = ftbl_of hash compress HT ht_search ht_insert BW bw_write bs ht0 bw0 files /\
            fpi_inv pool (s_pool _ _ _ s).
Proof.
  intros pool p0 bs backlog ht0 bw0 files H0 H1 H2 H3.
  exact (run_refines_spec_inv hash compress HT ht_search ht_insert BW bw_write (fpi_state pool)
           (fpi_submit pool) (fpi_dequeue pool) (fpi_alpha pool) (fpi_inv pool) bs (clamp_backlog backlog) bw0
           (fpi_submit_ok pool) (fpi_deq_inv pool) (fpi_deq_cons pool) (clamp_ge3 backlog) p0 ht0 files H0 H1 H2 H3).
Qed.

(* the old record is the instance with the trivial invariant, with the same runs *)
Definition fifo_pool_as_inv (pool : fifo_pool hash compress) : fifo_pool_inv :=
  Build_fifo_pool_inv (fp_state _ _ pool) (fp_submit _ _ pool) (fp_dequeue _ _ pool) (fp_alpha _ _ pool)
    (fun _ => True)
    (fun p b _ => conj I (fp_submit_ok _ _ pool p b))
    (fun _ _ _ _ _ => I)
    (fun p b r _ E => fp_deq_cons _ _ pool p b r E).

Theorem fifo_pool_is_fifo_pool_inv :
  forall (pool : fifo_pool hash compress) p0 bs backlog ht0 bw0 files,
  run_on_inv (fifo_pool_as_inv pool) p0 bs backlog ht0 bw0 files
  = run_on hash compress HT ht_search ht_insert BW bw_write pool p0 bs backlog ht0 bw0 files.
Proof. reflexivity. Qed.

(* ---- the pool of threadpool.c ---- *)
Variable cb_st : nat -> Z.         (* status returned by the worker callback for each work item *)
Variable sched : schedule.
Variable n : nat.                  (* number of worker threads *)

(* no-failure hypothesis: the callback reports success for every item (the model's [compress] cannot
   fail; compressor failures are C13's subject, the pool's behaviour after a failure C09's) *)
Definition nofail_cb : Prop := forall d, cb_st d = 0%Z.

Notation TP := (tpool).
Notation tp_sub := (tpool_submit cb_st sched).
Notation tp_deq := (tpool_dequeue hash compress cb_st sched).
Notation tp_abs := (tpool_alpha hash compress).
Notation tp_inv := (tpool_inv cb_st n).

(* threadpool.c's LTS, for every number of workers n >= 1 and every admissible schedule, satisfies
   the laws C02's proofs consume (under the invariant [tpool_inv], which also says that the LTS state is
   reachable in C09's sense and that no call is in progress) *)
Theorem threadpool_is_fifo_pool :
  nofail_cb -> (n >= 1)%nat -> admissible n sched ->
  (forall prefix, tp_inv (tpool_init n prefix) /\ tp_abs (tpool_init n prefix) = []) /\
  (forall p b, tp_inv p -> tp_inv (tp_sub p b) /\ tp_abs (tp_sub p b) = tp_abs p ++ [b]) /\
  (forall p b p', tp_inv p -> tp_deq p = Some (b, p') -> tp_inv p') /\
  (forall p b r, tp_inv p -> tp_abs p = b :: r ->
     exists p', tp_deq p = Some (pblock b, p') /\ tp_abs p' = r).
Proof. exact (threadpool_laws hash compress cb_st sched n). Qed.

(* ... as an instance of the record *)
Definition threadpool_pool (Hnf : nofail_cb) (Hn : (n >= 1)%nat) (Hadm : admissible n sched) : fifo_pool_inv :=
  Build_fifo_pool_inv TP tp_sub tp_deq tp_abs tp_inv
    (proj1 (proj2 (threadpool_is_fifo_pool Hnf Hn Hadm)))
    (proj1 (proj2 (proj2 (threadpool_is_fifo_pool Hnf Hn Hadm))))
    (proj2 (proj2 (proj2 (threadpool_is_fifo_pool Hnf Hn Hadm)))).

(* the encoding of blocks as work items is harmless: a freshly submitted item decodes to the submitted
   block, later submissions do not change what an item decodes to, and the callback's effect on an item
   ([cbmark], the [cb_val] of the LTS) decodes to [process_block] on the block *)
Theorem threadpool_item_encoding :
  (forall tbl b, decode blk pblock dflt_blk (tbl ++ [b]) (2 * length tbl) = b) /\
  (forall tbl b d, item_ok (length tbl) d -> decode blk pblock dflt_blk (tbl ++ [b]) d = decode blk pblock dflt_blk tbl d) /\
  (forall tbl d, Nat.even d = true -> decode blk pblock dflt_blk tbl (cbmark d) = pblock (decode blk pblock dflt_blk tbl d)).
Proof.
  split; [|split].
  - exact (decode_new blk pblock dflt_blk).
  - exact (decode_app_old blk pblock dflt_blk).
  - exact (decode_processed blk pblock dflt_blk).
Qed.

(* every pool state the block processor can see is a reachable state of C09's LTS and is obtained
   from the previous one by a run of the LTS; no hypothesis on schedule, workers or callback *)
Theorem threadpool_states_reachable :
  (forall prefix, tp_reach cb_st blk n (tpool_init n prefix)) /\
  (forall p b, tp_reach cb_st blk n p -> tp_reach cb_st blk n (tp_sub p b)) /\
  (forall p b p', tp_reach cb_st blk n p -> tp_deq p = Some (b, p') -> tp_reach cb_st blk n p').
Proof.
  split; [|split].
  - exact (tp_init_reach cb_st blk n).
  - exact (tp_submit_reach cb_st sched blk n).
  - exact (tp_dequeue_reach cb_st sched blk pblock dflt_blk n).
Qed.

(* Composition.  For every file list, requested backlog, number of workers n >= 1, schedule prefix and
   admissible schedule: the block processor running ON THE LTS OF threadpool.c returns Ok, leaves nothing
   in flight, hands exactly the specification's blocks to the block writer and produces the
   specification's inodes and fragment table -- the same as the serial pool with the minimal backlog.
   ([bp_schedule_irrelevant] and [bp_inodes_schedule_backlog_irrelevant] with "every FIFO pool" replaced
   by "threadpool.c's LTS under every schedule and worker count".) *)
Theorem bp_on_threadpool :
  forall prefix bs backlog ht0 bw0 files,
  nofail_cb -> (n >= 1)%nat -> admissible n sched -> 0 < bs -> Forall file_ok files ->
  exists s sref,
    run_on_threadpool hash compress HT ht_search ht_insert BW bw_write cb_st sched n prefix bs backlog ht0 bw0 files = Ok s /\
    run_on hash compress HT ht_search ht_insert BW bw_write (serial_pool hash compress) [] bs 0 ht0 bw0 files = Ok sref /\
    (s_bw _ _ _ s, s_writes _ _ _ s) = spec_of hash compress HT ht_search ht_insert BW bw_write bs ht0 bw0 files /\
    s_writes _ _ _ s = s_writes _ _ _ sref /\ s_bw _ _ _ s = s_bw _ _ _ sref /\
    (forall k, s_ino _ _ _ s k = inodes_of hash compress HT ht_search ht_insert BW bw_write bs ht0 bw0 files k) /\
    (forall k, s_ino _ _ _ s k = s_ino _ _ _ sref k) /\
    s_ftbl _ _ _ s = ftbl_of hash compress HT ht_search ht_insert BW bw_write bs ht0 bw0 files /\
    s_ftbl _ _ _ s = s_ftbl _ _ _ sref /\
    s_backlog _ _ _ s = 0 /\
    tp_inv (s_pool _ _ _ s).
Proof.
  intros prefix bs backlog ht0 bw0 files Hnf Hn Hadm Hbs Hf.
  destruct (bp_on_threadpool_l hash compress HT ht_search ht_insert BW bw_write cb_st sched n Hnf Hn Hadm
              prefix bs backlog ht0 bw0 files Hbs Hf) as (s & A1 & A2 & A3 & A4 & A5 & A6).
  destruct (bp_refines_spec hash compress HT ht_search ht_insert BW bw_write (serial_pool hash compress) [] bs 0
              ht0 bw0 files eq_refl Hbs Hf) as (s2 & B1 & B2 & _).
  destruct (bp_inodes_refine_spec hash compress HT ht_search ht_insert BW bw_write (serial_pool hash compress) [] bs 0
              ht0 bw0 files eq_refl Hbs Hf) as (s3 & C1 & C2 & C3).
  rewrite B1 in C1. injection C1 as C1. subst s3.
  exists s, s2. split; [exact A1|]. split; [exact B1|]. split; [exact A2|].
  assert (E : (s_bw _ _ _ s, s_writes _ _ _ s) = (s_bw _ _ _ s2, s_writes _ _ _ s2)).
  { rewrite B2. exact A2. }
  injection E as E1 E2.
  split; [exact E2|]. split; [exact E1|]. split; [exact A4|].
  split; [intro k; rewrite A4, C2; reflexivity|]. split; [exact A5|].
  split; [rewrite A5, C3; reflexivity|]. split; [exact A3|exact A6].
Qed.

End Composition.
Print Assumptions bp_refines_spec_inv.
Print Assumptions threadpool_is_fifo_pool.
Print Assumptions threadpool_item_encoding.
Print Assumptions threadpool_states_reachable.
Print Assumptions bp_on_threadpool.

(* ---- non-vacuity of the composition ---- *)
(* 2 workers.  The prefix starts with worker 0 going to sleep on the empty queue, a spurious wake-up of
   it and its going back to sleep (these three labels are enabled in this order: first clause of the
   example); later the main thread is pre-empted between and inside its calls.  Every round begins with
   spurious wake-ups of all three threads and contains more of them. *)
Definition ex_prefix : list choice :=
  [CWorker 0; CSpurWorker 0; CWorker 0; CMain; CWorker 1; CMain; CMain; CWorker 1; CWorker 0; CSpurMain;
   CMain; CWorker 1; CWorker 1].

Definition ex_sched : schedule := fun k =>
  if Nat.even k
  then [CSpurMain; CSpurWorker 0; CSpurWorker 1; CWorker 1; CSpurWorker 0; CMain; CWorker 1; CSpurMain; CWorker 0]
  else [CSpurWorker 1; CSpurMain; CSpurWorker 0; CWorker 0; CMain; CSpurWorker 0; CSpurWorker 1; CWorker 0; CWorker 1; CMain].

Example ex_sched_admissible : admissible 2 ex_sched /\ nofail_cb (fun _ => 0%Z).
Proof.
  split; [|intro; reflexivity]. intro k. unfold ex_sched.
  assert (W : forall p, In (CWorker 0) p -> In (CWorker 1) p -> forall w, (w < 2)%nat -> In (CWorker w) p).
  { intros p P0 P1 w Hw. destruct w as [|[|w]]; auto. exfalso. lia. }
  destruct (Nat.even k); (split; [simpl; auto 12|apply W; simpl; auto 12]).
Qed.

Definition ex_tp_run (q : N) (files : list file) :=
  run_on_threadpool sum_hash toy_compress cht cht_search cht_insert cbw cbw_write (fun _ => 0%Z) ex_sched 2
                    ex_prefix 4 q [] (mkBw [] [] O) files.

Definition ex_obs {P} (r : res (st cht cbw P)) :=
  match r with
  | Ok s => Some (s_writes _ _ _ s, w_file (s_bw _ _ _ s), map (s_ino _ _ _ s) [0; 1; 2; 3; 4; 5; 6], s_ftbl _ _ _ s)
  | _ => None
  end.

(* a concrete run on the LTS, computed: the write calls, the output file, the inodes and the fragment
   table equal those of the serial run, for the six files above and for three files, for backlog 3 and
   40; all 16 work items went through a worker, several of them completed out of submission order
   ([g_ran] lists tickets, latest first), 24 resp. 20 rounds of the schedule were used *)
Example ex_on_threadpool :
  PoolModel.run cbmark (fun _ => 0%Z) true (PoolModel.init 2)
      [PoolModel.LWorker 0; PoolModel.LSpurWorker 0; PoolModel.LWorker 0] <> None /\
  ex_obs (ex_tp_run 3 ex_files) = ex_obs (run_concrete sum_hash 4 3 ex_files) /\
  ex_obs (ex_tp_run 40 ex_files) = ex_obs (run_concrete sum_hash 4 0 ex_files) /\
  ex_obs (ex_tp_run 3 (firstn 3 ex_files)) = ex_obs (run_concrete sum_hash 4 3 (firstn 3 ex_files)) /\
  option_map (fun x => length (fst (fst (fst x)))) (ex_obs (ex_tp_run 3 ex_files)) = Some 11%nat /\
  match ex_tp_run 3 ex_files, ex_tp_run 40 ex_files with
  | Ok s, Ok s' =>
      PoolModel.g_ran (tp_pool _ (s_pool _ _ _ s)) = [15; 14; 13; 12; 11; 10; 9; 8; 7; 6; 5; 4; 3; 1; 2; 0]%nat /\
      tp_k _ (s_pool _ _ _ s) = 24%nat /\
      PoolModel.g_ran (tp_pool _ (s_pool _ _ _ s')) = [15; 14; 12; 13; 11; 10; 8; 9; 6; 7; 5; 4; 1; 3; 2; 0]%nat /\
      tp_k _ (s_pool _ _ _ s') = 20%nat
  | _, _ => False
  end.
Proof. vm_compute. repeat split; try reflexivity. discriminate. Qed.

(* the fairness hypothesis is not decoration: under a schedule that never gives a worker a turn (only
   the main thread and spurious wake-ups) no item is ever processed, the first blocking dequeue does not
   return within its rounds and the processor reports SQFS_ERROR_INTERNAL -- nothing is handed back
   without a worker having run *)
Definition ex_starve : schedule := fun _ => [CMain; CSpurWorker 0; CSpurWorker 1; CSpurMain].

Example ex_starved_pool_does_not_deliver :
  run_on_threadpool sum_hash toy_compress cht cht_search cht_insert cbw cbw_write (fun _ => 0%Z) ex_starve 2
                    [] 4 3 [] (mkBw [] [] O) ex_files = Err E_INTERNAL /\
  ~ admissible 2 ex_starve.
Proof.
  split; [vm_compute; reflexivity|]. intros H. destruct (H 0%nat) as [_ Hw].
  specialize (Hw 0%nat (Nat.lt_0_succ 1)). simpl in Hw.
  repeat (destruct Hw as [Hw|Hw]; [discriminate|]). exact Hw.
Qed.
