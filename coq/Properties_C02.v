(* C02 — determinism of the data path: the sequence of blocks handed to the block writer (and with it
   everything the writer does) is a function of the input alone; it does not depend on max_backlog,
   on the worker pool, on the number of workers or on the schedule.  Statements only; proofs are
   [exact]s of lemmas in C02/BpProofs.v. *)
From Coq Require Import List NArith ZArith Bool.
From SqfsV Require Import C02.GenBlk C02.BpModel C02.BpSpec C02.BpLemmas C02.BpQueue C02.BpProofs
                          C02.BpConcrete C02.EnvModel.
Import ListNotations.
Local Open Scope N_scope.

Section Statements.
(* every oracle is universally quantified and carries no hypothesis: the worker's hash and compressor,
   the fragment hash table (C08's domain), the block writer (C08's domain) *)
Variable hash : list N -> N.
Variable compress : list N -> option (list N).
Variable HT : Type.
Variable ht_search : HT -> blk -> option (N * N).
Variable ht_insert : HT -> blk -> N * N -> HT.
Variable BW : Type.
Variable bw_write : BW -> blk -> BW * N.

Notation pblock := (process_block hash compress).

(* A worker pool, used only through what C09 proves about lib/util/src/threadpool.c (pool_fifo):
   there is an abstraction [fp_alpha] of the pool state to the list of submitted-and-not-yet-dequeued
   items such that submit appends, and dequeue returns the worker's result for the oldest item
   (what dequeue does on an empty pool is never used: the processor provably never asks).
   The pool state may contain anything else: worker count, worker states, the schedule to come. *)
Record fifo_pool : Type := {
  fp_state : Type;
  fp_submit : fp_state -> blk -> fp_state;
  fp_dequeue : fp_state -> option (blk * fp_state);
  fp_alpha : fp_state -> list blk;
  fp_submit_ok : forall p b, fp_alpha (fp_submit p b) = fp_alpha p ++ [b];
  fp_deq_cons : forall p b r, fp_alpha p = b :: r ->
                exists p', fp_dequeue p = Some (pblock b, p') /\ fp_alpha p' = r
}.

(* the serial reference pool of threadpool_serial.c *)
Definition serial_pool : fifo_pool :=
  Build_fifo_pool (list blk) sp_submit (sp_dequeue pblock) (fun x => x)
                  (serial_submit) (serial_deq_cons pblock).

Definition run_on (pool : fifo_pool) (p0 : fp_state pool) (bs backlog : N) (ht0 : HT) (bw0 : BW) (files : list file) :=
  run HT ht_search ht_insert BW bw_write (fp_state pool) (fp_submit pool) (fp_dequeue pool)
      bs (clamp_backlog backlog) p0 ht0 bw0 files.

Definition spec_of (bs : N) (ht0 : HT) (bw0 : BW) (files : list file) : BW * list (blk * N) :=
  bw_run BW bw_write bw0 [] (spec_blocks hash compress HT ht_search ht_insert bs ht0 files).

(* Main theorem.  For every FIFO pool in every initial state with an empty queue, every requested
   backlog, every block size > 0 and every list of files (valid user flags, no empty append): the run
   succeeds (no error, no NULL dereference, no loop runs out of fuel), leaves nothing in flight, and
   the block writer saw exactly the blocks of the in-order specification. *)
Theorem bp_refines_spec :
  forall (pool : fifo_pool) (p0 : fp_state pool) bs backlog ht0 bw0 files,
  fp_alpha pool p0 = [] -> 0 < bs -> Forall file_ok files ->
  exists s, run_on pool p0 bs backlog ht0 bw0 files = Ok s /\
            (s_bw _ _ _ s, s_writes _ _ _ s) = spec_of bs ht0 bw0 files /\
            s_backlog _ _ _ s = 0.
Proof.
  intros pool p0 bs backlog ht0 bw0 files H1 H2 H3.
  exact (run_refines_spec hash compress HT ht_search ht_insert BW bw_write (fp_state pool)
           (fp_submit pool) (fp_dequeue pool) bs (clamp_backlog backlog) bw0 (fp_alpha pool)
           (fp_submit_ok pool) (fp_deq_cons pool) (clamp_ge3 backlog) p0 ht0 files H1 H2 H3).
Qed.

(* max_backlog is irrelevant: any two requested backlogs (the code clamps to >= 3), serial pool; in
   particular every run equals the eager reference run (backlog 0 -> 3) *)
Theorem bp_backlog_irrelevant :
  forall bs q1 q2 ht0 bw0 files, 0 < bs -> Forall file_ok files ->
  exists s1 s2,
    run_on serial_pool [] bs q1 ht0 bw0 files = Ok s1 /\
    run_on serial_pool [] bs q2 ht0 bw0 files = Ok s2 /\
    s_writes _ _ _ s1 = s_writes _ _ _ s2 /\ s_bw _ _ _ s1 = s_bw _ _ _ s2.
Proof.
  intros bs q1 q2 ht0 bw0 files Hbs Hf.
  destruct (bp_refines_spec serial_pool [] bs q1 ht0 bw0 files eq_refl Hbs Hf) as (s1 & A1 & A2 & _).
  destruct (bp_refines_spec serial_pool [] bs q2 ht0 bw0 files eq_refl Hbs Hf) as (s2 & B1 & B2 & _).
  exists s1, s2. split; [exact A1|]. split; [exact B1|].
  rewrite <- B2 in A2. inversion A2. split; assumption.
Qed.

(* the pool, its worker count and its schedule are irrelevant: any FIFO pool in any initial state with
   an empty queue, with any backlog, against the serial pool with the minimal backlog *)
Theorem bp_schedule_irrelevant :
  forall (pool : fifo_pool) (p0 : fp_state pool) bs q ht0 bw0 files,
  fp_alpha pool p0 = [] -> 0 < bs -> Forall file_ok files ->
  exists s sref,
    run_on pool p0 bs q ht0 bw0 files = Ok s /\
    run_on serial_pool [] bs 0 ht0 bw0 files = Ok sref /\
    s_writes _ _ _ s = s_writes _ _ _ sref /\ s_bw _ _ _ s = s_bw _ _ _ sref.
Proof.
  intros pool p0 bs q ht0 bw0 files Hp Hbs Hf.
  destruct (bp_refines_spec pool p0 bs q ht0 bw0 files Hp Hbs Hf) as (s1 & A1 & A2 & _).
  destruct (bp_refines_spec serial_pool [] bs 0 ht0 bw0 files eq_refl Hbs Hf) as (s2 & B1 & B2 & _).
  exists s1, s2. split; [exact A1|]. split; [exact B1|].
  rewrite <- B2 in A2. inversion A2. split; assumption.
Qed.

(* I/O order: (1) the blocks written are those of the specification, so the position of every fragment
   block in the output is fixed by the input; (2) all data blocks (hence the blocks of one file) are
   written in the order in which the front end submitted them *)
Theorem io_order :
  forall (pool : fifo_pool) (p0 : fp_state pool) bs q ht0 bw0 files s f evs,
  fp_alpha pool p0 = [] -> 0 < bs -> Forall file_ok files ->
  run_on pool p0 bs q ht0 bw0 files = Ok s ->
  fe_files bs fe_init 0 files = Ok (f, evs) ->
  map fst (s_writes _ _ _ s) = spec_blocks hash compress HT ht_search ht_insert bs ht0 files /\
  map unseq (filter notFB (map fst (s_writes _ _ _ s))) =
    map (fun d => unseq (pblock d)) (filter (fun d => negb (bhas ISFRAG d)) (dblocks evs)).
Proof.
  intros pool p0 bs q ht0 bw0 files s f evs Hp Hbs Hf Hrun Hfe.
  destruct (bp_refines_spec pool p0 bs q ht0 bw0 files Hp Hbs Hf) as (s1 & A1 & A2 & _).
  rewrite Hrun in A1. inversion A1; subst s1.
  assert (E : map fst (s_writes _ _ _ s) = spec_blocks hash compress HT ht_search ht_insert bs ht0 files).
  { change (s_writes _ _ _ s) with (snd (s_bw _ _ _ s, s_writes _ _ _ s)). rewrite A2. unfold spec_of.
    rewrite bw_run_blocks. reflexivity. }
  split; [exact E|]. rewrite E.
  exact (spec_blocks_data_order hash compress HT ht_search ht_insert bs ht0 files f evs Hbs Hf Hfe).
Qed.

(* structural: there is ONE function of the file list (built from the oracles, the block size and the
   initial table/writer states only) that every run computes, whatever pool, pool state, worker count,
   schedule and backlog.  The model has no clock, locale, umask or directory input. *)
Theorem image_is_function_of_input :
  forall bs ht0 bw0, 0 < bs ->
  exists F : list file -> BW * list (blk * N),
  forall (pool : fifo_pool) (p0 : fp_state pool) q files,
    fp_alpha pool p0 = [] -> Forall file_ok files ->
    exists s, run_on pool p0 bs q ht0 bw0 files = Ok s /\ (s_bw _ _ _ s, s_writes _ _ _ s) = F files.
Proof.
  intros bs ht0 bw0 Hbs. exists (spec_of bs ht0 bw0). intros pool p0 q files Hp Hf.
  destruct (bp_refines_spec pool p0 bs q ht0 bw0 files Hp Hbs Hf) as (s & A1 & A2 & _).
  exists s. split; assumption.
Qed.

(* ---- the inodes and the fragment table ----
   The three places that update an inode (append on the front end, process_completed_fragment when a
   tail end leaves the pool, process_completed_block when a block is written) interleave differently for
   different backlogs and schedules.  Nevertheless every field of every inode after the run -- type
   (basic/extended), file size, sparse byte count, block start, fragment index and offset, block size
   list -- and the whole fragment table are the functions [spec_inodes] / [spec_ftbl] of the file list
   defined in C02/BpSpec.v from the in-order specification (no pool, no backlog). *)
Definition inodes_of (bs : N) (ht0 : HT) (bw0 : BW) (files : list file) : N -> inode :=
  spec_inodes hash compress HT ht_search ht_insert BW bw_write bs ht0 bw0 files.

Definition ftbl_of (bs : N) (ht0 : HT) (bw0 : BW) (files : list file) : list (N * N) :=
  spec_ftbl hash compress HT ht_search ht_insert BW bw_write bs ht0 bw0 files.

Theorem bp_inodes_refine_spec :
  forall (pool : fifo_pool) (p0 : fp_state pool) bs backlog ht0 bw0 files,
  fp_alpha pool p0 = [] -> 0 < bs -> Forall file_ok files ->
  exists s, run_on pool p0 bs backlog ht0 bw0 files = Ok s /\
            (forall k, s_ino _ _ _ s k = inodes_of bs ht0 bw0 files k) /\
            s_ftbl _ _ _ s = ftbl_of bs ht0 bw0 files.
Proof.
  intros pool p0 bs backlog ht0 bw0 files H1 H2 H3.
  destruct (run_refines_spec_full hash compress HT ht_search ht_insert BW bw_write (fp_state pool)
           (fp_submit pool) (fp_dequeue pool) bs (clamp_backlog backlog) bw0 (fp_alpha pool)
           (fp_submit_ok pool) (fp_deq_cons pool) (clamp_ge3 backlog) p0 ht0 files H1 H2 H3)
    as (s & A & _ & _ & B & C).
  exists s. split; [exact A|]. split; [exact B|exact C].
Qed.

(* pool, worker count, schedule and backlog are irrelevant for every inode and for the fragment table *)
Theorem bp_inodes_schedule_backlog_irrelevant :
  forall (pool : fifo_pool) (p0 : fp_state pool) bs q ht0 bw0 files,
  fp_alpha pool p0 = [] -> 0 < bs -> Forall file_ok files ->
  exists s sref,
    run_on pool p0 bs q ht0 bw0 files = Ok s /\
    run_on serial_pool [] bs 0 ht0 bw0 files = Ok sref /\
    (forall k, s_ino _ _ _ s k = s_ino _ _ _ sref k) /\ s_ftbl _ _ _ s = s_ftbl _ _ _ sref.
Proof.
  intros pool p0 bs q ht0 bw0 files Hp Hbs Hf.
  destruct (bp_inodes_refine_spec pool p0 bs q ht0 bw0 files Hp Hbs Hf) as (s1 & A1 & A2 & A3).
  destruct (bp_inodes_refine_spec serial_pool [] bs 0 ht0 bw0 files eq_refl Hbs Hf) as (s2 & B1 & B2 & B3).
  exists s1, s2. split; [exact A1|]. split; [exact B1|].
  split; [intro k; rewrite A2, B2; reflexivity|rewrite A3, B3; reflexivity].
Qed.

(* ... i.e. there are two functions of the file list that every run computes *)
Theorem inodes_are_function_of_input :
  forall bs ht0 bw0, 0 < bs ->
  exists (F : list file -> N -> inode) (G : list file -> list (N * N)),
  forall (pool : fifo_pool) (p0 : fp_state pool) q files,
    fp_alpha pool p0 = [] -> Forall file_ok files ->
    exists s, run_on pool p0 bs q ht0 bw0 files = Ok s /\
              (forall k, s_ino _ _ _ s k = F files k) /\ s_ftbl _ _ _ s = G files.
Proof.
  intros bs ht0 bw0 Hbs. exists (inodes_of bs ht0 bw0), (ftbl_of bs ht0 bw0). intros pool p0 q files Hp Hf.
  exact (bp_inodes_refine_spec pool p0 bs q ht0 bw0 files Hp Hbs Hf).
Qed.

(* the inode type after the run is the smallest that can hold the inode: extended exactly if the file
   has sparse bytes or its size or block start need more than 32 bits -- whatever the order in which
   the three fields received their values *)
Theorem inode_type_is_minimal :
  forall (pool : fifo_pool) (p0 : fp_state pool) bs q ht0 bw0 files s k,
  fp_alpha pool p0 = [] -> 0 < bs -> Forall file_ok files ->
  run_on pool p0 bs q ht0 bw0 files = Ok s ->
  i_ext (s_ino _ _ _ s k) =
    (0 <? i_sparse (s_ino _ _ _ s k)) || (U32MAX <? i_size (s_ino _ _ _ s k)) || (U32MAX <? i_start (s_ino _ _ _ s k)).
Proof.
  intros pool p0 bs q ht0 bw0 files s k Hp Hbs Hf Hrun.
  destruct (bp_inodes_refine_spec pool p0 bs q ht0 bw0 files Hp Hbs Hf) as (s1 & A1 & A2 & _).
  rewrite Hrun in A1. inversion A1; subst s1. rewrite A2.
  exact (spec_inodes_type hash compress HT ht_search ht_insert BW bw_write bs bw0 ht0 files k).
Qed.

(* ... and the file size is the number of bytes the caller handed to append for that file (0 for a file
   number that does not exist), whatever the chunking *)
Theorem inode_file_size_is_input_length :
  forall (pool : fifo_pool) (p0 : fp_state pool) bs q ht0 bw0 files s k,
  fp_alpha pool p0 = [] -> 0 < bs -> Forall file_ok files ->
  run_on pool p0 bs q ht0 bw0 files = Ok s ->
  i_size (s_ino _ _ _ s k) = file_bytes files k.
Proof.
  intros pool p0 bs q ht0 bw0 files s k Hp Hbs Hf Hrun.
  destruct (bp_inodes_refine_spec pool p0 bs q ht0 bw0 files Hp Hbs Hf) as (s1 & A1 & A2 & _).
  rewrite Hrun in A1. inversion A1; subst s1. rewrite A2.
  exact (spec_inodes_size hash compress HT ht_search ht_insert BW bw_write bs bw0 ht0 files k Hbs Hf).
Qed.

End Statements.
Print Assumptions bp_refines_spec.
Print Assumptions bp_inodes_refine_spec.
Print Assumptions bp_inodes_schedule_backlog_irrelevant.
Print Assumptions inodes_are_function_of_input.
Print Assumptions inode_type_is_minimal.
Print Assumptions inode_file_size_is_input_length.
Print Assumptions bp_backlog_irrelevant.
Print Assumptions bp_schedule_irrelevant.
Print Assumptions io_order.
Print Assumptions image_is_function_of_input.

(* the one place where the packers read the process environment for image content: the default
   time stamp (lib/util/src/source_date_epoch.c via lib/common/src/fstree_cli.c).  It is an explicit
   input of the model: a function of the SOURCE_DATE_EPOCH string and the --defaults option, 32 bit. *)
Theorem default_mtime_is_u32 : forall env opt, opt_ok opt -> default_mtime env opt < 4294967296.
Proof. exact default_mtime_bound. Qed.
Print Assumptions default_mtime_is_u32.

Theorem sde_unset_is_zero : get_source_date_epoch None = 0 /\ get_source_date_epoch (Some []) = 0.
Proof. split; reflexivity. Qed.

(* ---- constants the proofs rest on (re-checked against the headers on every run) ---- *)
Example blk_flags_are_disjoint_bits : forallb (fun k => forallb (fun k' => match k, k' with
     | DC, DC | DH, DH | DF, DF | DD, DD | IGS, IGS | SPARSE, SPARSE | FIRST, FIRST | LAST, LAST
     | ISFRAG, ISFRAG | FRAGBLK, FRAGBLK | COMP, COMP | INTERNAL, INTERNAL => negb (flag_const k =? 0)
     | _, _ => N.land (flag_const k) (flag_const k') =? 0 end) all_flags) all_flags = true.
Proof. exact flag_consts_disjoint. Qed.

Example min_backlog_at_least_3 : forall q, 3 <= clamp_backlog q.
Proof. exact clamp_ge3. Qed.

(* ---- non-vacuity ---- *)
(* a toy hash for closed computations *)
Definition sum_hash (l : list N) : N := fold_right N.add 0 l mod 4294967296.

(* block size 4: tails "ab","cd","e" overflow the fragment block while two multi-block files are in flight *)
Definition ex_files : list file :=
  [ (0, [[97;98]]); (0, [[1;2;3;4;5;6;7;8;99;100]]); (0, [[101]]);
    (0, [[65;65;65;65;65;65;65;65;65;65;65;65]]); (0, [[102;103;104]]); (0, [[0;0;0;0;0;0]]) ].

Example ex_files_ok : Forall file_ok ex_files.
Proof. repeat constructor; discriminate. Qed.

Definition ex_blocks (q : N) : option (list (N * N * list N * N)) :=
  match run_concrete sum_hash 4 q ex_files with
  | Ok s => Some (map (fun w => (len (b_data (fst w)), enc_flags (setf INTERNAL false (b_fl (fst w))), b_data (fst w), snd w))
                      (obs_writes s))
  | _ => None
  end.

(* the same 11 write calls with backlog 3 and backlog 40; two of them are fragment blocks (0x4000) and
   the first fragment block is written between the blocks of the second and the fourth file *)
Example ex_backlog_3_40 : ex_blocks 3 = ex_blocks 40 /\
  option_map (map (fun x => snd (fst (fst x)))) (ex_blocks 3) =
  Some [2048; 0; 4096; 16384; 2048; 0; 0; 4096; 1024 + 2048; 4096; 16384] /\
  option_map (@length _) (ex_blocks 1) = Some 11%nat.
Proof. vm_compute. repeat split; reflexivity. Qed.

(* the inodes of the same six files (and of a seventh that does not exist): identical for backlog 1, 3
   and 40, equal to what [spec_inodes] / [spec_ftbl] compute without any pool; file 1 has two data blocks
   and its tail in fragment block 0 at offset 2, file 3 has a block start, file 5 is sparse and therefore
   the only extended inode *)
Definition ex_inodes (q : N) : option (list inode * list (N * N)) :=
  match run_concrete sum_hash 4 q ex_files with
  | Ok s => Some (map (obs_inodes s) [0; 1; 2; 3; 4; 5; 6], obs_ftbl s)
  | _ => None
  end.

Example ex_inodes_1_3_40 :
  ex_inodes 1 = ex_inodes 3 /\ ex_inodes 3 = ex_inodes 40 /\
  ex_inodes 40 =
    Some (map (spec_inodes sum_hash toy_compress cht cht_search cht_insert cbw cbw_write 4 [] (mkBw [] [] O) ex_files)
              [0; 1; 2; 3; 4; 5; 6],
          spec_ftbl sum_hash toy_compress cht cht_search cht_insert cbw cbw_write 4 [] (mkBw [] [] O) ex_files) /\
  ex_inodes 3 =
    Some ([ mkI false 2 0 0 0 0 [];
            mkI false 10 0 0 0 2 [16777220; 16777220];
            mkI false 1 0 0 1 0 [];
            mkI false 12 0 12 U32MAX U32MAX [16777220; 16777220; 16777220];
            mkI false 3 0 0 1 1 [];
            mkI true 6 6 0 U32MAX U32MAX [0; 0];
            new_inode ],
          [(8, 16777220); (24, 16777220)]).
Proof. vm_compute. repeat split; reflexivity. Qed.

(* the FIFO hypothesis is not decoration: a pool that hands back the newest item first makes the same
   processor produce a different write sequence *)
Definition lifo_dequeue (q : list blk) : option (blk * list blk) :=
  match rev q with [] => None | b :: r => Some (process_block sum_hash toy_compress b, rev r) end.

Definition ex_lifo : res cst :=
  run cht cht_search cht_insert cbw cbw_write (list blk) sp_submit lifo_dequeue 4 (clamp_backlog 40)
      [] [] (mkBw [] [] O) ex_files.

Example ex_lifo_differs :
  match ex_lifo, run_concrete sum_hash 4 40 ex_files with
  | Ok s1, Ok s2 => negb (list_eqb (map (fun w => snd w) (obs_writes s1)) (map (fun w => snd w) (obs_writes s2)))
                    || negb (Nat.eqb (length (obs_writes s1)) (length (obs_writes s2)))
  | Ok _, _ => false
  | _, _ => true
  end = true.
Proof. vm_compute. reflexivity. Qed.
