(* C02 — determinism of the data path: the sequence of blocks handed to the block writer (and with it
   everything the writer does) is a function of the input alone; it does not depend on max_backlog,
   on the worker pool, on the number of workers or on the schedule.  Statements only; proofs are
   [exact]s of lemmas in C02/BpProofs.v. *)
From Coq Require Import List NArith ZArith Bool.
From SqfsV Require Import C02.GenBlk C02.BpModel C02.BpSpec C02.BpLemmas C02.BpQueue C02.BpProofs
                          C02.BpConcrete C02.EnvModel.
Import ListNotations.
Local Open Scope N_scope.

Section Statements.
(* every oracle is universally quantified and carries no hypothesis: the worker's hash and compressor,
   the fragment hash table (C08's domain), the block writer (C08's domain) *)
Variable hash : list N -> N.
Variable compress : list N -> option (list N).
Variable HT : Type.
Variable ht_search : HT -> blk -> option (N * N).
Variable ht_insert : HT -> blk -> N * N -> HT.
Variable BW : Type.
Variable bw_write : BW -> blk -> BW * N.

Notation pblock := (process_block hash compress).

(* A worker pool, used only through what C09 proves about lib/util/src/threadpool.c (pool_fifo):
   there is an abstraction [fp_alpha] of the pool state to the list of submitted-and-not-yet-dequeued
   items such that submit appends, and dequeue returns the worker's result for the oldest item
   (what dequeue does on an empty pool is never used: the processor provably never asks).
   The pool state may contain anything else: worker count, worker states, the schedule to come. *)
Record fifo_pool : Type := {
  fp_state : Type;
  fp_submit : fp_state -> blk -> fp_state;
  fp_dequeue : fp_state -> option (blk * fp_state);
  fp_alpha : fp_state -> list blk;
  fp_submit_ok : forall p b, fp_alpha (fp_submit p b) = fp_alpha p ++ [b];
  fp_deq_cons : forall p b r, fp_alpha p = b :: r ->
                exists p', fp_dequeue p = Some (pblock b, p') /\ fp_alpha p' = r
}.

(* the serial reference pool of threadpool_serial.c *)
Definition serial_pool : fifo_pool :=
  Build_fifo_pool (list blk) sp_submit (sp_dequeue pblock) (fun x => x)
                  (serial_submit) (serial_deq_cons pblock).

Definition run_on (pool : fifo_pool) (p0 : fp_state pool) (bs backlog : N) (ht0 : HT) (bw0 : BW) (files : list file) :=
  run HT ht_search ht_insert BW bw_write (fp_state pool) (fp_submit pool) (fp_dequeue pool)
      bs (clamp_backlog backlog) p0 ht0 bw0 files.

Definition spec_of (bs : N) (ht0 : HT) (bw0 : BW) (files : list file) : BW * list (blk * N) :=
  bw_run BW bw_write bw0 [] (spec_blocks hash compress HT ht_search ht_insert bs ht0 files).

(* Main theorem.  For every FIFO pool in every initial state with an empty queue, every requested
   backlog, every block size > 0 and every list of files (valid user flags, no empty append): the run
   succeeds (no error, no NULL dereference, no loop runs out of fuel), leaves nothing in flight, and
   the block writer saw exactly the blocks of the in-order specification. *)
Theorem bp_refines_spec :
  forall (pool : fifo_pool) (p0 : fp_state pool) bs backlog ht0 bw0 files,
  fp_alpha pool p0 = [] -> 0 < bs -> Forall file_ok files ->
  exists s, run_on pool p0 bs backlog ht0 bw0 files = Ok s /\
            (s_bw _ _ _ s, s_writes _ _ _ s) = spec_of bs ht0 bw0 files /\
            s_backlog _ _ _ s = 0.
Proof.
  intros pool p0 bs backlog ht0 bw0 files H1 H2 H3.
  exact (run_refines_spec hash compress HT ht_search ht_insert BW bw_write (fp_state pool)
           (fp_submit pool) (fp_dequeue pool) bs (clamp_backlog backlog) bw0 (fp_alpha pool)
           (fp_submit_ok pool) (fp_deq_cons pool) (clamp_ge3 backlog) p0 ht0 files H1 H2 H3).
Qed.

(* max_backlog is irrelevant: any two requested backlogs (the code clamps to >= 3), serial pool; in
   particular every run equals the eager reference run (backlog 0 -> 3) *)
Theorem bp_backlog_irrelevant :
  forall bs q1 q2 ht0 bw0 files, 0 < bs -> Forall file_ok files ->
  exists s1 s2,
    run_on serial_pool [] bs q1 ht0 bw0 files = Ok s1 /\
    run_on serial_pool [] bs q2 ht0 bw0 files = Ok s2 /\
    s_writes _ _ _ s1 = s_writes _ _ _ s2 /\ s_bw _ _ _ s1 = s_bw _ _ _ s2.
Proof.
  intros bs q1 q2 ht0 bw0 files Hbs Hf.
  destruct (bp_refines_spec serial_pool [] bs q1 ht0 bw0 files eq_refl Hbs Hf) as (s1 & A1 & A2 & _).
  destruct (bp_refines_spec serial_pool [] bs q2 ht0 bw0 files eq_refl Hbs Hf) as (s2 & B1 & B2 & _).
  exists s1, s2. split; [exact A1|]. split; [exact B1|].
  rewrite <- B2 in A2. inversion A2. split; assumption.
Qed.

(* the pool, its worker count and its schedule are irrelevant: any FIFO pool in any initial state with
   an empty queue, with any backlog, against the serial pool with the minimal backlog *)
Theorem bp_schedule_irrelevant :
  forall (pool : fifo_pool) (p0 : fp_state pool) bs q ht0 bw0 files,
  fp_alpha pool p0 = [] -> 0 < bs -> Forall file_ok files ->
  exists s sref,
    run_on pool p0 bs q ht0 bw0 files = Ok s /\
    run_on serial_pool [] bs 0 ht0 bw0 files = Ok sref /\
    s_writes _ _ _ s = s_writes _ _ _ sref /\ s_bw _ _ _ s = s_bw _ _ _ sref.
Proof.
  intros pool p0 bs q ht0 bw0 files Hp Hbs Hf.
  destruct (bp_refines_spec pool p0 bs q ht0 bw0 files Hp Hbs Hf) as (s1 & A1 & A2 & _).
  destruct (bp_refines_spec serial_pool [] bs 0 ht0 bw0 files eq_refl Hbs Hf) as (s2 & B1 & B2 & _).
  exists s1, s2. split; [exact A1|]. split; [exact B1|].
  rewrite <- B2 in A2. inversion A2. split; assumption.
Qed.

(* I/O order: (1) the blocks written are those of the specification, so the position of every fragment
   block in the output is fixed by the input; (2) all data blocks (hence the blocks of one file) are
   written in the order in which the front end submitted them *)
Theorem io_order :
  forall (pool : fifo_pool) (p0 : fp_state pool) bs q ht0 bw0 files s f evs,
  fp_alpha pool p0 = [] -> 0 < bs -> Forall file_ok files ->
  run_on pool p0 bs q ht0 bw0 files = Ok s ->
  fe_files bs fe_init 0 files = Ok (f, evs) ->
  map fst (s_writes _ _ _ s) = spec_blocks hash compress HT ht_search ht_insert bs ht0 files /\
  map unseq (filter notFB (map fst (s_writes _ _ _ s))) =
    map (fun d => unseq (pblock d)) (filter (fun d => negb (bhas ISFRAG d)) (dblocks evs)).
Proof.
  intros pool p0 bs q ht0 bw0 files s f evs Hp Hbs Hf Hrun Hfe.
  destruct (bp_refines_spec pool p0 bs q ht0 bw0 files Hp Hbs Hf) as (s1 & A1 & A2 & _).
  rewrite Hrun in A1. inversion A1; subst s1.
  assert (E : map fst (s_writes _ _ _ s) = spec_blocks hash compress HT ht_search ht_insert bs ht0 files).
  { change (s_writes _ _ _ s) with (snd (s_bw _ _ _ s, s_writes _ _ _ s)). rewrite A2. unfold spec_of.
    rewrite bw_run_blocks. reflexivity. }
  split; [exact E|]. rewrite E.
  exact (spec_blocks_data_order hash compress HT ht_search ht_insert bs ht0 files f evs Hbs Hf Hfe).
Qed.

(* structural: there is ONE function of the file list (built from the oracles, the block size and the
   initial table/writer states only) that every run computes, whatever pool, pool state, worker count,
   schedule and backlog.  The model has no clock, locale, umask or directory input. *)
Theorem image_is_function_of_input :
  forall bs ht0 bw0, 0 < bs ->
  exists F : list file -> BW * list (blk * N),
  forall (pool : fifo_pool) (p0 : fp_state pool) q files,
    fp_alpha pool p0 = [] -> Forall file_ok files ->
    exists s, run_on pool p0 bs q ht0 bw0 files = Ok s /\ (s_bw _ _ _ s, s_writes _ _ _ s) = F files.
Proof.
  intros bs ht0 bw0 Hbs. exists (spec_of bs ht0 bw0). intros pool p0 q files Hp Hf.
  destruct (bp_refines_spec pool p0 bs q ht0 bw0 files Hp Hbs Hf) as (s & A1 & A2 & _).
  exists s. split; assumption.
Qed.

(* ---- the inodes and the fragment table ----
   The three places that update an inode (append on the front end, process_completed_fragment when a
   tail end leaves the pool, process_completed_block when a block is written) interleave differently for
   different backlogs and schedules.  Nevertheless every field of every inode after the run -- type
   (basic/extended), file size, sparse byte count, block start, fragment index and offset, block size
   list -- and the whole fragment table are the functions [spec_inodes] / [spec_ftbl] of the file list
   defined in C02/BpSpec.v from the in-order specification (no pool, no backlog). *)
Definition inodes_of (bs : N) (ht0 : HT) (bw0 : BW) (files : list file) : N -> inode :=
  spec_inodes hash compress HT ht_search ht_insert BW bw_write bs ht0 bw0 files.

Definition ftbl_of (bs : N) (ht0 : HT) (bw0 : BW) (files : list file) : list (N * N) :=
  spec_ftbl hash compress HT ht_search ht_insert BW bw_write bs ht0 bw0 files.

Theorem bp_inodes_refine_spec :
  forall (pool : fifo_pool) (p0 : fp_state pool) bs backlog ht0 bw0 files,
  fp_alpha pool p0 = [] -> 0 < bs -> Forall file_ok files ->
  exists s, run_on pool p0 bs backlog ht0 bw0 files = Ok s /\
            (forall k, s_ino _ _ _ s k = inodes_of bs ht0 bw0 files k) /\
            s_ftbl _ _ _ s = ftbl_of bs ht0 bw0 files.
Proof.
  intros pool p0 bs backlog ht0 bw0 files H1 H2 H3.
  destruct (run_refines_spec_full hash compress HT ht_search ht_insert BW bw_write (fp_state pool)
           (fp_submit pool) (fp_dequeue pool) bs (clamp_backlog backlog) bw0 (fp_alpha pool)
           (fp_submit_ok pool) (fp_deq_cons pool) (clamp_ge3 backlog) p0 ht0 files H1 H2 H3)
    as (s & A & _ & _ & B & C).
  exists s. split; [exact A|]. split; [exact B|exact C].
Qed.

(* pool, worker count, schedule and backlog are irrelevant for every inode and for the fragment table *)
Theorem bp_inodes_schedule_backlog_irrelevant :
  forall (pool : fifo_pool) (p0 : fp_state pool) bs q ht0 bw0 files,
  fp_alpha pool p0 = [] -> 0 < bs -> Forall file_ok files ->
  exists s sref,
    run_on pool p0 bs q ht0 bw0 files = Ok s /\
    run_on serial_pool [] bs 0 ht0 bw0 files = Ok sref /\
    (forall k, s_ino _ _ _ s k = s_ino _ _ _ sref k) /\ s_ftbl _ _ _ s = s_ftbl _ _ _ sref.
Proof.
  intros pool p0 bs q ht0 bw0 files Hp Hbs Hf.
  destruct (bp_inodes_refine_spec pool p0 bs q ht0 bw0 files Hp Hbs Hf) as (s1 & A1 & A2 & A3).
  destruct (bp_inodes_refine_spec serial_pool [] bs 0 ht0 bw0 files eq_refl Hbs Hf) as (s2 & B1 & B2 & B3).
  exists s1, s2. split; [exact A1|]. split; [exact B1|].
  split; [intro k; rewrite A2, B2; reflexivity|rewrite A3, B3; reflexivity].
Qed.

(* ... i.e. there are two functions of the file list that every run computes *)
Theorem inodes_are_function_of_input :
  forall bs ht0 bw0, 0 < bs ->
  exists (F : list file -> N -> inode) (G : list file -> list (N * N)),
  forall (pool : fifo_pool) (p0 : fp_state pool) q files,
    fp_alpha pool p0 = [] -> Forall file_ok files ->
    exists s, run_on pool p0 bs q ht0 bw0 files = Ok s /\
              (forall k, s_ino _ _ _ s k = F files k) /\ s_ftbl _ _ _ s = G files.
Proof.
  intros bs ht0 bw0 Hbs. exists (inodes_of bs ht0 bw0), (ftbl_of bs ht0 bw0). intros pool p0 q files Hp Hf.
  exact (bp_inodes_refine_spec pool p0 bs q ht0 bw0 files Hp Hbs Hf).
Qed.

(* the inode type after the run is the smallest that can hold the inode: extended exactly if the file
   has sparse bytes or its size or block start need more than 32 bits -- whatever the order in which
   the three fields received their values *)
Theorem inode_type_is_minimal :
  forall (pool : fifo_pool) (p0 : fp_state pool) bs q ht0 bw0 files s k,
  fp_alpha pool p0 = [] -> 0 < bs -> Forall file_ok files ->
  run_on pool p0 bs q ht0 bw0 files = Ok s ->
  i_ext (s_ino _ _ _ s k) =
    (0 <? i_sparse (s_ino _ _ _ s k)) || (U32MAX <? i_size (s_ino _ _ _ s k)) || (U32MAX <? i_start (s_ino _ _ _ s k)).
Proof.
  intros pool p0 bs q ht0 bw0 files s k Hp Hbs Hf Hrun.
  destruct (bp_inodes_refine_spec pool p0 bs q ht0 bw0 files Hp Hbs Hf) as (s1 & A1 & A2 & _).
  rewrite Hrun in A1. inversion A1; subst s1. rewrite A2.
  exact (spec_inodes_type hash compress HT ht_search ht_insert BW bw_write bs bw0 ht0 files k).
Qed.

(* ... and the file size is the number of bytes the caller handed to append for that file (0 for a file
   number that does not exist), whatever the chunking *)
Theorem inode_file_size_is_input_length :
  forall (pool : fifo_pool) (p0 : fp_state pool) bs q ht0 bw0 files s k,
  fp_alpha pool p0 = [] -> 0 < bs -> Forall file_ok files ->
  run_on pool p0 bs q ht0 bw0 files = Ok s ->
  i_size (s_ino _ _ _ s k) = file_bytes files k.
Proof.
  intros pool p0 bs q ht0 bw0 files s k Hp Hbs Hf Hrun.
  destruct (bp_inodes_refine_spec pool p0 bs q ht0 bw0 files Hp Hbs Hf) as (s1 & A1 & A2 & _).
  rewrite Hrun in A1. inversion A1; subst s1. rewrite A2.
  exact (spec_inodes_size hash compress HT ht_search ht_insert BW bw_write bs bw0 ht0 files k Hbs Hf).
Qed.

End Statements.
Print Assumptions bp_refines_spec.
Print Assumptions bp_inodes_refine_spec.
Print Assumptions bp_inodes_schedule_backlog_irrelevant.
Print Assumptions inodes_are_function_of_input.
Print Assumptions inode_type_is_minimal.
Print Assumptions inode_file_size_is_input_length.
Print Assumptions bp_backlog_irrelevant.
Print Assumptions bp_schedule_irrelevant.
Print Assumptions io_order.
Print Assumptions image_is_function_of_input.

(* the one place where the packers read the process environment for image content: the default
   time stamp (lib/util/src/source_date_epoch.c via lib/common/src/fstree_cli.c).  It is an explicit
   input of the model: a function of the SOURCE_DATE_EPOCH string and the --defaults option, 32 bit. *)
Theorem default_mtime_is_u32 : forall env opt, opt_ok opt -> default_mtime env opt < 4294967296.
Proof. exact default_mtime_bound. Qed.
Print Assumptions default_mtime_is_u32.

Theorem sde_unset_is_zero : get_source_date_epoch None = 0 /\ get_source_date_epoch (Some []) = 0.
Proof. split; reflexivity. Qed.

(* ---- constants the proofs rest on (re-checked against the headers on every run) ---- *)
Example blk_flags_are_disjoint_bits : forallb (fun k => forallb (fun k' => match k, k' with
     | DC, DC | DH, DH | DF, DF | DD, DD | IGS, IGS | SPARSE, SPARSE | FIRST, FIRST | LAST, LAST
     | ISFRAG, ISFRAG | FRAGBLK, FRAGBLK | COMP, COMP | INTERNAL, INTERNAL => negb (flag_const k =? 0)
     | _, _ => N.land (flag_const k) (flag_const k') =? 0 end) all_flags) all_flags = true.
Proof. exact flag_consts_disjoint. Qed.

Example min_backlog_at_least_3 : forall q, 3 <= clamp_backlog q.
Proof. exact clamp_ge3. Qed.

(* ---- non-vacuity ---- *)
(* a toy hash for closed computations *)
Definition sum_hash (l : list N) : N := fold_right N.add 0 l mod 4294967296.

(* block size 4: tails "ab","cd","e" overflow the fragment block while two multi-block files are in flight *)
Definition ex_files : list file :=
  [ (0, [[97;98]]); (0, [[1;2;3;4;5;6;7;8;99;100]]); (0, [[101]]);
    (0, [[65;65;65;65;65;65;65;65;65;65;65;65]]); (0, [[102;103;104]]); (0, [[0;0;0;0;0;0]]) ].

Example ex_files_ok : Forall file_ok ex_files.
Proof. repeat constructor; discriminate. Qed.

Definition ex_blocks (q : N) : option (list (N * N * list N * N)) :=
  match run_concrete sum_hash 4 q ex_files with
  | Ok s => Some (map (fun w => (len (b_data (fst w)), enc_flags (setf INTERNAL false (b_fl (fst w))), b_data (fst w), snd w))
                      (obs_writes s))
  | _ => None
  end.

(* the same 11 write calls with backlog 3 and backlog 40; two of them are fragment blocks (0x4000) and
   the first fragment block is written between the blocks of the second and the fourth file *)
Example ex_backlog_3_40 : ex_blocks 3 = ex_blocks 40 /\
  option_map (map (fun x => snd (fst (fst x)))) (ex_blocks 3) =
  Some [2048; 0; 4096; 16384; 2048; 0; 0; 4096; 1024 + 2048; 4096; 16384] /\
  option_map (@length _) (ex_blocks 1) = Some 11%nat.
Proof. vm_compute. repeat split; reflexivity. Qed.

(* the inodes of the same six files (and of a seventh that does not exist): identical for backlog 1, 3
   and 40, equal to what [spec_inodes] / [spec_ftbl] compute without any pool; file 1 has two data blocks
   and its tail in fragment block 0 at offset 2, file 3 has a block start, file 5 is sparse and therefore
   the only extended inode *)
Definition ex_inodes (q : N) : option (list inode * list (N * N)) :=
  match run_concrete sum_hash 4 q ex_files with
  | Ok s => Some (map (obs_inodes s) [0; 1; 2; 3; 4; 5; 6], obs_ftbl s)
  | _ => None
  end.

Example ex_inodes_1_3_40 :
  ex_inodes 1 = ex_inodes 3 /\ ex_inodes 3 = ex_inodes 40 /\
  ex_inodes 40 =
    Some (map (spec_inodes sum_hash toy_compress cht cht_search cht_insert cbw cbw_write 4 [] (mkBw [] [] O) ex_files)
              [0; 1; 2; 3; 4; 5; 6],
          spec_ftbl sum_hash toy_compress cht cht_search cht_insert cbw cbw_write 4 [] (mkBw [] [] O) ex_files) /\
  ex_inodes 3 =
    Some ([ mkI false 2 0 0 0 0 [];
            mkI false 10 0 0 0 2 [16777220; 16777220];
            mkI false 1 0 0 1 0 [];
            mkI false 12 0 12 U32MAX U32MAX [16777220; 16777220; 16777220];
            mkI false 3 0 0 1 1 [];
            mkI true 6 6 0 U32MAX U32MAX [0; 0];
            new_inode ],
          [(8, 16777220); (24, 16777220)]).
Proof. vm_compute. repeat split; reflexivity. Qed.

(* the FIFO hypothesis is not decoration: a pool that hands back the newest item first makes the same
   processor produce a different write sequence *)
Definition lifo_dequeue (q : list blk) : option (blk * list blk) :=
  match rev q with [] => None | b :: r => Some (process_block sum_hash toy_compress b, rev r) end.

Definition ex_lifo : res cst :=
  run cht cht_search cht_insert cbw cbw_write (list blk) sp_submit lifo_dequeue 4 (clamp_backlog 40)
      [] [] (mkBw [] [] O) ex_files.

Example ex_lifo_differs :
  match ex_lifo, run_concrete sum_hash 4 40 ex_files with
  | Ok s1, Ok s2 => negb (list_eqb (map (fun w => snd w) (obs_writes s1)) (map (fun w => snd w) (obs_writes s2)))
                    || negb (Nat.eqb (length (obs_writes s1)) (length (obs_writes s2)))
  | Ok _, _ => false
  | _, _ => true
  end = true.
Proof. vm_compute. reflexivity. Qed.

(* ================================================================================================ *)
(* Composition with C09: the block processor ON the labelled transition system of threadpool.c       *)
(* ================================================================================================ *)
(* Closes the gap "threadpool.c is a [fifo_pool]" (props/C02/NOTES.md, weak spot A1).  coq/BpPool/:
     TpExec.v    submit/dequeue that RUN C09's LTS [PoolModel.step] (repaired code, any number of workers)
                 along a scheduler oracle until the main thread's call returns; pool state = LTS state
                 + table of the submitted blocks + the remaining schedule;
     TpReturn.v  every call returns, with the effect of the FIFO specification (C09's [sim_step] and
                 invariants [Inv], [Sync], [FInv] applied step by step);
     TpLaws.v    the two laws of a FIFO pool;   TpTrace.v  these executions are runs of the LTS, every
                 state is [reachable];   PoolMap.v / Compose.v  transfer to C02's theorems.
   Schedules: an arbitrary finite prefix of scheduler choices (which thread performs its next critical
   section; spurious wake-ups of any waiter; choices of blocked threads are skipped), then rounds
   [sched k] = finite lists of choices; [admissible n sched] (bounded weak fairness): every round gives
   each of the n+1 threads at least one turn.  Order, repetitions, round lengths and the spurious
   wake-ups are unrestricted.  Calls are total functions; no "the call returned" hypothesis is left:
   C09's invariants (the case analysis of pool_no_stuck) yield in every state of a blocked call a thread
   whose next step returns the call or decreases a variant [nu] of C09's measure [mu] that spurious
   wake-ups do not increase (TpReturn.v: hot_exists, hot_fires, step_frame, exec_round_nu).
   Items: C09's items are [nat]; submission i is item 2i, the callback is [S], item 2i+1 decodes to
   [process_block (block i)].  That this encoding is harmless is part of the laws below: they speak
   about blocks. *)
From Coq Require Import Lia.
From SqfsV Require C09.PoolModel C09.PoolSafety C09.PoolRefine.
From SqfsV Require Import BpPool.PoolMap BpPool.TpExec BpPool.TpReturn BpPool.TpLaws BpPool.TpTrace BpPool.Compose.

Section Composition.
Variable hash : list N -> N.
Variable compress : list N -> option (list N).
Variable HT : Type.
Variable ht_search : HT -> blk -> option (N * N).
Variable ht_insert : HT -> blk -> N * N -> HT.
Variable BW : Type.
Variable bw_write : BW -> blk -> BW * N.

Notation pblock := (process_block hash compress).

(* a FIFO pool whose laws hold under an invariant of its state (the record [fifo_pool] above demands
   them for every value of the state type) *)
Record fifo_pool_inv : Type := {
  fpi_state : Type;
  fpi_submit : fpi_state -> blk -> fpi_state;
  fpi_dequeue : fpi_state -> option (blk * fpi_state);
  fpi_alpha : fpi_state -> list blk;
  fpi_inv : fpi_state -> Prop;
  fpi_submit_ok : forall p b, fpi_inv p ->
                  fpi_inv (fpi_submit p b) /\ fpi_alpha (fpi_submit p b) = fpi_alpha p ++ [b];
  fpi_deq_inv : forall p b p', fpi_inv p -> fpi_dequeue p = Some (b, p') -> fpi_inv p';
  fpi_deq_cons : forall p b r, fpi_inv p -> fpi_alpha p = b :: r ->
                 exists p', fpi_dequeue p = Some (pblock b, p') /\ fpi_alpha p' = r
}.

Definition run_on_inv (pool : fifo_pool_inv) (p0 : fpi_state pool) (bs backlog : N) (ht0 : HT) (bw0 : BW)
                      (files : list file) :=
  BpModel.run HT ht_search ht_insert BW bw_write (fpi_state pool) (fpi_submit pool) (fpi_dequeue pool)
              bs (clamp_backlog backlog) p0 ht0 bw0 files.

(* C02's main theorems (writes, inodes, fragment table) for pools with an invariant *)
Theorem bp_refines_spec_inv :
  forall (pool : fifo_pool_inv) (p0 : fpi_state pool) bs backlog ht0 bw0 files,
  fpi_inv pool p0 -> fpi_alpha pool p0 = [] -> 0 < bs -> Forall file_ok files ->
  exists s, run_on_inv pool p0 bs backlog ht0 bw0 files = Ok s /\
            (s_bw _ _ _ s, s_writes _ _ _ s) = spec_of hash compress HT ht_search ht_insert BW bw_write bs ht0 bw0 files /\
            s_backlog _ _ _ s = 0 /\
            (forall k, s_ino _ _ _ s k = inodes_of hash compress HT ht_search ht_insert BW bw_write bs ht0 bw0 files k) /\
            s_ftbl _ _ _ s = ftbl_of hash compress HT ht_search ht_insert BW bw_write bs ht0 bw0 files /\
            fpi_inv pool (s_pool _ _ _ s).
Proof.
  intros pool p0 bs backlog ht0 bw0 files H0 H1 H2 H3.
  exact (run_refines_spec_inv hash compress HT ht_search ht_insert BW bw_write (fpi_state pool)
           (fpi_submit pool) (fpi_dequeue pool) (fpi_alpha pool) (fpi_inv pool) bs (clamp_backlog backlog) bw0
           (fpi_submit_ok pool) (fpi_deq_inv pool) (fpi_deq_cons pool) (clamp_ge3 backlog) p0 ht0 files H0 H1 H2 H3).
Qed.

(* the old record is the instance with the trivial invariant, with the same runs *)
Definition fifo_pool_as_inv (pool : fifo_pool hash compress) : fifo_pool_inv :=
  Build_fifo_pool_inv (fp_state _ _ pool) (fp_submit _ _ pool) (fp_dequeue _ _ pool) (fp_alpha _ _ pool)
    (fun _ => True)
    (fun p b _ => conj I (fp_submit_ok _ _ pool p b))
    (fun _ _ _ _ _ => I)
    (fun p b r _ E => fp_deq_cons _ _ pool p b r E).

Theorem fifo_pool_is_fifo_pool_inv :
  forall (pool : fifo_pool hash compress) p0 bs backlog ht0 bw0 files,
  run_on_inv (fifo_pool_as_inv pool) p0 bs backlog ht0 bw0 files
  = run_on hash compress HT ht_search ht_insert BW bw_write pool p0 bs backlog ht0 bw0 files.
Proof. reflexivity. Qed.

(* ---- the pool of threadpool.c ---- *)
Variable cb_st : nat -> Z.         (* status returned by the worker callback for each work item *)
Variable sched : schedule.
Variable n : nat.                  (* number of worker threads *)

(* no-failure hypothesis: the callback reports success for every item (the model's [compress] cannot
   fail; compressor failures are C13's subject, the pool's behaviour after a failure C09's) *)
Definition nofail_cb : Prop := forall d, cb_st d = 0%Z.

Notation TP := (tpool).
Notation tp_sub := (tpool_submit cb_st sched).
Notation tp_deq := (tpool_dequeue hash compress cb_st sched).
Notation tp_abs := (tpool_alpha hash compress).
Notation tp_inv := (tpool_inv cb_st n).

(* threadpool.c's LTS, for every number of workers n >= 1 and every admissible schedule, satisfies
   the laws C02's proofs consume (under the invariant [tpool_inv], which also says that the LTS state is
   reachable in C09's sense and that no call is in progress) *)
Theorem threadpool_is_fifo_pool :
  nofail_cb -> (n >= 1)%nat -> admissible n sched ->
  (forall prefix, tp_inv (tpool_init n prefix) /\ tp_abs (tpool_init n prefix) = []) /\
  (forall p b, tp_inv p -> tp_inv (tp_sub p b) /\ tp_abs (tp_sub p b) = tp_abs p ++ [b]) /\
  (forall p b p', tp_inv p -> tp_deq p = Some (b, p') -> tp_inv p') /\
  (forall p b r, tp_inv p -> tp_abs p = b :: r ->
     exists p', tp_deq p = Some (pblock b, p') /\ tp_abs p' = r).
Proof. exact (threadpool_laws hash compress cb_st sched n). Qed.

(* ... as an instance of the record *)
Definition threadpool_pool (Hnf : nofail_cb) (Hn : (n >= 1)%nat) (Hadm : admissible n sched) : fifo_pool_inv :=
  Build_fifo_pool_inv TP tp_sub tp_deq tp_abs tp_inv
    (proj1 (proj2 (threadpool_is_fifo_pool Hnf Hn Hadm)))
    (proj1 (proj2 (proj2 (threadpool_is_fifo_pool Hnf Hn Hadm))))
    (proj2 (proj2 (proj2 (threadpool_is_fifo_pool Hnf Hn Hadm)))).

(* the encoding of blocks as work items is harmless: a freshly submitted item decodes to the submitted
   block, later submissions do not change what an item decodes to, and the callback's effect on an item
   ([cbmark], the [cb_val] of the LTS) decodes to [process_block] on the block *)
Theorem threadpool_item_encoding :
  (forall tbl b, decode blk pblock dflt_blk (tbl ++ [b]) (2 * length tbl) = b) /\
  (forall tbl b d, item_ok (length tbl) d -> decode blk pblock dflt_blk (tbl ++ [b]) d = decode blk pblock dflt_blk tbl d) /\
  (forall tbl d, Nat.even d = true -> decode blk pblock dflt_blk tbl (cbmark d) = pblock (decode blk pblock dflt_blk tbl d)).
Proof.
  split; [|split].
  - exact (decode_new blk pblock dflt_blk).
  - exact (decode_app_old blk pblock dflt_blk).
  - exact (decode_processed blk pblock dflt_blk).
Qed.

(* every pool state the block processor can see is a reachable state of C09's LTS and is obtained
   from the previous one by a run of the LTS; no hypothesis on schedule, workers or callback *)
Theorem threadpool_states_reachable :
  (forall prefix, tp_reach cb_st blk n (tpool_init n prefix)) /\
  (forall p b, tp_reach cb_st blk n p -> tp_reach cb_st blk n (tp_sub p b)) /\
  (forall p b p', tp_reach cb_st blk n p -> tp_deq p = Some (b, p') -> tp_reach cb_st blk n p').
Proof.
  split; [|split].
  - exact (tp_init_reach cb_st blk n).
  - exact (tp_submit_reach cb_st sched blk n).
  - exact (tp_dequeue_reach cb_st sched blk pblock dflt_blk n).
Qed.

(* Composition.  For every file list, requested backlog, number of workers n >= 1, schedule prefix and
   admissible schedule: the block processor running ON THE LTS OF threadpool.c returns Ok, leaves nothing
   in flight, hands exactly the specification's blocks to the block writer and produces the
   specification's inodes and fragment table -- the same as the serial pool with the minimal backlog.
   ([bp_schedule_irrelevant] and [bp_inodes_schedule_backlog_irrelevant] with "every FIFO pool" replaced
   by "threadpool.c's LTS under every schedule and worker count".) *)
Theorem bp_on_threadpool :
  forall prefix bs backlog ht0 bw0 files,
  nofail_cb -> (n >= 1)%nat -> admissible n sched -> 0 < bs -> Forall file_ok files ->
  exists s sref,
    run_on_threadpool hash compress HT ht_search ht_insert BW bw_write cb_st sched n prefix bs backlog ht0 bw0 files = Ok s /\
    run_on hash compress HT ht_search ht_insert BW bw_write (serial_pool hash compress) [] bs 0 ht0 bw0 files = Ok sref /\
    (s_bw _ _ _ s, s_writes _ _ _ s) = spec_of hash compress HT ht_search ht_insert BW bw_write bs ht0 bw0 files /\
    s_writes _ _ _ s = s_writes _ _ _ sref /\ s_bw _ _ _ s = s_bw _ _ _ sref /\
    (forall k, s_ino _ _ _ s k = inodes_of hash compress HT ht_search ht_insert BW bw_write bs ht0 bw0 files k) /\
    (forall k, s_ino _ _ _ s k = s_ino _ _ _ sref k) /\
    s_ftbl _ _ _ s = ftbl_of hash compress HT ht_search ht_insert BW bw_write bs ht0 bw0 files /\
    s_ftbl _ _ _ s = s_ftbl _ _ _ sref /\
    s_backlog _ _ _ s = 0 /\
    tp_inv (s_pool _ _ _ s).
Proof.
  intros prefix bs backlog ht0 bw0 files Hnf Hn Hadm Hbs Hf.
  destruct (bp_on_threadpool_l hash compress HT ht_search ht_insert BW bw_write cb_st sched n Hnf Hn Hadm
              prefix bs backlog ht0 bw0 files Hbs Hf) as (s & A1 & A2 & A3 & A4 & A5 & A6).
  destruct (bp_refines_spec hash compress HT ht_search ht_insert BW bw_write (serial_pool hash compress) [] bs 0
              ht0 bw0 files eq_refl Hbs Hf) as (s2 & B1 & B2 & _).
  destruct (bp_inodes_refine_spec hash compress HT ht_search ht_insert BW bw_write (serial_pool hash compress) [] bs 0
              ht0 bw0 files eq_refl Hbs Hf) as (s3 & C1 & C2 & C3).
  rewrite B1 in C1. injection C1 as C1. subst s3.
  exists s, s2. split; [exact A1|]. split; [exact B1|]. split; [exact A2|].
  assert (E : (s_bw _ _ _ s, s_writes _ _ _ s) = (s_bw _ _ _ s2, s_writes _ _ _ s2)).
  { rewrite B2. exact A2. }
  injection E as E1 E2.
  split; [exact E2|]. split; [exact E1|]. split; [exact A4|].
  split; [intro k; rewrite A4, C2; reflexivity|]. split; [exact A5|].
  split; [rewrite A5, C3; reflexivity|]. split; [exact A3|exact A6].
Qed.

End Composition.
Print Assumptions bp_refines_spec_inv.
Print Assumptions threadpool_is_fifo_pool.
Print Assumptions threadpool_item_encoding.
Print Assumptions threadpool_states_reachable.
Print Assumptions bp_on_threadpool.

(* ---- non-vacuity of the composition ---- *)
(* 2 workers.  The prefix starts with worker 0 going to sleep on the empty queue, a spurious wake-up of
   it and its going back to sleep (these three labels are enabled in this order: first clause of the
   example); later the main thread is pre-empted between and inside its calls.  Every round begins with
   spurious wake-ups of all three threads and contains more of them. *)
Definition ex_prefix : list choice :=
  [CWorker 0; CSpurWorker 0; CWorker 0; CMain; CWorker 1; CMain; CMain; CWorker 1; CWorker 0; CSpurMain;
   CMain; CWorker 1; CWorker 1].

Definition ex_sched : schedule := fun k =>
  if Nat.even k
  then [CSpurMain; CSpurWorker 0; CSpurWorker 1; CWorker 1; CSpurWorker 0; CMain; CWorker 1; CSpurMain; CWorker 0]
  else [CSpurWorker 1; CSpurMain; CSpurWorker 0; CWorker 0; CMain; CSpurWorker 0; CSpurWorker 1; CWorker 0; CWorker 1; CMain].

Example ex_sched_admissible : admissible 2 ex_sched /\ nofail_cb (fun _ => 0%Z).
Proof.
  split; [|intro; reflexivity]. intro k. unfold ex_sched.
  assert (W : forall p, In (CWorker 0) p -> In (CWorker 1) p -> forall w, (w < 2)%nat -> In (CWorker w) p).
  { intros p P0 P1 w Hw. destruct w as [|[|w]]; auto. exfalso. lia. }
  destruct (Nat.even k); (split; [simpl; auto 12|apply W; simpl; auto 12]).
Qed.

Definition ex_tp_run (q : N) (files : list file) :=
  run_on_threadpool sum_hash toy_compress cht cht_search cht_insert cbw cbw_write (fun _ => 0%Z) ex_sched 2
                    ex_prefix 4 q [] (mkBw [] [] O) files.

Definition ex_obs {P} (r : res (st cht cbw P)) :=
  match r with
  | Ok s => Some (s_writes _ _ _ s, w_file (s_bw _ _ _ s), map (s_ino _ _ _ s) [0; 1; 2; 3; 4; 5; 6], s_ftbl _ _ _ s)
  | _ => None
  end.

(* a concrete run on the LTS, computed: the write calls, the output file, the inodes and the fragment
   table equal those of the serial run, for the six files above and for three files, for backlog 3 and
   40; all 16 work items went through a worker, several of them completed out of submission order
   ([g_ran] lists tickets, latest first), 24 resp. 20 rounds of the schedule were used *)
Example ex_on_threadpool :
  PoolModel.run cbmark (fun _ => 0%Z) true (PoolModel.init 2)
      [PoolModel.LWorker 0; PoolModel.LSpurWorker 0; PoolModel.LWorker 0] <> None /\
  ex_obs (ex_tp_run 3 ex_files) = ex_obs (run_concrete sum_hash 4 3 ex_files) /\
  ex_obs (ex_tp_run 40 ex_files) = ex_obs (run_concrete sum_hash 4 0 ex_files) /\
  ex_obs (ex_tp_run 3 (firstn 3 ex_files)) = ex_obs (run_concrete sum_hash 4 3 (firstn 3 ex_files)) /\
  option_map (fun x => length (fst (fst (fst x)))) (ex_obs (ex_tp_run 3 ex_files)) = Some 11%nat /\
  match ex_tp_run 3 ex_files, ex_tp_run 40 ex_files with
  | Ok s, Ok s' =>
      PoolModel.g_ran (tp_pool _ (s_pool _ _ _ s)) = [15; 14; 13; 12; 11; 10; 9; 8; 7; 6; 5; 4; 3; 1; 2; 0]%nat /\
      tp_k _ (s_pool _ _ _ s) = 24%nat /\
      PoolModel.g_ran (tp_pool _ (s_pool _ _ _ s')) = [15; 14; 12; 13; 11; 10; 8; 9; 6; 7; 5; 4; 1; 3; 2; 0]%nat /\
      tp_k _ (s_pool _ _ _ s') = 20%nat
  | _, _ => False
  end.
Proof. vm_compute. repeat split; try reflexivity. discriminate. Qed.

(* the fairness hypothesis is not decoration: under a schedule that never gives a worker a turn (only
   the main thread and spurious wake-ups) no item is ever processed, the first blocking dequeue does not
   return within its rounds and the processor reports SQFS_ERROR_INTERNAL -- nothing is handed back
   without a worker having run *)
Definition ex_starve : schedule := fun _ => [CMain; CSpurWorker 0; CSpurWorker 1; CSpurMain].

Example ex_starved_pool_does_not_deliver :
  run_on_threadpool sum_hash toy_compress cht cht_search cht_insert cbw cbw_write (fun _ => 0%Z) ex_starve 2
                    [] 4 3 [] (mkBw [] [] O) ex_files = Err E_INTERNAL /\
  ~ admissible 2 ex_starve.
Proof.
  split; [vm_compute; reflexivity|]. intros H. destruct (H 0%nat) as [_ Hw].
  specialize (Hw 0%nat (Nat.lt_0_succ 1)). simpl in Hw.
  repeat (destruct Hw as [Hw|Hw]; [discriminate|]). exact Hw.
Qed.

(* ================================================================================================ *)
(* Extension (session 3): C02 stated end to end, on the image BYTES (coq/ImgDet)                     *)
(* ================================================================================================ *)
(* The theorems above end at the block processor's outputs (write calls, inodes, fragment table).  Here the statement
   of C02 itself: the bytes of the image file.  The composed models
     gensquashfs --pack-dir:  ImgScan.PackModel.pack_image = scan_directory -> fstree_post_process -> pack_files (in
                              fs->files order, AFTER post processing) over C02.BpModel.run -> sqfs_writer_finish
                              (Image.FinishModel.write_image: super block, data area, tables, padding)
     tar2sqfs:                ImgDet.TarPack.tar_pack_image = process_tarball as ONE pass that threads the fstree and
                              records the write_file calls in ARCHIVE order (the data of a regular file goes to the
                              block processor during the walk; file number k of the run = k-th regular entry added;
                              [tar2sqfs_walk_factors]) -> fstree_post_process -> sqfs_writer_finish
   are instantiated with the pool of BpPool (submit / dequeue RUN C09's labelled transition system of threadpool.c,
   [threadpool_is_fifo_pool] above) and with the serial pool (threadpool_serial.c; C09's serial_refines_spec).

   Hypotheses of the determinism theorems, exactly:
     nofail cb            the worker callback reports success for every item ([nofail_cb] above)
     (n >= 1)%nat         at least one worker
     admissible n sched   bounded weak fairness: every round of the schedule gives the main thread and each of the n
                          workers a turn; prefix, order, repetitions, round lengths, spurious wake-ups unrestricted
     0 < block size       (C02's theorems; sqfs_super_init wants a power of two in 4K..1M anyway)
     gensquashfs:  forall nm, file_ok (host_file nm)   what the packer reads for a file name is a valid block processor
                          input: flag word within SQFS_BLK_USER_SETTABLE_FLAGS, no empty append (decidable per file)
     tar2sqfs:     splice_ok splice                    sqfs_istream_splice never appends an empty piece; the flag word
                          (0 or SQFS_BLK_DONT_FRAGMENT) is computed by the model, so file_ok is PROVED, not assumed
   No hypothesis on the requested backlog (-Q): the code clamps it to >= 3, every N is covered (so is "backlog >= 1").
   No hypothesis on the input: when the scan / process_tarball / post processing / sqfs_writer_finish fails, the
   outcome (which failure, with which error code) is the same in all runs as well; the data path never fails.

   Shared between the runs that are compared (parameters of the models, i.e. ASSUMED equal): hash, compressors, fragment
   hash table and block writer (C08), their projection [bw_bytes] to the bytes appended, xattr index / xattr section
   ([xa], [xsec]), compressor options, the bytes read for a file name ([host_file]: up to the cut into append calls, see
   [gensquashfs_cut_irrelevant]).  Not modelled: sort files, I/O errors, option parsing. *)
From SqfsV Require C03.Common C01.Res C01.InodeModel Img.TreeModel.
From SqfsV Require C04.TarHdr C04.TarStream C11.StrOrder C11.FstreeModel C11.PostModel C11.ScanModel C14.SuperModel.
From SqfsV Require Image.FinishModel Image.ValidModel Image.ReaderModel ImgPost.PathsModel.
From SqfsV Require ImgTar.Model ImgScan.PackModel ImgScan.PackProofs ImgScan.Example.
From SqfsV Require Import Gen.Constants.
From SqfsV Require Import ImgDet.GenDet ImgDet.TarPack ImgDet.TarDet ImgDet.EnvDet ImgDet.ChunkFree ImgDet.CutDet
                          ImgDet.Example.

Section ImageBytes.
Import FstreeModel PostModel ScanModel PackModel PackProofs Model.
Import C11.ScanProofs C11.CanonProofs.
(* scan / tar2sqfs options *)
Variable fnmatch : list N -> list N -> bool -> bool.
Variable dflt : fsdefaults.
Variable cfg : scfg.
Variable o : t2s_opts.
Variable no_tail_pack : bool.
(* data path oracles: no hypothesis on any of them *)
Variable hash : list N -> N.
Variable dcompress : list N -> option (list N).
Variable HT : Type.
Variable ht_search : HT -> blk -> option (N * N).
Variable ht_insert : HT -> blk -> N * N -> HT.
Variable BW : Type.
Variable bw_write : BW -> blk -> BW * N.
Variable bw_bytes : BW -> list N.
Variable host_file : list N -> file.
Variable splice : list N -> list (list N).
(* the rest of the packer *)
Variable xa : FstreeModel.path -> N.
Variable xsec : option (list N * N).
Variable opts : list N.
Variable mcompress : list N -> Common.cres.
Variable limit : N.
Variable wc : FinishModel.wcfg.

Notation gens_tp := (gensquashfs_on_threadpool fnmatch dflt cfg hash dcompress HT ht_search ht_insert BW bw_write bw_bytes
                       host_file xa xsec opts mcompress limit wc).
Notation gens_serial := (gensquashfs_serial fnmatch dflt cfg hash dcompress HT ht_search ht_insert BW bw_write bw_bytes
                           host_file xa xsec opts mcompress limit wc).
Notation tar_tp := (tar2sqfs_on_threadpool o dflt no_tail_pack hash dcompress HT ht_search ht_insert BW bw_write bw_bytes
                      splice xa xsec opts mcompress limit wc).
Notation tar_serial := (tar2sqfs_serial o dflt no_tail_pack hash dcompress HT ht_search ht_insert BW bw_write bw_bytes
                          splice xa xsec opts mcompress limit wc).

(* gensquashfs_image_deterministic.  Two runs of gensquashfs on the LTS of threadpool.c — each with its own number of
   workers, callback table (both constrained by [nofail] to never report a failure: the callbacks are then the constant 0 -
   independent audit 3, C3), schedule prefix, schedule and requested backlog — and the serial reference: the same
   outcome (r1 = r2 = ref, as values of [pres_img]: image with all its parts, or the same failure), hence the same bytes
   of the image file; the reference IS the in-order specification's image [gens_outcome]; the data path did not fail. *)
Theorem gensquashfs_image_deterministic :
  forall cb1 sched1 n1 prefix1 q1 cb2 sched2 n2 prefix2 q2 qs sorted (ht0 : HT) (bw0 : BW) t fs0,
  nofail cb1 -> (n1 >= 1)%nat -> admissible n1 sched1 ->
  nofail cb2 -> (n2 >= 1)%nat -> admissible n2 sched2 ->
  0 < FinishModel.c_block_size wc -> (forall nm, file_ok (host_file nm)) ->
  let r1 := gens_tp cb1 sched1 n1 prefix1 sorted q1 ht0 bw0 t fs0 in
  let r2 := gens_tp cb2 sched2 n2 prefix2 sorted q2 ht0 bw0 t fs0 in
  let ref := gens_serial sorted qs ht0 bw0 t fs0 in
  r1 = r2 /\ r1 = ref /\
  image_file r1 = image_file r2 /\ image_file r1 = image_file ref /\
  ref = gens_outcome fnmatch dflt cfg hash dcompress HT ht_search ht_insert BW bw_write bw_bytes host_file xa xsec opts
                     mcompress limit wc sorted ht0 bw0 t fs0 /\
  match r1 with IDataErr _ | IDataCrash | IDataFuel => False | _ => True end.
Proof.
  exact (gensquashfs_image_deterministic_l fnmatch dflt cfg hash dcompress HT ht_search ht_insert BW bw_write bw_bytes
           host_file xa xsec opts mcompress limit wc).
Qed.

(* ... and the third source of nondeterminism of a directory scan, the order in which readdir delivers the entries (C11's
   scan_order_free carried through): the two LTS runs scan two enumerations t, t' of the same host directory
   (hwf: names unique per directory; hperm: same tree up to the order of the children; order_free_case: the native iterator
   sorts — the code as it is — or -H, or no multiply linked files) *)
Theorem gensquashfs_image_deterministic_readdir :
  forall cb1 sched1 n1 prefix1 q1 cb2 sched2 n2 prefix2 q2 qs sorted (ht0 : HT) (bw0 : BW) t t' fs0,
  nofail cb1 -> (n1 >= 1)%nat -> admissible n1 sched1 ->
  nofail cb2 -> (n2 >= 1)%nat -> admissible n2 sched2 ->
  0 < FinishModel.c_block_size wc -> (forall nm, file_ok (host_file nm)) ->
  hwf t -> hperm t t' -> order_free_case sorted cfg t ->
  let r1 := gens_tp cb1 sched1 n1 prefix1 sorted q1 ht0 bw0 t fs0 in
  let r2 := gens_tp cb2 sched2 n2 prefix2 sorted q2 ht0 bw0 t' fs0 in
  let ref := gens_serial sorted qs ht0 bw0 t' fs0 in
  r1 = r2 /\ r1 = ref /\ image_file r1 = image_file r2 /\ image_file r1 = image_file ref.
Proof.
  exact (gensquashfs_image_deterministic_readdir_l fnmatch dflt cfg hash dcompress HT ht_search ht_insert BW bw_write bw_bytes
           host_file xa xsec opts mcompress limit wc).
Qed.

(* the single pass of process_tarball factors: the tree is ImgTar's tar2sqfs_tree, the write_file calls are the regular
   entries that were added, in archive order, each with the path of its node — a function of the entries alone *)
Theorem tar2sqfs_walk_factors :
  forall vs,
  pt_walk o dflt no_tail_pack splice wc (fs_init dflt) vs =
  match tar2sqfs_tree o dflt vs with
  | Some fs => Some (fs, tar_written o dflt no_tail_pack splice wc vs)
  | None => None
  end.
Proof. exact (tar_walk_is_tree o dflt no_tail_pack splice wc). Qed.

(* tar2sqfs_image_deterministic: the same for tar2sqfs, for every list of archive entries *)
Theorem tar2sqfs_image_deterministic :
  forall cb1 sched1 n1 prefix1 q1 cb2 sched2 n2 prefix2 q2 qs (ht0 : HT) (bw0 : BW) vs,
  nofail cb1 -> (n1 >= 1)%nat -> admissible n1 sched1 ->
  nofail cb2 -> (n2 >= 1)%nat -> admissible n2 sched2 ->
  0 < FinishModel.c_block_size wc -> splice_ok splice ->
  let r1 := tar_tp cb1 sched1 n1 prefix1 q1 ht0 bw0 vs in
  let r2 := tar_tp cb2 sched2 n2 prefix2 q2 ht0 bw0 vs in
  let ref := tar_serial qs ht0 bw0 vs in
  r1 = r2 /\ r1 = ref /\
  image_file r1 = image_file r2 /\ image_file r1 = image_file ref /\
  ref = tar_outcome o dflt no_tail_pack hash dcompress HT ht_search ht_insert BW bw_write bw_bytes splice xa xsec opts
                    mcompress limit wc ht0 bw0 vs /\
  match r1 with IDataErr _ | IDataCrash | IDataFuel => False | _ => True end.
Proof.
  exact (tar2sqfs_image_deterministic_l o dflt no_tail_pack hash dcompress HT ht_search ht_insert BW bw_write bw_bytes
           splice xa xsec opts mcompress limit wc).
Qed.

(* ---- the cut of the input into append calls ----
   sqfs_istream_splice appends what the input stream has buffered (at most block_size per call): the pieces depend on the
   buffer state of the stream stack — with the present refill loop of lib/sqfs/src/io/istream.c a function of the byte
   stream, with a stream that hands short reads on a function of how the operating system delivered the pipe — an input
   the two theorems above keep fixed.  It is irrelevant: everything the in-order specification says about a list of files depends on the flag
   word and the CONCATENATION of the chunks of each file only. *)
Theorem append_cut_irrelevant :
  forall bs (ht0 : HT) (bw0 : BW) fa fb, 0 < bs ->
  Forall file_ok fa -> Forall file_ok fb -> Forall2 same_bytes fa fb ->
  spec_blocks hash dcompress HT ht_search ht_insert bs ht0 fa = spec_blocks hash dcompress HT ht_search ht_insert bs ht0 fb /\
  (forall k, spec_inodes hash dcompress HT ht_search ht_insert BW bw_write bs ht0 bw0 fa k =
             spec_inodes hash dcompress HT ht_search ht_insert BW bw_write bs ht0 bw0 fb k) /\
  spec_ftbl hash dcompress HT ht_search ht_insert BW bw_write bs ht0 bw0 fa =
  spec_ftbl hash dcompress HT ht_search ht_insert BW bw_write bs ht0 bw0 fb.
Proof.
  intros bs ht0 bw0 fa fb Hbs.
  exact (spec_chunk_free hash dcompress HT ht_search ht_insert BW bw_write bs Hbs ht0 bw0 fa fb).
Qed.

(* two runs of tar2sqfs with two different LOSSLESS cuts (no other relation between them), worker counts, schedules,
   backlogs: the same outcome *)
Theorem tar2sqfs_cut_irrelevant :
  forall splice' cb1 sched1 n1 prefix1 q1 cb2 sched2 n2 prefix2 q2 qs (ht0 : HT) (bw0 : BW) vs,
  0 < FinishModel.c_block_size wc ->
  splice_ok splice -> splice_ok splice' -> splice_lossless splice -> splice_lossless splice' ->
  nofail cb1 -> (n1 >= 1)%nat -> admissible n1 sched1 ->
  nofail cb2 -> (n2 >= 1)%nat -> admissible n2 sched2 ->
  let r1 := tar_tp cb1 sched1 n1 prefix1 q1 ht0 bw0 vs in
  let r2 := tar2sqfs_on_threadpool o dflt no_tail_pack hash dcompress HT ht_search ht_insert BW bw_write bw_bytes
              splice' xa xsec opts mcompress limit wc cb2 sched2 n2 prefix2 q2 ht0 bw0 vs in
  let ref := tar2sqfs_serial o dflt no_tail_pack hash dcompress HT ht_search ht_insert BW bw_write bw_bytes
              splice' xa xsec opts mcompress limit wc qs ht0 bw0 vs in
  r1 = r2 /\ r1 = ref /\ image_file r1 = image_file r2 /\ image_file r1 = image_file ref.
Proof.
  intros splice' cb1 sched1 n1 prefix1 q1 cb2 sched2 n2 prefix2 q2 qs ht0 bw0 vs Hbs S1 S2 L1 L2.
  exact (tar2sqfs_cut_irrelevant_l dflt o no_tail_pack hash dcompress HT ht_search ht_insert BW bw_write bw_bytes xa xsec opts
           mcompress limit wc Hbs splice splice' S1 S2 L1 L2 cb1 sched1 n1 prefix1 q1 cb2 sched2 n2 prefix2 q2 qs ht0 bw0 vs).
Qed.

(* ... and of gensquashfs with two readings of the host files that agree on flag word and bytes per file name *)
Theorem gensquashfs_cut_irrelevant :
  forall host_file' cb1 sched1 n1 prefix1 q1 cb2 sched2 n2 prefix2 q2 qs sorted (ht0 : HT) (bw0 : BW) t fs0,
  0 < FinishModel.c_block_size wc ->
  (forall nm, file_ok (host_file nm)) -> (forall nm, file_ok (host_file' nm)) ->
  (forall nm, same_bytes (host_file nm) (host_file' nm)) ->
  nofail cb1 -> (n1 >= 1)%nat -> admissible n1 sched1 ->
  nofail cb2 -> (n2 >= 1)%nat -> admissible n2 sched2 ->
  let r1 := gens_tp cb1 sched1 n1 prefix1 sorted q1 ht0 bw0 t fs0 in
  let r2 := gensquashfs_on_threadpool fnmatch dflt cfg hash dcompress HT ht_search ht_insert BW bw_write bw_bytes
              host_file' xa xsec opts mcompress limit wc cb2 sched2 n2 prefix2 sorted q2 ht0 bw0 t fs0 in
  let ref := gensquashfs_serial fnmatch dflt cfg hash dcompress HT ht_search ht_insert BW bw_write bw_bytes
              host_file' xa xsec opts mcompress limit wc sorted qs ht0 bw0 t fs0 in
  r1 = r2 /\ r1 = ref /\ image_file r1 = image_file r2 /\ image_file r1 = image_file ref.
Proof.
  intros host_file' cb1 sched1 n1 prefix1 q1 cb2 sched2 n2 prefix2 q2 qs sorted ht0 bw0 t fs0 Hbs F1 F2 S.
  exact (gensquashfs_cut_irrelevant_l fnmatch dflt cfg hash dcompress HT ht_search ht_insert BW bw_write bw_bytes xa xsec opts
           mcompress limit wc Hbs host_file host_file' F1 F2 S cb1 sched1 n1 prefix1 q1 cb2 sched2 n2 prefix2 q2 qs sorted
           ht0 bw0 t fs0).
Qed.

(* ---- the process environment ----
   [gensquashfs_tool] / [tar2sqfs_tool] (ImgDet/EnvDet.v) are the pipelines above with the ONE value
   m = default_mtime env optm (C02.EnvModel: SOURCE_DATE_EPOCH string [env], mtime= sub-option [optm] of --defaults)
   copied to the three places the code copies fs.defaults.mtime to — fstree defaults (root, implicit directories, tar2sqfs
   entries without --keep-time), dir_tree_cfg_t.def_mtime (gensquashfs scan without --keep-time), sqfs_super_init — and
   started from fstree_init's tree.  [env] is their only environment parameter.

   HONESTY NOTE.  "No other environment input" is a structural fact about the MODEL: it has no clock, time zone, locale,
   umask or working directory parameter, so nothing can depend on one.  That the C programs have none either is not a
   theorem; it is tied to the code by C02's tool-level sweep (props/C02/check.py: real gensquashfs / tar2sqfs under
   TZ, LC_ALL/LANG, umask, cwd, shifted wall clock, -j/-Q, against the NO_THREAD_IMPL build: sha256 equal) and by the
   source scan recorded in props/C02/NOTES.md.  What IS proved: the tools' outcome is a function of default_mtime env optm
   and the non-environment parameters; that value is what the super block's modification_time bytes and every defaulted
   time stamp carry. *)

(* image_env_independent: three environments with the same default time stamp; two LTS runs with different worker counts,
   schedules, backlogs and the serial reference: same outcome, for both tools *)
Theorem image_env_independent :
  forall env1 env2 env3 optm cb1 sched1 n1 prefix1 q1 cb2 sched2 n2 prefix2 q2 qs sorted (ht0 : HT) (bw0 : BW) t vs,
  default_mtime env1 optm = default_mtime env2 optm -> default_mtime env1 optm = default_mtime env3 optm ->
  nofail cb1 -> (n1 >= 1)%nat -> admissible n1 sched1 ->
  nofail cb2 -> (n2 >= 1)%nat -> admissible n2 sched2 ->
  0 < FinishModel.c_block_size wc -> (forall nm, file_ok (host_file nm)) -> splice_ok splice ->
  let tp1 := tpool_submit cb1 sched1 in let td1 := tpool_dequeue hash dcompress cb1 sched1 in
  let tp2 := tpool_submit cb2 sched2 in let td2 := tpool_dequeue hash dcompress cb2 sched2 in
  let G := gensquashfs_tool fnmatch dflt cfg HT ht_search ht_insert BW bw_write bw_bytes host_file xa xsec opts mcompress
                            limit wc in
  let T := tar2sqfs_tool dflt o no_tail_pack HT ht_search ht_insert BW bw_write bw_bytes splice xa xsec opts mcompress
                         limit wc in
  (G tpool tp1 td1 env1 optm sorted q1 (tpool_init n1 prefix1) ht0 bw0 t =
   G tpool tp2 td2 env2 optm sorted q2 (tpool_init n2 prefix2) ht0 bw0 t /\
   G tpool tp1 td1 env1 optm sorted q1 (tpool_init n1 prefix1) ht0 bw0 t =
   G (list blk) sp_submit (sp_dequeue (process_block hash dcompress)) env3 optm sorted qs [] ht0 bw0 t) /\
  (T tpool tp1 td1 env1 optm q1 (tpool_init n1 prefix1) ht0 bw0 vs =
   T tpool tp2 td2 env2 optm q2 (tpool_init n2 prefix2) ht0 bw0 vs /\
   T tpool tp1 td1 env1 optm q1 (tpool_init n1 prefix1) ht0 bw0 vs =
   T (list blk) sp_submit (sp_dequeue (process_block hash dcompress)) env3 optm qs [] ht0 bw0 vs).
Proof.
  exact (image_env_independent_l fnmatch dflt cfg o no_tail_pack hash dcompress HT ht_search ht_insert BW bw_write bw_bytes
           host_file splice xa xsec opts mcompress limit wc).
Qed.

(* the signature: for ANY pool, the tools are the environment-free pipelines [gensquashfs_core] / [tar2sqfs_core] applied
   to default_mtime env optm; with --defaults mtime=v the environment string is not looked at *)
Theorem tools_are_functions_of_default_mtime :
  forall P (sub : P -> blk -> P) (deq : P -> option (blk * P)) env optm,
  gensquashfs_tool fnmatch dflt cfg HT ht_search ht_insert BW bw_write bw_bytes host_file xa xsec opts mcompress limit wc
                   P sub deq env optm =
  gensquashfs_core fnmatch dflt cfg HT ht_search ht_insert BW bw_write bw_bytes host_file xa xsec opts mcompress limit wc
                   P sub deq (default_mtime env optm) /\
  tar2sqfs_tool dflt o no_tail_pack HT ht_search ht_insert BW bw_write bw_bytes splice xa xsec opts mcompress limit wc
                P sub deq env optm =
  tar2sqfs_core dflt o no_tail_pack HT ht_search ht_insert BW bw_write bw_bytes splice xa xsec opts mcompress limit wc
                P sub deq (default_mtime env optm) /\
  (forall env' v,
     gensquashfs_tool fnmatch dflt cfg HT ht_search ht_insert BW bw_write bw_bytes host_file xa xsec opts mcompress limit wc
                      P sub deq env (Some v) =
     gensquashfs_tool fnmatch dflt cfg HT ht_search ht_insert BW bw_write bw_bytes host_file xa xsec opts mcompress limit wc
                      P sub deq env' (Some v) /\
     tar2sqfs_tool dflt o no_tail_pack HT ht_search ht_insert BW bw_write bw_bytes splice xa xsec opts mcompress limit wc
                   P sub deq env (Some v) =
     tar2sqfs_tool dflt o no_tail_pack HT ht_search ht_insert BW bw_write bw_bytes splice xa xsec opts mcompress limit wc
                   P sub deq env' (Some v)).
Proof.
  exact (tools_signature_l fnmatch dflt cfg o no_tail_pack HT ht_search ht_insert BW bw_write bw_bytes host_file splice xa xsec
           opts mcompress limit wc).
Qed.

(* the super block: whenever a tool produces an image, the modification_time of the provisional super block (init.c), of
   the committed one (finish.c) and the four bytes at that offset of the image FILE are default_mtime env optm *)
Theorem super_mtime_is_default_mtime :
  forall P (sub : P -> blk -> P) (deq : P -> option (blk * P)) env optm sorted q p0 (ht0 : HT) (bw0 : BW) t vs w,
  opt_ok optm ->
  image_of (gensquashfs_tool fnmatch dflt cfg HT ht_search ht_insert BW bw_write bw_bytes host_file xa xsec opts mcompress
                             limit wc P sub deq env optm sorted q p0 ht0 bw0 t) = Some w \/
  image_of (tar2sqfs_tool dflt o no_tail_pack HT ht_search ht_insert BW bw_write bw_bytes splice xa xsec opts mcompress
                          limit wc P sub deq env optm q p0 ht0 bw0 vs) = Some w ->
  SuperModel.s_mtime (FinishModel.w_super0 w) = default_mtime env optm /\
  SuperModel.s_mtime (FinishModel.w_super w) = default_mtime env optm /\
  SuperModel.fld 4 off_sqfs_super_t_modification_time (FinishModel.image_bytes w) = default_mtime env optm.
Proof.
  exact (super_mtime_l fnmatch dflt cfg o no_tail_pack HT ht_search ht_insert BW bw_write bw_bytes host_file splice xa xsec
           opts mcompress limit wc).
Qed.

(* every defaulted time stamp is that value: the root and every implicitly created directory; every entry the directory
   scan delivers without DIR_SCAN_KEEP_TIME (with it: the host's, the default is not used); every entry and root entry
   tar2sqfs processes without --keep-time *)
Theorem defaulted_timestamps_are_default_mtime :
  forall m,
  a_mtime (node_attr (fs_root (fs_init (with_mtime_dflt m dflt)))) = m /\
  (forall nm, a_mtime (node_attr (implicit_dir (with_mtime_dflt m dflt) nm)) = m) /\
  (forall pdev rel s hard tgt e x,
     classify fnmatch (with_mtime_scfg m cfg) pdev rel s hard tgt = DDeliver e x ->
     e_mtime e = if c_keep_time cfg then h_mtime s else Z.of_N m) /\
  (forall t, o_keep_time o = false ->
     match pt_op_of o (with_mtime_dflt m dflt) t with
     | PAdd e _ | PRootAttr e => e_mtime e = Z.of_N m
     | _ => True
     end).
Proof. exact (defaulted_timestamps_l fnmatch dflt cfg o). Qed.

End ImageBytes.
Print Assumptions gensquashfs_image_deterministic.
Print Assumptions gensquashfs_image_deterministic_readdir.
Print Assumptions tar2sqfs_walk_factors.
Print Assumptions tar2sqfs_image_deterministic.
Print Assumptions append_cut_irrelevant.
Print Assumptions tar2sqfs_cut_irrelevant.
Print Assumptions gensquashfs_cut_irrelevant.
Print Assumptions image_env_independent.
Print Assumptions tools_are_functions_of_default_mtime.
Print Assumptions super_mtime_is_default_mtime.
Print Assumptions defaulted_timestamps_are_default_mtime.

(* ---- non-vacuity (coq/ImgDet/Example.v; everything by vm_compute) ---- *)
(* the schedule hypotheses: 2 workers (prefix with a spurious wake-up, pre-emptions; rounds starting with spurious
   wake-ups of all threads), 3 workers (main thread running ahead), 1 worker *)
Example ex_det_schedules_admissible :
  admissible 2 d_sched2 /\ admissible 3 d_sched3 /\ admissible 1 d_sched1 /\ nofail d_nofail.
Proof. exact ex_schedules_admissible. Qed.

Example ex_det_gens_hyps :
  0 < FinishModel.c_block_size ImgScan.Example.x_wc /\ (forall nm, file_ok (ImgScan.Example.x_host_file nm)).
Proof. exact ex_gens_hyps. Qed.

(* gensquashfs on the host directory of ImgScan.Example: 2 workers / -Q 3, 3 workers / -Q 40 on the other enumeration
   order of the directory, 1 worker / -Q 1, serial: one image of 4096 bytes that the format validator accepts *)
Example ex_det_gens_image :
  PackModel.image_file (dg_tp d_sched2 2 d_prefix2 3 ImgScan.Example.x_tree) = PackModel.image_file (dg_serial 0 ImgScan.Example.x_tree) /\
  PackModel.image_file (dg_tp d_sched3 3 d_prefix3 40 ImgScan.Example.x_tree') = PackModel.image_file (dg_serial 0 ImgScan.Example.x_tree) /\
  PackModel.image_file (dg_tp d_sched1 1 [] 1 ImgScan.Example.x_tree) = PackModel.image_file (dg_serial 0 ImgScan.Example.x_tree) /\
  dg_serial 0 ImgScan.Example.x_tree = ImgScan.Example.x_pack 3 ImgScan.Example.x_tree /\
  match PackModel.image_file (dg_serial 0 ImgScan.Example.x_tree) with
  | Some b => Common.lenN b = 4096 /\ ValidModel.valid_image (TreeModel.img_uncompress 3) 4096 b = true
  | None => False
  end.
Proof. exact ex_gens_image_deterministic. Qed.

(* ... and the LTS runs behind it are different executions: the tickets went through the workers in different orders,
   neither of them the submission order *)
Example ex_det_gens_runs_differ :
  length dg_inputs = 5%nat /\
  d_ran d_sched2 2 d_prefix2 3 dg_inputs <> d_ran d_sched3 3 d_prefix3 40 dg_inputs /\
  option_map (@length _) (d_ran d_sched2 2 d_prefix2 3 dg_inputs) = Some 10%nat /\
  d_ran d_sched3 3 d_prefix3 40 dg_inputs <> Some (rev (seq 0 10)).
Proof. exact ex_gens_runs_differ. Qed.

(* tar2sqfs: the write_file calls are in archive order (d/x first), not in the order of fs->files *)
Example ex_det_tar_archive_order :
  dt_calls = [[[100]; [120]]; [[97]]; [[101]; [102]; [103]]; [[122]]; [[121]]] /\
  dt_files_sorted = [[[97]]; [[100]; [120]]; [[101]; [102]; [103]]; [[121]]; [[122]]].
Proof. exact ex_tar_archive_order. Qed.

(* two cuts of the same bytes that differ, both lossless and without an empty piece *)
Example ex_det_splice :
  splice_ok d_splice /\ splice_lossless d_splice /\ splice_ok d_splice_odd /\ splice_lossless d_splice_odd /\
  d_splice (repeat 7 5000) <> d_splice_odd (repeat 7 5000).
Proof. exact ex_splice_ok. Qed.

(* tar2sqfs on an eight-entry archive (hard link, symbolic link, empty file, implicitly created directories, a directory
   entry after its content): the same image under the three schedules, under the other cut, and serial; d/x — the first
   file of the ARCHIVE — sits right behind the super block *)
Example ex_det_tar_image :
  PackModel.image_file (dt_tp d_sched2 2 d_prefix2 3) = PackModel.image_file (dt_serial 0) /\
  PackModel.image_file (dt_tp d_sched3 3 d_prefix3 40) = PackModel.image_file (dt_serial 0) /\
  PackModel.image_file (dt_tp d_sched1 1 [] 1) = PackModel.image_file (dt_serial 0) /\
  PackModel.image_file (dt_tp_cut d_splice_odd d_sched3 3 d_prefix3 5) = PackModel.image_file (dt_serial 0) /\
  match dt_serial 0 with
  | PackModel.IImage (Res.Ok w) =>
      let b := FinishModel.image_bytes w in
      Common.lenN b = 4096 /\ ValidModel.valid_image (TreeModel.img_uncompress 3) 4096 b = true /\
      SuperModel.s_inode_count (FinishModel.w_super w) = 10 /\ SuperModel.s_frag_count (FinishModel.w_super w) = 1 /\
      option_map (fun lt => map (fun x => (fst (fst x), snd x, PathsModel.pv_kind (snd (fst x)))) (PathsModel.flat_lt [] lt))
                 (ReaderModel.read_image_tree (TreeModel.img_uncompress 3) b) =
      Some [([], 10, TreeModel.LDir 0); ([[97]], 4, TreeModel.LFile 0 300 0 0 904 []); ([[100]], 5, TreeModel.LDir 0);
            ([[100]; [120]], 1, TreeModel.LFile 96 5000 0 0 0 [4]); ([[101]], 6, TreeModel.LDir 0);
            ([[101]; [102]], 3, TreeModel.LDir 0);
            ([[101]; [102]; [103]], 2, TreeModel.LFile 100 9000 0 0 1204 [4; 4]);
            ([[104]], 4, TreeModel.LFile 0 300 0 0 904 []); ([[108]], 7, TreeModel.LSlink [97]);
            ([[121]], 8, TreeModel.LFile 0 0 0 InodeModel.NOX InodeModel.NOX []);
            ([[122]], 9, TreeModel.LFile 0 300 0 0 904 [])]
  | _ => False
  end.
Proof. exact ex_tar_image_deterministic. Qed.

(* environment: SOURCE_DATE_EPOCH "1600000000" and "01600000000" are different strings with the same default_mtime: same
   image; its super block bytes and all twelve paths (scan without --keep-time) carry 1600000000; one second later the
   image differs (the parameter is not ignored); with mtime=7 everything carries 7 whatever the variable *)
Example ex_det_env :
  default_mtime (Some de_1600000000) None = default_mtime (Some (48 :: de_1600000000)) None /\
  Some de_1600000000 <> Some (48 :: de_1600000000) /\
  PackModel.image_file (de_gens (Some de_1600000000) None) = PackModel.image_file (de_gens (Some (48 :: de_1600000000)) None) /\
  de_mtimes (de_gens (Some de_1600000000) None) = Some (1600000000, repeat 1600000000 12) /\
  PackModel.image_file (de_gens (Some (removelast de_1600000000 ++ [49])) None) <> PackModel.image_file (de_gens (Some de_1600000000) None) /\
  de_mtimes (de_gens None (Some 7)) = Some (7, repeat 7 12) /\ opt_ok (Some 7).
Proof. exact ex_env. Qed.

(* ---- non-vacuity (independent audit 3, G4): ALL hypotheses of gensquashfs_image_deterministic_readdir on one instance ---- *)
From Coq Require Import List NArith ZArith Bool.
From SqfsV Require Import C11.ScanModel C11.ScanProofs C11.CanonProofs.
From SqfsV Require Image.FinishModel C02.BpProofs.
From SqfsV Require Import ImgScan.PackProofs ImgScan.Example ImgDet.GenDet ImgDet.Example BpPool.TpExec.
Local Open Scope N_scope.
(* G4: ALL hypotheses of gensquashfs_image_deterministic_readdir on the instance of ex_det_gens_image
   (sorted = true, cfg = x_cfg, trees x_tree / x_tree', 2 and 3 workers) *)
Example ex_det_readdir_hyps :
  nofail d_nofail /\ (2 >= 1)%nat /\ admissible 2 d_sched2 /\ (3 >= 1)%nat /\ admissible 3 d_sched3 /\
  0 < FinishModel.c_block_size x_wc /\ (forall nm, BpProofs.file_ok (x_host_file nm)) /\
  hwf x_tree /\ hperm x_tree x_tree' /\ x_tree <> x_tree' /\ order_free_case true x_cfg x_tree.
Proof.
  destruct ex_schedules_admissible as (A2 & A3 & _ & NF). destruct ex_gens_hyps as (B & F).
  destruct ex_scan_tables as (W & P & D & O & _).
  split; [exact NF|]. split; [apply le_S, le_n|]. split; [exact A2|]. split; [apply le_S, le_S, le_n|].
  split; [exact A3|]. split; [exact B|]. split; [exact F|]. split; [exact W|]. split; [exact P|]. split; [exact D|exact O].
Qed.
