(* C14 — the section-level (coarse) trace recomputed from a finished image, and the system calls the fine model
   predicts for each section (definitions only; used by the correspondence check on real runs).

   From the bytes of an image alone (super block, the first entries of the location lists, the header of the
   compressor options) the section boundaries of Image.FinishModel are recovered:

     96 | options | data | inode table | directory table | fragment table | export table | id table | xattrs | bytes_used

   [coarse_of_image e0 img] is the trace write_image would have emitted for that file (one write per non-empty
   section, the commit, the padding), with e0 = the first call of the logged run as provisional super block.
   [predicted_calls img] gives, per section, the calls of the fine model (C14.FineModel) where they are a function of
   the section's bytes - every section but the data area, whose calls depend on the packing history
   (C08.DedupModel) and are only required to refine the coarse write. *)
From Coq Require Import List NArith ZArith Bool.
From SqfsV Require Import Base.Bytes Gen.Constants C03.Common C03.MetaModel.
From SqfsV Require C14.SuperModel.
From SqfsV Require Import C14.TraceModel C14.RefineModel C14.FineModel.
From SqfsV Require Import Image.ReaderModel.
Import ListNotations.
Local Open Scope N_scope.

Inductive sec_kind := KOpts | KData | KMeta | KTable (start : N) | KXattr (start : N).

Record section := mkSec { sec_kind_of : sec_kind; sec_start : N; sec_end : N }.

(* end of a lookup table section whose location list begins at [start] *)
Definition list_end (start count esz : N) : N := start + 8 * table_blocks count esz.

(* table starts the super block names lie inside the file (nothing below converts a larger number to a nat) *)
Definition starts_inside (img : list N) : bool :=
  let s := SuperModel.decode img in
  let ok x := negb (present x) || (x <=? lenN img) in
  ok (SuperModel.s_frag_start s) && ok (SuperModel.s_export_start s) && (SuperModel.s_id_start s <=? lenN img).

Definition image_sections (img : list N) : option (list section) :=
  let s := SuperModel.decode img in
  let SBS := sizeof_sqfs_super_t in
  if negb (starts_inside img) then None else
  let opts_end :=
    if N.land (SuperModel.s_flags s) c_SQFS_FLAG_COMPRESSOR_OPTIONS =? 0 then SBS
    else SBS + 2 + rd16 (dropS SBS img) mod META_FLAG in
  match dir_end img s with
  | None => None
  | Some de =>
    let frag_end := if present (SuperModel.s_frag_start s)
                    then list_end (SuperModel.s_frag_start s) (SuperModel.s_frag_count s) sizeof_sqfs_fragment_t else de in
    let export_end := if present (SuperModel.s_export_start s)
                      then list_end (SuperModel.s_export_start s) (SuperModel.s_inode_count s) 8 else frag_end in
    let id_end := list_end (SuperModel.s_id_start s) (SuperModel.s_id_count s) 4 in
    Some [ mkSec KOpts SBS opts_end;
           mkSec KData opts_end (SuperModel.s_inode_start s);
           mkSec KMeta (SuperModel.s_inode_start s) (SuperModel.s_dir_start s);
           mkSec KMeta (SuperModel.s_dir_start s) de;
           mkSec (KTable (SuperModel.s_frag_start s)) de frag_end;
           mkSec (KTable (SuperModel.s_export_start s)) frag_end export_end;
           mkSec (KTable (SuperModel.s_id_start s)) export_end id_end;
           mkSec (KXattr (SuperModel.s_xattr_start s)) id_end (SuperModel.s_bytes_used s) ]
  end.

(* boundaries in order, inside the file *)
Fixpoint sections_ordered (pos : N) (l : list section) (fin : N) : bool :=
  match l with
  | [] => pos <=? fin
  | x :: r => (sec_start x =? pos) && (pos <=? sec_end x) && sections_ordered (sec_end x) r fin
  end.

Definition sec_bytes (img : list N) (x : section) : list N :=
  takeS (sec_end x - sec_start x) (dropS (sec_start x) img).

Definition coarse_of_image (e0 : event) (img : list N) : option (list event) :=
  match image_sections img with
  | None => None
  | Some secs =>
    let bu := SuperModel.s_bytes_used (SuperModel.decode img) in
    if sections_ordered sizeof_sqfs_super_t secs bu && (bu <=? lenN img) then
      Some (e0 :: flat_map (fun x => ev_one (sec_start x) (sec_bytes img x)) secs ++
            PWrite 0 (takeS sizeof_sqfs_super_t img) :: ev_one bu (dropS bu img))
    else None
  end.

(* the calls the fine model predicts for a section (None: not a function of the bytes) *)
Definition predicted (img : list N) (x : section) : option (list event) :=
  let b := sec_bytes img x in
  match sec_kind_of x with
  | KOpts => Some (ev_one (sec_start x) b)
  | KData => None
  | KMeta => Some (ev_chunks (sec_start x) (meta_blocks b))
  | KTable start => Some (ev_chunks (sec_start x) (table_chunks (sec_start x) b start))
  | KXattr start => Some (ev_chunks (sec_start x) (xattr_chunks (sec_start x) b start))
  end.

(* ---- well-formedness of the sections (what write_image guarantees of them; checked on real images so that a
   prediction computed from a section that is not what the model says it is cannot agree by accident) ---- *)

(* every piece is a whole metadata block: 2 byte header + as many bytes as the header says *)
Definition meta_wf (b : list N) : bool :=
  forallb (fun c => lenN c =? rd16 c mod META_FLAG + 2) (meta_blocks b).

(* the location list [l] names exactly the starts of the blocks [chunks] laid out from [pos] *)
Fixpoint locs_match (pos : N) (chunks : list (list N)) (l : list N) : bool :=
  match chunks with
  | [] => match l with [] => true | _ => false end
  | c :: r => (8 <=? lenN l) && (rd64 l =? pos) && locs_match (pos + lenN c) r (dropN 8 l)
  end.

Definition section_wf (img : list N) (x : section) : bool :=
  let b := sec_bytes img x in
  match sec_kind_of x with
  | KOpts => match b with
             | [] => true
             | _ => (lenN b =? rd16 b mod META_FLAG + 2) && (META_FLAG <=? rd16 b)
             end
  | KData => true
  | KMeta => meta_wf b
  | KTable start =>
    if present start then
      (sec_start x <? start) && (start <? sec_end x) &&
      (let blocks := takeS (start - sec_start x) b in
       meta_wf blocks && locs_match (sec_start x) (meta_blocks blocks) (dropS (start - sec_start x) b))
    else match b with [] => true | _ => false end
  | KXattr start =>
    if present start then
      (sec_start x <? start) && (start + sizeof_sqfs_xattr_id_table_t <? sec_end x) &&
      meta_wf (takeS (start - sec_start x) b)
    else match b with [] => true | _ => false end
  end.

Definition sections_wf (img : list N) : bool :=
  match image_sections img with
  | None => false
  | Some secs => forallb (section_wf img) secs
  end.

(* per NON-EMPTY section (= per body event of coarse_of_image), in order *)
Definition predicted_calls (img : list N) : option (list (option (list event))) :=
  match image_sections img with
  | None => None
  | Some secs =>
    Some (flat_map (fun x => match sec_bytes img x with [] => [] | _ => [predicted img x] end) secs)
  end.
