(* C14 — the section-level trace recomputed from the bytes of an image (SectionModel.coarse_of_image) is, for every
   image write_image produces, exactly the trace write_image emitted: the coarse trace the correspondence check
   refines the logged calls of a real run against is the model's own w_trace. *)
From Coq Require Import List NArith ZArith Bool Lia ZifyBool ZifyNat ZifyN.
From SqfsV Require Import Base.Bytes Gen.Constants C03.Common C03.ListN C03.MetaModel C03.MetaProofs C03.TableModel
  C03.TableProofs.
From SqfsV Require C14.SuperModel C14.SuperProofs.
From SqfsV Require Import C14.TraceModel C14.TraceProofs C14.RefineModel C14.RefineProofs C14.FineModel C14.FineProofs
  C14.SectionModel.
From SqfsV Require Import C01.Res Img.TreeModel Image.FinishModel Image.FinishProofs Image.ReaderModel Image.ImageProofs.
Import ListNotations.
Local Open Scope N_scope.

(* ---------- sections laid out one behind the other ---------- *)

Fixpoint mk_secs (kinds : list sec_kind) (pos : N) (parts : list (list N)) : list section :=
  match kinds, parts with
  | k :: ks, p :: ps => mkSec k pos (pos + lenN p) :: mk_secs ks (pos + lenN p) ps
  | _, _ => []
  end.

Lemma sec_bytes_mid pre p rest k pos :
  lenN pre = pos -> sec_bytes (pre ++ p ++ rest) (mkSec k pos (pos + lenN p)) = p.
Proof.
  intro E. unfold sec_bytes. cbn [sec_start sec_end]. rewrite takeS_eq, dropS_eq.
  rewrite dropN_app_exact by exact E.
  replace (pos + lenN p - pos) with (lenN p) by lia. apply takeN_app_exact. reflexivity.
Qed.

Lemma mk_secs_events img_of : forall parts kinds pos pre rest,
  length kinds = length parts -> lenN pre = pos ->
  (forall x, img_of x = sec_bytes (pre ++ concat parts ++ rest) x) ->
  flat_map (fun x => ev_one (sec_start x) (img_of x)) (mk_secs kinds pos parts) = ev_chunks pos parts.
Proof.
  induction parts as [|p ps IH]; intros kinds pos pre rest L E H; destruct kinds as [|k ks]; try discriminate;
    [reflexivity|].
  cbn [mk_secs flat_map ev_chunks sec_start]. f_equal.
  - rewrite H. cbn [concat]. rewrite <- app_assoc. rewrite (sec_bytes_mid pre p (concat ps ++ rest) k pos E). reflexivity.
  - fold (lenN p). apply (IH ks (pos + lenN p) (pre ++ p) rest).
    + cbn [length] in L. lia.
    + rewrite lenN_app. lia.
    + intro x. rewrite H. cbn [concat]. rewrite <- !app_assoc. reflexivity.
Qed.

Lemma mk_secs_ordered : forall parts kinds pos fin,
  length kinds = length parts -> pos + lenN (concat parts) <= fin ->
  sections_ordered pos (mk_secs kinds pos parts) fin = true.
Proof.
  induction parts as [|p ps IH]; intros kinds pos fin L H; destruct kinds as [|k ks]; try discriminate.
  - cbn [mk_secs sections_ordered]. cbn [concat] in H. rewrite lenN_nil in H. apply N.leb_le. lia.
  - cbn [mk_secs sections_ordered sec_start sec_end]. rewrite N.eqb_refl. cbn [andb].
    replace (pos <=? pos + lenN p) with true by (symmetry; apply N.leb_le; lia). cbn [andb].
    apply IH; [cbn [length] in L; lia|]. cbn [concat] in H. rewrite lenN_app in H. lia.
Qed.

Lemma rd16_app a b : 2 <= lenN a -> rd16 (a ++ b) = rd16 a.
Proof.
  destruct a as [|x [|y r]]; unfold lenN; cbn [length]; try lia. intros _. reflexivity.
Qed.

Section SP.
  Variable compress : list N -> cres.
  Variable uncompress : list N -> option (list N).
  Hypothesis compress_ok :
    forall b c, compress b = CData c -> lenN c <= lenN b /\ uncompress c = Some b.
  Variable limit : N.
  Hypothesis limit_ok : limit <= 65535.
  Variable cfg : wcfg.
  Variable inp : winput.
  Variable w : wimage.
  Hypothesis Hw : write_image compress limit cfg inp = Ok w.
  Hypothesis Hdom : image_domain cfg inp = true.
  Hypothesis Hfit : image_fits w = true.

  Let sf := w_super w.
  Let s0 := w_super0 w.
  Let img := w_img w.
  Let opts := in_opts inp.
  Let data := in_data inp.
  Let itbl := si_itbl img.
  Let dtbl := si_dtbl img.
  Let B := image_bytes w.

  Notation IPa f := (f compress uncompress compress_ok limit limit_ok cfg inp w Hw Hdom Hfit).
  Ltac rw H := let P := fresh "P" in pose proof H as P; fold sf img B in P; rewrite P; clear P.
  Notation IPb f := (f compress uncompress compress_ok limit limit_ok cfg inp w Hw Hdom).

  Let parts : list (list N) := [opts; data; itbl; dtbl; w_fragb w; w_exportb w; w_idb w; w_xattrb w].
  Let kinds : list sec_kind :=
    [KOpts; KData; KMeta; KMeta; KTable (s_frag_start sf); KTable (s_export_start sf); KTable (s_id_start sf);
     KXattr (s_xattr_start sf)].

  Lemma B_eq : B = SuperModel.encode sf ++ concat parts ++ FinishModel.zeros (w_pad w).
  Proof.
    unfold B, parts. rewrite (bytes_eq compress limit cfg inp w Hw). fold sf img opts data itbl dtbl.
    cbn [concat]. rewrite app_nil_r, <- !app_assoc. reflexivity.
  Qed.

  Lemma decode_B : SuperModel.decode B = sf.
  Proof. unfold B, image_bytes. apply SuperProofs.super_rt_l. exact (IPa super_range). Qed.

  Lemma lenB : lenN B = s_bytes_used sf + w_pad w.
  Proof. exact (IPb image_len). Qed.

  Lemma enc_sf_len : lenN (SuperModel.encode sf) = sizeof_sqfs_super_t.
  Proof. unfold lenN. rewrite SuperProofs.encode_length. reflexivity. Qed.

  (* the boundaries, as the reader of the image finds them *)
  Lemma opts_end_ok :
    (if N.land (s_flags sf) c_SQFS_FLAG_COMPRESSOR_OPTIONS =? 0 then sizeof_sqfs_super_t
     else sizeof_sqfs_super_t + 2 + rd16 (dropS sizeof_sqfs_super_t B) mod META_FLAG)
    = sizeof_sqfs_super_t + lenN opts.
  Proof.
    pose proof (flags_eq compress limit cfg inp w Hw) as FE. fold sf in FE. rewrite FE. clear FE. unfold flags_of.
    match goal with |- context [final_flags ?a ?b ?c ?d ?x] =>
      destruct (final_flags_bits a b c d x) as (Fb & _) end.
    destruct (dom_facts cfg inp Hdom) as (_ & _ & _ & _ & Oo & _).
    assert (BE : dropN sizeof_sqfs_super_t B = in_opts inp ++ (data ++ itbl ++ dtbl ++ w_fragb w ++ w_exportb w ++ w_idb w ++
                                                              w_xattrb w ++ []) ++ FinishModel.zeros (w_pad w)).
    { rewrite B_eq. rewrite dropN_app_exact by exact enc_sf_len. unfold parts, opts. cbn [concat].
      rewrite <- !app_assoc. reflexivity. }
    unfold opts. destruct (in_opts inp) as [|o0 orest] eqn:Eo.
    - cbn [is_nil negb] in Fb |- *. apply negb_false_iff in Fb. rewrite Fb. rewrite lenN_nil. lia.
    - cbn [is_nil negb] in Fb |- *. apply negb_true_iff in Fb. rewrite Fb.
      unfold opts_okb in Oo.
      rewrite !andb_true_iff in Oo. destruct Oo as [[[O1 O2] O3] _].
      apply N.leb_le in O1. apply N.ltb_lt in O2. apply N.eqb_eq in O3.
      rewrite dropS_eq, BE. rewrite rd16_app by exact O1.
      rewrite O3. pose proof FLAG_val as HF. rewrite HF.
      replace ((lenN (o0 :: orest) - 2 + 32768) mod 32768) with (lenN (o0 :: orest) - 2); [lia|].
      symmetry. rewrite N.add_mod by lia. rewrite N.mod_same by lia. rewrite N.add_0_r, N.mod_mod by lia.
      apply N.mod_small. lia.
  Qed.

  Lemma frag_end_ok :
    (if present (s_frag_start sf) then list_end (s_frag_start sf) (s_frag_count sf) sizeof_sqfs_fragment_t else o_frag w)
    = o_export w.
  Proof.
    destruct (IPb frag_span) as [_ F].
    destruct (layout compress limit cfg inp w Hw Hdom) as [_ _ [(Z & Fb & S & _)|(Z & A & C)] _ _ _ _ _].
    - fold sf in S. rewrite S. rewrite no_table_absent. unfold o_export. rewrite Fb, lenN_nil. lia.
    - rw (IPa frag_present Z). destruct (F Z) as [_ F2]. fold sf in F2. unfold list_end. symmetry. exact F2.
  Qed.

  Lemma export_end_ok :
    (if present (s_export_start sf) then list_end (s_export_start sf) (SuperModel.s_inode_count sf) 8 else o_export w)
    = o_id w.
  Proof.
    destruct (IPb export_span) as [_ E].
    destruct (IPb fixed_fields) as (_ & M2 & _).
    destruct (IPa export_roundtrip_l) as [(_ & Z & _)|(_ & l & Z & _ & L & _)].
    - destruct (layout compress limit cfg inp w Hw Hdom) as [_ _ _ [(_ & Eb & S)|(l & dwr & Z' & _)] _ _ _ _]; [|congruence].
      fold sf in S. rewrite S, no_table_absent. unfold o_id. rewrite Eb, lenN_nil. lia.
    - rw (IPa export_present l Z). destruct (E l Z) as [_ E2]. fold sf in E2, M2. unfold list_end.
      rewrite M2, <- L. symmetry. exact E2.
  Qed.

  Lemma id_end_ok : list_end (s_id_start sf) (SuperModel.s_id_count sf) 4 = o_xattr w.
  Proof.
    destruct (IPb id_span) as [_ I2]. destruct (IPb fixed_fields) as (_ & _ & _ & _ & _ & _ & M7 & _).
    fold sf img in I2, M7. unfold list_end. rewrite M7. symmetry. exact I2.
  Qed.

  Lemma starts_inside_ok : starts_inside B = true.
  Proof.
    unfold starts_inside. rewrite decode_B.
    pose proof (IPb order_facts) as O. pose proof lenB as LB. fold sf in O.
    pose proof frag_end_ok as FE. pose proof export_end_ok as EE. unfold list_end in FE, EE.
    rewrite !andb_true_iff. split; [split|].
    - destruct (present (s_frag_start sf)); [|reflexivity]. cbn [negb orb]. apply N.leb_le. lia.
    - destruct (present (s_export_start sf)); [|reflexivity]. cbn [negb orb]. apply N.leb_le. lia.
    - apply N.leb_le. lia.
  Qed.

  Lemma secs_eq :
    [ mkSec KOpts sizeof_sqfs_super_t (sizeof_sqfs_super_t + lenN opts);
      mkSec KData (sizeof_sqfs_super_t + lenN opts) (s_inode_start sf);
      mkSec KMeta (s_inode_start sf) (s_dir_start sf);
      mkSec KMeta (s_dir_start sf) (o_frag w);
      mkSec (KTable (s_frag_start sf)) (o_frag w) (o_export w);
      mkSec (KTable (s_export_start sf)) (o_export w) (o_id w);
      mkSec (KTable (s_id_start sf)) (o_id w) (o_xattr w);
      mkSec (KXattr (s_xattr_start sf)) (o_xattr w) (s_bytes_used sf) ]
    = mk_secs kinds sizeof_sqfs_super_t parts.
  Proof.
    destruct (layout compress limit cfg inp w Hw Hdom) as [Li Ld _ _ _ _ Lu _].
    fold sf opts data img in Li, Ld, Lu. fold itbl in Ld.
    unfold kinds, parts. cbn [mk_secs].
    assert (E1 : sizeof_sqfs_super_t + lenN opts + lenN data = s_inode_start sf) by (unfold SBN in Li; lia).
    rewrite E1.
    assert (E2 : s_inode_start sf + lenN itbl = s_dir_start sf) by lia. rewrite E2.
    assert (E3 : s_dir_start sf + lenN dtbl = o_frag w) by (unfold o_frag; fold sf img dtbl; reflexivity). rewrite E3.
    assert (E4 : o_frag w + lenN (w_fragb w) = o_export w) by reflexivity. rewrite E4.
    assert (E5 : o_export w + lenN (w_exportb w) = o_id w) by reflexivity. rewrite E5.
    assert (E6 : o_id w + lenN (w_idb w) = o_xattr w) by reflexivity. rewrite E6.
    assert (E7 : o_xattr w + lenN (w_xattrb w) = s_bytes_used sf) by lia. rewrite E7.
    reflexivity.
  Qed.

  (* the sections the reader finds are the sections the writer laid out *)
  Theorem image_sections_spec : image_sections B = Some (mk_secs kinds sizeof_sqfs_super_t parts).
  Proof.
    unfold image_sections. rewrite starts_inside_ok. cbn [negb]. rewrite decode_B.
    rw (IPa dir_end_ok).
    rewrite opts_end_ok, frag_end_ok, export_end_ok, id_end_ok. f_equal. exact secs_eq.
  Qed.

  Lemma parts_len : sizeof_sqfs_super_t + lenN (concat parts) = s_bytes_used sf.
  Proof.
    destruct (layout compress limit cfg inp w Hw Hdom) as [Li Ld _ _ _ _ Lu _].
    fold sf opts data img in Li, Ld, Lu. fold itbl in Ld.
    unfold parts. cbn [concat]. rewrite !lenN_app, lenN_nil.
    unfold o_xattr, o_id, o_export, o_frag, SBN in *. fold sf img dtbl in Lu. lia.
  Qed.

  (* coarse_of_image_spec: from the bytes of the image (and the provisional super block as first call) the
     extracted function recomputes exactly the trace the model emitted *)
  Theorem coarse_of_image_spec :
    coarse_of_image (PWrite 0 (SuperModel.encode s0)) B = Some (w_trace w).
  Proof.
    unfold coarse_of_image. rewrite image_sections_spec, decode_B.
    pose proof parts_len as PL. pose proof lenB as LB.
    rewrite mk_secs_ordered by (try reflexivity; lia).
    replace (s_bytes_used sf <=? lenN B) with true by (symmetry; apply N.leb_le; lia). cbn [andb].
    f_equal. rewrite (trace_eq compress limit cfg inp w Hw). fold sf s0. f_equal.
    rewrite (mk_secs_events (sec_bytes B) parts kinds sizeof_sqfs_super_t (SuperModel.encode sf)
               (FinishModel.zeros (w_pad w)) eq_refl enc_sf_len) by (intro x; rewrite <- B_eq; reflexivity).
    f_equal.
    - unfold body_events, parts. fold sf img opts data itbl dtbl. cbn [ev_chunks].
      change (@FinishModel.ev_write) with (@ev_one).
      destruct (layout compress limit cfg inp w Hw Hdom) as [Li Ld _ _ _ _ Lu _].
      fold sf opts data img in Li, Ld, Lu. fold itbl in Ld.
      replace (SBN) with sizeof_sqfs_super_t by reflexivity.
      fold (lenN opts) (lenN data) (lenN itbl) (lenN dtbl) (lenN (w_fragb w)) (lenN (w_exportb w)) (lenN (w_idb w)).
      assert (E1 : sizeof_sqfs_super_t + lenN opts + lenN data = s_inode_start sf) by (unfold SBN in Li; lia).
      rewrite E1.
      assert (E2 : s_inode_start sf + lenN itbl = s_dir_start sf) by lia. rewrite E2.
      assert (E3 : s_dir_start sf + lenN dtbl = o_frag w) by (unfold o_frag; fold sf img dtbl; reflexivity). rewrite E3.
      assert (E4 : o_frag w + lenN (w_fragb w) = o_export w) by reflexivity. rewrite E4.
      assert (E5 : o_export w + lenN (w_exportb w) = o_id w) by reflexivity. rewrite E5.
      assert (E6 : o_id w + lenN (w_idb w) = o_xattr w) by reflexivity. rewrite E6.
      rewrite !app_nil_r. reflexivity.
    - f_equal.
      + f_equal. rewrite takeS_eq, B_eq. apply takeN_app_exact. exact enc_sf_len.
      + change (@FinishModel.ev_write) with (@ev_one). f_equal. rewrite dropS_eq, B_eq.
        rewrite app_assoc. apply dropN_app_exact. rewrite lenN_app, enc_sf_len. exact PL.
  Qed.
End SP.
