(* C14 — sections_wf (the executable well-formedness of the sections recomputed from the bytes of an image,
   SectionModel.v) PROVED of the model's images.

   What was missing (props/C14/NOTES.md "Open / weak"): the xattr section was an abstract input of write_image, so
   nothing could be said about its inside.  ImgXattr.FlushModel.xflush is the byte-level model of
   sqfs_xattr_writer_flush and ImgXattr.FlushShape.xflush_shape its layout theorem: with the hypothesis that the
   section of the input IS what the flush model appends at the offset where the id table ends,

     sections_wf_written      sections_wf (image_bytes w) = true for every write_image = Ok w (domain hypotheses as for
                              coarse_of_image_recovers_trace)
     xattr_chunks_faithful    the calls the fine model predicts for the xattr section ARE the flush's own calls: one
                              write per key-value metadata block, one per id metadata block, the 16 byte header, the
                              location list (the analogue of FineProofs.table_chunks_faithful)

   PackFine.v instantiates both for ImgE2E.PackAll.pack_all (where the hypothesis is a theorem). *)
From Coq Require Import List NArith ZArith Bool Lia ZifyBool ZifyNat ZifyN.
From SqfsV Require Import Base.Bytes Gen.Constants C03.Common C03.ListN C03.MetaModel C03.MetaProofs C03.TableModel
  C03.TableProofs.
From SqfsV Require C14.SuperModel C14.SuperProofs.
From SqfsV Require Import C14.TraceModel C14.TraceProofs C14.RefineModel C14.RefineProofs C14.FineModel C14.FineProofs
  C14.SectionModel C14.SectionProofs.
From SqfsV Require Import C01.Res C01.XattrModel Img.TreeModel Image.FinishModel Image.FinishProofs Image.ReaderModel
  Image.ReadLemmas Image.ImageProofs.
From SqfsV Require Import ImgXattr.FlushModel ImgXattr.KvRefine ImgXattr.FlushShape.
From SqfsV Require C01.InodeModel.
Import ListNotations.
Local Open Scope N_scope.

(* section_wf as a function of kind, position and bytes *)
Definition part_wf (k : sec_kind) (pos : N) (b : list N) : bool :=
  match k with
  | KOpts => match b with
             | [] => true
             | _ => (lenN b =? rd16 b mod META_FLAG + 2) && (META_FLAG <=? rd16 b)
             end
  | KData => true
  | KMeta => meta_wf b
  | KTable start =>
    if present start then
      (pos <? start) && (start <? pos + lenN b) &&
      (let blocks := takeS (start - pos) b in
       meta_wf blocks && locs_match pos (meta_blocks blocks) (dropS (start - pos) b))
    else match b with [] => true | _ => false end
  | KXattr start =>
    if present start then
      (pos <? start) && (start + sizeof_sqfs_xattr_id_table_t <? pos + lenN b) &&
      meta_wf (takeS (start - pos) b)
    else match b with [] => true | _ => false end
  end.

Lemma section_wf_part img k pos p :
  sec_bytes img (mkSec k pos (pos + lenN p)) = p -> section_wf img (mkSec k pos (pos + lenN p)) = part_wf k pos p.
Proof.
  intro E. unfold section_wf. rewrite E. cbn [sec_kind_of sec_start sec_end]. reflexivity.
Qed.

Lemma mk_secs_wf : forall parts kinds pos pre rest,
  length kinds = length parts -> lenN pre = pos ->
  Forall2 (fun kp off => part_wf (fst kp) off (snd kp) = true)
          (combine kinds parts)
          (map (fun k => pos + lenN (concat (firstn k parts))) (seq 0 (length parts))) ->
  forallb (section_wf (pre ++ concat parts ++ rest)) (mk_secs kinds pos parts) = true.
Proof.
  induction parts as [|p ps IH]; intros kinds pos pre rest L E F; destruct kinds as [|k ks]; try discriminate;
    [reflexivity|].
  cbn [mk_secs forallb]. cbn [combine length seq map firstn concat] in F.
  inversion F as [|? ? ? ? Hp Fr]; subst. cbn [fst snd] in Hp. rewrite lenN_nil, N.add_0_r in Hp.
  apply andb_true_iff. split.
  - rewrite section_wf_part; [exact Hp|]. cbn [concat]. rewrite <- app_assoc. apply sec_bytes_mid. reflexivity.
  - replace (pre ++ concat (p :: ps) ++ rest) with ((pre ++ p) ++ concat ps ++ rest)
      by (cbn [concat]; rewrite <- !app_assoc; reflexivity).
    apply IH; [cbn [length] in L; lia|rewrite lenN_app; reflexivity|].
    rewrite <- seq_shift, map_map in Fr.
    assert (Em : map (fun x => lenN pre + lenN (concat (firstn (S x) (p :: ps)))) (seq 0 (length ps))
                 = map (fun k0 => lenN pre + lenN p + lenN (concat (firstn k0 ps))) (seq 0 (length ps))).
    { apply map_ext. intro x. cbn [firstn concat]. rewrite lenN_app. lia. }
    rewrite Em in Fr. exact Fr.
Qed.

(* ---------- metadata areas ---------- *)
Section Blocks.
  Variable compress : list N -> cres.
  Variable uncompress : list N -> option (list N).
  Hypothesis compress_ok :
    forall b c, compress b = CData c -> lenN c <= lenN b /\ uncompress c = Some b.

  Notation enc := (enc compress).

  Lemma meta_wf_enc raws : Forall blk_ok raws -> meta_wf (concat (map enc raws)) = true.
  Proof.
    intro F. unfold meta_wf. rewrite (meta_blocks_enc compress uncompress compress_ok raws F).
    apply forallb_forall. intros c Hc. apply in_map_iff in Hc. destruct Hc as (r & <- & Hr).
    rewrite Forall_forall in F. destruct (enc_header compress uncompress compress_ok r [] (F r Hr)) as [H _].
    rewrite app_nil_r in H. apply N.eqb_eq. symmetry. exact H.
  Qed.

  Lemma rd64_le64_app x r : x < 2 ^ 64 -> rd64 (le64 x ++ r) = x.
  Proof. intro H. unfold rd64, le64. apply rd_le. exact H. Qed.

  Lemma dropN8_le64 x r : dropN 8 (le64 x ++ r) = r.
  Proof. apply dropN_app_exact. unfold le64. rewrite lenN_le. reflexivity. Qed.

  (* a location list that names the starts of the blocks laid out from [size0 + what precedes] *)
  Definition locs_from (size0 : N) (pre chunks : list (list N)) : list N :=
    map (fun k => size0 + lenN (concat (map enc (pre ++ firstn k chunks)))) (seq 0 (length chunks)).

  Lemma locs_from_cons size0 pre c chunks :
    locs_from size0 pre (c :: chunks) = (size0 + lenN (concat (map enc pre))) :: locs_from size0 (pre ++ [c]) chunks.
  Proof.
    unfold locs_from. cbn [length seq map firstn]. rewrite app_nil_r. f_equal.
    rewrite <- seq_shift, map_map. apply map_ext. intro x. cbn [firstn]. rewrite <- app_assoc. reflexivity.
  Qed.

  Lemma locs_match_enc size0 : forall chunks pre,
    size0 + lenN (concat (map enc (pre ++ chunks))) < 2 ^ 64 ->
    locs_match (size0 + lenN (concat (map enc pre))) (map enc chunks) (concat (map le64 (locs_from size0 pre chunks))) = true.
  Proof.
    induction chunks as [|c chunks IH]; intros pre B; [reflexivity|].
    rewrite locs_from_cons. cbn [map concat locs_match].
    assert (B0 : size0 + lenN (concat (map enc pre)) < 2 ^ 64).
    { rewrite map_app, concat_app, lenN_app in B. lia. }
    rewrite rd64_le64_app by exact B0. rewrite N.eqb_refl, dropN8_le64.
    replace (8 <=? lenN (le64 (size0 + lenN (concat (map enc pre))) ++ _)) with true
      by (symmetry; apply N.leb_le; rewrite lenN_app; unfold le64; rewrite lenN_le; lia).
    cbn [andb].
    specialize (IH (pre ++ [c])).
    assert (Ep : lenN (concat (map enc (pre ++ [c]))) = lenN (concat (map enc pre)) + lenN (enc c)).
    { rewrite map_app, concat_app, lenN_app. cbn [map concat]. rewrite app_nil_r. reflexivity. }
    rewrite Ep, N.add_assoc in IH. apply IH. rewrite <- app_assoc. exact B.
  Qed.

  (* sqfs_write_table: blocks, then the list of their starts *)
  Lemma table_part_wf size0 data bytes start :
    write_table compress size0 data = Common.Ok (bytes, start) -> data <> [] ->
    present start = true -> size0 + lenN bytes < 2 ^ 64 ->
    part_wf (KTable start) size0 bytes = true.
  Proof.
    intros H Hne Hp Hb. destruct (write_table_ok_l compress uncompress compress_ok _ _ _ _ H)
      as (chunks & C & Fk & _ & _ & B & S & _).
    assert (Cne : chunks <> []) by (intro Z; rewrite Z in C; cbn in C; congruence).
    assert (L2 : 2 <= lenN (concat (map enc chunks))).
    { destruct chunks as [|c cs]; [congruence|]. cbn [map concat]. rewrite lenN_app.
      destruct (enc_header compress uncompress compress_ok c [] (Forall_inv Fk)) as [_ H2]. lia. }
    assert (Ll : lenN (concat (map le64 (table_locs compress size0 chunks))) = 8 * lenN chunks).
    { rewrite lenN_concat_le64. unfold table_locs. rewrite lenN_map. unfold lenN. rewrite seq_length. reflexivity. }
    assert (Lc : 1 <= lenN chunks) by (destruct chunks; [congruence|unfold lenN; cbn [length]; lia]).
    unfold part_wf. rewrite Hp, S, B.
    replace (size0 + lenN (concat (map enc chunks)) - size0) with (lenN (concat (map enc chunks))) by lia.
    rewrite takeS_eq, dropS_eq, takeN_app_exact, dropN_app_exact by reflexivity.
    rewrite lenN_app, Ll.
    replace (size0 <? size0 + lenN (concat (map enc chunks))) with true by (symmetry; apply N.ltb_lt; lia).
    replace (size0 + lenN (concat (map enc chunks)) <? size0 + (lenN (concat (map enc chunks)) + 8 * lenN chunks)) with true
      by (symmetry; apply N.ltb_lt; lia).
    cbn [andb]. rewrite (meta_wf_enc chunks Fk). cbn [andb].
    rewrite (meta_blocks_enc compress uncompress compress_ok chunks Fk).
    pose proof (locs_match_enc size0 chunks []) as LM. cbn [Datatypes.app map concat] in LM. rewrite lenN_nil, N.add_0_r in LM.
    unfold table_locs, loc_of. unfold locs_from in LM. cbn [Datatypes.app] in *. apply LM.
    rewrite B, lenN_app in Hb. cbn [Datatypes.app]. lia.
  Qed.
End Blocks.

(* ---------- the image ---------- *)
Section SW.
  Variable compress : list N -> cres.
  Variable uncompress : list N -> option (list N).
  Hypothesis compress_ok :
    forall b c, compress b = CData c -> lenN c <= lenN b /\ uncompress c = Some b.
  Variable limit : N.
  Hypothesis limit_ok : limit <= 65535.
  Variable cfg : wcfg.
  Variable inp : winput.
  Variable w : wimage.
  Hypothesis Hw : write_image compress limit cfg inp = Ok w.
  Hypothesis Hdom : image_domain cfg inp = true.
  Hypothesis Hfit : image_fits w = true.
  (* the xattr section of the input is what the flush model appends where the id table ends *)
  Variable xw : xwr.
  Hypothesis Hx : xflush compress (o_xattr w) xw = Ok (in_xattr inp).

  Let sf := w_super w.
  Let img := w_img w.
  Let B := image_bytes w.

  Notation enc := (enc compress).
  Notation IPa f := (f compress uncompress compress_ok limit limit_ok cfg inp w Hw Hdom Hfit).
  Notation IPb f := (f compress uncompress compress_ok limit limit_ok cfg inp w Hw Hdom).

  Lemma used64 : s_bytes_used sf < 2 ^ 64.
  Proof. destruct (fit_facts w Hfit) as [_ U]. exact U. Qed.

  Lemma present_below x : x < s_bytes_used sf -> present x = true.
  Proof.
    intro H. pose proof used64 as U. unfold present, NONE64. apply negb_true_iff, N.eqb_neq.
    change (2 ^ 64) with 18446744073709551616 in U. lia.
  Qed.

  (* 1. compressor options *)
  Lemma opts_wf : part_wf KOpts sizeof_sqfs_super_t (in_opts inp) = true.
  Proof.
    destruct (dom_facts cfg inp Hdom) as (_ & _ & _ & _ & Oo & _). unfold part_wf.
    destruct (in_opts inp) as [|o0 orest] eqn:Eo; [reflexivity|].
    unfold opts_okb in Oo. rewrite !andb_true_iff in Oo. destruct Oo as [[[O1 O2] O3] _].
    apply N.leb_le in O1. apply N.ltb_lt in O2. apply N.eqb_eq in O3.
    pose proof FLAG_val as HF. rewrite O3, HF.
    apply andb_true_iff. split; [apply N.eqb_eq|apply N.leb_le; lia].
    replace ((lenN (o0 :: orest) - 2 + 32768) mod 32768) with (lenN (o0 :: orest) - 2); [lia|].
    symmetry. rewrite N.add_mod by lia. rewrite N.mod_same by lia. rewrite N.add_0_r, N.mod_mod by lia.
    apply N.mod_small. lia.
  Qed.

  (* 3, 4. inode table and directory table *)
  Lemma itbl_wf : meta_wf (si_itbl img) = true.
  Proof.
    destruct (IPa tables_enc (c_devblk cfg) eq_refl) as (rawsI & rawsD & FI & EI & _ & _ & _).
    unfold img. rewrite EI. apply (meta_wf_enc compress uncompress compress_ok). exact FI.
  Qed.

  Lemma dtbl_wf : meta_wf (si_dtbl img) = true.
  Proof.
    destruct (IPa tables_enc (c_devblk cfg) eq_refl) as (rawsI & rawsD & _ & _ & _ & FD & ED).
    unfold img. rewrite ED. apply (meta_wf_enc compress uncompress compress_ok). exact FD.
  Qed.

  (* 5 - 7. the lookup tables *)
  Lemma frag_wf : part_wf (KTable (s_frag_start sf)) (o_frag w) (w_fragb w) = true.
  Proof.
    pose proof (IPb order_facts) as Of. pose proof used64 as U.
    destruct (layout compress limit cfg inp w Hw Hdom) as [_ _ [(Z & Fb & S & _)|(Z & A & C)] _ _ _ Lu _].
    - unfold part_wf. fold sf in S. rewrite S, no_table_absent, Fb. reflexivity.
    - apply (table_part_wf compress uncompress compress_ok _ _ _ _ A).
      + exact (frag_bytes_ne inp Z).
      + exact (IPa frag_present Z).
      + fold sf in Of. unfold o_export in Of. lia.
  Qed.

  Lemma export_wf : part_wf (KTable (s_export_start sf)) (o_export w) (w_exportb w) = true.
  Proof.
    pose proof (IPb order_facts) as Of. pose proof used64 as U.
    destruct (layout compress limit cfg inp w Hw Hdom) as [_ _ _ [(Z & Eb & S)|(l & dwr & Z & A & _ & X)] _ _ _ _].
    - unfold part_wf. fold sf in S. rewrite S, no_table_absent, Eb. reflexivity.
    - apply (table_part_wf compress uncompress compress_ok _ _ _ _ A).
      + pose proof (export_add_some _ _ _ _ X) as Q. destruct l as [|x r]; [congruence|]. cbn [map concat].
        unfold le64. cbn [le]. discriminate.
      + exact (IPa export_present l Z).
      + fold sf in Of. unfold o_id in Of. lia.
  Qed.

  Lemma id_wf : part_wf (KTable (s_id_start sf)) (o_id w) (w_idb w) = true.
  Proof.
    pose proof (IPb order_facts) as Of. pose proof used64 as U. fold sf in Of.
    destruct (layout compress limit cfg inp w Hw Hdom) as [_ _ _ _ A _ _ _].
    destruct (IPb ids_facts) as (_ & Hne & _).
    apply (table_part_wf compress uncompress compress_ok _ _ _ _ A).
    - intro Z. apply Hne. unfold img in *. destruct (si_ids (w_img w)) as [|x r]; [reflexivity|]. exfalso.
      unfold C01.InodeModel.id_table_bytes in Z. cbn [flat_map] in Z. unfold le32 in Z. cbn [le] in Z. discriminate.
    - apply present_below. fold sf. lia.
    - unfold o_xattr in Of. lia.
  Qed.

  (* 8. the xattr section *)
  Lemma xattr_present_shape :
    (w_xattrb w = [] /\ s_xattr_start sf = NO_TABLE) \/
    (exists off kvr idr descs,
       s_xattr_start sf = o_xattr w + off /\ xshape compress (o_xattr w) xw (w_xattrb w) off kvr idr descs).
  Proof.
    destruct (layout compress limit cfg inp w Hw Hdom) as [_ _ _ _ _ [(A & S)|(off & _ & E & S & _)] _ _].
    - left. auto.
    - right. rewrite E in Hx. destruct (xflush_shape compress uncompress compress_ok _ _ _ _ Hx) as (kvr & idr & descs & SH).
      exists off, kvr, idr, descs. auto.
  Qed.

  Lemma shape_facts off kvr idr descs :
    xshape compress (o_xattr w) xw (w_xattrb w) off kvr idr descs ->
    let KV := concat (map enc kvr) in
    let ID := concat (map enc idr) in
    let HDR := xattr_header (o_xattr w) (nlen (x_blocks xw)) in
    let LOCS := concat (map le64 (map (fun k => o_xattr w + lenN KV + startN compress idr k) (seq 0 (length idr)))) in
    w_xattrb w = (KV ++ ID) ++ HDR ++ LOCS /\ off = lenN (KV ++ ID) /\ lenN HDR = 16 /\
    lenN LOCS = 8 * lenN idr /\ 1 <= lenN idr /\ 2 <= lenN ID /\
    Forall blk_ok (kvr ++ idr).
  Proof.
    intro SH. cbv zeta.
    pose proof (xs_bytes _ _ _ _ _ _ _ _ SH) as Eb. pose proof (xs_off _ _ _ _ _ _ _ _ SH) as Eo.
    pose proof (xs_idn _ _ _ _ _ _ _ _ SH) as En. pose proof (xs_blocks _ _ _ _ _ _ _ _ SH) as Hb.
    assert (Hi : 1 <= lenN idr).
    { change (lenN idr) with (nlen idr). rewrite En.
      assert (1 <= nlen (x_blocks xw)) by (destruct (x_blocks xw); [congruence|unfold nlen; cbn [length]; lia]).
      unfold loc_count. change sizeof_sqfs_xattr_id_t with 16. change META with 8192.
      destruct (N.eqb_spec ((nlen (x_blocks xw) * 16) mod 8192) 0); lia. }
    split; [rewrite Eb, <- !app_assoc; reflexivity|]. split; [rewrite Eo, lenN_app; reflexivity|].
    split; [unfold xattr_header, le64, le32; rewrite !lenN_app, !lenN_le; reflexivity|].
    split; [rewrite lenN_concat_le64, lenN_map; unfold lenN; rewrite seq_length; reflexivity|].
    split; [exact Hi|]. split.
    - pose proof (xs_idok _ _ _ _ _ _ _ _ SH) as Fi. destruct idr as [|r rs]; [unfold lenN in Hi; cbn in Hi; lia|].
      cbn [map concat]. rewrite lenN_app.
      destruct (enc_header compress uncompress compress_ok r [] (Forall_inv Fi)) as [_ H2]. lia.
    - apply Forall_app. split; [exact (xs_kvok _ _ _ _ _ _ _ _ SH)|exact (xs_idok _ _ _ _ _ _ _ _ SH)].
  Qed.

  Lemma xattr_wf : part_wf (KXattr (s_xattr_start sf)) (o_xattr w) (w_xattrb w) = true.
  Proof.
    pose proof used64 as U.
    destruct (layout compress limit cfg inp w Hw Hdom) as [_ _ _ _ _ _ Lu _]. fold sf in Lu.
    destruct xattr_present_shape as [(A & S)|(off & kvr & idr & descs & S & SH)].
    - unfold part_wf. rewrite S, no_table_absent, A. reflexivity.
    - destruct (shape_facts off kvr idr descs SH) as (Eb & Eo & Lh & Ll & Li & L2 & Fk). cbv zeta in *.
      unfold part_wf. rewrite S.
      replace (present (o_xattr w + off)) with true.
      2: { symmetry. apply present_below. fold sf. rewrite Lu, Eb, !lenN_app, Lh, Ll. rewrite Eo, lenN_app. lia. }
      replace (o_xattr w + off - o_xattr w) with off by lia.
      rewrite takeS_eq. rewrite Eb at 2. rewrite takeN_app_exact by (symmetry; exact Eo).
      rewrite <- concat_app, <- map_app. rewrite (meta_wf_enc compress uncompress compress_ok _ Fk).
      rewrite Eb, !lenN_app, Lh, Ll. rewrite Eo, lenN_app.
      change sizeof_sqfs_xattr_id_table_t with 16.
      rewrite !andb_true_iff. repeat split; apply N.ltb_lt; lia.
  Qed.

  (* ---- sections_wf ---- *)
  Theorem sections_wf_written : sections_wf B = true.
  Proof.
    unfold sections_wf, B. rewrite (IPa image_sections_spec).
    rewrite (C14.SectionProofs.B_eq compress limit cfg inp w Hw).
    apply mk_secs_wf; [reflexivity|apply C14.SectionProofs.enc_sf_len|].
    destruct (layout compress limit cfg inp w Hw Hdom) as [Li Ld _ _ _ _ Lu _].
    fold sf img in Li, Ld, Lu.
    cbn [combine length seq map firstn concat]. rewrite !app_nil_r, !lenN_app, lenN_nil, !N.add_0_r.
    assert (E1 : sizeof_sqfs_super_t + (lenN (in_opts inp) + lenN (in_data inp)) = s_inode_start sf) by (unfold SBN in Li; lia).
    assert (E2 : sizeof_sqfs_super_t + (lenN (in_opts inp) + (lenN (in_data inp) + lenN (si_itbl img))) = s_dir_start sf) by lia.
    assert (E3 : sizeof_sqfs_super_t + (lenN (in_opts inp) + (lenN (in_data inp) + (lenN (si_itbl img) + lenN (si_dtbl img)))) = o_frag w)
      by (unfold o_frag; fold sf img; lia).
    assert (E4 : sizeof_sqfs_super_t + (lenN (in_opts inp) + (lenN (in_data inp) + (lenN (si_itbl img) + (lenN (si_dtbl img) + lenN (w_fragb w))))) = o_export w)
      by (unfold o_export; lia).
    assert (E5 : sizeof_sqfs_super_t + (lenN (in_opts inp) + (lenN (in_data inp) + (lenN (si_itbl img) + (lenN (si_dtbl img) + (lenN (w_fragb w) + lenN (w_exportb w)))))) = o_id w)
      by (unfold o_id, o_export; lia).
    assert (E6 : sizeof_sqfs_super_t + (lenN (in_opts inp) + (lenN (in_data inp) + (lenN (si_itbl img) + (lenN (si_dtbl img) + (lenN (w_fragb w) + (lenN (w_exportb w) + lenN (w_idb w))))))) = o_xattr w)
      by (unfold o_xattr, o_id, o_export; lia).
    unfold img, sf in *. rewrite E1, E2, E3, E4, E5, E6.
    repeat constructor; cbn [fst snd].
    - exact opts_wf.
    - exact itbl_wf.
    - exact dtbl_wf.
    - exact frag_wf.
    - exact export_wf.
    - exact id_wf.
    - exact xattr_wf.
  Qed.

  (* ---- the calls of the xattr section ---- *)
  Theorem xattr_chunks_faithful :
    (w_xattrb w = [] /\ ev_chunks (o_xattr w) (xattr_chunks (o_xattr w) (w_xattrb w) (s_xattr_start sf)) = []) \/
    (exists off kvr idr descs,
       xshape compress (o_xattr w) xw (w_xattrb w) off kvr idr descs /\
       xattr_chunks (o_xattr w) (w_xattrb w) (s_xattr_start sf) =
       map enc kvr ++ map enc idr ++
       [xattr_header (o_xattr w) (nlen (x_blocks xw));
        concat (map le64 (map (fun k => o_xattr w + lenN (concat (map enc kvr)) + startN compress idr k) (seq 0 (length idr))))]).
  Proof.
    destruct xattr_present_shape as [(A & S)|(off & kvr & idr & descs & S & SH)].
    - left. split; [exact A|]. rewrite A. unfold xattr_chunks. rewrite !takeS_eq, !dropS_eq.
      unfold takeN, dropN. rewrite !firstn_nil, !skipn_nil. cbn. reflexivity.
    - right. exists off, kvr, idr, descs. split; [exact SH|].
      destruct (shape_facts off kvr idr descs SH) as (Eb & Eo & Lh & Ll & Li & L2 & Fk). cbv zeta in *.
      unfold xattr_chunks. rewrite S. replace (o_xattr w + off - o_xattr w) with off by lia.
      rewrite !takeS_eq, !dropS_eq. rewrite Eb.
      rewrite takeN_app_exact by (symmetry; exact Eo).
      rewrite (dropN_app_exact off) by (symmetry; exact Eo).
      rewrite takeN_app_exact by exact Lh.
      replace (off + sizeof_sqfs_xattr_id_table_t) with (lenN ((concat (map enc kvr) ++ concat (map enc idr)) ++
                  xattr_header (o_xattr w) (nlen (x_blocks xw))))
        by (rewrite lenN_app, Lh, <- Eo; reflexivity).
      rewrite app_assoc, dropN_app_exact by reflexivity.
      rewrite <- concat_app, <- map_app.
      rewrite (meta_blocks_enc compress uncompress compress_ok _ Fk). rewrite map_app, <- app_assoc. reflexivity.
  Qed.
End SW.
