(* C14 — the composed packer ImgE2E.PackAll.pack_all (gensquashfs after option parsing: adds, post-processing, the
   xattr writer, the block processor, sqfs_writer_finish, with the xattr section = what ImgXattr.FlushModel.xflush
   appends) at the granularity of the output system calls:

     sections_wf_on_packed_images_l   for every pack_all = PDone r (hypotheses of pack_all_reads_back: compressor
                                      contracts, e2e_okb) the sections recomputed from the BYTES of the image are
                                      well-formed and coarse_of_image recovers the section trace of the run
     pack_is_fine_write               the run is a run of the fine writer model (FineModel.fine_write) on the input the
                                      packer built; its call sequence is [pack_trace]
     pack_all_kill_safe_l             writer_kill_safe for it, with the calls of the xattr section identified as the
                                      flush's own: one write per key-value block, one per id block, the 16 byte
                                      header, the location list (a refinement of the one xattr event of w_trace) *)
From Coq Require Import List NArith ZArith Bool Lia.
From SqfsV Require Import Base.Bytes Gen.Constants C03.Common C03.MetaProofs.
From SqfsV Require C14.SuperModel C08.DedupModel.
From SqfsV Require Import C14.TraceModel C14.RefineModel C14.FineModel C14.FineProofs C14.SectionModel C14.SectionProofs
  C14.SectionWf.
From SqfsV Require Import C01.XattrModel Img.TreeModel Image.FinishModel Image.FinishProofs Image.ImageProofs.
From SqfsV Require C01.Res.
From SqfsV Require Import ImgData.GlueModel ImgXattr.FlushModel ImgXattr.KvRefine ImgXattr.FlushShape.
From SqfsV Require Import ImgE2E.PackAll ImgE2E.Hyps ImgE2E.Compose.
Import ListNotations.
Local Open Scope N_scope.

Section PF.
  Variable hashf : list N -> N.
  Variable dcompress : list N -> option (list N).
  Variable duncompress : list N -> nat -> option (list N).
  Hypothesis Hdcomp : forall b c, dcompress b = Some c ->
    (length c < length b)%nat /\ forall n, (length b <= n)%nat -> duncompress c n = Some b.
  Variable half : nat.
  Variable mcompress : list N -> cres.
  Variable muncompress : list N -> option (list N).
  Hypothesis Hmcomp : forall b c, mcompress b = CData c -> lenN c <= lenN b /\ muncompress c = Some b.
  Variable limit : N.
  Hypothesis Hlimit : limit <= 65535.
  Variable cfg : wcfg.
  Variable pi : pinput.
  Variable r : prun.
  Hypothesis Hrun : pack_all hashf dcompress duncompress half mcompress limit cfg pi = PDone r.
  Hypothesis Hok : e2e_okb half cfg pi r = true.

  Let w := r_w r.
  Let inp := r_inp r.

  Lemma Pw : write_image mcompress limit cfg inp = Res.Ok w.
  Proof. exact (image_written hashf dcompress duncompress half mcompress limit cfg pi r Hrun). Qed.

  Lemma Pdom : image_domain cfg inp = true.
  Proof. exact (image_dom hashf dcompress duncompress Hdcomp half mcompress muncompress Hmcomp limit Hlimit cfg pi r Hrun Hok). Qed.

  Lemma Pfit : image_fits w = true.
  Proof. exact (image_fit half cfg pi r Hok). Qed.

  Lemma Px : xflush mcompress (o_xattr w) (r_xw r) = Res.Ok (in_xattr inp).
  Proof. exact (flush_at_final_offset hashf dcompress duncompress half mcompress limit cfg pi r Hrun). Qed.

  Theorem sections_wf_on_packed_images_l :
    sections_wf (image_bytes w) = true /\
    coarse_of_image (PWrite 0 (SuperModel.encode (w_super0 w))) (image_bytes w) = Some (w_trace w).
  Proof.
    split.
    - exact (sections_wf_written mcompress muncompress Hmcomp limit Hlimit cfg inp w Pw Pdom Pfit (r_xw r) Px).
    - exact (coarse_of_image_spec mcompress muncompress Hmcomp limit Hlimit cfg inp w Pw Pdom Pfit).
  Qed.

  (* what the packer hands to the writer *)
  Definition pack_fin : finput :=
    mkFin (pi_opts pi) (pack_files_list pi (r_pp r)) (pi_sched pi) (in_tree (r_inp r)) (in_xattr (r_inp r)).

  (* the output calls of the run *)
  Definition pack_trace : list event :=
    fine_trace (pi_opts pi) (r_w r) (map conv_ev (DedupModel.p_evs (r_st r))).

  Lemma pack_is_fine_write :
    fine_write hashf dcompress duncompress false true half mcompress limit cfg pack_fin = FOk inp w pack_trace.
  Proof.
    destruct (pack_all_inv hashf dcompress duncompress half mcompress limit cfg pi r Hrun)
      as (s0 & w0 & Es & _ & _ & _ & Ep & _ & _ & Ei & Ew).
    cbv zeta in Ep, Ei. unfold fine_write. rewrite Es. cbv zeta. cbn [fi_opts fi_files fi_sched pack_fin].
    rewrite Ep.
    assert (Eo : in_opts (r_inp r) = pi_opts pi) by (rewrite Ei; reflexivity).
    assert (Ed : in_data (r_inp r) = data_of (length (SuperModel.encode s0 ++ pi_opts pi)) (r_st r)) by (rewrite Ei; reflexivity).
    assert (Ef : in_frags (r_inp r) = frag_table_of (r_st r)) by (rewrite Ei; reflexivity).
    assert (Einp : winput_of pack_fin (SuperModel.encode s0 ++ pi_opts pi) (r_st r) = r_inp r).
    { unfold winput_of, pack_fin. cbn [fi_opts fi_tree fi_xattr]. clear Ei Ew.
      destruct (r_inp r) as [o d f t x]. cbn [in_opts in_data in_frags in_tree in_xattr] in *. subst o d f. reflexivity. }
    rewrite Einp, Ew. reflexivity.
  Qed.

  (* the calls of the xattr section are the flush's own calls *)
  Definition xattr_calls_of_flush : Prop :=
    (w_xattrb w = [] /\
     ev_chunks (o_xattr w) (xattr_chunks (o_xattr w) (w_xattrb w) (SuperModel.s_xattr_start (w_super w))) = []) \/
    (exists off kvr idr descs,
       xshape mcompress (o_xattr w) (r_xw r) (w_xattrb w) off kvr idr descs /\
       xattr_chunks (o_xattr w) (w_xattrb w) (SuperModel.s_xattr_start (w_super w)) =
       map (enc mcompress) kvr ++ map (enc mcompress) idr ++
       [xattr_header (o_xattr w) (Res.nlen (x_blocks (r_xw r)));
        concat (map le64 (map (fun k => o_xattr w + lenN (concat (map (enc mcompress) kvr)) + startN mcompress idr k)
                              (seq 0 (length idr))))]).

  Theorem pack_all_kill_safe_l :
    xattr_calls_of_flush /\
    trace_refines pack_trace (w_trace w) /\ trace_ok pack_trace /\ apply pack_trace = image_bytes w /\
    forall k, SuperModel.accepts (apply (firstn k pack_trace)) = false \/
              image_of (apply (firstn k pack_trace)) = image_of (image_bytes w).
  Proof.
    split; [exact (xattr_chunks_faithful mcompress muncompress Hmcomp limit Hlimit cfg inp w Pw Pdom (r_xw r) Px)|].
    destruct (writer_fine_trace_ok_l hashf dcompress duncompress false true half mcompress muncompress Hmcomp limit Hlimit
                cfg pack_fin inp w pack_trace pack_is_fine_write Pdom Pfit) as (R & T & A & _).
    split; [exact R|]. split; [exact T|]. split; [exact A|].
    exact (writer_kill_safe_l hashf dcompress duncompress false true half mcompress muncompress Hmcomp limit Hlimit
             cfg pack_fin inp w pack_trace pack_is_fine_write Pdom Pfit).
  Qed.
End PF.
