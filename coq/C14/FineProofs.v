(* C14 — the fine (system call level) trace of the composed writer model refines the section level trace of
   Image.FinishModel; hence it has the promised shape and every one of its prefixes is refused or complete. *)
From Coq Require Import List NArith ZArith Bool Lia ZifyBool ZifyNat ZifyN.
From SqfsV Require Import Base.Bytes Gen.Constants C03.Common C03.ListN C03.MetaModel C03.MetaProofs C03.TableModel
  C03.TableProofs.
From SqfsV Require C14.SuperModel C14.SuperProofs C08.DedupModel.
From SqfsV Require Import C14.TraceModel C14.TraceProofs C14.RefineModel C14.RefineProofs C14.FineModel C14.FineData.
From SqfsV Require Import C01.Res Img.TreeModel Image.FinishModel Image.FinishProofs Image.ImageProofs.
Import ListNotations.
Local Open Scope N_scope.

(* ---------- cutting a metadata area into its blocks ---------- *)

Lemma meta_chunks_concat : forall fuel b, concat (meta_chunks fuel b) = b.
Proof.
  induction fuel as [|f IH]; intros b; destruct b as [|x b]; cbn [meta_chunks concat]; try reflexivity.
  - rewrite app_nil_r. reflexivity.
  - rewrite IH. apply takeN_dropN.
Qed.

Lemma meta_chunks_step f b : b <> [] ->
  meta_chunks (S f) b = takeN (rd16 b mod META_FLAG + 2) b :: meta_chunks f (dropN (rd16 b mod META_FLAG + 2) b).
Proof. destruct b; [congruence|reflexivity]. Qed.

Lemma meta_blocks_concat b : concat (meta_blocks b) = b.
Proof. apply meta_chunks_concat. Qed.

Lemma takeS_eq n l : takeS n l = takeN n l.
Proof.
  unfold takeS. destruct (lenN l <=? n) eqn:E; [|reflexivity]. apply N.leb_le in E. symmetry. apply takeN_all. exact E.
Qed.

Lemma dropS_eq n l : dropS n l = dropN n l.
Proof.
  unfold dropS. destruct (lenN l <=? n) eqn:E; [|reflexivity]. apply N.leb_le in E. symmetry.
  unfold dropN. apply skipn_all2. unfold lenN in E. lia.
Qed.

Lemma table_chunks_concat size0 bytes start : concat (table_chunks size0 bytes start) = bytes.
Proof.
  unfold table_chunks. rewrite takeS_eq, dropS_eq. rewrite concat_app, meta_blocks_concat. cbn [concat]. rewrite app_nil_r. apply takeN_dropN.
Qed.

Lemma xattr_chunks_concat size0 xb start : concat (xattr_chunks size0 xb start) = xb.
Proof.
  unfold xattr_chunks. rewrite !takeS_eq, !dropS_eq. rewrite concat_app, meta_blocks_concat. cbn [concat]. rewrite app_nil_r.
  set (off := start - size0).
  transitivity (takeN off xb ++ dropN off xb); [|apply takeN_dropN]. f_equal.
  transitivity (takeN sizeof_sqfs_xattr_id_table_t (dropN off xb) ++ dropN sizeof_sqfs_xattr_id_table_t (dropN off xb));
    [|apply takeN_dropN]. f_equal.
  rewrite dropN_dropN. f_equal. lia.
Qed.

(* fidelity: on an area the meta writer produced, the pieces are exactly its blocks (header ++ stored bytes), i.e.
   the arguments of the successive write_block calls *)
Section Blocks.
  Variable compress : list N -> cres.
  Variable uncompress : list N -> option (list N).
  Hypothesis compress_ok :
    forall b c, compress b = CData c -> lenN c <= lenN b /\ uncompress c = Some b.

  Notation enc := (enc compress).

  Lemma enc_header r rest : blk_ok r ->
    rd16 (enc r ++ rest) mod META_FLAG + 2 = lenN (enc r) /\ 2 <= lenN (enc r).
  Proof.
    intros [Hp Hm]. pose proof MB_small as HS. pose proof FLAG_val as HF.
    destruct (enc_cases compress uncompress compress_ok r (conj Hp Hm)) as [[_ (c & _ & _ & E & L & _)]|[_ E]];
      rewrite E, <- app_assoc.
    - rewrite rd16_le16_app by lia. rewrite N.mod_small by lia.
      rewrite lenN_app. unfold le16. rewrite lenN_le. lia.
    - rewrite rd16_le16_app by lia.
      replace ((lenN r + META_FLAG) mod META_FLAG) with (lenN r) by (rewrite HF in *; lia).
      rewrite lenN_app. unfold le16. rewrite lenN_le. lia.
  Qed.

  Lemma meta_chunks_enc : forall raws fuel, Forall blk_ok raws -> (length raws <= fuel)%nat ->
    meta_chunks fuel (concat (map enc raws)) = map enc raws.
  Proof.
    induction raws as [|r raws IH]; intros fuel F L.
    - destruct fuel; reflexivity.
    - inversion F as [|? ? Hr Fr]; subst. cbn [map concat].
      destruct (enc_header r (concat (map enc raws)) Hr) as [Hh H2].
      destruct fuel as [|fuel]; [cbn [length] in L; lia|].
      rewrite meta_chunks_step by (intro Ex; apply (f_equal (@lenN N)) in Ex; rewrite lenN_app, lenN_nil in Ex; lia).
      rewrite Hh.
      rewrite takeN_app_exact by reflexivity. rewrite dropN_app_exact by reflexivity.
      f_equal. apply IH; [exact Fr|cbn [length] in L; lia].
  Qed.

  Lemma concat_enc_len raws : Forall blk_ok raws -> (length raws <= length (concat (map enc raws)))%nat.
  Proof.
    induction raws as [|r raws IH]; intro F; [cbn; lia|]. inversion F as [|? ? Hr Fr]; subst.
    cbn [map concat length]. rewrite app_length. specialize (IH Fr).
    destruct (enc_header r [] Hr) as [_ H2]. unfold lenN in H2. lia.
  Qed.

  (* the blocks of a metadata area, as the model cuts it = the blocks the meta writer flushed *)
  Lemma meta_blocks_enc raws : Forall blk_ok raws -> meta_blocks (concat (map enc raws)) = map enc raws.
  Proof. intro F. apply meta_chunks_enc; [exact F|apply concat_enc_len; exact F]. Qed.

  (* sqfs_write_table: the blocks, then the location list as one piece *)
  Lemma table_chunks_faithful size0 data bytes start :
    write_table compress size0 data = Common.Ok (bytes, start) ->
    exists chunks, concat chunks = data /\
      table_chunks size0 bytes start = map enc chunks ++ [concat (map le64 (table_locs compress size0 chunks))].
  Proof.
    intro H. destruct (write_table_ok_l compress uncompress compress_ok _ _ _ _ H)
      as (chunks & C & Fk & _ & _ & B & S & _).
    exists chunks. split; [exact C|]. unfold table_chunks. rewrite takeS_eq, dropS_eq. rewrite S, B.
    replace (size0 + lenN (concat (map enc chunks)) - size0) with (lenN (concat (map enc chunks))) by lia.
    rewrite takeN_app_exact by reflexivity. rewrite dropN_app_exact by reflexivity.
    rewrite meta_blocks_enc by exact Fk. reflexivity.
  Qed.
End Blocks.

(* ---------- refinement of the section trace ---------- *)

Lemma sec_chain lo F off d fseg frest crest :
  off = N.of_nat (length F) ->
  refines_from lo F fseg (ev_one off d) ->
  refines_from lo (F ++ d) frest crest ->
  refines_from lo F (fseg ++ frest) (ev_one off d ++ crest).
Proof.
  intros E R1 R2. apply refines_app; [exact R1|]. rewrite (apply_ev_one F off d E). exact R2.
Qed.

Lemma sec_chunks lo F off chunks d frest crest :
  off = N.of_nat (length F) -> lo <= off -> concat chunks = d ->
  refines_from lo (F ++ d) frest crest ->
  refines_from lo F (ev_chunks off chunks ++ frest) (ev_one off d ++ crest).
Proof.
  intros E L C R. apply sec_chain; [exact E| |exact R]. rewrite <- C. apply chunks_refine; assumption.
Qed.

Section FP.
  Variable compress : list N -> cres.
  Variable uncompress : list N -> option (list N).
  Hypothesis compress_ok :
    forall b c, compress b = CData c -> lenN c <= lenN b /\ uncompress c = Some b.
  Variable limit : N.
  Hypothesis limit_ok : limit <= 65535.
  Variable cfg : wcfg.
  Variable inp : winput.
  Variable w : wimage.
  Hypothesis Hw : write_image compress limit cfg inp = Ok w.
  Hypothesis Hdom : image_domain cfg inp = true.
  Hypothesis Hfit : image_fits w = true.

  Let sf := w_super w.
  Let s0 := w_super0 w.
  Let img := w_img w.
  Let opts := in_opts inp.
  Let data := in_data inp.
  Let itbl := si_itbl img.
  Let dtbl := si_dtbl img.
  Let file0 := SuperModel.encode s0 ++ opts.

  Lemma body_events_ok : forallb body_ok (body_events inp w) = true.
  Proof.
    destruct (layout compress limit cfg inp w Hw Hdom) as [Li Ld _ _ _ _ _ _].
    unfold body_events. rewrite !forallb_app.
    rewrite !ev_write_body; try reflexivity; unfold o_xattr, o_id, o_export, o_frag, SBN in *; lia.
  Qed.

  Lemma enc0_length : N.of_nat (length (SuperModel.encode s0)) = sizeof_sqfs_super_t.
  Proof. rewrite SuperProofs.encode_length. reflexivity. Qed.

  (* the calls of the data phase: behind the super block, and they append [data] to encode s0 ++ opts *)
  Variable data_evs : list event.
  Hypothesis data_keeps : forallb (keeps sizeof_sqfs_super_t) data_evs = true.
  Hypothesis data_apply : apply_from file0 data_evs = file0 ++ data.

  Theorem fine_refines_l : trace_refines (fine_trace opts w data_evs) (w_trace w).
  Proof.
    destruct (layout compress limit cfg inp w Hw Hdom) as [Li Ld _ _ _ _ Lu _].
    fold sf opts data img in Li, Ld, Lu. fold itbl in Ld.
    pose proof enc0_length as L0.
    exists (PWrite 0 (SuperModel.encode s0)), (body_events inp w), (SuperModel.encode sf),
           (ev_write (s_bytes_used sf) (FinishModel.zeros (w_pad w))),
           (ev_one sizeof_sqfs_super_t opts ++ data_evs ++
            ev_chunks (s_inode_start sf) (meta_blocks itbl) ++
            ev_chunks (s_dir_start sf) (meta_blocks dtbl) ++
            ev_chunks (o_frag w) (table_chunks (o_frag w) (w_fragb w) (s_frag_start sf)) ++
            ev_chunks (o_export w) (table_chunks (o_export w) (w_exportb w) (s_export_start sf)) ++
            ev_chunks (o_id w) (table_chunks (o_id w) (w_idb w) (s_id_start sf)) ++
            ev_chunks (o_xattr w) (xattr_chunks (o_xattr w) (w_xattrb w) (s_xattr_start sf)) ++ []),
           (ev_one (s_bytes_used sf) (FinishModel.zeros (w_pad w))).
    split; [apply (trace_eq compress limit cfg inp w Hw)|].
    split; [exact body_events_ok|].
    split.
    { rewrite app_nil_r. unfold fine_trace. fold sf s0 img itbl dtbl. cbn [app]. rewrite <- !app_assoc. cbn [app].
      reflexivity. }
    split.
    - unfold apply. rewrite apply_from_one, first_event.
      unfold body_events. fold sf img opts data itbl dtbl.
      change (@FinishModel.ev_write) with (@ev_one).
      rewrite <- (app_nil_r (ev_one (o_xattr w) (w_xattrb w))).
      unfold o_xattr, o_id, o_export, o_frag. fold sf img dtbl.
      (* opts *)
      apply sec_chain; [unfold SBN; lia|apply refines_refl|].
      (* data *)
      apply sec_chain; [rewrite app_length, Nat2N.inj_add; fold (lenN opts); unfold SBN; lia| |].
      { apply append_seg; [rewrite app_length, Nat2N.inj_add; fold (lenN opts); unfold SBN; lia|exact data_keeps|].
        exact data_apply. }
      (* inode table, directory table *)
      apply sec_chunks; [rewrite !app_length, !Nat2N.inj_add; fold (lenN opts) (lenN data); unfold SBN in *; lia
                        |unfold SBN in *; lia|apply meta_blocks_concat|].
      apply sec_chunks; [rewrite !app_length, !Nat2N.inj_add; fold (lenN opts) (lenN data) (lenN itbl); unfold SBN in *; lia
                        |unfold SBN in *; lia|apply meta_blocks_concat|].
      (* fragment, export, id table *)
      apply sec_chunks; [rewrite !app_length, !Nat2N.inj_add; fold (lenN opts) (lenN data) (lenN itbl) (lenN dtbl);
                         unfold SBN in *; lia
                        |unfold SBN in *; lia|apply table_chunks_concat|].
      apply sec_chunks; [rewrite !app_length, !Nat2N.inj_add;
                         fold (lenN opts) (lenN data) (lenN itbl) (lenN dtbl) (lenN (w_fragb w)); unfold SBN in *; lia
                        |unfold SBN in *; lia|apply table_chunks_concat|].
      apply sec_chunks; [rewrite !app_length, !Nat2N.inj_add;
                         fold (lenN opts) (lenN data) (lenN itbl) (lenN dtbl) (lenN (w_fragb w)) (lenN (w_exportb w));
                         unfold SBN in *; lia
                        |unfold SBN in *; lia|apply table_chunks_concat|].
      (* xattr section *)
      apply sec_chunks; [rewrite !app_length, !Nat2N.inj_add;
                         fold (lenN opts) (lenN data) (lenN itbl) (lenN dtbl) (lenN (w_fragb w)) (lenN (w_exportb w))
                              (lenN (w_idb w)); unfold SBN in *; lia
                        |unfold SBN in *; lia|apply xattr_chunks_concat|].
      constructor.
    - apply refines_refl.
  Qed.
End FP.

(* ---------- the composed writer ---------- *)

Lemma split_body_len l : (length (fst (split_body l)) <= length l)%nat.
Proof.
  induction l as [|e l IH]; cbn [split_body]; [cbn; lia|].
  destruct (body_ok e); [|cbn; lia]. destruct (split_body l) as [b t]. cbn [fst length] in *. lia.
Qed.

Section Top.
  Variable hashf : list N -> N.
  Variable dcompress : list N -> option (list N).
  Variable duncompress : list N -> nat -> option (list N).
  Variable hash_only bytecmp : bool.
  Variable half : nat.
  Variable compress : list N -> cres.
  Variable uncompress : list N -> option (list N).
  Hypothesis compress_ok :
    forall b c, compress b = CData c -> lenN c <= lenN b /\ uncompress c = Some b.
  Variable limit : N.
  Hypothesis limit_ok : limit <= 65535.

  Notation fine_write := (fine_write hashf dcompress duncompress hash_only bytecmp half compress limit).

  (* what a successful run of the composed model consists of *)
  Lemma fine_write_ok cfg fin inp w tr : fine_write cfg fin = FOk inp w tr ->
    exists st,
      let file0 := SuperModel.encode (w_super0 w) ++ fi_opts fin in
      DedupModel.pack hashf dcompress duncompress (N.to_nat (c_block_size cfg)) hash_only bytecmp half
                      file0 (fi_files fin) (fi_sched fin) = DedupModel.Ok st /\
      inp = winput_of fin file0 st /\
      write_image compress limit cfg inp = Ok w /\
      tr = fine_trace (fi_opts fin) w (map conv_ev (DedupModel.p_evs st)).
  Proof.
    unfold FineModel.fine_write. intro H.
    destruct (SuperModel.super_init (c_block_size cfg) (c_mtime cfg) (c_comp_id cfg)) as [s0|e|] eqn:E0; try discriminate.
    cbv zeta in H.
    match type of H with context [DedupModel.pack ?a ?b ?c ?d ?e ?f ?g ?h ?i ?j] =>
      destruct (DedupModel.pack a b c d e f g h i j) as [st| |] eqn:Ep end; try discriminate.
    match type of H with context [write_image ?a ?b ?c ?d] =>
      destruct (write_image a b c d) as [w'| | |] eqn:Ew end; try discriminate.
    injection H as <- <- <-.
    destruct (write_image_shape compress limit cfg _ _ Ew) as (dwr & f1 & f2 & I & _).
    rewrite E0 in I. injection I as I. rewrite <- I.
    exists st. cbv zeta. repeat split; assumption.
  Qed.

  Theorem writer_fine_trace_ok_l cfg fin inp w tr :
    fine_write cfg fin = FOk inp w tr -> image_domain cfg inp = true -> image_fits w = true ->
    trace_refines tr (w_trace w) /\ trace_ok tr /\ apply tr = image_bytes w /\
    committed tr = committed (w_trace w).
  Proof.
    intros H Hd Hf. destruct (fine_write_ok _ _ _ _ _ H) as (st & Ep & Ei & Ew & Et). cbv zeta in Ep, Ei.
    set (file0 := SuperModel.encode (w_super0 w) ++ fi_opts fin) in *.
    destruct (pack_io _ _ _ _ _ _ _ _ _ _ _ Ep) as (A & K & S). cbv zeta in A, K.
    assert (Eo : in_opts inp = fi_opts fin) by (rewrite Ei; reflexivity).
    assert (Ed : in_data inp = skipn (length file0) (DedupModel.w_file (DedupModel.p_wr st))) by (rewrite Ei; reflexivity).
    assert (R : trace_refines tr (w_trace w)).
    { rewrite Et, <- Eo.
      apply (fine_refines_l compress uncompress compress_ok limit limit_ok cfg inp w Ew Hd).
      - eapply forallb_keeps_mono; [|exact K]. unfold file0. rewrite app_length, SuperProofs.encode_length.
        change sizeof_sqfs_super_t with (N.of_nat SuperModel.SB). lia.
      - rewrite Eo. fold file0. unfold evs_of in A. rewrite A, Ed. exact S. }
    pose proof (trace_ok_l compress uncompress compress_ok limit limit_ok cfg inp w Ew Hd Hf (c_devblk cfg) eq_refl) as TO.
    pose proof (trace_applies_l compress uncompress compress_ok limit limit_ok cfg inp w Ew Hd (c_devblk cfg) eq_refl) as TA.
    destruct (refine_shape tr (w_trace w) TO R) as (T1 & T2 & T3).
    split; [exact R|]. split; [exact T1|]. split; [rewrite T2; exact TA|exact T3].
  Qed.

  (* C14 on the composed model, for all inputs and all kill points (between any two system calls) *)
  Theorem writer_kill_safe_l cfg fin inp w tr :
    fine_write cfg fin = FOk inp w tr -> image_domain cfg inp = true -> image_fits w = true ->
    forall k, SuperModel.accepts (apply (firstn k tr)) = false \/
              image_of (apply (firstn k tr)) = image_of (image_bytes w).
  Proof.
    intros H Hd Hf k. destruct (writer_fine_trace_ok_l _ _ _ _ _ H Hd Hf) as (_ & T & A & _).
    rewrite <- A. apply crash_safe_l. exact T.
  Qed.

End Top.

Section Commit.
  Variable compress : list N -> cres.
  Variable uncompress : list N -> option (list N).
  Hypothesis compress_ok :
    forall b c, compress b = CData c -> lenN c <= lenN b /\ uncompress c = Some b.
  Variable limit : N.
  Hypothesis limit_ok : limit <= 65535.

  (* where the commit is, and what is in the file then: derived from the writer model, not assumed of the trace *)
  Theorem writer_commit_facts_l cfg inp w :
    write_image compress limit cfg inp = Ok w -> image_domain cfg inp = true -> image_fits w = true ->
    let F := committed (w_trace w) in
    SuperModel.decode F = w_super w /\
    refs_in_file (w_super w) = true /\
    sizeof_sqfs_super_t <= SuperModel.s_bytes_used (w_super w) <= N.of_nat (length F) /\
    firstn (N.to_nat (SuperModel.s_bytes_used (w_super w))) F =
    firstn (N.to_nat (SuperModel.s_bytes_used (w_super w))) (image_bytes w).
  Proof.
    intros Ew Hd Hf.
    pose proof (trace_ok_l compress uncompress compress_ok limit limit_ok cfg inp w Ew Hd Hf (c_devblk cfg) eq_refl) as TO.
    pose proof (trace_applies_l compress uncompress compress_ok limit limit_ok cfg inp w Ew Hd (c_devblk cfg) eq_refl) as TA.
    pose proof (after_commit_l _ TO) as AC. cbv zeta in AC. destruct AC as (B & _ & AK).
    pose proof (commit_refs_l _ TO) as CR.
    cbv zeta.
    assert (CI : (commit_index (w_trace w) < S (S (length (w_trace w))))%nat).
    { unfold commit_index. pose proof (split_body_len (tl (w_trace w))).
      assert (length (tl (w_trace w)) <= length (w_trace w))%nat by (destruct (w_trace w); cbn [tl length]; lia). lia. }
    destruct (AK _ CI) as [P D1]. rewrite (firstn_all2 (w_trace w)) in P, D1 by lia. rewrite TA in P, D1.
    assert (D : SuperModel.decode (committed (w_trace w)) = w_super w).
    { rewrite <- D1. unfold image_bytes. apply SuperProofs.super_rt_l.
      exact (super_range compress uncompress compress_ok limit limit_ok cfg inp w Ew Hd Hf). }
    rewrite D in *. split; [reflexivity|]. split; [exact CR|]. split; [exact B|]. symmetry. exact P.
  Qed.
End Commit.
