(* C14 — the output descriptor of lib/sqfs/src/io/file.c (sqfs_file_stdio_t: the native handle + the CACHED size that
   get_size() returns and at which every writer of the library appends), as a client of the POSIX file of TraceModel.v.
   Definitions only.  (Strengthening after seeded/C14-8: a truncate that only moves the cached size.)

     stdio_write_at(off, d):  while (size > 0) pwrite(...)   -- one successful call per write here, none for d = []
                              if (off + |d| >= file->size) file->size = off + |d|;
     stdio_truncate(n):       ftruncate(fd, n); file->size = n;
     stdio_get_size():        file->size
     stdio_destroy():         close(fd)                        -- no output call

   [Lazy] is the variant the seed introduces (and the class: any descriptor whose truncate does not reach the kernel
   before the next call): shrinking only lowers the cached size, the ftruncate happens when the descriptor is destroyed. *)
From Coq Require Import List NArith Bool.
From SqfsV Require Import Base.Bytes Gen.Constants C14.SuperModel C14.TraceModel.
Import ListNotations.
Local Open Scope N_scope.

Inductive fop : Type :=
| FWrite (off : N) (d : list N)      (* file->write_at(file, off, d, |d|) *)
| FTrunc (n : N).                    (* file->truncate(file, n) *)

Inductive fvariant : Type := Physical | Lazy.

(* the physical file (what a kill leaves behind) and the cached logical size *)
Record fdesc : Type := mkFd { fd_file : list N; fd_size : N }.
Definition fd0 : fdesc := mkFd [] 0.     (* O_TRUNC / O_EXCL: empty file, sqfs_native_file_get_size = 0 *)

Definition flen (l : list N) : N := N.of_nat (length l).

Definition fd_write (st : fdesc) (off : N) (d : list N) : fdesc * list event :=
  let e := off + flen d in
  (mkFd (pwrite (N.to_nat off) d (fd_file st)) (if fd_size st <=? e then e else fd_size st),
   match d with [] => [] | _ => [PWrite off d] end).

Definition fd_trunc (v : fvariant) (st : fdesc) (n : N) : fdesc * list event :=
  match v with
  | Physical => (mkFd (truncate (N.to_nat n) (fd_file st)) n, [Truncate n])
  | Lazy => if n <=? fd_size st then (mkFd (fd_file st) n, [])
            else (mkFd (truncate (N.to_nat n) (fd_file st)) n, [Truncate n])
  end.

Definition fd_step (v : fvariant) (st : fdesc) (op : fop) : fdesc * list event :=
  match op with
  | FWrite off d => fd_write st off d
  | FTrunc n => fd_trunc v st n
  end.

(* the descriptor after the calls, and the output system calls it issued *)
Fixpoint fd_run (v : fvariant) (st : fdesc) (ops : list fop) : fdesc * list event :=
  match ops with
  | [] => (st, [])
  | op :: r => let (st1, e1) := fd_step v st op in
               let (st2, e2) := fd_run v st1 r in (st2, e1 ++ e2)
  end.

(* sqfs_drop(file): what the descriptor still does to the file when the run completes *)
Definition fd_close (v : fvariant) (st : fdesc) : list event :=
  match v with Physical => [] | Lazy => [Truncate (fd_size st)] end.

(* a write of no bytes issues no call but moves the cached size to its offset if that lies behind it (the `if` after
   the empty loop): the only way the code as it is can make the two lengths differ.  No caller does that (every
   write_at of the library is at get_size() or at 0 / 96 of a file that has those bytes); the theorem excludes it. *)
Definition fop_ok (st : fdesc) (op : fop) : bool :=
  match op with
  | FWrite off [] => off <=? fd_size st
  | _ => true
  end.
Fixpoint fops_ok (v : fvariant) (st : fdesc) (ops : list fop) : bool :=
  match ops with
  | [] => true
  | op :: r => fop_ok st op && fops_ok v (fst (fd_step v st op)) r
  end.

(* logical = physical *)
Definition fd_inv (st : fdesc) : Prop := fd_size st = flen (fd_file st).

(* a tail of calls that only append: each write starts exactly at the end of the file as it is then *)
Fixpoint appendsb (f : list N) (tr : list event) : bool :=
  match tr with
  | [] => true
  | PWrite off d :: r => (off =? flen f) && appendsb (apply_ev f (PWrite off d)) r
  | Truncate _ :: _ => false
  end.

