(* C14 — the output file as a byte list, the packer's output system calls as a trace, and the
   shape of the trace the writer promises (lib/common/src/writer/init.c, finish.c; block_writer.c,
   meta_writer.c, write_table.c, compressor.c write_options, xattr_writer_flush.c through
   io/file.c stdio_write_at / stdio_truncate).  Definitions only. *)
From Coq Require Import List NArith ZArith Bool.
From SqfsV Require Import Base.Bytes Gen.Constants C14.SuperModel.
Import ListNotations.
Local Open Scope N_scope.

(* one output system call that succeeded: pwrite(fd, data, |data|, off) = |data| (the bytes the
   kernel took), ftruncate(fd, len) = 0 *)
Inductive event : Type :=
| PWrite (off : N) (data : list N)
| Truncate (len : N).

Definition zeros (n : nat) : list N := repeat 0 n.
Definition pad_to (n : nat) (f : list N) : list N := f ++ zeros (n - length f).

(* POSIX: a write beyond end of file leaves a gap that reads as zeros; a write of no bytes changes nothing *)
Definition pwrite (off : nat) (d f : list N) : list N :=
  match d with
  | [] => f
  | _ => firstn off (pad_to off f) ++ d ++ skipn (off + length d) f
  end.

(* POSIX ftruncate: cut, or extend with zeros *)
Definition truncate (n : nat) (f : list N) : list N := firstn n (pad_to n f).

Definition apply_ev (f : list N) (e : event) : list N :=
  match e with
  | PWrite off d => pwrite (N.to_nat off) d f
  | Truncate n => truncate (N.to_nat n) f
  end.

(* the file a process leaves behind: opened O_TRUNC / O_EXCL (io/unix.c), i.e. empty, then the calls *)
Definition apply_from (f : list N) (tr : list event) : list N := fold_left apply_ev tr f.
Definition apply (tr : list event) : list N := apply_from [] tr.

(* file size without building the file *)
Definition size_ev (sz : N) (e : event) : N :=
  match e with
  | PWrite off d => match d with [] => sz | _ => N.max sz (off + N.of_nat (length d)) end
  | Truncate n => n
  end.
Definition size_from (sz : N) (tr : list event) : N := fold_left size_ev tr sz.
Definition size_after (tr : list event) : N := size_from 0 tr.

(* an event that cannot change the first n bytes of a file that has at least n bytes *)
Definition keeps (n : N) (e : event) : bool :=
  match e with
  | PWrite off _ => n <=? off
  | Truncate m => n <=? m
  end.

(* between the two superblock writes: everything stays behind the superblock *)
Definition body_ok (e : event) : bool := keeps sizeof_sqfs_super_t e.

(* longest prefix of body events, and what follows it *)
Fixpoint split_body (tr : list event) : list event * list event :=
  match tr with
  | [] => ([], [])
  | e :: r => if body_ok e then (let (b, t) := split_body r in (e :: b, t)) else ([], tr)
  end.

(* 0-based position of the write that commits the image: the first event after the provisional
   superblock that touches the first 96 bytes *)
Definition commit_index (tr : list event) : nat := S (length (fst (split_body (tl tr)))).

Fixpoint list_eqb (a b : list N) : bool :=
  match a, b with
  | [], [] => true
  | x :: a', y :: b' => (x =? y) && list_eqb a' b'
  | _, _ => false
  end.

(* a table start of the committed superblock is absent (all ones) or lies inside the committed bytes *)
Definition ref_ok (bu x : N) : bool := (x =? NO_TABLE) || ((sizeof_sqfs_super_t <=? x) && (x <? bu)).
Definition refs_in_file (s : super) : bool :=
  let bu := s_bytes_used s in
  ref_ok bu (s_id_start s) && ref_ok bu (s_xattr_start s) && ref_ok bu (s_inode_start s) &&
  ref_ok bu (s_dir_start s) && ref_ok bu (s_frag_start s) && ref_ok bu (s_export_start s).

(* The promised shape, as a predicate:
     PWrite 0 (encode (super_init bs mtime comp))          provisional superblock, first call
     body: only offsets / lengths >= 96                     compressor options, data, metadata, tables
     PWrite 0 d1, |d1| = 96                                 the commit
        96 <= bytes_used of d1 <= file size at that moment, every table start inside [96, bytes_used)
     tail: only offsets / lengths >= bytes_used             padding to the device block size *)
Definition trace_ok (tr : list event) : Prop :=
  exists bs mtime comp s0 body d1 tail,
    super_init bs mtime comp = Ok s0 /\
    tr = PWrite 0 (encode s0) :: body ++ PWrite 0 d1 :: tail /\
    forallb body_ok body = true /\
    length d1 = SB /\
    sizeof_sqfs_super_t <= s_bytes_used (decode d1) <= size_after (PWrite 0 (encode s0) :: body ++ [PWrite 0 d1]) /\
    refs_in_file (decode d1) = true /\
    forallb (keeps (s_bytes_used (decode d1))) tail = true.

(* the same, executable: this is what the check evaluates on the logged trace of a real run *)
Definition trace_okb (tr : list event) : bool :=
  match tr with
  | PWrite 0 d0 :: rest =>
    let p := decode d0 in
    match super_init (s_block_size p) (s_mtime p) (s_comp_id p) with
    | Ok s0 =>
      list_eqb d0 (encode s0) &&
      (let (body, rest') := split_body rest in
       match rest' with
       | PWrite 0 d1 :: tail =>
         let fin := decode d1 in
         (length d1 =? SB)%nat &&
         (sizeof_sqfs_super_t <=? s_bytes_used fin) &&
         (s_bytes_used fin <=? size_after (PWrite 0 d0 :: body ++ [PWrite 0 d1])) &&
         refs_in_file fin &&
         forallb (keeps (s_bytes_used fin)) tail
       | _ => false
       end)
    | _ => false
    end
  | _ => false
  end.

(* the image a reader is entitled to look at: the first bytes_used bytes *)
Definition image_of (f : list N) : list N := firstn (N.to_nat (s_bytes_used (decode f))) f.
