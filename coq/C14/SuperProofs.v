(* C14 — proofs about the superblock model. *)
From Coq Require Import List NArith ZArith Bool Lia.
From SqfsV Require Import Base.Bytes Gen.Constants C14.SuperModel.
Import ListNotations.
Local Open Scope N_scope.

(* ---------- layout ---------- *)

Lemma enc_length fl : length (enc fl) = width fl.
Proof.
  induction fl as [|[k v] r IH]; simpl; [reflexivity|].
  rewrite app_length, le_length, IH. reflexivity.
Qed.

Lemma enc_app a b : enc (a ++ b) = enc a ++ enc b.
Proof.
  induction a as [|[k v] r IH]; simpl; [reflexivity|]. rewrite IH, app_assoc. reflexivity.
Qed.

Lemma skipn_exact {A} (a b : list A) n : length a = n -> skipn n (a ++ b) = b.
Proof.
  intros <-. rewrite skipn_app, skipn_all, Nat.sub_diag. reflexivity.
Qed.

(* the i-th field of an encoded field list is found at the sum of the widths before it *)
Lemma rd_enc_at : forall fl i k v rest,
  nth_error fl i = Some (k, v) ->
  rd k (skipn (width (firstn i fl)) (enc fl ++ rest)) = v mod 256 ^ N.of_nat k.
Proof.
  intros fl i k v rest H.
  destruct (nth_error_split fl i H) as (pre & post & -> & Hl).
  rewrite firstn_app, <- Hl, firstn_all, Nat.sub_diag. simpl firstn. rewrite app_nil_r.
  rewrite enc_app. simpl enc. rewrite <- !app_assoc.
  rewrite skipn_exact by apply enc_length.
  apply rd_le_mod.
Qed.

Lemma encode_length s : length (encode s) = SB.
Proof. unfold encode. rewrite enc_length. reflexivity. Qed.

(* decoding what was encoded gives the fields back, truncated to their widths.  Each [eq_refl]
   type-checks only because the offset from the header equals the sum of the widths of the fields
   the model puts before it: a change of the struct layout breaks this proof. *)
Lemma fld_enc i k v off s rest :
  nth_error (fields s) i = Some (k, v) ->
  N.to_nat off = width (firstn i (fields s)) ->
  fld k off (encode s ++ rest) = v mod 256 ^ N.of_nat k.
Proof.
  intros H1 H2. unfold fld, encode. rewrite H2. apply rd_enc_at. exact H1.
Qed.

Lemma decode_encode s rest : decode (encode s ++ rest) = trunc s.
Proof.
  unfold decode.
  rewrite (fld_enc 0 4 (s_magic s) off_sqfs_super_t_magic s rest eq_refl eq_refl).
  rewrite (fld_enc 1 4 (s_inode_count s) off_sqfs_super_t_inode_count s rest eq_refl eq_refl).
  rewrite (fld_enc 2 4 (s_mtime s) off_sqfs_super_t_modification_time s rest eq_refl eq_refl).
  rewrite (fld_enc 3 4 (s_block_size s) off_sqfs_super_t_block_size s rest eq_refl eq_refl).
  rewrite (fld_enc 4 4 (s_frag_count s) off_sqfs_super_t_fragment_entry_count s rest eq_refl eq_refl).
  rewrite (fld_enc 5 2 (s_comp_id s) off_sqfs_super_t_compression_id s rest eq_refl eq_refl).
  rewrite (fld_enc 6 2 (s_block_log s) off_sqfs_super_t_block_log s rest eq_refl eq_refl).
  rewrite (fld_enc 7 2 (s_flags s) off_sqfs_super_t_flags s rest eq_refl eq_refl).
  rewrite (fld_enc 8 2 (s_id_count s) off_sqfs_super_t_id_count s rest eq_refl eq_refl).
  rewrite (fld_enc 9 2 (s_vmaj s) off_sqfs_super_t_version_major s rest eq_refl eq_refl).
  rewrite (fld_enc 10 2 (s_vmin s) off_sqfs_super_t_version_minor s rest eq_refl eq_refl).
  rewrite (fld_enc 11 8 (s_root_ref s) off_sqfs_super_t_root_inode_ref s rest eq_refl eq_refl).
  rewrite (fld_enc 12 8 (s_bytes_used s) off_sqfs_super_t_bytes_used s rest eq_refl eq_refl).
  rewrite (fld_enc 13 8 (s_id_start s) off_sqfs_super_t_id_table_start s rest eq_refl eq_refl).
  rewrite (fld_enc 14 8 (s_xattr_start s) off_sqfs_super_t_xattr_id_table_start s rest eq_refl eq_refl).
  rewrite (fld_enc 15 8 (s_inode_start s) off_sqfs_super_t_inode_table_start s rest eq_refl eq_refl).
  rewrite (fld_enc 16 8 (s_dir_start s) off_sqfs_super_t_directory_table_start s rest eq_refl eq_refl).
  rewrite (fld_enc 17 8 (s_frag_start s) off_sqfs_super_t_fragment_table_start s rest eq_refl eq_refl).
  rewrite (fld_enc 18 8 (s_export_start s) off_sqfs_super_t_export_table_start s rest eq_refl eq_refl).
  reflexivity.
Qed.

Lemma trunc_in_range s : super_in_range s -> trunc s = s.
Proof.
  unfold super_in_range, trunc. intros H. destruct s; simpl in *.
  repeat match goal with H : _ /\ _ |- _ => destruct H end.
  repeat rewrite N.mod_small by assumption. reflexivity.
Qed.

Lemma super_rt_l s rest : super_in_range s -> decode (encode s ++ rest) = s.
Proof. intros H. rewrite decode_encode. apply trunc_in_range, H. Qed.

(* ---------- decode / accepts look at the first 96 bytes only ---------- *)

Lemma rd_firstn k : forall j l, (k <= j)%nat -> rd k (firstn j l) = rd k l.
Proof.
  induction k as [|k IH]; intros j l H; [reflexivity|].
  destruct j as [|j]; [lia|]. destruct l as [|b r]; [reflexivity|].
  cbn [firstn rd]. rewrite IH by lia. reflexivity.
Qed.

Lemma fld_firstn k off n f : (N.to_nat off + k <= n)%nat -> fld k off (firstn n f) = fld k off f.
Proof.
  intros H. unfold fld. rewrite skipn_firstn_comm. apply rd_firstn. lia.
Qed.

Lemma decode_firstn f : decode (firstn SB f) = decode f.
Proof.
  unfold decode. rewrite !fld_firstn by (vm_compute; lia). reflexivity.
Qed.

Lemma decode_prefix a r : length a = SB -> decode (a ++ r) = decode a.
Proof.
  intros H. rewrite <- (decode_firstn (a ++ r)).
  rewrite <- H, firstn_app, Nat.sub_diag, firstn_O, app_nil_r, firstn_all. reflexivity.
Qed.

Lemma short_firstn (f : list N) :
  (N.of_nat (length (firstn SB f)) <? sizeof_sqfs_super_t) = (N.of_nat (length f) <? sizeof_sqfs_super_t).
Proof.
  rewrite firstn_length.
  destruct (Nat.le_ge_cases SB (length f)) as [H|H].
  - rewrite Nat.min_l by exact H.
    assert (N.of_nat SB = sizeof_sqfs_super_t) by (unfold SB; apply N2Nat.id).
    transitivity false; [|symmetry]; apply N.ltb_ge; lia.
  - rewrite Nat.min_r by exact H. reflexivity.
Qed.

Lemma super_read_firstn f : super_read (firstn SB f) = super_read f.
Proof. unfold super_read. rewrite short_firstn, decode_firstn. reflexivity. Qed.

Lemma accepts_firstn_l f : accepts (firstn SB f) = accepts f.
Proof. unfold accepts. rewrite super_read_firstn. reflexivity. Qed.

Lemma open_verdict_firstn_l f : open_verdict (firstn SB f) = open_verdict f.
Proof. unfold open_verdict. rewrite super_read_firstn. reflexivity. Qed.

Lemma accepts_short f : (length f < SB)%nat -> accepts f = false.
Proof.
  intros H. unfold accepts, super_read.
  assert (N.of_nat SB = sizeof_sqfs_super_t) by (unfold SB; apply N2Nat.id).
  assert (E : (N.of_nat (length f) <? sizeof_sqfs_super_t) = true) by (apply N.ltb_lt; lia).
  rewrite E. reflexivity.
Qed.

(* ---------- what super_read returns was checked ---------- *)

Lemma super_read_ok f s : super_read f = Ok s ->
  s = decode f /\ (SB <= length f)%nat /\ s_id_count s <> 0 /\ s_magic s = c_SQFS_MAGIC /\
  s_block_size s = 2 ^ s_block_log s /\ 12 <= s_block_log s <= 20 /\
  c_SQFS_COMP_MIN <= s_comp_id s <= c_SQFS_COMP_MAX.
Proof.
  unfold super_read.
  destruct (N.of_nat (length f) <? sizeof_sqfs_super_t) eqn:E0; [discriminate|].
  destruct (negb (s_magic (decode f) =? c_SQFS_MAGIC)) eqn:E1; [discriminate|].
  destruct (negb (s_vmaj (decode f) =? c_SQFS_VERSION_MAJOR) || negb (s_vmin (decode f) =? c_SQFS_VERSION_MINOR)) eqn:E2; [discriminate|].
  destruct (negb (N.land (s_block_size (decode f) - 1) (s_block_size (decode f)) =? 0)) eqn:E3; [discriminate|].
  destruct (s_block_size (decode f) <? c_SQFS_MIN_BLOCK_SIZE) eqn:E4; [discriminate|].
  destruct (c_SQFS_MAX_BLOCK_SIZE <? s_block_size (decode f)) eqn:E5; [discriminate|].
  destruct ((s_block_log (decode f) <? 12) || (20 <? s_block_log (decode f))) eqn:E6; [discriminate|].
  destruct (negb (s_block_size (decode f) =? 2 ^ s_block_log (decode f))) eqn:E7; [discriminate|].
  destruct ((s_comp_id (decode f) <? c_SQFS_COMP_MIN) || (c_SQFS_COMP_MAX <? s_comp_id (decode f))) eqn:E8; [discriminate|].
  destruct (s_id_count (decode f) =? 0) eqn:E9; [discriminate|].
  intros H. inversion H; subst s. clear H.
  apply N.ltb_ge in E0. apply negb_false_iff, N.eqb_eq in E1. apply negb_false_iff, N.eqb_eq in E7.
  apply orb_false_iff in E6. destruct E6 as [E6a E6b]. apply N.ltb_ge in E6a, E6b.
  apply orb_false_iff in E8. destruct E8 as [E8a E8b]. apply N.ltb_ge in E8a, E8b.
  apply N.eqb_neq in E9.
  assert (N.of_nat SB = sizeof_sqfs_super_t) by (unfold SB; apply N2Nat.id).
  repeat split; try assumption; lia.
Qed.

Lemma accepts_true f : accepts f = true ->
  (SB <= length f)%nat /\ s_id_count (decode f) <> 0 /\ s_id_start (decode f) < s_bytes_used (decode f).
Proof.
  unfold accepts. destruct (super_read f) as [s| |] eqn:E; try discriminate.
  apply super_read_ok in E. destruct E as (-> & Hl & Hc & _).
  unfold id_table_guard, idstart_ok. intros H. apply andb_true_iff in H. destruct H as [_ H].
  apply N.ltb_lt in H. auto.
Qed.

(* a superblock whose id_count reads as 0 is refused, whatever else it says *)
Lemma idcount0_rejected f : s_id_count (decode f) = 0 -> accepts f = false.
Proof.
  intros H. destruct (accepts f) eqn:E; [|reflexivity].
  apply accepts_true in E. destruct E as (_ & E & _). contradiction.
Qed.

(* a superblock whose id table start is not below bytes_used is refused, whatever else it says *)
Lemma idstart_rejected f : s_bytes_used (decode f) <= s_id_start (decode f) -> accepts f = false.
Proof.
  intros H. destruct (accepts f) eqn:E; [|reflexivity].
  apply accepts_true in E. destruct E as (_ & _ & E). lia.
Qed.

(* ---------- sqfs_super_init ---------- *)

(* x & (x - 1) == 0 and x != 0: x is a power of two *)
Lemma land_pred_pow2 n : n <> 0 -> N.land n (n - 1) = 0 -> n = 2 ^ N.log2 n.
Proof.
  intros Hn H.
  destruct (N.log2_spec n) as [Hlo Hhi]; [lia|].
  destruct (N.eq_dec n (2 ^ N.log2 n)) as [|Hne]; [assumption|exfalso].
  assert (Hl : N.log2 (n - 1) = N.log2 n).
  { apply N.log2_unique; [lia|]. split; lia. }
  assert (Hb : N.testbit (N.land n (n - 1)) (N.log2 n) = true).
  { rewrite N.land_spec. rewrite N.bit_log2 by exact Hn.
    rewrite <- Hl. rewrite N.bit_log2; [reflexivity|]. lia. }
  rewrite H, N.bits_0 in Hb. discriminate.
Qed.

Lemma log2_loop_pow2 : forall k fuel acc, (k < fuel)%nat ->
  log2_loop fuel (2 ^ N.of_nat k) acc = Some (acc + N.of_nat k).
Proof.
  induction k as [|k IH]; intros fuel acc H.
  - destruct fuel; [lia|]. simpl. rewrite N.add_0_r. reflexivity.
  - destruct fuel as [|fuel]; [lia|]. cbn [log2_loop].
    rewrite Nat2N.inj_succ, N.pow_succ_r'.
    assert (Hp : 2 ^ N.of_nat k <> 0) by (apply N.pow_nonzero; discriminate).
    destruct (2 * 2 ^ N.of_nat k =? 1) eqn:E; [apply N.eqb_eq in E; lia|].
    replace (2 * 2 ^ N.of_nat k / 2) with (2 ^ N.of_nat k)
      by (rewrite N.mul_comm, N.div_mul by discriminate; reflexivity).
    rewrite IH by lia. f_equal. lia.
Qed.

Lemma super_init_ok bs mt c s : super_init bs mt c = Ok s ->
  s = mkSuper c_SQFS_MAGIC 0 (mt mod 2^32) bs 0 (c mod 2^16) (N.log2 bs) init_flags 0
              c_SQFS_VERSION_MAJOR c_SQFS_VERSION_MINOR 0 sizeof_sqfs_super_t
              NO_TABLE NO_TABLE NO_TABLE NO_TABLE NO_TABLE NO_TABLE /\
  bs = 2 ^ N.log2 bs /\ c_SQFS_MIN_BLOCK_SIZE <= bs <= c_SQFS_MAX_BLOCK_SIZE.
Proof.
  unfold super_init.
  destruct (negb (N.land bs (bs - 1) =? 0)) eqn:E1; [discriminate|].
  destruct (bs <? c_SQFS_MIN_BLOCK_SIZE) eqn:E2; [discriminate|].
  destruct (c_SQFS_MAX_BLOCK_SIZE <? bs) eqn:E3; [discriminate|].
  apply negb_false_iff, N.eqb_eq in E1. apply N.ltb_ge in E2, E3.
  assert (Hn : bs <> 0) by (unfold c_SQFS_MIN_BLOCK_SIZE in E2; lia).
  pose proof (land_pred_pow2 bs Hn E1) as Hp.
  assert (Hk : (N.to_nat (N.log2 bs) < 64)%nat).
  { assert (N.log2 bs <= N.log2 c_SQFS_MAX_BLOCK_SIZE) by (apply N.log2_le_mono; exact E3).
    assert (N.log2 c_SQFS_MAX_BLOCK_SIZE < 64) by (vm_compute; reflexivity). lia. }
  pose proof (log2_loop_pow2 (N.to_nat (N.log2 bs)) 64 0 Hk) as Hl.
  rewrite N2Nat.id, <- Hp in Hl. rewrite Hl. rewrite N.add_0_l.
  intros H. inversion H. auto.
Qed.

Lemma super_init_total_l bs mt c : super_init bs mt c <> OutOfFuel.
Proof.
  destruct (super_init bs mt c) eqn:E; try discriminate. exfalso.
  revert E. unfold super_init.
  destruct (negb (N.land bs (bs - 1) =? 0)) eqn:E1; [discriminate|].
  destruct (bs <? c_SQFS_MIN_BLOCK_SIZE) eqn:E2; [discriminate|].
  destruct (c_SQFS_MAX_BLOCK_SIZE <? bs) eqn:E3; [discriminate|].
  apply negb_false_iff, N.eqb_eq in E1. apply N.ltb_ge in E2, E3.
  assert (Hn : bs <> 0) by (unfold c_SQFS_MIN_BLOCK_SIZE in E2; lia).
  pose proof (land_pred_pow2 bs Hn E1) as Hp.
  assert (Hk : (N.to_nat (N.log2 bs) < 64)%nat).
  { assert (N.log2 bs <= N.log2 c_SQFS_MAX_BLOCK_SIZE) by (apply N.log2_le_mono; exact E3).
    assert (N.log2 c_SQFS_MAX_BLOCK_SIZE < 64) by (vm_compute; reflexivity). lia. }
  pose proof (log2_loop_pow2 (N.to_nat (N.log2 bs)) 64 0 Hk) as Hl.
  rewrite N2Nat.id, <- Hp in Hl. rewrite Hl. discriminate.
Qed.

Lemma super_init_in_range bs mt c s : super_init bs mt c = Ok s -> super_in_range s.
Proof.
  intros H. apply super_init_ok in H. destruct H as (-> & Hp & Hlo & Hhi).
  assert (N.log2 bs <= N.log2 c_SQFS_MAX_BLOCK_SIZE) by (apply N.log2_le_mono; exact Hhi).
  assert (N.log2 c_SQFS_MAX_BLOCK_SIZE = 20) by (vm_compute; reflexivity).
  unfold super_in_range; cbn [s_magic s_inode_count s_mtime s_block_size s_frag_count s_comp_id
    s_block_log s_flags s_id_count s_vmaj s_vmin s_root_ref s_bytes_used s_id_start s_xattr_start
    s_inode_start s_dir_start s_frag_start s_export_start].
  unfold c_SQFS_MAX_BLOCK_SIZE in Hhi.
  change (2^32) with 4294967296. change (2^16) with 65536. change (2^64) with 18446744073709551616.
  repeat split;
    first [ apply N.mod_lt; discriminate
          | lia
          | reflexivity ].
Qed.

(* the two locks on the provisional superblock *)
Lemma provisional_locks bs mt c s : super_init bs mt c = Ok s ->
  s_id_count s = 0 /\ s_bytes_used s <= s_id_start s /\ idcount_ok s = false /\ idstart_ok s = false.
Proof.
  intros H. apply super_init_ok in H. destruct H as (-> & _).
  cbn. repeat split; vm_compute; try reflexivity; discriminate.
Qed.

Lemma provisional_rejected_l bs mt c s rest :
  super_init bs mt c = Ok s -> accepts (encode s ++ rest) = false.
Proof.
  intros H. apply idcount0_rejected.
  rewrite super_rt_l by (eapply super_init_in_range; exact H).
  apply (provisional_locks _ _ _ _ H).
Qed.

(* even a reader that did not test id_count would refuse it: second lock *)
Lemma provisional_rejected_by_idstart bs mt c s rest :
  super_init bs mt c = Ok s ->
  s_bytes_used (decode (encode s ++ rest)) <= s_id_start (decode (encode s ++ rest)).
Proof.
  intros H. rewrite super_rt_l by (eapply super_init_in_range; exact H).
  apply (provisional_locks _ _ _ _ H).
Qed.

(* and it is the id_count test, not an accident of another field, that refuses it:
   sqfs_super_read gets through every earlier test when the compressor id is a valid one *)
Lemma provisional_super_read bs mt c s rest :
  super_init bs mt c = Ok s ->
  c_SQFS_COMP_MIN <= c <= c_SQFS_COMP_MAX ->
  super_read (encode s ++ rest) = Err c_SQFS_ERROR_CORRUPTED.
Proof.
  intros H Hc. pose proof (super_init_in_range _ _ _ _ H) as Hr.
  pose proof (super_init_ok _ _ _ _ H) as (Hs & Hp & Hlo & Hhi).
  unfold super_read.
  assert (El : (N.of_nat (length (encode s ++ rest)) <? sizeof_sqfs_super_t) = false).
  { apply N.ltb_ge. rewrite app_length, encode_length.
    assert (N.of_nat SB = sizeof_sqfs_super_t) by (unfold SB; apply N2Nat.id). lia. }
  rewrite El. rewrite super_rt_l by exact Hr.
  assert (Hlg : N.log2 c_SQFS_MIN_BLOCK_SIZE <= N.log2 bs <= N.log2 c_SQFS_MAX_BLOCK_SIZE)
    by (split; apply N.log2_le_mono; assumption).
  assert (N.log2 c_SQFS_MIN_BLOCK_SIZE = 12) by (vm_compute; reflexivity).
  assert (N.log2 c_SQFS_MAX_BLOCK_SIZE = 20) by (vm_compute; reflexivity).
  assert (Hcm : c mod 2^16 = c).
  { apply N.mod_small. unfold c_SQFS_COMP_MAX in Hc. change (2^16) with 65536. lia. }
  subst s. cbn [s_magic s_vmaj s_vmin s_block_size s_block_log s_comp_id s_id_count].
  rewrite !N.eqb_refl. cbn [negb orb].
  assert (E3 : N.land (bs - 1) bs = 0).
  { rewrite N.land_comm. revert H. unfold super_init.
    destruct (negb (N.land bs (bs - 1) =? 0)) eqn:E1; [discriminate|].
    intros _. apply negb_false_iff, N.eqb_eq in E1. exact E1. }
  rewrite E3. cbn [N.eqb negb].
  assert (E4 : (bs <? c_SQFS_MIN_BLOCK_SIZE) = false) by (apply N.ltb_ge; exact Hlo).
  assert (E5 : (c_SQFS_MAX_BLOCK_SIZE <? bs) = false) by (apply N.ltb_ge; exact Hhi).
  rewrite E4, E5.
  assert (E6 : (N.log2 bs <? 12) = false) by (apply N.ltb_ge; lia).
  assert (E7 : (20 <? N.log2 bs) = false) by (apply N.ltb_ge; lia).
  rewrite E6, E7. cbn [orb].
  assert (E8 : (bs =? 2 ^ N.log2 bs) = true) by (apply N.eqb_eq; exact Hp).
  rewrite E8. cbn [negb]. rewrite Hcm.
  assert (E9 : (c <? c_SQFS_COMP_MIN) = false) by (apply N.ltb_ge; lia).
  assert (E10 : (c_SQFS_COMP_MAX <? c) = false) by (apply N.ltb_ge; lia).
  rewrite E9, E10. reflexivity.
Qed.

(* ---------- the committed superblock does open ---------- *)

(* replace the fields sqfs_writer_finish fills in *)
Definition commit_fields (s0 : super) (inodes frags flags idc root bu ids xs is ds fs es : N) : super :=
  mkSuper (s_magic s0) inodes (s_mtime s0) (s_block_size s0) frags (s_comp_id s0) (s_block_log s0)
          flags idc (s_vmaj s0) (s_vmin s0) root bu ids xs is ds fs es.

Lemma committed_accepted_l bs mt c s0 inodes frags flags idc root bu ids xs is ds fs es rest :
  super_init bs mt c = Ok s0 ->
  c_SQFS_COMP_MIN <= c <= c_SQFS_COMP_MAX ->
  0 < idc < 2^16 -> ids < bu -> bu < 2^64 ->
  inodes < 2^32 -> frags < 2^32 -> flags < 2^16 -> root < 2^64 ->
  xs < 2^64 -> is < 2^64 -> ds < 2^64 -> fs < 2^64 -> es < 2^64 ->
  accepts (encode (commit_fields s0 inodes frags flags idc root bu ids xs is ds fs es) ++ rest) = true.
Proof.
  intros H Hc Hidc Hids Hbu Hi Hf Hfl Hr Hx His Hds Hfs Hes.
  pose proof (super_init_in_range _ _ _ _ H) as Hr0.
  pose proof (super_init_ok _ _ _ _ H) as (Hs & Hp & Hlo & Hhi).
  assert (Hrange : super_in_range (commit_fields s0 inodes frags flags idc root bu ids xs is ds fs es)).
  { unfold super_in_range, commit_fields in *. simpl.
    destruct Hr0 as (?&?&?&?&?&?&?&?&?&?&?&?&?&?&?&?&?&?&?). repeat split; try assumption; lia. }
  unfold accepts, super_read.
  assert (El : (N.of_nat (length (encode (commit_fields s0 inodes frags flags idc root bu ids xs is ds fs es) ++ rest)) <? sizeof_sqfs_super_t) = false).
  { apply N.ltb_ge. rewrite app_length, encode_length.
    assert (N.of_nat SB = sizeof_sqfs_super_t) by (unfold SB; apply N2Nat.id). lia. }
  rewrite El. rewrite super_rt_l by exact Hrange.
  assert (Hlg : N.log2 c_SQFS_MIN_BLOCK_SIZE <= N.log2 bs <= N.log2 c_SQFS_MAX_BLOCK_SIZE)
    by (split; apply N.log2_le_mono; assumption).
  assert (N.log2 c_SQFS_MIN_BLOCK_SIZE = 12) by (vm_compute; reflexivity).
  assert (N.log2 c_SQFS_MAX_BLOCK_SIZE = 20) by (vm_compute; reflexivity).
  assert (Hcm : c mod 2^16 = c).
  { apply N.mod_small. unfold c_SQFS_COMP_MAX in Hc. change (2^16) with 65536. lia. }
  subst s0. unfold commit_fields.
  cbn [s_magic s_vmaj s_vmin s_block_size s_block_log s_comp_id s_id_count s_mtime s_bytes_used s_id_start].
  rewrite !N.eqb_refl. cbn [negb orb].
  assert (E3 : N.land (bs - 1) bs = 0).
  { rewrite N.land_comm. revert H. unfold super_init.
    destruct (negb (N.land bs (bs - 1) =? 0)) eqn:E1; [discriminate|].
    intros _. apply negb_false_iff, N.eqb_eq in E1. exact E1. }
  rewrite E3. cbn [N.eqb negb].
  assert (E4 : (bs <? c_SQFS_MIN_BLOCK_SIZE) = false) by (apply N.ltb_ge; exact Hlo).
  assert (E5 : (c_SQFS_MAX_BLOCK_SIZE <? bs) = false) by (apply N.ltb_ge; exact Hhi).
  rewrite E4, E5.
  assert (E6 : (N.log2 bs <? 12) = false) by (apply N.ltb_ge; lia).
  assert (E7 : (20 <? N.log2 bs) = false) by (apply N.ltb_ge; lia).
  rewrite E6, E7. cbn [orb].
  assert (E8 : (bs =? 2 ^ N.log2 bs) = true) by (apply N.eqb_eq; exact Hp).
  rewrite E8. cbn [negb]. rewrite Hcm.
  assert (E9 : (c <? c_SQFS_COMP_MIN) = false) by (apply N.ltb_ge; lia).
  assert (E10 : (c_SQFS_COMP_MAX <? c) = false) by (apply N.ltb_ge; lia).
  rewrite E9, E10. cbn [orb].
  assert (E11 : (idc =? 0) = false) by (apply N.eqb_neq; lia).
  rewrite E11.
  unfold id_table_guard, idcount_ok, idstart_ok.
  cbn [s_id_count s_id_start s_bytes_used]. rewrite E11.
  assert (E12 : (ids <? bu) = true) by (apply N.ltb_lt; exact Hids).
  rewrite E12. reflexivity.
Qed.
