(* C14 — proofs about write traces: every crash point before the commit leaves a file every reader
   refuses; every crash point after it leaves the complete image. *)
From Coq Require Import List NArith ZArith Bool Lia.
From SqfsV Require Import Base.Bytes Gen.Constants C14.SuperModel C14.SuperProofs C14.TraceModel.
Import ListNotations.
Local Open Scope N_scope.

(* ---------- single events ---------- *)

Lemma zeros_length n : length (zeros n) = n.
Proof. apply repeat_length. Qed.

Lemma pad_to_length n f : length (pad_to n f) = Nat.max n (length f).
Proof. unfold pad_to. rewrite app_length, zeros_length. lia. Qed.

Lemma firstn_pad_to n m f : (n <= length f)%nat -> firstn n (pad_to m f) = firstn n f.
Proof.
  intros H. unfold pad_to. rewrite firstn_app.
  replace (n - length f)%nat with O by lia. rewrite firstn_O, app_nil_r. reflexivity.
Qed.

Lemma pwrite_keeps n off d f : (n <= off)%nat -> (n <= length f)%nat ->
  firstn n (pwrite off d f) = firstn n f.
Proof.
  intros H1 H2. unfold pwrite. destruct d as [|b d]; [reflexivity|].
  rewrite firstn_app.
  rewrite firstn_length, pad_to_length.
  replace (n - Nat.min off (Nat.max off (length f)))%nat with O by lia.
  rewrite firstn_O, app_nil_r, firstn_firstn.
  replace (Nat.min n off) with n by lia.
  apply firstn_pad_to. exact H2.
Qed.

Lemma pwrite_length off d f : d <> [] ->
  length (pwrite off d f) = Nat.max (length f) (off + length d).
Proof.
  intros H. unfold pwrite. destruct d as [|b d]; [contradiction|].
  rewrite !app_length, firstn_length, pad_to_length, skipn_length. lia.
Qed.

Lemma truncate_keeps n m f : (n <= m)%nat -> (n <= length f)%nat ->
  firstn n (truncate m f) = firstn n f.
Proof.
  intros H1 H2. unfold truncate. rewrite firstn_firstn.
  replace (Nat.min n m) with n by lia. apply firstn_pad_to. exact H2.
Qed.

Lemma truncate_length m f : length (truncate m f) = m.
Proof. unfold truncate. rewrite firstn_length, pad_to_length. lia. Qed.

Lemma apply_ev_length f e : N.of_nat (length (apply_ev f e)) = size_ev (N.of_nat (length f)) e.
Proof.
  destruct e as [off d|m]; cbn [apply_ev size_ev].
  - destruct d as [|b d]; [reflexivity|].
    rewrite pwrite_length by discriminate. lia.
  - rewrite truncate_length. lia.
Qed.

Lemma apply_from_length tr : forall f,
  N.of_nat (length (apply_from f tr)) = size_from (N.of_nat (length f)) tr.
Proof.
  induction tr as [|e tr IH]; intro f; [reflexivity|].
  cbn [apply_from size_from fold_left]. fold (apply_from (apply_ev f e) tr).
  fold (size_from (size_ev (N.of_nat (length f)) e) tr).
  rewrite IH, apply_ev_length. reflexivity.
Qed.

Lemma apply_length_l tr : N.of_nat (length (apply tr)) = size_after tr.
Proof. unfold apply, size_after. rewrite apply_from_length. reflexivity. Qed.

(* an event that keeps n leaves the first n bytes of a file of at least n bytes alone *)
Lemma keeps_ev n e f : keeps n e = true -> (N.to_nat n <= length f)%nat ->
  firstn (N.to_nat n) (apply_ev f e) = firstn (N.to_nat n) f /\
  (N.to_nat n <= length (apply_ev f e))%nat.
Proof.
  intros Hk Hl. destruct e as [off d|m]; cbn [keeps apply_ev] in *; apply N.leb_le in Hk.
  - split; [apply pwrite_keeps; lia|].
    destruct d as [|b d]; [exact Hl|]. rewrite pwrite_length by discriminate. lia.
  - split; [apply truncate_keeps; lia|]. rewrite truncate_length. lia.
Qed.

Lemma keeps_trace n tr : forall f, forallb (keeps n) tr = true -> (N.to_nat n <= length f)%nat ->
  firstn (N.to_nat n) (apply_from f tr) = firstn (N.to_nat n) f /\
  (N.to_nat n <= length (apply_from f tr))%nat.
Proof.
  induction tr as [|e tr IH]; intros f H Hl; [split; [reflexivity|exact Hl]|].
  cbn [forallb] in H. apply andb_true_iff in H. destruct H as [He Ht].
  cbn [apply_from fold_left]. fold (apply_from (apply_ev f e) tr).
  destruct (keeps_ev n e f He Hl) as [E1 E2].
  destruct (IH (apply_ev f e) Ht E2) as [E3 E4].
  split; [rewrite E3; exact E1|exact E4].
Qed.

Lemma forallb_firstn {A} (p : A -> bool) k : forall l, forallb p l = true -> forallb p (firstn k l) = true.
Proof.
  induction k as [|k IH]; intros l H; [reflexivity|].
  destruct l as [|x l]; [reflexivity|]. cbn [forallb firstn] in *.
  apply andb_true_iff in H. destruct H as [H1 H2]. rewrite H1, IH by exact H2. reflexivity.
Qed.

Lemma apply_from_app f a b : apply_from f (a ++ b) = apply_from (apply_from f a) b.
Proof. unfold apply_from. apply fold_left_app. Qed.

(* ---------- the shape ---------- *)

Lemma split_body_shape body d1 tail :
  forallb body_ok body = true ->
  split_body (body ++ PWrite 0 d1 :: tail) = (body, PWrite 0 d1 :: tail).
Proof.
  induction body as [|e body IH]; intro H.
  - reflexivity.
  - cbn [forallb] in H. apply andb_true_iff in H. destruct H as [He Hb].
    cbn [app split_body]. rewrite He, IH by exact Hb. reflexivity.
Qed.

Lemma split_body_spec tr : forall b t, split_body tr = (b, t) ->
  tr = b ++ t /\ forallb body_ok b = true.
Proof.
  induction tr as [|e tr IH]; intros b t H; cbn [split_body] in H.
  - inversion H. split; reflexivity.
  - destruct (body_ok e) eqn:E.
    + destruct (split_body tr) as [b' t'] eqn:E'. inversion H; subst.
      destruct (IH b' t eq_refl) as [-> Hb]. split; [reflexivity|].
      cbn [forallb]. rewrite E, Hb. reflexivity.
    + inversion H; subst. split; reflexivity.
Qed.

Lemma list_eqb_eq a : forall b, list_eqb a b = true -> a = b.
Proof.
  induction a as [|x a IH]; intros [|y b] H; cbn [list_eqb] in H; try discriminate; [reflexivity|].
  apply andb_true_iff in H. destruct H as [H1 H2]. apply N.eqb_eq in H1. subst y.
  rewrite (IH b H2). reflexivity.
Qed.

Lemma trace_okb_sound_l tr : trace_okb tr = true -> trace_ok tr.
Proof.
  unfold trace_okb.
  destruct tr as [|[off d0|m] rest]; try discriminate.
  destruct off; [|discriminate].
  destruct (super_init (s_block_size (decode d0)) (s_mtime (decode d0)) (s_comp_id (decode d0)))
    as [s0| |] eqn:Ei; try discriminate.
  intros H. apply andb_true_iff in H. destruct H as [Hd0 H].
  apply list_eqb_eq in Hd0.
  destruct (split_body rest) as [body rest'] eqn:Es.
  destruct rest' as [|[off1 d1|m1] tail]; try discriminate.
  destruct off1; [|discriminate].
  apply andb_true_iff in H. destruct H as [H Htail].
  apply andb_true_iff in H. destruct H as [H Hrefs].
  apply andb_true_iff in H. destruct H as [H Hsize].
  apply andb_true_iff in H. destruct H as [Hlen Hsb].
  apply Nat.eqb_eq in Hlen. apply N.leb_le in Hsize. apply N.leb_le in Hsb.
  destruct (split_body_spec rest body _ Es) as [-> Hbody].
  exists (s_block_size (decode d0)), (s_mtime (decode d0)), (s_comp_id (decode d0)), s0, body, d1, tail.
  subst d0. repeat split; assumption.
Qed.


Lemma commit_index_shape e0 body d1 tail :
  forallb body_ok body = true ->
  commit_index (e0 :: body ++ PWrite 0 d1 :: tail) = S (length body).
Proof.
  intros H. unfold commit_index. cbn [tl]. rewrite split_body_shape by exact H. reflexivity.
Qed.

(* ---------- the file before and at the commit ---------- *)

Lemma SB_eq : N.to_nat sizeof_sqfs_super_t = SB.
Proof. reflexivity. Qed.

Lemma first_event s0 : apply_ev [] (PWrite 0 (encode s0)) = encode s0.
Proof.
  cbn [apply_ev]. unfold pwrite.
  pose proof (encode_length s0) as Hl.
  destruct (encode s0) as [|b r] eqn:E; [discriminate|].
  change (N.to_nat 0) with O. cbn [firstn app]. rewrite skipn_nil, app_nil_r. reflexivity.
Qed.

(* after the provisional superblock and any number of body events the first 96 bytes are still it *)
Lemma before_commit s0 evs :
  forallb body_ok evs = true ->
  firstn SB (apply (PWrite 0 (encode s0) :: evs)) = encode s0.
Proof.
  intros H. unfold apply. cbn [apply_from fold_left]. fold (apply_from (apply_ev [] (PWrite 0 (encode s0))) evs).
  rewrite first_event.
  destruct (keeps_trace sizeof_sqfs_super_t evs (encode s0) H) as [E _].
  { rewrite encode_length. apply Nat.le_refl. }
  rewrite SB_eq in E. rewrite E.
  rewrite <- (encode_length s0). apply firstn_all.
Qed.

Lemma firstn_prefix_shape {A} (e0 : A) body rest k : (1 <= k)%nat -> (k <= S (length body))%nat ->
  firstn k (e0 :: body ++ rest) = e0 :: firstn (k - 1) body.
Proof.
  intros H1 H2. destruct k as [|k]; [lia|]. cbn [firstn]. f_equal.
  replace (S k - 1)%nat with k by lia.
  rewrite firstn_app. replace (k - length body)%nat with O by lia.
  rewrite firstn_O, app_nil_r. reflexivity.
Qed.

Lemma crash_prefix_rejected_l tr : trace_ok tr ->
  forall k, (k <= commit_index tr)%nat -> accepts (apply (firstn k tr)) = false.
Proof.
  intros (bs & mt & c & s0 & body & d1 & tail & Hi & -> & Hb & Hl & Hsz & Hrefs & Ht) k Hk.
  rewrite commit_index_shape in Hk by exact Hb.
  destruct k as [|k].
  - cbn [firstn]. apply accepts_short. unfold apply, apply_from. cbn. unfold SB. vm_compute. lia.
  - rewrite firstn_prefix_shape by lia.
    rewrite <- accepts_firstn_l.
    rewrite before_commit by (apply forallb_firstn; exact Hb).
    rewrite <- (app_nil_r (encode s0)).
    eapply provisional_rejected_l. exact Hi.
Qed.

(* ---------- the file after the commit ---------- *)

Lemma firstn_suffix_shape {A} (pre tail : list A) k : (length pre <= k)%nat ->
  firstn k (pre ++ tail) = pre ++ firstn (k - length pre) tail.
Proof.
  intros H. rewrite firstn_app. rewrite firstn_all2 by exact H. reflexivity.
Qed.

Definition committed (tr : list event) : list N := apply (firstn (S (commit_index tr)) tr).

Lemma after_commit_l tr : trace_ok tr ->
  let F := committed tr in
  let bu := s_bytes_used (decode F) in
  sizeof_sqfs_super_t <= bu <= N.of_nat (length F) /\
  accepts F = accepts (apply tr) /\
  forall k, (commit_index tr < k)%nat ->
    firstn (N.to_nat bu) (apply (firstn k tr)) = firstn (N.to_nat bu) F /\
    decode (apply (firstn k tr)) = decode F.
Proof.
  intros (bs & mt & c & s0 & body & d1 & tail & Hi & -> & Hb & Hl & Hsz & Hrefs & Ht).
  unfold committed. rewrite commit_index_shape by exact Hb.
  set (e0 := PWrite 0 (encode s0)) in *.
  set (pre := e0 :: body ++ [PWrite 0 d1]).
  assert (Etr : e0 :: body ++ PWrite 0 d1 :: tail = pre ++ tail).
  { unfold pre. cbn [app]. rewrite <- app_assoc. reflexivity. }
  assert (Elen : length pre = S (S (length body))).
  { unfold pre. cbn [length]. rewrite app_length. cbn [length]. lia. }
  assert (Epre : firstn (S (S (length body))) (e0 :: body ++ PWrite 0 d1 :: tail) = pre).
  { rewrite Etr, <- Elen. rewrite firstn_app, firstn_all, Nat.sub_diag, firstn_O, app_nil_r. reflexivity. }
  rewrite Epre.
  set (F := apply pre).
  assert (HlenF : sizeof_sqfs_super_t <= s_bytes_used (decode d1) <= N.of_nat (length F)).
  { unfold F. rewrite apply_length_l. exact Hsz. }
  assert (Hd : decode F = decode d1).
  { unfold F, pre, apply. change (e0 :: body ++ [PWrite 0 d1]) with ((e0 :: body) ++ [PWrite 0 d1]).
    rewrite apply_from_app. cbn [apply_from fold_left apply_ev].
    set (G := fold_left apply_ev (e0 :: body) []).
    unfold pwrite. destruct d1 as [|b1 r1] eqn:Ed1; [discriminate|]. rewrite <- Ed1 in *.
    change (N.to_nat 0) with O. cbn [firstn app plus].
    apply decode_prefix. exact Hl. }
  cbv zeta. rewrite Hd.
  assert (Hkeep : forall j, firstn (N.to_nat (s_bytes_used (decode d1))) (apply (pre ++ firstn j tail)) =
                            firstn (N.to_nat (s_bytes_used (decode d1))) F).
  { intro j. unfold apply. rewrite apply_from_app. fold (apply pre). fold F.
    destruct (keeps_trace (s_bytes_used (decode d1)) (firstn j tail) F) as [E _].
    - apply forallb_firstn. exact Ht.
    - lia.
    - exact E. }
  assert (HSB : (SB <= N.to_nat (s_bytes_used (decode d1)))%nat).
  { assert (N.of_nat SB = sizeof_sqfs_super_t) by (unfold SB; apply N2Nat.id). lia. }
  assert (Hfirst : forall j, firstn SB (apply (pre ++ firstn j tail)) = firstn SB F).
  { intro j.
    replace SB with (Nat.min SB (N.to_nat (s_bytes_used (decode d1)))) by lia.
    rewrite <- !firstn_firstn. rewrite Hkeep. reflexivity. }
  assert (Hacc : forall j, accepts (apply (pre ++ firstn j tail)) = accepts F).
  { intro j. rewrite <- accepts_firstn_l. rewrite <- (accepts_firstn_l F). rewrite Hfirst. reflexivity. }
  assert (Hdec : forall j, decode (apply (pre ++ firstn j tail)) = decode F).
  { intro j. rewrite <- decode_firstn. rewrite <- (decode_firstn F). rewrite Hfirst. reflexivity. }
  split; [exact HlenF|]. split.
  - rewrite Etr. rewrite <- (firstn_all tail) at 1. symmetry. apply Hacc.
  - intros k Hk. rewrite Etr. rewrite firstn_suffix_shape by lia.
    split; [apply Hkeep|]. rewrite Hdec. exact Hd.
Qed.

(* the combined statement: at every crash point, refused or the complete image *)
Lemma crash_safe_l tr : trace_ok tr ->
  forall k, accepts (apply (firstn k tr)) = false \/
            image_of (apply (firstn k tr)) = image_of (apply tr).
Proof.
  intros H k. destruct (Nat.le_gt_cases k (commit_index tr)) as [Hk|Hk].
  - left. apply crash_prefix_rejected_l; assumption.
  - right. pose proof (after_commit_l tr H) as HA. cbv zeta in HA.
    destruct HA as (_ & _ & HA).
    destruct (HA k Hk) as [E1 E2].
    assert (Hfull : (commit_index tr < Nat.max k (S (length tr)))%nat) by lia.
    destruct (HA _ Hfull) as [E3 E4].
    assert (Efull : firstn (Nat.max k (S (length tr))) tr = tr) by (apply firstn_all2; lia).
    rewrite Efull in E3, E4.
    unfold image_of. rewrite E2, E4, E1, E3. reflexivity.
Qed.

(* everything the committed superblock points to is inside the file at the moment it is written,
   and stays as it is *)
Lemma commit_refs_l tr : trace_ok tr ->
  refs_in_file (decode (committed tr)) = true.
Proof.
  intros H. pose proof H as (bs & mt & c & s0 & body & d1 & tail & Hi & -> & Hb & Hl & Hsz & Hrefs & Ht).
  unfold committed. rewrite commit_index_shape by exact Hb.
  set (e0 := PWrite 0 (encode s0)) in *.
  assert (Epre : firstn (S (S (length body))) (e0 :: body ++ PWrite 0 d1 :: tail) = (e0 :: body) ++ [PWrite 0 d1]).
  { assert (Etr : e0 :: body ++ PWrite 0 d1 :: tail = ((e0 :: body) ++ [PWrite 0 d1]) ++ tail)
      by (cbn [app]; rewrite <- app_assoc; reflexivity).
    rewrite Etr.
    replace (S (S (length body))) with (length ((e0 :: body) ++ [PWrite 0 d1]))
      by (rewrite app_length; cbn [length]; lia).
    rewrite firstn_app, firstn_all, Nat.sub_diag, firstn_O, app_nil_r. reflexivity. }
  rewrite Epre. unfold apply. rewrite apply_from_app. cbn [apply_from fold_left apply_ev].
  unfold pwrite. destruct d1 as [|b1 r1] eqn:Ed1; [discriminate|]. rewrite <- Ed1 in *.
  change (N.to_nat 0) with O. cbn [firstn app plus].
  rewrite decode_prefix by exact Hl. exact Hrefs.
Qed.
