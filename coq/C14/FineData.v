(* C14 — the data phase: every output call of the block writer (C08.DedupModel: write_data_block,
   deduplicate_blocks, driven by the block processor model [pack]) stays behind the offset the writer was created at,
   and the logged calls, applied to the file the writer started on, give the file it ends with.
   No hypothesis on hash function, compressor, schedule, flags, block size: this is about offsets only. *)
From Coq Require Import List NArith ZArith Bool Lia Arith.
From SqfsV Require Import Base.Bytes C14.TraceModel C14.TraceProofs C14.RefineModel C14.RefineProofs C14.FineModel.
From SqfsV Require Import C08.DedupModel.
Import ListNotations.

Definition evs_of (l : list ev) : list event := map conv_ev l.

(* block writer state: every recorded block lies behind [base], so does the end of the file *)
Record WB (base : nat) (w : writer) : Prop := {
  wb_off : Forall (fun b => base <= bi_off b) (w_blocks w);
  wb_len : base <= length (w_file w);
  wb_fstart : w_fstart w <= length (w_blocks w)
}.

Lemma trunc_same f n : TraceModel.truncate n f = DedupModel.truncate f n.
Proof.
  unfold TraceModel.truncate, DedupModel.truncate, pad_to, zeros.
  rewrite firstn_app. f_equal.
  destruct (Nat.le_gt_cases n (length f)) as [H|H].
  - replace (n - length f) with 0 by lia. reflexivity.
  - rewrite firstn_all2 by (rewrite repeat_length; lia). reflexivity.
Qed.

Lemma trunc_length f n : length (DedupModel.truncate f n) = n.
Proof. rewrite <- trunc_same. apply truncate_length. Qed.

Lemma In_firstn' {A} (x : A) : forall n l, In x (firstn n l) -> In x l.
Proof.
  induction n as [|n IH]; intros l H; [destruct H|]. destruct l as [|y l]; [destruct H|].
  cbn [firstn] in H. destruct H as [H|H]; [left; exact H|right; apply IH; exact H].
Qed.

Section BW.
Variable hash_only : bool.
Variable half : nat.
Variable base : nat.

Lemma find_match_range f blocks cur count loc_a sz : forall n i0 i,
  find_match hash_only half f blocks cur count loc_a sz n i0 = FAt i -> i0 <= i < i0 + n.
Proof.
  induction n as [|n IH]; intros i0 i H; cbn [find_match] in H; [discriminate|].
  destruct (hashes_match (firstn count (skipn i0 blocks)) cur).
  - destruct hash_only.
    + inversion H. lia.
    + destruct (range_equal (S sz) half f loc_a (bi_off (nth i0 blocks dflt_bi)) sz).
      * inversion H. lia.
      * apply IH in H. lia.
      * discriminate.
      * discriminate.
  - apply IH in H. lia.
Qed.

(* what one call of the block writer does to the file, as output calls *)
Definition step_ok (w w' : writer) (evs : list ev) : Prop :=
  WB base w' /\
  apply_from (w_file w) (evs_of evs) = w_file w' /\
  forallb (keeps (N.of_nat base)) (evs_of evs) = true.

Lemma dedup_step w dd evs0 w' loc evs :
  WB base w ->
  deduplicate_blocks hash_only half w dd evs0 = WOk w' loc evs ->
  exists extra, evs = evs0 ++ extra /\ step_ok w w' extra.
Proof.
  intros [Ho Hl Hf] H. unfold deduplicate_blocks in H.
  assert (Same : step_ok w w []).
  { split; [constructor; assumption|]. split; reflexivity. }
  destruct (length (w_blocks w) - w_fstart w =? 0) eqn:Ec.
  { inversion H; subst. exists []. rewrite app_nil_r. split; [reflexivity|exact Same]. }
  apply Nat.eqb_neq in Ec.
  destruct dd.
  { inversion H; subst. exists []. rewrite app_nil_r. split; [reflexivity|exact Same]. }
  match type of H with context [find_match ?a1 ?a2 ?a3 ?a4 ?a5 ?a6 ?a7 ?a8 ?a9 ?a10] =>
    destruct (find_match a1 a2 a3 a4 a5 a6 a7 a8 a9 a10) as [i| | |] eqn:Ef end; try discriminate.
  2: { inversion H; subst. exists []. rewrite app_nil_r. split; [reflexivity|exact Same]. }
  apply find_match_range in Ef.
  inversion H; subst. clear H.
  set (count := length (w_blocks w) - w_fstart w) in *.
  set (used := if w_fstart w - i <=? count then i + count else w_fstart w).
  assert (Hu : 1 <= used <= length (w_blocks w) /\ w_fstart w <= used).
  { unfold used. destruct (w_fstart w - i <=? count) eqn:E.
    - apply Nat.leb_le in E. lia.
    - apply Nat.leb_gt in E. lia. }
  set (lastb := nth (used - 1) (w_blocks w) dflt_bi).
  assert (Hin : In lastb (w_blocks w)) by (apply nth_In; lia).
  assert (Hb : base <= bi_off lastb) by (rewrite Forall_forall in Ho; apply Ho; exact Hin).
  eexists. split; [reflexivity|]. split; [|split].
  - constructor; cbn [w_blocks w_file w_fstart].
    + rewrite Forall_forall in *. intros b Hbi. apply Ho. eapply In_firstn'; eassumption.
    + rewrite trunc_length. fold lastb. lia.
    + rewrite firstn_length. lia.
  - cbn [evs_of map conv_ev apply_from fold_left apply_ev w_file]. rewrite Nat2N.id. apply trunc_same.
  - cbn [evs_of map conv_ev forallb keeps]. rewrite andb_true_r. apply N.leb_le. fold lastb. lia.
Qed.

Lemma wdb_step w fl chk data w' loc evs :
  WB base w ->
  write_data_block hash_only half w fl chk data = WOk w' loc evs ->
  step_ok w w' evs.
Proof.
  intros HW H. unfold write_data_block in H.
  set (fstart := if wf_first fl then length (w_blocks w) else w_fstart w) in *.
  set (store := negb (length data =? 0) && negb (wf_sparse fl)) in *.
  destruct HW as [Ho Hl Hf].
  assert (Hfs : fstart <= length (w_blocks w)) by (unfold fstart; destruct (wf_first fl); lia).
  destruct store eqn:Es.
  - (* a block is stored: one write at the end of the file *)
    set (w1 := {| w_file := w_file w ++ data;
                  w_blocks := w_blocks w ++ [{| bi_off := length (w_file w);
                                                bi_sw := sw_of (length data) (wf_compressed fl); bi_chk := chk |}];
                  w_fstart := fstart |}) in *.
    assert (W1 : WB base w1).
    { constructor; cbn [w1 w_blocks w_file w_fstart].
      - apply Forall_app. split; [exact Ho|]. constructor; [cbn [bi_off]; exact Hl|constructor].
      - rewrite app_length. lia.
      - rewrite app_length. cbn [length]. lia. }
    assert (S1 : step_ok w w1 [EvWrite (length (w_file w)) data]).
    { split; [exact W1|]. split.
      - cbn [evs_of map conv_ev apply_from fold_left apply_ev]. rewrite Nat2N.id. apply pwrite_at_end.
      - cbn [evs_of map conv_ev forallb keeps]. rewrite andb_true_r. apply N.leb_le. lia. }
    destruct (wf_last fl).
    + destruct (dedup_step w1 _ _ _ _ _ W1 H) as (extra & -> & (A & B & C)).
      split; [exact A|]. destruct S1 as (_ & B1 & C1). split.
      * unfold evs_of in *. rewrite map_app, apply_from_app, B1. exact B.
      * unfold evs_of in *. rewrite map_app, forallb_app, C1, C. reflexivity.
    + inversion H; subst. exact S1.
  - set (w1 := {| w_file := w_file w; w_blocks := w_blocks w; w_fstart := fstart |}) in *.
    assert (W1 : WB base w1) by (constructor; cbn [w1 w_blocks w_file w_fstart]; assumption).
    destruct (wf_last fl).
    + destruct (dedup_step w1 _ _ _ _ _ W1 H) as (extra & -> & (A & B & C)).
      cbn [app]. split; [exact A|]. split; [exact B|exact C].
    + inversion H; subst. split; [exact W1|]. split; reflexivity.
Qed.

End BW.

(* ---------- the block processor ---------- *)

(* the output side of a processor state *)
Definition IO (base : nat) (file0 : list N) (st : proc) : Prop :=
  WB base (p_wr st) /\
  apply_from file0 (evs_of (p_evs st)) = w_file (p_wr st) /\
  forallb (keeps (N.of_nat base)) (evs_of (p_evs st)) = true.

Definition same_io (st st' : proc) : Prop := p_wr st' = p_wr st /\ p_evs st' = p_evs st.

Lemma IO_same base file0 st st' : same_io st st' -> IO base file0 st -> IO base file0 st'.
Proof. intros [A B] H. unfold IO in *. rewrite A, B. exact H. Qed.

Lemma same_io_refl st : same_io st st.
Proof. split; reflexivity. Qed.

Lemma same_io_trans a b c : same_io a b -> same_io b c -> same_io a c.
Proof. intros [A B] [C D]. split; congruence. Qed.

Lemma IO_set_wr hash_only half base file0 st fl chk data w loc e :
  IO base file0 st ->
  write_data_block hash_only half (p_wr st) fl chk data = WOk w loc e ->
  IO base file0 (set_wr st w e).
Proof.
  intros (W & A & K) H. destruct (wdb_step hash_only half base _ _ _ _ _ _ _ W H) as (W' & A' & K').
  unfold IO. cbn [set_wr p_wr p_evs]. split; [exact W'|]. unfold evs_of in *. split.
  - rewrite map_app, apply_from_app, A. exact A'.
  - rewrite map_app, forallb_app, K, K'. reflexivity.
Qed.

Section Proc.
Variable hashf : list N -> N.
Variable compress : list N -> option (list N).
Variable uncompress : list N -> nat -> option (list N).
Variable bs : nat.
Variable hash_only bytecmp : bool.
Variable half : nat.
Variable base : nat.
Variable file0 : list N.

Notation IOk := (IO base file0).

Lemma complete_blocks_io fid dd : forall blocks k st st',
  IOk st -> complete_blocks hash_only half st fid dd k blocks = Ok st' -> IOk st'.
Proof.
  induction blocks as [|b rest IH]; intros k st st' H E; cbn [complete_blocks] in E.
  - inversion E; subst. exact H.
  - match type of E with context [write_data_block ?a ?b ?c ?d ?e ?f] =>
      destruct (write_data_block a b c d e f) as [w loc e0| |] eqn:Ew end; try discriminate.
    pose proof (IO_set_wr _ _ _ _ _ _ _ _ _ _ _ H Ew) as H1.
    eapply IH; [|exact E].
    eapply IO_same; [|exact H1].
    destruct (pb_sparse b); [destruct rest; split; reflexivity|].
    destruct (length (pb_data b) =? 0); destruct rest; split; reflexivity.
Qed.

Lemma complete_fragblk_io st idx pb st' :
  IOk st -> complete_fragblk hash_only half st idx pb = Ok st' -> IOk st'.
Proof.
  intros H E. unfold complete_fragblk in E.
  match type of E with context [write_data_block ?a ?b ?c ?d ?e ?f] =>
    destruct (write_data_block a b c d e f) as [w loc e0| |] eqn:Ew end; try discriminate.
  assert (H0 : IOk (set_inflight st (remove_inflight idx (p_inflight st)))).
  { eapply IO_same; [|exact H]. split; reflexivity. }
  pose proof (IO_set_wr _ _ _ _ _ _ _ _ _ _ _ H0 Ew) as H1.
  destruct (pb_sparse pb); [inversion E; subst; exact H1|].
  destruct (length (pb_data pb) =? 0); inversion E; subst; [exact H1|].
  eapply IO_same; [|exact H1]. split; reflexivity.
Qed.

Lemma drain_q_io : forall q st st', IOk st -> drain_q hash_only half q st = Ok st' -> IOk st'.
Proof.
  induction q as [|it q IH]; intros st st' H E; cbn [drain_q] in E.
  - inversion E; subst. eapply IO_same; [|exact H]. split; reflexivity.
  - destruct it as [fid dd blocks|ready idx pb].
    + destruct (complete_blocks hash_only half st fid dd 0 blocks) as [st1| |] eqn:Ec; try discriminate.
      eapply IH; [|exact E]. eapply complete_blocks_io; eassumption.
    + destruct ready.
      * destruct (complete_fragblk hash_only half st idx pb) as [st1| |] eqn:Ec; try discriminate.
        eapply IH; [|exact E]. eapply complete_fragblk_io; eassumption.
      * inversion E; subst. eapply IO_same; [|exact H]. split; reflexivity.
Qed.

Lemma drain_io st st' : IOk st -> drain hash_only half st = Ok st' -> IOk st'.
Proof. unfold drain. apply drain_q_io. Qed.

Lemma enqueue_fragblk_same st fb : same_io st (enqueue_fragblk hashf compress bytecmp st fb).
Proof. unfold enqueue_fragblk. destruct bytecmp; split; reflexivity. Qed.

Lemma store_fragment_same st fid fl d chk st' :
  store_fragment hashf compress uncompress bs bytecmp st fid fl d chk = Ok st' -> same_io st st'.
Proof.
  unfold store_fragment.
  set (st1 := match p_fragblk st with
              | Some fb => if bs <? length (fb_data fb) + length d then enqueue_fragblk hashf compress bytecmp st fb else st
              | None => st end).
  assert (S1 : same_io st st1).
  { unfold st1. destruct (p_fragblk st) as [fb|]; [|apply same_io_refl].
    destruct (bs <? length (fb_data fb) + length d); [apply enqueue_fragblk_same|apply same_io_refl]. }
  destruct (p_fragblk st1) as [fb|].
  - match goal with |- context [ht_insert ?a ?b ?c ?d ?e ?f ?g ?h] =>
      destruct (ht_insert a b c d e f g h) as [[h0 ca]|] end; [|discriminate].
    intro E. inversion E; subst. eapply same_io_trans; [exact S1|]. split; reflexivity.
  - match goal with |- context [ht_insert ?a ?b ?c ?d ?e ?f ?g ?h] =>
      destruct (ht_insert a b c d e f g h) as [[h0 ca]|] end; [|discriminate].
    intro E. inversion E; subst. eapply same_io_trans; [exact S1|]. split; reflexivity.
Qed.

Lemma process_fragment_same st fid idx fl d st' :
  process_fragment hashf compress uncompress bs bytecmp st fid idx fl d = Ok st' -> same_io st st'.
Proof.
  unfold process_fragment.
  destruct (pb_sparse _).
  { intro E. inversion E; subst. split; reflexivity. }
  destruct (uf_dont_dedup fl).
  { apply store_fragment_same. }
  match goal with |- context [ht_search ?a ?b ?c ?d ?e ?f ?g ?h] =>
    destruct (ht_search a b c d e f g h) as [c0 ca|ca|] end; try discriminate.
  - intro E. inversion E; subst. split; reflexivity.
  - intro E. apply store_fragment_same in E. eapply same_io_trans; [|exact E]. split; reflexivity.
Qed.

Lemma step_file_io st fid j st' :
  IOk st -> step_file hashf compress uncompress bs hash_only bytecmp half st fid j = Ok st' -> IOk st'.
Proof.
  intros H E. unfold step_file in E.
  destruct (drain hash_only half st) as [st1| |] eqn:E1; try discriminate.
  pose proof (drain_io _ _ H E1) as H1.
  match type of E with context [drain hash_only half ?x] =>
    assert (H2 : IOk x); [|destruct (drain hash_only half x) as [st3| |] eqn:E3; try discriminate] end.
  { destruct (j_blocks j); [exact H1|]. eapply IO_same; [|exact H1]. split; reflexivity. }
  pose proof (drain_io _ _ H2 E3) as H3.
  destruct (j_tail j) as [t|]; [|inversion E; subst; exact H3].
  eapply IO_same; [eapply process_fragment_same; exact E|exact H3].
Qed.

Lemma step_fragdone_io st st' : IOk st -> step_fragdone hash_only half st = Ok st' -> IOk st'.
Proof.
  intros H E. unfold step_fragdone in E.
  destruct (drain hash_only half st) as [st1| |] eqn:E1; try discriminate.
  inversion E; subst. eapply IO_same; [|eapply drain_io; eassumption]. split; reflexivity.
Qed.

Lemma sync_io st st' : IOk st -> sync hash_only half st = Ok st' -> IOk st'.
Proof.
  intros H E. unfold sync in E. eapply drain_io; [|exact E]. eapply IO_same; [|exact H]. split; reflexivity.
Qed.

Lemma finish_io st st' : IOk st -> finish hashf compress hash_only bytecmp half st = Ok st' -> IOk st'.
Proof.
  intros H E. unfold finish in E.
  destruct (sync hash_only half st) as [st1| |] eqn:E1; try discriminate.
  pose proof (sync_io _ _ H E1) as H1.
  destruct (p_fragblk st1) as [fb|]; [|inversion E; subst; exact H1].
  eapply sync_io; [|exact E]. eapply IO_same; [apply enqueue_fragblk_same|exact H1].
Qed.

Lemma fragdone_n_io : forall n st st', IOk st -> fragdone_n hash_only half n st = Ok st' -> IOk st'.
Proof.
  induction n as [|n IH]; intros st st' H E; cbn [fragdone_n] in E; [inversion E; subst; exact H|].
  destruct (step_fragdone hash_only half st) as [st1| |] eqn:E1; try discriminate.
  eapply IH; [|exact E]. eapply step_fragdone_io; eassumption.
Qed.

Lemma run_files_io : forall jobs sched fid st st',
  IOk st -> run_files hashf compress uncompress bs hash_only bytecmp half jobs sched fid st = Ok st' -> IOk st'.
Proof.
  induction jobs as [|j rest IH]; intros sched fid st st' H E; cbn [run_files] in E; [inversion E; subst; exact H|].
  destruct (fragdone_n hash_only half (hd 0 sched) st) as [st1| |] eqn:E1; try discriminate.
  pose proof (fragdone_n_io _ _ _ H E1) as H1.
  destruct (step_file hashf compress uncompress bs hash_only bytecmp half st1 fid j) as [st2| |] eqn:E2; try discriminate.
  eapply IH; [|exact E]. eapply step_file_io; eassumption.
Qed.

End Proc.

Lemma init_io file0 : IO (length file0) file0 (init_proc file0).
Proof.
  split; [|split; reflexivity].
  constructor; cbn [init_proc p_wr w_blocks w_file w_fstart length]; [constructor|lia|lia].
Qed.

(* the data phase as a whole *)
Theorem pack_io hashf compress uncompress bs hash_only bytecmp half file0 files sched st :
  pack hashf compress uncompress bs hash_only bytecmp half file0 files sched = Ok st ->
  let evs := evs_of (p_evs st) in
  apply_from file0 evs = w_file (p_wr st) /\
  forallb (keeps (N.of_nat (length file0))) evs = true /\
  w_file (p_wr st) = file0 ++ skipn (length file0) (w_file (p_wr st)).
Proof.
  intro E. unfold pack in E.
  match type of E with context [run_files ?a ?b ?c ?d ?e ?f ?g ?h ?i ?j ?k] =>
    destruct (run_files a b c d e f g h i j k) as [st1| |] eqn:E1 end; try discriminate.
  pose proof (run_files_io _ _ _ _ _ _ _ _ _ _ _ _ _ _ (init_io file0) E1) as H1.
  destruct (finish_io _ _ _ _ _ _ _ _ _ H1 E) as (W & A & K).
  cbv zeta. split; [exact A|]. split; [exact K|].
  destruct (keeps_trace (N.of_nat (length file0)) (evs_of (p_evs st)) file0 K) as [P _].
  { rewrite Nat2N.id. apply Nat.le_refl. }
  rewrite Nat2N.id, A, firstn_all in P.
  pose proof (firstn_skipn (length file0) (w_file (p_wr st))) as Q. rewrite P in Q. symmetry. exact Q.
Qed.
