(* C14 — io/file.c's descriptor: the cached logical size IS the physical length after every call (truncate_is_physical),
   the variant whose shrink reaches the kernel only at close is refuted on a run of the promised shape, and behind the
   commit an appending tail leaves WHOLE files that are prefixes of the final file. *)
From Coq Require Import List NArith ZArith Bool Lia.
From SqfsV Require Import Base.Bytes Gen.Constants C14.SuperModel C14.SuperProofs C14.TraceModel C14.TraceProofs
  C14.FileLenModel.
Import ListNotations.
Local Open Scope N_scope.

Lemma fd_write_inv st off d : fd_inv st -> fop_ok st (FWrite off d) = true -> fd_inv (fst (fd_write st off d)).
Proof.
  unfold fd_inv, fd_write, flen. cbn [fst fd_file fd_size]. intros I Hok.
  destruct d as [|b d].
  - cbn [pwrite length fop_ok] in *. apply N.leb_le in Hok.
    destruct (fd_size st <=? off + N.of_nat 0) eqn:E; [apply N.leb_le in E; lia|exact I].
  - rewrite pwrite_length by discriminate.
    destruct (fd_size st <=? off + N.of_nat (length (b :: d))) eqn:E;
      [apply N.leb_le in E|apply N.leb_gt in E]; lia.
Qed.

Lemma fd_trunc_physical st n :
  let r := fd_trunc Physical st n in
  fd_size (fst r) = n /\ flen (fd_file (fst r)) = n /\ snd r = [Truncate n] /\
  fd_file (fst r) = truncate (N.to_nat n) (fd_file st).
Proof.
  cbn. unfold flen. rewrite truncate_length. repeat split. lia.
Qed.

Lemma fd_step_physical st op : fd_inv st -> fop_ok st op = true ->
  fd_inv (fst (fd_step Physical st op)) /\
  fd_file (fst (fd_step Physical st op)) = apply_from (fd_file st) (snd (fd_step Physical st op)).
Proof.
  intros I Hok. destruct op as [off d|n]; cbn [fd_step].
  - split; [apply fd_write_inv; assumption|].
    unfold fd_write. cbn [fst snd fd_file]. destruct d; reflexivity.
  - split; [|reflexivity]. unfold fd_inv. destruct (fd_trunc_physical st n) as (A & B & _). cbv zeta in A, B.
    rewrite A, B. reflexivity.
Qed.

Lemma fd_run_physical ops : forall st, fd_inv st -> fops_ok Physical st ops = true ->
  fd_inv (fst (fd_run Physical st ops)) /\
  fd_file (fst (fd_run Physical st ops)) = apply_from (fd_file st) (snd (fd_run Physical st ops)).
Proof.
  induction ops as [|op r IH]; intros st I Hok; [split; [exact I|reflexivity]|].
  cbn [fops_ok] in Hok. apply andb_true_iff in Hok. destruct Hok as [H1 H2].
  destruct (fd_step_physical st op I H1) as [I1 F1].
  cbn [fd_run]. destruct (fd_step Physical st op) as [st1 e1] eqn:E1. cbn [fst snd] in *.
  specialize (IH st1 I1 H2). destruct (fd_run Physical st1 r) as [st2 e2] eqn:E2. cbn [fst snd] in *.
  destruct IH as [I2 F2]. split; [exact I2|]. rewrite apply_from_app, <- F1. exact F2.
Qed.

Lemma fops_ok_firstn v j : forall ops st, fops_ok v st ops = true -> fops_ok v st (firstn j ops) = true.
Proof.
  induction j as [|j IH]; intros ops st H; [reflexivity|].
  destruct ops as [|op r]; [reflexivity|]. cbn [firstn fops_ok] in *.
  apply andb_true_iff in H. destruct H as [H1 H2]. rewrite H1. cbn. apply IH. exact H2.
Qed.

(* the theorem: at every kill point (after any number j of descriptor calls) the file a kill leaves behind is the file
   the issued system calls produce, and its length is the descriptor's logical size = size_after of those calls *)
Lemma truncate_is_physical_l ops : fops_ok Physical fd0 ops = true ->
  forall j, let r := fd_run Physical fd0 (firstn j ops) in
  fd_file (fst r) = apply (snd r) /\
  fd_size (fst r) = flen (fd_file (fst r)) /\
  fd_size (fst r) = size_after (snd r).
Proof.
  intros Hok j. cbv zeta.
  destruct (fd_run_physical (firstn j ops) fd0 eq_refl (fops_ok_firstn Physical j ops fd0 Hok)) as [I F].
  cbn [fd0 fd_file] in F. fold (apply (snd (fd_run Physical fd0 (firstn j ops)))) in F.
  split; [exact F|]. split; [exact I|].
  rewrite I. unfold flen. rewrite F. apply apply_length_l.
Qed.

(* ---- appending tails: whole-file prefixes ---- *)
Lemma pwrite_at_end d f : pwrite (length f) d f = f ++ d.
Proof.
  unfold pwrite. destruct d as [|b d]; [symmetry; apply app_nil_r|].
  unfold pad_to. rewrite Nat.sub_diag. cbn [zeros repeat]. rewrite app_nil_r, firstn_all.
  rewrite skipn_all2 by lia. rewrite app_nil_r. reflexivity.
Qed.

Lemma appends_extends tl : forall f, appendsb f tl = true -> exists x, apply_from f tl = f ++ x.
Proof.
  induction tl as [|e tl IH]; intros f H; [exists []; symmetry; apply app_nil_r|].
  destruct e as [off d|n]; [|discriminate]. cbn [appendsb] in H.
  apply andb_true_iff in H. destruct H as [H1 H2]. apply N.eqb_eq in H1.
  destruct (IH _ H2) as [x Hx]. cbn [apply_from fold_left]. fold (apply_from (apply_ev f (PWrite off d)) tl).
  rewrite Hx. cbn [apply_ev]. subst off. unfold flen. rewrite Nat2N.id, pwrite_at_end.
  exists (d ++ x). rewrite app_assoc. reflexivity.
Qed.

Lemma appendsb_app a : forall f b, appendsb f (a ++ b) = appendsb f a && appendsb (apply_from f a) b.
Proof.
  induction a as [|e a IH]; intros f b; [reflexivity|].
  destruct e as [off d|n]; [|reflexivity]. cbn [app appendsb].
  rewrite IH, andb_assoc. reflexivity.
Qed.

(* pre = the calls up to and including the commit, tail = what follows it *)
Lemma whole_file_after_commit_l pre tail : appendsb (apply pre) tail = true ->
  forall j, exists rest, apply (pre ++ tail) = apply (pre ++ firstn j tail) ++ rest.
Proof.
  intros H j. rewrite <- (firstn_skipn j tail) in H. rewrite appendsb_app in H.
  apply andb_true_iff in H. destruct H as [_ H].
  destruct (appends_extends _ _ H) as [x Hx]. exists x.
  unfold apply in *. rewrite !apply_from_app in *.
  rewrite <- (firstn_skipn j tail) at 1. rewrite apply_from_app. exact Hx.
Qed.

(* ---- witness: a run of the promised shape whose duplicate (40 bytes, written at 136, found equal, cut off again) is
   longer than everything written after it (24 bytes of tables + 8 of padding) ---- *)
Definition wit_s0 : super :=
  mkSuper c_SQFS_MAGIC 0 1700000000 4096 0 1 12 init_flags 0 4 0 0 96
          NO_TABLE NO_TABLE NO_TABLE NO_TABLE NO_TABLE NO_TABLE.
Definition wit_fin : super :=
  commit_fields wit_s0 3 0 init_flags 1 0 160 152 NO_TABLE 136 142 NO_TABLE NO_TABLE.
Definition wit_blk : list N := map N.of_nat (seq 1 40).
Definition wit_ops : list fop :=
  [ FWrite 0 (encode wit_s0);
    FWrite 96 wit_blk;
    FWrite 136 wit_blk;                 (* the second copy ... *)
    FTrunc 136;                         (* ... deduplicated: rolled back *)
    FWrite 136 [4;128;7;7;7;7];         (* inode table *)
    FWrite 142 [4;128;0;0;0;0];         (* directory table *)
    FWrite 148 [2;128;0;0];             (* id table block *)
    FWrite 152 [148;0;0;0;0;0;0;0];     (* its location list *)
    FWrite 0 (encode wit_fin);          (* the commit, bytes_used = 160 = get_size() *)
    FWrite 160 [0;0;0;0;0;0;0;0] ].     (* padding *)

(* the file of the completed run: the calls, then what the descriptor does when it is dropped *)
Definition fd_final (v : fvariant) (ops : list fop) : list N :=
  let r := fd_run v fd0 ops in apply (snd r ++ fd_close v (fst r)).
(* the file a kill after j descriptor calls leaves behind *)
Definition fd_left (v : fvariant) (ops : list fop) (j : nat) : list N := fd_file (fst (fd_run v fd0 (firstn j ops))).

(* what the sweep's oracle asks of an accepted left-over: a prefix of the final file that contains [0, bytes_used) *)
Definition whole_okb (left final : list N) : bool :=
  list_eqb left (firstn (length left) final) && (s_bytes_used (decode final) <=? flen left).

Lemma lazy_truncate_refuted_l :
  exists ops, fops_ok Lazy fd0 ops = true /\
    let st := fst (fd_run Lazy fd0 ops) in fd_size st <> flen (fd_file st).
Proof. exists (firstn 4 wit_ops). vm_compute. split; [reflexivity|discriminate]. Qed.

(* both variants finish with the same file (that is why no test of completed runs sees the difference) ... *)
Lemma wit_same_final : fd_final Lazy wit_ops = fd_final Physical wit_ops /\ flen (fd_final Physical wit_ops) = 168.
Proof. vm_compute. split; reflexivity. Qed.

(* ... the physical descriptor's calls have the promised shape, behind the commit they only append, and at every kill
   point the file is refused or is (a prefix, up to the padding, of) the complete file ... *)
Lemma wit_physical_ok :
  let tr := snd (fd_run Physical fd0 wit_ops) in
  fops_ok Physical fd0 wit_ops = true /\ trace_okb tr = true /\ commit_index tr = 8%nat /\
  appendsb (apply (firstn 9 tr)) (skipn 9 tr) = true /\
  map (fun j => (accepts (fd_left Physical wit_ops j), whole_okb (fd_left Physical wit_ops j) (fd_final Physical wit_ops)))
      (seq 0 11) =
  repeat (false, false) 9 ++ [(true, true); (true, true)].
Proof. vm_compute. repeat split; reflexivity. Qed.

(* ... and the lazy one leaves, killed after the commit (9 calls) or after the padding (10 calls, before close), a file
   every reader opens, whose super block and bytes [0, bytes_used) ARE the complete image's - and which is 8 / 16 bytes
   LONGER than the complete file (stale bytes of the rolled-back copy behind the image): not the complete image *)
Lemma lazy_kill_not_complete_l :
  let final := fd_final Lazy wit_ops in
  fops_ok Lazy fd0 wit_ops = true /\
  map (fun j => let left := fd_left Lazy wit_ops j in
                (accepts left, list_eqb (image_of left) (image_of final), flen left, whole_okb left final)) [9%nat; 10%nat] =
  [(true, true, 176, false); (true, true, 176, false)] /\
  flen final = 168 /\
  skipn 168 (fd_left Lazy wit_ops 10) = [33; 34; 35; 36; 37; 38; 39; 40].
Proof. vm_compute. repeat split; reflexivity. Qed.
