(* C14 — refinement of output-call traces (definitions only).

   The crash-safety theorems of TraceProofs.v hold for every trace of the shape [trace_ok].  Image.FinishModel proves
   that shape for the writer's trace at ONE EVENT PER SECTION (compressor options, data area, inode table, directory
   table, fragment / export / id table, xattr section, padding).  The real writer issues several system calls per
   section: one pwrite per data block, an ftruncate whenever the block writer finds that the run of blocks it just
   wrote is already in the file (block_writer.c deduplicate_blocks), one pwrite per metadata block
   (meta_writer.c write_block), the blocks of a lookup table followed by its location list (write_table.c), the xattr
   tables.  This file says when such a FINE trace refines a COARSE one:

     every coarse event c is replaced by a segment of fine events that
       - is c itself, or
       - never touches an offset below the protected bound [lo] (writes at offsets >= lo, truncations to lengths >= lo;
         a write may later be cut back by such a truncation and be rewritten) and leaves the same file as c;
     in between there may be segments that change nothing at all (same restriction on their offsets).

   [trace_refines] applies this with lo = 96 between the two super block writes and lo = bytes_used of the committed
   super block behind the commit (only padding may follow), and leaves the two super block writes alone: they are
   single calls in the fine trace as well. *)
From Coq Require Import List NArith ZArith Bool.
From SqfsV Require Import Base.Bytes Gen.Constants C14.SuperModel C14.TraceModel.
Import ListNotations.
Local Open Scope N_scope.

(* the fine events [seg] stand for the coarse event [c] when the file is [F] *)
Definition seg_ok (lo : N) (F : list N) (c : event) (seg : list event) : Prop :=
  seg = [c] \/
  (forallb (keeps lo) seg = true /\ apply_from F seg = apply_ev F c).

Inductive refines_from (lo : N) : list N -> list event -> list event -> Prop :=
| RF_nil : forall F, refines_from lo F [] []
| RF_seg : forall F c seg fine coarse,
    seg_ok lo F c seg ->
    refines_from lo (apply_ev F c) fine coarse ->
    refines_from lo F (seg ++ fine) (c :: coarse)
| RF_stutter : forall F seg fine coarse,
    forallb (keeps lo) seg = true -> apply_from F seg = F ->
    refines_from lo F fine coarse ->
    refines_from lo F (seg ++ fine) coarse.

(* whole traces: first event (provisional super block) and commit are the same single calls; the body is refined
   behind the super block, the tail behind bytes_used *)
Definition trace_refines (fine coarse : list event) : Prop :=
  exists e0 body d1 tail fbody ftail,
    coarse = e0 :: body ++ PWrite 0 d1 :: tail /\
    forallb body_ok body = true /\
    fine = e0 :: fbody ++ PWrite 0 d1 :: ftail /\
    refines_from sizeof_sqfs_super_t (apply [e0]) fbody body /\
    refines_from (s_bytes_used (decode d1)) (apply (e0 :: body ++ [PWrite 0 d1])) ftail tail.

(* ---- executable check (evaluated on the logged calls of real runs) ----
   [cuts]: how many fine events stand for each coarse event, in order (a certificate computed outside; the check
   does not trust it). *)
Definition event_eqb (a b : event) : bool :=
  match a, b with
  | PWrite o1 d1, PWrite o2 d2 => (o1 =? o2) && list_eqb d1 d2
  | Truncate n1, Truncate n2 => n1 =? n2
  | _, _ => false
  end.

Fixpoint events_eqb (a b : list event) : bool :=
  match a, b with
  | [], [] => true
  | x :: a', y :: b' => event_eqb x y && events_eqb a' b'
  | _, _ => false
  end.

Definition seg_okb (lo : N) (F : list N) (c : event) (seg : list event) : bool :=
  match seg with
  | [e] => event_eqb e c
  | _ => false
  end ||
  (forallb (keeps lo) seg && list_eqb (apply_from F seg) (apply_ev F c)).

Fixpoint refines_fromb (lo : N) (F : list N) (cuts : list nat) (fine coarse : list event) : bool :=
  match coarse, cuts with
  | [], [] => match fine with [] => true | _ => false end
  | c :: coarse', n :: cuts' =>
    (n <=? length fine)%nat &&
    seg_okb lo F c (firstn n fine) &&
    refines_fromb lo (apply_ev F c) cuts' (skipn n fine) coarse'
  | _, _ => false
  end.

Definition sum_nat (l : list nat) : nat := fold_right Nat.add O l.

Definition trace_refinesb (cuts_body cuts_tail : list nat) (fine coarse : list event) : bool :=
  match coarse, fine with
  | e0 :: crest, f0 :: frest =>
    event_eqb f0 e0 &&
    (let (body, rest) := split_body crest in
     match rest with
     | PWrite 0 d1 :: tail =>
       let nb := sum_nat cuts_body in
       match skipn nb frest with
       | PWrite 0 d1' :: ftail =>
         (nb <=? length frest)%nat && list_eqb d1' d1 &&
         refines_fromb sizeof_sqfs_super_t (apply [e0]) cuts_body (firstn nb frest) body &&
         refines_fromb (s_bytes_used (decode d1)) (apply (e0 :: body ++ [PWrite 0 d1])) cuts_tail ftail tail
       | _ => false
       end
     | _ => false
     end)
  | _, _ => false
  end.

(* ---- section-wise appends ---- *)

(* one write_at per non-empty chunk, each at the end of the previous one (io/file.c: a write_at of no bytes issues
   no system call) *)
Definition ev_one (off : N) (d : list N) : list event :=
  match d with [] => [] | _ => [PWrite off d] end.

Fixpoint ev_chunks (off : N) (chunks : list (list N)) : list event :=
  match chunks with
  | [] => []
  | c :: r => ev_one off c ++ ev_chunks (off + N.of_nat (length c)) r
  end.
