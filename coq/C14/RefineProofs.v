(* C14 — trace refinement preserves the file, the promised shape, and therefore crash safety at EVERY kill point of
   the fine trace (also those inside a refined section). *)
From Coq Require Import List NArith ZArith Bool Lia.
From SqfsV Require Import Base.Bytes Gen.Constants C14.SuperModel C14.SuperProofs C14.TraceModel C14.TraceProofs
  C14.RefineModel.
Import ListNotations.
Local Open Scope N_scope.

(* ---------- the relation ---------- *)

Lemma keeps_mono lo' lo e : lo' <= lo -> keeps lo e = true -> keeps lo' e = true.
Proof.
  intros H K. destruct e as [off d|m]; cbn [keeps] in *; apply N.leb_le in K; apply N.leb_le; lia.
Qed.

Lemma forallb_keeps_mono lo' lo l : lo' <= lo -> forallb (keeps lo) l = true -> forallb (keeps lo') l = true.
Proof.
  intros H. induction l as [|e l IH]; [reflexivity|]. cbn [forallb]. rewrite !andb_true_iff.
  intros [A B]. split; [eapply keeps_mono; eassumption|apply IH; exact B].
Qed.

Lemma apply_from_cons F e tr : apply_from F (e :: tr) = apply_from (apply_ev F e) tr.
Proof. reflexivity. Qed.

Lemma apply_from_one F e : apply_from F [e] = apply_ev F e.
Proof. reflexivity. Qed.

(* a refinement leaves the same file *)
Lemma refines_apply lo F fine coarse :
  refines_from lo F fine coarse -> apply_from F fine = apply_from F coarse.
Proof.
  induction 1 as [F|F c seg fine coarse S _ IH|F seg fine coarse K E _ IH].
  - reflexivity.
  - rewrite apply_from_app, apply_from_cons, <- IH. f_equal.
    destruct S as [->|[_ A]]; [reflexivity|exact A].
  - rewrite apply_from_app, E. exact IH.
Qed.

(* and stays behind every bound that both the coarse trace and the refinement respect *)
Lemma refines_keeps lo F fine coarse :
  refines_from lo F fine coarse ->
  forall lo', lo' <= lo -> forallb (keeps lo') coarse = true -> forallb (keeps lo') fine = true.
Proof.
  induction 1 as [F|F c seg fine coarse S _ IH|F seg fine coarse K E _ IH]; intros lo' L C.
  - reflexivity.
  - cbn [forallb] in C. apply andb_true_iff in C. destruct C as [C1 C2].
    rewrite forallb_app, (IH lo' L C2), andb_true_r.
    destruct S as [->|[A _]]; [cbn [forallb]; rewrite C1; reflexivity|].
    eapply forallb_keeps_mono; eassumption.
  - rewrite forallb_app, (IH lo' L C), andb_true_r. eapply forallb_keeps_mono; eassumption.
Qed.

Lemma refines_refl lo tr : forall F, refines_from lo F tr tr.
Proof.
  induction tr as [|e tr IH]; intro F; [constructor|].
  change (e :: tr) with ([e] ++ tr) at 1. apply RF_seg; [left; reflexivity|apply IH].
Qed.

Lemma refines_app lo F f1 c1 f2 c2 :
  refines_from lo F f1 c1 -> refines_from lo (apply_from F c1) f2 c2 -> refines_from lo F (f1 ++ f2) (c1 ++ c2).
Proof.
  induction 1 as [F|F c seg fine coarse S _ IH|F seg fine coarse K E _ IH]; intro H2.
  - exact H2.
  - rewrite <- app_assoc. cbn [app]. apply RF_seg; [exact S|]. apply IH. exact H2.
  - rewrite <- app_assoc. apply RF_stutter; [exact K|exact E|]. apply IH. exact H2.
Qed.

(* one segment for one coarse event *)
Lemma refines_one lo F c seg :
  forallb (keeps lo) seg = true -> apply_from F seg = apply_ev F c -> refines_from lo F seg [c].
Proof.
  intros K E. rewrite <- (app_nil_r seg). apply RF_seg; [right; split; assumption|constructor].
Qed.

Lemma refines_noop lo F seg :
  forallb (keeps lo) seg = true -> apply_from F seg = F -> refines_from lo F seg [].
Proof.
  intros K E. rewrite <- (app_nil_r seg). apply RF_stutter; [exact K|exact E|constructor].
Qed.

(* ---------- the executable check is sound ---------- *)

Lemma event_eqb_eq a b : event_eqb a b = true -> a = b.
Proof.
  destruct a as [o1 d1|n1], b as [o2 d2|n2]; cbn [event_eqb]; try discriminate.
  - intro H. apply andb_true_iff in H. destruct H as [A B]. apply N.eqb_eq in A. apply list_eqb_eq in B.
    subst. reflexivity.
  - intro H. apply N.eqb_eq in H. subst. reflexivity.
Qed.

Lemma seg_okb_sound lo F c seg : seg_okb lo F c seg = true -> seg_ok lo F c seg.
Proof.
  unfold seg_okb, seg_ok. intro H. apply orb_true_iff in H. destruct H as [H|H].
  - left. destruct seg as [|e [|e2 r]]; try discriminate. apply event_eqb_eq in H. subst. reflexivity.
  - right. apply andb_true_iff in H. destruct H as [A B]. split; [exact A|]. apply list_eqb_eq. exact B.
Qed.

Lemma refines_fromb_sound lo : forall coarse F cuts fine,
  refines_fromb lo F cuts fine coarse = true -> refines_from lo F fine coarse.
Proof.
  induction coarse as [|c coarse IH]; intros F cuts fine H; cbn [refines_fromb] in H.
  - destruct cuts; [|discriminate]. destruct fine; [constructor|discriminate].
  - destruct cuts as [|n cuts]; [discriminate|].
    apply andb_true_iff in H. destruct H as [H H3]. apply andb_true_iff in H. destruct H as [_ H2].
    rewrite <- (firstn_skipn n fine). apply RF_seg; [apply seg_okb_sound; exact H2|].
    eapply IH. exact H3.
Qed.

Lemma trace_refinesb_sound cb ct fine coarse :
  trace_refinesb cb ct fine coarse = true -> trace_refines fine coarse.
Proof.
  unfold trace_refinesb. destruct coarse as [|e0 crest]; [discriminate|]. destruct fine as [|f0 frest]; [discriminate|].
  intro H. apply andb_true_iff in H. destruct H as [H0 H]. apply event_eqb_eq in H0. subst f0.
  destruct (split_body crest) as [body rest] eqn:Es.
  destruct rest as [|[off d1|m] tail]; try discriminate. destruct off; [|discriminate].
  destruct (skipn (sum_nat cb) frest) as [|[off' d1'|m'] ftail] eqn:Ef; try discriminate.
  destruct off'; [|discriminate].
  apply andb_true_iff in H. destruct H as [H H4]. apply andb_true_iff in H. destruct H as [H H3].
  apply andb_true_iff in H. destruct H as [_ H2]. apply list_eqb_eq in H2. subst d1'.
  destruct (split_body_spec crest body _ Es) as [-> Hb].
  exists e0, body, d1, tail, (firstn (sum_nat cb) frest), ftail.
  split; [reflexivity|]. split; [exact Hb|]. split.
  - f_equal. rewrite <- Ef. symmetry. apply firstn_skipn.
  - split; eapply refines_fromb_sound; eassumption.
Qed.

(* ---------- refinement preserves the promised shape ---------- *)

Lemma commit_not_body d : body_ok (PWrite 0 d) = false.
Proof. reflexivity. Qed.

Lemma body_split_unique b1 d1 t1 b2 d2 t2 :
  forallb body_ok b1 = true -> forallb body_ok b2 = true ->
  b1 ++ PWrite 0 d1 :: t1 = b2 ++ PWrite 0 d2 :: t2 -> b1 = b2 /\ d1 = d2 /\ t1 = t2.
Proof.
  intros H1 H2 E.
  pose proof (split_body_shape b1 d1 t1 H1) as S1. pose proof (split_body_shape b2 d2 t2 H2) as S2.
  rewrite E in S1. rewrite S1 in S2. inversion S2. auto.
Qed.

Lemma apply_snoc pre c : apply (pre ++ [c]) = apply_ev (apply pre) c.
Proof. unfold apply. rewrite apply_from_app. reflexivity. Qed.

Lemma apply_cons_from e0 tr : apply (e0 :: tr) = apply_from (apply [e0]) tr.
Proof. reflexivity. Qed.

Lemma firstn_pre {A} (pre tail : list A) : firstn (length pre) (pre ++ tail) = pre.
Proof. rewrite firstn_app, firstn_all, Nat.sub_diag, firstn_O, app_nil_r. reflexivity. Qed.

Lemma refine_shape fine coarse : trace_ok coarse -> trace_refines fine coarse ->
  trace_ok fine /\ apply fine = apply coarse /\ committed fine = committed coarse.
Proof.
  intros (bs & mt & c & s0 & body & d1 & tail & Hi & Ec & Hb & Hl & Hsz & Hrefs & Ht)
         (e0 & body' & d1' & tail' & fbody & ftail & Ec' & Hb' & Ef & Rb & Rt).
  rewrite Ec in Ec'. injection Ec' as E0 E1. subst e0.
  destruct (body_split_unique _ _ _ _ _ _ Hb Hb' E1) as (<- & <- & <-). clear E1 Hb'.
  set (e0 := PWrite 0 (encode s0)) in *. set (cm := PWrite 0 d1) in *.
  assert (Kb : forallb body_ok fbody = true).
  { unfold body_ok. apply (refines_keeps _ _ _ _ Rb); [apply N.le_refl|exact Hb]. }
  assert (Kt : forallb (keeps (s_bytes_used (decode d1))) ftail = true).
  { apply (refines_keeps _ _ _ _ Rt); [apply N.le_refl|exact Ht]. }
  assert (Apre : apply (e0 :: fbody ++ [cm]) = apply (e0 :: body ++ [cm])).
  { change (e0 :: fbody ++ [cm]) with ((e0 :: fbody) ++ [cm]). change (e0 :: body ++ [cm]) with ((e0 :: body) ++ [cm]).
    rewrite !apply_snoc, (apply_cons_from e0 fbody), (apply_cons_from e0 body). rewrite (refines_apply _ _ _ _ Rb). reflexivity. }
  assert (Etr : forall b t, e0 :: b ++ cm :: t = (e0 :: b ++ [cm]) ++ t).
  { intros b t. cbn [app]. rewrite <- app_assoc. reflexivity. }
  split; [|split].
  - exists bs, mt, c, s0, fbody, d1, ftail.
    split; [exact Hi|]. split; [exact Ef|]. split; [exact Kb|]. split; [exact Hl|]. split.
    + rewrite <- apply_length_l. fold e0 cm. rewrite Apre. rewrite apply_length_l. exact Hsz.
    + split; [exact Hrefs|exact Kt].
  - rewrite Ef, Ec. fold e0 cm. rewrite (Etr fbody ftail), (Etr body tail). unfold apply. rewrite !apply_from_app.
    fold (apply (e0 :: fbody ++ [cm])). fold (apply (e0 :: body ++ [cm])). rewrite Apre.
    apply (refines_apply _ _ _ _ Rt).
  - unfold committed. rewrite Ef, Ec. unfold cm. rewrite !commit_index_shape by assumption. fold cm.
    rewrite (Etr fbody ftail), (Etr body tail).
    replace (S (S (length fbody))) with (length (e0 :: fbody ++ [cm])) by (cbn [length]; rewrite app_length; cbn [length]; lia).
    replace (S (S (length body))) with (length (e0 :: body ++ [cm])) by (cbn [length]; rewrite app_length; cbn [length]; lia).
    rewrite !firstn_pre. exact Apre.
Qed.

Lemma refine_trace_ok_l fine coarse : trace_ok coarse -> trace_refines fine coarse -> trace_ok fine.
Proof. intros H R. exact (proj1 (refine_shape fine coarse H R)). Qed.

Lemma refine_apply_l fine coarse : trace_ok coarse -> trace_refines fine coarse -> apply fine = apply coarse.
Proof. intros H R. exact (proj1 (proj2 (refine_shape fine coarse H R))). Qed.

Lemma refine_committed_l fine coarse : trace_ok coarse -> trace_refines fine coarse ->
  committed fine = committed coarse.
Proof. intros H R. exact (proj2 (proj2 (refine_shape fine coarse H R))). Qed.

(* ---------- crash safety of the fine trace, relative to the coarse one ---------- *)

(* every kill point of the FINE trace up to its commit: refused *)
Lemma refined_prefix_rejected_l fine coarse : trace_ok coarse -> trace_refines fine coarse ->
  forall k, (k <= commit_index fine)%nat -> accepts (apply (firstn k fine)) = false.
Proof. intros H R. apply crash_prefix_rejected_l. exact (refine_trace_ok_l _ _ H R). Qed.

(* every kill point behind it: the committed file of the COARSE trace, up to bytes_used *)
Lemma refined_after_commit_l fine coarse : trace_ok coarse -> trace_refines fine coarse ->
  let F := committed coarse in
  let bu := s_bytes_used (decode F) in
  forall k, (commit_index fine < k)%nat ->
    firstn (N.to_nat bu) (apply (firstn k fine)) = firstn (N.to_nat bu) F /\
    decode (apply (firstn k fine)) = decode F.
Proof.
  intros H R. cbv zeta. rewrite <- (refine_committed_l _ _ H R).
  pose proof (after_commit_l fine (refine_trace_ok_l _ _ H R)) as A. cbv zeta in A. exact (proj2 (proj2 A)).
Qed.

(* the property, for the fine trace: at EVERY kill point (between any two of its calls, also inside a refined
   section) the file is refused or is the complete image of the coarse trace *)
Lemma refined_crash_safe_l fine coarse : trace_ok coarse -> trace_refines fine coarse ->
  forall k, accepts (apply (firstn k fine)) = false \/
            image_of (apply (firstn k fine)) = image_of (apply coarse).
Proof.
  intros H R k. rewrite <- (refine_apply_l _ _ H R). apply crash_safe_l. exact (refine_trace_ok_l _ _ H R).
Qed.

(* ---------- section-wise appends ---------- *)

Lemma pwrite_at_end (f d : list N) : pwrite (length f) d f = f ++ d.
Proof.
  unfold pwrite. destruct d as [|x d]; [rewrite app_nil_r; reflexivity|].
  unfold pad_to. rewrite Nat.sub_diag. cbn [zeros repeat]. rewrite app_nil_r, firstn_all.
  rewrite skipn_all2 by lia. rewrite app_nil_r. reflexivity.
Qed.

Lemma apply_ev_one F off d : off = N.of_nat (length F) -> apply_from F (ev_one off d) = F ++ d.
Proof.
  intros ->. unfold ev_one. destruct d as [|x d]; [rewrite app_nil_r; reflexivity|].
  rewrite apply_from_one. cbn [apply_ev]. rewrite Nat2N.id. apply pwrite_at_end.
Qed.

Lemma apply_ev_chunks : forall chunks F off, off = N.of_nat (length F) ->
  apply_from F (ev_chunks off chunks) = F ++ concat chunks.
Proof.
  induction chunks as [|c r IH]; intros F off E; cbn [ev_chunks concat].
  - rewrite app_nil_r. reflexivity.
  - rewrite apply_from_app, (apply_ev_one F off c E), IH.
    + rewrite app_assoc. reflexivity.
    + rewrite app_length, Nat2N.inj_add, E. reflexivity.
Qed.

Lemma ev_one_keeps lo off d : lo <= off -> forallb (keeps lo) (ev_one off d) = true.
Proof.
  intro H. unfold ev_one. destruct d; [reflexivity|]. cbn [forallb keeps]. rewrite andb_true_r. apply N.leb_le. exact H.
Qed.

Lemma ev_chunks_keeps lo : forall chunks off, lo <= off -> forallb (keeps lo) (ev_chunks off chunks) = true.
Proof.
  induction chunks as [|c r IH]; intros off H; [reflexivity|]. cbn [ev_chunks].
  rewrite forallb_app, ev_one_keeps by exact H. apply IH. lia.
Qed.

(* a segment that stays behind lo and appends d to a file of length off refines the coarse write of d at off
   (no event at all if d is empty) *)
Lemma append_seg lo F off d seg :
  off = N.of_nat (length F) -> forallb (keeps lo) seg = true -> apply_from F seg = F ++ d ->
  refines_from lo F seg (ev_one off d).
Proof.
  intros E K A. unfold ev_one. destruct d as [|x d].
  - apply refines_noop; [exact K|]. rewrite A. apply app_nil_r.
  - apply refines_one; [exact K|]. rewrite A. cbn [apply_ev]. rewrite E, Nat2N.id. symmetry. apply pwrite_at_end.
Qed.

(* in particular any chunking of the bytes *)
Lemma chunks_refine lo F off chunks :
  off = N.of_nat (length F) -> lo <= off ->
  refines_from lo F (ev_chunks off chunks) (ev_one off (concat chunks)).
Proof.
  intros E L. apply append_seg; [exact E|apply ev_chunks_keeps; exact L|apply apply_ev_chunks; exact E].
Qed.
