(* C14 — the output-call sequence of the writer at the granularity of the real system calls (definitions only).

   Composition of the models that exist for the parts of the writer:

     C (call order: lib/common/src/writer/init.c, the packers' main loops, finish.c)       model
     sqfs_super_write (init.c)               one pwrite of 96 bytes at 0                    PWrite 0 (encode s0)
     cmp->write_options                      compressor.c sqfs_generic_write_options:
                                             one write_at at sizeof(sqfs_super_t)           ev_one 96 opts
     block processor / block writer          block_writer.c write_data_block: one write_at
                                             per stored block at file->get_size();
                                             deduplicate_blocks: file->truncate(end of the
                                             last kept block)                               C08.DedupModel: p_evs of [pack]
                                                                                            (EvWrite / EvTrunc at absolute
                                                                                            offsets), started on the file
                                                                                            encode s0 ++ opts
     sqfs_serialize_fstree                   inode table: meta_writer.c write_block, one
                                             write_at per metadata block (2 byte header +
                                             the stored bytes, count re-read from the
                                             header) as the blocks fill up; directory
                                             table: the blocks kept in memory written one
                                             by one (sqfs_meta_write_write_to_file)         meta_blocks itbl, meta_blocks dtbl
     sqfs_frag_table_write,                  write_table.c: the metadata blocks one by
     ..._write_export_table,                 one, then ONE write_at of the location list    table_chunks
     sqfs_id_table_write
     sqfs_xattr_writer_flush                 key-value blocks, id blocks (meta writer),
                                             one write_at of the 16 byte header, one of
                                             the location list (write_location_table)      xattr_chunks (the CONTENT of the
                                                                                            section is an input, as in
                                                                                            Image.FinishModel)
     sqfs_super_write (finish.c)             one pwrite of 96 bytes at 0                    PWrite 0 (encode sf)
     padd_sqfs                               one write_at of zeros at get_size()            ev_one bytes_used zeros

   Every write_at of the C code is one pwrite (io/file.c stdio_write_at; a short count would add calls, the check counts
   them), a write_at of no bytes is no call at all. *)
From Coq Require Import List NArith ZArith Bool.
From SqfsV Require Import Base.Bytes Gen.Constants C03.Common C03.MetaModel C03.TableModel.
From SqfsV Require C14.SuperModel C08.DedupModel.
From SqfsV Require Import C14.TraceModel C14.RefineModel.
From SqfsV Require Import C01.Res Img.TreeModel Image.FinishModel Image.FinishProofs.
Import ListNotations.
Local Open Scope N_scope.

(* the block writer's log, as output calls *)
Definition conv_ev (e : DedupModel.ev) : event :=
  match e with
  | DedupModel.EvWrite off d => PWrite (N.of_nat off) d
  | DedupModel.EvTrunc sz => Truncate (N.of_nat sz)
  end.

(* meta_writer.c write_block: count = le16toh(header) & 0x7FFF; write_at(file, get_size(), data, count + 2).
   A metadata area is cut into the pieces it was written in by reading the headers front to back. *)
Fixpoint meta_chunks (fuel : nat) (b : list N) : list (list N) :=
  match b with
  | [] => []
  | _ :: _ =>
    match fuel with
    | O => [b]
    | S f =>
      let n := rd16 b mod META_FLAG + 2 in
      takeN n b :: meta_chunks f (dropN n b)
    end
  end.
Definition meta_blocks (b : list N) : list (list N) := meta_chunks (length b) b.

(* takeN / dropN that never turn a number beyond the list length into a nat (an absent table has start = 2^64 - 1) *)
Definition takeS (n : N) (l : list N) : list N := if lenN l <=? n then l else takeN n l.
Definition dropS (n : N) (l : list N) : list N := if lenN l <=? n then [] else dropN n l.

(* sqfs_write_table: [bytes] were appended at [size0], the location list begins at [start] *)
Definition table_chunks (size0 : N) (bytes : list N) (start : N) : list (list N) :=
  let nb := start - size0 in
  meta_blocks (takeS nb bytes) ++ [dropS nb bytes].

(* sqfs_xattr_writer_flush: [xb] appended at [size0], the id table header (sqfs_xattr_id_table_t) at [start] *)
Definition xattr_chunks (size0 : N) (xb : list N) (start : N) : list (list N) :=
  let off := start - size0 in
  meta_blocks (takeS off xb) ++
  [takeS sizeof_sqfs_xattr_id_table_t (dropS off xb); dropS (off + sizeof_sqfs_xattr_id_table_t) xb].

(* the calls of a whole run: [data_evs] are the block writer's calls *)
Definition fine_trace (opts : list N) (w : wimage) (data_evs : list event) : list event :=
  let s0 := w_super0 w in
  let sf := w_super w in
  let img := w_img w in
  [PWrite 0 (SuperModel.encode s0)] ++
  ev_one sizeof_sqfs_super_t opts ++
  data_evs ++
  ev_chunks (SuperModel.s_inode_start sf) (meta_blocks (si_itbl img)) ++
  ev_chunks (SuperModel.s_dir_start sf) (meta_blocks (si_dtbl img)) ++
  ev_chunks (o_frag w) (table_chunks (o_frag w) (w_fragb w) (SuperModel.s_frag_start sf)) ++
  ev_chunks (o_export w) (table_chunks (o_export w) (w_exportb w) (SuperModel.s_export_start sf)) ++
  ev_chunks (o_id w) (table_chunks (o_id w) (w_idb w) (SuperModel.s_id_start sf)) ++
  ev_chunks (o_xattr w) (xattr_chunks (o_xattr w) (w_xattrb w) (SuperModel.s_xattr_start sf)) ++
  [PWrite 0 (SuperModel.encode sf)] ++
  ev_one (SuperModel.s_bytes_used sf) (FinishModel.zeros (w_pad w)).

(* ---- the composed writer ---- *)

(* what the packer feeds the writer with *)
Record finput := mkFin {
  fi_opts : list N;                                       (* what cmp->write_options wrote *)
  fi_files : list (DedupModel.uflags * list N);           (* the regular files in packing order: flags, content *)
  fi_sched : list nat;                                    (* thread pool schedule (C08: fragment blocks done before each file) *)
  fi_tree : fstree;
  fi_xattr : option (list N * N)
}.

Section Fine.
  (* data path oracles (block processor): no hypothesis on any of them *)
  Variable hashf : list N -> N.
  Variable dcompress : list N -> option (list N).
  Variable duncompress : list N -> nat -> option (list N).
  Variable hash_only bytecmp : bool.
  Variable half : nat.
  (* metadata compressor and id table limit, as in Image.FinishModel *)
  Variable compress : list N -> cres.
  Variable limit : N.

  (* the fragment table the block processor leaves (sqfs_frag_table_t) *)
  Definition frags_of (st : DedupModel.proc) : list (N * N) :=
    map (fun i => (N.of_nat (fst (DedupModel.p_ftab st i)), snd (DedupModel.p_ftab st i)))
        (seq 0 (DedupModel.p_nfrag st)).

  (* the input of write_image after the data phase *)
  Definition winput_of (fin : finput) (file0 : list N) (st : DedupModel.proc) : winput :=
    mkIn (fi_opts fin) (skipn (length file0) (DedupModel.w_file (DedupModel.p_wr st))) (frags_of st)
         (fi_tree fin) (fi_xattr fin).

  Inductive fres : Type :=
  | FOk (inp : winput) (w : wimage) (tr : list event)
  | FData                       (* the block processor failed (I/O error reading back, model fuel) *)
  | FErr (e : Z) | FCrash | FFuel.

  Definition fine_write (cfg : wcfg) (fin : finput) : fres :=
    match SuperModel.super_init (c_block_size cfg) (c_mtime cfg) (c_comp_id cfg) with
    | SuperModel.Err e => FErr e
    | SuperModel.OutOfFuel => FFuel
    | SuperModel.Ok s0 =>
      let file0 := SuperModel.encode s0 ++ fi_opts fin in
      match DedupModel.pack hashf dcompress duncompress (N.to_nat (c_block_size cfg)) hash_only bytecmp half
                            file0 (fi_files fin) (fi_sched fin) with
      | DedupModel.Ok st =>
        let inp := winput_of fin file0 st in
        match write_image compress limit cfg inp with
        | Ok w => FOk inp w (fine_trace (fi_opts fin) w (map conv_ev (DedupModel.p_evs st)))
        | Err e => FErr e
        | Crash => FCrash
        | OutOfFuel => FFuel
        end
      | _ => FData
      end
    end.
End Fine.
