(* C14 — beyond the property's granularity: a commit write the kernel split.
   io/file.c stdio_write_at loops over pwrite; if the kernel took only the first c bytes of the
   96-byte commit, the next pwrite is its own system call and the gap is a crash point.  The file
   then starts with  firstn c (final superblock) ++ skipn c (provisional superblock).
   As long as c stops before the end of id_table_start (byte 56) the second lock still holds:
   the top byte of id_table_start is still 0xFF while bytes_used is below 2^56. *)
From Coq Require Import List NArith ZArith Bool Lia.
From SqfsV Require Import Base.Bytes Gen.Constants C14.SuperModel C14.SuperProofs.
Import ListNotations.
Local Open Scope N_scope.

Lemma rd_low : forall k l, 256 ^ N.of_nat k * nth k l 0 <= rd (S k) l.
Proof.
  induction k as [|k IH]; intro l.
  - change (256 ^ N.of_nat 0) with 1.
    destruct l as [|b r]; cbn [rd nth]; lia.
  - destruct l as [|b r].
    + cbn [nth rd]. lia.
    + change (rd (S (S k)) (b :: r)) with (b + 256 * rd (S k) r).
      cbn [nth]. specialize (IH r).
      rewrite Nat2N.inj_succ, N.pow_succ_r'. nia.
Qed.

Lemma rd_top0 : forall k l, nth k l 0 = 0 -> rd (S k) l = rd k l.
Proof.
  induction k as [|k IH]; intros l H.
  - destruct l as [|b r]; [reflexivity|]. cbn [nth] in H. subst b. cbn [rd]. destruct r; reflexivity.
  - destruct l as [|b r]; [reflexivity|]. cbn [nth] in H.
    change (rd (S (S k)) (b :: r)) with (b + 256 * rd (S k) r).
    change (rd (S k) (b :: r)) with (b + 256 * rd k r).
    rewrite IH by exact H. reflexivity.
Qed.

Lemma nth_skipn_plus : forall n i (l : list N), nth i (skipn n l) 0 = nth (n + i) l 0.
Proof.
  induction n as [|n IH]; intros i l; [reflexivity|].
  destruct l as [|b r]; [destruct i; reflexivity|]. cbn [skipn plus nth]. apply IH.
Qed.

Lemma nth_firstn_lt : forall n i (l : list N), (i < n)%nat -> nth i (firstn n l) 0 = nth i l 0.
Proof.
  induction n as [|n IH]; intros i l H; [lia|].
  destruct l as [|b r]; [destruct i; reflexivity|].
  destruct i as [|i]; [reflexivity|]. cbn [firstn nth]. apply IH. lia.
Qed.

(* bytes of an encoded field list *)
Lemma nth_enc_at : forall fl i k v j,
  nth_error fl i = Some (k, v) -> (j < k)%nat ->
  nth (width (firstn i fl) + j) (enc fl) 0 = nth j (le k v) 0.
Proof.
  intros fl i k v j H Hj.
  destruct (nth_error_split fl i H) as (pre & post & -> & Hl).
  rewrite firstn_app, <- Hl, firstn_all, Nat.sub_diag. simpl firstn. rewrite app_nil_r.
  rewrite enc_app. simpl enc. rewrite <- (enc_length pre).
  rewrite app_nth2_plus. apply app_nth1. rewrite le_length. exact Hj.
Qed.

Definition OFF_BU : nat := N.to_nat off_sqfs_super_t_bytes_used.
Definition OFF_IDS : nat := N.to_nat off_sqfs_super_t_id_table_start.

Lemma prov_byte_ids_top bs mt c s0 : super_init bs mt c = Ok s0 ->
  nth (OFF_IDS + 7) (encode s0) 0 = 255.
Proof.
  intros H. apply super_init_ok in H. destruct H as (-> & _).
  unfold encode.
  match goal with |- nth _ (enc (fields ?s)) 0 = _ =>
    exact (eq_trans (nth_enc_at (fields s) 13 8 NO_TABLE 7 eq_refl (Nat.lt_succ_diag_r 7)) eq_refl)
  end.
Qed.

Lemma prov_byte_bu_top bs mt c s0 : super_init bs mt c = Ok s0 ->
  nth (OFF_BU + 7) (encode s0) 0 = 0.
Proof.
  intros H. apply super_init_ok in H. destruct H as (-> & _).
  unfold encode.
  match goal with |- nth _ (enc (fields ?s)) 0 = _ =>
    exact (eq_trans (nth_enc_at (fields s) 12 8 sizeof_sqfs_super_t 7 eq_refl (Nat.lt_succ_diag_r 7)) eq_refl)
  end.
Qed.

(* the mixed header *)
Definition torn (c : nat) (d1 e0 : list N) : list N := firstn c d1 ++ skipn c e0.

Lemma torn_length c d1 e0 : length d1 = SB -> length e0 = SB -> (c <= SB)%nat -> length (torn c d1 e0) = SB.
Proof.
  intros H1 H2 Hc. unfold torn. rewrite app_length, firstn_length, skipn_length. lia.
Qed.

Lemma torn_hi c d1 e0 i : length d1 = SB -> (c <= SB)%nat -> (c <= i)%nat ->
  nth i (torn c d1 e0) 0 = nth i e0 0.
Proof.
  intros H1 Hc Hi. unfold torn.
  assert (Hl : length (firstn c d1) = c) by (rewrite firstn_length; lia).
  replace i with (length (firstn c d1) + (i - c))%nat at 1 by lia.
  rewrite app_nth2_plus, nth_skipn_plus. f_equal. lia.
Qed.

Lemma torn_lo c d1 e0 i : length d1 = SB -> (c <= SB)%nat -> (i < c)%nat ->
  nth i (torn c d1 e0) 0 = nth i d1 0.
Proof.
  intros H1 Hc Hi. unfold torn.
  rewrite app_nth1 by (rewrite firstn_length; lia).
  apply nth_firstn_lt. exact Hi.
Qed.

Lemma torn_bytes_ok c d1 e0 : bytes_ok d1 -> bytes_ok e0 -> bytes_ok (torn c d1 e0).
Proof.
  intros H1 H2. unfold torn. apply bytes_ok_app. split.
  - apply bytes_ok_firstn. exact H1.
  - apply bytes_ok_skipn. exact H2.
Qed.

Lemma encode_bytes_ok s : bytes_ok (encode s).
Proof.
  unfold encode. induction (fields s) as [|[k v] r IH]; simpl; [constructor|].
  apply bytes_ok_app. split; [apply le_bytes_ok|exact IH].
Qed.

Lemma pow256_7 : 256 ^ N.of_nat 7 = 2 ^ 56.
Proof. reflexivity. Qed.

Lemma torn_commit_rejected_l bs mt comp s0 d1 c rest :
  super_init bs mt comp = Ok s0 ->
  bytes_ok d1 -> length d1 = SB ->
  (c < OFF_IDS + 8)%nat ->
  s_bytes_used (decode d1) < 2 ^ 56 ->
  accepts (firstn c d1 ++ skipn c (encode s0) ++ rest) = false.
Proof.
  intros Hi Hok Hl Hc Hbu.
  assert (HcSB : (c <= SB)%nat) by (revert Hc; unfold OFF_IDS, SB; vm_compute; lia).
  pose proof (encode_length s0) as Hle.
  rewrite app_assoc. fold (torn c d1 (encode s0)).
  rewrite <- accepts_firstn_l.
  rewrite firstn_app, (torn_length c d1 (encode s0) Hl Hle HcSB), Nat.sub_diag, firstn_O, app_nil_r.
  rewrite <- (torn_length c d1 (encode s0) Hl Hle HcSB) at 1. rewrite firstn_all.
  set (M := torn c d1 (encode s0)).
  assert (HMok : bytes_ok M) by (apply torn_bytes_ok; [exact Hok|apply encode_bytes_ok]).
  apply idstart_rejected.
  (* id_table_start of the mixed header: its top byte is still the provisional 0xFF *)
  assert (Hids : 2 ^ 56 * 255 <= s_id_start (decode M)).
  { change (s_id_start (decode M)) with (rd 8 (skipn OFF_IDS M)).
    pose proof (rd_low 7 (skipn OFF_IDS M)) as H.
    rewrite nth_skipn_plus in H.
    unfold M in H at 1. rewrite torn_hi in H by (try assumption; lia).
    rewrite (prov_byte_ids_top _ _ _ _ Hi) in H. rewrite pow256_7 in H. exact H. }
  (* bytes_used of the mixed header: its top byte is 0 on either side of the cut *)
  assert (Htop : nth (OFF_BU + 7) M 0 = 0).
  { destruct (Nat.le_gt_cases c (OFF_BU + 7)) as [Hle'|Hgt].
    - unfold M. rewrite torn_hi by (try assumption; lia). apply (prov_byte_bu_top _ _ _ _ Hi).
    - unfold M. rewrite torn_lo by (try assumption; lia).
      change (s_bytes_used (decode d1)) with (rd 8 (skipn OFF_BU d1)) in Hbu.
      pose proof (rd_low 7 (skipn OFF_BU d1)) as H. rewrite nth_skipn_plus, pow256_7 in H.
      assert (Hp : 0 < 2 ^ 56) by (vm_compute; reflexivity).
      nia. }
  assert (Hbu' : s_bytes_used (decode M) < 2 ^ 56).
  { change (s_bytes_used (decode M)) with (rd 8 (skipn OFF_BU M)).
    rewrite rd_top0 by (rewrite nth_skipn_plus; exact Htop).
    rewrite <- pow256_7. apply rd_bound. apply bytes_ok_skipn. exact HMok. }
  lia.
Qed.
