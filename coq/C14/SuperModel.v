(* C14 — model of the superblock code every reader and the writer start with.
   lib/sqfs/src/super.c        sqfs_super_init
   lib/sqfs/src/write_super.c  sqfs_super_write   (byte layout)
   lib/sqfs/src/read_super.c   sqfs_super_read    (incl. the short-file outcome of io/file.c read_at)
   lib/sqfs/src/id_table.c     sqfs_id_table_read (the guard it starts with)
   Definitions only.  All constants come from Gen/Constants.v (generated from the headers). *)
From Coq Require Import List NArith ZArith Bool.
From SqfsV Require Import Base.Bytes Gen.Constants.
Import ListNotations.
Local Open Scope N_scope.

Inductive res (A : Type) : Type :=
| Ok (a : A)
| Err (e : Z)
| OutOfFuel.
Arguments Ok {A} a.
Arguments Err {A} e.
Arguments OutOfFuel {A}.

(* sqfs_super_t, include/sqfs/super.h; every field an unbounded N, truncation happens in [encode] *)
Record super : Type := mkSuper {
  s_magic : N;            (* u32 *)
  s_inode_count : N;      (* u32 *)
  s_mtime : N;            (* u32 *)
  s_block_size : N;       (* u32 *)
  s_frag_count : N;       (* u32 *)
  s_comp_id : N;          (* u16 *)
  s_block_log : N;        (* u16 *)
  s_flags : N;            (* u16 *)
  s_id_count : N;         (* u16 *)
  s_vmaj : N;             (* u16 *)
  s_vmin : N;             (* u16 *)
  s_root_ref : N;         (* u64 *)
  s_bytes_used : N;       (* u64 *)
  s_id_start : N;         (* u64 *)
  s_xattr_start : N;      (* u64 *)
  s_inode_start : N;      (* u64 *)
  s_dir_start : N;        (* u64 *)
  s_frag_start : N;       (* u64 *)
  s_export_start : N      (* u64 *)
}.

(* ---- byte layout: a list of (width, value) fields written little endian one after the other ---- *)
Fixpoint enc (fl : list (nat * N)) : list N :=
  match fl with
  | [] => []
  | (k, v) :: r => le k v ++ enc r
  end.

Fixpoint width (fl : list (nat * N)) : nat :=
  match fl with
  | [] => O
  | (k, _) :: r => (k + width r)%nat
  end.

Definition fields (s : super) : list (nat * N) :=
  [ (4%nat, s_magic s); (4%nat, s_inode_count s); (4%nat, s_mtime s); (4%nat, s_block_size s);
    (4%nat, s_frag_count s);
    (2%nat, s_comp_id s); (2%nat, s_block_log s); (2%nat, s_flags s); (2%nat, s_id_count s);
    (2%nat, s_vmaj s); (2%nat, s_vmin s);
    (8%nat, s_root_ref s); (8%nat, s_bytes_used s); (8%nat, s_id_start s); (8%nat, s_xattr_start s);
    (8%nat, s_inode_start s); (8%nat, s_dir_start s); (8%nat, s_frag_start s);
    (8%nat, s_export_start s) ].

(* sqfs_super_write: the 96 bytes handed to write_at(file, 0, ...) *)
Definition encode (s : super) : list N := enc (fields s).

(* size of the superblock as a list length *)
Definition SB : nat := N.to_nat sizeof_sqfs_super_t.

(* the le*toh block of sqfs_super_read: every field is read at the offset the header gives it *)
Definition fld (k : nat) (off : N) (f : list N) : N := rd k (skipn (N.to_nat off) f).

Definition decode (f : list N) : super :=
  mkSuper
    (fld 4 off_sqfs_super_t_magic f)
    (fld 4 off_sqfs_super_t_inode_count f)
    (fld 4 off_sqfs_super_t_modification_time f)
    (fld 4 off_sqfs_super_t_block_size f)
    (fld 4 off_sqfs_super_t_fragment_entry_count f)
    (fld 2 off_sqfs_super_t_compression_id f)
    (fld 2 off_sqfs_super_t_block_log f)
    (fld 2 off_sqfs_super_t_flags f)
    (fld 2 off_sqfs_super_t_id_count f)
    (fld 2 off_sqfs_super_t_version_major f)
    (fld 2 off_sqfs_super_t_version_minor f)
    (fld 8 off_sqfs_super_t_root_inode_ref f)
    (fld 8 off_sqfs_super_t_bytes_used f)
    (fld 8 off_sqfs_super_t_id_table_start f)
    (fld 8 off_sqfs_super_t_xattr_id_table_start f)
    (fld 8 off_sqfs_super_t_inode_table_start f)
    (fld 8 off_sqfs_super_t_directory_table_start f)
    (fld 8 off_sqfs_super_t_fragment_table_start f)
    (fld 8 off_sqfs_super_t_export_table_start f).

(* what a struct of u32/u16/u64 fields can hold *)
Definition trunc (s : super) : super :=
  mkSuper (s_magic s mod 2^32) (s_inode_count s mod 2^32) (s_mtime s mod 2^32)
          (s_block_size s mod 2^32) (s_frag_count s mod 2^32)
          (s_comp_id s mod 2^16) (s_block_log s mod 2^16) (s_flags s mod 2^16)
          (s_id_count s mod 2^16) (s_vmaj s mod 2^16) (s_vmin s mod 2^16)
          (s_root_ref s mod 2^64) (s_bytes_used s mod 2^64) (s_id_start s mod 2^64)
          (s_xattr_start s mod 2^64) (s_inode_start s mod 2^64) (s_dir_start s mod 2^64)
          (s_frag_start s mod 2^64) (s_export_start s mod 2^64).

Definition super_in_range (s : super) : Prop :=
  s_magic s < 2^32 /\ s_inode_count s < 2^32 /\ s_mtime s < 2^32 /\ s_block_size s < 2^32 /\
  s_frag_count s < 2^32 /\
  s_comp_id s < 2^16 /\ s_block_log s < 2^16 /\ s_flags s < 2^16 /\ s_id_count s < 2^16 /\
  s_vmaj s < 2^16 /\ s_vmin s < 2^16 /\
  s_root_ref s < 2^64 /\ s_bytes_used s < 2^64 /\ s_id_start s < 2^64 /\ s_xattr_start s < 2^64 /\
  s_inode_start s < 2^64 /\ s_dir_start s < 2^64 /\ s_frag_start s < 2^64 /\
  s_export_start s < 2^64.

(* ---- sqfs_super_init ---- *)

Definition NO_TABLE : N := 2^64 - 1.      (* 0xFFFFFFFFFFFFFFFFUL *)

(* for (i = block_size; i != 0x01; i >>= 1) super->block_log += 1; *)
Fixpoint log2_loop (fuel : nat) (i acc : N) : option N :=
  match fuel with
  | O => None
  | S f => if i =? 1 then Some acc else log2_loop f (i / 2) (acc + 1)
  end.

Definition init_flags : N :=
  N.lor (N.lor c_SQFS_FLAG_NO_FRAGMENTS c_SQFS_FLAG_NO_XATTRS) c_SQFS_FLAG_NO_DUPLICATES.

(* block_size: size_t; mtime: sqfs_u32; compressor: enum stored into a u16 field *)
Definition super_init (block_size mtime comp : N) : res super :=
  if negb (N.land block_size (block_size - 1) =? 0) then Err c_SQFS_ERROR_SUPER_BLOCK_SIZE else
  if block_size <? c_SQFS_MIN_BLOCK_SIZE then Err c_SQFS_ERROR_SUPER_BLOCK_SIZE else
  if c_SQFS_MAX_BLOCK_SIZE <? block_size then Err c_SQFS_ERROR_SUPER_BLOCK_SIZE else
  match log2_loop 64 block_size 0 with
  | None => OutOfFuel
  | Some lg =>
    Ok (mkSuper c_SQFS_MAGIC 0 (mtime mod 2^32) block_size 0
                (comp mod 2^16) lg init_flags 0
                c_SQFS_VERSION_MAJOR c_SQFS_VERSION_MINOR
                0 sizeof_sqfs_super_t
                NO_TABLE NO_TABLE NO_TABLE NO_TABLE NO_TABLE NO_TABLE)
  end.

(* ---- sqfs_super_read on a file given as its byte list ----
   read_at(file, 0, &temp, sizeof(temp)) of io/file.c: pread returns 0 before 96 bytes were
   delivered -> SQFS_ERROR_OUT_OF_BOUNDS. *)
Definition super_read (f : list N) : res super :=
  if N.of_nat (length f) <? sizeof_sqfs_super_t then Err c_SQFS_ERROR_OUT_OF_BOUNDS else
  let s := decode f in
  if negb (s_magic s =? c_SQFS_MAGIC) then Err c_SFQS_ERROR_SUPER_MAGIC else
  if negb (s_vmaj s =? c_SQFS_VERSION_MAJOR) || negb (s_vmin s =? c_SQFS_VERSION_MINOR)
  then Err c_SFQS_ERROR_SUPER_VERSION else
  if negb (N.land (s_block_size s - 1) (s_block_size s) =? 0) then Err c_SQFS_ERROR_SUPER_BLOCK_SIZE else
  if s_block_size s <? c_SQFS_MIN_BLOCK_SIZE then Err c_SQFS_ERROR_SUPER_BLOCK_SIZE else
  if c_SQFS_MAX_BLOCK_SIZE <? s_block_size s then Err c_SQFS_ERROR_SUPER_BLOCK_SIZE else
  if (s_block_log s <? 12) || (20 <? s_block_log s) then Err c_SQFS_ERROR_CORRUPTED else
  if negb (s_block_size s =? 2 ^ s_block_log s) then Err c_SQFS_ERROR_CORRUPTED else
  if (s_comp_id s <? c_SQFS_COMP_MIN) || (c_SQFS_COMP_MAX <? s_comp_id s)
  then Err c_SQFS_ERROR_UNSUPPORTED else
  if s_id_count s =? 0 then Err c_SQFS_ERROR_CORRUPTED else
  Ok s.

(* ---- sqfs_id_table_read: if (!super->id_count || super->id_table_start >= super->bytes_used) ---- *)
Definition idcount_ok (s : super) : bool := negb (s_id_count s =? 0).
Definition idstart_ok (s : super) : bool := s_id_start s <? s_bytes_used s.
Definition id_table_guard (s : super) : bool := idcount_ok s && idstart_ok s.

(* what rdsquashfs (rdsquashfs.c main) and sqfs2tar (iterator.c tar_compat_iterator_create) do with
   the file before they look at anything else; false = the reader exits with an error. *)
Definition accepts (f : list N) : bool :=
  match super_read f with
  | Ok s => id_table_guard s
  | _ => false
  end.

(* the error code the two calls produce, 0 = both passed (for the correspondence) *)
Definition open_verdict (f : list N) : Z * Z :=
  match super_read f with
  | Ok s => (0%Z, if id_table_guard s then 0%Z else c_SQFS_ERROR_CORRUPTED)
  | Err e => (e, 0%Z)
  | OutOfFuel => (1%Z, 1%Z)
  end.
