(* C17 — the directive theorems in closed form (what Properties_C17.v exports), for every checksum
   function, every contract-abiding compressor, every block size the format allows, every list of
   files / flags / contents and every schedule of the pool. *)
From Coq Require Import List NArith Arith Bool Lia Sorted.
From SqfsV Require Import Gen.Constants.
From SqfsV Require Import C08.DedupModel C08.DedupLemmas C08.DedupWriterProofs C08.DedupReaderProofs
     C08.DedupPipeProofs C08.DedupTheorems.
From SqfsV Require Import C17.GenC17 C17.SortModel C17.FlagModel C17.FlagSpec C17.FlagWriter C17.FlagFinal
     C17.FlagPipe.
Import ListNotations.

(* ---------------------------------------------------------------------- *)
(* logs                                                                     *)

Lemma LogOk_app base dd newer e older :
  LogOk base dd (newer ++ e :: older) -> entry_ok base dd older e /\ LogOk base dd older.
Proof. induction newer as [|x newer IH]; simpl; [tauto|]. intros [_ H]. apply IH. assumption. Qed.

Lemma sorted_gt_app_head a x b y : StronglySorted gt (a ++ x :: b) -> In y a -> y > x.
Proof.
  induction a as [|z a IH]; simpl; [intros _ []|].
  intros S [->|H].
  - apply StronglySorted_inv in S. destruct S as [_ F]. rewrite Forall_forall in F. apply F.
    apply in_or_app. right. left. reflexivity.
  - apply IH; [|assumption]. apply StronglySorted_inv in S. tauto.
Qed.

(* ---------------------------------------------------------------------- *)

Section Closed.
Variable hashf : list N -> N.
Variable compress : list N -> option (list N).
Variable uncompress : list N -> nat -> option (list N).
Variable bs half : nat.
Hypothesis Hcomp : forall b c, compress b = Some c ->
  length c < length b /\ forall n, length b <= n -> uncompress c n = Some b.
Hypothesis Hbs : 0 < bs.
Hypothesis Hmax : (N.of_nat bs <= c_SQFS_MAX_BLOCK_SIZE)%N.
Hypothesis Hhalf : 0 < half.

Variable file0 : list N.
Variable files : list (uflags * list N).
Variable sched : list nat.
Variable st : proc.
Hypothesis Hpack : pack hashf compress uncompress bs false true half file0 files sched = Ok st.

Notation work := (work_block hashf compress).
Notation PInv' := (PInv hashf compress uncompress bs (length file0) files).
Notation LInv' := (LInv hashf compress bs (length file0) files).
Notation FInv' := (FInv bs files).
Notation ddata := (disk_data hashf compress bs).
Let Hsmall : small bs := max_block_size_small bs Hmax.

Lemma final_all : exists claims fbd log D,
  PInv' st [] claims fbd (length files) (length files) /\ p_fragblk st = None /\
  LInv' st [] (length files) log /\ FInv' st [] (length files) D.
Proof.
  destruct (x_pack hashf compress uncompress bs half (length file0) Hcomp Hbs Hsmall Hhalf files file0 sched eq_refl)
    as (st' & claims & fbd & log & D & E & HP & Hfb & HL & HF).
  rewrite Hpack in E. inversion E; subst st'. exists claims, fbd, log, D. split; [exact HP|]. split; [exact Hfb|]. split; [exact HL|exact HF].
Qed.

Lemma sdata_of fid fl d : nth_error files fid = Some (fl, d) ->
  sdata hashf compress bs files fid = filter stored (file_pbs hashf compress bs fl d) /\
  dlen hashf compress bs files fid = length (ddata fl d) /\
  fl_of bs files fid = fl.
Proof.
  intro H. unfold sdata, dlen, sdata, fl_of, disk_data.
  rewrite (jpbs_of_file hashf compress bs half files fid fl d Hbs Hhalf H).
  destruct (job_of_file bs half files fid fl d Hbs Hhalf H) as [_ J]. rewrite J, file_job_fl.
  repeat split; reflexivity.
Qed.

(* ---- dont_compress: the fragment block ---- *)

Lemma dont_compress_fragment_l fid fl d idx o t :
  nth_error files fid = Some (fl, d) -> uf_dont_compress fl = true ->
  p_frag st fid = Some (idx, o) -> j_tail (file_job bs fl d) = Some t ->
  (forall fid', fid' < fid -> p_frag st fid' <> Some (idx, o)) ->
  exists loc n,
    p_ftab st idx = (loc, sw_of n false) /\ o + length t <= n <= bs /\
    loc + n <= length (w_file (p_wr st)) /\
    slice (w_file (p_wr st)) (loc + o) (length t) = t.
Proof.
  intros Hn Hdc Hfr Ht Hfresh.
  destruct final_all as (claims & fbd & log & D & HP & Hfb & HL & HF).
  destruct (job_of_file bs half files fid fl d Hbs Hhalf Hn) as [L J].
  destruct (sdata_of fid fl d Hn) as (_ & _ & Hfl).
  destruct HF as [F1 F2 F3 F4 F5 F6].
  assert (HD : In idx D).
  { apply (F3 fid idx o L); [unfold dc_of; rewrite Hfl; assumption|assumption|assumption]. }
  destruct (F2 idx HD) as (Hi & _ & _ & Hz).
  pose proof HP as [P1 P2 P3 P4 P5 P6 P7 P8 P9 P10 P11 P12 P13].
  destruct (P6 idx Hi) as [(fb & C & _)|[[]|Hod]]; [congruence|].
  pose proof (OnDisk_ftab_nonzero uncompress bs half Hbs Hsmall Hhalf st claims fbd idx Hod) as Hnz.
  destruct Hod as (loc & p & H1 & H2 & H3 & H4 & H5).
  pose proof (claim_holds hashf compress uncompress bs (length file0) files st [] claims fbd _ _ _ HP H2)
    as [Hc1 Hc2]. cbn [fst snd] in Hc1, Hc2.
  destruct H4 as (_ & Hle & _ & S2). destruct (S2 H3) as (Hne & R1 & _). destruct H5 as [Hl1 Hl2].
  assert (Sm : small (length (pb_data p))) by (eapply small_le; [|exact Hsmall]; lia).
  rewrite H1 in Hz, Hnz. cbn [snd] in Hz, Hnz. rewrite word_nonsparse in Hz, Hnz by assumption.
  destruct Hz as [Hz|Hz]; [inversion Hz; congruence|].
  rewrite sw_compressed_of in Hz by assumption.
  specialize (R1 Hz).
  destruct (P11 fid idx o Hfr) as (_ & t' & Ht' & _ & Hb & Hs).
  rewrite J, Ht in Ht'. inversion Ht'; subst t'.
  exists loc, (length (fbd idx)). rewrite H1, word_nonsparse by assumption. rewrite Hz, R1.
  split; [reflexivity|]. split; [lia|]. rewrite R1 in Hc1, Hc2. split; [assumption|].
  rewrite <- (slice_slice (w_file (p_wr st)) loc (length (fbd idx)) o (length t)) by assumption.
  rewrite Hc2. assumption.
Qed.

(* a tail end that differs from the tail end of every earlier file is not deduplicated *)
Lemma distinct_tail_unshared_l fid fl d idx o t :
  nth_error files fid = Some (fl, d) -> p_frag st fid = Some (idx, o) ->
  j_tail (file_job bs fl d) = Some t ->
  (forall fid' fl' d', fid' < fid -> nth_error files fid' = Some (fl', d') ->
                       j_tail (file_job bs fl' d') <> Some t) ->
  forall fid', fid' < fid -> p_frag st fid' <> Some (idx, o).
Proof.
  intros Hn Hfr Ht Hdist fid' Hlt C.
  destruct final_all as (claims & fbd & log & D & HP & Hfb & HL & HF).
  destruct (job_of_file bs half files fid fl d Hbs Hhalf Hn) as [L J].
  destruct HF as [F1 F2 F3 F4 F5 F6].
  pose proof HP as [P1 P2 P3 P4 P5 P6 P7 P8 P9 P10 P11 P12 P13].
  destruct (P11 fid' idx o C) as (_ & t' & Ht' & _).
  assert (L' : fid' < length files) by lia.
  destruct (nth_error files fid') as [[fl' d']|] eqn:En'; [|apply nth_error_None in En'; lia].
  destruct (job_of_file bs half files fid' fl' d' Hbs Hhalf En') as [_ J'].
  assert (Et : t' = t).
  { apply (F6 fid fid' idx o t t' L Hlt Hfr C); [rewrite J; assumption|assumption]. }
  subst t'. apply (Hdist fid' fl' d' Hlt En'). rewrite <- J'. assumption.
Qed.

(* ---- dont_deduplicate / layout ---- *)

Lemma log_entry log fid :
  LInv' st [] (length files) log -> fid < length files -> stores hashf compress bs files fid ->
  exists newer older e,
    log = newer ++ e :: older /\ le_kind e = LFile fid /\ le_loc e = p_start st fid /\
    le_len e = dlen hashf compress bs files fid.
Proof.
  intros [X1 X2 X3 X4 X5 X6 X7 X8] L Hs.
  destruct (X8 fid L Hs) as [[]|Hin].
  apply log_fids_in in Hin. destruct Hin as (e & He & Hk).
  destruct (in_split e log He) as (newer & older & El).
  destruct (X5 e fid He Hk) as (_ & _ & H3 & H4).
  exists newer, older, e. split; [exact El|]. split; [exact Hk|]. split; assumption.
Qed.

(* the layout log exists and has all its properties (the strong form) *)
Lemma layout_log_l : exists log,
  LogOk (length file0) (fun fid => uf_dont_dedup (fl_of bs files fid)) log /\
  length (w_file (p_wr st)) = wm (length file0) log /\
  StronglySorted gt (log_fids log) /\
  (forall fid fl d, nth_error files fid = Some (fl, d) -> ddata fl d <> [] ->
     In {| le_kind := LFile fid; le_loc := p_start st fid; le_len := length (ddata fl d) |} log) /\
  (forall e fid, In e log -> le_kind e = LFile fid ->
     exists fl d, nth_error files fid = Some (fl, d) /\ ddata fl d <> [] /\
                  le_loc e = p_start st fid /\ le_len e = length (ddata fl d)) /\
  (forall e idx, In e log -> le_kind e = LFrag idx ->
     idx < p_nfrag st /\ 0 < le_len e /\
     exists w, p_ftab st idx = (le_loc e, w) /\ sw_size w = le_len e).
Proof.
  destruct final_all as (claims & fbd & log & D & HP & Hfb & HL & HF).
  exists log. pose proof HL as [X1 X2 X3 X4 X5 X6 X7 X8].
  split; [exact X4|]. split; [exact X3|]. split; [exact X7|]. split; [|split; [|exact X6]].
  - intros fid fl d Hn Hne.
    destruct (job_of_file bs half files fid fl d Hbs Hhalf Hn) as [L _].
    destruct (sdata_of fid fl d Hn) as (Hsd & Hdl & _).
    assert (Hs : stores hashf compress bs files fid).
    { unfold stores. rewrite Hsd. intro C. apply Hne. unfold disk_data. rewrite C. reflexivity. }
    destruct (log_entry log fid HL L Hs) as (newer & older & e & El & Hk & Hloc & Hlen).
    rewrite El. apply in_or_app. right. left. destruct e as [k lo le]. simpl in *. subst. rewrite Hdl. reflexivity.
  - intros e fid He Hk. destruct (X5 e fid He Hk) as (H1 & H2 & H3 & H4).
    destruct (nth_error files fid) as [[fl d]|] eqn:En; [|apply nth_error_None in En; lia].
    destruct (sdata_of fid fl d En) as (Hsd & Hdl & _).
    exists fl, d. split; [reflexivity|]. split.
    + intro C. unfold stores in H2. rewrite Hsd in H2. unfold disk_data in C.
      destruct (filter stored (file_pbs hashf compress bs fl d)) as [|b r] eqn:Ef; [contradiction|].
      pose proof (filter_stored_all (file_pbs hashf compress bs fl d)) as Hall. rewrite Ef in Hall.
      pose proof (all_stored_cat_pos _ Hall ltac:(discriminate)) as Hp. rewrite C in Hp. simpl in Hp. lia.
    + split; [assumption|]. rewrite H4. assumption.
Qed.

(* two files that both write blocks: the later one lies behind the earlier one, or it was
   allowed to be deduplicated *)
Lemma layout_pair_l fid1 fid2 fl1 d1 fl2 d2 :
  fid1 < fid2 -> nth_error files fid1 = Some (fl1, d1) -> nth_error files fid2 = Some (fl2, d2) ->
  ddata fl1 d1 <> [] -> ddata fl2 d2 <> [] ->
  p_start st fid1 + length (ddata fl1 d1) <= p_start st fid2 \/
  (uf_dont_dedup fl2 = false /\ p_start st fid2 < length (w_file (p_wr st))).
Proof.
  intros Hlt Hn1 Hn2 Hne1 Hne2.
  destruct final_all as (claims & fbd & log & D & HP & Hfb & HL & HF).
  destruct (job_of_file bs half files fid1 fl1 d1 Hbs Hhalf Hn1) as [L1 _].
  destruct (job_of_file bs half files fid2 fl2 d2 Hbs Hhalf Hn2) as [L2 _].
  destruct (sdata_of fid1 fl1 d1 Hn1) as (Hsd1 & Hdl1 & _).
  destruct (sdata_of fid2 fl2 d2 Hn2) as (Hsd2 & Hdl2 & Hfl2).
  assert (Hs1 : stores hashf compress bs files fid1).
  { unfold stores. rewrite Hsd1. intro C. apply Hne1. unfold disk_data. rewrite C. reflexivity. }
  assert (Hs2 : stores hashf compress bs files fid2).
  { unfold stores. rewrite Hsd2. intro C. apply Hne2. unfold disk_data. rewrite C. reflexivity. }
  destruct (log_entry log fid2 HL L2 Hs2) as (newer & older & e2 & El & Hk2 & Hloc2 & Hlen2).
  pose proof HL as [X1 X2 X3 X4 X5 X6 X7 X8].
  rewrite El in X4. apply LogOk_app in X4. destruct X4 as [Hok _].
  (* the entry of fid1 is older *)
  destruct (X8 fid1 L1 Hs1) as [[]|Hin1].
  rewrite El, log_fids_app in Hin1, X7. cbn [log_fids] in Hin1, X7. rewrite Hk2 in Hin1, X7.
  apply in_app_or in Hin1. destruct Hin1 as [Hin1|[Hin1|Hin1]].
  - pose proof (sorted_gt_app_head _ _ _ _ X7 Hin1). lia.
  - lia.
  - apply log_fids_in in Hin1. destruct Hin1 as (e1 & He1 & Hk1).
    destruct (X5 e1 fid1) as (_ & _ & Hloc1 & Hlen1); [rewrite El; apply in_or_app; right; right; assumption|assumption|].
    pose proof (wm_end (length file0) older e1 He1) as Hwm. unfold le_end in Hwm.
    rewrite Hloc1, Hlen1, Hdl1 in Hwm.
    destruct Hok as [Hfresh|(f & Hkf & Hdd & Hsh)].
    + left. rewrite <- Hloc2, Hfresh. assumption.
    + right. rewrite Hk2 in Hkf. inversion Hkf; subst f. unfold dd_of in Hdd. rewrite Hfl2 in Hdd.
      split; [assumption|]. rewrite X3, El, <- Hloc2.
      assert (Hw : wm (length file0) older <= wm (length file0) (newer ++ e2 :: older)).
      { clear. induction newer as [|x newer IH]; simpl; lia. }
      lia.
Qed.

Lemma dont_dedup_blocks_l fid1 fid2 fl1 d1 fl2 d2 :
  fid1 < fid2 -> nth_error files fid1 = Some (fl1, d1) -> nth_error files fid2 = Some (fl2, d2) ->
  uf_dont_dedup fl2 = true -> ddata fl1 d1 <> [] -> ddata fl2 d2 <> [] ->
  p_start st fid1 + length (ddata fl1 d1) <= p_start st fid2.
Proof.
  intros Hlt Hn1 Hn2 Hdd Hne1 Hne2.
  destruct (layout_pair_l fid1 fid2 fl1 d1 fl2 d2 Hlt Hn1 Hn2 Hne1 Hne2) as [H|[C _]]; [assumption|congruence].
Qed.

(* a DONT_DEDUPLICATE file also starts behind the initial content of the output and behind every
   fragment block that was written before it *)
Lemma dont_dedup_start_l fid fl d :
  nth_error files fid = Some (fl, d) -> uf_dont_dedup fl = true -> ddata fl d <> [] ->
  length file0 <= p_start st fid /\ p_start st fid + length (ddata fl d) <= length (w_file (p_wr st)).
Proof.
  intros Hn Hdd Hne.
  destruct final_all as (claims & fbd & log & D & HP & Hfb & HL & HF).
  destruct (job_of_file bs half files fid fl d Hbs Hhalf Hn) as [L _].
  destruct (sdata_of fid fl d Hn) as (Hsd & Hdl & Hfl).
  assert (Hs : stores hashf compress bs files fid).
  { unfold stores. rewrite Hsd. intro C. apply Hne. unfold disk_data. rewrite C. reflexivity. }
  destruct (log_entry log fid HL L Hs) as (newer & older & e & El & Hk & Hloc & Hlen).
  pose proof HL as [X1 X2 X3 X4 X5 X6 X7 X8].
  rewrite El in X4. apply LogOk_app in X4. destruct X4 as [Hok _].
  destruct Hok as [Hfresh|(f & Hkf & Hddf & _)].
  - split.
    + rewrite <- Hloc, Hfresh. apply wm_ge.
    + rewrite X3. pose proof (wm_end (length file0) log e) as Hw. unfold le_end in Hw.
      rewrite Hloc, Hlen, Hdl in Hw. apply Hw. rewrite El. apply in_or_app. right. left. reflexivity.
  - rewrite Hk in Hkf. inversion Hkf; subst f. unfold dd_of in Hddf. rewrite Hfl in Hddf. congruence.
Qed.

Lemma dont_dedup_tail_l fid fl d i o :
  nth_error files fid = Some (fl, d) -> uf_dont_dedup fl = true -> p_frag st fid = Some (i, o) ->
  forall fid' fl' d' i' o' t', fid' < fid -> nth_error files fid' = Some (fl', d') ->
    p_frag st fid' = Some (i', o') -> j_tail (file_job bs fl' d') = Some t' ->
    i' < i \/ (i' = i /\ o' + length t' <= o).
Proof.
  intros Hn Hdd Hfr fid' fl' d' i' o' t' Hlt Hn' Hfr' Ht'.
  destruct final_all as (claims & fbd & log & D & HP & Hfb & HL & HF).
  destruct (job_of_file bs half files fid fl d Hbs Hhalf Hn) as [L _].
  destruct (job_of_file bs half files fid' fl' d' Hbs Hhalf Hn') as [_ J'].
  destruct (sdata_of fid fl d Hn) as (_ & _ & Hfl).
  destruct HF as [F1 F2 F3 F4 F5 F6].
  assert (Hdd' : dd_of bs files fid = true) by (unfold dd_of; rewrite Hfl; assumption).
  apply (F5 fid i o L Hdd' Hfr fid' i' o' t' Hlt Hfr'). rewrite J'. assumption.
Qed.


(* ---- the statements of Properties_C17.v ---- *)

Notation fin_block_word := (block_word hashf compress uncompress bs half Hcomp Hbs Hmax Hhalf file0 files sched st Hpack).

Lemma block_len fl d k b : nth_error (j_blocks (file_job bs fl d)) k = Some b -> length b <= bs.
Proof.
  intro Hk. pose proof (file_job_shape bs Hbs fl d) as S.
  assert (F : Forall (fun b : list N => length b <= bs) (j_blocks (file_job bs fl d))).
  { inversion S; subst; cbn [j_blocks].
    - constructor.
    - apply Forall_app. split; [eapply Forall_impl; [|eassumption]; cbv beta; intros; lia|].
      constructor; [simpl; lia|constructor].
    - apply Forall_app. split; [eapply Forall_impl; [|eassumption]; cbv beta; intros; lia|].
      constructor; [lia|constructor].
    - constructor.
    - apply Forall_app. split; [eapply Forall_impl; [|eassumption]; cbv beta; intros; lia|].
      constructor; [simpl; lia|constructor]. }
  rewrite Forall_forall in F. apply F. eapply nth_error_In. eassumption.
Qed.

(* the size word of a block: 0 exactly for an all-zero block of a file without IGNORE_SPARSE *)
Lemma sparse_word_l fid fl d k b :
  nth_error files fid = Some (fl, d) ->
  nth_error (j_blocks (file_job bs fl d)) k = Some b -> b <> [] ->
  exists w, p_size st fid k = Some w /\
            sw_sparse w = negb (uf_ignore_sparse fl) && all_zero b /\
            (negb (uf_ignore_sparse fl) && all_zero b = true -> w = 0%N).
Proof.
  intros Hn Hk Hb. rewrite (fin_block_word fid fl d k b Hn Hk Hb).
  eexists. split; [reflexivity|].
  destruct (work_cases hashf compress uncompress bs Hcomp Hbs (uf_ignore_sparse fl) (uf_dont_compress fl)
                       (uf_dont_hash fl) b Hb) as [(Ez & _ & Hw)|(Ez & _ & NE & Hl & Hw & _)].
  - rewrite Hw, Ez. split; [reflexivity|]. intros _. reflexivity.
  - rewrite Hw, Ez. split; [|discriminate].
    pose proof (block_len fl d k b Hk) as Hbl.
    rewrite sw_sparse_of by (eapply small_le; [|exact Hsmall]; lia).
    destruct (length (pb_data (work (uf_ignore_sparse fl) false (uf_dont_compress fl) (uf_dont_hash fl) b)) =? 0) eqn:E0;
      [apply length_zero_iff in E0; contradiction|reflexivity].
Qed.

Lemma dont_compress_stored_l fid fl d :
  nth_error files fid = Some (fl, d) -> uf_dont_compress fl = true ->
  (forall k b, nth_error (j_blocks (file_job bs fl d)) k = Some b -> b <> [] ->
     p_size st fid k = Some (if negb (uf_ignore_sparse fl) && all_zero b then 0%N else sw_of (length b) false)) /\
  (j_blocks (file_job bs fl d) <> [] ->
   let D := concat (filter (kept (uf_ignore_sparse fl)) (j_blocks (file_job bs fl d))) in
   p_start st fid + length D <= length (w_file (p_wr st)) /\
   slice (w_file (p_wr st)) (p_start st fid) (length D) = D) /\
  (forall idx o t, p_frag st fid = Some (idx, o) -> j_tail (file_job bs fl d) = Some t ->
     (forall fid', fid' < fid -> p_frag st fid' <> Some (idx, o)) ->
     exists loc n,
       p_ftab st idx = (loc, sw_of n false) /\ o + length t <= n <= bs /\
       loc + n <= length (w_file (p_wr st)) /\
       slice (w_file (p_wr st)) (loc + o) (length t) = t).
Proof.
  intros Hn Hdc. split; [|split].
  - intros k b Hk Hb. rewrite (fin_block_word fid fl d k b Hn Hk Hb). f_equal. rewrite Hdc.
    destruct (work_cases hashf compress uncompress bs Hcomp Hbs (uf_ignore_sparse fl) true
                         (uf_dont_hash fl) b Hb) as [(Ez & _ & Hw)|(Ez & _ & _ & _ & Hw & Hd)].
    + rewrite Hw, Ez. reflexivity.
    + rewrite Hw, Ez. destruct (Hd eq_refl) as [Hc Hdat]. rewrite Hc, Hdat. reflexivity.
  - intros Hjb D.
    pose proof (disk_data_at hashf compress uncompress bs half Hcomp Hbs Hmax Hhalf file0 files sched st Hpack
                             fid fl d Hn Hjb) as HD. cbv zeta in HD.
    rewrite Hdc in HD. rewrite (stored_dont_compress hashf compress uncompress bs Hcomp Hbs) in HD. exact HD.
  - intros idx o t Hfr Ht Hfresh. eapply dont_compress_fragment_l; eassumption.
Qed.

Lemma take_blocks_length n : forall d, length (take_blocks bs n d) = n.
Proof. induction n as [|n IH]; intro d; simpl; [reflexivity|]. rewrite IH. reflexivity. Qed.

Lemma dont_fragment_no_tail_l fid fl d :
  nth_error files fid = Some (fl, d) -> uf_dont_fragment fl = true ->
  p_frag st fid = None /\
  forall r, r = skipn (length d / bs * bs) d -> r <> [] ->
    nth_error (j_blocks (file_job bs fl d)) (length d / bs) = Some r /\
    length (j_blocks (file_job bs fl d)) = S (length d / bs) /\
    exists w, p_size st fid (length d / bs) = Some w /\
              sw_sparse w = negb (uf_ignore_sparse fl) && all_zero r.
Proof.
  intros Hn Hdf. split.
  - apply (no_tail_no_frag hashf compress uncompress bs half Hcomp Hbs Hmax Hhalf file0 files sched st Hpack fid fl d Hn).
    apply file_job_dont_fragment. assumption.
  - intros r Hr Hne.
    assert (Hjb : j_blocks (file_job bs fl d) = take_blocks bs (length d / bs) d ++ [r]).
    { unfold file_job. rewrite <- Hr. destruct r as [|x r']; [contradiction|]. rewrite Hdf. reflexivity. }
    assert (Hk : nth_error (j_blocks (file_job bs fl d)) (length d / bs) = Some r).
    { rewrite Hjb, nth_error_app2 by (rewrite take_blocks_length; lia).
      rewrite take_blocks_length, Nat.sub_diag. reflexivity. }
    split; [exact Hk|]. split; [rewrite Hjb, app_length, take_blocks_length; simpl; lia|].
    destruct (sparse_word_l fid fl d _ r Hn Hk Hne) as (w & H1 & H2 & _). exists w. split; assumption.
Qed.

End Closed.

(* ---------------------------------------------------------------------- *)
(* through the flag word of the tools                                        *)

Section Tool.
Variable hashf : list N -> N.
Variable compress : list N -> option (list N).
Variable uncompress : list N -> nat -> option (list N).
Variable bs half : nat.
Hypothesis Hcomp : forall b c, compress b = Some c ->
  length c < length b /\ forall n, length b <= n -> uncompress c n = Some b.
Hypothesis Hbs : 0 < bs.
Hypothesis Hmax : (N.of_nat bs <= c_SQFS_MAX_BLOCK_SIZE)%N.
Hypothesis Hhalf : 0 < half.

(* for every flag word of every file, with and without -T: everything reads back *)
Lemma flags_keep_content_l (no_tail : bool) file0 (l : list (N * list N)) sched :
  exists st,
    tool_pack hashf compress uncompress bs half no_tail file0 l sched = Ok st /\
    (forall fid w d, nth_error l fid = Some (w, d) -> read_back uncompress bs st fid (length d) = Some d) /\
    firstn (length file0) (w_file (p_wr st)) = file0.
Proof.
  unfold tool_pack.
  destruct (dedup_sound_l hashf compress uncompress bs half Hcomp Hbs Hmax Hhalf file0 (tool_files no_tail bs l) sched)
    as (st & E & R & F).
  exists st. split; [exact E|]. split; [|exact F].
  intros fid w d Hn. apply (R fid (tool_flags no_tail bs w d) d). apply nth_error_tool_files. assumption.
Qed.

(* -T: a file of at most one block is packed exactly as without -T (same flags, same job); a larger one
   gets DONT_FRAGMENT - and nothing else - and therefore no fragment reference *)
Lemma no_tail_effect_l file0 (l : list (N * list N)) sched st :
  tool_pack hashf compress uncompress bs half true file0 l sched = Ok st ->
  forall fid w d, nth_error l fid = Some (w, d) ->
    (length d <= bs -> tool_flags true bs w d = tool_flags false bs w d) /\
    (bs < length d -> p_frag st fid = None /\
       uf_dont_fragment (tool_flags true bs w d) = true /\
       uf_dont_compress (tool_flags true bs w d) = uf_dont_compress (uflags_of w) /\
       uf_dont_dedup (tool_flags true bs w d) = uf_dont_dedup (uflags_of w) /\
       uf_ignore_sparse (tool_flags true bs w d) = uf_ignore_sparse (uflags_of w) /\
       uf_dont_hash (tool_flags true bs w d) = uf_dont_hash (uflags_of w)).
Proof.
  intros Hp fid w d Hn. split.
  - intro H. rewrite !tool_flags_small by assumption. reflexivity.
  - intro H. split.
    + apply (no_tail_no_frag hashf compress uncompress bs half Hcomp Hbs Hmax Hhalf file0 (tool_files true bs l) sched st Hp
                             fid (tool_flags true bs w d) d).
      * apply nth_error_tool_files. assumption.
      * apply no_tail_job_large. assumption.
    + rewrite tool_flags_large by assumption. repeat split; reflexivity.
Qed.

End Tool.
