(* C17 — effects of the packing flags that can be read off the final state of C08's block processor /
   block writer model: size words, compressed bits, holes, fragment references, bytes in the output.
   Everything here follows from the invariant C08 proves for [pack] (DedupPipeProofs.pack_inv). *)
From Coq Require Import List NArith Arith Bool Lia.
From SqfsV Require Import Gen.Constants.
From SqfsV Require Import C08.DedupModel C08.DedupLemmas C08.DedupWriterProofs C08.DedupReaderProofs
     C08.DedupPipeProofs C08.DedupTheorems.
From SqfsV Require Import C17.GenC17 C17.SortModel C17.FlagModel.
Import ListNotations.

Ltac splits := repeat match goal with |- _ /\ _ => split end.

(* ---------------------------------------------------------------------- *)
(* the flag word                                                            *)

Lemma has_bit_lor_same w m : m <> 0%N -> has_bit (N.lor w m) m = true.
Proof.
  intro Hm. unfold has_bit. rewrite N.land_lor_distr_l, N.land_diag.
  destruct (N.eqb (N.lor (N.land w m) m) 0) eqn:E; [|reflexivity].
  apply N.eqb_eq in E. apply N.lor_eq_0_iff in E. destruct E. contradiction.
Qed.

Lemma has_bit_lor_other w m k : N.land m k = 0%N -> has_bit (N.lor w m) k = has_bit w k.
Proof. intro H. unfold has_bit. rewrite N.land_lor_distr_l, H, N.lor_0_r. reflexivity. Qed.

(* -T on a file larger than one block: DONT_FRAGMENT and nothing else *)
Lemma tool_flags_large w bs d : bs < length d ->
  tool_flags true bs w d =
  {| uf_dont_compress := uf_dont_compress (uflags_of w); uf_dont_hash := uf_dont_hash (uflags_of w);
     uf_dont_fragment := true; uf_dont_dedup := uf_dont_dedup (uflags_of w);
     uf_ignore_sparse := uf_ignore_sparse (uflags_of w) |}.
Proof.
  intro H. unfold tool_flags, pack_flags.
  assert (E : (N.of_nat bs <? N.of_nat (length d))%N = true) by (apply N.ltb_lt; lia).
  rewrite E. cbn [andb]. unfold uflags_of. f_equal.
  - apply has_bit_lor_other. reflexivity.
  - apply has_bit_lor_other. reflexivity.
  - apply has_bit_lor_same. discriminate.
  - apply has_bit_lor_other. reflexivity.
  - apply has_bit_lor_other. reflexivity.
Qed.

Lemma tool_flags_small nt w bs d : length d <= bs -> tool_flags nt bs w d = uflags_of w.
Proof.
  intro H. unfold tool_flags, pack_flags.
  assert (E : (N.of_nat bs <? N.of_nat (length d))%N = false) by (apply N.ltb_ge; lia).
  rewrite E, andb_false_r. reflexivity.
Qed.

Lemma tool_flags_off w bs d : tool_flags false bs w d = uflags_of w.
Proof. reflexivity. Qed.

(* what the frontend submits for a file of at most one block does not depend on -T; for a larger
   file -T removes the tail end from the fragment path *)
Lemma no_tail_job_small w bs d : length d <= bs ->
  file_job bs (tool_flags true bs w d) d = file_job bs (tool_flags false bs w d) d.
Proof. intro H. rewrite !tool_flags_small by assumption. reflexivity. Qed.

Lemma file_job_dont_fragment bs fl d : uf_dont_fragment fl = true -> j_tail (file_job bs fl d) = None.
Proof.
  intro H. unfold file_job. destruct (skipn (length d / bs * bs) d).
  - destruct (length d / bs =? 0); reflexivity.
  - rewrite H. reflexivity.
Qed.

Lemma no_tail_job_large w bs d : bs < length d -> j_tail (file_job bs (tool_flags true bs w d) d) = None.
Proof. intro H. apply file_job_dont_fragment. rewrite tool_flags_large by assumption. reflexivity. Qed.

Lemma nth_error_tool_files nt bs l fid w d :
  nth_error l fid = Some (w, d) -> nth_error (tool_files nt bs l) fid = Some (tool_flags nt bs w d, d).
Proof. intro H. unfold tool_files. rewrite nth_error_map, H. reflexivity. Qed.

(* ---------------------------------------------------------------------- *)
(* the worker (process_block) on a data block                                *)

Section Work.
Variable hashf : list N -> N.
Variable compress : list N -> option (list N).
Variable uncompress : list N -> nat -> option (list N).
Variable bs : nat.
Hypothesis Hcomp : forall b c, compress b = Some c ->
  length c < length b /\ forall n, length b <= n -> uncompress c n = Some b.
Hypothesis Hbs : 0 < bs.

Notation work := (work_block hashf compress).

Lemma work_cases ns dc dh b : b <> [] ->
  let p := work ns false dc dh b in
  (negb ns && all_zero b = true /\ pb_sparse p = true /\ word p = 0%N) \/
  (negb ns && all_zero b = false /\ pb_sparse p = false /\ pb_data p <> [] /\
   length (pb_data p) <= length b /\ word p = sw_of (length (pb_data p)) (pb_compressed p) /\
   (dc = true -> pb_compressed p = false /\ pb_data p = b)).
Proof.
  intros Hb p. pose proof (work_sparse_iff hashf compress ns false dc dh b Hb) as Hs. fold p in Hs.
  destruct (negb ns && all_zero b) eqn:Ez.
  - left. split; [reflexivity|]. split; [exact Hs|]. unfold word. rewrite Hs. reflexivity.
  - right. split; [reflexivity|]. split; [exact Hs|].
    destruct (work_dec hashf compress uncompress bs Hcomp Hbs ns false dc dh b Hb) as (_ & L & _ & S2).
    fold p in L, S2. destruct (S2 Hs) as (NE & _).
    split; [exact NE|]. split; [exact L|]. split; [unfold word; rewrite Hs; reflexivity|].
    intro Hdc. subst dc. unfold p, work_block.
    destruct (length b =? 0) eqn:E0; [apply length_zero_iff in E0; contradiction|].
    rewrite Ez. cbn [orb]. split; reflexivity.
Qed.

(* the bytes a file with DONT_COMPRESS leaves in the output are the blocks themselves *)
Lemma stored_dont_compress ns dh : forall bl,
  cat (filter stored (map (work ns false true dh) bl)) = concat (filter (kept ns) bl).
Proof.
  induction bl as [|b bl IH]; [reflexivity|]. cbn [map filter].
  destruct b as [|x b'].
  - (* the sentinel *)
    cbn. exact IH.
  - assert (Hb : x :: b' <> []) by discriminate.
    destruct (work_cases ns true dh (x :: b') Hb) as [(Ez & Hs & _)|(Ez & Hs & NE & _ & _ & Hdc)].
    + unfold stored at 1. rewrite Hs, andb_false_r. unfold kept at 1. rewrite Ez. cbn [negb andb].
      rewrite andb_false_r. exact IH.
    + destruct (Hdc eq_refl) as [_ Hd].
      unfold stored at 1. rewrite Hs, Hd. cbn [length Nat.eqb negb andb].
      unfold kept at 1. rewrite Ez. cbn [length Nat.eqb negb andb].
      rewrite cat_cons, Hd. cbn [concat]. rewrite IH. reflexivity.
Qed.

End Work.


(* the blocks of a file as the worker hands them to the block writer, and the bytes they leave in the
   output (holes and the zero-size sentinel leave nothing) *)
Definition file_pbs (hashf : list N -> N) (compress : list N -> option (list N)) (bs : nat)
           (fl : uflags) (d : list N) : list pblock :=
  map (work_block hashf compress (uf_ignore_sparse fl) false (uf_dont_compress fl) (uf_dont_hash fl))
      (j_blocks (file_job bs fl d)).

Definition disk_data (hashf : list N -> N) (compress : list N -> option (list N)) (bs : nat)
           (fl : uflags) (d : list N) : list N :=
  cat (filter stored (file_pbs hashf compress bs fl d)).

Lemma file_job_fl bs fl d : j_fl (file_job bs fl d) = fl.
Proof.
  unfold file_job. destruct (skipn (length d / bs * bs) d);
    [destruct (length d / bs =? 0)|destruct (uf_dont_fragment fl); [|destruct (length d / bs =? 0)]];
    reflexivity.
Qed.

Lemma job_of_file bs half files fid fl d : 0 < bs -> 0 < half ->
  nth_error files fid = Some (fl, d) -> fid < length files /\ job bs files fid = file_job bs fl d.
Proof.
  intros Hbs Hhalf H. assert (L : fid < length files) by (apply nth_error_Some; congruence).
  split; [exact L|].
  destruct (job_has_shape bs half Hbs Hhalf files fid L) as (fl' & d' & E & J & _).
  rewrite H in E. inversion E; subst. exact J.
Qed.

Lemma jpbs_of_file hashf compress bs half files fid fl d : 0 < bs -> 0 < half ->
  nth_error files fid = Some (fl, d) -> jpbs hashf compress bs files fid = file_pbs hashf compress bs fl d.
Proof.
  intros Hbs Hhalf H. destruct (job_of_file bs half files fid fl d Hbs Hhalf H) as [_ J].
  unfold jpbs, file_pbs, jwork. rewrite J, file_job_fl. reflexivity.
Qed.

(* ---------------------------------------------------------------------- *)
(* the final state of [pack]                                                 *)

Section Final.
Variable hashf : list N -> N.
Variable compress : list N -> option (list N).
Variable uncompress : list N -> nat -> option (list N).
Variable bs half : nat.
Hypothesis Hcomp : forall b c, compress b = Some c ->
  length c < length b /\ forall n, length b <= n -> uncompress c n = Some b.
Hypothesis Hbs : 0 < bs.
Hypothesis Hmax : (N.of_nat bs <= c_SQFS_MAX_BLOCK_SIZE)%N.
Hypothesis Hhalf : 0 < half.

Variable file0 : list N.
Variable files : list (uflags * list N).
Variable sched : list nat.
Variable st : proc.
Hypothesis Hpack : pack hashf compress uncompress bs false true half file0 files sched = Ok st.

Notation work := (work_block hashf compress).
Notation PInv' := (PInv hashf compress uncompress bs (length file0) files).
Let Hsmall : small bs := max_block_size_small bs Hmax.

Lemma final_inv : exists claims fbd,
  PInv' st [] claims fbd (length files) (length files) /\ p_fragblk st = None /\ In (0, file0) claims.
Proof.
  destruct (pack_inv hashf compress uncompress bs half (length file0) Hcomp Hbs Hsmall Hhalf
                     files file0 sched eq_refl) as (st' & claims & fbd & E & HP & Hfb & Hin).
  rewrite Hpack in E. inversion E; subst st'. exists claims, fbd. splits; assumption.
Qed.

Lemma job_is fid fl d : nth_error files fid = Some (fl, d) ->
  fid < length files /\ job bs files fid = file_job bs fl d.
Proof.
  intro H. assert (L : fid < length files) by (apply nth_error_Some; congruence).
  split; [exact L|].
  destruct (job_has_shape bs half Hbs Hhalf files fid L) as (fl' & d' & E & J & _).
  rewrite H in E. inversion E; subst. exact J.
Qed.

(* the size word of every non-empty block the frontend submitted *)
Lemma block_word fid fl d k b :
  nth_error files fid = Some (fl, d) ->
  nth_error (j_blocks (file_job bs fl d)) k = Some b -> b <> [] ->
  p_size st fid k =
  Some (word (work (uf_ignore_sparse fl) false (uf_dont_compress fl) (uf_dont_hash fl) b)).
Proof.
  intros Hn Hk Hb. destruct (job_is _ _ _ Hn) as [L J].
  destruct final_inv as (claims & fbd & HP & Hfb & _).
  assert (Hjb : j_blocks (job bs files fid) <> []).
  { rewrite J. intro C. rewrite C in Hk. destruct k; discriminate. }
  destruct (final_written hashf compress uncompress bs (length file0) files st claims fbd HP fid L Hjb)
    as [_ W2].
  assert (Hfl : j_fl (job bs files fid) = fl).
  { rewrite J. unfold file_job. destruct (skipn (length d / bs * bs) d);
      [destruct (length d / bs =? 0)|destruct (uf_dont_fragment fl); [|destruct (length d / bs =? 0)]];
      reflexivity. }
  specialize (W2 k (jwork hashf compress bs files fid b)).
  unfold jwork in W2. rewrite Hfl in W2. apply W2.
  - unfold jpbs. rewrite nth_error_map, J, Hk. cbn. unfold jwork. rewrite Hfl. reflexivity.
  - intro C. apply (work_data_nil hashf compress uncompress bs Hcomp Hbs) in C. contradiction.
Qed.

(* where the kept blocks of a file sit in the output *)
Lemma disk_data_at fid fl d :
  nth_error files fid = Some (fl, d) -> j_blocks (file_job bs fl d) <> [] ->
  let D := cat (filter stored (map (work (uf_ignore_sparse fl) false (uf_dont_compress fl) (uf_dont_hash fl))
                                   (j_blocks (file_job bs fl d)))) in
  p_start st fid + length D <= length (w_file (p_wr st)) /\
  slice (w_file (p_wr st)) (p_start st fid) (length D) = D.
Proof.
  intros Hn Hjb0 D. destruct (job_is _ _ _ Hn) as [L J].
  destruct final_inv as (claims & fbd & HP & Hfb & _).
  assert (Hjb : j_blocks (job bs files fid) <> []) by (rewrite J; assumption).
  destruct (final_written hashf compress uncompress bs (length file0) files st claims fbd HP fid L Hjb)
    as [W1 _].
  assert (Hfl : j_fl (job bs files fid) = fl).
  { rewrite J. unfold file_job. destruct (skipn (length d / bs * bs) d);
      [destruct (length d / bs =? 0)|destruct (uf_dont_fragment fl); [|destruct (length d / bs =? 0)]];
      reflexivity. }
  assert (E : cat (filter stored (jpbs hashf compress bs files fid)) = D).
  { unfold D, jpbs. rewrite J. f_equal. f_equal. apply map_ext. intro b. unfold jwork. rewrite Hfl.
    reflexivity. }
  rewrite E in W1.
  exact (claim_holds hashf compress uncompress bs (length file0) files st [] claims fbd _ _ _ HP W1).
Qed.

(* ---- fragments ---- *)

Lemma no_tail_no_frag fid fl d :
  nth_error files fid = Some (fl, d) -> j_tail (file_job bs fl d) = None -> p_frag st fid = None.
Proof.
  intros Hn Ht. destruct (job_is _ _ _ Hn) as [L J].
  destruct final_inv as (claims & fbd & HP & _).
  apply (final_no_frag hashf compress uncompress bs (length file0) files st claims fbd HP).
  rewrite J. exact Ht.
Qed.

(* the tail end: either recorded as a hole (all zero, no IGNORE_SPARSE) or given a fragment
   reference into a fragment block that is really written out and holds the bytes *)
Lemma tail_outcome fid fl d t :
  nth_error files fid = Some (fl, d) -> j_tail (file_job bs fl d) = Some t ->
  if negb (uf_ignore_sparse fl) && all_zero t
  then p_frag st fid = None /\ p_size st fid (length (j_blocks (file_job bs fl d)) - 1) = Some 0%N
  else exists idx o data,
         p_frag st fid = Some (idx, o) /\ idx < p_nfrag st /\
         sw_sparse (snd (p_ftab st idx)) = false /\
         decode_block uncompress (w_file (p_wr st)) (fst (p_ftab st idx)) (snd (p_ftab st idx)) bs = Some data /\
         o + length t <= length data /\ slice data o (length t) = t.
Proof.
  intros Hn Ht. destruct (job_is _ _ _ Hn) as [L J].
  destruct final_inv as (claims & fbd & HP & Hfb & _).
  pose proof HP as [P1 P2 P3 P4 P5 P6 P7 P8 P9 P10 P11 P12 P13].
  assert (Ht' : j_tail (job bs files fid) = Some t) by (rewrite J; exact Ht).
  assert (Hfl : j_fl (job bs files fid) = fl).
  { rewrite J. unfold file_job. destruct (skipn (length d / bs * bs) d);
      [destruct (length d / bs =? 0)|destruct (uf_dont_fragment fl); [|destruct (length d / bs =? 0)]];
      reflexivity. }
  specialize (P12 fid t L Ht'). unfold tail_sparse in P12. rewrite Hfl in P12.
  destruct (negb (uf_ignore_sparse fl) && all_zero t).
  - rewrite J in P12. exact P12.
  - destruct (p_frag st fid) as [[idx o]|] eqn:Ef; [|contradiction].
    destruct (final_frag hashf compress uncompress bs half (length file0) Hbs Hsmall Hhalf files st claims fbd
                         HP Hfb fid idx o t Ef Ht') as (Hi & Hdec & Hb & Hs).
    exists idx, o, (fbd idx). splits; try assumption; try reflexivity.
    destruct (P6 idx Hi) as [(fb & C & _)|[[]|Hod]]; [congruence|].
    pose proof (OnDisk_ftab_nonzero uncompress bs half Hbs Hsmall Hhalf st claims fbd idx Hod) as Hnz.
    destruct Hod as (loc & p & H1 & H2 & H3 & H4 & H5). rewrite H1. cbn [snd].
    destruct H4 as (_ & Hle & _ & S2). destruct (S2 H3) as (Hne & _). destruct H5 as [_ Hl2].
    rewrite word_nonsparse by assumption. rewrite sw_sparse_of by (eapply small_le; [|exact Hsmall]; lia).
    destruct (length (pb_data p) =? 0) eqn:E0; [apply length_zero_iff in E0; contradiction|reflexivity].
Qed.

(* every entry of the fragment table describes a block that was written (never the (0, 0) an
   all-zero fragment block would be left with if the worker treated it as sparse: fix F22) *)
Lemma frag_table_written idx : idx < p_nfrag st ->
  sw_sparse (snd (p_ftab st idx)) = false /\
  exists data, decode_block uncompress (w_file (p_wr st)) (fst (p_ftab st idx)) (snd (p_ftab st idx)) bs = Some data /\
               0 < length data <= bs.
Proof.
  intro Hi. destruct final_inv as (claims & fbd & HP & Hfb & _).
  pose proof HP as [P1 P2 P3 P4 P5 P6 P7 P8 P9 P10 P11 P12 P13].
  destruct (P6 idx Hi) as [(fb & C & _)|[[]|Hod]]; [congruence|].
  destruct Hod as (loc & p & H1 & H2 & H3 & H4 & H5). rewrite H1. cbn [fst snd].
  pose proof (claim_holds hashf compress uncompress bs (length file0) files st [] claims fbd _ _ _ HP H2)
    as [Hc1 Hc2]. cbn [fst snd] in Hc1, Hc2.
  pose proof H4 as (_ & Hle & _ & S2). destruct (S2 H3) as (Hne & _). pose proof H5 as [Hl1 Hl2].
  split.
  - rewrite word_nonsparse by assumption. rewrite sw_sparse_of by (eapply small_le; [|exact Hsmall]; lia).
    destruct (length (pb_data p) =? 0) eqn:E0; [apply length_zero_iff in E0; contradiction|reflexivity].
  - exists (fbd idx). split; [|exact H5].
    apply (decode_ok uncompress bs Hbs Hsmall); assumption.
Qed.

(* every file reads back (C08) *)
Lemma reads_back fid fl d : nth_error files fid = Some (fl, d) ->
  read_back uncompress bs st fid (length d) = Some d.
Proof.
  intro Hn. destruct final_inv as (claims & fbd & HP & Hfb & _).
  exact (final_read_back hashf compress uncompress bs half (length file0) Hcomp Hbs Hsmall Hhalf files st claims fbd
                         HP Hfb fid fl d Hn).
Qed.

End Final.
