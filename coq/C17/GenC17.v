(* GENERATED from /repo headers by props/C17/gen_c17.c -- do not edit *)
From Coq Require Import NArith.
Local Open Scope N_scope.
Definition c_SQFS_BLK_DONT_COMPRESS : N := 1.
Definition c_SQFS_BLK_DONT_HASH : N := 2.
Definition c_SQFS_BLK_DONT_FRAGMENT : N := 4.
Definition c_SQFS_BLK_DONT_DEDUPLICATE : N := 8.
Definition c_SQFS_BLK_IGNORE_SPARSE : N := 16.
Definition c_SQFS_BLK_USER_SETTABLE_FLAGS : N := 31.
Definition c_FLAG_FILE_ALREADY_MATCHED : N := 2.
