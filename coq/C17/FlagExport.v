(* C17 — "--exportable adds a correct export table": the clause of the whole-image theorems
   (coq/Image/ImageProofs.v export_roundtrip_l, model of lib/sqfs/src/dir_writer.c
   add_export_table_entry / sqfs_dir_writer_write_export_table and lib/common/src/writer/finish.c)
   restated for C17: the table is there iff cfg->exportable; read back through the location list the
   super block points at, slot k-1 holds the inode reference of inode number k for the root and for
   every inode that is an entry of some directory (i.e. every inode reachable from the root). *)
From Coq Require Import List NArith ZArith Bool.
From SqfsV Require Import Base.Bytes Gen.Constants C03.Common C03.ListN C03.MetaModel C03.DirModel.
From SqfsV Require Import C01.Res.
From SqfsV Require Import Img.TreeModel Img.SerDefs Img.Final Img.Domain.
From SqfsV Require Import Image.FinishModel Image.ReaderModel Image.ExportInv Image.ImageProofs.
Import ListNotations.
Local Open Scope N_scope.

Definition comp_contract (compress : list N -> cres) (uncompress : list N -> option (list N)) : Prop :=
  forall b c, compress b = CData c -> lenN c <= lenN b /\ uncompress c = Some b.

Lemma export_table_correct_l : forall compress uncompress, comp_contract compress uncompress ->
  forall limit, limit <= 65535 ->
  forall cfg inp w,
  write_image compress limit cfg inp = Res.Ok w -> image_domain cfg inp = true -> image_fits w = true ->
  let b := image_bytes w in
  let t := in_tree inp in
  (c_exportable cfg = false -> read_export uncompress b (w_super w) = Some None) /\
  (c_exportable cfg = true -> exists l,
     read_export uncompress b (w_super w) = Some (Some l) /\ lenN l = Res.nlen t /\
     forall c, c = Res.nlen t \/ In c (kids_upto t (length t)) ->
               nth (N.to_nat (c - 1)) l U64MAX = ref_of (si_refs (w_img w)) c).
Proof.
  intros c u H l Hl cfg inp w Hw Hd Hf b t.
  destruct (export_roundtrip_l c u H l Hl cfg inp w Hw Hd Hf) as [(E & _ & R)|(E & lst & _ & R & L & _ & K)].
  - split; [intros _; exact R|]. intro C. rewrite E in C. discriminate.
  - split; [intro C; rewrite E in C; discriminate|]. intros _. exists lst. split; [exact R|]. split; [exact L|exact K].
Qed.

(* non-vacuity: the example image of Image/Example.v is in the domain of the theorem and exportable (its
   facts are proved there by vm_compute; they are only re-used here, nothing is recomputed) *)
From SqfsV Require Img.ZrleProofs Image.Example.
From SqfsV Require Import C01.GenC01.

Lemma ex_export_hyps_l :
  comp_contract (img_compress 3) (img_uncompress 3) /\
  c_exportable Image.Example.ex_cfg = true /\
  image_domain Image.Example.ex_cfg Image.Example.ex_inp = true /\
  exists w, write_image (img_compress 3) c_id_table_limit Image.Example.ex_cfg Image.Example.ex_inp = Res.Ok w /\
            image_fits w = true.
Proof.
  split; [exact (ZrleProofs.img_contract 3 (or_intror eq_refl))|]. split; [reflexivity|].
  split; [exact (proj1 Image.Example.ex_image_domain)|].
  eexists. split; [vm_compute; reflexivity|vm_compute; reflexivity].
Qed.
