(* C17 — concrete runs of the block processor / block writer model: the witness of finding F23, what the
   worker did to an all-zero fragment block before fix F22, and instances on which the hypotheses of the
   directive theorems hold (non-vacuity).  Block size 8, toy run-length compressor of the component
   harness (>= 5 equal bytes shrink to 4), constant checksum (every comparison is decided by bytes). *)
From Coq Require Import List NArith Arith Bool Lia.
From SqfsV Require Import Gen.Constants.
From SqfsV Require Import C08.DedupModel C08.DedupLemmas C08.DedupWriterProofs C08.DedupReaderProofs
     C08.DedupPipeProofs C08.DedupTheorems.
From SqfsV Require Import C17.GenC17 C17.SortModel C17.FlagModel C17.FlagSpec C17.FlagWriter C17.FlagFinal.
Import ListNotations.

Definition mkfl (dc df dd ns : bool) : uflags :=
  {| uf_dont_compress := dc; uf_dont_hash := false; uf_dont_fragment := df;
     uf_dont_dedup := dd; uf_ignore_sparse := ns |}.

Definition run (files : list (uflags * list N)) : DedupModel.res proc :=
  pack const_hash toy_compress toy_uncompress 8 false true 4096 [] files [].

Lemma bs8_ok : 0 < 8 /\ (N.of_nat 8 <= c_SQFS_MAX_BLOCK_SIZE)%N /\ 0 < 4096.
Proof. split; [lia|]. split; [vm_compute; discriminate|lia]. Qed.

Definition sevens (n : nat) : list N := repeat 7%N n.

(* ---- F23: a dont_compress tail end that equals an earlier tail end is deduplicated into that file's
        fragment block, which is stored compressed ---- *)
Definition f23_files : list (uflags * list N) :=
  [(mkfl false false false false, sevens 6); (mkfl true false false false, sevens 6)].

Lemma f23_witness :
  match run f23_files with
  | Ok st => p_frag st 1 = Some (0, 0) /\ p_frag st 0 = Some (0, 0) /\
             p_ftab st 0 = (0, sw_of 4 true) /\ sw_compressed (snd (p_ftab st 0)) = true
  | _ => False
  end.
Proof. vm_compute. repeat split; reflexivity. Qed.

(* ---- with DONT_DEDUPLICATE as well (or a different tail end) the block stays raw ---- *)
Lemma f23_avoided :
  match run [(mkfl false false false false, sevens 6); (mkfl true false true false, sevens 6)] with
  | Ok st => p_frag st 0 = Some (0, 0) /\ p_frag st 1 = Some (1, 0) /\
             p_ftab st 0 = (0, sw_of 4 true) /\ p_ftab st 1 = (4, sw_of 6 false)
  | _ => False
  end.
Proof. vm_compute. repeat split; reflexivity. Qed.

(* ---- F22: what process_block did to an all-zero fragment block before the fix (sparse detection
        not switched off for SQFS_BLK_FRAGMENT_BLOCK) and what it does now ---- *)
Lemma f22_worker :
  pb_sparse (work_block const_hash toy_compress false false false false (repeat 0%N 5)) = true /\
  pb_sparse (work_block const_hash toy_compress true false false false (repeat 0%N 5)) = false.
Proof. vm_compute. split; reflexivity. Qed.

(* ---- non-vacuity ---- *)

(* dont_compress: two compressible blocks stay raw (size word 8 + 2^24), the tail end opens fragment
   block 0, a normal file joins it, the block is stored raw although it would compress; the same
   content without the flag is compressed *)
Definition ex_dc_files : list (uflags * list N) :=
  [(mkfl true false false false, sevens 19); (mkfl false false false false, sevens 2);
   (mkfl false false false false, sevens 19 ++ [1%N])].

Lemma ex_dc :
  match run ex_dc_files with
  | Ok st =>
      p_size st 0 0 = Some (sw_of 8 false) /\ p_size st 0 1 = Some (sw_of 8 false) /\
      p_start st 0 = 0 /\ slice (w_file (p_wr st)) 0 16 = sevens 16 /\
      p_frag st 0 = Some (0, 0) /\ p_frag st 1 = Some (0, 3) /\ p_frag st 2 = Some (1, 0) /\
      p_ftab st 0 = (24, sw_of 5 false) /\ slice (w_file (p_wr st)) 24 5 = sevens 5 /\
      p_size st 2 0 = Some (sw_of 4 true) /\ p_size st 2 1 = Some (sw_of 4 true)
  | _ => False
  end.
Proof. vm_compute. repeat split; reflexivity. Qed.

(* dont_fragment: 11 bytes = one block + a 3 byte data block, no fragment; without the flag a fragment *)
Definition ex_df_files : list (uflags * list N) :=
  [(mkfl false true false false, [1; 2; 3; 4; 5; 6; 7; 8; 9; 10; 11]%N);
   (mkfl false false false false, [1; 2; 3; 4; 5; 6; 7; 8; 9; 10; 11]%N)].

Lemma ex_df :
  match run ex_df_files with
  | Ok st =>
      p_frag st 0 = None /\ p_size st 0 1 = Some (sw_of 3 false) /\ p_nwords st 0 = 2 /\
      p_frag st 1 = Some (0, 0) /\ p_nwords st 1 = 1 /\ p_start st 1 = 0
  | _ => False
  end.
Proof. vm_compute. repeat split; reflexivity. Qed.

(* nosparse: zero block and zero tail end materialised (the all-zero fragment block is written: F22);
   without the flag both are holes *)
Definition ex_ns_files : list (uflags * list N) :=
  [(mkfl false false false true, [1; 2; 3; 4; 5; 6; 7; 8]%N ++ repeat 0%N 8 ++ repeat 0%N 3);
   (mkfl false false false false, [1; 2; 3; 4; 5; 6; 7; 9]%N ++ repeat 0%N 8 ++ repeat 0%N 3)].

Lemma ex_ns :
  match run ex_ns_files with
  | Ok st =>
      p_size st 0 1 = Some (sw_of 4 true) /\ p_frag st 0 = Some (0, 0) /\
      p_nfrag st = 1 /\ sw_sparse (snd (p_ftab st 0)) = false /\
      p_size st 1 1 = Some 0%N /\ p_size st 1 2 = Some 0%N /\ p_frag st 1 = None /\
      read_back toy_uncompress 8 st 0 19 = Some ([1; 2; 3; 4; 5; 6; 7; 8]%N ++ repeat 0%N 11) /\
      read_back toy_uncompress 8 st 1 19 = Some ([1; 2; 3; 4; 5; 6; 7; 9]%N ++ repeat 0%N 11)
  | _ => False
  end.
Proof. vm_compute. repeat split; reflexivity. Qed.

(* dont_deduplicate: the duplicate with the flag gets fresh blocks behind everything and a fresh
   fragment; the duplicate without it shares its blocks with the first copy and its tail end with the
   flagged one (whose entry replaced the first copy's in the fragment hash table) *)
Definition ex_dd_files : list (uflags * list N) :=
  [(mkfl false false false false, [1; 2; 3; 4; 5; 6; 7; 8; 9; 9]%N);
   (mkfl false false true false, [1; 2; 3; 4; 5; 6; 7; 8; 9; 9]%N);
   (mkfl false false false false, [1; 2; 3; 4; 5; 6; 7; 8; 9; 9]%N)].

Lemma ex_dd :
  match run ex_dd_files with
  | Ok st =>
      p_start st 0 = 0 /\ p_frag st 0 = Some (0, 0) /\
      p_start st 1 = 8 /\ p_frag st 1 = Some (0, 2) /\
      p_start st 2 = 0 /\ p_frag st 2 = Some (0, 2)
  | _ => False
  end.
Proof. vm_compute. repeat split; reflexivity. Qed.

(* the block writer decides to share: history [X], file X again *)
Lemma ex_share :
  let X := {| pb_sparse := false; pb_compressed := false; pb_chk := 0%N; pb_data := [1; 2; 3]%N |} in
  let w := {| w_file := [1; 2; 3; 1; 2; 3]%N;
              w_blocks := [info_of 0 X; info_of 3 X]; w_fstart := 1 |} in
  WOpen 0 w [] [1; 2; 3]%N [info_of 0 X] [X] /\ all_stored [X] /\
  deduplicate_blocks false 4096 w false []
  = WOk {| w_file := [1; 2; 3]%N; w_blocks := [info_of 0 X]; w_fstart := 1 |} 0 [EvTrunc 3].
Proof.
  split; [|split; [|vm_compute; reflexivity]].
  - constructor; simpl; try reflexivity.
    + split; [reflexivity|exact I].
    + constructor.
    + constructor; [|constructor]. unfold small. simpl. reflexivity.
  - constructor; [reflexivity|constructor].
Qed.

(* -T through the flag word: 8 bytes (= one block) keep their fragment, 9 bytes lose it *)
Lemma ex_no_tail :
  match tool_pack const_hash toy_compress toy_uncompress 8 4096 true []
                  [(0%N, [1; 2; 3; 4; 5; 6; 7]%N); (1%N, [1; 2; 3; 4; 5; 6; 7; 8; 9]%N)] [] with
  | Ok st => p_frag st 0 = Some (0, 0) /\ p_frag st 1 = None /\
             p_size st 1 1 = Some (sw_of 1 false)
  | _ => False
  end.
Proof. vm_compute. repeat split; reflexivity. Qed.

(* the F23 witness in the form Properties_C17.v uses (the state is produced by vm_compute) *)
Lemma f23_exists :
  exists st, pack const_hash toy_compress toy_uncompress 8 false true 4096 [] f23_files [] = Ok st /\
             p_frag st 1 = Some (0, 0) /\ sw_compressed (snd (p_ftab st 0)) = true.
Proof. eexists. split; [vm_compute; reflexivity|]. split; vm_compute; reflexivity. Qed.
