(* C17 — concrete runs for the strong layout theorems (non-vacuity; vm_compute).  Block size 8, toy run-length compressor,
   constant checksum (so every comparison of deduplicate_blocks is decided by the bytes), empty initial output. *)
From Coq Require Import List NArith ZArith Arith Bool Lia.
From SqfsV Require Import Gen.Constants.
From SqfsV Require Import C11.FstreeModel C11.PostModel ImgPost.Bridge.
From SqfsV Require Import C08.DedupModel C08.DedupLemmas C08.DedupWriterProofs C08.DedupTheorems.
From SqfsV Require Import C17.GenC17 C17.SortModel C17.FlagModel C17.FlagSpec C17.FlagFinal C17.FlagWitness.
From SqfsV Require Import C17.OrderModel C17.OrderProofs C17.OrderWitness.
From SqfsV Require Import C17.ShareSpec C17.ShareTheorems C17.OrderStrong.
Import ListNotations.

Definition fl0 : uflags := mkfl false false false false.
Definition blkX : list N := [1; 2; 3; 4; 5; 6; 7; 8]%N.
Definition blkY : list N := [9; 8; 7; 6; 5; 4; 3; 2]%N.
Definition blkZ : list N := [4; 4; 1; 2; 3; 9; 9; 1]%N.

(* ---- two identical files at default flags: the second one is shared - the right disjunct of
        layout_follows_order_strong fires, with identical bytes ---- *)
Definition ex_same_files : list (uflags * list N) := [(fl0, blkX); (fl0, blkX)].

Lemma ex_same :
  match run ex_same_files with
  | Ok st =>
      disk_data const_hash toy_compress 8 fl0 blkX = blkX /\
      p_start st 0 = 0 /\ p_start st 1 = 0 /\
      (* the log: file 0 appended to the empty output, file 1 found at 0 *)
      let older := [{| de_kind := LFile 0; de_loc := 0; de_data := blkX |}] in
      w_file (p_wr st) = replay [] ({| de_kind := LFile 1; de_loc := 0; de_data := blkX |} :: older) /\
      p_start st 1 < length (replay [] older) /\
      slice (replay [] older ++ blkX) (p_start st 1) (length blkX) = blkX /\
      (* the block it starts at is the stored block of file 0 *)
      srun const_hash toy_compress 8 ex_same_files 1 = srun const_hash toy_compress 8 ex_same_files 0 /\
      fresh_first 8 ex_same_files 1 = false /\ fresh_first 8 ex_same_files 0 = true
  | _ => False
  end.
Proof. vm_compute. repeat split; first [reflexivity|lia]. Qed.

(* ---- a run that is shared into ITSELF: file 1 = X X after file 0 = X; its two blocks are appended at 8, found at 0
        (the second block of the match is its own first block) and the output is cut back to 16 bytes:
        the bytes at its start offset are "the older output continued by the run itself" ---- *)
Definition ex_overlap_files : list (uflags * list N) := [(fl0, blkX); (fl0, blkX ++ blkX)].

Lemma ex_overlap :
  match run ex_overlap_files with
  | Ok st =>
      p_start st 0 = 0 /\ p_start st 1 = 0 /\ length (w_file (p_wr st)) = 16 /\
      let older := [{| de_kind := LFile 0; de_loc := 0; de_data := blkX |}] in
      w_file (p_wr st) = replay [] ({| de_kind := LFile 1; de_loc := 0; de_data := blkX ++ blkX |} :: older) /\
      length (replay [] older) = 8 /\
      slice (replay [] older ++ blkX ++ blkX) 0 16 = blkX ++ blkX
  | _ => False
  end.
Proof. vm_compute. repeat split; first [reflexivity|lia]. Qed.

(* ---- distinct files at default flags: the hypothesis of distinct_data_laid_out_in_order holds and the block
        starts are strictly increasing; a tail-only file in between; a fragment block is written in between ---- *)
Definition ex_distinct_files : list (uflags * list N) :=
  [(fl0, blkX ++ [3]%N); (fl0, [5; 5]%N); (fl0, blkY ++ blkX); (fl0, blkZ ++ blkZ ++ [7]%N)].

Lemma ex_distinct_hyp : forall j, j < length ex_distinct_files -> fresh_first 8 ex_distinct_files j = true.
Proof. intros j Hj. do 4 (destruct j as [|j]; [vm_compute; reflexivity|]). simpl in Hj. lia. Qed.

Lemma ex_distinct :
  match run ex_distinct_files with
  | Ok st =>
      map (fun k => (p_start st k, p_nwords st k)) (seq 0 4) = [(0, 1); (0, 0); (8, 2); (24, 2)] /\
      length (w_file (p_wr st)) = 44
  | _ => False
  end.
Proof. vm_compute. repeat split; first [reflexivity|lia]. Qed.

(* ... the second block of file 2 equals the block of file 0, and file 3 repeats its own first block: neither matters,
   only the FIRST kept block has to be new *)

(* ---- the tool level: the tree and sort file of OrderWitness (flag word 0 on four of the five files) ---- *)
Lemma ex_order_fresh :
  match run_adds ex_d (fs_init ex_d) ex_ops with
  | Some fs =>
    match post_process fs with
    | PostModel.POk pp =>
      match pack_sorted star_fnmatch true const_hash toy_compress toy_uncompress 8 4096 false [] ex_host [] pp
                        (Some ex_sortfile) with
      | ODone order st =>
          length order = 5 /\
          forallb (fresh_first 8 (packed_files false 8 (node_contents ex_host pp) order)) (seq 0 5) = true /\
          map (fun k => p_start st k) [0; 2; 3; 4] = [0; 8; 16; 29]
      | _ => False
      end
    | _ => False
    end
  | None => False
  end.
Proof. vm_compute. repeat split; first [reflexivity|lia]. Qed.

(* ---- the tool level, sharing: two nodes with identical contents, the sort file  -1 z  puts z first; a (default flags)
        is then shared with it: same block start, same fragment reference ---- *)
Definition ex_host_same (s : list N) : list N := blkX ++ [9]%N.
Definition ex_ops_same : list op := [reg [n_a]; reg [n_z]].
Definition ex_sortfile_same : list N := [45; 49; 32; 122; 10]%N.

Lemma ex_order_shared :
  match pack_ops star_fnmatch true const_hash toy_compress toy_uncompress 8 4096 false [] ex_host_same [] ex_d ex_ops_same
                 (Some ex_sortfile_same) with
  | ODone order st =>
      map (fun f => (pf_path f, pf_prio f, pf_flags f)) order = [([n_z], (-1)%Z, 0%N); ([n_a], 0%Z, 0%N)] /\
      p_start st 0 = 0 /\ p_start st 1 = 0 /\ p_frag st 0 = Some (0, 0) /\ p_frag st 1 = Some (0, 0) /\
      map (stored_bytes const_hash toy_compress 8 false (fun _ => blkX ++ [9]%N)) order = [blkX; blkX] /\
      fresh_first 8 (packed_files false 8 (fun _ => blkX ++ [9]%N) order) 1 = false
  | _ => False
  end.
Proof. vm_compute. repeat split; first [reflexivity|lia]. Qed.
