(* C17 — from the sort file to the order of the pack_file calls (bin/gensquashfs/src/mkfs.c main(), the part between
   fstree_post_process and sqfs_writer_finish).  Definitions only (extracted by Extract/ExtractC17Order.v).

     C                                                     model
     fstree_post_process: fs->files = file_list_dfs(root)  C11.PostModel.post_process: [pp_files pp], the regular files named
                                                             by their path (components), in depth-first child order
     fstree_sort_files(&sqfs.fs, sortfile)                 [sort_stage]: C17.SortModel.sort_files on the strings
       walks fs->files, calls fstree_get_path(node)          [get_path p] of that list in that order; node k of the list
       writes node->data.file.priority / .flags,             handed to sort_files is [n_id = k]; the re-linked list
       re-links the next_by_type chain (sort_file_list)      fs->files is the output list, each node with the priority and
       - touches nothing else of the fstree_t                flag word it ended up with ([pfile])
     no -S: the list and the calloc()ed fields are as       [default_list]: priority 0, flags 0, default order
       fstree_post_process left them
     pack_files: for (node = fs->files; ...; next_by_type) [pack_list]: one (flag word, contents) per node of THAT list in
       path = input_file ? input_file : canonical path       list order; contents = the bytes of the host file
       pack_file(data, path, node, opt):                      ImgScan.PackModel.input_name names
         flags = n->data.file.flags (| DONT_FRAGMENT, -T)   [FlagModel.tool_pack] applies SortModel.pack_flags per file and
         sqfs_block_processor_create_ostream(.., flags)      runs C08's block processor + block writer model: file k of
                                                             the list is [fid] k of the run
   The tree arrives either as the add operations of fstree_from_file ([pack_ops]: ImgPost.Bridge.run_adds) or from
   scan_directory ([pack_dir]: ImgScan.PackModel.scan_post). *)
From Coq Require Import List NArith ZArith Bool.
From SqfsV Require Import C11.StrOrder C11.FstreeModel C11.PostModel C11.ScanModel ImgPost.Bridge.
From SqfsV Require ImgScan.PackModel.
From SqfsV Require Import C08.DedupModel C17.SortModel C17.FlagModel.
Import ListNotations.

(* fstree_get_path of the node named by its components: "/" for the root, "/a/b" below it *)
Definition get_path (p : path) : list N :=
  match p with
  | [] => [slash]
  | _ => flat_map (fun c => slash :: c) p
  end.

(* one node of fs->files as pack_files finds it *)
Record pfile := mkPfile {
  pf_path : path;      (* which node *)
  pf_idx : N;          (* its position in the list fstree_post_process built (default order) *)
  pf_prio : Z;         (* data.file.priority *)
  pf_flags : N         (* data.file.flags *)
}.

Definition pfile_of (files : list path) (n : node) : pfile :=
  mkPfile (nth (N.to_nat (n_id n)) files []) (n_id n) (n_prio n) (n_flags n).

(* without -S *)
Definition default_list (files : list path) : list pfile :=
  map (pfile_of files) (init_nodes 0 (map get_path files)).

Section Sort.
  Variable fnmatch : list N -> list N -> bool -> bool.     (* fnmatch(3) of the sort file's glob lines *)
  Variable terminated : bool.                               (* SortModel: true = decode_filename with fix F08 *)

  (* None: fstree_sort_files returned -1 (gensquashfs exits with failure) *)
  Definition sort_stage (sortfile : option (list N)) (files : list path) : option (list pfile) :=
    match sortfile with
    | None => Some (default_list files)
    | Some text =>
      match sort_files fnmatch terminated (map get_path files) text with
      | SortModel.ROk out => Some (map (pfile_of files) out)
      | _ => None
      end
    end.
End Sort.

(* what pack_files hands to the block processor, in list order *)
Definition pack_list (contents : path -> list N) (l : list pfile) : list (N * list N) :=
  map (fun f => (pf_flags f, contents (pf_path f))) l.

Inductive ores :=
| OTreeErr                                    (* an add / the scan failed *)
| OPostErr                                    (* fstree_post_process failed *)
| OSortErr                                    (* fstree_sort_files failed *)
| ODataErr                                    (* block processor / block writer error (never: flags_do_not_change_content) *)
| ODone (order : list pfile) (st : proc).     (* the packing order and what the data path left *)

Section Run.
  Variable fnmatch : list N -> list N -> bool -> bool.
  Variable terminated : bool.
  Variable hashf : list N -> N.
  Variable compress : list N -> option (list N).
  Variable uncompress : list N -> nat -> option (list N).
  Variable bs half : nat.
  Variable no_tail : bool.                    (* -T *)
  Variable file0 : list N.                    (* the output file when the block writer is created *)
  Variable host : list N -> list N.           (* file name (relative to the pack directory) -> bytes read *)
  Variable sched : list nat.

  (* the bytes pack_file reads for the node at path p *)
  Definition node_contents (pp : ppout) (p : path) : list N := host (PackModel.input_name (pp_root pp) p).

  Definition pack_sorted (pp : ppout) (sortfile : option (list N)) : ores :=
    match sort_stage fnmatch terminated sortfile (pp_files pp) with
    | None => OSortErr
    | Some order =>
      match tool_pack hashf compress uncompress bs half no_tail file0 (pack_list (node_contents pp) order) sched with
      | DedupModel.Ok st => ODone order st
      | _ => ODataErr
      end
    end.

  (* gensquashfs -F: the add operations of the description file *)
  Definition pack_ops (d : fsdefaults) (ops : list op) (sortfile : option (list N)) : ores :=
    match run_adds d (fs_init d) ops with
    | None => OTreeErr
    | Some fs =>
      match post_process fs with
      | PostModel.POk pp => pack_sorted pp sortfile
      | _ => OPostErr
      end
    end.

  (* gensquashfs -D: the directory scan *)
  Definition pack_dir (scan_fnmatch : list N -> list N -> bool -> bool) (d : fsdefaults) (cfg : scfg) (sorted : bool)
             (h : hnode) (sortfile : option (list N)) : ores :=
    match PackModel.scan_post scan_fnmatch d cfg sorted h (fs_init d) with
    | None => OTreeErr
    | Some (PostModel.POk pp) => pack_sorted pp sortfile
    | Some _ => OPostErr
    end.
End Run.

(* the packing order alone (what the tool-level tie compares with real images): pack_ops / pack_dir up to and
   including fstree_sort_files.  OrderProofs.pack_ops_order / pack_dir_order: it IS the order component of the run. *)
Inductive ordres :=
| QTreeErr | QPostErr | QSortErr
| QOrder (order : list pfile).

Section OrderOnly.
  Variable fnmatch : list N -> list N -> bool -> bool.
  Variable terminated : bool.

  Definition order_pp (pp : ppout) (sortfile : option (list N)) : ordres :=
    match sort_stage fnmatch terminated sortfile (pp_files pp) with
    | None => QSortErr
    | Some order => QOrder order
    end.

  Definition order_ops (d : fsdefaults) (ops : list op) (sortfile : option (list N)) : ordres :=
    match run_adds d (fs_init d) ops with
    | None => QTreeErr
    | Some fs =>
      match post_process fs with
      | PostModel.POk pp => order_pp pp sortfile
      | _ => QPostErr
      end
    end.

  Definition order_dir (scan_fnmatch : list N -> list N -> bool -> bool) (d : fsdefaults) (cfg : scfg) (sorted : bool)
             (h : hnode) (sortfile : option (list N)) : ordres :=
    match PackModel.scan_post scan_fnmatch d cfg sorted h (fs_init d) with
    | None => QTreeErr
    | Some (PostModel.POk pp) => order_pp pp sortfile
    | Some _ => QPostErr
    end.
End OrderOnly.

(* projection of a packing run to its order *)
Definition order_of_run (r : ores) : option ordres :=
  match r with
  | OTreeErr => Some QTreeErr
  | OPostErr => Some QPostErr
  | OSortErr => Some QSortErr
  | ODataErr => None
  | ODone order _ => Some (QOrder order)
  end.

(* the fid of a node in a packing run = its position in the list pack_files iterates *)
Definition fid_of (order : list pfile) (p : path) : option nat :=
  PostModel.index_of p (map pf_path order).

(* "a is packed before b": lower priority first, ties in default order *)
Definition pf_before (a b : pfile) : Prop :=
  (pf_prio a < pf_prio b)%Z \/ (pf_prio a = pf_prio b /\ (pf_idx a < pf_idx b)%N).
