(* C17 — vocabulary of the layout statements: the chronological log of what the block writer stored
   (the runs of blocks of the files, the fragment blocks), the end-of-output mark it implies, and the
   rule every entry obeys.  Definitions only. *)
From Coq Require Import List NArith Arith Bool.
From SqfsV Require Import C08.DedupModel.
Import ListNotations.

Inductive lkind :=
| LFile (fid : nat)      (* the stored (non-hole, non-empty) blocks of file [fid], one contiguous run *)
| LFrag (idx : nat).     (* fragment block [idx] *)

Record lent := { le_kind : lkind; le_loc : nat; le_len : nat }.

Definition le_end (e : lent) : nat := le_loc e + le_len e.

(* logs are kept newest first.  [wm base log]: the end of the output after everything in [log] was
   stored on top of an output of [base] bytes *)
Fixpoint wm (base : nat) (log : list lent) : nat :=
  match log with
  | [] => base
  | e :: older => Nat.max (wm base older) (le_end e)
  end.

(* an entry is either appended at the end of the output as it was, or - a file for which
   deduplication is allowed, only - starts inside what was there before *)
Definition entry_ok (base : nat) (dd : nat -> bool) (older : list lent) (e : lent) : Prop :=
  le_loc e = wm base older \/
  (exists fid, le_kind e = LFile fid /\ dd fid = false /\ le_loc e < wm base older).

Fixpoint LogOk (base : nat) (dd : nat -> bool) (log : list lent) : Prop :=
  match log with
  | [] => True
  | e :: older => entry_ok base dd older e /\ LogOk base dd older
  end.

Fixpoint log_fids (log : list lent) : list nat :=
  match log with
  | [] => []
  | e :: r => match le_kind e with LFile f => f :: log_fids r | LFrag _ => log_fids r end
  end.
