(* C17 — where the block writer puts the blocks of one file (write_data_block ... deduplicate_blocks of
   C08's model): either at the end of the output as it was when the file's first block arrived, or -
   only if deduplication is allowed for the file - at an identical earlier run of blocks; and how long
   the output is afterwards.  Used by FlagPipe.v for dont_dedup_unshared / layout_follows_order. *)
From Coq Require Import List NArith Arith Bool Lia.
From SqfsV Require Import C08.DedupModel C08.DedupLemmas C08.DedupWriterProofs C08.DedupReaderProofs
     C08.DedupPipeProofs.
Import ListNotations.

Definition all_stored (l : list pblock) : Prop := Forall (fun b => stored b = true) l.

Lemma all_stored_add cur b : all_stored cur -> all_stored (add_cur cur b).
Proof.
  intro H. unfold add_cur. destruct (stored b) eqn:E; [|assumption].
  apply Forall_app. split; [assumption|]. constructor; [assumption|constructor].
Qed.

Lemma stored_data_pos b : stored b = true -> 0 < length (pb_data b).
Proof.
  unfold stored. intro H. apply andb_true_iff in H. destruct H as [H _].
  destruct (length (pb_data b)); [discriminate|lia].
Qed.

Lemma filter_stored_all l : all_stored (filter stored l).
Proof. apply Forall_forall. intros b Hb. apply filter_In in Hb. tauto. Qed.

Lemma all_stored_cat_pos l : all_stored l -> l <> [] -> 0 < length (cat l).
Proof.
  intros H Hne. destruct l as [|b l]; [contradiction|]. inversion H; subst.
  rewrite cat_cons, app_length. pose proof (stored_data_pos b H2). lia.
Qed.

Section W.
Variable half : nat.
Hypothesis Hhalf : 0 < half.
Variable base : nat.

(* deduplicate_blocks at the end of a file: the location handed out and what is left of the output *)
Lemma dedup_loc w claims pre hist cur dd evs w' loc evs' :
  WOpen base w claims pre hist cur -> all_stored cur ->
  deduplicate_blocks false half w dd evs = WOk w' loc evs' ->
  (cur = [] -> w_file w' = pre /\ loc = 0) /\
  (cur <> [] ->
   (loc = length pre /\ w_file w' = pre ++ cat cur) \/
   (dd = false /\ loc < length pre /\
    length (w_file w') = Nat.max (length pre) (loc + length (cat cur)) /\
    exists i, i < length hist /\ loc = bi_off (nth i hist dflt_bi) /\
              hashes_match (firstn (length cur) (skipn i (w_blocks w))) (infos (length pre) cur) = true /\
              slice (w_file w) loc (length (cat cur)) = cat cur)).
Proof.
  intros HO Hst E. pose proof (open_facts half Hhalf base _ _ _ _ _ HO) as HF. cbv zeta in HF.
  destruct HF as (Hch & Hend & Hcnt & Hsk & Htot & Hpre & Hlen).
  destruct HO as [Hf Hb Hs Hc He Hcl Hsm].
  unfold deduplicate_blocks in E. rewrite Hcnt in E.
  destruct (length cur =? 0) eqn:E0.
  - apply Nat.eqb_eq in E0. destruct cur; [|discriminate]. inversion E; subst w' loc evs'. split.
    + intros _. split; [|reflexivity]. rewrite Hf. unfold cat. simpl. apply app_nil_r.
    + intro C. contradiction.
  - apply Nat.eqb_neq in E0.
    assert (Hne : cur <> []) by (intro C; subst cur; simpl in E0; lia).
    split; [intro C; contradiction|]. intros _.
    assert (Hloca : bi_off (nth (w_fstart w) (w_blocks w) dflt_bi) = length pre).
    { rewrite (chain_nth_off base _ _ _ Hch) by lia. lia. }
    rewrite Hloca in E.
    destruct dd.
    { inversion E; subst w' loc evs'. left. split; [reflexivity|exact Hf]. }
    rewrite Hsk in E. fold (total (infos (length pre) cur)) in E. rewrite Htot in E.
    set (B := w_blocks w) in *. set (count := length cur) in *. set (sz := length (cat cur)) in *.
    set (cinf := infos (length pre) cur) in *.
    destruct (find_match false half (w_file w) B cinf count (length pre) sz (w_fstart w) 0) as [i| | |] eqn:FM;
      try discriminate.
    + (* shared with an earlier run *)
      apply (find_match_spec half Hhalf) in FM. destruct FM as (Hi & Hm & Hr).
      inversion E; subst w' loc evs'. clear E. right. split; [reflexivity|].
      pose proof (hashes_match_spec _ _ Hm) as [Hl Ht].
      unfold cinf in Hl, Ht. rewrite infos_length in Hl, Ht. fold cinf in Ht. fold count in Hl, Ht.
      assert (Hfl : firstn count (firstn count (skipn i B)) = firstn count (skipn i B)).
      { rewrite firstn_firstn. f_equal. lia. }
      rewrite Hfl in Ht. rewrite Htot in Ht.
      assert (Hlen_i : i + count <= length B).
      { rewrite firstn_length, skipn_length in Hl. lia. }
      assert (Hoff_i : bi_off (nth i B dflt_bi) = base + total (firstn i B)).
      { apply chain_nth_off; [assumption|lia]. }
      pose proof (total_firstn_skipn B i count) as T1.
      (* the block at i is not empty *)
      assert (Hpos : 0 < bi_size (nth i B dflt_bi)).
      { destruct cur as [|c0 cur']; [contradiction|].
        destruct (skipn i B) as [|x rest] eqn:Esk.
        - unfold count in Hm. simpl in Hm. discriminate.
        - destruct (skipn_nth_cons B i x rest dflt_bi Esk) as [Hx _]. rewrite Hx.
          unfold count, cinf in Hm. cbn [length firstn infos hashes_match] in Hm.
          apply andb_true_iff in Hm. destruct Hm as [Hm _].
          rewrite (bi_hash_eqb_size _ _ Hm). unfold bi_size, info_of. cbn [bi_sw].
          inversion Hsm; subst. rewrite sw_size_of by assumption.
          inversion Hst; subst. apply stored_data_pos. assumption. }
      assert (Hlt : base + total (firstn i B) < length pre).
      { rewrite Hpre. pose proof (total_firstn_S B i dflt_bi ltac:(lia)) as T2.
        pose proof (total_firstn_mono B (S i) (w_fstart w) ltac:(lia)). lia. }
      split; [lia|].
      set (used := if w_fstart w - i <=? count then i + count else w_fstart w).
      assert (Hused : used <= length B /\ w_fstart w <= used /\ i + count <= used /\ 0 < used).
      { unfold used. destruct (w_fstart w - i <=? count) eqn:El;
          [apply Nat.leb_le in El|apply Nat.leb_gt in El]; lia. }
      destruct Hused as (Hu1 & Hu2 & Hu3 & Hu4).
      pose proof (chain_last_end base B used dflt_bi Hch ltac:(lia)) as Hts.
      cbn [w_file]. rewrite Hts.
      assert (Hts1 : base + total (firstn used B) <= length (w_file w)).
      { pose proof (total_firstn_le B used). lia. }
      rewrite truncate_le by assumption. rewrite firstn_length.
      replace (Nat.min (base + total (firstn used B)) (length (w_file w)))
        with (base + total (firstn used B)) by lia.
      split.
      { rewrite Hoff_i. unfold used. destruct (w_fstart w - i <=? count) eqn:El.
        - apply Nat.leb_le in El.
          pose proof (total_firstn_mono B (w_fstart w) (i + count) ltac:(lia)). lia.
        - apply Nat.leb_gt in El.
          pose proof (total_firstn_mono B (i + count) (w_fstart w) ltac:(lia)). lia. }
      exists i. split; [lia|]. split.
      { f_equal. fold B. assert (HB : B = hist ++ infos (length pre) cur) by exact Hb.
        rewrite HB. apply app_nth1. lia. }
      split; [exact Hm|].
      assert (Hib : bi_off (nth i B dflt_bi) + sz <= length (w_file w)).
      { rewrite Hoff_i. pose proof (total_firstn_le B (i + count)). lia. }
      destruct (range_equal_spec (S sz) half (w_file w) (length pre) (bi_off (nth i B dflt_bi)) sz)
        as [[_ Heq]|[R _]]; try lia; [|congruence].
      rewrite <- Heq. rewrite Hf. apply slice_app_mid'.
    + (* no duplicate *)
      inversion E; subst w' loc evs'. left. split; [reflexivity|exact Hf].
Qed.

Lemma blk_update_wr st1 fid k b : p_wr (blk_update st1 fid k b) = p_wr st1.
Proof. unfold blk_update. destruct (pb_sparse b); [|destruct (length (pb_data b) =? 0)]; reflexivity. Qed.

Lemma blk_update_start st1 fid k b : p_start (blk_update st1 fid k b) = p_start st1.
Proof. unfold blk_update. destruct (pb_sparse b); [|destruct (length (pb_data b) =? 0)]; reflexivity. Qed.

(* process_completed_block for the blocks of one file: start location and length of the output *)
Lemma cb_layout fid dd : forall pbs st k claims pre hist cur st',
  pbs <> [] -> all_small pbs -> all_stored cur ->
  (if k =? 0 then WInv base (p_wr st) claims /\ pre = w_file (p_wr st) /\
                  hist = w_blocks (p_wr st) /\ cur = []
   else WOpen base (p_wr st) claims pre hist cur) ->
  complete_blocks false half st fid dd k pbs = Ok st' ->
  let al := cur ++ filter stored pbs in
  (al = [] -> w_file (p_wr st') = pre) /\
  (al <> [] ->
   (p_start st' fid = length pre /\ w_file (p_wr st') = pre ++ cat al) \/
   (dd = false /\ p_start st' fid < length pre /\
    length (w_file (p_wr st')) = Nat.max (length pre) (p_start st' fid + length (cat al)))).
Proof.
  induction pbs as [|b rest IH]; intros st k claims pre hist cur st' Hne Hsm Hst Hpre E; [contradiction|].
  inversion Hsm as [|? ? Hsb Hsm']; subst.
  rewrite complete_blocks_unfold in E.
  destruct rest as [|b2 rest'].
  - (* the block carrying SQFS_BLK_LAST_BLOCK *)
    unfold write_data_block, mkfl in E. cbn [wf_first wf_last wf_sparse wf_compressed wf_dont_dedup] in E.
    match type of E with context [deduplicate_blocks _ _ ?w1 _ ?e] => set (w1' := w1) in E; set (e' := e) in E end.
    assert (HO : WOpen base w1' claims pre hist (add_cur cur b)).
    { unfold w1'. destruct (k =? 0).
      - destruct Hpre as (HI & -> & -> & ->). apply store_open; [|assumption].
        apply WOpen_of_WInv. assumption.
      - apply store_open; [|assumption]. destruct (p_wr st). simpl. assumption. }
    destruct (deduplicate_blocks false half w1' dd e') as [w' loc evs'| |] eqn:ED; try discriminate.
    cbv zeta in E. inversion E; subst st'. clear E.
    destruct (dedup_loc _ _ _ _ _ _ _ _ _ _ HO (all_stored_add _ _ Hst) ED) as [D1 D2].
    cbv zeta. rewrite <- (add_cur_filter cur b []). cbn [filter]. rewrite app_nil_r.
    cbn [p_wr p_start set_start]. rewrite blk_update_wr. cbn [p_wr set_wr]. rewrite Nat.eqb_refl.
    split.
    + intro C. destruct (D1 C) as [F _]. exact F.
    + intro C. destruct (D2 C) as [[L F]|(Hdd & L & F & _)]; [left|right].
      * split; assumption.
      * split; [assumption|]. split; assumption.
  - (* not the last block *)
    destruct (wdb_nonlast half base (p_wr st) claims pre hist cur b (k =? 0) dd Hpre Hsb) as (w1 & EW & HO).
    rewrite EW in E. cbv zeta in E.
    match type of E with complete_blocks _ _ ?s _ _ _ _ = _ => set (st2 := s) in E end.
    assert (Hw2 : p_wr st2 = w1) by (unfold st2; rewrite blk_update_wr; reflexivity).
    specialize (IH st2 (S k) claims pre hist (add_cur cur b) st' ltac:(discriminate) Hsm' (all_stored_add _ _ Hst)).
    cbn [Nat.eqb] in IH. rewrite Hw2 in IH. specialize (IH HO E). cbv zeta in IH.
    rewrite add_cur_filter in IH. exact IH.
Qed.

End W.
