(* C17 — what the block writer leaves behind when the blocks of one file have gone through it, in full: besides the
   start offset and the length of the output (FlagWriter.cb_layout) the output BYTES and the block history, and - when
   the run was shared - the bytes that stood at the start offset and the history block it starts at.  Used by
   SharePipe.v for the strong layout log (ShareSpec.v). *)
From Coq Require Import List NArith Arith Bool Lia.
From SqfsV Require Import C08.DedupModel C08.DedupLemmas C08.DedupWriterProofs C08.DedupReaderProofs
     C08.DedupPipeProofs.
From SqfsV Require Import C17.FlagWriter.
Import ListNotations.

(* deduplicate_blocks only ever cuts the block history *)
Lemma dedup_blocks_prefix ho half w dd evs w' loc evs' :
  deduplicate_blocks ho half w dd evs = WOk w' loc evs' ->
  exists used, w_blocks w' = firstn used (w_blocks w).
Proof.
  unfold deduplicate_blocks. intro E.
  assert (Self : exists used, w_blocks w = firstn used (w_blocks w))
    by (exists (length (w_blocks w)); symmetry; apply firstn_all).
  destruct (length (w_blocks w) - w_fstart w =? 0); [inversion E; subst; exact Self|].
  destruct dd; [inversion E; subst; exact Self|].
  match type of E with match ?fm with _ => _ end = _ => destruct fm as [i| | |] end; try discriminate.
  - inversion E; subst. cbn [w_blocks]. eexists. reflexivity.
  - inversion E; subst. exact Self.
Qed.

Lemma firstn_is_own_length {A} (l x : list A) t : l = firstn t x -> l = firstn (length l) x.
Proof.
  intro H. rewrite H at 2. rewrite firstn_length.
  destruct (Nat.le_gt_cases t (length x)) as [L|L].
  - rewrite Nat.min_l by assumption. assumption.
  - rewrite Nat.min_r by lia. rewrite firstn_all. rewrite H. apply firstn_all2. lia.
Qed.

(* every block of a chain ends inside the chain *)
Lemma chain_in_bound : forall bl o bi, chain o bl -> In bi bl -> bi_off bi + bi_size bi <= o + total bl.
Proof.
  induction bl as [|x bl IH]; intros o bi Hc Hin; [contradiction|].
  simpl in Hc. destruct Hc as [Ho Hc]. rewrite total_cons. destruct Hin as [->|Hin].
  - lia.
  - specialize (IH _ _ Hc Hin). lia.
Qed.

(* the blocks of a run lie where their infos say: block number m of the run starts behind the m blocks in front of it *)
Lemma infos_nth_holds : forall l o pre x bi,
  o = length pre -> In bi (infos o l) ->
  exists b, In b l /\ bi_sw bi = sw_of (length (pb_data b)) (pb_compressed b) /\ bi_chk bi = pb_chk b /\
            holds (pre ++ cat l ++ x) (bi_off bi, pb_data b).
Proof.
  induction l as [|c l IH]; intros o pre x bi Ho Hin; [contradiction|].
  cbn [infos] in Hin. rewrite cat_cons. destruct Hin as [<-|Hin].
  - exists c. split; [left; reflexivity|]. split; [reflexivity|]. split; [reflexivity|].
    subst o. split; cbn [fst snd info_of bi_off].
    + rewrite !app_length. lia.
    + rewrite <- app_assoc. apply slice_app_mid.
  - destruct (IH (o + length (pb_data c)) (pre ++ pb_data c) x bi) as (b & H1 & H2 & H3 & H4);
      [rewrite app_length; lia|assumption|].
    exists b. split; [right; assumption|]. split; [assumption|]. split; [assumption|].
    rewrite <- !app_assoc in H4. rewrite <- app_assoc. exact H4.
Qed.

Section W.
Variable half : nat.
Hypothesis Hhalf : 0 < half.
Variable base : nat.

(* process_completed_block for the blocks of one file: the block history and the bytes of the output afterwards,
   and - if the run did not get the fresh location - what stood at the location it got *)
Lemma cb_share fid dd : forall pbs st k claims pre hist cur st',
  pbs <> [] -> all_small pbs -> all_stored cur ->
  (if k =? 0 then WInv base (p_wr st) claims /\ pre = w_file (p_wr st) /\
                  hist = w_blocks (p_wr st) /\ cur = []
   else WOpen base (p_wr st) claims pre hist cur) ->
  complete_blocks false half st fid dd k pbs = Ok st' ->
  let al := cur ++ filter stored pbs in
  (exists used, w_blocks (p_wr st') = firstn used (hist ++ infos (length pre) al)) /\
  (exists t, w_file (p_wr st') = firstn t (pre ++ cat al) /\ length pre <= t) /\
  (forall c0 rest, al = c0 :: rest -> p_start st' fid < length pre ->
     slice (pre ++ cat al) (p_start st' fid) (length (cat al)) = cat al /\
     exists i, i < length hist /\ p_start st' fid = bi_off (nth i hist dflt_bi) /\
               bi_hash_eqb (nth i hist dflt_bi) (info_of (length pre) c0) = true).
Proof.
  induction pbs as [|b rest IH]; intros st k claims pre hist cur st' Hne Hsm Hst Hpre E; [contradiction|].
  inversion Hsm as [|? ? Hsb Hsm']; subst.
  rewrite complete_blocks_unfold in E.
  destruct rest as [|b2 rest'].
  - (* the block carrying SQFS_BLK_LAST_BLOCK *)
    unfold write_data_block, mkfl in E. cbn [wf_first wf_last wf_sparse wf_compressed wf_dont_dedup] in E.
    match type of E with context [deduplicate_blocks _ _ ?w1 _ ?e] => set (w1' := w1) in E; set (e' := e) in E end.
    assert (HO : WOpen base w1' claims pre hist (add_cur cur b)).
    { unfold w1'. destruct (k =? 0).
      - destruct Hpre as (HI & -> & -> & ->). apply store_open; [|assumption].
        apply WOpen_of_WInv. assumption.
      - apply store_open; [|assumption]. destruct (p_wr st). simpl. assumption. }
    destruct (deduplicate_blocks false half w1' dd e') as [w' loc evs'| |] eqn:ED; try discriminate.
    cbv zeta in E. inversion E; subst st'. clear E.
    pose proof (dedup_loc half Hhalf base _ _ _ _ _ _ _ _ _ _ HO (all_stored_add _ _ Hst) ED) as [D1 D2].
    destruct (dedup_blocks_prefix _ _ _ _ _ _ _ _ ED) as [used Hused].
    destruct (dedup_closed half Hhalf base w1' claims pre hist (add_cur cur b) dd e' HO)
      as (w'' & loc'' & evs'' & E'' & _ & t & Ft & Lt).
    rewrite ED in E''. inversion E''; subst w'' loc'' evs''. clear E''.
    pose proof HO as [Hf Hb _ _ _ _ _].
    cbv zeta. rewrite <- (add_cur_filter cur b []). cbn [filter]. rewrite app_nil_r.
    cbn [p_wr p_start set_start]. rewrite blk_update_wr. cbn [p_wr set_wr]. rewrite Nat.eqb_refl.
    split; [exists used; rewrite Hused, Hb; reflexivity|].
    split; [exists t; rewrite Ft, Hf; split; [reflexivity|lia]|].
    intros c0 rest Hal Hlt.
    assert (Hcne : add_cur cur b <> []) by (rewrite Hal; discriminate).
    destruct (D2 Hcne) as [[L _]|(_ & _ & _ & i & Hi & Hloc & Hm & Hs)]; [lia|].
    rewrite Hf in Hs. split; [exact Hs|].
    exists i. split; [exact Hi|]. split; [exact Hloc|].
    rewrite Hal in Hm. cbn [length infos hashes_match] in Hm.
    destruct (skipn i (w_blocks w1')) as [|x tl] eqn:Esk; [cbn in Hm; discriminate|].
    cbn [firstn] in Hm. apply andb_true_iff in Hm. destruct Hm as [Hm _].
    destruct (skipn_nth_cons (w_blocks w1') i x tl dflt_bi Esk) as [Hx _].
    rewrite Hb, app_nth1 in Hx by assumption. rewrite Hx. exact Hm.
  - (* not the last block *)
    destruct (wdb_nonlast half base (p_wr st) claims pre hist cur b (k =? 0) dd Hpre Hsb) as (w1 & EW & HO).
    rewrite EW in E. cbv zeta in E.
    match type of E with complete_blocks _ _ ?s _ _ _ _ = _ => set (st2 := s) in E end.
    assert (Hw2 : p_wr st2 = w1) by (unfold st2; rewrite blk_update_wr; reflexivity).
    specialize (IH st2 (S k) claims pre hist (add_cur cur b) st' ltac:(discriminate) Hsm' (all_stored_add _ _ Hst)).
    cbn [Nat.eqb] in IH. rewrite Hw2 in IH. specialize (IH HO E). cbv zeta in IH.
    rewrite add_cur_filter in IH. exact IH.
Qed.

End W.
