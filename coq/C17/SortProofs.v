(* C17 -- proofs about SortModel.v *)
From Coq Require Import List NArith ZArith Bool Lia Permutation Sorting.Sorted.
From SqfsV Require Import C18.CanonModel C18.CanonProofs C17.GenC17 C17.SortModel.
Import ListNotations.
Local Open Scope N_scope.

(* ------------------------------------------------------------------------- *)
(* sort_file_list                                                             *)
(* ------------------------------------------------------------------------- *)

Definition prio_le (a b : node) : Prop := (n_prio a <= n_prio b)%Z.
Definition prio_lt (a b : node) : Prop := (n_prio a < n_prio b)%Z.

Lemma scan_spec : forall l pre_rev low mid_rev m rest,
  Forall (prio_lt low) pre_rev ->
  Forall (prio_le low) mid_rev ->
  scan pre_rev low mid_rev l = (m, rest) ->
  exists a b,
    rev pre_rev ++ low :: rev mid_rev ++ l = a ++ m :: b /\
    rest = a ++ b /\
    Forall (prio_lt m) a /\ Forall (prio_le m) b.
Proof.
  induction l as [|it r IH]; intros pre_rev low mid_rev m rest Hpre Hmid H; cbn [scan] in H.
  - inversion H; subst. exists (rev pre_rev), (rev mid_rev).
    rewrite app_nil_r. repeat split; auto using Forall_rev.
  - destruct (n_prio it <? n_prio low)%Z eqn:E.
    + apply Z.ltb_lt in E.
      apply IH in H.
      * destruct H as (a & b & Heq & Hr & Ha & Hb). exists a, b. repeat split; auto.
        rewrite <- Heq. cbn [rev app]. rewrite rev_app_distr. cbn [rev].
        rewrite <- !app_assoc. cbn [app]. reflexivity.
      * apply Forall_app. split.
        -- eapply Forall_impl; [|exact Hmid]. unfold prio_le, prio_lt. intros; lia.
        -- constructor; [exact E|].
           eapply Forall_impl; [|exact Hpre]. unfold prio_lt. intros; lia.
      * constructor.
    + apply Z.ltb_ge in E.
      apply IH in H.
      * destruct H as (a & b & Heq & Hr & Ha & Hb). exists a, b. repeat split; auto.
        rewrite <- Heq. cbn [rev]. rewrite <- !app_assoc. cbn [app]. reflexivity.
      * exact Hpre.
      * constructor; [exact E | exact Hmid].
Qed.

Lemma scan_first x r m rest : scan [] x [] r = (m, rest) ->
  exists a b, x :: r = a ++ m :: b /\ rest = a ++ b /\
              Forall (prio_lt m) a /\ Forall (prio_le m) b.
Proof.
  intros H. apply scan_spec in H; [|constructor|constructor]. exact H.
Qed.

Lemma sel_sort_n_perm : forall n l, length l = n -> Permutation (sel_sort_n n l) l.
Proof.
  induction n; intros l Hl.
  - destruct l; [constructor | discriminate].
  - destruct l as [|x r]; [discriminate|]. cbn [sel_sort_n].
    destruct (scan [] x [] r) as [m rest] eqn:E.
    destruct (scan_first _ _ _ _ E) as (a & b & Heq & Hr & _ & _).
    rewrite Heq. subst rest.
    assert (length (a ++ b) = n).
    { apply (f_equal (@length node)) in Heq. cbn in Heq, Hl. rewrite app_length in *. cbn in Heq. lia. }
    etransitivity; [apply perm_skip, IHn; assumption|]. apply Permutation_middle.
Qed.

Lemma sel_sort_n_sorted : forall n l, length l = n -> StronglySorted prio_le (sel_sort_n n l).
Proof.
  induction n; intros l Hl.
  - destruct l; [constructor | discriminate].
  - destruct l as [|x r]; [discriminate|]. cbn [sel_sort_n].
    destruct (scan [] x [] r) as [m rest] eqn:E.
    destruct (scan_first _ _ _ _ E) as (a & b & Heq & Hr & Ha & Hb).
    subst rest.
    assert (Hlen : length (a ++ b) = n).
    { apply (f_equal (@length node)) in Heq. cbn in Heq, Hl. rewrite app_length in *. cbn in Heq. lia. }
    constructor; [apply IHn; assumption|].
    eapply Permutation_Forall; [apply Permutation_sym, sel_sort_n_perm; assumption|].
    apply Forall_app; split; [|exact Hb].
    eapply Forall_impl; [|exact Ha]. unfold prio_le, prio_lt; intros; lia.
Qed.

Definition has_prio (p : Z) (n : node) : bool := (n_prio n =? p)%Z.

Lemma filter_none_lt p m a : n_prio m = p -> Forall (prio_lt m) a -> filter (has_prio p) a = [].
Proof.
  intros Hp. induction 1 as [|y a Hy _ IH]; [reflexivity|]. cbn [filter].
  unfold has_prio at 1. unfold prio_lt in Hy.
  destruct (n_prio y =? p)%Z eqn:E; [apply Z.eqb_eq in E; lia | exact IH].
Qed.

Lemma sel_sort_n_stable : forall n l p, length l = n ->
  filter (has_prio p) (sel_sort_n n l) = filter (has_prio p) l.
Proof.
  induction n; intros l p Hl.
  - destruct l; [reflexivity | discriminate].
  - destruct l as [|x r]; [discriminate|]. cbn [sel_sort_n].
    destruct (scan [] x [] r) as [m rest] eqn:E.
    destruct (scan_first _ _ _ _ E) as (a & b & Heq & Hr & Ha & Hb).
    subst rest.
    assert (Hlen : length (a ++ b) = n).
    { apply (f_equal (@length node)) in Heq. cbn in Heq, Hl. rewrite app_length in *. cbn in Heq. lia. }
    rewrite Heq. cbn [filter]. rewrite IHn by assumption.
    rewrite !filter_app. cbn [filter].
    destruct (has_prio p m) eqn:Em; [|reflexivity].
    unfold has_prio in Em. apply Z.eqb_eq in Em.
    rewrite (filter_none_lt p m a Em Ha). reflexivity.
Qed.

Lemma sel_sort_perm l : Permutation (sel_sort l) l.
Proof. apply sel_sort_n_perm; reflexivity. Qed.
Lemma sel_sort_sorted l : StronglySorted prio_le (sel_sort l).
Proof. apply sel_sort_n_sorted; reflexivity. Qed.
Lemma sel_sort_stable l p : filter (has_prio p) (sel_sort l) = filter (has_prio p) l.
Proof. apply sel_sort_n_stable; reflexivity. Qed.


(* ------------------------------------------------------------------------- *)
(* the matching loop: first match wins                                        *)
(* ------------------------------------------------------------------------- *)

Definition cpath_of (p : list N) : list N :=
  match canon_result p with Some c => c | None => [] end.
Definition cpath (n : node) : list N := cpath_of (n_path n).
Definition canon_ok (n : node) : Prop := canon_result (n_path n) <> None.

Section MatchProofs.
  Variable fnmatch : list N -> list N -> bool -> bool.
  Notation line_matches := (line_matches fnmatch).
  Notation apply_line := (apply_line fnmatch).

  (* effect of one line on one node, when nothing else interferes *)
  Definition step (d : directive) (n : node) : node :=
    if n_matched n then n
    else if line_matches d (cpath n) then mark d n else n.

  Lemma step_path d n : n_path (step d n) = n_path n.
  Proof. unfold step. destruct (n_matched n); [reflexivity|]. destruct (line_matches _ _); reflexivity. Qed.
  Lemma step_cpath d n : cpath (step d n) = cpath n.
  Proof. unfold cpath. rewrite step_path. reflexivity. Qed.
  Lemma step_id d n : n_id (step d n) = n_id n.
  Proof. unfold step. destruct (n_matched n); [reflexivity|]. destruct (line_matches _ _); reflexivity. Qed.

  Lemma exact_rest_unchanged d n r :
    d_glob d = false ->
    list_N_eqb (cpath n) (d_name d) = true ->
    ~ In (cpath n) (map cpath r) ->
    map (step d) r = r.
  Proof.
    intros Hg He Hnin. induction r as [|y r IH]; [reflexivity|].
    cbn [map]. rewrite IH by (intro; apply Hnin; right; assumption). f_equal.
    unfold step. destruct (n_matched y); [reflexivity|].
    unfold SortModel.line_matches. rewrite Hg.
    destruct (list_N_eqb (cpath y) (d_name d)) eqn:E; [|reflexivity].
    exfalso. apply Hnin. left.
    apply list_N_eqb_eq in E. apply list_N_eqb_eq in He. congruence.
  Qed.

  Lemma apply_line_map d : forall nodes,
    Forall canon_ok nodes ->
    NoDup (map cpath nodes) ->
    apply_line d nodes = Some (map (step d) nodes).
  Proof.
    induction nodes as [|n r IH]; intros Hok Hnd; [reflexivity|].
    inversion Hok as [|? ? Hn Hr]; subst. inversion Hnd as [|? ? Hnin Hnd']; subst.
    cbn [SortModel.apply_line map]. unfold step at 1.
    destruct (n_matched n) eqn:Em.
    - rewrite IH by assumption. reflexivity.
    - unfold cpath at 1, cpath_of. unfold canon_ok in Hn.
      destruct (canon_result (n_path n)) as [p|] eqn:Ec; [|congruence].
      destruct (line_matches d p) eqn:El.
      + destruct (d_glob d) eqn:Eg.
        * rewrite IH by assumption. reflexivity.
        * rewrite (exact_rest_unchanged d n r Eg); auto.
          unfold SortModel.line_matches in El. rewrite Eg in El.
          unfold cpath, cpath_of. rewrite Ec. exact El.
      + rewrite IH by assumption. reflexivity.
  Qed.

  Lemma map_step_ok d nodes : Forall canon_ok nodes -> Forall canon_ok (map (step d) nodes).
  Proof.
    intros H. apply Forall_map. eapply Forall_impl; [|exact H].
    intros n Hn. unfold canon_ok. rewrite step_path. exact Hn.
  Qed.
  Lemma map_step_cpath d nodes : map cpath (map (step d) nodes) = map cpath nodes.
  Proof. rewrite map_map. apply map_ext. intros; apply step_cpath. Qed.

  (* all directives of a sort file, in order (None: some line is malformed) *)
  Fixpoint parse_all (terminated : bool) (lines : list (list N)) : option (list directive) :=
    match lines with
    | [] => Some []
    | l :: r =>
      match parse_line terminated l with
      | LnSkip => parse_all terminated r
      | LnDir d => match parse_all terminated r with Some ds => Some (d :: ds) | None => None end
      | _ => None
      end
    end.

  Definition steps (ds : list directive) (n : node) : node :=
    fold_left (fun n d => step d n) ds n.

  Lemma run_lines_steps t : forall lines nodes,
    Forall canon_ok nodes -> NoDup (map cpath nodes) ->
    match parse_all t lines with
    | Some ds => run_lines fnmatch t lines nodes = ROk (map (steps ds) nodes)
    | None => run_lines fnmatch t lines nodes = RErr \/ run_lines fnmatch t lines nodes = RFuel
    end.
  Proof.
    induction lines as [|l r IH]; intros nodes Hok Hnd; cbn [parse_all run_lines].
    - unfold steps. cbn [fold_left]. rewrite map_id. reflexivity.
    - destruct (parse_line t l) as [| d | |]; auto.
      + apply IH; assumption.
      + rewrite apply_line_map by assumption.
        specialize (IH (map (step d) nodes) (map_step_ok d nodes Hok)).
        rewrite map_step_cpath in IH. specialize (IH Hnd).
        destruct (parse_all t r) as [ds|].
        * rewrite IH. rewrite map_map. reflexivity.
        * exact IH.
  Qed.

  (* a node that is matched is never touched again *)
  Lemma steps_matched ds : forall n, n_matched n = true -> steps ds n = n.
  Proof.
    induction ds as [|d ds IH]; intros n Hm; [reflexivity|].
    unfold steps. cbn [fold_left]. unfold step at 2. rewrite Hm. apply IH; assumption.
  Qed.

  Lemma steps_first ds : forall n, n_matched n = false ->
    steps ds n =
    match find (fun d => line_matches d (cpath n)) ds with
    | Some d => mark d n
    | None => n
    end.
  Proof.
    induction ds as [|d ds IH]; intros n Hm; [reflexivity|].
    unfold steps. cbn [fold_left find]. unfold step at 2. rewrite Hm.
    destruct (line_matches d (cpath n)) eqn:E.
    - apply steps_matched. reflexivity.
    - apply IH; assumption.
  Qed.

  Lemma init_nodes_spec : forall paths i,
    Forall2 (fun p n => n_path n = p /\ n_matched n = false /\ n_prio n = 0%Z /\ n_flags n = 0)
            paths (init_nodes i paths).
  Proof. induction paths; intros i; cbn [init_nodes]; constructor; auto. Qed.

  Lemma init_nodes_paths : forall paths i, map n_path (init_nodes i paths) = paths.
  Proof. induction paths; intros i; cbn [init_nodes map]; [reflexivity|]. f_equal. apply IHpaths. Qed.

  Lemma init_nodes_ids : forall paths i, map n_id (init_nodes i paths) = map (fun k => i + N.of_nat k) (seq 0 (length paths)).
  Proof.
    induction paths as [|p r IH]; intros i; [reflexivity|].
    cbn [init_nodes map length seq n_id]. f_equal; [lia|].
    rewrite IH. rewrite <- seq_shift, map_map. apply map_ext. intros; lia.
  Qed.

  (* what a file ends up with: the directive of the first line that matches it *)
  Definition assigned (ds : list directive) (p : list N) : Z * N :=
    match find (fun d => line_matches d (cpath_of p)) ds with
    | Some d => (d_prio d, d_flags d)
    | None => (0%Z, 0)
    end.

  Lemma steps_assigned ds : forall paths nodes,
    Forall2 (fun p n => n_path n = p /\ n_matched n = false /\ n_prio n = 0%Z /\ n_flags n = 0)
            paths nodes ->
    Forall2 (fun p n => n_path n = p /\ (n_prio n, n_flags n) = assigned ds p)
            paths (map (steps ds) nodes).
  Proof.
    induction 1 as [|p n ps ns (Hp & Hm & Hpr & Hfl) _ IH]; cbn [map]; constructor; auto.
    rewrite steps_first by assumption.
    unfold assigned, cpath. rewrite Hp.
    destruct (find _ ds); cbn [mark n_path n_prio n_flags]; auto.
    rewrite Hpr, Hfl. auto.
  Qed.

  Lemma first_match_wins_l t paths text :
    Forall (fun p => canon_result p <> None) paths ->
    NoDup (map cpath_of paths) ->
    match parse_all t (get_lines text) with
    | Some ds =>
      exists ns,
        run_lines fnmatch t (get_lines text) (init_nodes 0 paths) = ROk ns /\
        sort_files fnmatch t paths text = ROk (sel_sort ns) /\
        Forall2 (fun p n => n_path n = p /\ (n_prio n, n_flags n) = assigned ds p) paths ns
    | None => sort_files fnmatch t paths text = RErr \/ sort_files fnmatch t paths text = RFuel
    end.
  Proof.
    intros Hok Hnd.
    assert (Hok' : Forall canon_ok (init_nodes 0 paths)).
    { apply Forall_forall. intros n Hn. unfold canon_ok.
      rewrite Forall_forall in Hok. apply Hok. rewrite <- (init_nodes_paths paths 0).
      apply in_map. exact Hn. }
    assert (Hnd' : NoDup (map cpath (init_nodes 0 paths))).
    { unfold cpath. rewrite <- map_map. rewrite init_nodes_paths. exact Hnd. }
    pose proof (run_lines_steps t (get_lines text) _ Hok' Hnd') as H.
    unfold sort_files.
    destruct (parse_all t (get_lines text)) as [ds|].
    - exists (map (steps ds) (init_nodes 0 paths)). rewrite H. repeat split.
      apply steps_assigned, init_nodes_spec.
    - destruct H as [H|H]; rewrite H; auto.
  Qed.
End MatchProofs.

(* ------------------------------------------------------------------------- *)
(* split_line / decode_flags: totality                                        *)
(* ------------------------------------------------------------------------- *)

Lemma drop_while_length p s : (length (drop_while p s) <= length s)%nat.
Proof. induction s as [|c r IH]; cbn [drop_while]; [lia|]. destruct (p c); cbn [length]; lia. Qed.

Lemma tok_plain_length s t rest : tok_plain s = (t, rest) -> (length rest <= length s)%nat.
Proof.
  revert t rest. induction s as [|c r IH]; intros t rest H; cbn [tok_plain] in H.
  - inversion H; subst; cbn; lia.
  - destruct (is_comma c).
    + inversion H; subst; cbn; lia.
    + destruct (tok_plain r) as [a b] eqn:E. inversion H; subst.
      specialize (IH _ _ eq_refl). cbn [length]. lia.
Qed.

Lemma tok_quoted_length s t rest : tok_quoted s = QOk t rest -> (length rest < length s)%nat.
Proof.
  revert t rest.
  assert (G : forall n s, (length s <= n)%nat -> forall t rest, tok_quoted s = QOk t rest -> (length rest < length s)%nat).
  { induction n; intros s0 Hn t rest H.
    - destruct s0; [discriminate | cbn in Hn; lia].
    - destruct s0 as [|c r]; [discriminate|]. cbn [tok_quoted] in H.
      destruct (c =? ch_dquote).
      + inversion H; subst. cbn; lia.
      + destruct (c =? ch_bslash).
        * destruct r as [|e r']; [discriminate|].
          destruct ((e =? ch_dquote) || (e =? ch_bslash)); [|discriminate].
          destruct (tok_quoted r') as [t' rest'| |] eqn:E; try discriminate.
          inversion H; subst. apply IHn in E; [|cbn in Hn; lia]. cbn [length]. lia.
        * destruct (tok_quoted r) as [t' rest'| |] eqn:E; try discriminate.
          inversion H; subst. apply IHn in E; [|cbn in Hn; lia]. cbn [length]. lia. }
  intros t rest H. eapply G; [reflexivity | exact H].
Qed.

Lemma split_go_total : forall fuel s, (length s < fuel)%nat -> split_go fuel s <> SFuel.
Proof.
  induction fuel; intros s Hl; [lia|].
  cbn [split_go]. destruct s as [|c r]; [discriminate|].
  destruct (c =? ch_dquote).
  - destruct (tok_quoted r) as [t rest| |] eqn:E; try discriminate.
    apply tok_quoted_length in E.
    pose proof (drop_while_length is_comma rest).
    specialize (IHfuel (drop_while is_comma rest)).
    destruct (split_go fuel (drop_while is_comma rest)); try discriminate.
    exfalso. apply IHfuel; [cbn in Hl; lia | reflexivity].
  - destruct (tok_plain (c :: r)) as [t rest] eqn:E.
    assert (Hlt : (length (drop_while is_comma rest) < length (c :: r))%nat).
    { cbn [tok_plain] in E. destruct (is_comma c) eqn:Ec.
      - inversion E; subst. cbn [drop_while]. rewrite Ec.
        pose proof (drop_while_length is_comma r). cbn [length]. lia.
      - destruct (tok_plain r) as [a b] eqn:E2. inversion E; subst.
        apply tok_plain_length in E2. pose proof (drop_while_length is_comma rest). cbn [length]. lia. }
    specialize (IHfuel (drop_while is_comma rest)).
    destruct (split_go fuel (drop_while is_comma rest)); try discriminate.
    exfalso. apply IHfuel; [cbn [length] in *; lia | reflexivity].
Qed.

Lemma split_line_total s : split_line_comma s <> SFuel.
Proof.
  unfold split_line_comma. apply split_go_total.
  pose proof (drop_while_length is_comma s). lia.
Qed.

Lemma decode_flags_total line : decode_flags line <> FFuel.
Proof.
  unfold decode_flags. destruct line as [|c r]; [discriminate|].
  destruct (c =? ch_lbracket); [|discriminate].
  destruct (find_rbracket r) as [[inner after]|]; [|discriminate].
  pose proof (split_line_total inner).
  destruct (split_line_comma inner); try discriminate; [|congruence].
  destruct after as [|e a]; [discriminate|].
  destruct (isspace e); [|discriminate].
  destruct (apply_kw args false false 0) as [[[g p] fl]|]; discriminate.
Qed.

Lemma parse_line_total t line : parse_line t line <> LnFuel.
Proof.
  unfold parse_line. destruct line as [|c r]; [discriminate|].
  destruct (c =? ch_hash); [discriminate|].
  destruct (decode_priority (c :: r)) as [[p r1]|]; [|discriminate].
  pose proof (decode_flags_total r1).
  destruct (decode_flags r1); try discriminate; [|congruence].
  destruct (decode_filename t rest); discriminate.
Qed.

Lemma run_lines_total fnmatch t : forall lines nodes, run_lines fnmatch t lines nodes <> RFuel.
Proof.
  induction lines as [|l r IH]; intros nodes; cbn [run_lines]; [discriminate|].
  pose proof (parse_line_total t l).
  destruct (parse_line t l) as [|d| |]; [apply IH | | discriminate | congruence].
  destruct (apply_line fnmatch d nodes); [apply IH | discriminate].
Qed.

Lemma sort_files_total fnmatch t paths text : sort_files fnmatch t paths text <> RFuel.
Proof.
  unfold sort_files. pose proof (run_lines_total fnmatch t (get_lines text) (init_nodes 0 paths)).
  destruct (run_lines fnmatch t (get_lines text) (init_nodes 0 paths)); try discriminate. congruence.
Qed.

(* ------------------------------------------------------------------------- *)
(* decode_flags on a rendered flag list                                       *)
(* ------------------------------------------------------------------------- *)

Inductive kw := KGlobNoPath | KGlob | KDontFragment | KDontCompress | KDontDeduplicate | KNoSparse.

Definition kw_str (k : kw) : list N :=
  match k with
  | KGlobNoPath => kw_glob_no_path
  | KGlob => kw_glob
  | KDontFragment => kw_dont_fragment
  | KDontCompress => kw_dont_compress
  | KDontDeduplicate => kw_dont_deduplicate
  | KNoSparse => kw_nosparse
  end.

Definition kw_bit (k : kw) : N :=
  match k with
  | KDontFragment => c_SQFS_BLK_DONT_FRAGMENT
  | KDontCompress => c_SQFS_BLK_DONT_COMPRESS
  | KDontDeduplicate => c_SQFS_BLK_DONT_DEDUPLICATE
  | KNoSparse => c_SQFS_BLK_IGNORE_SPARSE
  | _ => 0
  end.

(* the meaning of a keyword list: last glob keyword decides, bits are or-ed *)
Fixpoint kw_effect (ks : list kw) (g p : bool) (fl : N) : bool * bool * N :=
  match ks with
  | [] => (g, p, fl)
  | KGlobNoPath :: r => kw_effect r true false fl
  | KGlob :: r => kw_effect r true true fl
  | k :: r => kw_effect r g p (N.lor fl (kw_bit k))
  end.

Fixpoint join_comma (l : list (list N)) : list N :=
  match l with
  | [] => []
  | [a] => a
  | a :: r => a ++ ch_comma :: join_comma r
  end.

(* pad: optional blanks around each keyword are trimmed away *)
Definition render_flags (ks : list kw) : list N :=
  ch_lbracket :: join_comma (map kw_str ks) ++ [ch_rbracket].

Definition plain_tok (t : list N) : Prop :=
  (exists c r, t = c :: r /\ c <> ch_dquote) /\ Forall (fun c => is_comma c = false) t.

Lemma tok_plain_all t : Forall (fun c => is_comma c = false) t -> tok_plain t = (t, []).
Proof.
  induction 1 as [|c r Hc _ IH]; [reflexivity|]. cbn [tok_plain]. rewrite Hc, IH. reflexivity.
Qed.

Lemma tok_plain_comma t s : Forall (fun c => is_comma c = false) t ->
  tok_plain (t ++ ch_comma :: s) = (t, ch_comma :: s).
Proof.
  induction 1 as [|c r Hc _ IH]; [reflexivity|]. cbn [tok_plain app]. rewrite Hc, IH. reflexivity.
Qed.

Lemma join_comma_cons a b r : join_comma (a :: b :: r) = a ++ ch_comma :: join_comma (b :: r).
Proof. reflexivity. Qed.

Lemma plain_head_not_comma t s : plain_tok t -> drop_while is_comma (t ++ s) = t ++ s.
Proof.
  intros [(c & r & -> & _) H]. inversion H; subst. cbn [app drop_while]. rewrite H2. reflexivity.
Qed.

Lemma split_go_join : forall toks fuel,
  Forall plain_tok toks -> (length toks < fuel)%nat ->
  split_go fuel (join_comma toks) = SOk toks.
Proof.
  induction toks as [|a r IH]; intros fuel Hp Hf.
  - destruct fuel; [lia|]. reflexivity.
  - destruct fuel; [lia|]. inversion Hp as [|? ? Ha Hr]; subst.
    destruct Ha as [(c & t & -> & Hq) Hnc].
    destruct r as [|b r'].
    + cbn [join_comma split_go].
      apply N.eqb_neq in Hq. rewrite Hq.
      rewrite (tok_plain_all (c :: t) Hnc). cbn [drop_while].
      destruct fuel; [cbn in Hf; lia|]. reflexivity.
    + rewrite join_comma_cons. cbn [app split_go].
      apply N.eqb_neq in Hq. rewrite Hq.
      change (c :: t ++ ch_comma :: join_comma (b :: r')) with ((c :: t) ++ ch_comma :: join_comma (b :: r')).
      rewrite (tok_plain_comma (c :: t) _ Hnc).
      cbn [drop_while]. change (is_comma ch_comma) with true. cbv iota.
      inversion Hr as [|? ? Hb Hr']; subst.
      assert (Hd : drop_while is_comma (join_comma (b :: r')) = join_comma (b :: r')).
      { destruct r' as [|b' r''].
        - cbn [join_comma]. rewrite <- (app_nil_r b). apply plain_head_not_comma; assumption.
        - rewrite join_comma_cons. apply plain_head_not_comma; assumption. }
      rewrite Hd. rewrite IH; [reflexivity | assumption | cbn [length] in *; lia].
Qed.

Lemma kw_plain k : plain_tok (kw_str k).
Proof.
  destruct k; (split; [eexists _, _; split; [reflexivity | discriminate] | repeat constructor]).
Qed.

Lemma kw_no_rbracket k : Forall (fun c => (c =? ch_rbracket) = false) (kw_str k).
Proof. destruct k; repeat constructor. Qed.

Lemma join_no_rbracket ks : Forall (fun c => (c =? ch_rbracket) = false) (join_comma (map kw_str ks)).
Proof.
  induction ks as [|k r IH]; [constructor|].
  destruct r as [|k2 r'].
  - cbn [map join_comma]. apply kw_no_rbracket.
  - change (map kw_str (k :: k2 :: r')) with (kw_str k :: kw_str k2 :: map kw_str r').
    rewrite join_comma_cons. apply Forall_app. split; [apply kw_no_rbracket|].
    constructor; [reflexivity | exact IH].
Qed.

Lemma find_rbracket_app a b : Forall (fun c => (c =? ch_rbracket) = false) a ->
  find_rbracket (a ++ ch_rbracket :: b) = Some (a, b).
Proof.
  induction 1 as [|c r Hc _ IH]; [reflexivity|]. cbn [app find_rbracket]. rewrite Hc, IH. reflexivity.
Qed.

Lemma apply_kw_cons k r g p fl :
  apply_kw (kw_str k :: r) g p fl =
  match k with
  | KGlobNoPath => apply_kw r true false fl
  | KGlob => apply_kw r true true fl
  | _ => apply_kw r g p (N.lor fl (kw_bit k))
  end.
Proof. destruct k; reflexivity. Qed.

Lemma apply_kw_effect : forall ks g p fl,
  apply_kw (map kw_str ks) g p fl = Some (kw_effect ks g p fl).
Proof.
  induction ks as [|k r IH]; intros g p fl; [reflexivity|].
  cbn [map]. rewrite apply_kw_cons. destruct k; cbn [kw_effect]; apply IH.
Qed.

Lemma join_length_ge ks : (length ks <= length (join_comma (map kw_str ks)))%nat.
Proof.
  induction ks as [|k r IH]; [cbn; lia|].
  destruct r as [|k2 r'].
  - destruct k; cbn; lia.
  - change (map kw_str (k :: k2 :: r')) with (kw_str k :: kw_str k2 :: map kw_str r').
    rewrite join_comma_cons, app_length. cbn [length] in *.
    change (map kw_str (k2 :: r')) with (kw_str k2 :: map kw_str r') in IH. lia.
Qed.

Lemma decode_flags_rendered ks sp rest :
  isspace sp = true ->
  decode_flags (render_flags ks ++ sp :: rest) =
  let '(g, p, fl) := kw_effect ks false false 0 in FOk g p fl (ltrim (sp :: rest)).
Proof.
  intros Hsp. unfold render_flags, decode_flags.
  cbn [app]. change (ch_lbracket =? ch_lbracket) with true. cbv iota.
  rewrite <- app_assoc. cbn [app].
  rewrite find_rbracket_app by apply join_no_rbracket.
  unfold split_line_comma.
  assert (Hd : drop_while is_comma (join_comma (map kw_str ks)) = join_comma (map kw_str ks)).
  { destruct ks as [|k [|k2 r]]; [reflexivity| |].
    - cbn [map join_comma]. rewrite <- (app_nil_r (kw_str k)). apply plain_head_not_comma, kw_plain.
    - change (map kw_str (k :: k2 :: r)) with (kw_str k :: kw_str k2 :: map kw_str r).
      rewrite join_comma_cons. apply plain_head_not_comma, kw_plain. }
  rewrite Hd. rewrite split_go_join.
  - rewrite Hsp. rewrite apply_kw_effect. destruct (kw_effect ks false false 0) as [[g p] fl]. reflexivity.
  - apply Forall_map. apply Forall_forall. intros; apply kw_plain.
  - rewrite map_length. pose proof (join_length_ge ks). lia.
Qed.

(* which bits end up set *)
Definition has_bit (fl b : N) : bool := negb (N.land fl b =? 0).

Definition is_flag_kw (k : kw) : bool :=
  match k with KGlobNoPath | KGlob => false | _ => true end.

Definition kw_eqb (a b : kw) : bool :=
  match a, b with
  | KGlobNoPath, KGlobNoPath | KGlob, KGlob | KDontFragment, KDontFragment
  | KDontCompress, KDontCompress | KDontDeduplicate, KDontDeduplicate | KNoSparse, KNoSparse => true
  | _, _ => false
  end.

Lemma kw_eqb_eq a b : kw_eqb a b = true <-> a = b.
Proof. destruct a, b; cbn; split; intros; try reflexivity; try discriminate. Qed.

(* the four bits are pairwise disjoint and non-zero: checked against the header values *)
Lemma kw_bits_disjoint a b : is_flag_kw b = true ->
  has_bit (kw_bit a) (kw_bit b) = kw_eqb a b.
Proof. destruct a, b; intros H; try discriminate H; reflexivity. Qed.

Lemma has_bit_lor x y b : has_bit (N.lor x y) b = has_bit x b || has_bit y b.
Proof.
  unfold has_bit. rewrite N.land_lor_distr_l.
  destruct (N.land x b =? 0) eqn:E1; destruct (N.land y b =? 0) eqn:E2; cbn.
  - apply N.eqb_eq in E1, E2. rewrite E1, E2. reflexivity.
  - apply N.eqb_eq in E1. rewrite E1. cbn. rewrite E2. reflexivity.
  - apply N.eqb_neq in E1. destruct (N.lor (N.land x b) (N.land y b) =? 0) eqn:E; [|reflexivity].
    apply N.eqb_eq in E. apply N.lor_eq_0_iff in E. tauto.
  - apply N.eqb_neq in E1. destruct (N.lor (N.land x b) (N.land y b) =? 0) eqn:E; [|reflexivity].
    apply N.eqb_eq in E. apply N.lor_eq_0_iff in E. tauto.
Qed.

Lemma kw_effect_bits : forall ks g p fl b, is_flag_kw b = true ->
  has_bit (snd (kw_effect ks g p fl)) (kw_bit b) = has_bit fl (kw_bit b) || existsb (fun k => kw_eqb k b) ks.
Proof.
  induction ks as [|k r IH]; intros g p fl b Hb.
  - cbn. rewrite orb_false_r. reflexivity.
  - cbn [existsb]. destruct k; cbn [kw_effect]; rewrite IH by assumption.
    1,2: destruct b; try discriminate Hb; reflexivity.
    all: rewrite has_bit_lor, kw_bits_disjoint by assumption; rewrite orb_assoc; reflexivity.
Qed.

Lemma kw_effect_flag_iff ks b : is_flag_kw b = true ->
  has_bit (snd (kw_effect ks false false 0)) (kw_bit b) = true <-> In b ks.
Proof.
  intros Hb. rewrite kw_effect_bits by assumption.
  assert (H0 : has_bit 0 (kw_bit b) = false) by reflexivity. rewrite H0, orb_false_l.
  rewrite existsb_exists. split.
  - intros (k & Hin & He). apply kw_eqb_eq in He. subst. exact Hin.
  - intros Hin. exists b. split; [exact Hin|]. apply kw_eqb_eq. reflexivity.
Qed.

(* no bit outside the four can appear *)
Lemma kw_effect_within : forall ks g p fl,
  N.land fl (N.lnot c_SQFS_BLK_USER_SETTABLE_FLAGS 32) = 0 ->
  N.land (snd (kw_effect ks g p fl)) (N.lnot c_SQFS_BLK_USER_SETTABLE_FLAGS 32) = 0.
Proof.
  induction ks as [|k r IH]; intros g p fl H; [exact H|].
  destruct k; cbn [kw_effect]; apply IH; try exact H;
    rewrite N.land_lor_distr_l, H; reflexivity.
Qed.

(* ------------------------------------------------------------------------- *)
(* decode_filename: quoted names (F08)                                        *)
(* ------------------------------------------------------------------------- *)

Fixpoint escape (s : list N) : list N :=
  match s with
  | [] => []
  | c :: r =>
    if (c =? ch_dquote) || (c =? ch_bslash) then ch_bslash :: c :: escape r
    else c :: escape r
  end.

Definition quote (s : list N) : list N := ch_dquote :: escape s ++ [ch_dquote].

Lemma unquote_escape : forall s tail, unquote (escape s ++ ch_dquote :: tail) = Some (s, tail).
Proof.
  induction s as [|c r IH]; intros tail.
  - reflexivity.
  - cbn [escape]. destruct ((c =? ch_dquote) || (c =? ch_bslash)) eqn:E.
    + cbn [app unquote]. change (ch_bslash =? ch_dquote) with false. change (ch_bslash =? ch_bslash) with true.
      cbv iota. rewrite orb_comm in E. rewrite E. rewrite IH. reflexivity.
    + cbn [app unquote]. apply orb_false_iff in E. destruct E as [E1 E2]. rewrite E1, E2.
      rewrite IH. reflexivity.
Qed.

Lemma quoted_name_l s : decode_filename true (quote s) = canon_result s.
Proof.
  unfold decode_filename, unquoted_buffer, quote.
  change (ch_dquote =? ch_dquote) with true. cbv iota.
  rewrite unquote_escape. reflexivity.
Qed.

Lemma unquoted_name_l s : (forall r, s <> ch_dquote :: r) -> decode_filename true s = canon_result s.
Proof.
  intros H. unfold decode_filename, unquoted_buffer. destruct s as [|c r]; [reflexivity|].
  destruct (c =? ch_dquote) eqn:E; [|reflexivity].
  apply N.eqb_eq in E. subst. exfalso. eapply H. reflexivity.
Qed.

(* ------------------------------------------------------------------------- *)
(* parse_int                                                                  *)
(* ------------------------------------------------------------------------- *)

Lemma parse_int_range s v rest : parse_int s = IOk v rest ->
  (- Z.of_N s64lim < v < Z.of_N s64lim)%Z.
Proof.
  unfold parse_int.
  destruct (match s with
            | [] => (false, s)
            | c :: r => if c =? ch_minus then (true, r) else (false, s)
            end) as [neg s'].
  destruct (parse_uint s') as [| |u rest']; try discriminate.
  destruct (s64lim <=? u) eqn:E; [discriminate|].
  apply N.leb_gt in E. intros H. inversion H; subst.
  destruct neg; lia.
Qed.

(* ------------------------------------------------------------------------- *)
(* pack_file: --no-tail-packing                                               *)
(* ------------------------------------------------------------------------- *)

Lemma pack_flags_small nt fsz bs fl : fsz <= bs -> pack_flags nt fsz bs fl = fl.
Proof.
  intros H. unfold pack_flags. apply N.ltb_ge in H. rewrite H, andb_false_r. reflexivity.
Qed.

Lemma pack_flags_off fsz bs fl : pack_flags false fsz bs fl = fl.
Proof. reflexivity. Qed.

Lemma pack_flags_large fsz bs fl : bs < fsz ->
  pack_flags true fsz bs fl = N.lor fl c_SQFS_BLK_DONT_FRAGMENT.
Proof. intros H. unfold pack_flags. apply N.ltb_lt in H. rewrite H. reflexivity. Qed.

Lemma pack_flags_bits nt fsz bs fl i :
  N.testbit (pack_flags nt fsz bs fl) i =
  N.testbit fl i || (nt && (bs <? fsz) && N.testbit c_SQFS_BLK_DONT_FRAGMENT i).
Proof.
  unfold pack_flags. destruct (nt && (bs <? fsz)).
  - rewrite N.lor_spec. reflexivity.
  - cbn. rewrite orb_false_r. reflexivity.
Qed.

(* ------------------------------------------------------------------------- *)
(* sorted + stable determines the output                                      *)
(* ------------------------------------------------------------------------- *)

Lemma filter_self_in (x : node) l : In x l -> In x (filter (has_prio (n_prio x)) l).
Proof. intros H. apply filter_In. split; [exact H|]. unfold has_prio. apply Z.eqb_refl. Qed.

Lemma has_prio_self x : has_prio (n_prio x) x = true.
Proof. unfold has_prio. apply Z.eqb_refl. Qed.

Lemma sorted_stable_unique : forall l1 l2,
  StronglySorted prio_le l1 -> StronglySorted prio_le l2 ->
  (forall p, filter (has_prio p) l1 = filter (has_prio p) l2) ->
  l1 = l2.
Proof.
  induction l1 as [|x r1 IH]; intros l2 S1 S2 HF.
  - destruct l2 as [|y r2]; [reflexivity|].
    specialize (HF (n_prio y)). cbn [filter] in HF. rewrite has_prio_self in HF. discriminate.
  - destruct l2 as [|y r2].
    + specialize (HF (n_prio x)). cbn [filter] in HF. rewrite has_prio_self in HF. discriminate.
    + inversion S1 as [|? ? S1' F1]; subst. inversion S2 as [|? ? S2' F2]; subst.
      assert (Hxy : n_prio x = n_prio y).
      { assert (Hx : In x (y :: r2)).
        { pose proof (filter_self_in x (x :: r1) (or_introl eq_refl)) as H.
          rewrite HF in H. apply filter_In in H. tauto. }
        assert (Hy : In y (x :: r1)).
        { pose proof (filter_self_in y (y :: r2) (or_introl eq_refl)) as H.
          rewrite <- HF in H. apply filter_In in H. tauto. }
        rewrite Forall_forall in F1, F2. unfold prio_le in *.
        destruct Hx as [->|Hx]; [reflexivity|]. destruct Hy as [->|Hy]; [reflexivity|].
        specialize (F1 _ Hy). specialize (F2 _ Hx). lia. }
      assert (x = y).
      { specialize (HF (n_prio x)). cbn [filter] in HF. rewrite has_prio_self in HF.
        rewrite Hxy in HF at 2. rewrite has_prio_self in HF. congruence. }
      subst y. f_equal. apply IH; auto.
      intros p. specialize (HF p). cbn [filter] in HF.
      destruct (has_prio p x); congruence.
Qed.

Lemma sel_sort_unique l out :
  StronglySorted prio_le out ->
  (forall p, filter (has_prio p) out = filter (has_prio p) l) ->
  out = sel_sort l.
Proof.
  intros S F. apply sorted_stable_unique; [exact S | apply sel_sort_sorted|].
  intros p. rewrite sel_sort_stable. apply F.
Qed.

Lemma sort_stable_l (l : list node) :
  Permutation (sel_sort l) l /\
  StronglySorted prio_le (sel_sort l) /\
  (forall p : Z, filter (has_prio p) (sel_sort l) = filter (has_prio p) l).
Proof. exact (conj (sel_sort_perm l) (conj (sel_sort_sorted l) (sel_sort_stable l))). Qed.

Lemma no_other_flag_bits_l ks :
  N.land (snd (kw_effect ks false false 0)) (N.lnot c_SQFS_BLK_USER_SETTABLE_FLAGS 32) = 0.
Proof. exact (kw_effect_within ks false false 0 eq_refl). Qed.

Lemma no_tail_packing_l nt fsz bs fl :
  (fsz <= bs -> pack_flags nt fsz bs fl = fl) /\
  (nt = false -> pack_flags nt fsz bs fl = fl) /\
  (nt = true -> bs < fsz -> pack_flags nt fsz bs fl = N.lor fl c_SQFS_BLK_DONT_FRAGMENT) /\
  (forall i, N.testbit (pack_flags nt fsz bs fl) i =
             N.testbit fl i || (nt && (bs <? fsz) && N.testbit c_SQFS_BLK_DONT_FRAGMENT i)).
Proof.
  split; [exact (pack_flags_small nt fsz bs fl)|].
  split; [intros ->; exact (pack_flags_off fsz bs fl)|].
  split; [intros ->; exact (pack_flags_large fsz bs fl)|].
  exact (pack_flags_bits nt fsz bs fl).
Qed.

Lemma quoted_name_asfound_refuted_l : exists s, decode_filename false (quote s) <> canon_result s.
Proof. exists [98; 32; 99]. vm_compute. discriminate. Qed.
