(* C17 — layout_follows_sort_file: from the text of the sort file to the data offsets.

   sort side  (SortProofs.v)   : run_lines = map (steps ds), sel_sort stable
   glue       (this file)      : the list fstree_sort_files leaves, read as nodes of the tree: the default-order list
                                 annotated with the first matching line ([annot_list]), sorted by (priority, default
                                 position) - and nothing else is ([sorted_perm_unique])
   data side  (FlagTheorems.v) : layout_pair_l / flags_keep_content_l on the list pack_files hands over *)
From Coq Require Import List NArith ZArith Arith Bool Lia Sorted Permutation.
From SqfsV Require Import Gen.Constants.
From SqfsV Require Import C11.StrOrder C11.FstreeModel C11.PostModel C11.ScanModel.
From SqfsV Require Import ImgPost.Bridge ImgPost.ListPos.
From SqfsV Require Import ImgScan.ScanLinks.
From SqfsV Require ImgScan.PackModel.
From SqfsV Require Import C08.DedupModel.
From SqfsV Require Import C17.GenC17 C17.SortModel C17.SortProofs C17.FlagModel C17.FlagFinal C17.FlagTheorems.
From SqfsV Require Import C17.OrderModel C17.OrderPaths C17.OrderTree.
Import ListNotations.

(* ---------------------------------------------------------------------- *)
(* lists                                                                    *)

Lemma SS_map {A B} (R : B -> B -> Prop) (f : A -> B) l :
  StronglySorted (fun a b => R (f a) (f b)) l -> StronglySorted R (map f l).
Proof.
  induction 1 as [|a l Hs IH Hf]; cbn [map]; constructor; [exact IH|].
  exact (proj2 (Forall_map f (R (f a)) l) Hf).
Qed.

Lemma SS_unmap {A B} (R : B -> B -> Prop) (f : A -> B) l :
  StronglySorted R (map f l) -> StronglySorted (fun a b => R (f a) (f b)) l.
Proof.
  induction l as [|a l IH]; cbn [map]; intro H; [constructor|].
  apply StronglySorted_inv in H. destruct H as [Hs Hf]. constructor; [apply IH; exact Hs|].
  exact (proj1 (Forall_map f (R (f a)) l) Hf).
Qed.

Lemma SS_filter {A} (R : A -> A -> Prop) f l : StronglySorted R l -> StronglySorted R (filter f l).
Proof.
  induction 1 as [|a l Hs IH Hf]; cbn [filter]; [constructor|].
  destruct (f a); [|exact IH]. constructor; [exact IH|].
  rewrite Forall_forall in *. intros x Hx. apply filter_In in Hx. apply Hf. tauto.
Qed.

Lemma SS_nth {A} (R : A -> A -> Prop) : forall l i j a b,
  StronglySorted R l -> i < j -> nth_error l i = Some a -> nth_error l j = Some b -> R a b.
Proof.
  induction l as [|x l IH]; intros i j a b Hs Hlt Hi Hj; [destruct i; discriminate|].
  apply StronglySorted_inv in Hs. destruct Hs as [Hs Hf].
  destruct j as [|j]; [lia|]. cbn [nth_error] in Hj. destruct i as [|i].
  - cbn in Hi. injection Hi as <-. rewrite Forall_forall in Hf. apply Hf. eapply nth_error_In; eauto.
  - cbn [nth_error] in Hi. apply (IH i j); [exact Hs|lia|exact Hi|exact Hj].
Qed.

(* a list sorted by an asymmetric relation is determined by its elements *)
Lemma sorted_perm_unique {A} (R : A -> A -> Prop) : (forall a b, R a b -> R b a -> False) ->
  forall l1 l2, StronglySorted R l1 -> StronglySorted R l2 -> Permutation l1 l2 -> l1 = l2.
Proof.
  intros Asym. induction l1 as [|a r1 IH]; intros l2 S1 S2 P.
  - apply Permutation_nil in P. subst. reflexivity.
  - destruct l2 as [|b r2]; [apply Permutation_sym, Permutation_nil in P; discriminate|].
    apply StronglySorted_inv in S1. destruct S1 as [S1 F1]. apply StronglySorted_inv in S2. destruct S2 as [S2 F2].
    rewrite Forall_forall in F1, F2.
    assert (E : a = b).
    { assert (Ha : In a (b :: r2)) by (eapply Permutation_in; [exact P|left; reflexivity]).
      assert (Hb : In b (a :: r1)) by (eapply Permutation_in; [apply Permutation_sym; exact P|left; reflexivity]).
      destruct Ha as [Ha|Ha]; [congruence|]. destruct Hb as [Hb|Hb]; [congruence|].
      exfalso. exact (Asym a b (F1 b Hb) (F2 a Ha)). }
    subst b. f_equal. apply IH; [exact S1|exact S2|]. eapply Permutation_cons_inv; exact P.
Qed.

(* ---------------------------------------------------------------------- *)
(* sort_file_list on nodes that carry their default position                *)

Definition id_lt (a b : node) : Prop := (n_id a < n_id b)%N.
Definition node_before (a b : node) : Prop :=
  (n_prio a < n_prio b)%Z \/ (n_prio a = n_prio b /\ (n_id a < n_id b)%N).

Lemma sorted_ties_before : forall out,
  StronglySorted prio_le out -> (forall p, StronglySorted id_lt (filter (has_prio p) out)) ->
  StronglySorted node_before out.
Proof.
  induction out as [|a r IH]; intros Hs Hf; [constructor|].
  apply StronglySorted_inv in Hs. destruct Hs as [Hs Ha]. constructor.
  - apply IH; [exact Hs|]. intro p. specialize (Hf p). cbn [filter] in Hf.
    destruct (has_prio p a); [apply StronglySorted_inv in Hf; tauto|exact Hf].
  - rewrite Forall_forall in *. intros b Hb. specialize (Ha b Hb). unfold prio_le in Ha.
    destruct (Z.eq_dec (n_prio a) (n_prio b)) as [E|E]; [right|left; lia]. split; [exact E|].
    specialize (Hf (n_prio a)). cbn [filter] in Hf. rewrite has_prio_self in Hf.
    apply StronglySorted_inv in Hf. destruct Hf as [_ Hf]. rewrite Forall_forall in Hf. apply Hf.
    apply filter_In. split; [exact Hb|]. unfold has_prio. apply Z.eqb_eq. lia.
Qed.

Lemma sel_sort_before l : StronglySorted id_lt l -> StronglySorted node_before (sel_sort l).
Proof.
  intro H. apply sorted_ties_before; [apply sel_sort_sorted|].
  intro p. rewrite sel_sort_stable. apply SS_filter. exact H.
Qed.

Lemma init_ids_ge : forall paths i, Forall (fun n => (i <= n_id n)%N) (init_nodes i paths).
Proof.
  induction paths as [|p r IH]; intro i; cbn [init_nodes]; constructor; [cbn; lia|].
  eapply Forall_impl; [|apply (IH (i + 1)%N)]. cbv beta. intros n Hn. lia.
Qed.

Lemma init_ids_sorted : forall paths i, StronglySorted id_lt (init_nodes i paths).
Proof.
  induction paths as [|p r IH]; intro i; cbn [init_nodes]; constructor; [apply IH|].
  eapply Forall_impl; [|apply (init_ids_ge r (i + 1)%N)]. unfold id_lt. cbn. intros n Hn. lia.
Qed.

Lemma pf_before_asym a b : pf_before a b -> pf_before b a -> False.
Proof. unfold pf_before. intros [H1|[H1 H2]] [H3|[H3 H4]]; lia. Qed.

Lemma pf_before_irrefl a : ~ pf_before a a.
Proof. intro H. exact (pf_before_asym a a H H). Qed.

(* ---------------------------------------------------------------------- *)
(* the list fstree_sort_files leaves                                        *)

Section Order.
Variable fnmatch : list N -> list N -> bool -> bool.
Variable t : bool.

(* priority and flag word of the first line that matches the canonical path of the node; (0, 0) if none does *)
Definition assigned_to (ds : list directive) (p : path) : Z * N :=
  match find (fun d => line_matches fnmatch d (join_slash p)) ds with
  | Some d => (d_prio d, d_flags d)
  | None => (0%Z, 0%N)
  end.

Definition annot (ds : list directive) (k : nat) (p : path) : pfile :=
  mkPfile p (N.of_nat k) (fst (assigned_to ds p)) (snd (assigned_to ds p)).

(* the default-order list, every node with what the sort file assigns to it *)
Definition annot_list (ds : list directive) (files : list path) : list pfile :=
  map (fun kp => annot ds (fst kp) (snd kp)) (combine (seq 0 (length files)) files).

Lemma steps_id ds : forall n, n_id (steps fnmatch ds n) = n_id n.
Proof.
  induction ds as [|d ds IH]; intro n; [reflexivity|].
  unfold steps. cbn [fold_left]. fold (steps fnmatch ds (step fnmatch d n)). rewrite IH. apply step_id.
Qed.

Lemma steps_init ds k p : cleanp p ->
  steps fnmatch ds (mknode k (get_path p) false 0%Z 0%N) =
  match find (fun d => line_matches fnmatch d (join_slash p)) ds with
  | Some d => mknode k (get_path p) true (d_prio d) (d_flags d)
  | None => mknode k (get_path p) false 0%Z 0%N
  end.
Proof.
  intro Hc. rewrite steps_first by reflexivity. unfold cpath. cbn [n_path]. rewrite (cpath_get_path p Hc).
  destruct (find _ ds); reflexivity.
Qed.

Lemma annotate_nodes ds : forall suf pre, Forall cleanp suf ->
  map (pfile_of (pre ++ suf)) (map (steps fnmatch ds) (init_nodes (N.of_nat (length pre)) (map get_path suf)))
  = map (fun kp => annot ds (fst kp) (snd kp)) (combine (seq (length pre) (length suf)) suf).
Proof.
  induction suf as [|p r IH]; intros pre Hc; [reflexivity|]. inversion Hc as [|? ? Hp Hr]; subst.
  cbn [map init_nodes length seq combine fst snd]. f_equal.
  - rewrite (steps_init ds _ p Hp). unfold pfile_of, annot, assigned_to.
    destruct (find _ ds); cbn [n_id n_prio n_flags fst snd]; rewrite Nat2N.id, nth_middle; reflexivity.
  - specialize (IH (pre ++ [p]) Hr). rewrite <- app_assoc in IH. cbn [app] in IH.
    rewrite app_length in IH. cbn [length] in IH. rewrite Nat.add_1_r in IH.
    rewrite Nat2N.inj_succ, <- N.add_1_r in IH. exact IH.
Qed.

Lemma default_annotated ds files : Forall cleanp files ->
  map (pfile_of files) (map (steps fnmatch ds) (init_nodes 0 (map get_path files))) = annot_list ds files.
Proof. intro Hc. exact (annotate_nodes ds files [] Hc). Qed.

(* without -S: the same list for the empty list of directives *)
Lemma default_list_annotated files : Forall cleanp files -> default_list files = annot_list [] files.
Proof.
  intro Hc. rewrite <- (default_annotated [] files Hc). unfold default_list. f_equal.
  symmetry. apply map_id.
Qed.

Lemma annot_list_paths ds files : map pf_path (annot_list ds files) = files.
Proof.
  unfold annot_list. rewrite map_map. cbn [annot pf_path].
  generalize 0. induction files as [|p r IH]; intro k; [reflexivity|].
  cbn [length seq combine map snd]. f_equal. apply IH.
Qed.

Lemma annot_list_nth ds files k f : nth_error (annot_list ds files) k = Some f ->
  exists p, nth_error files k = Some p /\ f = annot ds k p.
Proof.
  unfold annot_list. intro H.
  assert (G : forall files s k f,
    nth_error (map (fun kp => annot ds (fst kp) (snd kp)) (combine (seq s (length files)) files)) k = Some f ->
    exists p, nth_error files k = Some p /\ f = annot ds (s + k) p).
  { clear. induction files as [|p r IH]; intros s k f H; [destruct k; discriminate|].
    cbn [length seq combine map fst snd] in H. destruct k as [|k].
    - cbn in H. injection H as <-. exists p. rewrite Nat.add_0_r. split; reflexivity.
    - cbn [nth_error] in H. destruct (IH (S s) k f H) as (q & Hq & E). exists q. split; [exact Hq|].
      rewrite E. f_equal. lia. }
  exact (G files 0 k f H).
Qed.

(* [annot_list] / [assigned_to] spelled out *)
Lemma annot_list_first_match ds files k f :
  nth_error (annot_list ds files) k = Some f ->
  exists p, nth_error files k = Some p /\ pf_path f = p /\ pf_idx f = N.of_nat k /\
            (pf_prio f, pf_flags f) =
            match find (fun d => line_matches fnmatch d (join_slash p)) ds with
            | Some d => (d_prio d, d_flags d)
            | None => (0%Z, 0%N)
            end.
Proof.
  intro H. destruct (annot_list_nth ds files k f H) as (p & Hp & ->).
  exists p. split; [exact Hp|]. split; [reflexivity|]. split; [reflexivity|].
  unfold annot, assigned_to. cbn [pf_prio pf_flags]. destruct (find _ ds); reflexivity.
Qed.

(* the sorted list is sorted by (priority, default position) *)
Lemma sorted_nodes_before ds paths :
  StronglySorted node_before (sel_sort (map (steps fnmatch ds) (init_nodes 0 paths))).
Proof.
  apply sel_sort_before. unfold id_lt.
  apply (SS_unmap (fun a b => (a < b)%N) n_id). rewrite map_map.
  rewrite (map_ext (fun n => n_id (steps fnmatch ds n)) n_id (steps_id ds)).
  apply (SS_map (fun a b => (a < b)%N) n_id). apply init_ids_sorted.
Qed.

(* fstree_sort_files on the file list of a tree *)
Lemma sort_stage_spec files text :
  NoDup files -> Forall cleanp files ->
  match parse_all t (get_lines text) with
  | Some ds =>
    exists order, sort_stage fnmatch t (Some text) files = Some order /\
                  Permutation order (annot_list ds files) /\
                  StronglySorted pf_before order
  | None => sort_stage fnmatch t (Some text) files = None
  end.
Proof.
  intros Hn Hc. destruct (file_strings_ok files Hn Hc) as (Hok & Hnd & _).
  set (paths := map get_path files) in *.
  assert (Hok' : Forall canon_ok (init_nodes 0 paths)).
  { apply Forall_forall. intros n Hin. unfold canon_ok.
    rewrite Forall_forall in Hok. apply Hok. rewrite <- (init_nodes_paths paths 0%N).
    apply in_map. exact Hin. }
  assert (Hnd' : NoDup (map cpath (init_nodes 0 paths))).
  { unfold cpath. rewrite <- map_map. rewrite init_nodes_paths. exact Hnd. }
  pose proof (run_lines_steps fnmatch t (get_lines text) _ Hok' Hnd') as H.
  unfold sort_stage, sort_files. fold paths.
  destruct (parse_all t (get_lines text)) as [ds|].
  - rewrite H. eexists. split; [reflexivity|]. split.
    + rewrite <- (default_annotated ds files Hc). apply Permutation_map. apply sel_sort_perm.
    + apply SS_map. exact (sorted_nodes_before ds paths).
  - destruct H as [H|H]; rewrite H; reflexivity.
Qed.

(* ... and that pins it down: any list of the annotated nodes sorted by (priority, default position) is it *)
Lemma sort_stage_unique files text ds order other :
  sort_stage fnmatch t (Some text) files = Some order ->
  NoDup files -> Forall cleanp files -> parse_all t (get_lines text) = Some ds ->
  Permutation other (annot_list ds files) -> StronglySorted pf_before other -> other = order.
Proof.
  intros Hs Hn Hc Hp Po So. pose proof (sort_stage_spec files text Hn Hc) as H. rewrite Hp in H.
  destruct H as (order' & E & P & S). rewrite Hs in E. injection E as <-.
  apply (sorted_perm_unique pf_before pf_before_asym); [exact So|exact S|].
  eapply Permutation_trans; [exact Po|apply Permutation_sym; exact P].
Qed.

(* an empty sort file (or one of comments only) changes nothing *)
Lemma sort_stage_no_directive files text :
  NoDup files -> Forall cleanp files -> parse_all t (get_lines text) = Some [] ->
  sort_stage fnmatch t (Some text) files = sort_stage fnmatch t None files.
Proof.
  intros Hn Hc Hp. pose proof (sort_stage_spec files text Hn Hc) as H. rewrite Hp in H.
  destruct H as (order & E & P & S). rewrite E. cbn [sort_stage]. f_equal.
  apply (sorted_perm_unique pf_before pf_before_asym); [exact S| |].
  - rewrite (default_list_annotated files Hc). unfold annot_list.
    assert (G : forall fl s, StronglySorted pf_before
                (map (fun kp => annot [] (fst kp) (snd kp)) (combine (seq s (length fl)) fl)) /\
              Forall (fun f => (N.of_nat s <= pf_idx f)%N /\ pf_prio f = 0%Z)
                (map (fun kp => annot [] (fst kp) (snd kp)) (combine (seq s (length fl)) fl))).
    { clear. induction fl as [|p r IH]; intro s; [split; constructor|].
      cbn [length seq combine map fst snd]. destruct (IH (S s)) as [I1 I2]. split.
      - constructor; [exact I1|]. eapply Forall_impl; [|exact I2]. cbv beta. intros f [Hf1 Hf2].
        unfold pf_before. right. cbn. split; [congruence|]. cbn in Hf1. lia.
      - constructor; [cbn; split; [lia|reflexivity]|]. eapply Forall_impl; [|exact I2]. cbv beta. intros f [Hf1 Hf2].
        split; [lia|exact Hf2]. }
    exact (proj1 (G files 0)).
  - rewrite (default_list_annotated files Hc). exact P.
Qed.

End Order.

(* ---------------------------------------------------------------------- *)
(* composing with the block processor                                        *)

Lemma dont_dedup_tool_flags nt bs w d : uf_dont_dedup (tool_flags nt bs w d) = has_bit w c_SQFS_BLK_DONT_DEDUPLICATE.
Proof.
  destruct nt; [|reflexivity]. destruct (le_lt_dec (length d) bs) as [H|H].
  - rewrite tool_flags_small by exact H. reflexivity.
  - rewrite tool_flags_large by exact H. reflexivity.
Qed.

Section Layout.
Variable hashf : list N -> N.
Variable compress : list N -> option (list N).
Variable uncompress : list N -> nat -> option (list N).
Variable bs half : nat.
Hypothesis Hcomp : forall b c, compress b = Some c ->
  length c < length b /\ forall n, length b <= n -> uncompress c n = Some b.
Hypothesis Hbs : 0 < bs.
Hypothesis Hmax : (N.of_nat bs <= c_SQFS_MAX_BLOCK_SIZE)%N.
Hypothesis Hhalf : 0 < half.
Variable no_tail : bool.
Variable file0 : list N.
Variable sched : list nat.

(* the bytes the blocks of the file leave in the output, for the flag word the sort file gave it (and -T) *)
Definition stored_bytes (contents : path -> list N) (f : pfile) : list N :=
  disk_data hashf compress bs (tool_flags no_tail bs (pf_flags f) (contents (pf_path f))) (contents (pf_path f)).

(* pack_files on ANY list: never fails, everything reads back, data offsets follow the list *)
Lemma packed_layout (contents : path -> list N) (order : list pfile) :
  exists st,
    tool_pack hashf compress uncompress bs half no_tail file0 (pack_list contents order) sched = DedupModel.Ok st /\
    (forall fid f, nth_error order fid = Some f ->
       read_back uncompress bs st fid (length (contents (pf_path f))) = Some (contents (pf_path f))) /\
    firstn (length file0) (w_file (p_wr st)) = file0 /\
    (forall i j fi fj, i < j -> nth_error order i = Some fi -> nth_error order j = Some fj ->
       stored_bytes contents fi <> [] -> stored_bytes contents fj <> [] ->
       p_start st i + length (stored_bytes contents fi) <= p_start st j \/
       (has_bit (pf_flags fj) c_SQFS_BLK_DONT_DEDUPLICATE = false /\ p_start st j < length (w_file (p_wr st)))).
Proof.
  destruct (flags_keep_content_l hashf compress uncompress bs half Hcomp Hbs Hmax Hhalf no_tail file0
              (pack_list contents order) sched) as (st & E & R & F).
  exists st. split; [exact E|]. split; [|split; [exact F|]].
  - intros fid f Hf. apply (R fid (pf_flags f)). unfold pack_list. rewrite nth_error_map, Hf. reflexivity.
  - intros i j fi fj Hlt Hi Hj Si Sj. unfold tool_pack in E.
    assert (Ni : nth_error (tool_files no_tail bs (pack_list contents order)) i =
                 Some (tool_flags no_tail bs (pf_flags fi) (contents (pf_path fi)), contents (pf_path fi))).
    { apply nth_error_tool_files. unfold pack_list. rewrite nth_error_map, Hi. reflexivity. }
    assert (Nj : nth_error (tool_files no_tail bs (pack_list contents order)) j =
                 Some (tool_flags no_tail bs (pf_flags fj) (contents (pf_path fj)), contents (pf_path fj))).
    { apply nth_error_tool_files. unfold pack_list. rewrite nth_error_map, Hj. reflexivity. }
    pose proof (layout_pair_l hashf compress uncompress bs half Hcomp Hbs Hmax Hhalf file0 _ sched st E
                  i j _ _ _ _ Hlt Ni Nj Si Sj) as L.
    rewrite dont_dedup_tool_flags in L. exact L.
Qed.

Variable fnmatch : list N -> list N -> bool -> bool.
Variable t : bool.
Variable host : list N -> list N.

Notation run_pp := (pack_sorted fnmatch t hashf compress uncompress bs half no_tail file0 host sched).

(* what a successful run guarantees about (order, st), for the directives ds *)
Definition layout_ok (pp : ppout) (ds : list directive) (order : list pfile) (st : proc) : Prop :=
  let contents := node_contents host pp in
  (* (1) the packing order *)
  Permutation order (annot_list fnmatch ds (pp_files pp)) /\
  StronglySorted pf_before order /\
  (* (2) the data offsets *)
  (forall i j fi fj, i < j -> nth_error order i = Some fi -> nth_error order j = Some fj ->
     stored_bytes contents fi <> [] -> stored_bytes contents fj <> [] ->
     p_start st i + length (stored_bytes contents fi) <= p_start st j \/
     (has_bit (pf_flags fj) c_SQFS_BLK_DONT_DEDUPLICATE = false /\ p_start st j < length (w_file (p_wr st)))) /\
  (* (3) the contents *)
  (forall fid f, nth_error order fid = Some f ->
     read_back uncompress bs st fid (length (contents (pf_path f))) = Some (contents (pf_path f))) /\
  firstn (length file0) (w_file (p_wr st)) = file0.

Lemma layout_follows_sort_file_pp pp text :
  files_ok pp ->
  match parse_all t (get_lines text) with
  | Some ds => exists order st, run_pp pp (Some text) = ODone order st /\ layout_ok pp ds order st
  | None => run_pp pp (Some text) = OSortErr
  end.
Proof.
  intros [Hn Hc]. pose proof (sort_stage_spec fnmatch t (pp_files pp) text Hn Hc) as H.
  unfold pack_sorted. destruct (parse_all t (get_lines text)) as [ds|].
  - destruct H as (order & E & P & S). rewrite E.
    destruct (packed_layout (node_contents host pp) order) as (st & Ep & R & F & L).
    exists order, st. rewrite Ep. split; [reflexivity|]. unfold layout_ok. cbv zeta. tauto.
  - rewrite H. reflexivity.
Qed.

(* no -S *)
Lemma layout_default_pp pp :
  files_ok pp -> exists order st, run_pp pp None = ODone order st /\ layout_ok pp [] order st /\
                                  order = annot_list fnmatch [] (pp_files pp).
Proof.
  intros [Hn Hc]. unfold pack_sorted. cbn [sort_stage].
  destruct (packed_layout (node_contents host pp) (default_list (pp_files pp))) as (st & Ep & R & F & L).
  exists (default_list (pp_files pp)), st. rewrite Ep. split; [reflexivity|].
  pose proof (default_list_annotated fnmatch (pp_files pp) Hc) as Ed. split; [|exact Ed].
  unfold layout_ok. cbv zeta. split; [rewrite Ed; apply Permutation_refl|]. split; [|tauto].
  pose proof (sort_stage_spec fnmatch t (pp_files pp) [] Hn Hc) as H.
  change (parse_all t (get_lines [])) with (Some (@nil directive)) in H.
  destruct H as (order & E & P & S).
  rewrite (sort_stage_no_directive fnmatch t (pp_files pp) [] Hn Hc eq_refl) in E. unfold sort_stage in E.
  injection E as <-. exact S.
Qed.

(* the statement in terms of the nodes: whichever of two files the directives put first lies first *)
Lemma layout_by_priority pp ds order st fa fb :
  files_ok pp -> layout_ok pp ds order st ->
  In fa order -> In fb order -> pf_before fa fb ->
  exists i j, fid_of order (pf_path fa) = Some i /\ fid_of order (pf_path fb) = Some j /\ i < j /\
    (stored_bytes (node_contents host pp) fa <> [] -> stored_bytes (node_contents host pp) fb <> [] ->
     p_start st i + length (stored_bytes (node_contents host pp) fa) <= p_start st j \/
     (has_bit (pf_flags fb) c_SQFS_BLK_DONT_DEDUPLICATE = false /\ p_start st j < length (w_file (p_wr st)))).
Proof.
  intros [Hn Hc] (P & S & L & _) Ha Hb Hab.
  destruct (In_nth_error _ _ Ha) as (i & Hi). destruct (In_nth_error _ _ Hb) as (j & Hj).
  assert (Nd : NoDup (map pf_path order)).
  { eapply Permutation_NoDup; [apply Permutation_sym, Permutation_map; exact P|].
    rewrite annot_list_paths. exact Hn. }
  assert (Hlt : i < j).
  { destruct (lt_eq_lt_dec i j) as [[H|H]|H]; [exact H| |].
    - subst j. rewrite Hi in Hj. injection Hj as <-. exfalso. exact (pf_before_irrefl fa Hab).
    - exfalso. exact (pf_before_asym fa fb Hab (SS_nth pf_before order j i fb fa S H Hj Hi)). }
  exists i, j. unfold fid_of.
  split; [apply nth_index_nodup; [exact Nd|rewrite nth_error_map, Hi; reflexivity]|].
  split; [apply nth_index_nodup; [exact Nd|rewrite nth_error_map, Hj; reflexivity]|].
  split; [exact Hlt|]. intros Sa Sb. exact (L i j fa fb Hlt Hi Hj Sa Sb).
Qed.

(* every file of the tree is packed exactly once, with the first matching line's priority and flags *)
Lemma layout_covers pp ds order st p :
  files_ok pp -> layout_ok pp ds order st -> In p (pp_files pp) ->
  exists fid k, fid_of order p = Some fid /\ nth_error (pp_files pp) k = Some p /\
                nth_error order fid = Some (annot fnmatch ds k p) /\
                read_back uncompress bs st fid (length (node_contents host pp p)) = Some (node_contents host pp p).
Proof.
  intros [Hn Hc] (P & S & L & R & _) Hp.
  destruct (In_nth_error _ _ Hp) as (k & Hk).
  assert (Hin : In (annot fnmatch ds k p) (annot_list fnmatch ds (pp_files pp))).
  { assert (G : forall files s k p, nth_error files k = Some p ->
                  In (annot fnmatch ds (s + k) p)
                     (map (fun kp => annot fnmatch ds (fst kp) (snd kp)) (combine (seq s (length files)) files))).
    { clear. induction files as [|q r IH]; intros s k p H; [destruct k; discriminate|].
      cbn [length seq combine map fst snd]. destruct k as [|k].
      - cbn in H. injection H as <-. left. rewrite Nat.add_0_r. reflexivity.
      - right. cbn [nth_error] in H. replace (s + S k) with (S s + k) by lia. apply IH. exact H. }
    exact (G (pp_files pp) 0 k p Hk). }
  assert (Hin' : In (annot fnmatch ds k p) order) by (eapply Permutation_in; [apply Permutation_sym; exact P|exact Hin]).
  destruct (In_nth_error _ _ Hin') as (fid & Hfid).
  assert (Nd : NoDup (map pf_path order)).
  { eapply Permutation_NoDup; [apply Permutation_sym, Permutation_map; exact P|].
    rewrite annot_list_paths. exact Hn. }
  exists fid, k. split; [|split; [exact Hk|split; [exact Hfid|]]].
  - unfold fid_of. apply nth_index_nodup; [exact Nd|]. rewrite nth_error_map, Hfid. reflexivity.
  - exact (R fid _ Hfid).
Qed.

(* gensquashfs -F description -S sortfile *)
Lemma layout_follows_sort_file_ops d ops fs pp text :
  ops_clean ops -> run_adds d (fs_init d) ops = Some fs -> post_process fs = PostModel.POk pp ->
  match parse_all t (get_lines text) with
  | Some ds => exists order st,
      pack_ops fnmatch t hashf compress uncompress bs half no_tail file0 host sched d ops (Some text) = ODone order st /\
      layout_ok pp ds order st
  | None => pack_ops fnmatch t hashf compress uncompress bs half no_tail file0 host sched d ops (Some text) = OSortErr
  end.
Proof.
  intros Hc Hr Hp. unfold pack_ops. rewrite Hr, Hp.
  apply layout_follows_sort_file_pp. exact (ops_files_ok d ops fs pp Hc Hr Hp).
Qed.

(* gensquashfs -D directory -S sortfile *)
Lemma layout_follows_sort_file_dir scan_fnmatch d cfg (sorted : bool) (h : hnode) pp text :
  cleanp (c_prefix cfg) -> hok_rootb (if sorted then canon h else h) = true ->
  PackModel.scan_post scan_fnmatch d cfg sorted h (fs_init d) = Some (PostModel.POk pp) ->
  match parse_all t (get_lines text) with
  | Some ds => exists order st,
      pack_dir fnmatch t hashf compress uncompress bs half no_tail file0 host sched scan_fnmatch d cfg sorted h (Some text)
      = ODone order st /\ layout_ok pp ds order st
  | None =>
      pack_dir fnmatch t hashf compress uncompress bs half no_tail file0 host sched scan_fnmatch d cfg sorted h (Some text)
      = OSortErr
  end.
Proof.
  intros Hpre Hok Hs. unfold pack_dir. rewrite Hs.
  apply layout_follows_sort_file_pp. exact (scan_files_ok scan_fnmatch d cfg Hpre sorted h pp Hok Hs).
Qed.

(* the order component of a run is [order_ops] / [order_dir]; the data path never fails *)
Lemma pack_sorted_order pp sf :
  order_of_run (run_pp pp sf) = Some (order_pp fnmatch t pp sf).
Proof.
  unfold pack_sorted, order_pp. destruct (sort_stage fnmatch t sf (pp_files pp)) as [order|]; [|reflexivity].
  destruct (packed_layout (node_contents host pp) order) as (st & Ep & _). rewrite Ep. reflexivity.
Qed.

Lemma pack_ops_order d ops sf :
  order_of_run (pack_ops fnmatch t hashf compress uncompress bs half no_tail file0 host sched d ops sf)
  = Some (order_ops fnmatch t d ops sf).
Proof.
  unfold pack_ops, order_ops. destruct (run_adds d (fs_init d) ops) as [fs|]; [|reflexivity].
  destruct (post_process fs) as [pp| |]; try reflexivity. apply pack_sorted_order.
Qed.

Lemma pack_dir_order scan_fnmatch d cfg (sorted : bool) (h : hnode) sf :
  order_of_run (pack_dir fnmatch t hashf compress uncompress bs half no_tail file0 host sched scan_fnmatch d cfg sorted h sf)
  = Some (order_dir fnmatch t scan_fnmatch d cfg sorted h sf).
Proof.
  unfold pack_dir, order_dir. destruct (PackModel.scan_post scan_fnmatch d cfg sorted h (fs_init d)) as [[pp| |]|];
    try reflexivity. apply pack_sorted_order.
Qed.

End Layout.

(* ---------------------------------------------------------------------- *)
(* the tree                                                                  *)

(* fstree_sort_files touches next_by_type, data.file.priority / .flags and FLAG_FILE_ALREADY_MATCHED, none of which the
   serializer reads: sqfs_serialize_fstree works on fs->inodes ([pp_inodes]) and the tree, and the only part of its
   input that depends on the packing run at all are the file inodes the block processor filled in ([fb]).
   [shape]: the serializer's input with those erased. *)
Definition shape_node (n : TreeModel.fnode) : TreeModel.fnode :=
  match TreeModel.fn_payload n with
  | TreeModel.PFile _ =>
      TreeModel.mkFnode (TreeModel.fn_mode n) (TreeModel.fn_uid n) (TreeModel.fn_gid n) (TreeModel.fn_mtime n)
                        (TreeModel.fn_nlink n) (TreeModel.fn_xattr n) (TreeModel.PFile InodeModel.new_file_inode)
  | _ => n
  end.

Lemma tree_shape_order_free fb fb' xa pp :
  map shape_node (to_img fb xa pp) = map shape_node (to_img fb' xa pp).
Proof.
  unfold to_img. rewrite !map_map. apply map_ext. intro p. unfold node_img.
  destruct (lookup_path p (pp_root pp)) as [[nm a ch]|]; [|reflexivity].
  destruct (a_type a); reflexivity.
Qed.
