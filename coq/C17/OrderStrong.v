(* C17 — layout_follows_sort_file with the STRONG data-offset clause (audit 4, finding 1): the clause of OrderProofs.layout_ok
   said nothing about a file that does not carry dont_deduplicate.  Here: the strong layout log of ShareTheorems.v for the
   list pack_files hands over, its pairwise reading, the bytes at every block start, and the corollary for files whose
   first kept block is new: they lie strictly behind every earlier file - whatever their flag word. *)
From Coq Require Import List NArith ZArith Arith Bool Lia Sorted Permutation.
From SqfsV Require Import Gen.Constants.
From SqfsV Require Import C11.StrOrder C11.FstreeModel C11.PostModel C11.ScanModel.
From SqfsV Require Import ImgPost.Bridge ImgPost.ListPos.
From SqfsV Require Import ImgScan.ScanLinks.
From SqfsV Require ImgScan.PackModel.
From SqfsV Require Import C08.DedupModel C08.DedupLemmas C08.DedupWriterProofs.
From SqfsV Require Import C17.GenC17 C17.SortModel C17.SortProofs C17.FlagModel C17.FlagSpec C17.FlagFinal C17.FlagTheorems.
From SqfsV Require Import C17.OrderModel C17.OrderPaths C17.OrderTree C17.OrderProofs.
From SqfsV Require Import C17.ShareSpec C17.ShareTheorems.
Import ListNotations.

(* the list of (flags, contents) the block processor sees: pack_files over the sorted list, -T applied *)
Definition packed_files (no_tail : bool) (bs : nat) (contents : path -> list N) (order : list pfile)
  : list (uflags * list N) :=
  tool_files no_tail bs (pack_list contents order).

Section Layout.
Variable hashf : list N -> N.
Variable compress : list N -> option (list N).
Variable uncompress : list N -> nat -> option (list N).
Variable bs half : nat.
Hypothesis Hcomp : forall b c, compress b = Some c ->
  length c < length b /\ forall n, length b <= n -> uncompress c n = Some b.
Hypothesis Hbs : 0 < bs.
Hypothesis Hmax : (N.of_nat bs <= c_SQFS_MAX_BLOCK_SIZE)%N.
Hypothesis Hhalf : 0 < half.
Variable no_tail : bool.
Variable file0 : list N.
Variable sched : list nat.

Notation sbytes := (stored_bytes hashf compress bs no_tail).

(* what the data path guarantees about the layout of ANY list, without a word about dont_deduplicate *)
Definition share_ok (contents : path -> list N) (order : list pfile) (st : proc) : Prop :=
  let files := packed_files no_tail bs contents order in
  (* (a) the bytes at the block start of every file are its stored run *)
  (forall fid f, nth_error order fid = Some f ->
     slice (w_file (p_wr st)) (p_start st fid) (length (sbytes contents f)) = sbytes contents f /\
     (sbytes contents f <> [] -> p_start st fid + length (sbytes contents f) <= length (w_file (p_wr st)))) /\
  (* (b) the strong layout log exists *)
  (exists dlog, strong_log hashf compress bs file0 files st dlog) /\
  (* (c) its reading for two files i < j that both store a block, for every such log *)
  (forall dlog, strong_log hashf compress bs file0 files st dlog ->
   forall i j fi fj, i < j -> nth_error order i = Some fi -> nth_error order j = Some fj ->
     sbytes contents fi <> [] -> sbytes contents fj <> [] ->
     exists newer older,
       dlog = newer ++ {| de_kind := LFile j; de_loc := p_start st j; de_data := sbytes contents fj |} :: older /\
       let out_before := replay file0 older in
       p_start st i + length (sbytes contents fi) <= length out_before /\
       slice out_before (p_start st i) (length (sbytes contents fi)) = sbytes contents fi /\
       (p_start st j = length out_before \/
        (has_bit (pf_flags fj) c_SQFS_BLK_DONT_DEDUPLICATE = false /\ p_start st j < length out_before /\
         slice (out_before ++ sbytes contents fj) (p_start st j) (length (sbytes contents fj)) = sbytes contents fj /\
         exists c0 rest pb0, srun hashf compress bs files j = c0 :: rest /\ same_block pb0 c0 /\
           ((exists f, f < j /\ In pb0 (srun hashf compress bs files f)) \/ frag_origin hashf compress bs files pb0)))) /\
  (* (d) a file whose first kept block is no block of an earlier file and has no file's tail end as a prefix lies
         behind every earlier file *)
  (forall i j fi fj, i < j -> nth_error order i = Some fi -> nth_error order j = Some fj ->
     sbytes contents fi <> [] -> sbytes contents fj <> [] ->
     fresh_first bs files j = true ->
     p_start st i + length (sbytes contents fi) <= p_start st j).

Lemma packed_nth contents order k f : nth_error order k = Some f ->
  nth_error (packed_files no_tail bs contents order) k =
  Some (tool_flags no_tail bs (pf_flags f) (contents (pf_path f)), contents (pf_path f)).
Proof.
  intro H. unfold packed_files. apply nth_error_tool_files. unfold pack_list. rewrite nth_error_map, H. reflexivity.
Qed.

Lemma packed_share contents order st :
  tool_pack hashf compress uncompress bs half no_tail file0 (pack_list contents order) sched = DedupModel.Ok st ->
  share_ok contents order st.
Proof.
  intro E. unfold tool_pack in E. fold (packed_files no_tail bs contents order) in E.
  unfold share_ok. cbv zeta. split; [|split; [|split]].
  - intros fid f Hf.
    exact (stored_run_at_start_l hashf compress uncompress bs half Hcomp Hbs Hmax Hhalf file0 _ sched st E
             fid _ _ (packed_nth contents order fid f Hf)).
  - exact (layout_log_strong_l hashf compress uncompress bs half Hcomp Hbs Hmax Hhalf file0 _ sched st E).
  - intros dlog Hlog i j fi fj Hlt Hi Hj Si Sj.
    pose proof (layout_pair_strong_l hashf compress uncompress bs half Hcomp Hbs Hmax Hhalf file0 _ sched st E
                  dlog i j _ _ _ _ Hlog Hlt (packed_nth contents order i fi Hi) (packed_nth contents order j fj Hj) Si Sj) as L.
    rewrite dont_dedup_tool_flags in L. exact L.
  - intros i j fi fj Hlt Hi Hj Si Sj Hfr.
    exact (fresh_behind_l hashf compress uncompress bs half Hcomp Hbs Hmax Hhalf file0 _ sched st E
             i j _ _ _ _ Hlt (packed_nth contents order i fi Hi) (packed_nth contents order j fj Hj) Si Sj Hfr).
Qed.

Variable fnmatch : list N -> list N -> bool -> bool.
Variable t : bool.
Variable host : list N -> list N.

Notation run_pp := (pack_sorted fnmatch t hashf compress uncompress bs half no_tail file0 host sched).
Notation layout_ok' := (layout_ok hashf compress uncompress bs no_tail file0 fnmatch host).

Definition layout_ok_strong (pp : ppout) (ds : list directive) (order : list pfile) (st : proc) : Prop :=
  layout_ok' pp ds order st /\ share_ok (node_contents host pp) order st.

Lemma run_share pp sf order st : run_pp pp sf = ODone order st -> share_ok (node_contents host pp) order st.
Proof.
  unfold pack_sorted. destruct (sort_stage fnmatch t sf (pp_files pp)) as [o|]; [|discriminate].
  destruct (tool_pack hashf compress uncompress bs half no_tail file0 (pack_list (node_contents host pp) o) sched)
    as [s| |] eqn:E; try discriminate.
  intro H. inversion H; subst. apply packed_share. exact E.
Qed.

Lemma layout_strong_pp pp text :
  files_ok pp ->
  match parse_all t (get_lines text) with
  | Some ds => exists order st, run_pp pp (Some text) = ODone order st /\ layout_ok_strong pp ds order st
  | None => run_pp pp (Some text) = OSortErr
  end.
Proof.
  intro Hok. pose proof (layout_follows_sort_file_pp hashf compress uncompress bs half Hcomp Hbs Hmax Hhalf no_tail
                           file0 sched fnmatch t host pp text Hok) as H.
  destruct (parse_all t (get_lines text)) as [ds|]; [|exact H].
  destruct H as (order & st & E & L). exists order, st. split; [exact E|]. split; [exact L|].
  exact (run_share pp _ order st E).
Qed.

Lemma layout_strong_default pp :
  files_ok pp -> exists order st, run_pp pp None = ODone order st /\ layout_ok_strong pp [] order st /\
                                  order = annot_list fnmatch [] (pp_files pp).
Proof.
  intro Hok. destruct (layout_default_pp hashf compress uncompress bs half Hcomp Hbs Hmax Hhalf no_tail
                         file0 sched fnmatch t host pp Hok) as (order & st & E & L & Eo).
  exists order, st. split; [exact E|]. split; [|exact Eo]. split; [exact L|]. exact (run_share pp _ order st E).
Qed.

Lemma layout_strong_ops d ops fs pp text :
  ops_clean ops -> run_adds d (fs_init d) ops = Some fs -> post_process fs = PostModel.POk pp ->
  match parse_all t (get_lines text) with
  | Some ds => exists order st,
      pack_ops fnmatch t hashf compress uncompress bs half no_tail file0 host sched d ops (Some text) = ODone order st /\
      layout_ok_strong pp ds order st
  | None => pack_ops fnmatch t hashf compress uncompress bs half no_tail file0 host sched d ops (Some text) = OSortErr
  end.
Proof.
  intros Hc Hr Hp. unfold pack_ops. rewrite Hr, Hp.
  apply layout_strong_pp. exact (ops_files_ok d ops fs pp Hc Hr Hp).
Qed.

Lemma layout_strong_dir scan_fnmatch d cfg (sorted : bool) (h : hnode) pp text :
  cleanp (c_prefix cfg) -> hok_rootb (if sorted then canon h else h) = true ->
  PackModel.scan_post scan_fnmatch d cfg sorted h (fs_init d) = Some (PostModel.POk pp) ->
  match parse_all t (get_lines text) with
  | Some ds => exists order st,
      pack_dir fnmatch t hashf compress uncompress bs half no_tail file0 host sched scan_fnmatch d cfg sorted h (Some text)
      = ODone order st /\ layout_ok_strong pp ds order st
  | None =>
      pack_dir fnmatch t hashf compress uncompress bs half no_tail file0 host sched scan_fnmatch d cfg sorted h (Some text)
      = OSortErr
  end.
Proof.
  intros Hpre Hok Hs. unfold pack_dir. rewrite Hs.
  apply layout_strong_pp. exact (scan_files_ok scan_fnmatch d cfg Hpre sorted h pp Hok Hs).
Qed.

(* the headline in terms of the nodes, with no escape: if the first kept block of every file of the packing list is new,
   the file the directives put first lies first, strictly *)
Lemma layout_by_priority_strong pp ds order st fa fb :
  files_ok pp -> layout_ok_strong pp ds order st ->
  (forall j, j < length order ->
             fresh_first bs (packed_files no_tail bs (node_contents host pp) order) j = true) ->
  In fa order -> In fb order -> pf_before fa fb ->
  exists i j, fid_of order (pf_path fa) = Some i /\ fid_of order (pf_path fb) = Some j /\ i < j /\
    (sbytes (node_contents host pp) fa <> [] -> sbytes (node_contents host pp) fb <> [] ->
     p_start st i + length (sbytes (node_contents host pp) fa) <= p_start st j /\ p_start st i < p_start st j).
Proof.
  intros Hok [L (_ & _ & _ & Hd)] Hfr Ha Hb Hab.
  destruct (layout_by_priority hashf compress uncompress bs no_tail file0 fnmatch host pp ds order st fa fb Hok L Ha Hb Hab)
    as (i & j & Fi & Fj & Hlt & _).
  exists i, j. split; [exact Fi|]. split; [exact Fj|]. split; [exact Hlt|]. intros Sa Sb.
  assert (Ni : nth_error order i = Some fa /\ nth_error order j = Some fb).
  { destruct Hok as [Hn Hc]. destruct L as (P & _).
    assert (Nd : NoDup (map pf_path order)).
    { eapply Permutation_NoDup; [apply Permutation_sym, Permutation_map; exact P|].
      rewrite annot_list_paths. exact Hn. }
    destruct (In_nth_error _ _ Ha) as (i' & Hi'). destruct (In_nth_error _ _ Hb) as (j' & Hj').
    unfold fid_of in Fi, Fj.
    rewrite (nth_index_nodup _ _ _ Nd (eq_trans (nth_error_map pf_path i' order) (f_equal (option_map pf_path) Hi'))) in Fi.
    rewrite (nth_index_nodup _ _ _ Nd (eq_trans (nth_error_map pf_path j' order) (f_equal (option_map pf_path) Hj'))) in Fj.
    inversion Fi; inversion Fj; subst. split; assumption. }
  destruct Ni as [Ni Nj].
  assert (Lj : j < length order) by (apply nth_error_Some; congruence).
  pose proof (Hd i j fa fb Hlt Ni Nj Sa Sb (Hfr j Lj)) as H. split; [exact H|].
  destruct (sbytes (node_contents host pp) fa); [contradiction|simpl in H; lia].
Qed.

End Layout.
