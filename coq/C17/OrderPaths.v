(* C17 — fstree_get_path + canonicalize_name on the nodes of a tree whose names are clean (not empty, no '/', not "."
   or ".."): the canonical path of the node with components p is ImgScan's [join_slash p] - what pack_files prints
   and opens - and distinct nodes have distinct canonical paths.  These are the two hypotheses of
   first_match_wins (SortProofs.v), discharged for the file list of a tree. *)
From Coq Require Import List NArith ZArith Bool Lia.
From SqfsV Require Import C18.CanonModel C18.CanonSpec C18.CanonProofs.
From SqfsV Require Import C11.StrOrder C11.FstreeModel C11.PostModel.
From SqfsV Require Import ImgScan.ScanLinks.
From SqfsV Require Import C17.SortModel C17.SortProofs C17.OrderModel.
Import ListNotations.
Local Open Scope N_scope.

Lemma join_slash_is_join : forall p : path, join_slash p = CanonSpec.join p.
Proof.
  induction p as [|c r IH]; [reflexivity|]. destruct r as [|c2 r']; [reflexivity|].
  change (join_slash (c :: c2 :: r')) with (c ++ FstreeModel.slash :: join_slash (c2 :: r')).
  rewrite IH. reflexivity.
Qed.

Lemma existsb_slash_has_slash (c : list N) : existsb (N.eqb FstreeModel.slash) c = has_slash c.
Proof.
  induction c as [|x c IH]; [reflexivity|]. cbn [existsb has_slash]. rewrite IH.
  change FstreeModel.slash with CanonModel.slash. rewrite (N.eqb_sym CanonModel.slash x).
  destruct (x =? CanonModel.slash); reflexivity.
Qed.

Lemma is_dot_agree (c : list N) : FstreeModel.is_dot c = CanonSpec.is_dot c.
Proof.
  unfold FstreeModel.is_dot, CanonSpec.is_dot. destruct c as [|d [|e r]]; cbn; try reflexivity.
  - change FstreeModel.dot with CanonModel.dot. destruct (d =? CanonModel.dot); reflexivity.
  - destruct (d =? CanonModel.dot); reflexivity.
Qed.

Lemma is_dotdot_agree (c : list N) : FstreeModel.is_dotdot c = CanonSpec.is_dotdot c.
Proof.
  unfold FstreeModel.is_dotdot, CanonSpec.is_dotdot. destruct c as [|d [|e [|f r]]]; cbn; try reflexivity.
  - destruct (d =? CanonModel.dot); reflexivity.
  - change FstreeModel.dot with CanonModel.dot.
    destruct (d =? CanonModel.dot); [|reflexivity]. destruct (e =? CanonModel.dot); reflexivity.
  - destruct (d =? CanonModel.dot); [|reflexivity]. destruct (e =? CanonModel.dot); reflexivity.
Qed.

(* a clean name in C18's vocabulary *)
Lemma clean_name c : cleancb c = true ->
  good c /\ CanonSpec.is_dot c = false /\ CanonSpec.is_dotdot c = false.
Proof.
  unfold cleancb. rewrite !andb_true_iff, !negb_true_iff. intros [[[A B] C] D].
  rewrite existsb_slash_has_slash in B. rewrite is_dot_agree in C. rewrite is_dotdot_agree in D.
  split; [|split; assumption]. split; [|exact B]. intro E. subst c. discriminate A.
Qed.

Lemma clean_good p : cleanp p -> Forall good p.
Proof. intro H. eapply Forall_impl; [|exact H]. intros c Hc. apply (clean_name c Hc). Qed.

Lemma comps_slash x : comps (CanonModel.slash :: x) = comps x.
Proof. unfold comps. cbn [CanonSpec.split_slash]. rewrite N.eqb_refl. reflexivity. Qed.

Lemma comps_get_path : forall p, cleanp p -> comps (get_path p) = p.
Proof.
  intros p Hc. destruct p as [|c0 r0]; [reflexivity|]. unfold get_path.
  remember (c0 :: r0) as p eqn:Ep. clear Ep c0 r0.
  induction p as [|c r IH]; [reflexivity|]. inversion Hc as [|? ? Hc1 Hc2]; subst.
  cbn [flat_map app]. change FstreeModel.slash with CanonModel.slash. rewrite comps_slash.
  destruct (clean_name c Hc1) as (G & _ & _).
  destruct r as [|c2 r'].
  - cbn [flat_map]. rewrite app_nil_r. apply comps_noslash. exact G.
  - specialize (IH Hc2). cbn [flat_map app] in *. change FstreeModel.slash with CanonModel.slash in *.
    rewrite comps_app_slash by exact G. rewrite comps_slash in IH. rewrite IH. reflexivity.
Qed.

(* canonicalize_name(fstree_get_path(node)) succeeds and yields the '/'-joined components *)
Lemma canon_get_path p : cleanp p -> canon_result (get_path p) = Some (join_slash p).
Proof.
  intro Hc. rewrite canon_refines_l. unfold canon_spec. rewrite (comps_get_path p Hc).
  assert (E1 : existsb CanonSpec.is_dotdot p = false).
  { apply not_true_is_false. intro E. apply existsb_exists in E. destruct E as (x & Hx & Ex).
    unfold cleanp in Hc. rewrite Forall_forall in Hc. destruct (clean_name x (Hc x Hx)) as (_ & _ & D). congruence. }
  rewrite E1. f_equal. rewrite (join_slash_is_join p). f_equal. clear E1.
  induction Hc as [|c r Hc1 _ IH]; [reflexivity|]. cbn [filter].
  destruct (clean_name c Hc1) as (_ & D & _). rewrite D. cbn [negb]. rewrite IH. reflexivity.
Qed.

Lemma cpath_get_path p : cleanp p -> cpath_of (get_path p) = join_slash p.
Proof. intro Hc. unfold cpath_of. rewrite (canon_get_path p Hc). reflexivity. Qed.

Lemma join_slash_inj p q : cleanp p -> cleanp q -> join_slash p = join_slash q -> p = q.
Proof.
  intros Hp Hq E. rewrite !join_slash_is_join in E.
  rewrite <- (comps_join p (clean_good p Hp)), <- (comps_join q (clean_good q Hq)), E. reflexivity.
Qed.

Lemma NoDup_map_inj_on {A B} (f : A -> B) (l : list A) :
  NoDup l -> (forall x y, In x l -> In y l -> f x = f y -> x = y) -> NoDup (map f l).
Proof.
  induction 1 as [|a r Hn Hr IH]; intro Hinj; [constructor|]. cbn [map]. constructor.
  - intro Hin. apply in_map_iff in Hin. destruct Hin as (y & Ey & Hy).
    assert (y = a) by (apply Hinj; [right; exact Hy|left; reflexivity|exact Ey]). subst y. contradiction.
  - apply IH. intros x y Hx Hy. apply Hinj; right; assumption.
Qed.

(* the two hypotheses of first_match_wins for a list of distinct clean paths *)
Lemma file_strings_ok (files : list path) :
  NoDup files -> Forall cleanp files ->
  Forall (fun s => canon_result s <> None) (map get_path files) /\
  NoDup (map cpath_of (map get_path files)) /\
  map cpath_of (map get_path files) = map join_slash files.
Proof.
  intros Hn Hc. rewrite Forall_forall in Hc.
  assert (E : map cpath_of (map get_path files) = map join_slash files).
  { rewrite map_map. apply map_ext_in. intros p Hp. apply cpath_get_path. apply Hc. exact Hp. }
  split; [|split; [|exact E]].
  - apply Forall_forall. intros s Hs. apply in_map_iff in Hs. destruct Hs as (p & <- & Hp).
    rewrite (canon_get_path p (Hc p Hp)). discriminate.
  - rewrite E. apply NoDup_map_inj_on; [exact Hn|].
    intros x y Hx Hy. apply join_slash_inj; apply Hc; assumption.
Qed.
