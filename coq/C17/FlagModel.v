(* C17 — glue between the sort-file side (SortModel.v: the flag word a node ends up with, pack_flags of
   pack_file / write_file) and the block processor + block writer model of C08 (DedupModel.v: pack):

     node flag word  --pack_flags (-T)-->  flag word of sqfs_block_processor_begin_file
                     --uflags_of------->   the user flags the block processor model works with
                     --pack------------>   inodes (block start, size words, fragment reference),
                                           fragment table, output file.

   Definitions only (extracted by Extract/ExtractC17Flags.v); statements and proofs are in Flag*.v. *)
From Coq Require Import List NArith Arith Bool.
From SqfsV Require Import C08.DedupModel C17.GenC17 C17.SortModel.
Import ListNotations.

(* flags & SQFS_BLK_x, for the bit values of sqfs/block.h (GenC17.v is regenerated from the header) *)
Definition has_bit (w m : N) : bool := negb (N.eqb (N.land w m) 0).

(* the SQFS_BLK_* user flags begin_file stores in proc->blk_flags; DedupModel keeps them as a record *)
Definition uflags_of (w : N) : uflags :=
  {| uf_dont_compress := has_bit w c_SQFS_BLK_DONT_COMPRESS;
     uf_dont_hash := has_bit w c_SQFS_BLK_DONT_HASH;
     uf_dont_fragment := has_bit w c_SQFS_BLK_DONT_FRAGMENT;
     uf_dont_dedup := has_bit w c_SQFS_BLK_DONT_DEDUPLICATE;
     uf_ignore_sparse := has_bit w c_SQFS_BLK_IGNORE_SPARSE |}.

(* pack_file (mkfs.c) / write_file (process_tarball.c): what reaches the block processor for a file
   with node flag word [w] and content [d] when gensquashfs / tar2sqfs run with or without -T *)
Definition tool_flags (no_tail : bool) (bs : nat) (w : N) (d : list N) : uflags :=
  uflags_of (pack_flags no_tail (N.of_nat (length d)) (N.of_nat bs) w).

Definition tool_files (no_tail : bool) (bs : nat) (l : list (N * list N)) : list (uflags * list N) :=
  map (fun f => (tool_flags no_tail bs (fst f) (snd f), snd f)) l.

(* a block the worker keeps: not empty and not dropped as a hole *)
Definition kept (ignore_sparse : bool) (b : list N) : bool :=
  negb (length b =? 0) && negb (negb ignore_sparse && all_zero b).

(* the whole packer of the tools on a list of (node flag word, content) in packing order *)
Definition tool_pack (hashf : list N -> N) (compress : list N -> option (list N))
           (uncompress : list N -> nat -> option (list N)) (bs half : nat) (no_tail : bool)
           (file0 : list N) (l : list (N * list N)) (sched : list nat) : DedupModel.res proc :=
  pack hashf compress uncompress bs false true half file0 (tool_files no_tail bs l) sched.
